import PyAirtouch.Lemmas.Api5Handshake
/-!
# Runs of the AirTouch 5 API model: frames, noise, answers, silence
-/
namespace PyAirtouch.Lemmas.Api5
open PyAirtouch.Model PyAirtouch.Model.Api5 PyAirtouch.Model.At5 PyAirtouch.Model.At5.Registry
open PyAirtouch.Model.TimerCommon (AcTimerState AcTimerStatusData)
open PyAirtouch.Model.Heartbeat
open PyAirtouch.Gen PyAirtouch.Gen.Api5

/-- the state after a list of ops -/
def runS (s : State) (ops : List Op) : State := (Api5.run s ops).1
/-- all outputs of a list of ops, in order -/
def runOut (s : State) (ops : List Op) : List Out := (Api5.run s ops).2.flatten

@[simp] theorem runS_nil (s : State) : runS s [] = s := rfl
@[simp] theorem runS_cons (s : State) (o : Op) (ops : List Op) : runS s (o :: ops) = runS (apiStep s o).1 ops := rfl
@[simp] theorem runOut_nil (s : State) : runOut s [] = [] := rfl
@[simp] theorem runOut_cons (s : State) (o : Op) (ops : List Op) :
    runOut s (o :: ops) = (apiStep s o).2 ++ runOut (apiStep s o).1 ops := by
  simp [runOut, Api5.run]

theorem runS_append (s : State) (a b : List Op) : runS s (a ++ b) = runS (runS s a) b := by
  induction a generalizing s with
  | nil => rfl
  | cons o a ih => simp [ih]

theorem runOut_append (s : State) (a b : List Op) : runOut s (a ++ b) = runOut s a ++ runOut (runS s a) b := by
  induction a generalizing s with
  | nil => simp
  | cons o a ih => simp [ih]

/-- what the console can make arrive: a decodable frame or an undecodable one -/
def Op.isFrame : Op → Bool
  | .msg _ _ | .undecodable _ => true
  | _ => false

theorem frame_mono (s : State) (o : Op) (h : Op.isFrame o = true) : Mono s (apiStep s o).1 := by
  cases o <;> simp [Op.isFrame] at h
  · exact doMsg_mono s _ _
  · exact mono_of_sameCtl (SameCtl.refl s)

/-- `CONNECTED` implies the event is set -/
def ConnInit (s : State) : Prop := s.st = .CONNECTED → s.initialised = true

theorem mono_connInit {s s' : State} (h : Mono s s') (hc : ConnInit s) : ConnInit s' := by
  intro h1
  by_cases h2 : s.st = .CONNECTED
  · exact h.initialised (hc h2)
  · exact h.connected h1 h2

theorem frames_mono (s : State) (ops : List Op) (hall : ∀ o ∈ ops, Op.isFrame o = true) (hs : Handshaking s) (hc : ConnInit s) :
    Handshaking (runS s ops) ∧ ConnInit (runS s ops) ∧ rank s.st ≤ rank (runS s ops).st := by
  induction ops generalizing s with
  | nil => exact ⟨hs, hc, Nat.le_refl _⟩
  | cons o ops ih =>
    have hm := frame_mono s o (hall o (by simp))
    obtain ⟨h1, h2⟩ := mono_handshaking hm hs
    obtain ⟨g1, g2, g3⟩ := ih (apiStep s o).1 (fun o' ho' => hall o' (by simp [ho'])) h1 (mono_connInit hm hc)
    exact ⟨g1, g2, Nat.le_trans h2 g3⟩

theorem rank_inj {a b : AirTouchState} (h : rank a = rank b) : a = b := by
  cases a <;> cases b <;> simp [rank] at h <;> rfl

/-- arbitrary frames, then an answer for the state `st`: afterwards the state machine is beyond `st` -/
theorem noise_then_answer (s : State) (hs : Handshaking s) (hc : ConnInit s) (st : AirTouchState)
    (hk : rank st ≤ rank s.st) (h7 : rank st ≤ 7) (n : List Op) (hn : ∀ o ∈ n, Op.isFrame o = true)
    (toAddr : Nat) (m : Msg) (ha : answers st toAddr m = true) (hok : (runS s n).st = st → abilityOk (runS s n) m) :
    Handshaking (runS s (n ++ [.msg toAddr m])) ∧ ConnInit (runS s (n ++ [.msg toAddr m])) ∧
      rank st + 1 ≤ rank (runS s (n ++ [.msg toAddr m])).st := by
  obtain ⟨h1, h2, h3⟩ := frames_mono s n hn hs hc
  rw [runS_append]
  simp only [runS_cons, runS_nil]
  have hm := frame_mono (runS s n) (.msg toAddr m) rfl
  obtain ⟨g1, g2⟩ := mono_handshaking hm h1
  refine ⟨g1, mono_connInit hm h2, ?_⟩
  by_cases he : rank (runS s n).st = rank st
  · have hst := rank_inj he
    have := answer_advances (runS s n) toAddr m h1 (by rw [hst]; exact ha) (hok hst)
    simp only [apiStep]
    rw [this, rank_nextState _ (by rw [hst]; exact h7), hst]
    exact Nat.le_refl _
  · have : rank st < rank (runS s n).st := by omega
    omega


/-! ### outputs of a frame that cannot complete the handshake -/

/-- a send or a notification (in particular: no `RESULT`, no `HBSTART`, no exception report) -/
def SendOrNotify (o : Out) : Prop := o.isSend = true ∨ o.isNotify = true

theorem sn_send (p : Policy) (m : Msg) (b : Bool) : SendOrNotify (.send p m b) := .inl rfl
theorem sn_of_notify {o : Out} (h : o.isNotify = true) : SendOrNotify o := .inr h

theorem updateAcStatus_sn (s : State) (r : Nat) (d : C023.AcStatusData) : AllOut SendOrNotify (updateAcStatus s r d) := by
  unfold updateAcStatus
  split
  · exact allOut_nil _ _ _
  · split
    · exact allOut_nil _ _ _
    · split
      · refine allOut_andThen (allOut_sendMsg _ _ _ _ (sn_send _ _ _)) ?_
        intro s'
        exact allOut_of_list _ _ _ (fun o ho => sn_of_notify (acNotifyAll_isNotify _ o ho))
      · exact allOut_of_list _ _ _ (fun o ho => sn_of_notify (acNotifyAll_isNotify _ o ho))

theorem updateAcTimer_sn (s : State) (r : Nat) (d : AcTimerStatusData) : AllOut SendOrNotify (updateAcTimer s r d) := by
  unfold updateAcTimer
  repeat' split
  all_goals first
    | exact allOut_nil _ _ _
    | exact allOut_of_list _ _ _ (fun o ho => sn_of_notify (acNotifyAll_isNotify _ o ho))

theorem updateAcErrInfo_sn (s : State) (r : Nat) (e : Option Bytes) : AllOut SendOrNotify (updateAcErrInfo s r e) := by
  unfold updateAcErrInfo
  repeat' split
  all_goals first
    | exact allOut_nil _ _ _
    | exact allOut_of_list _ _ _ (fun o ho => sn_of_notify (acNotifyAll_isNotify _ o ho))

theorem updateZoneStatus_sn (s : State) (r : Nat) (d : C021.ZoneStatusData) : AllOut SendOrNotify (updateZoneStatus s r d) := by
  unfold updateZoneStatus
  repeat' split
  all_goals first
    | exact allOut_nil _ _ _
    | exact allOut_of_list _ _ _ (fun o ho => sn_of_notify (zoneNotify_isNotify _ _ o ho))

theorem processAcStatus_sn (l : List C023.AcStatusData) (s : State) : AllOut SendOrNotify (processAcStatus l s) := by
  unfold processAcStatus
  refine allOut_forEach _ _ ?_ s
  intro s d; split
  · exact updateAcStatus_sn _ _ _
  · exact allOut_nil _ _ _

theorem processAcTimer_sn (l : List AcTimerStatusData) (s : State) : AllOut SendOrNotify (processAcTimer l s) := by
  unfold processAcTimer
  refine allOut_forEach _ _ ?_ s
  intro s d; split
  · exact updateAcTimer_sn _ _ _
  · exact allOut_nil _ _ _

theorem processZoneStatus_sn (l : List C021.ZoneStatusData) (s : State) : AllOut SendOrNotify (processZoneStatus l s) := by
  unfold processZoneStatus
  refine allOut_forEach _ _ ?_ s
  intro s d; split
  · exact updateZoneStatus_sn _ _ _
  · exact allOut_nil _ _ _

theorem processAcAbility_sn (l : List FF11.AcAbility) (s : State) : AllOut SendOrNotify (processAcAbility l s) := by
  unfold processAcAbility
  refine allOut_forEach _ _ ?_ s
  intro s d; split <;> exact allOut_nil _ _ _

theorem processErrInfo_sn (m : FF10.AcErrorInformationMessage) (s : State) : AllOut SendOrNotify (processErrInfo m s) := by
  unfold processErrInfo
  split
  · exact updateAcErrInfo_sn _ _ _
  · exact allOut_nil _ _ _

theorem processConsoleVersionUpdate_sn (m : FF30.ConsoleVersionMessage) (s : State) :
    AllOut SendOrNotify (processConsoleVersionUpdate m s) := by
  unfold processConsoleVersionUpdate
  split
  · exact allOut_nil _ _ _
  · intro o ho
    simp only [List.mem_map] at ho
    obtain ⟨x, _, rfl⟩ := ho
    exact .inr rfl

/-- a frame that is not an answer to the zone-status request can only make the API send and notify -/
theorem handleMessage_sn (s : State) (toAddr : Nat) (m : Msg) (h : answers .INIT_ZONE_STATUS toAddr m = false) :
    AllOut SendOrNotify (handleMessage s toAddr m) := by
  unfold handleMessage
  dsimp only
  split
  all_goals (repeat' split)
  all_goals first
    | exact allOut_nil _ _ _
    | exact allOut_sendMsg _ _ _ _ (sn_send _ _ _)
    | exact processConsoleVersionUpdate_sn _ _
    | exact processAcStatus_sn _ _
    | exact processAcTimer_sn _ _
    | exact processZoneStatus_sn _ _
    | exact processErrInfo_sn _ _
    | exact allOut_andThen (processAcAbility_sn _ _) (fun _ => allOut_sendMsg _ _ _ _ (sn_send _ _ _))
    | exact allOut_andThen (processAcStatus_sn _ _) (fun _ => allOut_sendMsg _ _ _ _ (sn_send _ _ _))
    | exact allOut_andThen (processAcTimer_sn _ _) (fun _ => allOut_sendMsg _ _ _ _ (sn_send _ _ _))
    | (simp_all [answers]; done)

/-- … and cannot bring the state machine to CONNECTED -/
theorem doMsg_not_connected (s : State) (toAddr : Nat) (m : Msg) (h : answers .INIT_ZONE_STATUS toAddr m = false)
    (hne : s.st ≠ .CONNECTED) : (doMsg s toAddr m).1.st ≠ .CONNECTED := by
  have hm := doMsg_mono s toAddr m
  by_cases hz : s.st = .INIT_ZONE_STATUS
  · -- not an answer: the frame handler leaves the control state alone
    unfold doMsg
    split
    · have h1 := (handleMessage_not_answer s toAddr m (by rw [hz]; exact h) hne).1.st
      split
      · simp only [hbFeed]; rw [h1]; exact hne
      · rw [h1]; exact hne
    · exact hne
  · rcases hm.st with h1 | ⟨h1, _, _⟩
    · rw [h1]; exact hne
    · rw [h1]
      revert hz hne
      cases s.st <;> simp [nextState]


/-! ### silence: a waiting `init()` and a console that never completes the handshake -/

/-- one `init()` is waiting with deadline `d` (or has timed out), the event is clear, the heartbeat manager idle -/
structure Silent (d : Nat) (s : State) : Prop where
  idle : HbIdle s.hb
  ninit : s.initialised = false
  sockOpen : s.sockOpen = true
  pend : s.pendingInits = if s.now < d then [d] else []
  notConn : s.st ≠ .CONNECTED

/-- ops under which the handshake cannot complete: time passing, connection changes, undecodable frames, and any frame
that is not an answer to the last request (the zone-status request) -/
def Op.isQuiet : Op → Bool
  | .adv _ | .conn _ | .undecodable _ => true
  | .msg toAddr m => !answers .INIT_ZONE_STATUS toAddr m
  | _ => false

/-- what such an op can emit -/
def SilentOut (s : State) (d : Nat) (op : Op) (o : Out) : Prop :=
  match o with
  | .send _ _ _ | .notifyAt _ | .notifyAc _ _ _ | .notifyZone _ _ | .undecodable _ => True
  | .subscriberExc _ => ∃ toAddr m, op = .msg toAddr m      -- only a frame handler's exception (e.g. `KeyError`)
  | .result t => t = "init False" ∧ ∃ n, op = .adv n ∧ s.now < d ∧ d ≤ s.now + n
  | _ => False

theorem silentOut_of_sn {s : State} {d : Nat} {op : Op} {o : Out} (h : SendOrNotify o) : SilentOut s d op o := by
  cases o <;> simp [SendOrNotify, Out.isSend, Out.isNotify] at h <;> trivial

theorem sendMsg_open (s : State) (p : Policy) (m : Msg) (b : Bool) (hopen : s.sockOpen = true) :
    sendMsg s p m b = { s := s, out := [.send p m b], exc := none } := by
  simp [sendMsg, hopen]

theorem handleConnection_spec (s : State) (up : Bool) (hopen : s.sockOpen = true) :
    (handleConnection s up).exc = none ∧ (∀ o ∈ (handleConnection s up).out, o.isSend = true) ∧
    ∃ st', (handleConnection s up).s = { s with st := st' } ∧ (st' = s.st ∨ (st' = .INIT_VERSION ∧ s.st = .CONNECTING)) := by
  cases up with
  | false =>
    have e : handleConnection s false = { s := s } := by simp [handleConnection]
    rw [e]
    exact ⟨rfl, by simp, s.st, rfl, .inl rfl⟩
  | true =>
    by_cases hst : s.st = .CONNECTING
    · have e : handleConnection s true = sendMsg { s with st := .INIT_VERSION } .connected msgConsoleVersionRequest := by
        simp [handleConnection, hst]
      rw [e, sendMsg_open { s with st := .INIT_VERSION } _ _ _ hopen]
      exact ⟨rfl, by simp [Out.isSend], .INIT_VERSION, rfl, .inr ⟨rfl, hst⟩⟩
    · have e : handleConnection s true = (sendMsg s .connected msgAcStatusRequest).andThen
          fun s => sendMsg s .connected msgZoneStatusRequest := by
        simp [handleConnection, hst]
      rw [e]
      refine ⟨by simp [HR.andThen, sendMsg_open _ _ _ _ hopen], by simp [HR.andThen, sendMsg_open _ _ _ _ hopen, Out.isSend],
        s.st, by simp [HR.andThen, sendMsg_open _ _ _ _ hopen], .inl rfl⟩

/-- ticks an op lets pass -/
def Op.ticks : Op → Nat
  | .adv n => n
  | _ => 0

theorem doMsg_st (s : State) (toAddr : Nat) (m : Msg) (hsub : s.sockSubscribed = true) :
    (doMsg s toAddr m).1.st = (handleMessage s toAddr m).s.st := by
  unfold doMsg
  simp only [hsub, if_true]
  split <;> rfl

theorem silent_step (d : Nat) (s : State) (op : Op) (h : Silent d s) (hq : Op.isQuiet op = true) :
    Silent d (apiStep s op).1 ∧ (∀ o ∈ (apiStep s op).2, SilentOut s d op o) ∧
    (Out.result "init False" ∈ (apiStep s op).2 ↔ ∃ n, op = .adv n ∧ s.now < d ∧ d ≤ s.now + n) ∧
    (apiStep s op).1.now = s.now + Op.ticks op := by
  cases op <;> simp [Op.isQuiet] at hq
  case conn up =>
    have hidle := hbFeed_idle s (.conn up s.now) h.idle (.inr (.inl ⟨up, s.now, rfl⟩))
    obtain ⟨hb', hs⟩ := hbFeed_ctl s (.conn up s.now)
    have hS1 : Silent d (hbFeed s (.conn up s.now)).1 := by
      refine ⟨hidle, ?_, ?_, ?_, ?_⟩ <;> rw [hs]
      · exact h.ninit
      · exact h.sockOpen
      · exact h.pend
      · exact h.notConn
    have hnow1 : (hbFeed s (.conn up s.now)).1.now = s.now := by rw [hs]
    have hsub1 : (hbFeed s (.conn up s.now)).1.sockSubscribed = s.sockSubscribed := by rw [hs]
    have e : apiStep s (.conn up) =
        if (hbFeed s (.conn up s.now)).1.sockSubscribed = true then
          ((handleConnection (hbFeed s (.conn up s.now)).1 up).s, excOut (handleConnection (hbFeed s (.conn up s.now)).1 up))
        else ((hbFeed s (.conn up s.now)).1, []) := rfl
    revert e
    generalize (hbFeed s (.conn up s.now)).1 = s1 at hS1 hnow1 hsub1 ⊢
    intro e
    rw [e]
    obtain ⟨e1, e2, st', e3, e4⟩ := handleConnection_spec s1 up hS1.sockOpen
    split
    · refine ⟨?_, ?_, ?_, ?_⟩
      · show Silent d (handleConnection s1 up).s
        rw [e3]
        refine ⟨hS1.idle, hS1.ninit, hS1.sockOpen, hS1.pend, ?_⟩
        rcases e4 with e4 | ⟨e4, _⟩
        · show st' ≠ .CONNECTED
          rw [e4]; exact hS1.notConn
        · show st' ≠ .CONNECTED
          rw [e4]; simp
      · intro o ho
        simp only [excOut, e1, List.append_nil] at ho
        exact silentOut_of_sn (.inl (e2 o ho))
      · constructor
        · intro ho
          simp only [excOut, e1, List.append_nil] at ho
          have := e2 _ ho
          simp [Out.isSend] at this
        · rintro ⟨n, hn, _⟩; cases hn
      · show (handleConnection s1 up).s.now = s.now + 0
        rw [e3]; exact hnow1
    · refine ⟨hS1, by simp, ?_, hnow1⟩
      constructor
      · intro ho; simp at ho
      · rintro ⟨n, hn, _⟩; cases hn
  case msg toAddr m =>
    have ha : answers .INIT_ZONE_STATUS toAddr m = false := by simpa using hq
    have hm := doMsg_mono s toAddr m
    have hnc := doMsg_not_connected s toAddr m ha h.notConn
    obtain ⟨q1, q2, q3⟩ := hm.quiet (.inl hnc)
    simp only [apiStep]
    refine ⟨⟨q3 h.idle, by rw [q1]; exact h.ninit, by rw [hm.sockOpen]; exact h.sockOpen, by rw [q2, hm.now]; exact h.pend, hnc⟩, ?_, ?_, hm.now⟩
    · intro o ho
      unfold doMsg at ho
      split at ho
      · rename_i hsub
        simp only [List.mem_append] at ho
        rcases ho with ho | ho
        · simp only [excOut, List.mem_append] at ho
          rcases ho with ho | ho
          · exact silentOut_of_sn (handleMessage_sn s toAddr m ha o ho)
          · split at ho <;> simp at ho
            subst ho; exact ⟨toAddr, m, rfl⟩
        · split at ho
          · have hst' : (handleMessage s toAddr m).s.st ≠ .CONNECTED := by
              rw [← doMsg_st s toAddr m hsub]; exact hnc
            have hi : HbIdle (handleMessage s toAddr m).s.hb :=
              ((handleMessage_mono s toAddr m).quiet (.inl hst')).2.2 h.idle
            rw [hbFeed_resp_idle_out _ _ hi] at ho
            simp at ho
          · simp at ho
      · simp at ho
    · constructor
      · intro ho
        exfalso
        unfold doMsg at ho
        split at ho
        · simp only [List.mem_append] at ho
          rcases ho with ho | ho
          · simp only [excOut, List.mem_append] at ho
            rcases ho with ho | ho
            · rcases handleMessage_sn s toAddr m ha _ ho with h1 | h1 <;> simp [Out.isSend, Out.isNotify] at h1
            · split at ho <;> simp at ho
          · split at ho
            · rcases hbFeed_out _ _ _ ho with h1 | h1 <;> cases h1
            · simp at ho
        · simp at ho
      · rintro ⟨n, hn, _⟩; cases hn
  case undecodable c =>
    simp only [apiStep]
    refine ⟨h, ?_, ?_, rfl⟩
    · intro o ho; simp at ho; subst ho; trivial
    · simp
  case adv n =>
    simp only [apiStep]
    obtain ⟨h1, h2, hb', h3⟩ := doAdv_idle s n h.idle
    rw [h1, h3]
    refine ⟨⟨?_, h.ninit, h.sockOpen, ?_, h.notConn⟩, ?_, ?_, rfl⟩
    · rw [h3] at h2; exact h2
    · show s.pendingInits.filter (s.now + n < ·) = if s.now + n < d then [d] else []
      rw [h.pend]
      by_cases hd : s.now < d
      · by_cases hd2 : s.now + n < d
        · simp [hd, hd2]
        · simp [hd, hd2]
      · have : ¬ s.now + n < d := by omega
        simp [hd, this]
    · intro o ho
      simp only [List.mem_map, List.mem_filter, h.pend] at ho
      obtain ⟨x, ⟨hx, hle⟩, rfl⟩ := ho
      by_cases hd : s.now < d
      · simp [hd] at hx; subst hx
        exact ⟨rfl, n, rfl, hd, by simpa using hle⟩
      · simp [hd] at hx
    · simp only [List.mem_map, List.mem_filter, h.pend]
      constructor
      · rintro ⟨x, ⟨hx, hle⟩, _⟩
        by_cases hd : s.now < d
        · simp [hd] at hx; subst hx
          exact ⟨n, rfl, hd, by simpa using hle⟩
        · simp [hd] at hx
      · rintro ⟨n', hn', hd, hle⟩
        cases hn'
        exact ⟨d, ⟨by simp [hd], by simpa using hle⟩, trivial⟩

/-- `init()` on an API whose event is clear, with nobody waiting and the heartbeat manager idle -/
theorem silent_init (s : State) (hi : HbIdle s.hb) (hn : s.initialised = false) (hp : s.pendingInits = []) :
    Silent (s.now + initTimeout) (apiStep s .init).1 ∧ (apiStep s .init).2 = [.opened] ∧
      (apiStep s .init).1.now = s.now := by
  have e : apiStep s .init = ({ s with st := .CONNECTING, sockSubscribed := true, sockOpen := true, pendingInits := [s.now + initTimeout] }, [.opened]) := by
    simp [apiStep, doInit, hn, hp]
  rw [e]
  refine ⟨⟨hi, hn, rfl, ?_, by simp⟩, rfl, rfl⟩
  simp [initTimeout]

theorem silent_run (d : Nat) (s : State) (ops : List Op) (h : Silent d s) (hq : ∀ o ∈ ops, Op.isQuiet o = true) :
    Silent d (runS s ops) ∧ (runS s ops).now = s.now + (ops.map Op.ticks).sum := by
  induction ops generalizing s with
  | nil => exact ⟨h, by simp⟩
  | cons o ops ih =>
    obtain ⟨h1, _, _, h4⟩ := silent_step d s o h (hq o (by simp))
    obtain ⟨g1, g2⟩ := ih (apiStep s o).1 h1 (fun o' ho' => hq o' (by simp [ho']))
    refine ⟨g1, ?_⟩
    simp only [runS_cons, g2, List.map_cons, List.sum_cons, h4]
    omega


/-! ### the handshake requests among the outputs -/

def isErrInfoRequest : Msg → Bool
  | .extended (.errInfo (.request _)) => true
  | _ => false

/-- the sends of an output list other than error-information requests (which accompany AC status reports) -/
def handshakeSends (out : List Out) : List (Policy × Msg) :=
  out.filterMap fun o => match o with
    | .send p m _ => if isErrInfoRequest m then none else some (p, m)
    | _ => none

theorem handshakeSends_append (a b : List Out) : handshakeSends (a ++ b) = handshakeSends a ++ handshakeSends b := by
  simp [handshakeSends, List.filterMap_append]

def ErrOrNotify (o : Out) : Prop := o.isNotify = true ∨ ∃ ac, o = .send .connected (msgErrInfoRequest ac) false

theorem handshakeSends_nil {l : List Out} (h : ∀ o ∈ l, ErrOrNotify o) : handshakeSends l = [] := by
  induction l with
  | nil => rfl
  | cons o l ih =>
    have ho := h o (by simp)
    have hl := ih (fun o' ho' => h o' (by simp [ho']))
    simp only [handshakeSends, List.filterMap_cons] at hl ⊢
    rcases ho with ho | ⟨ac, rfl⟩
    · cases o <;> simp [Out.isNotify] at ho <;> simpa using hl
    · simpa [msgErrInfoRequest, isErrInfoRequest] using hl

theorem updateAcStatus_en (s : State) (r : Nat) (d : C023.AcStatusData) : AllOut ErrOrNotify (updateAcStatus s r d) := by
  unfold updateAcStatus
  split
  · exact allOut_nil _ _ _
  · split
    · exact allOut_nil _ _ _
    · split
      · refine allOut_andThen (allOut_sendMsg _ _ _ _ (.inr ⟨_, rfl⟩)) ?_
        intro s'
        exact allOut_of_list _ _ _ (fun o ho => .inl (acNotifyAll_isNotify _ o ho))
      · exact allOut_of_list _ _ _ (fun o ho => .inl (acNotifyAll_isNotify _ o ho))

theorem processAcStatus_en (l : List C023.AcStatusData) (s : State) : AllOut ErrOrNotify (processAcStatus l s) := by
  unfold processAcStatus
  refine allOut_forEach _ _ ?_ s
  intro s d; split
  · exact updateAcStatus_en _ _ _
  · exact allOut_nil _ _ _

theorem en_of_sn_notify {r : HR} (h : ∀ o ∈ r.out, o.isNotify = true) : AllOut ErrOrNotify r :=
  fun o ho => .inl (h o ho)

theorem processAcTimer_notify (l : List AcTimerStatusData) (s : State) : ∀ o ∈ (processAcTimer l s).out, o.isNotify = true := by
  have : AllOut (fun o => o.isNotify = true) (processAcTimer l s) := by
    unfold processAcTimer
    refine allOut_forEach _ _ ?_ s
    intro s d; split
    · unfold updateAcTimer
      repeat' split
      all_goals first
        | exact allOut_of_list _ _ _ (acNotifyAll_isNotify _)
        | exact allOut_nil _ _ _
    · exact allOut_nil _ _ _
  exact this

theorem processZoneStatus_notify (l : List C021.ZoneStatusData) (s : State) :
    ∀ o ∈ (processZoneStatus l s).out, o.isNotify = true := by
  have : AllOut (fun o => o.isNotify = true) (processZoneStatus l s) := by
    unfold processZoneStatus
    refine allOut_forEach _ _ ?_ s
    intro s d; split
    · unfold updateZoneStatus
      repeat' split
      all_goals first
        | exact allOut_of_list _ _ _ (zoneNotify_isNotify _ _)
        | exact allOut_nil _ _ _
    · exact allOut_nil _ _ _
  exact this

theorem processAcAbility_out (l : List FF11.AcAbility) (s : State) : (processAcAbility l s).out = [] := by
  have : AllOut (fun _ => False) (processAcAbility l s) := by
    unfold processAcAbility
    refine allOut_forEach _ _ ?_ s
    intro s d; split <;> exact allOut_nil _ _ _
  cases h : (processAcAbility l s).out with
  | nil => rfl
  | cons o _ => exact absurd (this o (by simp [h])) id

theorem doMsg_out_eq (s : State) (toAddr : Nat) (m : Msg) (hsub : s.sockSubscribed = true) :
    (doMsg s toAddr m).2 = excOut (handleMessage s toAddr m) ++
      (if isHeartbeatResponse m = true then (hbFeed (handleMessage s toAddr m).s (.resp (handleMessage s toAddr m).s.now)).2 else []) := by
  unfold doMsg
  rw [if_pos hsub]
  split <;> rfl

/-- the frame handler ended, without exception, by sending `req`: that is all the op emits (idle heartbeat manager) -/
theorem doMsg_out_send (s : State) (toAddr : Nat) (m : Msg) (hsub : s.sockSubscribed = true) (hi : HbIdle s.hb)
    {S : State} {pre : List Out} {req : Msg}
    (e : handleMessage s toAddr m = { s := S, out := pre ++ [.send .connected req false], exc := none })
    (hhb : S.hb = s.hb) :
    (doMsg s toAddr m).2 = pre ++ [.send .connected req false] := by
  rw [doMsg_out_eq _ _ _ hsub, e]
  have hiS : HbIdle S.hb := by rw [hhb]; exact hi
  simp only [excOut, List.append_nil]
  split
  · rw [hbFeed_resp_idle_out S S.now hiS]; simp
  · simp

theorem handshakeSends_req (pre : List Out) (req : Msg) (hpre : ∀ o ∈ pre, ErrOrNotify o) (hreq : isErrInfoRequest req = false) :
    handshakeSends (pre ++ [.send .connected req false]) = [(.connected, req)] := by
  rw [handshakeSends_append, handshakeSends_nil hpre]
  simp [handshakeSends, hreq]

/-- an accepted answer (steps before the last): the one new request, and nothing else but error-information requests
and notifications -/
theorem answer_sends (s : State) (toAddr : Nat) (m : Msg) (hs : Handshaking s) (h6 : rank s.st ≤ 6)
    (hi : HbIdle s.hb) (ha : answers s.st toAddr m = true) (hok : abilityOk s m) :
    handshakeSends (doMsg s toAddr m).2 = ((requestFor (nextState s.st)).map fun r => (Policy.connected, r)).toList := by
  have hsub := hs.sockSubscribed
  have hopen := hs.sockOpen
  unfold answers at ha
  split at ha
  all_goals (rename_i hst)
  all_goals (try (cases ha))
  all_goals (try (simp [hst, rank] at h6; done))
  · -- console version
    rename_i v
    have e : handleMessage s toAddr (.extended (.consoleVer (.message v))) =
        { s := { s with consoleVersion := v, st := .INIT_ZONE_NAMES }, out := [] ++ [.send .connected msgZoneNamesRequestAll false], exc := none } := by
      simp [handleMessage, hst, sendMsg, hopen]
    rw [doMsg_out_send s toAddr _ hsub hi e rfl]
    simp [handshakeSends, hst, nextState, requestFor, isErrInfoRequest, msgZoneNamesRequestAll]
  · rename_i zn
    have ho : (processZoneNames zn.zone_names s).sockOpen = true := by
      rw [(sameCtl_processZoneNames _ _).sockOpen]; exact hopen
    have e : handleMessage s toAddr (.extended (.zoneNames (.message zn))) =
        { s := { processZoneNames zn.zone_names s with st := .INIT_AC_ABILITY }, out := [] ++ [.send .connected msgAcAbilityRequestAll false], exc := none } := by
      simp [handleMessage, hst, sendMsg, ho]
    rw [doMsg_out_send s toAddr _ hsub hi e (sameCtl_processZoneNames _ _).hb]
    simp [handshakeSends, hst, nextState, requestFor, isErrInfoRequest, msgAcAbilityRequestAll]
  · have e : handleMessage s toAddr (.extended (.zoneNames (.request ‹_›))) =
        { s := { s with st := .INIT_AC_ABILITY }, out := [] ++ [.send .connected msgAcAbilityRequestAll false], exc := none } := by
      simp [handleMessage, hst, ha, sendMsg, hopen]
    rw [doMsg_out_send s toAddr _ hsub hi e rfl]
    simp [handshakeSends, hst, nextState, requestFor, isErrInfoRequest, msgAcAbilityRequestAll]
  · rename_i acs
    simp only [abilityOk] at hok
    have ho : (processAcAbility acs s).s.sockOpen = true := by
      rw [(sameCtl_processAcAbility _ _).sockOpen]; exact hopen
    have e : handleMessage s toAddr (.extended (.acAbility (.ability acs))) =
        { s := { (processAcAbility acs s).s with st := .INIT_AC_STATUS }, out := [] ++ [.send .connected msgAcStatusRequest false], exc := none } := by
      simp [handleMessage, hst, HR.andThen, hok, sendMsg, ho, processAcAbility_out]
    rw [doMsg_out_send s toAddr _ hsub hi e (sameCtl_processAcAbility _ _).hb]
    simp [handshakeSends, hst, nextState, requestFor, isErrInfoRequest, msgAcStatusRequest]
  · rename_i l
    have hexc : (processAcStatus l s).exc = none := by rw [(processAcStatus_eq l s hopen).1]
    have ho : (processAcStatus l s).s.sockOpen = true := by
      rw [(sameCtl_processAcStatus _ _).sockOpen]; exact hopen
    have e : handleMessage s toAddr (.controlStatus (.acStatus (.status l))) =
        { s := { (processAcStatus l s).s with st := .INIT_AC_TIMER_STATUS },
          out := (processAcStatus l s).out ++ [.send .connected msgAcTimerStatusRequest false], exc := none } := by
      simp [handleMessage, hst, HR.andThen, hexc, sendMsg, ho]
    rw [doMsg_out_send s toAddr _ hsub hi e (sameCtl_processAcStatus _ _).hb,
      handshakeSends_req _ _ (processAcStatus_en l s) rfl]
    simp [hst, nextState, requestFor]
  · rename_i l
    have hexc : (processAcTimer l s).exc = none := by rw [processAcTimer_eq l s]
    have ho : (processAcTimer l s).s.sockOpen = true := by
      rw [(sameCtl_processAcTimer _ _).sockOpen]; exact hopen
    have e : handleMessage s toAddr (.controlStatus (.acTimerStatus (.status l))) =
        { s := { (processAcTimer l s).s with st := .INIT_ZONE_STATUS },
          out := (processAcTimer l s).out ++ [.send .connected msgZoneStatusRequest false], exc := none } := by
      simp [handleMessage, hst, HR.andThen, hexc, sendMsg, ho]
    rw [doMsg_out_send s toAddr _ hsub hi e (sameCtl_processAcTimer _ _).hb,
      handshakeSends_req _ _ (en_of_sn_notify (processAcTimer_notify l s)) rfl]
    simp [hst, nextState, requestFor]
  · rename_i c
    have hexc : (processAcTimer c.ac_timer_status s).exc = none := by rw [processAcTimer_eq _ s]
    have ho : (processAcTimer c.ac_timer_status s).s.sockOpen = true := by
      rw [(sameCtl_processAcTimer _ _).sockOpen]; exact hopen
    have e : handleMessage s toAddr (.controlStatus (.acTimerCtrl c)) =
        { s := { (processAcTimer c.ac_timer_status s).s with st := .INIT_ZONE_STATUS },
          out := (processAcTimer c.ac_timer_status s).out ++ [.send .connected msgZoneStatusRequest false], exc := none } := by
      simp [handleMessage, hst, HR.andThen, hexc, sendMsg, ho]
    rw [doMsg_out_send s toAddr _ hsub hi e (sameCtl_processAcTimer _ _).hb,
      handshakeSends_req _ _ (en_of_sn_notify (processAcTimer_notify _ s)) rfl]
    simp [hst, nextState, requestFor]

/-- only the ability answer has a side condition -/
theorem abilityOk_of_other (s' : State) (st : AirTouchState) (toAddr : Nat) (m : Msg) (ha : answers st toAddr m = true)
    (hne : st ≠ .INIT_AC_ABILITY) : abilityOk s' m := by
  unfold abilityOk
  split
  · exfalso
    cases st <;> simp [answers] at ha
    exact hne rfl
  · trivial

theorem answers_zoneStatus_inv {toAddr : Nat} {m : Msg} (h : answers .INIT_ZONE_STATUS toAddr m = true) :
    (∃ l, m = .controlStatus (.zoneStatus (.status l))) ∨
    (m = .controlStatus (.zoneStatus .request) ∧ (toAddr == Gen.At5.Hdr.ADDRESS_CLIENT) = true) := by
  cases m with
  | extended sub => cases sub <;> simp [answers] at h
  | unsupported id raw => simp [answers] at h
  | controlStatus sub =>
    cases sub with
    | zoneStatus zs =>
      cases zs with
      | request => exact .inr ⟨rfl, by simpa [answers] using h⟩
      | status l => exact .inl ⟨l, rfl⟩
    | _ => simp [answers] at h

/-- a frame that is not an answer, before the handshake is complete: nothing is sent (only notifications of an
error-information update can appear) -/
theorem not_answer_out (s : State) (toAddr : Nat) (m : Msg) (hne : s.st ≠ .CONNECTED) (hi : HbIdle s.hb)
    (ha : answers s.st toAddr m = false) :
    (doMsg s toAddr m).1.st = s.st ∧ ∀ o ∈ (doMsg s toAddr m).2, o.isNotify = true := by
  obtain ⟨h1, h2, h3⟩ := handleMessage_not_answer s toAddr m ha hne
  unfold doMsg
  split
  · refine ⟨?_, ?_⟩
    · split
      · simp only [hbFeed]; exact h1.st
      · exact h1.st
    · intro o ho
      simp only [List.mem_append, excOut, h2, List.append_nil] at ho
      rcases ho with ho | ho
      · exact h3 o ho
      · split at ho
        · rw [hbFeed_resp_idle_out _ _ (by rw [h1.hb]; exact hi)] at ho
          simp at ho
        · simp at ho
  · exact ⟨rfl, by simp⟩

end PyAirtouch.Lemmas.Api5
