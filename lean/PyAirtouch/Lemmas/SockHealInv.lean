import PyAirtouch.Lemmas.SockConn
import PyAirtouch.Lemmas.SockIdle
/-!
# Healing of the socket model, part 1: definitions and history invariants

* `benign`, `BReach`, `Healed`: the vocabulary of the healing theorem;
* `eofOk`, `fair`, `runH`, `ReachableH`: histories that respect the calling discipline of `close()` and
  in which a reader never sees a plain EOF on a transport that was lost *with an exception*;
* `vPc` / `need`: the finitely many continuations that occur, and the fuel they need;
* `HInv1` (every `Reachable` state): valid program counters, `rw` and `discWait` indices valid, a
  `discWait w` task waits for a transport that is no longer live, retry deadlines within `RETRY_DELAY`;
* `HInv2` (every `ReachableH` state): a pending cancellation belongs to a `close()` in progress;
  while open and connected somebody watches the current transport (`watch`); while open, not
  connected and not closing a reconnect is pending (`reconn`).
-/
namespace PyAirtouch.Lemmas.SockHeal
open PyAirtouch.Model.Sock PyAirtouch.Spec.Trace PyAirtouch.Lemmas.Sock PyAirtouch.Lemmas.SockConn

/-! ### vocabulary -/

def isLiveAt (c : Core) (i : Nat) : Bool := (c.conns[i]?.map ConnSt.isLive).getD false

theorem isLiveAt_iff (c : Core) (i : Nat) : isLiveAt c i = true ↔ liveAt c i := by
  unfold isLiveAt liveAt
  cases c.conns[i]? <;> simp

/-- the transport was closed by the client itself (`writer.close()`), not lost with an exception -/
def clientClosed (c : Core) (i : Nat) : Bool :=
  match c.conns[i]? with
  | some (.dying false) | some (.dead false) => true
  | _ => false

/-- the transport was lost with an exception (peer reset, fatal write error) -/
def excLost (c : Core) (i : Nat) : Bool :=
  match c.conns[i]? with
  | some (.dying true) | some (.dead true) => true
  | _ => false

/-- labels of a network that behaves, up to the deadline `d`:
    * the clock advances, but not beyond `d`;
    * the pending `connection_lost` of a transport that is already closing runs;
    * the environment stops pausing / failing writes;
    * a task resumes with `go`, `openOk`, `drainOk`, or - if it is blocked on a transport that is no
      longer live - with the only answers left (`drainErr`; `readEof` on a transport the client closed,
      `readErr` otherwise). -/
def benign (d : Nat) (s : Sys) : Label → Bool
  | .advance t => decide (t ≤ d)
  | .envLostRan _ => true
  | .envPause _ b => !b
  | .envFailWrites _ b => !b
  | .run t a =>
    match a, pcAt s t with
    | .go, _ => true
    | .openOk, _ => true
    | .drainOk, _ => true
    | .drainErr, some (.drainAwait w _ _) => !isLiveAt s.core w
    | .readEof, some (.readWait c) => clientClosed s.core c
    | .readErr, some (.readWait c) => !isLiveAt s.core c
    | _, _ => false
  | _ => false

/-- `ls` is a sequence of benign labels that can be run from `s` -/
def benignRun (d : Nat) : Sys → List Label → Bool
  | _, [] => true
  | s, l :: ls => benign d s l && (match step s l with
    | some s' => benignRun d s' ls
    | none => false)

/-- reachability by benign labels -/
inductive BReach (d : Nat) : Sys → Sys → Prop
  | refl (s : Sys) : BReach d s s
  | cons {s s1 s' : Sys} (l : Label) : benign d s l = true → Model.Sock.step s l = some s1 → BReach d s1 s' →
      BReach d s s'

theorem BReach.trans {d : Nat} {a b c : Sys} (h1 : BReach d a b) (h2 : BReach d b c) : BReach d a c := by
  induction h1 with
  | refl => exact h2
  | cons l hb hs _ ih => exact .cons l hb hs (ih h2)

theorem BReach.one {d : Nat} {s s' : Sys} (l : Label) (hb : benign d s l = true) (hs : step s l = some s') :
    BReach d s s' := .cons l hb hs (.refl _)

theorem BReach.toRun {d : Nat} {s s' : Sys} (h : BReach d s s') :
    ∃ ls, benignRun d s ls = true ∧ run s ls = some s' := by
  induction h with
  | refl s => exact ⟨[], rfl, rfl⟩
  | cons l hb hs _ ih =>
    obtain ⟨ls, h1, h2⟩ := ih
    refine ⟨l :: ls, ?_, ?_⟩
    · simp only [benignRun, hb, hs, Bool.true_and]; exact h1
    · simp only [run, hs, Option.bind_some]; exact h2

/-- connected to a healthy transport, still receiving, nothing left to transmit, nothing else going on -/
structure Healed (s : Sys) : Prop where
  isOpen : s.core.isOpen = true
  isConnected : s.core.isConnected = true
  connecting : s.core.connecting = false
  queue : s.core.queue = []
  conn : ∃ w, s.core.rw = some w ∧ s.core.conns[w]? = some (.live false false) ∧
    (∃ k ∈ s.tasks, k.pc = .readWait w) ∧ ∀ k ∈ s.tasks, k.pc = .finished ∨ k.pc = .readWait w

/-! ### histories -/

/-- a reader is not told "EOF" on a transport that was lost with an exception (asyncio hands it the
    exception: `readErr`) -/
def eofOk (s : Sys) : Label → Bool
  | .run t .readEof =>
    match pcAt s t with
    | some (.readWait c) => !excLost s.core c
    | _ => true
  | _ => true

def fair (s : Sys) (l : Label) : Bool := disciplined s l && eofOk s l

def runH (s : Sys) : List Label → Option Sys
  | [] => some s
  | l :: ls => if fair s l then (step s l).bind (fun s' => runH s' ls) else none

/-- reachable under the calling discipline of `close()` and the EOF rule -/
def ReachableH (s : Sys) : Prop := ∃ ls, runH init ls = some s

theorem runH_runD {ls : List Label} : ∀ {s s' : Sys}, runH s ls = some s' → runD s ls = some s' := by
  induction ls with
  | nil => intro s s' h; exact h
  | cons l ls ih =>
    intro s s' h
    simp only [runH] at h
    split at h
    · rename_i hf
      simp only [fair, Bool.and_eq_true] at hf
      simp only [runD, hf.1, ↓reduceIte]
      cases hs : step s l with
      | none => rw [hs] at h; cases h
      | some s1 => rw [hs] at h; simp only [Option.bind_some] at h ⊢; exact ih h
    · cases h

theorem ReachableH.reachableD {s : Sys} (h : ReachableH s) : ReachableD s :=
  let ⟨ls, h⟩ := h; ⟨ls, runH_runD h⟩

theorem ReachableH.reachable {s : Sys} (h : ReachableH s) : Reachable s := h.reachableD.reachable

theorem runH_snoc (s s' : Sys) (ls : List Label) (l : Label) :
    runH s (ls ++ [l]) = some s' ↔ ∃ m, runH s ls = some m ∧ fair m l = true ∧ step m l = some s' := by
  induction ls generalizing s with
  | nil =>
    simp only [List.nil_append, runH]
    constructor
    · intro h
      split at h
      · rename_i hf
        cases hs : step s l with
        | none => rw [hs] at h; cases h
        | some s1 =>
          rw [hs] at h; simp only [Option.bind_some, Option.some.injEq] at h
          subst h; exact ⟨s, rfl, hf, hs⟩
      · cases h
    · rintro ⟨m, hm, hf, hs⟩
      cases hm
      simp [hf, hs]
  | cons x xs ih =>
    simp only [List.cons_append, runH]
    split
    · cases hs : step s x with
      | none => simp
      | some s1 => simpa using ih s1
    · simp

theorem ReachableH.next {s s' : Sys} {l : Label} (h : ReachableH s) (hf : fair s l = true)
    (hs : step s l = some s') : ReachableH s' :=
  let ⟨ls, h⟩ := h; ⟨ls ++ [l], (runH_snoc _ _ _ _).2 ⟨s, h, hf, hs⟩⟩

theorem ReachableH.induction {P : Sys → Prop} (h0 : P init)
    (hs : ∀ s l s', ReachableH s → P s → fair s l = true → step s l = some s' → P s') :
    ∀ s, ReachableH s → P s := by
  have key : ∀ ls m s, ReachableH m → P m → runH m ls = some s → P s := by
    intro ls
    induction ls with
    | nil => intro m s _ hp h; simp only [runH, Option.some.injEq] at h; subst h; exact hp
    | cons l ls ih =>
      intro m s hm hp h
      simp only [runH] at h
      split at h
      · rename_i hf
        cases hst : Model.Sock.step m l with
        | none => rw [hst] at h; cases h
        | some m' =>
          rw [hst] at h
          exact ih m' s (hm.next hf hst) (hs m l m' hm hp hf hst) h
      · cases h
  intro s ⟨ls, h⟩
  exact key ls init s ⟨[], rfl⟩ h0 h


/-! ### the continuations that occur, and the fuel they need -/

def drainRet : Ret → Bool
  | .done | .connAfterDrain => true
  | _ => false

def discRet : Ret → Bool
  | .closeTail | .resetTail .done | .resetTail .connAfterDrain | .resetTail .readLoop => true
  | _ => false

def notifRet : Ret → Bool
  | .connAfterNotify | .readLoop => true
  | r => discRet r

def retRet : Ret → Bool
  | .done | .connAfterDrain => true
  | r => notifRet r

def vPc : Pc → Bool
  | .drainAwait _ _ r => drainRet r
  | .discWait _ r => discRet r
  | .notifyWait r => notifRet r
  | _ => true

def vK : Kont → Bool
  | .drain r => drainRet r
  | .disconnect r | .discTail _ r => discRet r
  | .ret r => retRet r

def needRet : Ret → Nat
  | .resetTail r => needRet r + 1
  | .connAfterNotify => 7
  | _ => 1

def need : Kont → Nat
  | .ret r => needRet r
  | .discTail _ r => needRet r + 1
  | .disconnect r => needRet r + 2
  | .drain r => needRet r + 4

theorem need_le_fuel {k : Kont} (h : vK k = true) : need k ≤ FUEL := by
  cases k with
  | drain r => cases r <;> first | (simp [vK, drainRet] at h; done) | decide
  | ret r =>
    cases r with
    | resetTail r => cases r <;> first | (simp [vK, retRet, notifRet, discRet] at h; done) | decide
    | _ => decide
  | disconnect r =>
    cases r with
    | resetTail r => cases r <;> first | (simp [vK, discRet] at h; done) | decide
    | _ => first | (simp [vK, discRet] at h; done) | decide
  | discTail w r =>
    cases r with
    | resetTail r => cases r <;> first | (simp [vK, discRet] at h; done) | (simp [need, needRet, FUEL])
    | _ => first | (simp [vK, discRet] at h; done) | (simp [need, needRet, FUEL])

theorem spawnPc_vPc {p : Pc} (h : spawnPc p = true) : vPc p = true := by
  cases p <;> simp_all [spawnPc, vPc]

/-! ### `HInv1`: indices and deadlines (every reachable state) -/

def rwValid (c : Core) : Prop := ∀ w, c.rw = some w → w < c.conns.length

/-- `c'` is later than `c`: the clock did not go back, no transport came back to life -/
structure Mono (c c' : Core) : Prop where
  now : c.now ≤ c'.now
  len : c.conns.length ≤ c'.conns.length
  live : ∀ i, i < c.conns.length → liveAt c' i → liveAt c i

theorem Mono.ofFrame {c c' : Core} (h : Frame c c') : Mono c c' :=
  ⟨Nat.le_of_eq h.now.symm, Nat.le_of_eq h.len.symm, fun i _ hi => h.live i hi⟩

theorem Mono.ofShrink {c c' : Core} (h : Shrink c c') : Mono c c' := Mono.ofFrame h.frame

theorem Mono.refl (c : Core) : Mono c c := ⟨Nat.le_refl _, Nat.le_refl _, fun _ _ h => h⟩

theorem Mono.trans {a b c : Core} (h1 : Mono a b) (h2 : Mono b c) : Mono a c :=
  ⟨Nat.le_trans h1.now h2.now, Nat.le_trans h1.len h2.len,
   fun i hi h => h1.live i hi (h2.live i (Nat.lt_of_lt_of_le hi h1.len) h)⟩

/-- what a `discWait w` task relies on -/
def discOk (c : Core) : Pc → Prop
  | .discWait w _ => w < c.conns.length ∧ ¬ liveAt c w
  | _ => True

def delayOk (c : Core) : Pc → Prop
  | .connDelay d => d ≤ c.now + RETRY_DELAY
  | _ => True

theorem discOk_mono {c c' : Core} (h : Mono c c') {p : Pc} (hp : discOk c p) : discOk c' p := by
  cases p <;> try trivial
  exact ⟨Nat.lt_of_lt_of_le hp.1 h.len, fun hl => hp.2 (h.live _ hp.1 hl)⟩

theorem delayOk_mono {c c' : Core} (h : Mono c c') {p : Pc} (hp : delayOk c p) : delayOk c' p := by
  cases p <;> try trivial
  exact Nat.le_trans hp (Nat.add_le_add_right h.now _)

structure HInv1 (s : Sys) : Prop where
  v : ∀ k ∈ s.tasks, vPc k.pc = true
  rwv : rwValid s.core
  disc : ∀ k ∈ s.tasks, discOk s.core k.pc
  delay : ∀ k ∈ s.tasks, delayOk s.core k.pc

/-- program counters of freshly scheduled tasks, with the deadline a delayed one may carry -/
def spawnOk (c : Core) (p : Pc) : Prop := p = .connStart ∨ p = .readStart ∨ p = .connDelay (c.now + RETRY_DELAY)

theorem spawnOk.spawnPc {c : Core} {p : Pc} (h : spawnOk c p) : spawnPc p = true := by
  rcases h with rfl | rfl | rfl <;> rfl

theorem mem_upd {s : Sys} {t : Nat} {out : Out} {k : Task} (h : k ∈ (upd s t out).tasks) :
    k ∈ s.tasks ∨ (∃ k0, s.tasks[t]? = some k0 ∧ k = { k0 with pc := out.pc }) ∨ (k.bg = true ∧ k.pc ∈ out.spawned) := by
  simp only [upd, List.mem_append, List.mem_map] at h
  rcases h with h | ⟨p, hp, rfl⟩
  · rcases SockOrder.mem_modify _ _ _ _ h with h | ⟨y, hy, rfl⟩
    · exact .inl h
    · exact .inr (.inl ⟨y, hy, rfl⟩)
  · exact .inr (.inr ⟨rfl, hp⟩)

theorem mem_upd_self {s : Sys} {t : Nat} {out : Out} {k0 : Task} (h : s.tasks[t]? = some k0) :
    { k0 with pc := out.pc } ∈ (upd s t out).tasks := by
  simp only [upd, List.mem_append]
  exact .inl (SockIdle.mem_modify_self _ _ _ _ h)

theorem mem_upd_other {s : Sys} {t : Nat} {out : Out} {k k0 : Task} (hk : k ∈ s.tasks) (h : s.tasks[t]? = some k0) :
    k ∈ (upd s t out).tasks ∨ k = k0 := by
  simp only [upd, List.mem_append]
  rcases SockIdle.mem_modify_other (fun k => { k with pc := out.pc }) _ _ _ _ hk h with h | h
  · exact .inl (.inl h)
  · exact .inr h

theorem mem_upd_spawn {s : Sys} {t : Nat} {out : Out} {p : Pc} (h : p ∈ out.spawned) :
    (⟨p, true⟩ : Task) ∈ (upd s t out).tasks := by
  simp only [upd, List.mem_append, List.mem_map]
  exact .inr ⟨p, h, rfl⟩

theorem mem_spawnApi {s : Sys} {out : Out} {k : Task} (h : k ∈ (spawnApi s out).tasks) :
    k ∈ s.tasks ∨ k = ⟨out.pc, false⟩ ∨ (k.bg = true ∧ k.pc ∈ out.spawned) := by
  simp only [spawnApi, List.mem_append, List.mem_singleton, List.mem_map] at h
  rcases h with (h | h) | ⟨p, hp, rfl⟩
  · exact .inl h
  · exact .inr (.inl h)
  · exact .inr (.inr ⟨rfl, hp⟩)

theorem mem_spawnApi_old {s : Sys} {out : Out} {k : Task} (h : k ∈ s.tasks) : k ∈ (spawnApi s out).tasks := by
  simp [spawnApi, h]

theorem mem_spawnApi_self {s : Sys} {out : Out} : (⟨out.pc, false⟩ : Task) ∈ (spawnApi s out).tasks := by
  simp [spawnApi]

theorem mem_spawnApi_spawn {s : Sys} {out : Out} {p : Pc} (h : p ∈ out.spawned) :
    (⟨p, true⟩ : Task) ∈ (spawnApi s out).tasks := by
  simp only [spawnApi, List.mem_append, List.mem_map]
  exact .inr ⟨p, h, rfl⟩

theorem HInv1.upd {s : Sys} (h : HInv1 s) (t : Nat) (out : Out) (hm : Mono s.core out.core)
    (hrw : rwValid out.core) (hv : vPc out.pc = true) (hd : discOk out.core out.pc)
    (hdl : delayOk out.core out.pc) (hsp : ∀ p ∈ out.spawned, spawnOk out.core p) : HInv1 (upd s t out) := by
  refine ⟨?_, hrw, ?_, ?_⟩
  · intro k hk
    rcases mem_upd hk with hk | ⟨k0, _, rfl⟩ | ⟨_, hk⟩
    · exact h.v k hk
    · exact hv
    · exact spawnPc_vPc (hsp _ hk).spawnPc
  · intro k hk
    rcases mem_upd hk with hk | ⟨k0, _, rfl⟩ | ⟨_, hk⟩
    · exact discOk_mono hm (h.disc k hk)
    · exact hd
    · rcases hsp _ hk with e | e | e <;> rw [e] <;> trivial
  · intro k hk
    rcases mem_upd hk with hk | ⟨k0, _, rfl⟩ | ⟨_, hk⟩
    · exact delayOk_mono hm (h.delay k hk)
    · exact hdl
    · rcases hsp _ hk with e | e | e <;> rw [e]
      · trivial
      · trivial
      · exact Nat.le_refl _

theorem HInv1.api {s : Sys} (h : HInv1 s) (out : Out) (hm : Mono s.core out.core)
    (hrw : rwValid out.core) (hv : vPc out.pc = true) (hd : discOk out.core out.pc)
    (hdl : delayOk out.core out.pc) (hsp : ∀ p ∈ out.spawned, spawnOk out.core p) : HInv1 (spawnApi s out) := by
  refine ⟨?_, hrw, ?_, ?_⟩
  · intro k hk
    rcases mem_spawnApi hk with hk | rfl | ⟨_, hk⟩
    · exact h.v k hk
    · exact hv
    · exact spawnPc_vPc (hsp _ hk).spawnPc
  · intro k hk
    rcases mem_spawnApi hk with hk | rfl | ⟨_, hk⟩
    · exact discOk_mono hm (h.disc k hk)
    · exact hd
    · rcases hsp _ hk with e | e | e <;> rw [e] <;> trivial
  · intro k hk
    rcases mem_spawnApi hk with hk | rfl | ⟨_, hk⟩
    · exact delayOk_mono hm (h.delay k hk)
    · exact hdl
    · rcases hsp _ hk with e | e | e <;> rw [e]
      · trivial
      · trivial
      · exact Nat.le_refl _

theorem HInv1.env {s : Sys} (h : HInv1 s) (c' : Core) (hm : Mono s.core c') (hrw : rwValid c') :
    HInv1 { s with core := c' } :=
  ⟨h.v, hrw, fun k hk => discOk_mono hm (h.disc k hk), fun k hk => delayOk_mono hm (h.delay k hk)⟩

theorem rwValid_shrink {c c' : Core} (h : Shrink c c') (hr : rwValid c) : rwValid c' := by
  intro w hw; rw [h.len]; exact hr w (h.rw ▸ hw)

theorem spawnOk_now {c c' : Core} (h : c'.now = c.now) {p : Pc} (hp : spawnOk c' p) : spawnOk c p := by
  unfold spawnOk at *; rw [h] at hp; exact hp

theorem exec_h1 (fuel : Nat) (c : Core) (sp : List Pc) (k : Kont) (hrw : rwValid c) (hv : vK k = true) :
    rwValid (exec fuel c sp k).core ∧ vPc (exec fuel c sp k).pc = true ∧
    discOk (exec fuel c sp k).core (exec fuel c sp k).pc ∧ delayOk (exec fuel c sp k).core (exec fuel c sp k).pc ∧
    ∀ p ∈ (exec fuel c sp k).spawned, p ∈ sp ∨ spawnOk c p := by
  fun_induction exec fuel c sp k
  case case1 => exact ⟨hrw, rfl, trivial, trivial, fun p hp => .inl hp⟩
  case case2 ih => exact ih hrw (by revert hv; cases ‹Ret› <;> simp [vK, drainRet, retRet])
  case case3 ih => exact ih hrw (by revert hv; cases ‹Ret› <;> simp [vK, drainRet, retRet])
  case case4 c' hd ih =>
    have hs := shrink_drainLoop' hd
    obtain ⟨a, b, c1, d, e⟩ := ih (rwValid_shrink hs hrw) (by revert hv; cases ‹Ret› <;> simp [vK, drainRet, retRet])
    exact ⟨a, b, c1, d, fun p hp => (e p hp).imp id (spawnOk_now hs.now)⟩
  case case5 c' e hd =>
    have hs := shrink_drainLoop' hd
    exact ⟨rwValid_shrink hs hrw, hv, trivial, trivial, fun p hp => .inl hp⟩
  case case6 c' e hd ih =>
    have hs := (shrink_drainLoop' hd).trans (shrink_requeue c' e)
    obtain ⟨a, b, c1, d, e⟩ := ih (rwValid_shrink hs hrw) (by revert hv; cases ‹Ret› <;> simp [vK, drainRet, discRet])
    exact ⟨a, b, c1, d, fun p hp => (e p hp).imp id (spawnOk_now hs.now)⟩
  case case7 fuel c sp r w hw =>
    have hs := shrink_closeConn c w
    refine ⟨rwValid_shrink hs hrw, hv, ⟨?_, closeConn_notLive c w⟩, trivial, fun p hp => .inl hp⟩
    rw [hs.len]; exact hrw w hw
  case case8 ih => exact ih hrw hv
  case case9 =>
    refine ⟨?_, ?_, trivial, trivial, fun p hp => .inl hp⟩
    · intro w hw; cases hw
    · revert hv; cases ‹Ret› <;> simp [vK, discRet, vPc, notifRet]
  case case10 ih => exact ih hrw (by revert hv; cases ‹Ret› <;> simp [vK, discRet, retRet, notifRet])
  case case11 => exact ⟨hrw, rfl, trivial, trivial, fun p hp => .inl hp⟩
  case case12 => exact ⟨hrw, rfl, trivial, trivial, fun p hp => .inl hp⟩
  case case13 ih => exact ih hrw rfl
  case case14 =>
    refine ⟨hrw, rfl, trivial, trivial, ?_⟩
    intro p hp
    simp only [List.mem_append, List.mem_singleton] at hp
    rcases hp with (hp | hp) | hp
    · exact .inl hp
    · exact .inr (.inr (.inl hp))
    · split at hp
      · simp only [List.mem_singleton] at hp; exact .inr (.inr (.inr hp))
      · cases hp
  case case15 ih =>
    obtain ⟨a, b, c1, d, e⟩ := ih hrw (by revert hv; rename_i r; cases r <;> simp [vK, discRet, retRet, notifRet])
    refine ⟨a, b, c1, d, ?_⟩
    intro p hp
    rcases e p hp with h | h
    · split at h
      · simp only [List.mem_append, List.mem_singleton] at h
        rcases h with h | h
        · exact .inl h
        · exact .inr (.inl h)
      · exact .inl h
    · exact .inr h
  case case16 => exact ⟨hrw, rfl, trivial, trivial, fun p hp => .inl hp⟩
  case case17 => exact ⟨hrw, rfl, trivial, trivial, fun p hp => .inl hp⟩

theorem execCase_vK {s : Sys} {pc : Pc} {c0 : Core} {kont : Kont} (h : ExecCase s pc c0 kont)
    (hv : vPc pc = true) : vK kont = true := by
  cases h
  case drainOk => exact hv
  case drainErr w e r _ => revert hv; cases r <;> simp [vPc, SockHeal.vK, drainRet, discRet]
  case closed => exact hv
  case notified r => revert hv; cases r <;> simp [vPc, SockHeal.vK, notifRet, retRet]
  all_goals rfl

/-- one block of `exec` run by a task or an API call, for `HInv1` -/
theorem exec_h1' {s : Sys} (h : HInv1 s) {c0 : Core} {kont : Kont} (hs : Shrink s.core c0) (hv : vK kont = true) :
    Mono s.core (exec FUEL c0 [] kont).core ∧ rwValid (exec FUEL c0 [] kont).core ∧
    vPc (exec FUEL c0 [] kont).pc = true ∧ discOk (exec FUEL c0 [] kont).core (exec FUEL c0 [] kont).pc ∧
    delayOk (exec FUEL c0 [] kont).core (exec FUEL c0 [] kont).pc ∧
    ∀ p ∈ (exec FUEL c0 [] kont).spawned, spawnOk (exec FUEL c0 [] kont).core p := by
  have hf := exec_frame FUEL c0 [] kont
  obtain ⟨a, b, c, d, e⟩ := exec_h1 FUEL c0 [] kont (rwValid_shrink hs h.rwv) hv
  refine ⟨Mono.ofFrame (hs.frame.trans hf), a, b, c, d, ?_⟩
  intro p hp
  rcases e p hp with h | h
  · cases h
  · exact spawnOk_now hf.now.symm h

theorem HInv1.api_exec {s : Sys} (h : HInv1 s) (c0 : Core) (kont : Kont) (hs : Shrink s.core c0)
    (hv : vK kont = true) : HInv1 (spawnApi s (exec FUEL c0 [] kont)) := by
  obtain ⟨a, b, c, d, e, f⟩ := exec_h1' h hs hv
  exact h.api _ a b c d e f

theorem Mono.same {c c' : Core} (hn : c'.now = c.now) (hc : c'.conns = c.conns) : Mono c c' :=
  ⟨Nat.le_of_eq hn.symm, Nat.le_of_eq (by rw [hc]), fun i _ h => by unfold liveAt at *; rw [← hc]; exact h⟩

theorem HInv1.cancel {s : Sys} (h : HInv1 s) (c' : Core) (hm : Mono s.core c') (hrw : rwValid c') :
    HInv1 { core := c', tasks := s.tasks.map cancelTask } := by
  have key : ∀ k ∈ s.tasks.map cancelTask, k ∈ s.tasks ∨ k.pc = .finished ∨ k.pc = .cancelledOpening := by
    intro k hk
    simp only [List.mem_map] at hk
    obtain ⟨k0, hk0, rfl⟩ := hk
    unfold cancelTask
    split
    · split
      · exact .inr (.inr rfl)
      · rename_i h; exact .inr (.inr h)
      · exact .inr (.inl rfl)
    · exact .inl hk0
  refine ⟨?_, hrw, ?_, ?_⟩
  · intro k hk
    rcases key k hk with hk | e | e
    · exact h.v k hk
    · rw [e]; rfl
    · rw [e]; rfl
  · intro k hk
    rcases key k hk with hk | e | e
    · exact discOk_mono hm (h.disc k hk)
    · rw [e]; trivial
    · rw [e]; trivial
  · intro k hk
    rcases key k hk with hk | e | e
    · exact delayOk_mono hm (h.delay k hk)
    · rw [e]; trivial
    · rw [e]; trivial

theorem rwValid_set {c : Core} (h : rwValid c) (w : Nat) (x : ConnSt) : rwValid { c with conns := c.conns.set w x } := by
  intro i hi; simp only [List.length_set]; exact h i hi

theorem hinv1_step {s s' : Sys} {l : Label} (h : HInv1 s) (hst : step s l = some s') : HInv1 s' := by
  cases l with
  | advance t =>
    simp only [step] at hst
    split at hst
    · rename_i hle; cases hst
      exact h.env _ ⟨hle, Nat.le_refl _, fun _ _ x => x⟩ h.rwv
    · cases hst
  | envLost cid =>
    simp only [step] at hst
    split at hst
    · cases hst
      exact h.env _ (Mono.ofShrink ((shrink_set _ _ _ (by simp [ConnSt.isLive])).trans (shrink_emit _ _)))
        (rwValid_set h.rwv _ _)
    · cases hst
  | envLostRan cid =>
    simp only [step] at hst
    split at hst
    · cases hst
      exact h.env _ (Mono.ofShrink (shrink_set _ _ _ (by simp [ConnSt.isLive]))) (rwValid_set h.rwv _ _)
    · cases hst
  | envPause cid b =>
    simp only [step] at hst
    split at hst
    · rename_i hc; cases hst
      exact h.env _ (Mono.ofShrink (shrink_set _ _ _ (fun _ => by simp [liveAt, hc, ConnSt.isLive])))
        (rwValid_set h.rwv _ _)
    · cases hst
  | envFailWrites cid b =>
    simp only [step] at hst
    split at hst
    · rename_i hc; cases hst
      exact h.env _ (Mono.ofShrink (shrink_set _ _ _ (fun _ => by simp [liveAt, hc, ConnSt.isLive])))
        (rwValid_set h.rwv _ _)
    · cases hst
  | apiOpen =>
    simp only [step] at hst
    split at hst
    · cases hst
      exact h.api _ (Mono.same rfl rfl) h.rwv rfl trivial trivial (by simp)
    · cases hst
      refine h.api _ (Mono.same rfl rfl) h.rwv rfl trivial trivial ?_
      intro p hp; simp only [List.mem_singleton] at hp; exact .inl hp
  | apiClose =>
    simp only [step] at hst
    split at hst
    · cases hst
      exact h.api _ (Mono.same rfl rfl) h.rwv rfl trivial trivial (by simp)
    · have hc := h.cancel { s.core.emit (.apiClose s.core.now) with isOpen := false }
        (Mono.same rfl rfl) h.rwv
      split at hst
      · cases hst
        exact hc.api _ (Mono.same rfl rfl) h.rwv rfl trivial trivial (by simp)
      · cases hst
        obtain ⟨a, b, c, d, e, f⟩ := exec_h1' hc (Shrink.refl _) (kont := .disconnect .closeTail) rfl
        exact hc.api _ a b c d e f
  | apiReset =>
    simp only [step] at hst
    cases hst
    obtain ⟨a, b, c, d, e, f⟩ := exec_h1' h (shrink_emit s.core (.apiReset s.core.now))
      (kont := .disconnect (.resetTail .done)) rfl
    exact h.api _ a b c d e f
  | apiSend sid retries life encOk =>
    simp only [step] at hst
    split at hst
    · cases hst
      exact h.api _ (Mono.same rfl rfl) h.rwv rfl trivial trivial (by simp)
    · split at hst
      · cases hst
        exact h.api _ (Mono.same rfl rfl) h.rwv rfl trivial trivial (by simp)
      · cases hst
        exact h.api_exec _ _ ⟨rfl, rfl, rfl, rfl, rfl, rfl, fun _ x => x⟩ rfl
  | run t a =>
    cases step_run_cases hst with
    | exec k0 pc c0 kont hk0 hpc hc =>
      have hv := execCase_vK hc (hpc ▸ h.v k0 (List.mem_of_getElem? hk0))
      obtain ⟨a, b, c, d, e, f⟩ := exec_h1' h hc.shrink hv
      exact h.upd t _ a b c d e f
    | connect k0 hk0 hpc =>
      unfold connectBlock
      split
      · exact h.upd t _ (Mono.same rfl rfl) h.rwv rfl trivial trivial (by simp)
      · exact h.upd t _ (Mono.same rfl rfl) h.rwv rfl trivial trivial (by simp)
    | openOk k0 hk0 hpc =>
      refine h.upd t _ ⟨Nat.le_refl _, by simp [Core.emit], ?_⟩ ?_ rfl trivial trivial (by simp)
      · intro i hi hl
        unfold liveAt at *
        simp only [Core.emit] at hl
        rw [List.getElem?_append_left hi] at hl
        exact hl
      · intro w hw
        simp only [Core.emit, Option.some.injEq] at hw
        subst hw
        simp [Core.emit]
    | openRefused k0 hk0 hpc =>
      refine h.upd t _ (Mono.same rfl rfl) h.rwv rfl trivial trivial ?_
      intro p hp
      split at hp
      · simp only [List.mem_singleton] at hp; exact .inr (.inr hp)
      · cases hp
    | cancelled k0 hk0 hpc =>
      exact h.upd t _ (Mono.same rfl rfl) h.rwv rfl trivial trivial (by simp)
    | readMsg k0 c tag hk0 hpc =>
      exact h.upd t _ (Mono.same rfl rfl) h.rwv rfl trivial trivial (by simp)
    | readEof k0 c hk0 hpc =>
      exact h.upd t _ (Mono.same rfl rfl) h.rwv rfl trivial trivial (by simp)

theorem hinv1_init : HInv1 init := by
  refine ⟨?_, ?_, ?_, ?_⟩ <;> simp [init, rwValid]

theorem hinv1_reachable {s : Sys} (h : Reachable s) : HInv1 s :=
  Reachable.induction (P := HInv1) hinv1_init (fun _ _ _ _ hp hst => hinv1_step hp hst) s h

theorem vK_drain {r : Ret} (h : vK (.drain r) = true) : vK (.ret r) = true ∧ vK (.disconnect (.resetTail r)) = true := by
  revert h; cases r <;> simp [vK, drainRet, retRet, discRet]

theorem vK_disc {r : Ret} (w : Option Nat) (h : vK (.disconnect r) = true) : vK (.discTail w r) = true := h

theorem vK_discTail {w : Option Nat} {r : Ret} (h : vK (.discTail w r) = true) :
    vK (.ret r) = true ∧ vPc (.notifyWait r) = true := by
  revert h; cases r <;> simp [vK, discRet, retRet, notifRet, vPc]

theorem vK_reset {r : Ret} (h : vK (.ret (.resetTail r)) = true) : vK (.ret r) = true := by
  revert h; cases r <;> simp [vK, discRet, retRet, notifRet]

/-! ### reconnect promises -/

def reconnRet : Ret → Bool
  | .connAfterNotify | .connAfterDrain | .resetTail _ => true
  | _ => false

/-- the task is a connection attempt, or will schedule one -/
def reconnPc : Pc → Bool
  | .connStart | .connDelay _ | .connOpening => true
  | .drainAwait _ _ r | .discWait _ r | .notifyWait r => reconnRet r
  | _ => false

def kReconn : Kont → Bool
  | .drain r | .ret r | .disconnect r | .discTail _ r => reconnRet r

theorem need_pos (k : Kont) : 1 ≤ need k := by
  cases k with
  | ret r => cases r <;> simp [need, needRet]
  | _ => simp [need]

theorem exec_reconn (fuel : Nat) (c : Core) (sp : List Pc) (k : Kont) (ho : c.isOpen = true)
    (hn : need k ≤ fuel) (hv : vK k = true) (hd : (exec fuel c sp k).core.isConnected = false)
    (hyp : kReconn k = true ∨ c.isConnected = true ∨ ∃ p ∈ sp, connPc p = true) :
    reconnPc (exec fuel c sp k).pc = true ∨ (∃ p ∈ (exec fuel c sp k).spawned, connPc p = true) ∨ kClose k = true := by
  fun_induction exec fuel c sp k
  case case1 => have := need_pos ‹Kont›; omega
  case case2 ih => exact ih ho (by simp [need] at hn ⊢; omega) (vK_drain hv).1 hd hyp
  case case3 ih => exact ih ho (by simp [need] at hn ⊢; omega) (vK_drain hv).1 hd hyp
  case case4 c' hd' ih =>
    have hs := shrink_drainLoop' hd'
    refine ih (hs.isOpen.trans ho) (by simp [need] at hn ⊢; omega) (vK_drain hv).1 hd ?_
    rw [hs.isConnected]; exact hyp
  case case5 c' e hd' =>
    have hs := shrink_drainLoop' hd'
    rename_i hc _ _
    have : c'.isConnected = false := hd
    rw [hs.isConnected] at this
    simp [this] at hc
  case case6 c' e hd' ih =>
    have hs := (shrink_drainLoop' hd').trans (shrink_requeue c' e)
    exact ih (hs.isOpen.trans ho) (by simp [need, needRet] at hn ⊢; omega) (vK_drain hv).2 hd (.inl rfl)
  case case7 =>
    rename_i c _ _ w _
    have hs := shrink_closeConn c w
    have hd2 : c.isConnected = false := by rw [← hs.isConnected]; exact hd
    rcases hyp with h | h | h
    · exact .inl h
    · rw [hd2] at h; cases h
    · exact .inr (.inl h)
  case case8 ih => exact ih ho (by simp [need] at hn ⊢; omega) hv hd hyp
  case case9 =>
    rename_i r
    rcases hyp with h | h | h
    · exact .inl h
    · have : reconnRet r = true ∨ closeRet r = true := by
        revert hv; cases r <;> simp [vK, discRet, reconnRet, closeRet]
      rcases this with h' | h'
      · exact .inl h'
      · exact .inr (.inr h')
    · exact .inr (.inl h)
  case case10 ih => exact ih ho (by simp [need] at hn ⊢; omega) (vK_discTail hv).1 hd hyp
  case case11 =>
    rcases hyp with h | h | h
    · cases h
    · rw [hd] at h; cases h
    · exact .inr (.inl h)
  case case12 => exact .inr (.inr rfl)
  case case13 ih => exact ih ho (by simp [need, needRet] at hn ⊢; omega) rfl hd (.inl rfl)
  case case14 n c sp =>
    right; left
    have hd2 : c.isConnected = false := hd
    refine ⟨.connDelay (c.now + RETRY_DELAY), ?_, rfl⟩
    simp [hd2, ho]
  case case15 fuel c sp r ih =>
    refine ih ho (by simp [need, needRet] at hn ⊢; omega) (vK_reset hv) hd (.inr (.inr ?_))
    simp [ho, connPc]
  case case16 =>
    rcases hyp with h | h | h
    · cases h
    · rw [hd] at h; cases h
    · exact .inr (.inl h)
  case case17 =>
    rcases hyp with h | h | h
    · cases h
    · rw [hd] at h; cases h
    · exact .inr (.inl h)

/-! ### somebody watches the current transport -/

/-- continuations that end in (re)entering the read loop -/
def chainRet : Ret → Bool
  | .readLoop | .connAfterNotify | .connAfterDrain => true
  | .resetTail r => chainRet r
  | _ => false

/-- the task is, or will become or schedule, a reader of the current transport `w` -/
def chainPc (w : Nat) : Pc → Bool
  | .readStart => true
  | .readWait c => c == w
  | .notifyWait r | .drainAwait _ _ r | .discWait _ r => chainRet r
  | _ => false

def kChain : Kont → Bool
  | .drain r | .ret r | .disconnect r | .discTail _ r => chainRet r

/-- no transport becomes client-closed -/
def NCC (c c' : Core) : Prop := ∀ i, clientClosed c i = false → clientClosed c' i = false

theorem NCC.refl (c : Core) : NCC c c := fun _ h => h
theorem NCC.trans {a b c : Core} (h1 : NCC a b) (h2 : NCC b c) : NCC a c := fun i h => h2 i (h1 i h)
theorem NCC.same {c c' : Core} (h : c'.conns = c.conns) : NCC c c' := by
  intro i hi; unfold clientClosed at *; rw [h]; exact hi

theorem ncc_set_exc (c : Core) (w : Nat) : NCC c { c with conns := c.conns.set w (.dying true) } := by
  intro i hi
  unfold clientClosed at *
  simp only [List.getElem?_set]
  by_cases hwi : w = i
  · subst hwi
    by_cases hl : w < c.conns.length <;> simp [hl]
  · simp only [hwi, ↓reduceIte]; exact hi

theorem ncc_doWrite (c : Core) (w : Nat) (e : Entry) : NCC c (doWrite c w e).1 := by
  unfold doWrite
  split <;> try exact NCC.same rfl
  exact (ncc_set_exc c w).trans (NCC.same rfl)

theorem ncc_drainLoop (w : Nat) (q : List Entry) : ∀ c : Core, NCC c (drainLoop c w q).1 := by
  induction q with
  | nil => intro c; exact NCC.same rfl
  | cons e rest ih =>
    intro c
    simp only [drainLoop]
    split
    · exact NCC.same rfl
    split
    · exact NCC.trans (b := c.emit (.qdrop e.sid c.now .expired)) (NCC.same rfl) (ih _)
    · split
      · exact NCC.trans (b := c.emit (.qdrop e.sid c.now .encErr)) (NCC.same rfl) (ih _)
      · have hw := ncc_doWrite c w e
        split
        · rename_i c' h; rw [h] at hw; exact hw.trans (ih _)
        · rename_i c' h; rw [h] at hw; exact hw.trans (NCC.same rfl)
        · rename_i c' h; rw [h] at hw; exact hw.trans (NCC.same rfl)

theorem ncc_drainLoop' {c c' : Core} {w : Nat} {q : List Entry} {st : DrainStop}
    (h : drainLoop c w q = (c', st)) : NCC c c' := by
  have := ncc_drainLoop w q c; rw [h] at this; exact this

theorem ncc_requeue (c : Core) (e : Entry) : NCC c (requeue c e) := by
  unfold requeue; split <;> exact NCC.same rfl

theorem exec_watch (fuel : Nat) (c : Core) (sp : List Pc) (k : Kont) (hn : need k ≤ fuel) (w : Nat)
    (hw : (exec fuel c sp k).core.rw = some w) :
    (∃ r, (exec fuel c sp k).pc = .discWait w r) ∨
    ((clientClosed c w = false → clientClosed (exec fuel c sp k).core w = false) ∧
     (kChain k = true → chainPc w (exec fuel c sp k).pc = true ∨ .readStart ∈ (exec fuel c sp k).spawned)) := by
  fun_induction exec fuel c sp k
  case case1 => have := need_pos ‹Kont›; omega
  case case2 ih => exact ih (by simp [need] at hn ⊢; omega) hw
  case case3 ih => exact ih (by simp [need] at hn ⊢; omega) hw
  case case4 c' hd' ih =>
    rcases ih (by simp [need] at hn ⊢; omega) hw with h | ⟨h1, h2⟩
    · exact .inl h
    · exact .inr ⟨fun h => h1 (ncc_drainLoop' hd' _ h), h2⟩
  case case5 c' e hd' =>
    exact .inr ⟨fun h => ncc_drainLoop' hd' _ h, fun h => .inl h⟩
  case case6 c' e hd' ih =>
    rcases ih (by simp [need, needRet] at hn ⊢; omega) hw with h | ⟨h1, h2⟩
    · exact .inl h
    · exact .inr ⟨fun h => h1 (ncc_requeue _ _ _ (ncc_drainLoop' hd' _ h)), h2⟩
  case case7 =>
    rename_i c _ r w0 hw0
    left
    have : (closeConn c w0).rw = some w := hw
    rw [(shrink_closeConn c w0).rw, hw0] at this
    cases this
    exact ⟨r, rfl⟩
  case case8 ih => exact ih (by simp [need] at hn ⊢; omega) hw
  case case9 => cases hw
  case case10 ih => exact ih (by simp [need] at hn ⊢; omega) hw
  case case11 => exact .inr ⟨id, fun h => by cases h⟩
  case case12 => exact .inr ⟨fun h => h, fun h => by cases h⟩
  case case13 ih => exact ih (by simp [need, needRet] at hn ⊢; omega) hw
  case case14 => exact .inr ⟨id, fun _ => .inr (by simp)⟩
  case case15 ih => exact ih (by simp [need, needRet] at hn ⊢; omega) hw
  case case16 =>
    rename_i k hk
    refine .inr ⟨id, fun _ => .inl ?_⟩
    have : _ = some w := hw
    rw [hk] at this
    cases this
    simp [chainPc]
  case case17 => exact .inr ⟨id, fun h => by rename_i hk; have : _ = some w := hw; rw [hk] at this; cases this⟩

/-! ### `step` on a `run` label, with the answer and the EOF branch visible -/

inductive RunCaseE (s : Sys) (t : Nat) (a : Answer) : Sys → Prop
  | exec (k0 : Model.Sock.Task) (pc : Pc) (c0 : Core) (kont : Kont) : s.tasks[t]? = some k0 → k0.pc = pc →
      ExecCase s pc c0 kont → RunCaseE s t a (upd s t (exec FUEL c0 [] kont))
  | connect (k0 : Model.Sock.Task) : s.tasks[t]? = some k0 → connPc k0.pc = true →
      RunCaseE s t a (upd s t (connectBlock s.core))
  | openOk (k0 : Model.Sock.Task) : s.tasks[t]? = some k0 → k0.pc = .connOpening →
      RunCaseE s t a (upd s t
        ⟨({ s.core with conns := s.core.conns ++ [ConnSt.live false false], rw := some s.core.conns.length,
                        connecting := false, isConnected := true }.emit
            (.opened s.core.conns.length s.core.now)).emit (.notify true s.core.now),
         .notifyWait .connAfterNotify, []⟩)
  | openRefused (k0 : Model.Sock.Task) : s.tasks[t]? = some k0 → k0.pc = .connOpening →
      RunCaseE s t a (upd s t
        ⟨{ s.core with connecting := false }.emit (.refused s.core.now), .finished,
         if !s.core.isConnected && s.core.isOpen then [.connDelay (s.core.now + RETRY_DELAY)] else []⟩)
  | cancelled (k0 : Model.Sock.Task) : s.tasks[t]? = some k0 → k0.pc = .cancelledOpening →
      RunCaseE s t a (upd s t ⟨{ s.core with connecting := false }, .finished, []⟩)
  | readMsg (k0 : Model.Sock.Task) (c tag : Nat) : s.tasks[t]? = some k0 → k0.pc = .readWait c →
      RunCaseE s t a (upd s t ⟨s.core.emit (.deliver (s.core.rw.getD 0) tag s.core.now), .notifyWait .readLoop, []⟩)
  | readEof (k0 : Model.Sock.Task) (c : Nat) : s.tasks[t]? = some k0 → k0.pc = .readWait c → a = .readEof →
      (∀ w, s.core.rw = some w → ¬ liveAt s.core w) →
      RunCaseE s t a (upd s t ⟨s.core, .finished, []⟩)

theorem step_run_casesE {s s' : Sys} {t : Nat} {a : Answer} (h : step s (.run t a) = some s') : RunCaseE s t a s' := by
  simp only [step] at h
  split at h
  all_goals (try (rename_i heq; rw [pcAt_eq] at heq; obtain ⟨k0, hk0, hpc⟩ := heq))
  · split at h
    · cases h; exact .connect k0 hk0 (by rw [hpc]; rfl)
    · cases h
  · cases h; exact .connect k0 hk0 (by rw [hpc]; rfl)
  · cases h; exact .openOk k0 hk0 hpc
  · cases h; exact .openRefused k0 hk0 hpc
  · cases h; exact .cancelled k0 hk0 hpc
  · cases h; exact .exec k0 _ _ _ hk0 hpc (.drainOk _ _ _)
  · split at h
    · cases h
    · rename_i hl
      cases h
      refine .exec k0 _ _ _ hk0 hpc (.drainErr _ _ _ ?_)
      intro hlive; unfold liveAt at hlive; rw [hlive] at hl; exact hl rfl
  · split at h
    · rename_i exc hd; cases h; exact .exec k0 _ _ _ hk0 hpc (.closed _ _ exc hd)
    · cases h
  · cases h; exact .exec k0 _ _ _ hk0 hpc (.notified _)
  · cases h; exact .exec k0 _ _ _ hk0 hpc .readStart
  · cases h; exact .readMsg k0 _ _ hk0 hpc
  · cases h; exact .exec k0 _ _ _ hk0 hpc (.readBad _)
  · split at h
    · split at h
      · cases h; exact .exec k0 _ _ _ hk0 hpc (.readFail _)
      · rename_i w hw hl
        cases h
        refine .readEof k0 _ hk0 hpc rfl ?_
        intro w' hw' hlive
        rw [hw] at hw'; cases hw'
        unfold liveAt at hlive; rw [hlive] at hl; exact hl rfl
    · rename_i hw
      cases h
      refine .readEof k0 _ hk0 hpc rfl ?_
      intro w' hw'; rw [hw] at hw'; cases hw'
  · cases h; exact .exec k0 _ _ _ hk0 hpc (.readFail _)
  · split at h
    · cases h
    · rename_i hc; cases h
      exact .exec k0 _ _ _ hk0 hpc (.gathered (by simpa using hc))
  · cases h

/-! ### `HInv2`: cancellations, watchers, reconnect promises -/

def CancelInv (s : Sys) : Prop :=
  (∃ k ∈ s.tasks, k.pc = .cancelledOpening) → ∃ k ∈ s.tasks, k.pc = .closeGather

def WatchInv (s : Sys) : Prop :=
  s.core.isOpen = true → ∀ w, s.core.rw = some w →
    (∃ k ∈ s.tasks, ∃ r, k.pc = .discWait w r) ∨
    (clientClosed s.core w = false ∧ ∃ k ∈ s.tasks, chainPc w k.pc = true)

def ReconnInv (s : Sys) : Prop :=
  s.core.isOpen = true → closing s.core.trace = false → s.core.isConnected = false →
    ∃ k ∈ s.tasks, reconnPc k.pc = true

structure HInv2 (s : Sys) : Prop where
  cancel : CancelInv s
  watch : WatchInv s
  reconn : ReconnInv s

theorem connPc_reconn {p : Pc} (h : connPc p = true) : reconnPc p = true := by
  cases p <;> simp_all [connPc, reconnPc]

theorem spawnPc_not_cancelled {p : Pc} (h : spawnPc p = true) : p ≠ .cancelledOpening := by
  cases p <;> simp_all [spawnPc]

theorem cancel_upd {s : Sys} {t : Nat} {k0 : Task} {out : Out} (h : CancelInv s) (ht : s.tasks[t]? = some k0)
    (hpc : out.pc ≠ .cancelledOpening) (hsp : ∀ p ∈ out.spawned, spawnPc p = true)
    (hg : k0.pc = .closeGather → ∀ k ∈ s.tasks, k.pc ≠ .cancelledOpening) : CancelInv (upd s t out) := by
  rintro ⟨k, hk, hkp⟩
  have hold : k ∈ s.tasks := by
    rcases mem_upd hk with hk | ⟨k1, _, rfl⟩ | ⟨_, hk⟩
    · exact hk
    · exact absurd hkp hpc
    · exact absurd hkp (spawnPc_not_cancelled (hsp _ hk))
  obtain ⟨g, hg1, hg2⟩ := h ⟨k, hold, hkp⟩
  rcases mem_upd_other (out := out) hg1 ht with h' | rfl
  · exact ⟨g, h', hg2⟩
  · exact absurd hkp (hg hg2 k hold)

/-- what a block must guarantee about the current transport -/
def WatchStep (s : Sys) (k0 : Task) (out : Out) : Prop :=
  ∀ w, out.core.rw = some w →
    (∃ r, out.pc = .discWait w r) ∨ (clientClosed out.core w = false ∧ chainPc w out.pc = true) ∨
    (s.core.rw = some w ∧ (clientClosed s.core w = false → clientClosed out.core w = false) ∧
      (∀ r, k0.pc ≠ .discWait w r) ∧
      (chainPc w k0.pc = true → clientClosed s.core w = false →
        chainPc w out.pc = true ∨ .readStart ∈ out.spawned))

theorem watch_upd {s : Sys} {t : Nat} {k0 : Task} {out : Out} (h : WatchInv s) (ht : s.tasks[t]? = some k0)
    (hopen : out.core.isOpen = s.core.isOpen) (hw : WatchStep s k0 out) : WatchInv (upd s t out) := by
  intro ho w hrw
  have ho' : s.core.isOpen = true := by rw [← hopen]; exact ho
  rcases hw w hrw with ⟨r, hr⟩ | ⟨h1, h2⟩ | ⟨h1, h2, h3, h4⟩
  · exact .inl ⟨_, mem_upd_self ht, r, hr⟩
  · exact .inr ⟨h1, _, mem_upd_self ht, h2⟩
  · rcases h ho' w h1 with ⟨k, hk, r, hr⟩ | ⟨hc, k, hk, hch⟩
    · rcases mem_upd_other (out := out) hk ht with h' | rfl
      · exact .inl ⟨k, h', r, hr⟩
      · exact absurd hr (h3 r)
    · refine .inr ⟨h2 hc, ?_⟩
      rcases mem_upd_other (out := out) hk ht with h' | rfl
      · exact ⟨k, h', hch⟩
      · rcases h4 hch hc with h5 | h5
        · exact ⟨_, mem_upd_self ht, h5⟩
        · exact ⟨_, mem_upd_spawn h5, rfl⟩

def ReconnStep (s : Sys) (k0 : Task) (out : Out) : Prop :=
  out.core.isOpen = true → closing out.core.trace = false → out.core.isConnected = false →
    reconnPc out.pc = true ∨ (∃ p ∈ out.spawned, connPc p = true) ∨
    (s.core.isOpen = true ∧ closing s.core.trace = false ∧ s.core.isConnected = false ∧ reconnPc k0.pc = false) ∨
    (∃ k ∈ s.tasks, k ≠ k0 ∧ reconnPc k.pc = true)

theorem reconn_upd {s : Sys} {t : Nat} {k0 : Task} {out : Out} (h : ReconnInv s) (ht : s.tasks[t]? = some k0)
    (hr : ReconnStep s k0 out) : ReconnInv (upd s t out) := by
  intro ho hcl hd
  rcases hr ho hcl hd with h1 | ⟨p, hp, hpc⟩ | ⟨a, b, c, d⟩ | ⟨k, hk, hne, hkp⟩
  · exact ⟨_, mem_upd_self ht, h1⟩
  · exact ⟨_, mem_upd_spawn hp, connPc_reconn hpc⟩
  · obtain ⟨k, hk, hkp⟩ := h a b c
    rcases mem_upd_other (out := out) hk ht with h' | rfl
    · exact ⟨k, h', hkp⟩
    · rw [d] at hkp; cases hkp
  · rcases mem_upd_other (out := out) hk ht with h' | rfl
    · exact ⟨k, h', hkp⟩
    · exact absurd rfl hne

theorem exec_discTail_eq (fuel : Nat) (c : Core) (sp : List Pc) (w : Option Nat) (r : Ret) (h : c.rw = w) :
    (exec (fuel + 1) c sp (.discTail w r)).core.rw = none ∧
    (exec (fuel + 1) c sp (.discTail w r)).core.isConnected = false ∧
    (exec (fuel + 1) c sp (.discTail w r)).pc = .notifyWait r ∧
    (exec (fuel + 1) c sp (.discTail w r)).spawned = sp := by
  simp [exec, h, Core.emit]

theorem exec_disconnect_some (fuel : Nat) (c : Core) (sp : List Pc) (w : Nat) (r : Ret) (h : c.rw = some w) :
    exec (fuel + 1) c sp (.disconnect r) = ⟨closeConn c w, .discWait w r, sp⟩ := by
  simp [exec, h]

theorem execCase_ncc {s : Sys} {pc : Pc} {c0 : Core} {kont : Kont} (h : ExecCase s pc c0 kont) : NCC s.core c0 := by
  cases h <;> first | exact NCC.refl _ | exact ncc_requeue _ _

theorem execCase_chain {s : Sys} {pc : Pc} {c0 : Core} {kont : Kont} (h : ExecCase s pc c0 kont) (w : Nat)
    (hc : chainPc w pc = true) : kChain kont = true ∨ ∃ r, kont = .disconnect r := by
  cases h
  case readFail => exact .inr ⟨_, rfl⟩
  case gathered => cases hc
  all_goals exact .inl (by first | exact hc | rfl)

theorem execCase_reconn {s : Sys} {pc : Pc} {c0 : Core} {kont : Kont} (h : ExecCase s pc c0 kont)
    (hc : reconnPc pc = true) : kReconn kont = true := by
  cases h <;> first | exact hc | rfl | cases hc

theorem execCase_gather {s : Sys} {pc : Pc} {c0 : Core} {kont : Kont} (h : ExecCase s pc c0 kont)
    (hc : pc = .closeGather) : ∀ k ∈ s.tasks, k.pc ≠ .cancelledOpening := by
  cases h <;> try cases hc
  rename_i hn
  intro k hk hkp
  have : anyCancelPending s.tasks = true := by
    simp only [anyCancelPending, List.any_eq_true]
    exact ⟨k, hk, by simp [hkp]⟩
  rw [hn] at this; cases this

theorem FUEL_eq : FUEL = 15 + 1 := rfl

theorem hinv2_exec {s : Sys} {t : Nat} {k0 : Task} {c0 : Core} {kont : Kont} (hc : CInv s)
    (h1 : HInv1 s) (h2 : HInv2 s) (ht : s.tasks[t]? = some k0) (he : ExecCase s k0.pc c0 kont) :
    HInv2 (upd s t (exec FUEL c0 [] kont)) := by
  have hmem : k0 ∈ s.tasks := List.mem_of_getElem? ht
  have hv : vK kont = true := execCase_vK he (h1.v k0 hmem)
  have hn : need kont ≤ FUEL := need_le_fuel hv
  have hfr := exec_frame FUEL c0 [] kont
  have hsh := he.shrink
  have hopen : (exec FUEL c0 [] kont).core.isOpen = s.core.isOpen := hfr.isOpen.trans hsh.isOpen
  refine ⟨?_, ?_, ?_⟩
  · refine cancel_upd h2.cancel ht ?_ ?_ (execCase_gather he)
    · have := exec_pc FUEL c0 [] kont
      intro e; rw [e] at this; cases this
    · intro p hp
      rcases exec_spawned FUEL c0 [] kont p hp with h | h
      · cases h
      · exact h
  · refine watch_upd h2.watch ht hopen ?_
    intro w hw
    have hw0 : c0.rw = some w := by
      rcases hfr.rw with h | h
      · rw [← h]; exact hw
      · rw [h] at hw; cases hw
    have hws : s.core.rw = some w := by rw [← hsh.rw]; exact hw0
    by_cases hdisc : ∃ r, kont = .disconnect r
    · obtain ⟨r, rfl⟩ := hdisc
      left
      rw [FUEL_eq, exec_disconnect_some _ _ _ w r hw0]
      exact ⟨r, rfl⟩
    · rcases exec_watch FUEL c0 [] kont hn w hw with h | ⟨g1, g2⟩
      · exact .inl h
      · right; right
        refine ⟨hws, fun h => g1 (execCase_ncc he _ h), ?_, ?_⟩
        · intro r hr
          rw [hr] at he
          cases he
          rename_i exc hd
          have := (exec_discTail_eq 15 s.core [] (some w) r hws).1
          rw [← FUEL_eq] at this
          rw [this] at hw; cases hw
        · intro hch _
          rcases execCase_chain he w hch with h | h
          · exact g2 h
          · exact absurd h hdisc
  · refine reconn_upd h2.reconn ht ?_
    intro ho hcl hd
    have ho' : s.core.isOpen = true := by rw [← hopen]; exact ho
    have hcl' : closing s.core.trace = false := by
      cases hx : closing s.core.trace with
      | false => rfl
      | true => have := hc.closing_open hx; rw [ho'] at this; cases this
    have hkc : kClose kont = false := by
      rw [← he.pc_ok.2.2.2]
      exact hc.no_close_task hcl' t k0 ht
    have ho0 : c0.isOpen = true := by rw [hsh.isOpen]; exact ho'
    have key : (kReconn kont = true ∨ c0.isConnected = true ∨ ∃ p ∈ ([] : List Pc), connPc p = true) →
        reconnPc (exec FUEL c0 [] kont).pc = true ∨ (∃ p ∈ (exec FUEL c0 [] kont).spawned, connPc p = true) := by
      intro hyp
      rcases exec_reconn FUEL c0 [] kont ho0 hn hv hd hyp with h | h | h
      · exact .inl h
      · exact .inr h
      · rw [hkc] at h; cases h
    rcases Bool.eq_false_or_eq_true s.core.isConnected with hcon | hcon
    · rcases key (.inr (.inl (by rw [hsh.isConnected]; exact hcon))) with h | h
      · exact .inl h
      · exact .inr (.inl h)
    · rcases Bool.eq_false_or_eq_true (reconnPc k0.pc) with hrp | hrp
      · rcases key (.inl (execCase_reconn he hrp)) with h | h
        · exact .inl h
        · exact .inr (.inl h)
      · exact .inr (.inr (.inl ⟨ho', hcl', hcon, hrp⟩))

theorem cancel_api {s : Sys} {out : Out} (h : CancelInv s)
    (hpc : out.pc ≠ .cancelledOpening) (hsp : ∀ p ∈ out.spawned, spawnPc p = true) : CancelInv (spawnApi s out) := by
  rintro ⟨k, hk, hkp⟩
  have hold : k ∈ s.tasks := by
    rcases mem_spawnApi hk with hk | rfl | ⟨_, hk⟩
    · exact hk
    · exact absurd hkp hpc
    · exact absurd hkp (spawnPc_not_cancelled (hsp _ hk))
  obtain ⟨g, hg1, hg2⟩ := h ⟨k, hold, hkp⟩
  exact ⟨g, mem_spawnApi_old hg1, hg2⟩

theorem watch_api {s : Sys} {out : Out} (h : WatchInv s) (hopen : out.core.isOpen = true → s.core.isOpen = true)
    (hw : ∀ w, out.core.rw = some w → (∃ r, out.pc = .discWait w r) ∨
      (s.core.rw = some w ∧ (clientClosed s.core w = false → clientClosed out.core w = false))) :
    WatchInv (spawnApi s out) := by
  intro ho w hrw
  rcases hw w hrw with ⟨r, hr⟩ | ⟨g1, g2⟩
  · exact .inl ⟨_, mem_spawnApi_self, r, hr⟩
  · rcases h (hopen ho) w g1 with ⟨k, hk, r, hr⟩ | ⟨hc, k, hk, hch⟩
    · exact .inl ⟨k, mem_spawnApi_old hk, r, hr⟩
    · exact .inr ⟨g2 hc, k, mem_spawnApi_old hk, hch⟩

theorem reconn_api {s : Sys} {out : Out} (h : ReconnInv s)
    (hr : out.core.isOpen = true → closing out.core.trace = false → out.core.isConnected = false →
      reconnPc out.pc = true ∨ (∃ p ∈ out.spawned, connPc p = true) ∨
      (s.core.isOpen = true ∧ closing s.core.trace = false ∧ s.core.isConnected = false)) :
    ReconnInv (spawnApi s out) := by
  intro ho hcl hd
  rcases hr ho hcl hd with h1 | ⟨p, hp, hpc⟩ | ⟨a, b, c⟩
  · exact ⟨_, mem_spawnApi_self, h1⟩
  · exact ⟨_, mem_spawnApi_spawn hp, connPc_reconn hpc⟩
  · obtain ⟨k, hk, hkp⟩ := h a b c
    exact ⟨k, mem_spawnApi_old hk, hkp⟩

theorem hinv2_env {s : Sys} (h : HInv2 s) (c' : Core) (ho : c'.isOpen = s.core.isOpen) (hrw : c'.rw = s.core.rw)
    (hcn : c'.isConnected = s.core.isConnected) (hcl : closing c'.trace = closing s.core.trace)
    (hncc : NCC s.core c') : HInv2 { s with core := c' } := by
  refine ⟨h.cancel, ?_, ?_⟩
  · intro ho' w hw
    rcases h.watch (ho ▸ ho') w (hrw ▸ hw) with h1 | ⟨h1, h2⟩
    · exact .inl h1
    · exact .inr ⟨hncc _ h1, h2⟩
  · intro ho' hcl' hd
    exact h.reconn (ho ▸ ho') (hcl ▸ hcl') (hcn ▸ hd)

theorem ncc_set_ran (c : Core) (w : Nat) (e : Bool) (h : c.conns[w]? = some (.dying e)) :
    NCC c { c with conns := c.conns.set w (.dead e) } := by
  intro i hi
  unfold clientClosed at *
  simp only [List.getElem?_set]
  by_cases hwi : w = i
  · subst hwi
    rw [h] at hi
    by_cases hl : w < c.conns.length
    · simp only [↓reduceIte, hl]
      cases e <;> simp_all
    · simp [hl]
  · simp only [hwi, ↓reduceIte]; exact hi

theorem ncc_set_live (c : Core) (w : Nat) (p f : Bool) :
    NCC c { c with conns := c.conns.set w (.live p f) } := by
  intro i hi
  unfold clientClosed at *
  simp only [List.getElem?_set]
  by_cases hwi : w = i
  · subst hwi
    by_cases hl : w < c.conns.length <;> simp [hl]
  · simp only [hwi, ↓reduceIte]; exact hi

theorem excLost_of {c : Core} {w : Nat} (hlen : w < c.conns.length) (hnl : ¬ liveAt c w)
    (hcc : clientClosed c w = false) : excLost c w = true := by
  unfold liveAt at hnl
  unfold clientClosed at hcc
  unfold excLost
  rw [List.getElem?_eq_getElem hlen] at *
  cases hx : c.conns[w] with
  | live p f => simp [hx, ConnSt.isLive] at hnl
  | dying e => cases e <;> simp_all
  | dead e => cases e <;> simp_all

theorem closing_emit {c : Core} {e : Ev} (he : apiEv e = false) : closing (c.emit e).trace = closing c.trace :=
  (sameFlags_emit c he).closing

theorem no_close_mem {s : Sys} (hc : CInv s) (hcl : closing s.core.trace = false) :
    ∀ k ∈ s.tasks, closePc k.pc = false := by
  intro k hk
  obtain ⟨i, hi⟩ := List.getElem?_of_mem hk
  exact hc.no_close_task hcl i k hi

/-- a block that leaves `rw` and the transports alone, run by a task that is neither a reader nor a disconnector -/
theorem watchStep_plain {s : Sys} {k0 : Task} {out : Out} (hrw : out.core.rw = s.core.rw)
    (hcn : out.core.conns = s.core.conns) (hnd : ∀ w r, k0.pc ≠ .discWait w r)
    (hch : ∀ w, chainPc w k0.pc = true → chainPc w out.pc = true) : WatchStep s k0 out := by
  intro w hw
  right; right
  refine ⟨hrw ▸ hw, ?_, hnd w, fun h _ => .inl (hch w h)⟩
  intro h; unfold clientClosed at *; rw [hcn]; exact h

theorem hinv2_run {s s' : Sys} {t : Nat} {a : Answer} (hinv : Inv s) (hc : CInv s) (h1 : HInv1 s) (h2 : HInv2 s)
    (hf : eofOk s (.run t a) = true) (hst : step s (.run t a) = some s') : HInv2 s' := by
  cases step_run_casesE hst with
  | exec k0 pc c0 kont hk0 hpc he =>
    subst hpc
    exact hinv2_exec hc h1 h2 hk0 he
  | connect k0 hk0 hpc =>
    have hnd : ∀ w r, k0.pc ≠ .discWait w r := by intro w r e; rw [e] at hpc; cases hpc
    have hnc : ∀ w, chainPc w k0.pc = true → False := by
      intro w e; revert hpc e; cases k0.pc <;> simp [connPc, chainPc]
    have hng : k0.pc = .closeGather → ∀ k ∈ s.tasks, k.pc ≠ .cancelledOpening := by
      intro e; rw [e] at hpc; cases hpc
    unfold connectBlock
    split
    · rename_i hcond
      refine ⟨cancel_upd h2.cancel hk0 (by simp) (by simp) hng,
        watch_upd h2.watch hk0 rfl (watchStep_plain rfl rfl hnd (fun w e => (hnc w e).elim)),
        reconn_upd h2.reconn hk0 ?_⟩
      intro ho hcl hd
      have ho' : s.core.isOpen = true := ho
      have hd' : s.core.isConnected = false := hd
      have hcg : s.core.connecting = true := by simpa [ho', hd'] using hcond
      obtain ⟨i, k, hk, hop⟩ := hinv.connecting_opening hcg
      have hkm : k ∈ s.tasks := List.mem_of_getElem? hk
      right; right; right
      refine ⟨k, hkm, ?_, ?_⟩
      · intro e; subst e; revert hop hpc; cases k.pc <;> simp [openingPc, connPc]
      · have hkp : k.pc = .connOpening ∨ k.pc = .cancelledOpening := by
          revert hop; cases k.pc <;> simp [openingPc]
        rcases hkp with e | e
        · rw [e]; rfl
        · obtain ⟨g, hg, hgp⟩ := h2.cancel ⟨k, hkm, e⟩
          have := no_close_mem hc hcl g hg
          rw [hgp] at this; cases this
    · refine ⟨cancel_upd h2.cancel hk0 (by simp) (by simp) hng,
        watch_upd h2.watch hk0 rfl (watchStep_plain rfl rfl hnd (fun w e => (hnc w e).elim)),
        reconn_upd h2.reconn hk0 (fun _ _ _ => .inl rfl)⟩
  | openOk k0 hk0 hpc =>
    refine ⟨cancel_upd h2.cancel hk0 (by simp) (by simp) (fun e => by rw [e] at hpc; cases hpc),
      watch_upd h2.watch hk0 rfl ?_, reconn_upd h2.reconn hk0 (fun _ _ hd => by cases hd)⟩
    intro w hw
    right; left
    simp only [Core.emit, Option.some.injEq] at hw
    subst hw
    refine ⟨?_, rfl⟩
    simp [clientClosed, Core.emit]
  | openRefused k0 hk0 hpc =>
    refine ⟨cancel_upd h2.cancel hk0 (by simp) ?_ (fun e => by rw [e] at hpc; cases hpc),
      watch_upd h2.watch hk0 rfl (watchStep_plain rfl rfl (fun w r e => by rw [e] at hpc; cases hpc)
        (fun w e => by rw [hpc] at e; cases e)),
      reconn_upd h2.reconn hk0 ?_⟩
    · intro p hp; dsimp only at hp; split at hp <;> simp at hp; subst hp; rfl
    · intro ho _ hd
      have ho' : s.core.isOpen = true := ho
      have hd' : s.core.isConnected = false := hd
      right; left
      refine ⟨.connDelay (s.core.now + RETRY_DELAY), ?_, rfl⟩
      simp [ho', hd']
  | cancelled k0 hk0 hpc =>
    refine ⟨cancel_upd h2.cancel hk0 (by simp) (by simp) (fun e => by rw [e] at hpc; cases hpc),
      watch_upd h2.watch hk0 rfl (watchStep_plain rfl rfl (fun w r e => by rw [e] at hpc; cases hpc)
        (fun w e => by rw [hpc] at e; cases e)),
      reconn_upd h2.reconn hk0 ?_⟩
    intro ho hcl hd
    exact .inr (.inr (.inl ⟨ho, hcl, hd, by rw [hpc]; rfl⟩))
  | readMsg k0 c tag hk0 hpc =>
    refine ⟨cancel_upd h2.cancel hk0 (by simp) (by simp) (fun e => by rw [e] at hpc; cases hpc),
      watch_upd h2.watch hk0 rfl (watchStep_plain rfl rfl (fun w r e => by rw [e] at hpc; cases hpc)
        (fun w e => rfl)),
      reconn_upd h2.reconn hk0 ?_⟩
    intro ho hcl hd
    refine .inr (.inr (.inl ⟨ho, ?_, hd, by rw [hpc]; rfl⟩))
    rw [← closing_emit (c := s.core) (e := .deliver (s.core.rw.getD 0) tag s.core.now) rfl]; exact hcl
  | readEof k0 c hk0 hpc ha hnl =>
    subst ha
    refine ⟨cancel_upd h2.cancel hk0 (by simp) (by simp) (fun e => by rw [e] at hpc; cases hpc),
      watch_upd h2.watch hk0 rfl ?_, reconn_upd h2.reconn hk0 ?_⟩
    · intro w hw
      right; right
      refine ⟨hw, fun h => h, (fun r e => by rw [e] at hpc; cases hpc), ?_⟩
      intro hch hcc
      exfalso
      rw [hpc] at hch
      simp only [chainPc, beq_iff_eq] at hch
      subst hch
      have hex := excLost_of (h1.rwv c hw) (hnl c hw) hcc
      have hp : pcAt s t = some (.readWait c) := pcAt_eq.2 ⟨k0, hk0, hpc⟩
      simp only [eofOk, hp, hex] at hf
      cases hf
    · intro ho hcl hd
      exact .inr (.inr (.inl ⟨ho, hcl, hd, by rw [hpc]; rfl⟩))

theorem suspPc_not_cancelled {p : Pc} (h : suspPc p = true) : p ≠ .cancelledOpening := by
  cases p <;> simp_all [suspPc]

theorem not_closing_of_open {s : Sys} (hc : CInv s) (ho : s.core.isOpen = true) : closing s.core.trace = false := by
  cases hx : closing s.core.trace with
  | false => rfl
  | true => have := hc.closing_open hx; rw [ho] at this; cases this

/-- an API call that runs `exec` from a core that differs from the current one by queue / trace only -/
theorem hinv2_api_exec {s : Sys} {c0 : Core} {kont : Kont} (hc : CInv s) (h2 : HInv2 s)
    (hs : Shrink s.core c0) (hcn : c0.conns = s.core.conns) (hv : vK kont = true) (hkc : kClose kont = false)
    (hkr : kReconn kont = true ∨ ∃ r, kont = .drain r) :
    HInv2 (spawnApi s (exec FUEL c0 [] kont)) := by
  have hn : need kont ≤ FUEL := need_le_fuel hv
  have hfr := exec_frame FUEL c0 [] kont
  have hopen : (exec FUEL c0 [] kont).core.isOpen = s.core.isOpen := hfr.isOpen.trans hs.isOpen
  refine ⟨?_, ?_, ?_⟩
  · refine cancel_api h2.cancel ?_ ?_
    · have := exec_pc FUEL c0 [] kont
      intro e; rw [e] at this; cases this
    · intro p hp
      rcases exec_spawned FUEL c0 [] kont p hp with h | h
      · cases h
      · exact h
  · refine watch_api h2.watch (fun h => hopen ▸ h) ?_
    intro w hw
    have hw0 : c0.rw = some w := by
      rcases hfr.rw with h | h
      · rw [← h]; exact hw
      · rw [h] at hw; cases hw
    have hws : s.core.rw = some w := by rw [← hs.rw]; exact hw0
    by_cases hdisc : ∃ r, kont = .disconnect r
    · obtain ⟨r, rfl⟩ := hdisc
      left
      rw [FUEL_eq, exec_disconnect_some _ _ _ w r hw0]
      exact ⟨r, rfl⟩
    · rcases exec_watch FUEL c0 [] kont hn w hw with h | ⟨g1, _⟩
      · exact .inl h
      · exact .inr ⟨hws, fun h => g1 (NCC.same hcn _ h)⟩
  · refine reconn_api h2.reconn ?_
    intro ho _ hd
    have ho' : s.core.isOpen = true := by rw [← hopen]; exact ho
    have hcl' := not_closing_of_open hc ho'
    have ho0 : c0.isOpen = true := by rw [hs.isOpen]; exact ho'
    have key : (kReconn kont = true ∨ c0.isConnected = true ∨ ∃ p ∈ ([] : List Pc), connPc p = true) →
        reconnPc (exec FUEL c0 [] kont).pc = true ∨ (∃ p ∈ (exec FUEL c0 [] kont).spawned, connPc p = true) := by
      intro hyp
      rcases exec_reconn FUEL c0 [] kont ho0 hn hv hd hyp with h | h | h
      · exact .inl h
      · exact .inr h
      · rw [hkc] at h; cases h
    rcases hkr with h | _
    · rcases key (.inl h) with h | h
      · exact .inl h
      · exact .inr (.inl h)
    · rcases Bool.eq_false_or_eq_true s.core.isConnected with hcon | hcon
      · rcases key (.inr (.inl (by rw [hs.isConnected]; exact hcon))) with h | h
        · exact .inl h
        · exact .inr (.inl h)
      · exact .inr (.inr ⟨ho', hcl', hcon⟩)

/-- an API call that only touches queue / trace and finishes at once -/
theorem hinv2_api_plain {s : Sys} {c0 : Core} (h2 : HInv2 s) (hs : Shrink s.core c0) (hcn : c0.conns = s.core.conns)
    (hcl : closing c0.trace = closing s.core.trace) : HInv2 (spawnApi s ⟨c0, .finished, []⟩) := by
  refine ⟨cancel_api h2.cancel (by simp) (by simp), watch_api h2.watch (fun h => hs.isOpen ▸ h) ?_,
    reconn_api h2.reconn ?_⟩
  · intro w hw
    exact .inr ⟨hs.rw ▸ hw, fun h => NCC.same hcn _ h⟩
  · intro ho hcl' hd
    exact .inr (.inr ⟨hs.isOpen ▸ ho, hcl ▸ hcl', hs.isConnected ▸ hd⟩)

theorem closing_purge (s : Sys) :
    closing (s.core.trace ++ purgeEvents s.core.now s.core.queue) = closing s.core.trace := by
  refine (flags_append _ _ ?_).1
  intro e he
  simp only [purgeEvents, List.mem_map] at he
  obtain ⟨x, _, rfl⟩ := he
  rfl

theorem hinv2_step {s s' : Sys} {l : Label} (hinv : Inv s) (hc : CInv s) (h1 : HInv1 s) (h2 : HInv2 s)
    (hf : fair s l = true) (hst : step s l = some s') : HInv2 s' := by
  simp only [fair, Bool.and_eq_true] at hf
  obtain ⟨hdis, heof⟩ := hf
  cases l with
  | advance t =>
    simp only [step] at hst
    split at hst
    · cases hst; exact hinv2_env h2 _ rfl rfl rfl rfl (NCC.same rfl)
    · cases hst
  | envLost cid =>
    simp only [step] at hst
    split at hst
    · cases hst
      exact hinv2_env h2 _ rfl rfl rfl (closing_emit (e := .lost cid s.core.now) rfl)
        ((ncc_set_exc _ _).trans (NCC.same rfl))
    · cases hst
  | envLostRan cid =>
    simp only [step] at hst
    split at hst
    · rename_i e he; cases hst
      exact hinv2_env h2 _ rfl rfl rfl rfl (ncc_set_ran _ _ _ he)
    · cases hst
  | envPause cid b =>
    simp only [step] at hst
    split at hst
    · cases hst; exact hinv2_env h2 _ rfl rfl rfl rfl (ncc_set_live _ _ _ _)
    · cases hst
  | envFailWrites cid b =>
    simp only [step] at hst
    split at hst
    · cases hst; exact hinv2_env h2 _ rfl rfl rfl rfl (ncc_set_live _ _ _ _)
    · cases hst
  | apiOpen =>
    have hncl : closing s.core.trace = false := by simpa [disciplined] using hdis
    simp only [step] at hst
    split at hst
    · cases hst
      refine ⟨cancel_api h2.cancel (by simp) (by simp), watch_api h2.watch (fun h => h) ?_, reconn_api h2.reconn ?_⟩
      · intro w hw
        exact .inr ⟨hw, fun h => h⟩
      · intro ho _ hd
        exact .inr (.inr ⟨ho, hncl, hd⟩)
    · rename_i ho
      cases hst
      have ho' : s.core.isOpen = false := by simpa [Core.emit] using ho
      have hrw : s.core.rw = none := (hc.idle ho' hncl).1
      refine ⟨cancel_api h2.cancel (by simp) (by simp [spawnPc]), ?_, reconn_api h2.reconn ?_⟩
      · intro _ w hw
        have : s.core.rw = some w := hw
        rw [hrw] at this; cases this
      · intro _ _ _
        exact .inr (.inl ⟨.connStart, by simp, rfl⟩)
  | apiClose =>
    simp only [step] at hst
    split at hst
    · rename_i ho
      cases hst
      have ho' : s.core.isOpen = false := by simpa [Core.emit] using ho
      refine ⟨cancel_api h2.cancel (by simp) (by simp), ?_, ?_⟩
      · intro ho2; have : s.core.isOpen = true := ho2; rw [ho'] at this; cases this
      · intro ho2; have : s.core.isOpen = true := ho2; rw [ho'] at this; cases this
    · split at hst
      · cases hst
        refine ⟨fun _ => ⟨_, mem_spawnApi_self, rfl⟩, ?_, ?_⟩
        · intro ho2; cases ho2
        · intro ho2; cases ho2
      · rename_i hbg
        cases hst
        have hfr := exec_frame FUEL { s.core.emit (.apiClose s.core.now) with isOpen := false } [] (.disconnect .closeTail)
        refine ⟨?_, ?_, ?_⟩
        · rintro ⟨k, hk, hkp⟩
          exfalso
          rcases mem_spawnApi hk with hk | rfl | ⟨_, hk⟩
          · simp only [List.mem_map] at hk
            obtain ⟨k1, hk1, rfl⟩ := hk
            obtain ⟨i, hi⟩ := List.getElem?_of_mem hk1
            cases hb : k1.bg with
            | false =>
              rw [(cancelTask_spec k1).2.2.1 hb] at hkp
              have := hinv.api i k1 hi hb
              rw [hkp] at this; cases this
            | true =>
              have hfin : k1.pc = .finished := by
                have : ¬ (s.tasks.any (fun k => k.bg && k.pc ≠ .finished) = true) := hbg
                simp only [List.any_eq_true, not_exists, not_and] at this
                have := this k1 hk1
                simpa [hb] using this
              simp [cancelTask, hb, hfin] at hkp
          · exact suspPc_not_cancelled (exec_pc _ _ _ _) hkp
          · rcases exec_spawned _ _ _ _ _ hk with h | h
            · cases h
            · exact spawnPc_not_cancelled h hkp
        · intro ho2
          have : (exec FUEL { s.core.emit (.apiClose s.core.now) with isOpen := false } [] (.disconnect .closeTail)).core.isOpen = true := ho2
          rw [hfr.isOpen] at this; cases this
        · intro ho2
          have : (exec FUEL { s.core.emit (.apiClose s.core.now) with isOpen := false } [] (.disconnect .closeTail)).core.isOpen = true := ho2
          rw [hfr.isOpen] at this; cases this
  | apiReset =>
    simp only [step] at hst
    cases hst
    exact hinv2_api_exec hc h2 (shrink_emit _ _) rfl rfl rfl (.inl rfl)
  | apiSend sid retries life encOk =>
    simp only [step] at hst
    split at hst
    · cases hst
      exact hinv2_api_plain h2 (shrink_emit _ _) rfl (closing_emit rfl)
    · split at hst
      · cases hst
        refine hinv2_api_plain h2 ⟨rfl, rfl, rfl, rfl, rfl, rfl, fun _ x => x⟩ rfl ?_
        show closing ((s.core.trace ++ purgeEvents s.core.now s.core.queue) ++ [.reject sid s.core.now .overflow]) = _
        rw [closing_concat]; exact closing_purge s
      · cases hst
        exact hinv2_api_exec hc h2 ⟨rfl, rfl, rfl, rfl, rfl, rfl, fun _ x => x⟩ rfl rfl rfl (.inr ⟨_, rfl⟩)
  | run t a => exact hinv2_run hinv hc h1 h2 heof hst

theorem hinv2_init : HInv2 init := by
  refine ⟨?_, ?_, ?_⟩
  · rintro ⟨k, hk, _⟩; simp [init] at hk
  · intro h; cases h
  · intro h; cases h

theorem hinv2_reachableH {s : Sys} (h : ReachableH s) : HInv2 s :=
  ReachableH.induction (P := HInv2) hinv2_init
    (fun _ _ _ hr hp hf hst =>
      hinv2_step (inv_reachable hr.reachable) (cinv_reachableD hr.reachableD) (hinv1_reachable hr.reachable) hp hf hst)
    s h

/-- **a reconnect is pending**: while the socket is open, not connected and no `close()` is in
    progress, some task is a connection attempt (`connStart`, `connDelay d` with `d ≤ now + RETRY_DELAY`,
    `connOpening`) or is inside a `_connect` / `reset_connection` that will schedule one -/
theorem reconnect_pending {s : Sys} (h : ReachableH s) (ho : s.core.isOpen = true)
    (hcl : closing s.core.trace = false) (hd : s.core.isConnected = false) :
    ∃ k ∈ s.tasks, reconnPc k.pc = true ∧ ∀ d, k.pc = .connDelay d → d ≤ s.core.now + RETRY_DELAY := by
  obtain ⟨k, hk, hp⟩ := (hinv2_reachableH h).reconn ho hcl hd
  refine ⟨k, hk, hp, ?_⟩
  intro d hkd
  have := (hinv1_reachable h.reachable).delay k hk
  rw [hkd] at this
  exact this

/-- **the current transport is watched**: while the socket is open and has a current transport `w`,
    either a task is waiting for `w` to finish closing (and will then clear it), or `w` was not closed by
    the client and some task is, or will become or start, a reader of `w` -/
theorem current_watched {s : Sys} (h : ReachableH s) (ho : s.core.isOpen = true) (w : Nat)
    (hw : s.core.rw = some w) :
    (∃ k ∈ s.tasks, ∃ r, k.pc = .discWait w r) ∨
    (clientClosed s.core w = false ∧ ∃ k ∈ s.tasks, chainPc w k.pc = true) :=
  (hinv2_reachableH h).watch ho w hw

end PyAirtouch.Lemmas.SockHeal
