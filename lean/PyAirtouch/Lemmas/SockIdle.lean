import PyAirtouch.Lemmas.SockOrder
/-!
# Nothing stays queued on an idle connection

While the socket is connected **and its current transport is still open** (`curLive`), the queue can
only be non-empty if some task is still going to run the drain loop or to tear the connection down: a task suspended in `drain()`, the connect task
between `opened` and its first drain, a `close()` waiting for the background tasks, or a task
waiting for the *current* transport to finish closing.  (`IInv`, `idle_invariant`.)

Once the current transport is closing or lost the drain loop leaves the queue alone (`_drain_message_queue`
returns at `writer.is_closing()`), so entries then legitimately stay queued until the reset that follows.
-/
namespace PyAirtouch.Lemmas.SockIdle
open PyAirtouch.Model.Sock PyAirtouch.Spec.Trace PyAirtouch.Lemmas.Sock
open PyAirtouch.Lemmas.SockOrder (mem_modify pcAt_mem)

/-- tasks that will still drain the queue or disconnect -/
def promising (rw : Option Nat) : Pc → Bool
  | .drainAwait _ _ _ => true
  | .notifyWait .connAfterNotify => true
  | .closeGather => true
  | .discWait w _ => rw == some w
  | _ => false

/-- continuations that do not lead back into `_connect` after the notification -/
def plainRet : Ret → Bool
  | .connAfterNotify => false
  | .resetTail r => plainRet r
  | _ => true

def okPc : Pc → Bool
  | .drainAwait _ _ r => plainRet r
  | .discWait _ r => plainRet r
  | .notifyWait r => r == .connAfterNotify || plainRet r
  | _ => true

def startPc : Pc → Bool
  | .connStart | .readStart | .connDelay _ => true
  | _ => false

def quietPc : Pc → Bool
  | .finished | .readWait _ => true
  | _ => false

theorem okPc_of_quiet {p : Pc} (h : quietPc p = true) : okPc p = true := by
  cases p <;> simp_all [quietPc, okPc]

theorem okPc_of_start {p : Pc} (h : startPc p = true) : okPc p = true := by
  cases p <;> simp_all [startPc, okPc]

def Pre (c : Core) : Prop := c.isConnected = true → c.rw.isSome = true

/-- there is a current transport and it is open (neither closing nor lost) -/
def curLive (c : Core) : Bool :=
  match c.rw with
  | some w => (c.conns[w]?.map ConnSt.isLive).getD false
  | none => false

/-- changing the state of one transport does not make the current one live again -/
theorem curLive_set {c : Core} {cid : Nat} {x : ConnSt}
    (h : x.isLive = true → ∃ y, c.conns[cid]? = some y ∧ y.isLive = true) :
    curLive { c with conns := c.conns.set cid x } = true → curLive c = true := by
  unfold curLive
  cases hrw : c.rw with
  | none => simp
  | some w =>
    simp only [List.getElem?_set]
    intro hl
    by_cases hw : cid = w
    · subst hw
      by_cases hlt : cid < c.conns.length
      · simp only [hlt, ↓reduceIte, Option.map_some, Option.getD_some] at hl
        obtain ⟨y, hy, hyl⟩ := h hl
        simp [hy, hyl]
      · simp [hlt] at hl
    · simpa [hw] using hl

/-- connection state unchanged, queue not refilled, current transport not revived -/
structure Same (c c' : Core) : Prop where
  conn : c'.isConnected = c.isConnected
  rw : c'.rw = c.rw
  q : c'.queue ≠ [] → c.queue ≠ []
  live : curLive c' = true → curLive c = true

theorem Same.refl (c : Core) : Same c c := ⟨rfl, rfl, id, id⟩

theorem Same.trans {a b c : Core} (h1 : Same a b) (h2 : Same b c) : Same a c :=
  ⟨h2.conn.trans h1.conn, h2.rw.trans h1.rw, fun h => h1.q (h2.q h), fun h => h1.live (h2.live h)⟩

theorem Same.pre {c c' : Core} (h : Same c c') (hp : Pre c) : Pre c' := by
  intro hc; rw [h.rw]; exact hp (h.conn ▸ hc)

/-- after the block: disconnected, or queue empty, or the current transport is no longer open, or the task
    itself will deal with the queue -/
def Post (o : Out) : Prop :=
  o.core.isConnected = true → o.core.queue ≠ [] → curLive o.core = true → promising o.core.rw o.pc = true

structure OutOk (o : Out) : Prop where
  pre : Pre o.core
  pc : okPc o.pc = true
  sp : ∀ p ∈ o.spawned, startPc p = true

/-! ### the code between two suspension points -/

theorem ret_plain (fuel : Nat) : ∀ (c : Core) (sp : List Pc) (r : Ret), plainRet r = true →
    (∀ p ∈ sp, startPc p = true) →
    Same c (exec fuel c sp (.ret r)).core ∧ quietPc (exec fuel c sp (.ret r)).pc = true ∧
    ∀ p ∈ (exec fuel c sp (.ret r)).spawned, startPc p = true := by
  induction fuel with
  | zero => intro c sp r _ h; exact ⟨Same.refl _, rfl, h⟩
  | succ n ih =>
    intro c sp r hr h
    cases r with
    | done => exact ⟨Same.refl _, rfl, h⟩
    | closeTail => exact ⟨⟨rfl, rfl, id, id⟩, rfl, h⟩
    | connAfterNotify => simp [plainRet] at hr
    | connAfterDrain =>
      refine ⟨Same.refl _, rfl, ?_⟩
      simp only [exec]
      intro p hp
      simp only [List.mem_append, List.mem_singleton] at hp
      rcases hp with (hp | hp) | hp
      · exact h p hp
      · subst hp; rfl
      · split at hp
        · simp only [List.mem_singleton] at hp; subst hp; rfl
        · simp at hp
    | resetTail r =>
      simp only [exec]
      apply ih _ _ _ (by simpa [plainRet] using hr)
      split
      · intro p hp
        simp only [List.mem_append, List.mem_singleton] at hp
        rcases hp with hp | hp
        · exact h p hp
        · subst hp; rfl
      · exact h
    | readLoop =>
      simp only [exec]
      split
      · exact ⟨Same.refl _, rfl, h⟩
      · exact ⟨Same.refl _, rfl, h⟩

theorem discTail_idle (fuel : Nat) (c : Core) (sp : List Pc) (w : Option Nat) (r : Ret)
    (hr : plainRet r = true) (hsp : ∀ p ∈ sp, startPc p = true) :
    ((Same c (exec fuel c sp (.discTail w r)).core ∧ quietPc (exec fuel c sp (.discTail w r)).pc = true) ∨
     ((exec fuel c sp (.discTail w r)).core.isConnected = false ∧
      (exec fuel c sp (.discTail w r)).pc = .notifyWait r)) ∧
    (∀ p ∈ (exec fuel c sp (.discTail w r)).spawned, startPc p = true) ∧
    (1 ≤ fuel → c.rw = w → (exec fuel c sp (.discTail w r)).core.isConnected = false ∧
      (exec fuel c sp (.discTail w r)).pc = .notifyWait r) := by
  cases fuel with
  | zero => exact ⟨.inl ⟨Same.refl _, rfl⟩, hsp, fun h => by omega⟩
  | succ n =>
    simp only [exec]
    split
    · exact ⟨.inr ⟨rfl, rfl⟩, hsp, fun _ _ => ⟨rfl, rfl⟩⟩
    · rename_i hne
      obtain ⟨h1, h2, h3⟩ := ret_plain n c sp r hr hsp
      exact ⟨.inl ⟨h1, h2⟩, h3, fun _ h => absurd h hne⟩

theorem okPc_notifyWait {r : Ret} (hr : plainRet r = true) : okPc (.notifyWait r) = true := by
  simp [okPc, hr]

theorem disconnected_ok (o : Out) (r : Ret) (hr : plainRet r = true) (e1 : o.core.isConnected = false)
    (e2 : o.pc = .notifyWait r) (d2 : ∀ p ∈ o.spawned, startPc p = true) : OutOk o ∧ Post o := by
  refine ⟨⟨?_, ?_, d2⟩, ?_⟩
  · intro h; rw [e1] at h; cases h
  · rw [e2]; exact okPc_notifyWait hr
  · intro h; rw [e1] at h; cases h

theorem closeConn_same (c : Core) (w : Nat) : Same c (closeConn c w) := by
  unfold closeConn
  split
  · refine ⟨rfl, rfl, id, ?_⟩
    exact curLive_set (c := c) (cid := w) (x := .dying false) (fun h => by cases h)
  · exact Same.refl _

theorem disconnect_idle (fuel : Nat) (h2 : 2 ≤ fuel) (c : Core) (sp : List Pc) (r : Ret) (hr : plainRet r = true)
    (hsp : ∀ p ∈ sp, startPc p = true) (hpre : Pre c) :
    OutOk (exec fuel c sp (.disconnect r)) ∧ Post (exec fuel c sp (.disconnect r)) := by
  obtain ⟨n, rfl⟩ : ∃ n, fuel = n + 1 := ⟨fuel - 1, by omega⟩
  have hn : 1 ≤ n := by omega
  simp only [exec]
  split
  · rename_i w hw
    have hs := closeConn_same c w
    refine ⟨⟨hs.pre hpre, by simpa [okPc] using hr, hsp⟩, ?_⟩
    intro _ _ _
    simp [promising, hs.rw, hw]
  · rename_i hw
    obtain ⟨_, d2, d3⟩ := discTail_idle n c sp none r hr hsp
    obtain ⟨e1, e2⟩ := d3 hn hw
    exact disconnected_ok _ r hr e1 e2 d2

/-- the drain loop stops without a suspension only when the queue is empty or the transport it writes to is
    no longer open -/
theorem drainLoop_fields (w : Nat) : ∀ (q : List Entry) (c : Core),
    (drainLoop c w q).1.isConnected = c.isConnected ∧ (drainLoop c w q).1.rw = c.rw ∧
    ((drainLoop c w q).2 = .empty → (drainLoop c w q).1.queue = [] ∨
      ((drainLoop c w q).1.conns[w]?.map ConnSt.isLive).getD false = false) := by
  intro q
  induction q with
  | nil => intro c; simp [drainLoop]
  | cons e rest ih =>
    intro c
    unfold drainLoop
    split
    · rename_i hnl
      exact ⟨rfl, rfl, fun _ => .inr (by simpa using hnl)⟩
    split
    · exact ih _
    · split
      · exact ih _
      · have hd : (doWrite c w e).1.isConnected = c.isConnected ∧ (doWrite c w e).1.rw = c.rw := by
          unfold doWrite; split <;> simp [Core.emit]
        split
        · rename_i c' heq
          rw [heq] at hd
          obtain ⟨i1, i2, i3⟩ := ih c'
          exact ⟨i1.trans hd.1, i2.trans hd.2, i3⟩
        · rename_i c' heq
          rw [heq] at hd
          exact ⟨hd.1, hd.2, by simp⟩
        · rename_i c' heq
          rw [heq] at hd
          exact ⟨hd.1, hd.2, by simp⟩

theorem requeue_fields (c : Core) (e : Entry) :
    (requeue c e).isConnected = c.isConnected ∧ (requeue c e).rw = c.rw := by
  unfold requeue; split <;> simp [Core.emit]

theorem drain_idle (fuel : Nat) (h3 : 3 ≤ fuel) (c : Core) (sp : List Pc) (r : Ret) (hr : plainRet r = true)
    (hsp : ∀ p ∈ sp, startPc p = true) (hpre : Pre c) :
    OutOk (exec fuel c sp (.drain r)) ∧ Post (exec fuel c sp (.drain r)) := by
  obtain ⟨n, rfl⟩ : ∃ n, fuel = n + 1 := ⟨fuel - 1, by omega⟩
  have hn : 2 ≤ n := by omega
  simp only [exec]
  have hret : ∀ c' : Core, Pre c' → (c'.isConnected = true → c'.queue = [] ∨ curLive c' = false) →
      OutOk (exec n c' sp (.ret r)) ∧ Post (exec n c' sp (.ret r)) := by
    intro c' hp hq
    obtain ⟨r1, r2, r3⟩ := ret_plain n c' sp r hr hsp
    refine ⟨⟨r1.pre hp, okPc_of_quiet r2, r3⟩, ?_⟩
    intro hc hne hl
    rcases hq (r1.conn ▸ hc) with hq | hq
    · exact absurd hq (r1.q hne)
    · rw [r1.live hl] at hq; cases hq
  split
  · rename_i hnc
    exact hret c hpre (fun h => by simp [h] at hnc)
  · split
    · rename_i hnone
      refine hret c hpre (fun h => ?_)
      have := hpre h
      rw [hnone] at this; cases this
    · rename_i w hw
      split
      · rename_i c' heq
        obtain ⟨f1, f2, f3⟩ := drainLoop_fields w c.queue c
        rw [heq] at f1 f2 f3
        refine hret c' ?_ (fun _ => ?_)
        · intro hc; rw [f2]; exact hpre (f1 ▸ hc)
        · rcases f3 rfl with f3 | f3
          · exact .inl f3
          · right; unfold curLive; rw [f2, hw]; exact f3
      · rename_i c' e heq
        obtain ⟨f1, f2, _⟩ := drainLoop_fields w c.queue c
        rw [heq] at f1 f2
        refine ⟨⟨?_, by simpa [okPc] using hr, hsp⟩, fun _ _ _ => rfl⟩
        intro hc; rw [f2]; exact hpre (f1 ▸ hc)
      · rename_i c' e heq
        obtain ⟨f1, f2, _⟩ := drainLoop_fields w c.queue c
        rw [heq] at f1 f2
        obtain ⟨g1, g2⟩ := requeue_fields c' e
        refine disconnect_idle n hn _ sp (.resetTail r) (by simpa [plainRet] using hr) hsp ?_
        intro hc; rw [g2, f2]; exact hpre (f1 ▸ g1 ▸ hc)

theorem connAfterNotify_idle (fuel : Nat) (h4 : 4 ≤ fuel) (c : Core) (sp : List Pc)
    (hsp : ∀ p ∈ sp, startPc p = true) (hpre : Pre c) :
    OutOk (exec fuel c sp (.ret .connAfterNotify)) ∧ Post (exec fuel c sp (.ret .connAfterNotify)) := by
  obtain ⟨n, rfl⟩ : ∃ n, fuel = n + 1 := ⟨fuel - 1, by omega⟩
  simp only [exec]
  exact drain_idle n (by omega) c sp .connAfterDrain rfl hsp hpre


/-! ### the task table -/

structure IInv (s : Sys) : Prop where
  pre : Pre s.core
  pcs : ∀ k ∈ s.tasks, okPc k.pc = true
  busy : s.core.isConnected = true → s.core.queue ≠ [] → curLive s.core = true →
    ∃ k ∈ s.tasks, promising s.core.rw k.pc = true

theorem mem_modify_self {α : Type} (f : α → α) : ∀ (l : List α) (t : Nat) (y : α), l[t]? = some y →
    f y ∈ l.modify t f := by
  intro l
  induction l with
  | nil => intro t y h; simp at h
  | cons a l ih =>
    intro t y h
    cases t with
    | zero => simp only [List.getElem?_cons_zero, Option.some.injEq] at h; subst h; simp
    | succ t =>
      simp only [List.getElem?_cons_succ] at h
      simp only [List.modify_succ_cons, List.mem_cons]
      exact .inr (ih t y h)

theorem mem_modify_other {α : Type} (f : α → α) : ∀ (l : List α) (t : Nat) (x y : α), x ∈ l → l[t]? = some y →
    x ∈ l.modify t f ∨ x = y := by
  intro l
  induction l with
  | nil => intro t x y h; simp at h
  | cons a l ih =>
    intro t x y hx h
    cases t with
    | zero =>
      simp only [List.getElem?_cons_zero, Option.some.injEq] at h; subst h
      simp only [List.mem_cons] at hx
      rcases hx with hx | hx
      · exact .inr hx
      · exact .inl (by simp [hx])
    | succ t =>
      simp only [List.getElem?_cons_succ] at h
      simp only [List.mem_cons] at hx
      simp only [List.modify_succ_cons, List.mem_cons]
      rcases hx with hx | hx
      · exact .inl (.inl hx)
      · rcases ih t x y hx h with h' | h'
        · exact .inl (.inr h')
        · exact .inr h'

theorem pcAt_get {s : Sys} {t : Nat} {p : Pc} (h : pcAt s t = some p) : ∃ k, s.tasks[t]? = some k ∧ k.pc = p := by
  unfold pcAt at h
  cases hk : s.tasks[t]? with
  | none => simp [hk] at h
  | some k =>
    simp only [hk, Option.map_some, Option.some.injEq] at h
    exact ⟨k, rfl, h⟩

theorem spawn_ok (sp : List Pc) (hsp : ∀ p ∈ sp, startPc p = true) :
    ∀ k ∈ sp.map (fun p => (⟨p, true⟩ : Task)), okPc k.pc = true := by
  intro k hk
  simp only [List.mem_map] at hk
  obtain ⟨p, hp, rfl⟩ := hk
  exact okPc_of_start (hsp p hp)

theorem upd_pcs (s : Sys) (t : Nat) (out : Out) (h : ∀ k ∈ s.tasks, okPc k.pc = true)
    (hpc : okPc out.pc = true) (hsp : ∀ p ∈ out.spawned, startPc p = true) :
    ∀ k ∈ (upd s t out).tasks, okPc k.pc = true := by
  intro k hk
  simp only [upd, List.mem_append] at hk
  rcases hk with hk | hk
  · rcases mem_modify _ _ _ _ hk with hk | ⟨y, _, rfl⟩
    · exact h k hk
    · exact hpc
  · exact spawn_ok _ hsp k hk

/-- the block ends with the task itself responsible for whatever is queued -/
theorem IInv.upd_post {s : Sys} (h : IInv s) {t : Nat} {p : Pc} (hp : pcAt s t = some p) (out : Out)
    (ho : OutOk out) (hpost : Post out) : IInv (upd s t out) := by
  refine ⟨ho.pre, upd_pcs s t out h.pcs ho.pc ho.sp, ?_⟩
  intro hc hq hl
  obtain ⟨k, hk, _⟩ := pcAt_get hp
  refine ⟨{ k with pc := out.pc }, ?_, hpost hc hq hl⟩
  simp only [upd, List.mem_append]
  exact .inl (mem_modify_self _ _ _ _ hk)

/-- the block leaves the connection state alone and the task was not the one responsible -/
theorem IInv.upd_same {s : Sys} (h : IInv s) {t : Nat} {p : Pc} (hp : pcAt s t = some p)
    (hnp : promising s.core.rw p = false) (out : Out) (hs : Same s.core out.core)
    (hpc : okPc out.pc = true) (hsp : ∀ p ∈ out.spawned, startPc p = true) : IInv (upd s t out) := by
  refine ⟨hs.pre h.pre, upd_pcs s t out h.pcs hpc hsp, ?_⟩
  intro hc hq hl
  obtain ⟨k, hk, hkp⟩ := pcAt_get hp
  obtain ⟨k', hk', hpr⟩ := h.busy (hs.conn ▸ hc) (hs.q hq) (hs.live hl)
  simp only [upd]
  rcases mem_modify_other (fun k => { k with pc := out.pc }) _ _ _ _ hk' hk with hm | rfl
  · refine ⟨k', List.mem_append_left _ hm, ?_⟩
    show promising out.core.rw k'.pc = true
    rw [hs.rw]; exact hpr
  · rw [hkp, hnp] at hpr; cases hpr

theorem api_pcs (ts : List Task) (c : Core) (out : Out) (h : ∀ k ∈ ts, okPc k.pc = true)
    (hpc : okPc out.pc = true) (hsp : ∀ p ∈ out.spawned, startPc p = true) :
    ∀ k ∈ (spawnApi ⟨c, ts⟩ out).tasks, okPc k.pc = true := by
  intro k hk
  simp only [spawnApi, List.mem_append, List.mem_singleton] at hk
  rcases hk with (hk | rfl) | hk
  · exact h k hk
  · exact hpc
  · exact spawn_ok _ hsp k hk

theorem IInv.api_post (ts : List Task) (c : Core) (h : ∀ k ∈ ts, okPc k.pc = true) (out : Out)
    (ho : OutOk out) (hpost : Post out) : IInv (spawnApi ⟨c, ts⟩ out) := by
  refine ⟨ho.pre, api_pcs ts c out h ho.pc ho.sp, ?_⟩
  intro hc hq hl
  refine ⟨⟨out.pc, false⟩, ?_, hpost hc hq hl⟩
  simp [spawnApi]

theorem IInv.api_same {s : Sys} (h : IInv s) (out : Out) (hs : Same s.core out.core)
    (hpc : okPc out.pc = true) (hsp : ∀ p ∈ out.spawned, startPc p = true) : IInv (spawnApi s out) := by
  refine ⟨hs.pre h.pre, api_pcs s.tasks s.core out h.pcs hpc hsp, ?_⟩
  intro hc hq hl
  obtain ⟨k', hk', hpr⟩ := h.busy (hs.conn ▸ hc) (hs.q hq) (hs.live hl)
  refine ⟨k', ?_, ?_⟩
  · simp [spawnApi, hk']
  · show promising out.core.rw k'.pc = true
    rw [hs.rw]; exact hpr

theorem cancel_pcs (ts : List Task) (h : ∀ k ∈ ts, okPc k.pc = true) :
    ∀ k ∈ ts.map cancelTask, okPc k.pc = true := by
  intro k hk
  simp only [List.mem_map] at hk
  obtain ⟨k0, hk0, rfl⟩ := hk
  have := h k0 hk0
  unfold cancelTask
  split
  · split <;> first | rfl | exact this
  · exact this

theorem plain_not_promising {r : Ret} (hr : plainRet r = true) (rw : Option Nat) :
    promising rw (.notifyWait r) = false := by
  cases r <;> simp_all [plainRet, promising]

theorem fuel_ge : 4 ≤ FUEL := by decide

theorem step_run_iinv (s s' : Sys) (t : Nat) (a : Answer) (hI : IInv s)
    (h : step s (.run t a) = some s') : IInv s' := by
  have hok : ∀ p, pcAt s t = some p → okPc p = true := by
    intro p hp
    obtain ⟨k, hk, hkp⟩ := pcAt_mem hp
    exact hkp ▸ hI.pcs k hk
  have hcb : Same s.core (connectBlock s.core).core ∧ okPc (connectBlock s.core).pc = true ∧
      ∀ p ∈ (connectBlock s.core).spawned, startPc p = true := by
    unfold connectBlock
    split
    · exact ⟨Same.refl _, rfl, by simp⟩
    · exact ⟨⟨rfl, rfl, id, id⟩, rfl, by simp⟩
  have hdisc : ∀ (c : Core) (r : Ret), plainRet r = true → Pre c →
      OutOk (exec FUEL c [] (.disconnect r)) ∧ Post (exec FUEL c [] (.disconnect r)) :=
    fun c r hr hp => disconnect_idle FUEL (by decide) c [] r hr (by simp) hp
  simp only [step] at h
  split at h
  · rename_i due hp
    split at h
    · injection h with h; subst h
      exact hI.upd_same hp rfl _ hcb.1 hcb.2.1 hcb.2.2
    · simp at h
  · rename_i hp
    injection h with h; subst h
    exact hI.upd_same hp rfl _ hcb.1 hcb.2.1 hcb.2.2
  · rename_i hp
    injection h with h; subst h
    refine hI.upd_post hp _ ⟨?_, rfl, by simp⟩ (fun _ _ _ => rfl)
    intro _; simp [Core.emit]
  · rename_i hp
    injection h with h; subst h
    refine hI.upd_same hp rfl _ ⟨rfl, rfl, id, id⟩ rfl ?_
    intro p hp'
    split at hp'
    · simp only [List.mem_singleton] at hp'; subst hp'; rfl
    · simp at hp'
  · rename_i hp
    injection h with h; subst h
    exact hI.upd_same hp rfl _ ⟨rfl, rfl, id, id⟩ rfl (by simp)
  · rename_i w e r hp
    injection h with h; subst h
    have hr : plainRet r = true := by simpa [okPc] using hok _ hp
    obtain ⟨h1, h2⟩ := drain_idle FUEL (by decide) s.core [] r hr (by simp) hI.pre
    exact hI.upd_post hp _ h1 h2
  · rename_i w e r hp
    split at h
    · simp at h
    · injection h with h; subst h
      have hr : plainRet r = true := by simpa [okPc] using hok _ hp
      obtain ⟨g1, g2⟩ := requeue_fields s.core e
      obtain ⟨h1, h2⟩ := hdisc (requeue s.core e) (.resetTail r) (by simpa [plainRet] using hr)
        (by intro hc; rw [g2]; exact hI.pre (g1 ▸ hc))
      exact hI.upd_post hp _ h1 h2
  · rename_i w r hp
    split at h
    · injection h with h; subst h
      have hr : plainRet r = true := by simpa [okPc] using hok _ hp
      obtain ⟨d1, d2, d3⟩ := discTail_idle FUEL s.core [] (some w) r hr (by simp)
      by_cases hw : s.core.rw = some w
      · obtain ⟨e1, e2⟩ := d3 (by decide) hw
        obtain ⟨h1, h2⟩ := disconnected_ok _ r hr e1 e2 d2
        exact hI.upd_post hp _ h1 h2
      · rcases d1 with ⟨e1, e2⟩ | ⟨e1, e2⟩
        · exact hI.upd_same hp (by simp [promising, hw]) _ e1 (okPc_of_quiet e2) d2
        · obtain ⟨h1, h2⟩ := disconnected_ok _ r hr e1 e2 d2
          exact hI.upd_post hp _ h1 h2
    · simp at h
  · rename_i r hp
    injection h with h; subst h
    have hr := hok _ hp
    simp only [okPc, Bool.or_eq_true, beq_iff_eq] at hr
    rcases hr with rfl | hr
    · obtain ⟨h1, h2⟩ := connAfterNotify_idle FUEL fuel_ge s.core [] (by simp) hI.pre
      exact hI.upd_post hp _ h1 h2
    · obtain ⟨r1, r2, r3⟩ := ret_plain FUEL s.core [] r hr (by simp)
      exact hI.upd_same hp (plain_not_promising hr _) _ r1 (okPc_of_quiet r2) r3
  · rename_i hp
    injection h with h; subst h
    obtain ⟨r1, r2, r3⟩ := ret_plain FUEL s.core [] .readLoop rfl (by simp)
    exact hI.upd_same hp rfl _ r1 (okPc_of_quiet r2) r3
  · rename_i c tag hp
    injection h with h; subst h
    exact hI.upd_same hp rfl _ ⟨rfl, rfl, id, id⟩ rfl (by simp)
  · rename_i hp
    injection h with h; subst h
    obtain ⟨h1, h2⟩ := hdisc s.core (.resetTail .readLoop) rfl hI.pre
    exact hI.upd_post hp _ h1 h2
  · rename_i hp
    split at h
    · split at h
      · injection h with h; subst h
        obtain ⟨h1, h2⟩ := hdisc s.core (.resetTail .done) rfl hI.pre
        exact hI.upd_post hp _ h1 h2
      · injection h with h; subst h
        exact hI.upd_same hp rfl _ (Same.refl _) rfl (by simp)
    · injection h with h; subst h
      exact hI.upd_same hp rfl _ (Same.refl _) rfl (by simp)
  · rename_i hp
    injection h with h; subst h
    obtain ⟨h1, h2⟩ := hdisc s.core (.resetTail .done) rfl hI.pre
    exact hI.upd_post hp _ h1 h2
  · rename_i hp
    split at h
    · simp at h
    · injection h with h; subst h
      obtain ⟨h1, h2⟩ := hdisc s.core .closeTail rfl hI.pre
      exact hI.upd_post hp _ h1 h2
  · simp at h


theorem IInv.env {s : Sys} (h : IInv s) (c' : Core) (hs : Same s.core c') : IInv { s with core := c' } := by
  refine ⟨hs.pre h.pre, h.pcs, ?_⟩
  intro hc hq hl
  obtain ⟨k', hk', hpr⟩ := h.busy (hs.conn ▸ hc) (hs.q hq) (hs.live hl)
  refine ⟨k', hk', ?_⟩
  show promising c'.rw k'.pc = true
  rw [hs.rw]; exact hpr

theorem step_iinv (s s' : Sys) (l : Label) (hI : IInv s) (h : step s l = some s') : IInv s' := by
  cases l with
  | advance t =>
    simp only [step] at h
    split at h
    · injection h with h; subst h
      exact hI.env _ ⟨rfl, rfl, id, id⟩
    · simp at h
  | envLost cid =>
    simp only [step] at h
    split at h
    · injection h with h; subst h
      refine hI.env _ ⟨rfl, rfl, id, ?_⟩
      exact curLive_set (c := s.core) (cid := cid) (x := .dying true) (fun h => by cases h)
    · simp at h
  | envLostRan cid =>
    simp only [step] at h
    split at h
    · rename_i e _
      injection h with h; subst h
      refine hI.env _ ⟨rfl, rfl, id, ?_⟩
      exact curLive_set (c := s.core) (cid := cid) (x := .dead e) (fun h => by cases h)
    · simp at h
  | envPause cid b =>
    simp only [step] at h
    split at h
    · rename_i heq
      injection h with h; subst h
      refine hI.env _ ⟨rfl, rfl, id, ?_⟩
      exact curLive_set (c := s.core) (cid := cid) (fun _ => ⟨_, heq, rfl⟩)
    · simp at h
  | envFailWrites cid b =>
    simp only [step] at h
    split at h
    · rename_i heq
      injection h with h; subst h
      refine hI.env _ ⟨rfl, rfl, id, ?_⟩
      exact curLive_set (c := s.core) (cid := cid) (fun _ => ⟨_, heq, rfl⟩)
    · simp at h
  | apiOpen =>
    simp only [step] at h
    split at h
    · injection h with h; subst h
      exact hI.api_same _ ⟨rfl, rfl, id, id⟩ rfl (by simp)
    · injection h with h; subst h
      refine hI.api_same _ ⟨rfl, rfl, fun h => absurd rfl h, id⟩ rfl ?_
      intro p hp; simp only [List.mem_singleton] at hp; subst hp; rfl
  | apiClose =>
    simp only [step] at h
    split at h
    · injection h with h; subst h
      exact hI.api_same _ ⟨rfl, rfl, id, id⟩ rfl (by simp)
    · have hpre : Pre { s.core.emit (.apiClose s.core.now) with isOpen := false } := hI.pre
      have hts := cancel_pcs _ hI.pcs
      split at h
      · injection h with h; subst h
        exact IInv.api_post _ _ hts _ ⟨hpre, rfl, by simp⟩ (fun _ _ _ => rfl)
      · injection h with h; subst h
        obtain ⟨h1, h2⟩ := disconnect_idle FUEL (by decide)
          { s.core.emit (.apiClose s.core.now) with isOpen := false } [] .closeTail rfl (by simp) hpre
        exact IInv.api_post _ _ hts _ h1 h2
  | apiReset =>
    simp only [step] at h
    injection h with h; subst h
    have hpre : Pre (s.core.emit (.apiReset s.core.now)) := hI.pre
    obtain ⟨h1, h2⟩ := disconnect_idle FUEL (by decide) (s.core.emit (.apiReset s.core.now)) []
      (.resetTail .done) rfl (by simp) hpre
    exact IInv.api_post s.tasks s.core hI.pcs _ h1 h2
  | apiSend sid r life ok =>
    simp only [step] at h
    split at h
    · injection h with h; subst h
      exact hI.api_same _ ⟨rfl, rfl, id, id⟩ rfl (by simp)
    · split at h
      · injection h with h; subst h
        refine hI.api_same _ ⟨rfl, rfl, ?_, id⟩ rfl (by simp)
        intro hq hnil
        apply hq
        simp [Core.emit, purged, hnil]
      · injection h with h; subst h
        have hpre : Pre ({ s.core with
            queue := purged s.core.now s.core.queue ++ [(⟨sid, r, s.core.now + life, ok, false⟩ : Entry)],
            trace := s.core.trace ++ purgeEvents s.core.now s.core.queue }.emit
              (.accept sid s.core.now (s.core.now + life) r ok)) := hI.pre
        obtain ⟨h1, h2⟩ := drain_idle FUEL (by decide) _ [] .done rfl (by simp) hpre
        exact IInv.api_post s.tasks s.core hI.pcs _ h1 h2
  | run t a => exact step_run_iinv s s' t a hI h

theorem IInv.init : IInv Model.Sock.init := by
  refine ⟨?_, ?_, ?_⟩ <;> simp [Model.Sock.init, Pre]

theorem idle_invariant {s : Sys} (h : Reachable s) : IInv s :=
  Reachable.induction (P := IInv) IInv.init (fun s l s' _ hp hst => step_iinv s s' l hp hst) s h


/-- `promising` spelled out -/
theorem not_promising_iff (rw : Option Nat) (p : Pc) :
    promising rw p = false ↔
      (∀ w e r, p ≠ .drainAwait w e r) ∧ p ≠ .notifyWait .connAfterNotify ∧ p ≠ .closeGather ∧
      (∀ w r, p = .discWait w r → rw ≠ some w) := by
  cases p with
  | notifyWait r => cases r <;> simp [promising]
  | discWait w r =>
    simp only [promising, beq_eq_false_iff_ne, ne_eq, reduceCtorEq, not_false_eq_true, implies_true,
      Pc.discWait.injEq, and_imp, true_and]
    constructor
    · intro h w' r' hw _; subst hw; exact h
    · intro h; exact h w r rfl rfl
  | _ => simp [promising]


theorem idle_hyps {rw : Option Nat} {ts : List Task} (h : ∀ k ∈ ts, promising rw k.pc = false) :
    (∀ k ∈ ts, ∀ w e r, k.pc ≠ .drainAwait w e r) ∧ (∀ k ∈ ts, k.pc ≠ .notifyWait .connAfterNotify) ∧
    (∀ k ∈ ts, k.pc ≠ .closeGather) ∧ (∀ k ∈ ts, ∀ w r, k.pc = .discWait w r → rw ≠ some w) :=
  ⟨fun k hk => ((not_promising_iff _ _).1 (h k hk)).1, fun k hk => ((not_promising_iff _ _).1 (h k hk)).2.1,
   fun k hk => ((not_promising_iff _ _).1 (h k hk)).2.2.1, fun k hk => ((not_promising_iff _ _).1 (h k hk)).2.2.2⟩

end PyAirtouch.Lemmas.SockIdle
