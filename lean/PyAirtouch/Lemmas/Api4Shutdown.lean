import PyAirtouch.Lemmas.Api4Poll
import PyAirtouch.Lemmas.Api4Demo
import PyAirtouch.Lemmas.Api4Handshake
import PyAirtouch.Lemmas.HeartbeatSim
/-!
# `shutdown()` of the AirTouch 4 API object: the state it leaves, silence afterwards, `init()` again

* `Closed s`: what `shutdown()` establishes from every state.
* what a `Closed` object does under every op other than `init` (exact outputs), `closed_run`.
* `FreshSim`: the relation between an object that was shut down and initialised again and a fresh object;
  it is a simulation for every op.
* findings: orphaned poll tasks and pending `init()` waiters survive `shutdown()`.
-/
set_option linter.unusedSimpArgs false
set_option linter.unusedVariables false
namespace PyAirtouch.Lemmas.Api4
open PyAirtouch.Model PyAirtouch.Model.Api4 PyAirtouch.Model.At4 PyAirtouch.Gen
open PyAirtouch.Model.TimerCommon (AcTimerState AcTimerStatusData)
open PyAirtouch.Model.Heartbeat (HB Label)
open PyAirtouch.Lemmas.Heartbeat (HbEquiv HbSim)

/-! ## 1. the state after `shutdown()` -/

/-- the API object is shut down: state `CLOSED`, the initialised event clear, the model empty, no current poll task,
    the heartbeat manager stopped (no pending beat, no pending deadline), the socket closed -/
structure Closed (s : State) : Prop where
  st : s.st = .CLOSED
  initialised : s.initialised = false
  acDict : s.acDict = []
  zoneDict : s.zoneDict = []
  acObjs : s.acObjs = []
  zoneObjs : s.zoneObjs = []
  pollCur : s.pollCur = none
  idle : hbIdle s.hb = true
  sockOpen : s.sockOpen = false

theorem hbIdle_iff (h : HB) : hbIdle h = true ↔ h.tl = .idle ∧ h.hl = .idle := by
  unfold Api4.hbIdle
  cases h.tl <;> cases h.hl <;> simp

theorem hbIdle_stop (h : HB) (up : Bool) : hbIdle (hbApply (hbApply h .stop) (.conn up)) = true := by
  obtain ⟨n, i, t, f, tl, hl, c, la, ra, ex, tr⟩ := h
  cases tl <;> cases hl <;> rfl

theorem connected_stop (h : HB) (up : Bool) : (hbApply (hbApply h .stop) (.conn up)).connected = up := by
  obtain ⟨n, i, t, f, tl, hl, c, la, ra, ex, tr⟩ := h
  cases tl <;> cases hl <;> rfl

/-- `shutdown()` from EVERY state: the object is `Closed`, the socket is neither open nor connected, the outputs are
    `HBSTOP`, `CLOSE`, `RESULT shutdown OK` (no `SEND`), and what persists -/
theorem shutdown_state (s : State) :
    Closed (apiStep s .shutdown).1 ∧
    (apiStep s .shutdown).1.sockConnected = false ∧ (apiStep s .shutdown).1.hb.connected = false ∧
    (apiStep s .shutdown).2 = [Ev.hbStop, Ev.closed, Ev.result "shutdown OK"] ∧
    ((apiStep s .shutdown).1.subs = s.subs ∧ (apiStep s .shutdown).1.version = s.version ∧
     (apiStep s .shutdown).1.subscribed = s.subscribed ∧ (apiStep s .shutdown).1.now = s.now ∧
     (apiStep s .shutdown).1.airtouchId = s.airtouchId ∧ (apiStep s .shutdown).1.serial = s.serial ∧
     (apiStep s .shutdown).1.name = s.name ∧ (apiStep s .shutdown).1.host = s.host ∧
     (apiStep s .shutdown).1.initWaits = s.initWaits ∧ (apiStep s .shutdown).1.pollOrphans = s.pollOrphans) := by
  refine ⟨⟨rfl, rfl, rfl, rfl, rfl, rfl, rfl, hbIdle_stop _ _, rfl⟩, rfl, connected_stop _ _, rfl,
    rfl, rfl, rfl, rfl, rfl, rfl, rfl, rfl, rfl, rfl⟩

/-! ## 2. a `Closed` object under every op other than `init` -/

theorem Closed.findAc {s : State} (hc : Closed s) (k : Nat) : s.findAc k = none := by
  simp [State.findAc, hc.acDict, List.lookup]

theorem Closed.airConditioners {s : State} (hc : Closed s) : s.airConditioners = [] := by
  simp [State.airConditioners, hc.acDict]

theorem Closed.findZone {s : State} (hc : Closed s) (k : Nat) : s.findZone k = none := by
  simp [State.findZone, hc.airConditioners]

/-- everything but the heartbeat manager, the clock, the tasks, the socket flags and the AirTouch-level subscribers:
    a `Closed` state stays `Closed` when only those change -/
theorem Closed.frame {s t : State} (hc : Closed s) (h1 : t.st = s.st) (h2 : t.initialised = s.initialised)
    (h3 : t.acDict = s.acDict) (h4 : t.zoneDict = s.zoneDict) (h5 : t.acObjs = s.acObjs) (h6 : t.zoneObjs = s.zoneObjs)
    (h7 : t.pollCur = s.pollCur) (h8 : hbIdle t.hb = true) (h9 : t.sockOpen = s.sockOpen) : Closed t :=
  ⟨h1.trans hc.st, h2.trans hc.initialised, h3.trans hc.acDict, h4.trans hc.zoneDict, h5.trans hc.acObjs,
   h6.trans hc.zoneObjs, h7.trans hc.pollCur, h8, h9.trans hc.sockOpen⟩

theorem updateErrInfo_closed {s : State} (hc : Closed s) (e : FF10.AcErrorInformationMessage) :
    updateErrInfo s e = (s, []) := by
  simp [updateErrInfo, hc.findAc]

/-- the message handler of a `Closed` object ignores every message -/
theorem onMessage_closed {s : State} (hc : Closed s) (m : RMsg) : onMessage s m = (s, [], none) := by
  have hst := hc.st
  cases m with
  | extended sub =>
    cases sub with
    | consoleVer v => cases v <;> simp [onMessage, hst]
    | groupNames n => cases n <;> simp [onMessage, hst]
    | acAbility a => cases a <;> simp [onMessage, hst]
    | errInfo e => cases e <;> simp [onMessage, updateErrInfo_closed hc]
    | quickTimer q => rfl
    | unsupported i r => rfl
  | groupCtrl c => rfl
  | groupStatus g => cases g <;> simp [onMessage, hst]
  | acCtrl c => rfl
  | acStatus a => cases a <;> simp [onMessage, hst]
  | acTimerCtrl c => simp [onMessage, processTimers, hst]
  | acTimerStatus t => cases t <;> simp [onMessage, processTimers, hst]
  | unsupported i r => rfl

theorem hbApply_idle_response (h : HB) (hi : hbIdle h = true) :
    hbApply (hbApply h .response) .tlWake = h := by
  obtain ⟨h1, h2⟩ := (hbIdle_iff h).mp hi
  simp [hbApply, Heartbeat.step, h1]

theorem hbOnMessage_idle (s : State) (hi : hbIdle s.hb = true) (m : RMsg) :
    hbOnMessage s m = s ∨ hbOnMessage s m = { s with hb := { s.hb with now := s.now } } := by
  unfold hbOnMessage
  split
  · right
    have hi' : hbIdle { s.hb with now := s.now } = true := hi
    rw [hbApply_idle_response _ hi']
  · left; rfl

/-- a message arrives at a `Closed` object: no output; nothing changes (the stopped heartbeat manager is not even
    subscribed; only its clock field is refreshed) -/
theorem recv_closed {s : State} (hc : Closed s) (m : RMsg) :
    (recv s m).2 = [] ∧ ((recv s m).1 = s ∨ (recv s m).1 = { s with hb := { s.hb with now := s.now } }) := by
  have h0 : (if s.subscribed = true then onMessage s m else (s, [], none)) = (s, [], none) := by
    split
    · exact onMessage_closed hc m
    · rfl
  have h1 : recv s m = (hbOnMessage s m, []) := by
    unfold recv
    rw [h0]
    rfl
  rw [h1]
  exact ⟨rfl, hbOnMessage_idle s hc.idle m⟩

theorem Closed.setHbNow {s : State} (hc : Closed s) (n : Nat) : Closed { s with hb := { s.hb with now := n } } :=
  hc.frame rfl rfl rfl rfl rfl rfl rfl hc.idle rfl

theorem recv_closed_state {s : State} (hc : Closed s) (m : RMsg) : Closed (recv s m).1 := by
  rcases (recv_closed hc m).2 with h | h <;> rw [h]
  · exact hc
  · exact hc.setHbNow _

/-! ### connection changes -/

theorem hbApply_conn (h : HB) (up : Bool) :
    (hbApply h (.conn up)).tl = h.tl ∧ (hbApply h (.conn up)).hl = h.hl ∧ (hbApply h (.conn up)).connected = up :=
  ⟨rfl, rfl, rfl⟩

/-- the socket reports a connection change to a `Closed` object: only the flags change; the connection handler
    raises `NotOpenError` out of its `send` when the connection came up (if the object ever subscribed) -/
theorem conn_closed {s : State} (hc : Closed s) (up : Bool) :
    (apiStep s (.conn up)).2 = (if up && s.subscribed then [Ev.subscriberExc "NotOpenError"] else []) ∧
    (apiStep s (.conn up)).1 =
      { s with sockConnected := up, hb := hbApply { s.hb with now := s.now } (.conn up) } := by
  have hst := hc.st
  have ho := hc.sockOpen
  cases up <;> cases hsub : s.subscribed <;> simp [apiStep, onConn, hsub, hst, ho, Exc.name]

theorem conn_closed_state {s : State} (hc : Closed s) (up : Bool) : Closed (apiStep s (.conn up)).1 := by
  rw [(conn_closed hc up).2]
  exact hc.frame rfl rfl rfl rfl rfl rfl rfl hc.idle rfl

/-! ### the clock -/

theorem fireHbTimeout_idle (s : State) (h : s.hb.tl = .idle) : fireHbTimeout s = (s, []) := by
  unfold fireHbTimeout; rw [h]

theorem fireBeat_idle (s : State) (h : s.hb.hl = .idle) : fireBeat s = (s, []) := by
  unfold fireBeat; rw [h]

/-- a poll task at its `asyncio.timeout`: while the socket is not connected it re-arms silently (whether the socket
    is open or not); connected but not open it dies silently (`NotOpenError` out of `send` ends the task);
    only connected and open it sends -/
theorem firePoll_cases (o : Bool) (t d : Nat) :
    firePoll false o t d = (some (if d ≤ t then t + Api4.GROUP_STATUS_TIMEOUT else d), []) ∧
    firePoll true false t d = (if d ≤ t then none else some d, []) ∧
    firePoll true true t d =
      if d ≤ t then (some (t + Api4.GROUP_STATUS_TIMEOUT), [Ev.send .connected groupStatusRequest]) else (some d, []) := by
  unfold firePoll
  refine ⟨?_, ?_, ?_⟩ <;> split <;> simp

/-- no poll task - current or orphaned - sends while the socket is not open -/
theorem firePoll_notOpen (c : Bool) (t d : Nat) : (firePoll c false t d).2 = [] := by
  cases c
  · rw [(firePoll_cases false t d).1]
  · rw [(firePoll_cases false t d).2.1]

theorem firePolls_notOpen (s : State) (ho : s.sockOpen = false) (hp : s.pollCur = none) :
    (firePolls s).2 = [] ∧ (firePolls s).1.pollCur = none := by
  unfold firePolls
  simp only [ho, hp, Option.map_none, List.flatMap_map, firePoll_notOpen, List.append_nil, Option.bind_none, and_true]
  induction s.pollOrphans with
  | nil => rfl
  | cons d ds ih => simp

theorem firePolls_frame (s : State) :
    (firePolls s).1 = { s with pollOrphans := (firePolls s).1.pollOrphans, pollCur := (firePolls s).1.pollCur } := rfl

/-- one tick of a `Closed` object: the only thing that can happen is that pending `init()` calls time out -/
theorem tick_closed {s : State} (hc : Closed s) :
    Closed (tick s).1 ∧
    (tick s).2 = (s.initWaits.filter (fun d => decide (d ≤ s.now + 1))).map (fun _ => initFalse) ∧
    (tick s).1.initWaits = s.initWaits.filter (fun d => !decide (d ≤ s.now + 1)) ∧
    (tick s).1.now = s.now + 1 ∧ (tick s).1.subs = s.subs ∧ (tick s).1.subscribed = s.subscribed ∧
    (tick s).1.sockConnected = s.sockConnected ∧ (tick s).1.version = s.version := by
  obtain ⟨h1, h2⟩ := (hbIdle_iff s.hb).mp hc.idle
  unfold tick
  simp only
  generalize hs0 : ({ s with now := s.now + 1, hb := { s.hb with now := s.now + 1 } } : State) = s0
  have t0 : s0.hb.tl = .idle := by rw [← hs0]; exact h1
  rw [fireHbTimeout_idle s0 t0]
  simp only
  have e0 : Closed s0 := by rw [← hs0]; exact hc.frame rfl rfl rfl rfl rfl rfl rfl hc.idle rfl
  have f0 : s0.initWaits = s.initWaits ∧ s0.now = s.now + 1 ∧ s0.subs = s.subs ∧ s0.subscribed = s.subscribed ∧
      s0.sockConnected = s.sockConnected ∧ s0.version = s.version ∧ s0.hb.hl = .idle := by
    rw [← hs0]; exact ⟨rfl, rfl, rfl, rfl, rfl, rfl, h2⟩
  obtain ⟨p1, p2⟩ := firePolls_notOpen s0 e0.sockOpen e0.pollCur
  have hb2 : (fireInitWaits (firePolls s0).1).1.hb.hl = .idle := f0.2.2.2.2.2.2
  rw [fireBeat_idle _ hb2, p1]
  simp only [List.nil_append, List.append_nil]
  refine ⟨?_, ?_, ?_, f0.2.1, f0.2.2.1, f0.2.2.2.1, f0.2.2.2.2.1, f0.2.2.2.2.2.1⟩
  · exact e0.frame rfl rfl rfl rfl rfl rfl (p2.trans e0.pollCur.symm) e0.idle rfl
  · show List.map _ (List.filter _ s0.initWaits) = _
    rw [f0.1]
    show List.map (fun _ => Ev.result ("init " ++ cBool s0.initialised)) (List.filter (fun d => decide (d ≤ s0.now)) _) = _
    rw [e0.initialised, f0.2.1]
    rfl
  · show List.filter _ s0.initWaits = _
    rw [f0.1]
    show List.filter (fun d => !decide (d ≤ s0.now)) _ = _
    rw [f0.2.1]

theorem filter_due_split (l : List Nat) (a b : Nat) (h : a ≤ b) :
    (l.filter (fun d => decide (d ≤ a))).length +
        ((l.filter (fun d => !decide (d ≤ a))).filter (fun d => decide (d ≤ b))).length =
      (l.filter (fun d => decide (d ≤ b))).length ∧
    (l.filter (fun d => !decide (d ≤ a))).filter (fun d => !decide (d ≤ b)) = l.filter (fun d => !decide (d ≤ b)) := by
  induction l with
  | nil => exact ⟨rfl, rfl⟩
  | cons d ds ih =>
    obtain ⟨ih1, ih2⟩ := ih
    by_cases h1 : d ≤ a
    · have h2 : d ≤ b := by omega
      simp only [List.filter_cons, h1, h2, decide_true, decide_false, Bool.not_true, Bool.not_false, ↓reduceIte,
        List.length_cons, Bool.false_eq_true]
      exact ⟨by omega, ih2⟩
    · by_cases h2 : d ≤ b
      · simp only [List.filter_cons, h1, h2, decide_true, decide_false, Bool.not_true, Bool.not_false, ↓reduceIte,
          List.length_cons, Bool.false_eq_true]
        exact ⟨by omega, ih2⟩
      · simp only [List.filter_cons, h1, h2, decide_true, decide_false, Bool.not_true, Bool.not_false, ↓reduceIte,
          List.length_cons, Bool.false_eq_true]
        exact ⟨ih1, by rw [ih2]⟩

/-- `adv n` on a `Closed` object: the only outputs are `RESULT init False`, one for every pending `init()` call whose
    5 s run out within the `n` ticks (nothing at all when none is pending); the object stays `Closed` -/
theorem advance_closed (n : Nat) {s : State} (hc : Closed s) :
    Closed (advance n s).1 ∧
    ((advance n s).1.now = s.now + n ∧ (advance n s).1.subs = s.subs ∧ (advance n s).1.subscribed = s.subscribed ∧
      (advance n s).1.sockConnected = s.sockConnected ∧ (advance n s).1.version = s.version) ∧
    (0 < n →
      (advance n s).2 = List.replicate (s.initWaits.filter (fun d => decide (d ≤ s.now + n))).length initFalse ∧
      (advance n s).1.initWaits = s.initWaits.filter (fun d => !decide (d ≤ s.now + n))) := by
  induction n generalizing s with
  | zero => exact ⟨hc, ⟨rfl, rfl, rfl, rfl, rfl⟩, fun h => absurd h (by omega)⟩
  | succ n ih =>
    obtain ⟨t1, t2, t3, t4, t5, t6, t7, t8⟩ := tick_closed hc
    obtain ⟨i1, ⟨i2, i3, i4, i5, i6⟩, i7⟩ := ih t1
    simp only [advance]
    refine ⟨i1, ⟨by rw [i2, t4]; omega, by rw [i3, t5], by rw [i4, t6], by rw [i5, t7], by rw [i6, t8]⟩, ?_⟩
    intro _
    cases n with
    | zero =>
      simp only [advance, List.append_nil, t2, t3, List.map_const']
      refine ⟨?_, ?_⟩ <;> first | rfl | trivial
    | succ m =>
      obtain ⟨j1, j2⟩ := i7 (by omega)
      obtain ⟨f1, f2⟩ := filter_due_split s.initWaits (s.now + 1) (s.now + (m + 1 + 1)) (by omega)
      have e : s.now + 1 + (m + 1) = s.now + (m + 1 + 1) := by omega
      rw [j1, j2, t2, t3, t4, e, List.map_const', List.replicate_append_replicate, f1, f2]
      exact ⟨rfl, rfl⟩

theorem advance_closed_noWaits (n : Nat) {s : State} (hc : Closed s) (hw : s.initWaits = []) :
    (advance n s).2 = [] ∧ (advance n s).1.initWaits = [] := by
  cases n with
  | zero => exact ⟨rfl, hw⟩
  | succ n =>
    obtain ⟨a, b⟩ := (advance_closed (n + 1) hc).2.2 (by omega)
    rw [a, b, hw]; exact ⟨rfl, rfl⟩

/-! ### public calls, subscriptions, the view -/

/-- every public call on a `Closed` object: `check_for_updates()` raises the not-open error out of `send`; the model is
    empty, so the harness finds no air-conditioner / zone to call (`KeyError`) -/
theorem call_closed {s : State} (hc : Closed s) (c : Call) :
    doCall s c = [Ev.result (if c = .atCheckForUpdates then "NotOpenError" else "KeyError")] := by
  have ho := hc.sockOpen
  cases c <;>
    simp [doCall, callResult, Call.acId?, Call.zoneId?, hc.findAc, hc.findZone, ho, Exc.name]

theorem subUnsub_closed {s : State} (hc : Closed s) (t : Target) (f : List Sub → List Sub) :
    subUnsub s t f =
      match t with
      | .airtouch => ({ s with subs := f s.subs }, [])
      | _ => (s, [Ev.result "KeyError"]) := by
  cases t <;> simp [subUnsub, hc.findAc, hc.findZone, Exc.name]

theorem subUnsub_closed_state {s : State} (hc : Closed s) (t : Target) (f : List Sub → List Sub) :
    Closed (subUnsub s t f).1 := by
  rw [subUnsub_closed hc]
  cases t
  · exact hc.frame rfl rfl rfl rfl rfl rfl rfl hc.idle rfl
  · exact hc
  · exact hc

/-- the text `view` shows for an empty model -/
def closedViewText (s : State) : String :=
  "AirTouch(" ++ ",".intercalate [
    "initialised=" ++ cBool false, "airtouch_id=" ++ cStr s.airtouchId, "serial=" ++ cStr s.serial,
    "name=" ++ cStr s.name, "host=" ++ cStr s.host, "model=" ++ ApiEnums.AirTouchModel.AIRTOUCH_4.name,
    "update_available=" ++ cBool s.version.update_available,
    "console_versions=" ++ cList cStr s.version.versions,
    "air_conditioners=[" ++ ",".intercalate [] ++ "]"] ++ ")"

theorem viewAt_closed {s : State} (hc : Closed s) : viewAt s = .ok (closedViewText s) := by
  unfold viewAt closedViewText
  rw [hc.airConditioners, hc.initialised]
  rfl

/-! ### every op other than `init` -/

/-- what a shut-down object may still output: no `SEND`, no `NOTIFY`, no `HBSTART`, no `RESET`, no `OPEN`, no
    `RESULT init True` -/
def quietClosed : Ev → Bool
  | .send _ _ | .notifyAt _ | .notifyAc _ _ _ | .notifyZone _ _ | .hbStart | .reset | .opened => false
  | .result t => t != "init True"
  | _ => true

/-- the two results an `init()` call can have -/
def isInitResult : Ev → Bool
  | .result t => t == "init True" || t == "init False"
  | _ => false

/-- every op except `init` -/
def _root_.PyAirtouch.Model.Api4.Op.afterShutdown : Op → Bool
  | .init => false
  | _ => true

/-- One op other than `init` on a `Closed` object.  (`callBad cls` is the harness echoing the class name of an
    exception it raised itself: `RESULT cls`, whatever `cls` is - the only way a "result of init" can be printed
    without an `init()` call.) -/
theorem closed_step {s : State} (hc : Closed s) (op : Op) (hop : op.afterShutdown = true) :
    Closed (apiStep s op).1 ∧
    (∀ e ∈ (apiStep s op).2, quietClosed e = true ∨ (e = Ev.result "init True" ∧ op = .callBad "init True")) ∧
    (s.initWaits = [] → (apiStep s op).1.initWaits = [] ∧
      ∀ e ∈ (apiStep s op).2, isInitResult e = true → ∃ cls, op = .callBad cls ∧ e = Ev.result cls) := by
  cases op with
  | init => cases hop
  | shutdown =>
    obtain ⟨h1, _, _, h4, _, _, _, _, _, _, _, _, h5, _⟩ := shutdown_state s
    refine ⟨h1, ?_, fun hw => ⟨h5.trans hw, ?_⟩⟩
    · intro e he; rw [h4] at he
      simp only [List.mem_cons, List.not_mem_nil, or_false] at he
      rcases he with rfl | rfl | rfl <;> exact Or.inl (by decide)
    · intro e he hi; rw [h4] at he
      simp only [List.mem_cons, List.not_mem_nil, or_false] at he
      rcases he with rfl | rfl | rfl <;> simp [isInitResult] at hi
  | conn up =>
    obtain ⟨h1, h2⟩ := conn_closed hc up
    refine ⟨conn_closed_state hc up, ?_, fun hw => ⟨by rw [h2]; exact hw, ?_⟩⟩
    · intro e he; rw [h1] at he
      split at he
      · simp only [List.mem_cons, List.not_mem_nil, or_false] at he; subst he; exact Or.inl rfl
      · cases he
    · intro e he hi; rw [h1] at he
      split at he
      · simp only [List.mem_cons, List.not_mem_nil, or_false] at he; subst he; cases hi
      · cases he
  | msg mid payload =>
    simp only [apiStep]
    split
    · next m _ =>
      obtain ⟨h1, h2⟩ := recv_closed hc m
      refine ⟨recv_closed_state hc m, (by rw [h1]; intro e he; cases he), fun hw => ⟨?_, (by rw [h1]; intro e he; cases he)⟩⟩
      rcases h2 with h | h <;> rw [h] <;> exact hw
    · next cls _ =>
      refine ⟨hc, ?_, fun hw => ⟨hw, ?_⟩⟩
      · intro e he; simp only [List.mem_cons, List.not_mem_nil, or_false] at he; subst he; exact Or.inl rfl
      · intro e he hi; simp only [List.mem_cons, List.not_mem_nil, or_false] at he; subst he; cases hi
  | recv m =>
    obtain ⟨h1, h2⟩ := recv_closed hc m
    refine ⟨recv_closed_state hc m, ?_, fun hw => ⟨?_, ?_⟩⟩
    · show ∀ e ∈ (recv s m).2, _
      rw [h1]; intro e he; cases he
    · show (recv s m).1.initWaits = []
      rcases h2 with h | h <;> rw [h] <;> exact hw
    · show ∀ e ∈ (recv s m).2, _
      rw [h1]; intro e he; cases he
  | call c =>
    refine ⟨hc, ?_, fun hw => ⟨hw, ?_⟩⟩
    · show ∀ e ∈ doCall s c, _
      rw [call_closed hc]
      intro e he; simp only [List.mem_cons, List.not_mem_nil, or_false] at he; subst he
      split <;> exact Or.inl (by decide)
    · show ∀ e ∈ doCall s c, _
      rw [call_closed hc]
      intro e he hi; simp only [List.mem_cons, List.not_mem_nil, or_false] at he; subst he
      split at hi <;> simp [isInitResult] at hi
  | callBad cls =>
    refine ⟨hc, ?_, fun hw => ⟨hw, ?_⟩⟩
    · intro e he
      simp only [apiStep, List.mem_cons, List.not_mem_nil, or_false] at he; subst he
      by_cases h : cls = "init True"
      · subst h; exact Or.inr ⟨rfl, rfl⟩
      · left; simp [quietClosed, h]
    · intro e he hi
      simp only [apiStep, List.mem_cons, List.not_mem_nil, or_false] at he; subst he
      exact ⟨cls, rfl, rfl⟩
  | sub t sid r =>
    refine ⟨subUnsub_closed_state hc t _, ?_, fun hw => ⟨?_, ?_⟩⟩
    · simp only [apiStep]; rw [subUnsub_closed hc]
      cases t <;> intro e he <;> simp only [List.mem_cons, List.not_mem_nil, or_false] at he <;> subst he <;>
        exact Or.inl (by decide)
    · simp only [apiStep]; rw [subUnsub_closed hc]
      cases t <;> exact hw
    · simp only [apiStep]; rw [subUnsub_closed hc]
      cases t <;> intro e he hi <;> simp only [List.mem_cons, List.not_mem_nil, or_false] at he <;> subst he <;>
        simp [isInitResult] at hi
  | unsub t sid =>
    refine ⟨subUnsub_closed_state hc t _, ?_, fun hw => ⟨?_, ?_⟩⟩
    · simp only [apiStep]; rw [subUnsub_closed hc]
      cases t <;> intro e he <;> simp only [List.mem_cons, List.not_mem_nil, or_false] at he <;> subst he <;>
        exact Or.inl (by decide)
    · simp only [apiStep]; rw [subUnsub_closed hc]
      cases t <;> exact hw
    · simp only [apiStep]; rw [subUnsub_closed hc]
      cases t <;> intro e he hi <;> simp only [List.mem_cons, List.not_mem_nil, or_false] at he <;> subst he <;>
        simp [isInitResult] at hi
  | adv n =>
    obtain ⟨h1, _, h3⟩ := advance_closed n hc
    refine ⟨h1, ?_, fun hw => ⟨(advance_closed_noWaits n hc hw).2, ?_⟩⟩
    · intro e he
      cases n with
      | zero => cases he
      | succ n =>
        simp only [apiStep, (h3 (by omega)).1] at he
        rw [(List.mem_replicate.mp he).2]; exact Or.inl (by decide)
    · intro e he
      simp only [apiStep, (advance_closed_noWaits n hc hw).1] at he
      cases he
  | view =>
    simp only [apiStep, viewAt_closed hc]
    refine ⟨hc, ?_, fun hw => ⟨hw, ?_⟩⟩
    · intro e he; simp only [List.mem_cons, List.not_mem_nil, or_false] at he; subst he; exact Or.inl rfl
    · intro e he hi; simp only [List.mem_cons, List.not_mem_nil, or_false] at he; subst he; cases hi

/-- **quiet after shutdown**: a `Closed` object under any sequence of ops other than `init` stays `Closed` and outputs
    only quiet events -/
theorem closed_run {s : State} (hc : Closed s) (ops : List Op) (hops : ∀ op ∈ ops, op.afterShutdown = true) :
    Closed (run s ops).1 ∧
    (∀ e ∈ (run s ops).2, quietClosed e = true ∨ (e = Ev.result "init True" ∧ Op.callBad "init True" ∈ ops)) ∧
    (s.initWaits = [] → (run s ops).1.initWaits = [] ∧
      ∀ e ∈ (run s ops).2, isInitResult e = true → ∃ cls, Op.callBad cls ∈ ops ∧ e = Ev.result cls) := by
  induction ops generalizing s with
  | nil => exact ⟨hc, fun e he => (by cases he), fun hw => ⟨hw, fun e he => (by cases he)⟩⟩
  | cons op ops ih =>
    obtain ⟨s1, s2, s3⟩ := closed_step hc op (hops op List.mem_cons_self)
    obtain ⟨r1, r2, r3⟩ := ih s1 (fun o ho => hops o (List.mem_cons_of_mem _ ho))
    simp only [run]
    refine ⟨r1, ?_, fun hw => ⟨(r3 (s3 hw).1).1, ?_⟩⟩
    · intro e he
      rcases List.mem_append.mp he with he | he
      · rcases s2 e he with h | ⟨h, h'⟩
        · exact Or.inl h
        · exact Or.inr ⟨h, by rw [h']; exact List.mem_cons_self⟩
      · rcases r2 e he with h | ⟨h, h'⟩
        · exact Or.inl h
        · exact Or.inr ⟨h, List.mem_cons_of_mem _ h'⟩
    · intro e he hi
      rcases List.mem_append.mp he with he | he
      · obtain ⟨cls, h, h'⟩ := (s3 hw).2 e he hi
        exact ⟨cls, by rw [h]; exact List.mem_cons_self, h'⟩
      · obtain ⟨cls, h, h'⟩ := (r3 (s3 hw).1).2 e he hi
        exact ⟨cls, List.mem_cons_of_mem _ h, h'⟩

/-! ## 3. `init()` after `shutdown()` against a fresh object

### the functions that neither read nor write the heartbeat manager and the console version -/

/-- the state with another heartbeat manager and another console version -/
def sw (s : State) (h : HB) (v : FF30.ConsoleVersionMessage) : State := { s with hb := h, version := v }

theorem sw_self (s : State) : sw s s.hb s.version = s := rfl

/-- `G` commutes with replacing the heartbeat manager and the console version -/
def Comm (G : State → State × List Ev) : Prop := ∀ s h v, G (sw s h v) = (sw (G s).1 h v, (G s).2)

theorem Comm.hb {G : State → State × List Ev} (hG : Comm G) (s : State) : (G s).1.hb = s.hb := by
  have := congrArg (fun r => r.1.hb) (hG s s.hb s.version)
  exact this

theorem Comm.version {G : State → State × List Ev} (hG : Comm G) (s : State) : (G s).1.version = s.version := by
  have := congrArg (fun r => r.1.version) (hG s s.hb s.version)
  exact this

theorem setAc_sw (s : State) (h : HB) (v : FF30.ConsoleVersionMessage) (k : Nat) (a : AcObj) :
    (sw s h v).setAc k a = sw (s.setAc k a) h v := by
  unfold State.setAc
  show (match s.acDict.lookup k with | some i => _ | none => _) = _
  cases s.acDict.lookup k <;> rfl

theorem setZone_sw (s : State) (h : HB) (v : FF30.ConsoleVersionMessage) (k : Nat) (z : ZoneObj) :
    (sw s h v).setZone k z = sw (s.setZone k z) h v := by
  unfold State.setZone
  show (match s.zoneDict.lookup k with | some i => _ | none => _) = _
  cases s.zoneDict.lookup k <;> rfl

theorem updateAcStatus_sw (r : X2D.AcStatusData) : Comm (fun s => updateAcStatus s r) := by
  intro s h v
  simp only [updateAcStatus]
  show (match s.findAc r.ac_number with | none => _ | some a => _) = _
  cases s.findAc r.ac_number with
  | none => rfl
  | some a =>
    simp only
    split
    · rfl
    · rw [setAc_sw]

theorem updateAcTimer_sw (r : AcTimerStatusData) : Comm (fun s => updateAcTimer s r) := by
  intro s h v
  simp only [updateAcTimer]
  show (match s.findAc r.ac_number with | none => _ | some a => _) = _
  cases s.findAc r.ac_number with
  | none => rfl
  | some a =>
    simp only
    split
    · rfl
    · rw [setAc_sw]

theorem updateErrInfo_sw (m : FF10.AcErrorInformationMessage) : Comm (fun s => updateErrInfo s m) := by
  intro s h v
  simp only [updateErrInfo]
  show (match s.findAc m.ac_number with | none => _ | some a => _) = _
  cases s.findAc m.ac_number with
  | none => rfl
  | some a =>
    simp only
    split
    · rfl
    · rw [setAc_sw]

theorem updateGroupStatus_sw (g : X2B.GroupStatusData) : Comm (fun s => updateGroupStatus s g) := by
  intro s h v
  simp only [updateGroupStatus]
  show (match s.zoneOf g.group_number with | none => _ | some z => _) = _
  cases s.zoneOf g.group_number with
  | none => rfl
  | some z =>
    simp only
    split
    · rfl
    · rw [setZone_sw]; rfl

theorem foldEv_sw {α} (f : State → α → State × List Ev) (hf : ∀ x, Comm (fun s => f s x)) (l : List α) :
    Comm (fun s => foldEv f s l) := by
  induction l with
  | nil => intro s h v; rfl
  | cons x xs ih =>
    intro s h v
    simp only [foldEv]
    have e1 := hf x s h v
    simp only at e1
    rw [e1]
    have e2 := ih (f s x).1 h v
    simp only at e2
    rw [e2]

theorem processGroupNames_sw (s : State) (h : HB) (v : FF30.ConsoleVersionMessage) (l : List (Nat × Bytes)) :
    processGroupNames (sw s h v) l = sw (processGroupNames s l) h v := by
  unfold processGroupNames
  induction l generalizing s with
  | nil => rfl
  | cons p ps ih =>
    rw [List.foldl_cons, List.foldl_cons]
    exact ih (addZone s p)

theorem addAc_sw (s : State) (h : HB) (v : FF30.ConsoleVersionMessage) (single : Bool) (ab : FF11.AcAbility) :
    addAc (sw s h v) single ab = (addAc s single ab).map (fun t => sw t h v) := by
  unfold addAc
  have hz : zonesForAbility (sw s h v) single ab = zonesForAbility s single ab := rfl
  rw [hz]
  cases zonesForAbility s single ab with
  | none => rfl
  | some zs =>
    cases hm : mkAc ab zs with
    | none => simp [hm]
    | some a => simp [hm]; rfl

theorem processAbility_sw (s : State) (h : HB) (v : FF30.ConsoleVersionMessage) (single : Bool)
    (l : List FF11.AcAbility) :
    processAbility (sw s h v) single l = (sw (processAbility s single l).1 h v, (processAbility s single l).2) := by
  induction l generalizing s with
  | nil => rfl
  | cons ab rest ih =>
    simp only [processAbility, addAc_sw]
    cases addAc s single ab with
    | none => rfl
    | some s' => exact ih s'

theorem foldStatus_sw (s : State) (h : HB) (v : FF30.ConsoleVersionMessage) (l : List X2D.AcStatusData) :
    foldEv updateAcStatus (sw s h v) l = (sw (foldEv updateAcStatus s l).1 h v, (foldEv updateAcStatus s l).2) :=
  foldEv_sw _ updateAcStatus_sw l s h v

theorem foldTimer_sw (s : State) (h : HB) (v : FF30.ConsoleVersionMessage) (l : List AcTimerStatusData) :
    foldEv updateAcTimer (sw s h v) l = (sw (foldEv updateAcTimer s l).1 h v, (foldEv updateAcTimer s l).2) :=
  foldEv_sw _ updateAcTimer_sw l s h v

theorem foldGroup_sw (s : State) (h : HB) (v : FF30.ConsoleVersionMessage) (l : List X2B.GroupStatusData) :
    foldEv updateGroupStatus (sw s h v) l = (sw (foldEv updateGroupStatus s l).1 h v, (foldEv updateGroupStatus s l).2) :=
  foldEv_sw _ updateGroupStatus_sw l s h v

theorem processTimers_sw (s : State) (h : HB) (v : FF30.ConsoleVersionMessage) (l : List AcTimerStatusData) :
    processTimers (sw s h v) l = (sw (processTimers s l).1 h v, (processTimers s l).2) := by
  unfold processTimers
  show (if s.st = .INIT_AC_TIMER_STATUS then _ else if s.st = .CONNECTED then _ else _) = _
  rw [foldTimer_sw]
  split
  · rfl
  · split <;> rfl

/-- the two messages whose handling involves the heartbeat manager (the last answer of the handshake starts it) or the
    stored console version -/
def special : RMsg → Bool
  | .extended (.consoleVer (.message _)) => true
  | .groupStatus (.status _) => true
  | _ => false

theorem onMessage_sw (s : State) (h : HB) (v : FF30.ConsoleVersionMessage) (m : RMsg) (hm : special m = false) :
    onMessage (sw s h v) m = (sw (onMessage s m).1 h v, (onMessage s m).2) := by
  cases m with
  | extended sub =>
    cases sub with
    | consoleVer c =>
      cases c with
      | message c => cases hm
      | request => rfl
    | groupNames n =>
      cases n with
      | message n =>
        simp only [onMessage]
        show (if s.st = .INIT_GROUP_NAMES then _ else _) = _
        rw [processGroupNames_sw]
        split <;> rfl
      | request r => rfl
    | acAbility a =>
      cases a with
      | ability acs =>
        simp only [onMessage]
        show (if s.st = .INIT_AC_ABILITY then _ else _) = _
        rw [processAbility_sw]
        split
        · rcases processAbility s (acs.length == 1) acs with ⟨s', b⟩
          cases b <;> rfl
        · rfl
      | request r => rfl
    | errInfo e =>
      cases e with
      | message e =>
        simp only [onMessage]
        have := updateErrInfo_sw e s h v
        simp only at this
        rw [this]
      | request r => rfl
    | quickTimer q => rfl
    | unsupported i r => rfl
  | groupCtrl c => rfl
  | groupStatus g =>
    cases g with
    | request => rfl
    | status l => cases hm
  | acCtrl c => rfl
  | acStatus a =>
    cases a with
    | request => rfl
    | status l =>
      simp only [onMessage]
      show (if s.st = .INIT_AC_STATUS then _ else if s.st = .CONNECTED then _ else _) = _
      rw [foldStatus_sw]
      split
      · rfl
      · split <;> rfl
  | acTimerCtrl c => exact processTimers_sw s h v _
  | acTimerStatus t =>
    cases t with
    | request => rfl
    | status l => exact processTimers_sw s h v _
  | unsupported i r => rfl

/-! ### the relation without the console version -/

/-- equal in everything but the heartbeat managers - which are equivalent - and the console version -/
structure Sim0 (a b : State) : Prop where
  eq : b = sw a b.hb b.version
  hb : HbEquiv a.hb b.hb

theorem Sim0.elim {a b : State} (S : Sim0 a b) : ∃ h v, b = sw a h v ∧ HbEquiv a.hb h :=
  ⟨b.hb, b.version, S.eq, S.hb⟩

theorem Sim0.intro (a : State) (h : HB) (v : FF30.ConsoleVersionMessage) (E : HbEquiv a.hb h) : Sim0 a (sw a h v) :=
  ⟨rfl, E⟩

theorem Sim0.refl (a : State) : Sim0 a a := ⟨rfl, HbEquiv.refl _⟩

theorem hbEquiv_apply {h h' : HB} (e : HbEquiv h h') (l : Label) : HbEquiv (hbApply h l) (hbApply h' l) :=
  (HbSim.apply (HbSim.start e) l).equiv

theorem hbEquiv_setNow {h h' : HB} (e : HbEquiv h h') (n : Nat) :
    HbEquiv { h with now := n } { h' with now := n } :=
  ⟨rfl, e.interval, e.timeout, e.tl, e.hl, e.connected, e.flag, e.resetAt⟩

theorem hbEquiv_idle {h h' : HB} (e : HbEquiv h h') : hbIdle h = hbIdle h' := by
  unfold Api4.hbIdle; rw [e.tl, e.hl]

theorem Sim0.comm {G : State → State × List Ev} (hG : Comm G) {a b : State} (S : Sim0 a b) :
    Sim0 (G a).1 (G b).1 ∧ (G a).2 = (G b).2 := by
  obtain ⟨h, v, rfl, E⟩ := S.elim
  rw [hG a h v]
  exact ⟨Sim0.intro _ h v (by rw [hG.hb]; exact E), rfl⟩

theorem hbStart_sim {a b : State} (S : Sim0 a b) : Sim0 (hbStart a).1 (hbStart b).1 ∧ (hbStart a).2 = (hbStart b).2 := by
  obtain ⟨h, v, rfl, E⟩ := S.elim
  unfold hbStart
  have hi : hbIdle (sw a h v).hb = hbIdle a.hb := (hbEquiv_idle E).symm
  rw [hi]
  split
  · exact ⟨Sim0.intro _ _ v (hbEquiv_apply (hbEquiv_apply (hbEquiv_setNow E a.now) _) _), rfl⟩
  · exact ⟨Sim0.intro _ h v E, rfl⟩

theorem sw_st (s : State) (h : HB) (v : FF30.ConsoleVersionMessage) : (sw s h v).st = s.st := rfl
theorem sw_now (s : State) (h : HB) (v : FF30.ConsoleVersionMessage) : (sw s h v).now = s.now := rfl
theorem sw_subscribed (s : State) (h : HB) (v : FF30.ConsoleVersionMessage) : (sw s h v).subscribed = s.subscribed := rfl
theorem sw_sockOpen (s : State) (h : HB) (v : FF30.ConsoleVersionMessage) : (sw s h v).sockOpen = s.sockOpen := rfl
theorem sw_sockConnected (s : State) (h : HB) (v : FF30.ConsoleVersionMessage) :
    (sw s h v).sockConnected = s.sockConnected := rfl
theorem sw_initialised (s : State) (h : HB) (v : FF30.ConsoleVersionMessage) :
    (sw s h v).initialised = s.initialised := rfl
theorem sw_hb (s : State) (h : HB) (v : FF30.ConsoleVersionMessage) : (sw s h v).hb = h := rfl
theorem sw_version (s : State) (h : HB) (v : FF30.ConsoleVersionMessage) : (sw s h v).version = v := rfl

/-- the state `enterConnected` hands to the heartbeat manager's `start()` -/
def preConnected (s : State) : State :=
  { s with st := .CONNECTED, pollOrphans := s.pollOrphans ++ s.pollCur.toList,
           pollCur := some (s.now + Api4.GROUP_STATUS_TIMEOUT), initialised := true, initWaits := [] }

theorem enterConnected_eq_sd (s : State) :
    enterConnected s = ((hbStart (preConnected s)).1,
      [Ev.hbStart] ++ s.initWaits.map (fun _ => Ev.result "init True") ++ (hbStart (preConnected s)).2) := rfl

theorem enterConnected_sim {a b : State} (S : Sim0 a b) :
    Sim0 (enterConnected a).1 (enterConnected b).1 ∧ (enterConnected a).2 = (enterConnected b).2 := by
  obtain ⟨h, v, rfl, E⟩ := S.elim
  have S1 : Sim0 (preConnected a) (preConnected (sw a h v)) := Sim0.intro (preConnected a) h v E
  obtain ⟨p, q⟩ := hbStart_sim S1
  rw [enterConnected_eq_sd, enterConnected_eq_sd]
  exact ⟨p, by rw [q]; rfl⟩

theorem hbOnMessage_sim {a b : State} (S : Sim0 a b) (m : RMsg) : Sim0 (hbOnMessage a m) (hbOnMessage b m) := by
  obtain ⟨h, v, rfl, E⟩ := S.elim
  unfold hbOnMessage
  split
  · exact Sim0.intro _ _ v (hbEquiv_apply (hbEquiv_apply (hbEquiv_setNow E a.now) _) _)
  · exact Sim0.intro _ h v E

theorem onMessage_hb (s : State) (m : RMsg) (hm : special m = false) : (onMessage s m).1.hb = s.hb :=
  congrArg (fun r => r.1.hb) (onMessage_sw s s.hb s.version m hm)

theorem onMessage_sim {a b : State} (S : Sim0 a b) (m : RMsg) :
    Sim0 (onMessage a m).1 (onMessage b m).1 ∧
    ((a.version = b.version ∨ a.st ≠ .CONNECTED) → (onMessage a m).2 = (onMessage b m).2) := by
  obtain ⟨h, v, rfl, E⟩ := S.elim
  by_cases hm : special m = false
  · rw [onMessage_sw _ _ _ _ hm]
    exact ⟨Sim0.intro _ h v (by rw [onMessage_hb _ _ hm]; exact E), fun _ => by first | rfl | trivial⟩
  · cases m with
    | extended sub =>
      cases sub with
      | consoleVer c =>
        cases c with
        | message c =>
          by_cases h1 : a.st = .INIT_VERSION
          · simp only [onMessage, sw_st, h1, ↓reduceIte]
            exact ⟨Sim0.intro _ h c E, fun _ => by first | rfl | trivial⟩
          · by_cases h2 : a.st = .CONNECTED
            · simp only [onMessage, sw_st, h1, h2, ↓reduceIte, reduceCtorEq]
              refine ⟨?_, ?_⟩
              · unfold updateVersion
                simp only [sw_version]
                by_cases k1 : a.version = c <;> by_cases k2 : v = c <;> simp only [k1, k2, ↓reduceIte] <;>
                  exact Sim0.intro _ h _ E
              · intro hv
                rcases hv with hv | hv
                · simp only [sw_version] at hv
                  subst hv
                  unfold updateVersion
                  simp only [sw_version]
                  by_cases k : a.version = c <;> simp only [k, ↓reduceIte] <;> rfl
                · exact absurd rfl hv
            · simp only [onMessage, sw_st, h1, h2, ↓reduceIte]
              exact ⟨Sim0.intro _ h v E, fun _ => by first | rfl | trivial⟩
        | request => exact absurd rfl hm
      | groupNames n => exact absurd rfl hm
      | acAbility a => exact absurd rfl hm
      | errInfo e => exact absurd rfl hm
      | quickTimer q => exact absurd rfl hm
      | unsupported i r => exact absurd rfl hm
    | groupCtrl c => exact absurd rfl hm
    | groupStatus g =>
      cases g with
      | request => exact absurd rfl hm
      | status l =>
        simp only [onMessage, sw_st]
        have hr : rearmPolls (sw a h v) = sw (rearmPolls a) h v := rfl
        rw [hr, foldGroup_sw, foldGroup_sw]
        have e1 : (foldEv updateGroupStatus a l).1.hb = a.hb :=
          (foldEv_sw _ updateGroupStatus_sw l).hb a
        have e2 : (foldEv updateGroupStatus (rearmPolls a) l).1.hb = a.hb :=
          (foldEv_sw _ updateGroupStatus_sw l).hb (rearmPolls a)
        by_cases h1 : a.st = .INIT_GROUP_STATUS
        · simp only [h1, ↓reduceIte]
          obtain ⟨p, q⟩ := enterConnected_sim (Sim0.intro (foldEv updateGroupStatus a l).1 h v (by rw [e1]; exact E))
          exact ⟨p, fun _ => by simp only [q]⟩
        · by_cases h2 : a.st = .CONNECTED
          · simp only [h1, h2, ↓reduceIte, reduceCtorEq]
            exact ⟨Sim0.intro _ h v (by rw [e2]; exact E), fun _ => by first | rfl | trivial⟩
          · simp only [h1, h2, ↓reduceIte]
            exact ⟨Sim0.intro _ h v E, fun _ => by first | rfl | trivial⟩
    | acCtrl c => exact absurd rfl hm
    | acStatus a => exact absurd rfl hm
    | acTimerCtrl c => exact absurd rfl hm
    | acTimerStatus t => exact absurd rfl hm
    | unsupported i r => exact absurd rfl hm

/-- `recv` in two steps -/
def handled (s : State) (m : RMsg) : State × List Ev × Option Exc :=
  if s.subscribed then onMessage s m else (s, [], none)

theorem recv_eq (s : State) (m : RMsg) :
    recv s m = (hbOnMessage (handled s m).1 m,
      (handled s m).2.1 ++ (match (handled s m).2.2 with | some e => [Ev.subscriberExc e.name] | none => [])) := rfl

theorem handled_sim {a b : State} (S : Sim0 a b) (m : RMsg) :
    Sim0 (handled a m).1 (handled b m).1 ∧
    ((a.version = b.version ∨ a.st ≠ .CONNECTED) → (handled a m).2 = (handled b m).2) := by
  have hsub : b.subscribed = a.subscribed := by obtain ⟨h, v, rfl, E⟩ := S.elim; rfl
  unfold handled
  rw [hsub]
  cases a.subscribed
  · exact ⟨S, fun _ => rfl⟩
  · exact onMessage_sim S m

theorem recv_sim {a b : State} (S : Sim0 a b) (m : RMsg) :
    Sim0 (recv a m).1 (recv b m).1 ∧
    ((a.version = b.version ∨ a.st ≠ .CONNECTED) → (recv a m).2 = (recv b m).2) := by
  obtain ⟨p, q⟩ := handled_sim S m
  rw [recv_eq, recv_eq]
  exact ⟨hbOnMessage_sim p m, fun hv => by simp only [q hv]⟩


theorem onConn_sw (up : Bool) : Comm (fun s => onConn s up) := by
  intro s h v
  simp only [onConn]
  by_cases k0 : (!s.subscribed) = true
  · have k0' : (!(sw s h v).subscribed) = true := k0
    simp only [if_pos k0, if_pos k0']
  · have k0' : ¬ (!(sw s h v).subscribed) = true := k0
    simp only [if_neg k0, if_neg k0']
    by_cases k1 : (up && s.st == Api4.AirTouchState.CONNECTING) = true
    · have k1' : (up && (sw s h v).st == Api4.AirTouchState.CONNECTING) = true := k1
      simp only [if_pos k1, if_pos k1']
      by_cases k2 : s.sockOpen = true
      · have k2' : (sw s h v).sockOpen = true := k2
        simp only [if_pos k2, if_pos k2']; rfl
      · have k2' : ¬ (sw s h v).sockOpen = true := k2
        simp only [if_neg k2, if_neg k2']; rfl
    · have k1' : ¬ (up && (sw s h v).st == Api4.AirTouchState.CONNECTING) = true := k1
      simp only [if_neg k1, if_neg k1']
      by_cases k3 : up = true
      · simp only [if_pos k3]
        by_cases k2 : s.sockOpen = true
        · have k2' : (sw s h v).sockOpen = true := k2
          simp only [if_pos k2, if_pos k2']
        · have k2' : ¬ (sw s h v).sockOpen = true := k2
          simp only [if_neg k2, if_neg k2']
      · simp only [if_neg k3]

theorem fireHbTimeout_sim {a b : State} (S : Sim0 a b) :
    Sim0 (fireHbTimeout a).1 (fireHbTimeout b).1 ∧ (fireHbTimeout a).2 = (fireHbTimeout b).2 := by
  obtain ⟨h, v, rfl, E⟩ := S.elim
  unfold fireHbTimeout
  have etl : (sw a h v).hb.tl = a.hb.tl := E.tl.symm
  rw [etl]
  cases a.hb.tl with
  | idle => exact ⟨Sim0.intro _ h v E, by first | rfl | trivial⟩
  | resetting => exact ⟨Sim0.intro _ h v E, by first | rfl | trivial⟩
  | waiting d =>
    simp only
    by_cases k1 : d ≤ a.now
    · have k1' : d ≤ (sw a h v).now := k1
      simp only [if_pos k1, if_pos k1']
      by_cases k2 : a.sockConnected = true
      · have k2' : (sw a h v).sockConnected = true := k2
        simp only [if_pos k2, if_pos k2']
        exact ⟨Sim0.intro _ _ v (hbEquiv_apply (hbEquiv_apply E _) _), by first | rfl | trivial⟩
      · have k2' : ¬ (sw a h v).sockConnected = true := k2
        simp only [if_neg k2, if_neg k2']
        exact ⟨Sim0.intro _ _ v (hbEquiv_apply E _), by first | rfl | trivial⟩
    · have k1' : ¬ d ≤ (sw a h v).now := k1
      simp only [if_neg k1, if_neg k1']
      exact ⟨Sim0.intro _ h v E, by first | rfl | trivial⟩

theorem fireBeat_sim {a b : State} (S : Sim0 a b) :
    Sim0 (fireBeat a).1 (fireBeat b).1 ∧ (fireBeat a).2 = (fireBeat b).2 := by
  obtain ⟨h, v, rfl, E⟩ := S.elim
  unfold fireBeat
  have ehl : (sw a h v).hb.hl = a.hb.hl := E.hl.symm
  rw [ehl]
  cases a.hb.hl with
  | idle => exact ⟨Sim0.intro _ h v E, by first | rfl | trivial⟩
  | sleeping u =>
    simp only
    by_cases k1 : u ≤ a.now
    · have k1' : u ≤ (sw a h v).now := k1
      simp only [if_pos k1, if_pos k1']
      exact ⟨Sim0.intro _ _ v (hbEquiv_apply E _), by first | rfl | trivial⟩
    · have k1' : ¬ u ≤ (sw a h v).now := k1
      simp only [if_neg k1, if_neg k1']
      exact ⟨Sim0.intro _ h v E, by first | rfl | trivial⟩

theorem firePolls_sw : Comm firePolls := fun s h v => rfl
theorem fireInitWaits_sw : Comm fireInitWaits := fun s h v => rfl

theorem tick_sim {a b : State} (S : Sim0 a b) : Sim0 (tick a).1 (tick b).1 ∧ (tick a).2 = (tick b).2 := by
  have S0 : Sim0 { a with now := a.now + 1, hb := { a.hb with now := a.now + 1 } }
      { b with now := b.now + 1, hb := { b.hb with now := b.now + 1 } } := by
    obtain ⟨h, v, rfl, E⟩ := S.elim
    exact Sim0.intro _ _ v (hbEquiv_setNow E (a.now + 1))
  obtain ⟨p1, q1⟩ := fireHbTimeout_sim S0
  obtain ⟨p2, q2⟩ := p1.comm firePolls_sw
  obtain ⟨p3, q3⟩ := p2.comm fireInitWaits_sw
  obtain ⟨p4, q4⟩ := fireBeat_sim p3
  unfold tick
  exact ⟨p4, by simp only [q1, q2, q3, q4]⟩

theorem advance_sim (n : Nat) {a b : State} (S : Sim0 a b) :
    Sim0 (advance n a).1 (advance n b).1 ∧ (advance n a).2 = (advance n b).2 := by
  induction n generalizing a b with
  | zero => exact ⟨S, rfl⟩
  | succ n ih =>
    obtain ⟨p, q⟩ := tick_sim S
    obtain ⟨p', q'⟩ := ih p
    simp only [advance]
    exact ⟨p', by rw [q, q']⟩

theorem subUnsub_sw (t : Target) (f : List Sub → List Sub) : Comm (fun s => subUnsub s t f) := by
  intro s h v
  cases t with
  | airtouch => rfl
  | ac i general =>
    simp only [subUnsub]
    have e : (sw s h v).findAc i = s.findAc i := rfl
    rw [e]
    cases s.findAc i with
    | none => rfl
    | some a => simp only [setAc_sw]
  | zone i =>
    simp only [subUnsub]
    have e : (sw s h v).findZone i = s.findZone i := rfl
    rw [e]
    cases s.findZone i with
    | none => rfl
    | some zi =>
      simp only
      have e2 : (sw s h v).zoneObjs[zi]? = s.zoneObjs[zi]? := rfl
      rw [e2]
      cases s.zoneObjs[zi]? <;> rfl

theorem doInit_sw : Comm doInit := by
  intro s h v
  simp only [doInit]
  by_cases k : s.initialised = true
  · have k' : (sw s h v).initialised = true := k
    simp only [if_pos k, if_pos k']; rfl
  · have k' : ¬ (sw s h v).initialised = true := k
    simp only [if_neg k, if_neg k']; rfl

theorem doShutdown_sim {a b : State} (S : Sim0 a b) :
    Sim0 (doShutdown a).1 (doShutdown b).1 ∧ (doShutdown a).2 = (doShutdown b).2 := by
  obtain ⟨h, v, rfl, E⟩ := S.elim
  exact ⟨Sim0.intro _ _ v (hbEquiv_apply (hbEquiv_apply (hbEquiv_setNow E a.now) .stop) (.conn false)), rfl⟩

theorem doCall_sw (s : State) (h : HB) (v : FF30.ConsoleVersionMessage) (c : Call) : doCall (sw s h v) c = doCall s c := rfl

theorem viewAt_sw (s : State) (h : HB) : viewAt (sw s h s.version) = viewAt s := rfl

/-- one op on two states related by `Sim0`: related successors; the same outputs unless the stored console version
    is looked at (a version message in state `CONNECTED`, `view`) while the two versions differ -/
theorem apiStep_sim0 {a b : State} (S : Sim0 a b) (op : Op) :
    Sim0 (apiStep a op).1 (apiStep b op).1 ∧
    ((a.version = b.version ∨ (a.st ≠ .CONNECTED ∧ op ≠ .view)) → (apiStep a op).2 = (apiStep b op).2) := by
  cases op with
  | init => exact ⟨(S.comm doInit_sw).1, fun _ => (S.comm doInit_sw).2⟩
  | shutdown => exact ⟨(doShutdown_sim S).1, fun _ => (doShutdown_sim S).2⟩
  | conn up =>
    have S1 : Sim0 { a with sockConnected := up, hb := hbApply { a.hb with now := a.now } (.conn up) }
        { b with sockConnected := up, hb := hbApply { b.hb with now := b.now } (.conn up) } := by
      obtain ⟨h, v, rfl, E⟩ := S.elim
      exact Sim0.intro _ _ v (hbEquiv_apply (hbEquiv_setNow E a.now) (.conn up))
    exact ⟨(S1.comm (onConn_sw up)).1, fun _ => (S1.comm (onConn_sw up)).2⟩
  | msg mid payload =>
    simp only [apiStep]
    cases decodeTop mid payload with
    | ok m =>
      obtain ⟨p, q⟩ := recv_sim S m
      exact ⟨p, fun hv => q (hv.imp id And.left)⟩
    | error cls => exact ⟨S, fun _ => rfl⟩
  | recv m =>
    obtain ⟨p, q⟩ := recv_sim S m
    exact ⟨p, fun hv => q (hv.imp id And.left)⟩
  | call c =>
    refine ⟨S, fun _ => ?_⟩
    obtain ⟨h, v, rfl, E⟩ := S.elim
    rfl
  | callBad cls => exact ⟨S, fun _ => rfl⟩
  | sub t sid r => exact ⟨(S.comm (subUnsub_sw t _)).1, fun _ => (S.comm (subUnsub_sw t _)).2⟩
  | unsub t sid => exact ⟨(S.comm (subUnsub_sw t _)).1, fun _ => (S.comm (subUnsub_sw t _)).2⟩
  | adv n => exact ⟨(advance_sim n S).1, fun _ => (advance_sim n S).2⟩
  | view =>
    have e : ∀ (s : State), (apiStep s .view).1 = s := by
      intro s; simp only [apiStep]; split <;> rfl
    rw [e, e]
    refine ⟨S, fun hv => ?_⟩
    rcases hv with hv | ⟨_, hv⟩
    · obtain ⟨h, v, rfl, E⟩ := S.elim
      simp only [sw_version] at hv
      subst hv
      simp only [apiStep, viewAt_sw]
      cases viewAt a <;> rfl
    · exact absurd rfl hv

/-! ### the stored console version -/

/-- the states in which the stored console version is never read by the message handler: before the first answer of a
    handshake (which overwrites it) -/
def early (st : AState) : Prop := st = .CLOSED ∨ st = .CONNECTING ∨ st = .INIT_VERSION

def verOf : RMsg → Option FF30.ConsoleVersionMessage
  | .extended (.consoleVer (.message c)) => some c
  | _ => none

/-- the console version a message stores (`INIT_VERSION`: the handshake answer; `CONNECTED`: an update) -/
def verSetMsg (st : AState) (subscribed : Bool) (m : RMsg) : Option FF30.ConsoleVersionMessage :=
  if subscribed = true ∧ (st = .INIT_VERSION ∨ st = .CONNECTED) then verOf m else none

def verSetOp (st : AState) (subscribed : Bool) : Op → Option FF30.ConsoleVersionMessage
  | .recv m => verSetMsg st subscribed m
  | .msg mid payload =>
    match decodeTop mid payload with
    | .ok m => verSetMsg st subscribed m
    | .error _ => none
  | _ => none

theorem version_hbOnMessage (s : State) (m : RMsg) : (hbOnMessage s m).version = s.version := by
  unfold hbOnMessage; split <;> rfl

theorem version_hbStart (s : State) : (hbStart s).1.version = s.version := by
  rw [hbStart_frame]

theorem version_enterConnected (s : State) : (enterConnected s).1.version = s.version := by
  rw [enterConnected_eq_sd]; exact version_hbStart _

theorem special_iff (m : RMsg) : special m = true ↔
    (∃ c, m = .extended (.consoleVer (.message c))) ∨ (∃ l, m = .groupStatus (.status l)) := by
  constructor
  · intro h
    cases m with
    | extended sub =>
      cases sub with
      | consoleVer c =>
        cases c with
        | message c => exact Or.inl ⟨c, rfl⟩
        | request => cases h
      | groupNames n => cases h
      | acAbility a => cases h
      | errInfo e => cases h
      | quickTimer q => cases h
      | unsupported i r => cases h
    | groupCtrl c => cases h
    | groupStatus g =>
      cases g with
      | request => cases h
      | status l => exact Or.inr ⟨l, rfl⟩
    | acCtrl c => cases h
    | acStatus a => cases h
    | acTimerCtrl c => cases h
    | acTimerStatus t => cases h
    | unsupported i r => cases h
  · rintro (⟨c, rfl⟩ | ⟨l, rfl⟩) <;> rfl

theorem verOf_of_not_special (m : RMsg) (hm : special m = false) : verOf m = none := by
  cases hv : verOf m with
  | none => rfl
  | some c =>
    exfalso
    have : special m = true := by
      cases m with
      | extended sub =>
        cases sub with
        | consoleVer c =>
          cases c with
          | message c => rfl
          | request => cases hv
        | groupNames n => cases hv
        | acAbility a => cases hv
        | errInfo e => cases hv
        | quickTimer q => cases hv
        | unsupported i r => cases hv
      | groupCtrl c => cases hv
      | groupStatus g => cases hv
      | acCtrl c => cases hv
      | acStatus a => cases hv
      | acTimerCtrl c => cases hv
      | acTimerStatus t => cases hv
      | unsupported i r => cases hv
    rw [hm] at this; cases this

/-- the console version after the message handler -/
theorem onMessage_version (s : State) (m : RMsg) :
    (onMessage s m).1.version = (verSetMsg s.st true m).getD s.version := by
  by_cases hm : special m = false
  · have e : (onMessage s m).1.version = s.version :=
      congrArg (fun r => r.1.version) (onMessage_sw s s.hb s.version m hm)
    rw [e]
    unfold verSetMsg
    rw [verOf_of_not_special m hm]
    split <;> rfl
  · have hm' : special m = true := by cases h : special m <;> simp_all
    rcases (special_iff m).mp hm' with ⟨c, rfl⟩ | ⟨l, rfl⟩
    · by_cases h1 : s.st = .INIT_VERSION
      · simp [onMessage, verSetMsg, verOf, h1]
      · by_cases h2 : s.st = .CONNECTED
        · simp only [onMessage, verSetMsg, verOf, h1, h2, ↓reduceIte, reduceCtorEq, or_true, and_self,
            Option.getD_some]
          unfold updateVersion
          split
          · next h => exact h
          · rfl
        · simp [onMessage, verSetMsg, verOf, h1, h2]
    · have e : verSetMsg s.st true (.groupStatus (.status l)) = none := by
        unfold verSetMsg verOf; split <;> rfl
      rw [e]
      simp only [onMessage, Option.getD_none]
      have f1 : (foldEv updateGroupStatus s l).1.version = s.version := (foldEv_sw _ updateGroupStatus_sw l).version s
      have f2 : (foldEv updateGroupStatus (rearmPolls s) l).1.version = s.version :=
        (foldEv_sw _ updateGroupStatus_sw l).version (rearmPolls s)
      split
      · rw [version_enterConnected]; exact f1
      · split
        · exact f2
        · rfl

theorem recv_version (s : State) (m : RMsg) :
    (recv s m).1.version = (verSetMsg s.st s.subscribed m).getD s.version := by
  rw [recv_eq]
  simp only [version_hbOnMessage]
  unfold handled
  cases hsub : s.subscribed
  · simp [verSetMsg]
  · simp only [↓reduceIte]; exact onMessage_version s m

theorem answerKind_early (st : AState) (he : early st) (m : RMsg) (sub : Bool) (hv : verSetMsg st sub m = none)
    (hsub : sub = true) : answerKind st m = false := by
  subst hsub
  rcases he with rfl | rfl | rfl
  · rfl
  · rfl
  · cases hk : answerKind .INIT_VERSION m with
    | false => rfl
    | true =>
      exfalso
      cases m with
      | extended sub =>
        cases sub with
        | consoleVer c =>
          cases c with
          | message c => simp [verSetMsg, verOf] at hv
          | request => cases hk
        | groupNames n => cases hk
        | acAbility a => cases hk
        | errInfo e => cases hk
        | quickTimer q => cases hk
        | unsupported i r => cases hk
      | groupCtrl c => cases hk
      | groupStatus g => cases hk
      | acCtrl c => cases hk
      | acStatus a => cases hk
      | acTimerCtrl c => cases hk
      | acTimerStatus t => cases hk
      | unsupported i r => cases hk

theorem recv_early (s : State) (m : RMsg) (hv : verSetMsg s.st s.subscribed m = none) (he : early s.st) :
    (recv s m).1.st = s.st := by
  cases hsub : s.subscribed
  · rw [recv_eq, st_hbOnMessage]
    unfold handled
    simp [hsub]
  · exact (recv_not_answer s m (answerKind_early s.st he m s.subscribed hv hsub)).1

theorem st_subUnsub (s : State) (t : Target) (f : List Sub → List Sub) : (subUnsub s t f).1.st = s.st := by
  cases t with
  | airtouch => rfl
  | ac i general =>
    simp only [subUnsub]
    cases s.findAc i with
    | none => rfl
    | some a => simp only; rw [setAc_frame]
  | zone i =>
    simp only [subUnsub]
    cases s.findZone i with
    | none => rfl
    | some zi =>
      simp only
      cases s.zoneObjs[zi]? <;> rfl

theorem st_onConn (s : State) (up : Bool) (he : early s.st) : early (onConn s up).1.st := by
  unfold onConn
  split
  · exact he
  · split
    · split <;> exact Or.inr (Or.inr rfl)
    · split
      · split <;> exact he
      · exact he

/-- how an op changes the stored console version: only a console-version message does, in `INIT_VERSION` and in
    `CONNECTED`, and then the new value is the message's whatever was stored -/
theorem apiStep_version (s : State) (op : Op) :
    (apiStep s op).1.version = (verSetOp s.st s.subscribed op).getD s.version := by
  cases op with
  | init => simp only [apiStep, doInit, verSetOp]; split <;> rfl
  | shutdown => rfl
  | conn up => exact (onConn_sw up).version _
  | msg mid payload =>
    simp only [apiStep, verSetOp]
    cases decodeTop mid payload with
    | ok m => exact recv_version s m
    | error cls => rfl
  | recv m => exact recv_version s m
  | call c => rfl
  | callBad cls => rfl
  | sub t sid r => exact (subUnsub_sw t _).version s
  | unsub t sid => exact (subUnsub_sw t _).version s
  | adv n => exact congrArg Core.version (core_advance n s)
  | view => simp only [apiStep, verSetOp]; split <;> rfl

/-- an op that stores no console version keeps an early state early -/
theorem apiStep_early (s : State) (op : Op) (hv : verSetOp s.st s.subscribed op = none) (he : early s.st) :
    early (apiStep s op).1.st := by
  cases op with
  | init => simp only [apiStep, doInit]; split <;> exact Or.inr (Or.inl rfl)
  | shutdown => exact Or.inl rfl
  | conn up => exact st_onConn _ up he
  | msg mid payload =>
    simp only [apiStep, verSetOp] at hv ⊢
    cases hd : decodeTop mid payload with
    | ok m => rw [hd] at hv; simp only; rw [recv_early s m hv he]; exact he
    | error cls => exact he
  | recv m => show early (recv s m).1.st; rw [recv_early s m hv he]; exact he
  | call c => exact he
  | callBad cls => exact he
  | sub t sid r => show early (subUnsub s t _).1.st; rw [st_subUnsub]; exact he
  | unsub t sid => show early (subUnsub s t _).1.st; rw [st_subUnsub]; exact he
  | adv n =>
    have := congrArg Core.st (core_advance n s)
    show early (advance n s).1.st
    rw [show (advance n s).1.st = s.st from this]; exact he
  | view => simp only [apiStep]; split <;> exact he

/-! ### the simulation relation -/

/-- `a` (an object that went through `shutdown()` and `init()`) against `b` (a fresh object that was initialised):
    everything equal except that the heartbeat managers are only equivalent (`HbEquiv`: their ghost fields and
    traces differ) and that `a` may still hold the console version of its previous session until the first
    answer of the new handshake overwrites it -/
structure FreshSim (a b : State) : Prop where
  airtouchId : a.airtouchId = b.airtouchId
  serial : a.serial = b.serial
  name : a.name = b.name
  host : a.host = b.host
  st : a.st = b.st
  zoneObjs : a.zoneObjs = b.zoneObjs
  acObjs : a.acObjs = b.acObjs
  zoneDict : a.zoneDict = b.zoneDict
  acDict : a.acDict = b.acDict
  subs : a.subs = b.subs
  initialised : a.initialised = b.initialised
  initWaits : a.initWaits = b.initWaits
  pollCur : a.pollCur = b.pollCur
  pollOrphans : a.pollOrphans = b.pollOrphans
  sockOpen : a.sockOpen = b.sockOpen
  sockConnected : a.sockConnected = b.sockConnected
  subscribed : a.subscribed = b.subscribed
  now : a.now = b.now
  hb : HbEquiv a.hb b.hb
  version : a.version = b.version ∨ a.st = .CLOSED ∨ a.st = .CONNECTING ∨ a.st = .INIT_VERSION

theorem FreshSim.sim0 {a b : State} (F : FreshSim a b) : Sim0 a b := by
  obtain ⟨h1, h2, h3, h4, h5, h6, h7, h8, h9, h10, h11, h12, h13, h14, h15, h16, h17, h18, h19, _⟩ := F
  cases a; cases b
  simp only at h1 h2 h3 h4 h5 h6 h7 h8 h9 h10 h11 h12 h13 h14 h15 h16 h17 h18 h19
  subst h1 h2 h3 h4 h5 h6 h7 h8 h9 h10 h11 h12 h13 h14 h15 h16 h17 h18
  exact ⟨rfl, h19⟩

theorem FreshSim.of_sim0 {a b : State} (S : Sim0 a b) (hv : a.version = b.version ∨ early a.st) : FreshSim a b := by
  obtain ⟨h, v, rfl, E⟩ := S.elim
  exact ⟨rfl, rfl, rfl, rfl, rfl, rfl, rfl, rfl, rfl, rfl, rfl, rfl, rfl, rfl, rfl, rfl, rfl, rfl, E, hv⟩

theorem FreshSim.refl (a : State) : FreshSim a a := FreshSim.of_sim0 (Sim0.refl a) (Or.inl rfl)

/-- **the simulation**: one op - any op - on related states: the successors are related; the outputs are equal for
    every op other than `view`, and for `view` too once the console versions agree; and then they agree for ever -/
theorem freshSim_step {a b : State} (F : FreshSim a b) (op : Op) :
    FreshSim (apiStep a op).1 (apiStep b op).1 ∧
    (op ≠ .view → (apiStep a op).2 = (apiStep b op).2) ∧
    (a.version = b.version →
      (apiStep a op).2 = (apiStep b op).2 ∧ (apiStep a op).1.version = (apiStep b op).1.version) := by
  obtain ⟨p, q⟩ := apiStep_sim0 F.sim0 op
  have va := apiStep_version a op
  have vb := apiStep_version b op
  rw [← F.st, ← F.subscribed] at vb
  refine ⟨FreshSim.of_sim0 p ?_, ?_, ?_⟩
  · cases hs : verSetOp a.st a.subscribed op with
    | some v => left; rw [va, vb, hs]; rfl
    | none =>
      rcases F.version with hv | he
      · left; rw [va, vb, hs, hv]
      · right; exact apiStep_early a op hs he
  · intro hop
    apply q
    rcases F.version with hv | he
    · exact Or.inl hv
    · right
      refine ⟨?_, hop⟩
      intro hc
      rcases he with h | h | h <;> rw [hc] at h <;> cases h
  · intro hv
    exact ⟨q (Or.inl hv), by rw [va, vb, hv]⟩

/-- the simulation over op lists -/
theorem freshSim_run {a b : State} (F : FreshSim a b) (ops : List Op) :
    FreshSim (run a ops).1 (run b ops).1 ∧
    ((∀ op ∈ ops, op ≠ .view) → (run a ops).2 = (run b ops).2) ∧
    (a.version = b.version → (run a ops).2 = (run b ops).2 ∧ (run a ops).1.version = (run b ops).1.version) := by
  induction ops generalizing a b with
  | nil => exact ⟨F, fun _ => rfl, fun hv => ⟨rfl, hv⟩⟩
  | cons op ops ih =>
    obtain ⟨s1, s2, s3⟩ := freshSim_step F op
    obtain ⟨r1, r2, r3⟩ := ih s1
    simp only [run]
    refine ⟨r1, ?_, ?_⟩
    · intro h
      rw [s2 (h op List.mem_cons_self), r2 (fun o ho => h o (List.mem_cons_of_mem _ ho))]
    · intro hv
      obtain ⟨e1, e2⟩ := s3 hv
      obtain ⟨e3, e4⟩ := r3 e2
      exact ⟨by rw [e1, e3], e4⟩

/-- … including `view` from the moment the console versions agree (after the first console-version answer of the
    handshake): `ops₁` without `view`, then anything -/
theorem freshSim_run_split {a b : State} (F : FreshSim a b) (ops₁ ops₂ : List Op) (h1 : ∀ op ∈ ops₁, op ≠ .view)
    (hv : (run a ops₁).1.version = (run b ops₁).1.version) :
    (run a (ops₁ ++ ops₂)).2 = (run b (ops₁ ++ ops₂)).2 ∧ FreshSim (run a (ops₁ ++ ops₂)).1 (run b (ops₁ ++ ops₂)).1 := by
  obtain ⟨r1, r2, _⟩ := freshSim_run F ops₁
  obtain ⟨t1, _, t3⟩ := freshSim_run r1 ops₂
  rw [run_append, run_append]
  exact ⟨by rw [r2 h1, (t3 hv).1], t1⟩

/-- the console-version answer makes the versions agree -/
theorem freshSim_version_answer {a b : State} (F : FreshSim a b) (hsub : a.subscribed = true)
    (hst : a.st = .INIT_VERSION ∨ a.st = .CONNECTED) (c : FF30.ConsoleVersionMessage) :
    (apiStep a (.recv (.extended (.consoleVer (.message c))))).1.version =
      (apiStep b (.recv (.extended (.consoleVer (.message c))))).1.version := by
  rw [apiStep_version, apiStep_version, ← F.st, ← F.subscribed]
  simp [verSetOp, verSetMsg, verOf, hsub, hst]

/-! ### well-formedness of the embedded heartbeat manager -/

/-- the manager's clock is the API object's clock, its configuration is the default one, its view of the connection
    is the socket's -/
structure HbOk0 (h : HB) (now : Nat) (conn : Bool) : Prop where
  now : h.now = now
  interval : h.interval = Gen.heartbeatDefaultIntervalField
  timeout : h.timeout = Gen.heartbeatDefaultTimeoutField
  connected : h.connected = conn

def HbWf0 (s : State) : Prop := HbOk0 s.hb s.now s.sockConnected

theorem HbOk0.setNow {h : HB} {n : Nat} {c : Bool} (k : HbOk0 h n c) (m : Nat) : HbOk0 { h with now := m } m c :=
  ⟨rfl, k.interval, k.timeout, k.connected⟩

theorem HbOk0.conn {h : HB} {n : Nat} {c : Bool} (k : HbOk0 h n c) (up : Bool) : HbOk0 (hbApply h (.conn up)) n up :=
  ⟨k.now, k.interval, k.timeout, rfl⟩

def internalLabel : Label → Bool
  | .advance _ | .conn _ => false
  | _ => true

theorem HbOk0.apply {h : HB} {n : Nat} {c : Bool} (k : HbOk0 h n c) (l : Label) (hl : internalLabel l = true) :
    HbOk0 (hbApply h l) n c := by
  obtain ⟨k1, k2, k3, k4⟩ := k
  obtain ⟨n', i, t, f, tl, hl', c', la, ra, ex, tr⟩ := h
  simp only at k1 k2 k3 k4
  subst k1 k2 k3 k4
  cases l <;> cases tl <;> cases hl' <;>
    simp only [hbApply, Heartbeat.step, Heartbeat.HB.emit, Heartbeat.enterTimeout, internalLabel,
      Bool.false_eq_true] at hl ⊢
  all_goals (repeat' split)
  all_goals first
    | exact ⟨rfl, rfl, rfl, rfl⟩
    | (simp only [Option.getD_some, Option.getD_none]; exact ⟨rfl, rfl, rfl, rfl⟩)

theorem HbWf0_initial : HbWf0 State.initial := ⟨rfl, rfl, rfl, rfl⟩

theorem HbWf0_hbStart {s : State} (k : HbWf0 s) : HbWf0 (hbStart s).1 := by
  unfold hbStart
  split
  · exact ((HbOk0.setNow k s.now).apply _ rfl).apply _ rfl
  · exact k

theorem HbWf0_hbOnMessage {s : State} (k : HbWf0 s) (m : RMsg) : HbWf0 (hbOnMessage s m) := by
  unfold hbOnMessage
  split
  · exact ((HbOk0.setNow k s.now).apply _ rfl).apply _ rfl
  · exact k

/-- a function that leaves the manager, the clock and the socket's connected flag alone -/
theorem HbWf0_of_frame {s t : State} (k : HbWf0 s) (h1 : t.hb = s.hb) (h2 : t.now = s.now)
    (h3 : t.sockConnected = s.sockConnected) : HbWf0 t := by
  unfold HbWf0; rw [h1, h2, h3]; exact k

theorem HbWf0_onMessage {s : State} (k : HbWf0 s) (m : RMsg) : HbWf0 (onMessage s m).1 := by
  have hv := sockView_onMessage s m
  have h2 : (onMessage s m).1.now = s.now := congrArg SockView.now hv
  have h3 : (onMessage s m).1.sockConnected = s.sockConnected := congrArg SockView.sockConnected hv
  by_cases hm : special m = false
  · exact HbWf0_of_frame k (onMessage_hb s m hm) h2 h3
  · have hm' : special m = true := by cases h : special m <;> simp_all
    rcases (special_iff m).mp hm' with ⟨c, rfl⟩ | ⟨l, rfl⟩
    · refine HbWf0_of_frame k ?_ h2 h3
      simp only [onMessage]
      split
      · rfl
      · split
        · unfold updateVersion; split <;> rfl
        · rfl
    · simp only [onMessage]
      split
      · rw [enterConnected_eq_sd]
        apply HbWf0_hbStart
        have f := foldEv_sw _ updateGroupStatus_sw l
        have g := sockView_foldGroup s l
        exact HbWf0_of_frame (s := s) k (f.hb s) (congrArg SockView.now g) (congrArg SockView.sockConnected g)
      · split
        · have f := foldEv_sw _ updateGroupStatus_sw l
          have g := sockView_foldGroup (rearmPolls s) l
          exact HbWf0_of_frame (s := s) k (f.hb (rearmPolls s)) (congrArg SockView.now g)
            (congrArg SockView.sockConnected g)
        · exact k

theorem HbWf0_recv {s : State} (k : HbWf0 s) (m : RMsg) : HbWf0 (recv s m).1 := by
  rw [recv_eq]
  apply HbWf0_hbOnMessage
  unfold handled
  split
  · exact HbWf0_onMessage k m
  · exact k

theorem HbWf0_fireHbTimeout {s : State} (k : HbWf0 s) : HbWf0 (fireHbTimeout s).1 := by
  unfold fireHbTimeout
  split
  · split
    · split
      · exact (HbOk0.apply k _ rfl).apply _ rfl
      · exact HbOk0.apply k _ rfl
    · exact k
  · exact k

theorem HbWf0_fireBeat {s : State} (k : HbWf0 s) : HbWf0 (fireBeat s).1 := by
  unfold fireBeat
  split
  · split
    · exact HbOk0.apply k _ rfl
    · exact k
  · exact k

theorem HbWf0_tick {s : State} (k : HbWf0 s) : HbWf0 (tick s).1 := by
  unfold tick
  apply HbWf0_fireBeat
  have k0 : HbWf0 { s with now := s.now + 1, hb := { s.hb with now := s.now + 1 } } := HbOk0.setNow k (s.now + 1)
  exact HbWf0_fireHbTimeout k0

theorem HbWf0_advance (n : Nat) {s : State} (k : HbWf0 s) : HbWf0 (advance n s).1 := by
  induction n generalizing s with
  | zero => exact k
  | succ n ih => exact ih (HbWf0_tick k)

theorem HbWf0_subUnsub {s : State} (k : HbWf0 s) (t : Target) (f : List Sub → List Sub) : HbWf0 (subUnsub s t f).1 := by
  cases t with
  | airtouch => exact k
  | ac i general =>
    simp only [subUnsub]
    cases s.findAc i with
    | none => exact k
    | some a => simp only; rw [setAc_frame]; exact k
  | zone i =>
    simp only [subUnsub]
    cases s.findZone i with
    | none => exact k
    | some zi =>
      simp only
      cases s.zoneObjs[zi]? <;> exact k

theorem HbWf0_onConn {s : State} (k : HbWf0 s) (up : Bool) : HbWf0 (onConn s up).1 := by
  unfold onConn
  split
  · exact k
  · split
    · split <;> exact k
    · split
      · split <;> exact k
      · exact k

/-- the well-formedness is an invariant -/
theorem HbWf0_apiStep {s : State} (k : HbWf0 s) (op : Op) : HbWf0 (apiStep s op).1 := by
  cases op with
  | init => simp only [apiStep, doInit]; split <;> exact k
  | shutdown => exact ((HbOk0.setNow k s.now).apply _ rfl).conn false
  | conn up => exact HbWf0_onConn (s := { s with sockConnected := up, hb := _ }) ((HbOk0.setNow k s.now).conn up) up
  | msg mid payload =>
    simp only [apiStep]
    split
    · exact HbWf0_recv k _
    · exact k
  | recv m => exact HbWf0_recv k m
  | call c => exact k
  | callBad c => exact k
  | sub t sid r => exact HbWf0_subUnsub k t _
  | unsub t sid => exact HbWf0_subUnsub k t _
  | adv n => exact HbWf0_advance n k
  | view => simp only [apiStep]; split <;> exact k

theorem HbWf0_run {s : State} (k : HbWf0 s) (ops : List Op) : HbWf0 (run s ops).1 := by
  induction ops generalizing s with
  | nil => exact k
  | cons op ops ih => exact ih (HbWf0_apiStep k op)

/-! ### `init()` after `shutdown()` -/

/-- the comparator: a fresh object (same constructor arguments) on which time has passed up to `c.now`, the
    AirTouch-level subscribers of `c` were added and whose socket reported the connection state `c` has -/
def freshAt (c : State) : State :=
  { State.initial with
    airtouchId := c.airtouchId, serial := c.serial, name := c.name, host := c.host, now := c.now, subs := c.subs
    sockConnected := c.sockConnected
    hb := { State.initial.hb with now := c.now, connected := c.hb.connected } }

/-- a fresh object on which only time has passed -/
def idleAt (n : Nat) : State := { State.initial with now := n, hb := { State.initial.hb with now := n } }

theorem tick_idleAt (n : Nat) : tick (idleAt n) = (idleAt (n + 1), []) := rfl

theorem advance_idleAt (n m : Nat) : advance n (idleAt m) = (idleAt (m + n), []) := by
  induction n generalizing m with
  | zero => rfl
  | succ n ih =>
    simp only [advance, tick_idleAt, ih, List.append_nil]
    rw [Nat.add_assoc, Nat.add_comm 1 n]

/-- `adv n` on a fresh object: no output, only the two clocks move (this is what `freshAt` is, for an object without
    subscribers whose socket never connected) -/
theorem advance_initial (n : Nat) :
    apiStep State.initial (.adv n) =
      ({ State.initial with now := n, hb := { State.initial.hb with now := n } }, []) := by
  have := advance_idleAt n 0
  rw [Nat.zero_add] at this
  exact this

theorem freshAt_of_initial (n : Nat) : freshAt (apiStep State.initial (.adv n)).1 = (apiStep State.initial (.adv n)).1 := by
  rw [advance_initial]; rfl

/-- **`init()` after `shutdown()` works as on a fresh object**: for a `Closed` object without pending `init()`
    waiters and without orphaned poll tasks (heartbeat manager well-formed - an invariant), `init()` outputs
    exactly `OPEN`, as on the fresh object `freshAt c`, and the two successor states are related by `FreshSim` -/
theorem reinit_fresh {c : State} (hc : Closed c) (hw : c.initWaits = []) (ho : c.pollOrphans = []) (hb : HbWf0 c) :
    (apiStep c .init).2 = [Ev.opened] ∧ (apiStep (freshAt c) .init).2 = [Ev.opened] ∧
    FreshSim (apiStep c .init).1 (apiStep (freshAt c) .init).1 := by
  have hi := hc.initialised
  obtain ⟨i1, i2⟩ := (hbIdle_iff c.hb).mp hc.idle
  refine ⟨by simp [apiStep, doInit, hi], rfl, ?_⟩
  have e : apiStep c .init =
      ({ c with st := .CONNECTING, subscribed := true, sockOpen := true,
                initWaits := c.initWaits ++ [c.now + Api4.INIT_TIMEOUT] }, [Ev.opened]) := by
    simp [apiStep, doInit, hi]
  rw [e]
  exact
    { airtouchId := rfl, serial := rfl, name := rfl, host := rfl, st := rfl
      zoneObjs := hc.zoneObjs, acObjs := hc.acObjs, zoneDict := hc.zoneDict, acDict := hc.acDict, subs := rfl
      initialised := hi
      initWaits := by show c.initWaits ++ _ = _; rw [hw]; rfl
      pollCur := hc.pollCur, pollOrphans := ho, sockOpen := rfl, sockConnected := rfl, subscribed := rfl, now := rfl
      hb := ⟨hb.now, hb.interval, hb.timeout, i1, i2, rfl, fun h => absurd i1 h, fun h => by rw [i1] at h; cases h⟩
      version := Or.inr (Or.inr (Or.inl rfl)) }

/-- every later behaviour equals that of the fresh object: all outputs of any continuation without `view`, and the
    final states are related -/
theorem reinit_run {c : State} (hc : Closed c) (hw : c.initWaits = []) (ho : c.pollOrphans = []) (hb : HbWf0 c)
    (ops : List Op) :
    FreshSim (run c (.init :: ops)).1 (run (freshAt c) (.init :: ops)).1 ∧
    ((∀ op ∈ ops, op ≠ .view) → (run c (.init :: ops)).2 = (run (freshAt c) (.init :: ops)).2) := by
  obtain ⟨f1, f2, f3⟩ := reinit_fresh hc hw ho hb
  obtain ⟨r1, r2, _⟩ := freshSim_run f3 ops
  simp only [run]
  exact ⟨r1, fun h => by rw [f1, f2, r2 h]⟩

/-- … and with `view` from the moment the stored console versions agree (the first console-version answer of the
    new handshake makes them agree, `freshSim_version_answer`) -/
theorem reinit_run_split {c : State} (hc : Closed c) (hw : c.initWaits = []) (ho : c.pollOrphans = []) (hb : HbWf0 c)
    (ops₁ ops₂ : List Op) (h1 : ∀ op ∈ ops₁, op ≠ .view)
    (hv : (run c (.init :: ops₁)).1.version = (run (freshAt c) (.init :: ops₁)).1.version) :
    (run c (.init :: (ops₁ ++ ops₂))).2 = (run (freshAt c) (.init :: (ops₁ ++ ops₂))).2 := by
  obtain ⟨f1, f2, f3⟩ := reinit_fresh hc hw ho hb
  simp only [run] at hv ⊢
  rw [f1, f2, (freshSim_run_split f3 ops₁ ops₂ h1 hv).1]

/-- every reachable shutdown state is `Closed` and well-formed: `reinit_fresh` applies to it as soon as it has no
    orphaned poll task and no pending waiter -/
theorem shutdown_reachable_wf (ops : List Op) :
    Closed (run State.initial (ops ++ [.shutdown])).1 ∧ HbWf0 (run State.initial (ops ++ [.shutdown])).1 := by
  rw [run_append]
  exact ⟨(shutdown_state _).1, HbWf0_apiStep (HbWf0_run HbWf0_initial ops) .shutdown⟩

/-! ## findings: what `shutdown()` leaves behind

### (a) orphaned poll tasks -/

/-- `enterConnected` is the only place where a poll task is orphaned: the current one, if there is one -/
theorem enterConnected_orphans (s : State) :
    (enterConnected s).1.pollOrphans = s.pollOrphans ++ s.pollCur.toList ∧
    (enterConnected s).1.pollCur = some (s.now + Api4.GROUP_STATUS_TIMEOUT) ∧
    (enterConnected s).1.st = .CONNECTED := by
  rw [enterConnected_eq_sd, hbStart_frame]
  exact ⟨rfl, rfl, rfl⟩

/-- no orphaned poll task, and a current poll task only in state `CONNECTED` -/
structure NoOrphan (s : State) : Prop where
  orphans : s.pollOrphans = []
  cur : s.st ≠ .CONNECTED → s.pollCur = none

theorem NoOrphan.frame {s t : State} (j : NoOrphan s) (h1 : t.pollCur = s.pollCur) (h2 : t.pollOrphans = s.pollOrphans)
    (h3 : s.st = .CONNECTED → t.st = .CONNECTED) : NoOrphan t :=
  ⟨h2.trans j.orphans, fun h => h1.trans (j.cur (fun h' => h (h3 h')))⟩

theorem poll_processGroupNames (s : State) (l : List (Nat × Bytes)) :
    (processGroupNames s l).pollCur = s.pollCur ∧ (processGroupNames s l).pollOrphans = s.pollOrphans := by
  unfold processGroupNames
  induction l generalizing s with
  | nil => exact ⟨rfl, rfl⟩
  | cons p ps ih => rw [List.foldl_cons]; exact ih (addZone s p)

theorem poll_processAbility (s : State) (single : Bool) (l : List FF11.AcAbility) :
    (processAbility s single l).1.pollCur = s.pollCur ∧ (processAbility s single l).1.pollOrphans = s.pollOrphans := by
  induction l generalizing s with
  | nil => exact ⟨rfl, rfl⟩
  | cons ab rest ih =>
    simp only [processAbility]
    cases ha : addAc s single ab with
    | none => exact ⟨rfl, rfl⟩
    | some s' =>
      simp only
      unfold addAc at ha
      cases hz : zonesForAbility s single ab with
      | none => simp [hz] at ha
      | some zs =>
        cases hm : mkAc ab zs with
        | none => simp [hz, hm] at ha
        | some a =>
          simp [hz, hm] at ha; subst ha
          exact ih _

theorem NoOrphan_processTimers {s : State} (j : NoOrphan s) (l : List AcTimerStatusData) :
    NoOrphan (processTimers s l).1 := by
  have f : (foldEv updateAcTimer s l).1 = { s with acObjs := (foldEv updateAcTimer s l).1.acObjs } :=
    foldEv_frame_ac _ updateAcTimer_frame s l
  unfold processTimers
  split
  · next hs => exact j.frame (by simp only; rw [f]) (by simp only; rw [f]) (fun h => by rw [hs] at h; cases h)
  · split
    · exact j.frame (by simp only; rw [f]) (by simp only; rw [f]) (fun h => by simp only; rw [f]; exact h)
    · exact j

theorem NoOrphan_onMessage {s : State} (j : NoOrphan s) (m : RMsg) : NoOrphan (onMessage s m).1 := by
  cases m with
  | extended sub =>
    cases sub with
    | consoleVer v =>
      cases v with
      | message v =>
        simp only [onMessage]
        split
        · next hs => exact j.frame rfl rfl (fun h => by rw [hs] at h; cases h)
        · split
          · exact j.frame (by unfold updateVersion; split <;> rfl) (by unfold updateVersion; split <;> rfl)
              (fun h => by rw [st_updateVersion]; exact h)
          · exact j
      | request => exact j
    | groupNames n =>
      cases n with
      | message n =>
        simp only [onMessage]
        split
        · next hs =>
          exact j.frame (poll_processGroupNames s _).1 (poll_processGroupNames s _).2 (fun h => by rw [hs] at h; cases h)
        · exact j
      | request r => exact j
    | acAbility a =>
      cases a with
      | ability acs =>
        simp only [onMessage]
        split
        · next hs =>
          have := poll_processAbility s (acs.length == 1) acs
          split
          · next s' heq => rw [heq] at this; exact j.frame this.1 this.2 (fun h => by rw [hs] at h; cases h)
          · next s' heq => rw [heq] at this; exact j.frame this.1 this.2 (fun h => by rw [hs] at h; cases h)
        · exact j
      | request r => exact j
    | errInfo e =>
      cases e with
      | message e =>
        have f := updateErrInfo_frame s e
        exact j.frame (by simp only [onMessage]; rw [f]) (by simp only [onMessage]; rw [f])
          (fun h => by simp only [onMessage]; rw [f]; exact h)
      | request r => exact j
    | quickTimer q => exact j
    | unsupported i r => exact j
  | groupCtrl c => exact j
  | groupStatus g =>
    cases g with
    | request => exact j
    | status l =>
      simp only [onMessage]
      split
      · next hs =>
        have f : (foldEv updateGroupStatus s l).1 = { s with zoneObjs := (foldEv updateGroupStatus s l).1.zoneObjs } :=
          foldEv_frame_zone _ updateGroupStatus_frame s l
        obtain ⟨e1, e2, e3⟩ := enterConnected_orphans (foldEv updateGroupStatus s l).1
        refine ⟨?_, fun h => absurd e3 h⟩
        rw [e1, f]
        simp only
        rw [j.orphans, j.cur (by rw [hs]; intro h; cases h)]
        rfl
      · split
        · next hs =>
          have f : (foldEv updateGroupStatus (rearmPolls s) l).1 =
              { rearmPolls s with zoneObjs := (foldEv updateGroupStatus (rearmPolls s) l).1.zoneObjs } :=
            foldEv_frame_zone _ updateGroupStatus_frame (rearmPolls s) l
          refine ⟨?_, fun h => absurd ?_ h⟩
          · simp only; rw [f]
            simp only [rearmPolls, j.orphans, List.map_nil]
          · simp only; rw [f]; exact hs
        · exact j
  | acCtrl c => exact j
  | acStatus a =>
    cases a with
    | request => exact j
    | status l =>
      have f : (foldEv updateAcStatus s l).1 = { s with acObjs := (foldEv updateAcStatus s l).1.acObjs } :=
        foldEv_frame_ac _ updateAcStatus_frame s l
      simp only [onMessage]
      split
      · next hs => exact j.frame (by simp only; rw [f]) (by simp only; rw [f]) (fun h => by rw [hs] at h; cases h)
      · split
        · exact j.frame (by simp only; rw [f]) (by simp only; rw [f]) (fun h => by simp only; rw [f]; exact h)
        · exact j
  | acTimerCtrl c => exact NoOrphan_processTimers j _
  | acTimerStatus t =>
    cases t with
    | request => exact j
    | status l => exact NoOrphan_processTimers j _
  | unsupported i r => exact j

theorem NoOrphan_recv {s : State} (j : NoOrphan s) (m : RMsg) : NoOrphan (recv s m).1 := by
  rw [recv_eq]
  have j1 : NoOrphan (handled s m).1 := by
    unfold handled; split
    · exact NoOrphan_onMessage j m
    · exact j
  refine j1.frame ?_ ?_ (fun h => by rw [st_hbOnMessage]; exact h) <;> (unfold hbOnMessage; split <;> rfl)

theorem NoOrphan_tick {s : State} (j : NoOrphan s) : NoOrphan (tick s).1 := by
  obtain ⟨hv, _⟩ := tick_poll s j.orphans
  have hc := core_tick s
  refine ⟨congrArg PollView.pollOrphans hv, fun h => ?_⟩
  have e : (tick s).1.pollCur = _ := congrArg PollView.pollCur hv
  have hst : (tick s).1.st = s.st := congrArg Core.st hc
  rw [e, j.cur (by rw [← hst]; exact h)]
  rfl

theorem NoOrphan_advance (n : Nat) {s : State} (j : NoOrphan s) : NoOrphan (advance n s).1 := by
  induction n generalizing s with
  | zero => exact j
  | succ n ih => exact ih (NoOrphan_tick j)

theorem NoOrphan_subUnsub {s : State} (j : NoOrphan s) (t : Target) (f : List Sub → List Sub) :
    NoOrphan (subUnsub s t f).1 := by
  cases t with
  | airtouch => exact ⟨j.orphans, j.cur⟩
  | ac i general =>
    simp only [subUnsub]
    cases s.findAc i with
    | none => exact j
    | some a => simp only; rw [setAc_frame]; exact ⟨j.orphans, j.cur⟩
  | zone i =>
    simp only [subUnsub]
    cases s.findZone i with
    | none => exact j
    | some zi =>
      simp only
      cases s.zoneObjs[zi]? with
      | none => exact j
      | some z => exact ⟨j.orphans, j.cur⟩

theorem NoOrphan_onConn {s : State} (j : NoOrphan s) (up : Bool) : NoOrphan (onConn s up).1 := by
  unfold onConn
  split
  · exact j
  · split
    · next h =>
      have hs : s.st = .CONNECTING := by
        simp only [Bool.and_eq_true, beq_iff_eq] at h; exact h.2
      split <;> exact j.frame rfl rfl (fun h' => by rw [hs] at h'; cases h')
    · split
      · split <;> exact j
      · exact j

/-- every op keeps the object free of orphaned poll tasks - except `init()` called while a poll task is alive, i.e.
    `init()` on a connected object without `shutdown()` in between -/
theorem NoOrphan_apiStep {s : State} (j : NoOrphan s) (op : Op) (hinit : op = .init → s.pollCur = none) :
    NoOrphan (apiStep s op).1 := by
  cases op with
  | init =>
    have hp := hinit rfl
    simp only [apiStep, doInit]
    split <;> exact ⟨j.orphans, fun _ => hp⟩
  | shutdown => exact ⟨j.orphans, fun _ => rfl⟩
  | conn up => exact NoOrphan_onConn (s := { s with sockConnected := up, hb := _ }) ⟨j.orphans, j.cur⟩ up
  | msg mid payload =>
    simp only [apiStep]
    split
    · exact NoOrphan_recv j _
    · exact j
  | recv m => exact NoOrphan_recv j m
  | call c => exact j
  | callBad c => exact j
  | sub t sid r => exact NoOrphan_subUnsub j t _
  | unsub t sid => exact NoOrphan_subUnsub j t _
  | adv n => exact NoOrphan_advance n j
  | view => simp only [apiStep]; split <;> exact j

/-- the calling discipline "`init()` only on a fresh object or after `shutdown()`": `c` = the object is closed -/
def disciplined : Bool → List Op → Bool
  | _, [] => true
  | c, .init :: ops => c && disciplined false ops
  | _, .shutdown :: ops => disciplined true ops
  | c, _ :: ops => disciplined c ops

theorem State.initial_closed : Closed State.initial := ⟨rfl, rfl, rfl, rfl, rfl, rfl, rfl, rfl, rfl⟩

theorem noOrphans_disciplined_from {s : State} (j : NoOrphan s) (c : Bool) (hc : c = true → Closed s) (ops : List Op)
    (hd : disciplined c ops = true) : NoOrphan (run s ops).1 := by
  induction ops generalizing s c with
  | nil => exact j
  | cons op ops ih =>
    simp only [run]
    cases op with
    | init =>
      simp only [disciplined, Bool.and_eq_true] at hd
      exact ih (NoOrphan_apiStep j .init (fun _ => (hc hd.1).pollCur)) false (fun h => by cases h) hd.2
    | shutdown =>
      exact ih (NoOrphan_apiStep j .shutdown (fun h => by cases h)) true (fun _ => (shutdown_state s).1) hd
    | conn up =>
      exact ih (NoOrphan_apiStep j _ (fun h => by cases h)) c (fun h => (closed_step (hc h) _ rfl).1) hd
    | msg mid payload =>
      exact ih (NoOrphan_apiStep j _ (fun h => by cases h)) c (fun h => (closed_step (hc h) _ rfl).1) hd
    | recv m =>
      exact ih (NoOrphan_apiStep j _ (fun h => by cases h)) c (fun h => (closed_step (hc h) _ rfl).1) hd
    | call k =>
      exact ih (NoOrphan_apiStep j _ (fun h => by cases h)) c (fun h => (closed_step (hc h) _ rfl).1) hd
    | callBad k =>
      exact ih (NoOrphan_apiStep j _ (fun h => by cases h)) c (fun h => (closed_step (hc h) _ rfl).1) hd
    | sub t sid r =>
      exact ih (NoOrphan_apiStep j _ (fun h => by cases h)) c (fun h => (closed_step (hc h) _ rfl).1) hd
    | unsub t sid =>
      exact ih (NoOrphan_apiStep j _ (fun h => by cases h)) c (fun h => (closed_step (hc h) _ rfl).1) hd
    | adv n =>
      exact ih (NoOrphan_apiStep j _ (fun h => by cases h)) c (fun h => (closed_step (hc h) _ rfl).1) hd
    | view =>
      exact ih (NoOrphan_apiStep j _ (fun h => by cases h)) c (fun h => (closed_step (hc h) _ rfl).1) hd

/-- under the discipline no poll task is ever orphaned -/
theorem noOrphans_disciplined (ops : List Op) (hd : disciplined true ops = true) :
    (run State.initial ops).1.pollOrphans = [] :=
  (noOrphans_disciplined_from ⟨rfl, fun _ => rfl⟩ true (fun _ => State.initial_closed) ops hd).orphans

/-- orphaned poll tasks of a `Closed` object under one tick: each is treated by `firePoll` with `sockOpen = false`
    (`firePoll_cases`: re-armed silently while the socket is not connected, dead once it is) -/
theorem tick_closed_orphans {s : State} (hc : Closed s) :
    (tick s).1.pollOrphans = s.pollOrphans.filterMap (fun d => (firePoll s.sockConnected false (s.now + 1) d).1) := by
  obtain ⟨h1, h2⟩ := (hbIdle_iff s.hb).mp hc.idle
  unfold tick
  simp only
  generalize hs0 : ({ s with now := s.now + 1, hb := { s.hb with now := s.now + 1 } } : State) = s0
  have t0 : s0.hb.tl = .idle := by rw [← hs0]; exact h1
  rw [fireHbTimeout_idle s0 t0]
  simp only
  have hb2 : (fireInitWaits (firePolls s0).1).1.hb.hl = .idle := by rw [← hs0]; exact h2
  rw [fireBeat_idle _ hb2]
  show ((s0.pollOrphans.map (firePoll s0.sockConnected s0.sockOpen s0.now)).filterMap (·.1)) = _
  rw [← hs0]
  simp only [hc.sockOpen, List.filterMap_map]
  rfl

/-- the op sequence that orphans a poll task: a complete handshake, `init()` again without `shutdown()`, the
    handshake again, then `shutdown()` -/
def orphanOps : List Op := demoOps ++ [.init, .conn true] ++ demoAnswers.map Op.recv ++ [.shutdown]

/-- the state after it -/
def orphanState : State := (run State.initial orphanOps).1

/-- `init()`, then `shutdown()` before the 5 s are over -/
def waiterState : State := (run State.initial [.init, .shutdown]).1

end PyAirtouch.Lemmas.Api4
