import PyAirtouch.Lemmas.Api4Handshake
/-!
# What the names and ability messages build: zones, air-conditioners, which zone under which air-conditioner
-/
set_option linter.unusedSimpArgs false
set_option linter.unusedVariables false
namespace PyAirtouch.Lemmas.Api4
open PyAirtouch.Model PyAirtouch.Model.Api4 PyAirtouch.Model.At4 PyAirtouch.Gen
open PyAirtouch.Model.TimerCommon (AcTimerState AcTimerStatusData)

/-- the group number of the zone object `zi` -/
def zoneIdAt (s : State) (zi : Nat) : Option Nat := (s.zoneObjs[zi]?).map (·.status.group_number)

/-- the zone ids an ability record describes: the bitmap (in CPython set order), all named zones for a single
    air-conditioner without bitmap, otherwise `start_group … start_group + group_count - 1` -/
def describedIds (named : List Nat) (single : Bool) (ab : FF11.AcAbility) : List Nat :=
  match ab.groups with
  | some gs => pySetOrder gs
  | none => if single then named else List.range' ab.start_group ab.group_count

theorem mapM_lookup_ids {s : State} (hinv : Inv s) (l : List Nat) (zs : List Nat)
    (h : l.mapM (fun g => s.zoneDict.lookup g) = some zs) : zs.map (zoneIdAt s) = l.map some := by
  induction l generalizing zs with
  | nil => simp [List.mapM_nil] at h; subst h; rfl
  | cons g gs ih =>
    rw [List.mapM_cons] at h
    cases hg : s.zoneDict.lookup g with
    | none => simp [hg] at h
    | some i =>
      cases hr : gs.mapM (fun g => s.zoneDict.lookup g) with
      | none => simp [hg, hr] at h
      | some rest =>
        simp [hg, hr] at h
        subst h
        obtain ⟨z, hz, hzn⟩ := hinv.zoneKey _ _ hg
        simp [zoneIdAt, hz, hzn, ih rest hr]

theorem lookup_of_mem_nodup {β} (d : List (Nat × β)) (hnd : (d.map (·.1)).Nodup) (k : Nat) (v : β) (h : (k, v) ∈ d) :
    d.lookup k = some v := by
  induction d with
  | nil => cases h
  | cons p ps ih =>
    obtain ⟨a, b⟩ := p
    simp only [List.map_cons, List.nodup_cons] at hnd
    rw [lookup_cons_nat]
    rcases List.mem_cons.mp h with heq | hmem
    · cases heq; simp
    · have : k ≠ a := by
        intro e; subst e
        exact hnd.1 (List.mem_map.mpr ⟨(k, v), hmem, rfl⟩)
      simp [this, ih hnd.2 hmem]

theorem dict_values_ids {s : State} (hinv : Inv s) (hnd : (s.zoneDict.map (·.1)).Nodup) :
    (s.zoneDict.map (·.2)).map (zoneIdAt s) = (s.zoneDict.map (·.1)).map some := by
  have : ∀ p ∈ s.zoneDict, zoneIdAt s p.2 = some p.1 := by
    intro p hp
    obtain ⟨k, i⟩ := p
    obtain ⟨z, hz, hzn⟩ := hinv.zoneKey _ _ (lookup_of_mem_nodup _ hnd k i hp)
    simp [zoneIdAt, hz, hzn]
  simp only [List.map_map]
  apply List.map_congr_left
  intro p hp
  simp [this p hp]

/-- the zone objects an ability record is given are those of the described group numbers -/
theorem zonesForAbility_ids {s : State} (hinv : Inv s) (hnd : (s.zoneDict.map (·.1)).Nodup) (single : Bool)
    (ab : FF11.AcAbility) (zs : List Nat) (h : zonesForAbility s single ab = some zs) :
    zs.map (zoneIdAt s) = (describedIds (s.zoneDict.map (·.1)) single ab).map some := by
  unfold zonesForAbility at h
  unfold describedIds
  cases hg : ab.groups with
  | some gs =>
    simp only [hg] at h ⊢
    exact mapM_lookup_ids hinv _ _ h
  | none =>
    simp only [hg] at h ⊢
    cases single with
    | true =>
      simp only [↓reduceIte, Option.some.injEq] at h ⊢
      subst h
      exact dict_values_ids hinv hnd
    | false =>
      simp only [Bool.false_eq_true, ↓reduceIte] at h ⊢
      exact mapM_lookup_ids hinv _ _ h

/-- the `KeyError` condition: a described group without a name -/
theorem zonesForAbility_none_iff {s : State} (single : Bool) (ab : FF11.AcAbility) :
    zonesForAbility s single ab = none ↔
      ∃ g ∈ describedIds (s.zoneDict.map (·.1)) single ab, s.zoneDict.lookup g = none := by
  have key : ∀ l : List Nat, l.mapM (fun g => s.zoneDict.lookup g) = none ↔ ∃ g ∈ l, s.zoneDict.lookup g = none := by
    intro l
    induction l with
    | nil =>
      constructor
      · intro h; simp [List.mapM_nil] at h
      · rintro ⟨g, hg, _⟩; cases hg
    | cons g gs ih =>
      rw [List.mapM_cons]
      cases hg : s.zoneDict.lookup g with
      | none =>
        constructor
        · intro _; exact ⟨g, List.mem_cons_self, hg⟩
        · intro _; rfl
      | some i =>
        cases hr : gs.mapM (fun g => s.zoneDict.lookup g) with
        | none =>
          obtain ⟨g', hg', hn⟩ := ih.mp hr
          constructor
          · intro _; exact ⟨g', List.mem_cons_of_mem _ hg', hn⟩
          · intro _; rfl
        | some rest =>
          constructor
          · intro h; cases h
          · rintro ⟨g', hg', hn⟩
            rcases List.mem_cons.mp hg' with rfl | hm
            · rw [hg] at hn; cases hn
            · have := ih.mpr ⟨g', hm, hn⟩
              rw [hr] at this; cases this
  unfold zonesForAbility describedIds
  cases hg : ab.groups with
  | some gs => simp only [key]
  | none =>
    cases single with
    | true =>
      simp only [↓reduceIte, reduceCtorEq, false_iff]
      rintro ⟨g, hg', hn⟩
      obtain ⟨p, hp, rfl⟩ := List.mem_map.mp hg'
      have : (s.zoneDict.lookup p.1).isSome := by
        rw [← any_key_iff_lookup]
        simp only [List.any_eq_true, decide_eq_true_eq]
        exact ⟨p, hp, rfl⟩
      rw [hn] at this; cases this
    | false => simp only [Bool.false_eq_true, ↓reduceIte, key]


/-! ### abilities -/

theorem addAc_spec {s s1 : State} (hinv : Inv s) {single : Bool} {ab : FF11.AcAbility} (h : addAc s single ab = some s1) :
    s1.zoneDict = s.zoneDict ∧ s1.zoneObjs = s.zoneObjs ∧ s1.st = s.st ∧
    (∃ a zs, s1.findAc ab.ac_number = some a ∧ a.ability = ab ∧ a.zones = zs ∧ a.subs = [] ∧ a.stateSubs = [] ∧
      zonesForAbility s single ab = some zs) ∧
    (∀ k, k ≠ ab.ac_number → s1.findAc k = s.findAc k) := by
  unfold addAc at h
  cases hz : zonesForAbility s single ab with
  | none => simp [hz] at h
  | some zs =>
    cases hm : mkAc ab zs with
    | none => simp [hz, hm] at h
    | some a =>
      simp [hz, hm] at h
      subst h
      obtain ⟨_, _, hzs, hs1, hs2⟩ := mkAc_number hm
      have hab : a.ability = ab := by
        unfold mkAc at hm
        cases h1 : supportedOf Api4.API_MODE_CONTROL_MAPPING ab.ac_mode_support with
        | none => simp [h1] at hm
        | some ms =>
          cases h2 : supportedOf Api4.API_FAN_SPEED_CONTROL_MAPPING ab.fan_speed_support with
          | none => simp [h1, h2] at hm
          | some fs => simp [h1, h2] at hm; subst hm; rfl
      refine ⟨rfl, rfl, rfl, ⟨a, zs, ?_, hab, hzs, hs1, hs2, rfl⟩, ?_⟩
      · simp [State.findAc, lookup_dictInsert]
      · intro k hk
        simp only [State.findAc, lookup_dictInsert, hk, ↓reduceIte]
        cases hl : s.acDict.lookup k with
        | none => rfl
        | some i =>
          obtain ⟨b, hb, _, _⟩ := hinv.acKey _ _ hl
          obtain ⟨hlt, _⟩ := List.getElem?_eq_some_iff.mp hb
          simp [List.getElem?_append_left hlt]

/-- **the air-conditioners the ability message builds**: after a successful `_process_ac_ability_message` (distinct
    AC numbers) every record `ab` has an air-conditioner object under its number, carrying `ab`, with no subscribers
    yet, whose zones are exactly the zone objects of the described group numbers, in the described order -/
theorem processAbility_spec {s : State} (hinv : Inv s) (hnd : (s.zoneDict.map (·.1)).Nodup) (single : Bool)
    (acs : List FF11.AcAbility) (hnum : (acs.map (·.ac_number)).Nodup)
    (hok : (processAbility s single acs).2 = true) (ab : FF11.AcAbility) (hab : ab ∈ acs) :
    (processAbility s single acs).1.zoneDict = s.zoneDict ∧ (processAbility s single acs).1.zoneObjs = s.zoneObjs ∧
    ∃ a, (processAbility s single acs).1.findAc ab.ac_number = some a ∧ a.ability = ab ∧
      a.subs = [] ∧ a.stateSubs = [] ∧
      a.zones.map (zoneIdAt s) = (describedIds (s.zoneDict.map (·.1)) single ab).map some := by
  induction acs generalizing s with
  | nil => cases hab
  | cons x xs ih =>
    simp only [processAbility] at hok ⊢
    cases ha : addAc s single x with
    | none => simp [ha] at hok
    | some s1 =>
      simp only [ha] at hok ⊢
      obtain ⟨e1, e2, _, ⟨a, zs, f1, f2, f3, f4, f5, f6⟩, e4⟩ := addAc_spec hinv ha
      have hinv1 : Inv s1 := Inv_addAc hinv ha
      have hnd1 : (s1.zoneDict.map (·.1)).Nodup := by rw [e1]; exact hnd
      simp only [List.map_cons, List.nodup_cons] at hnum
      -- what the rest of the loop preserves
      have pres : ∀ (l : List FF11.AcAbility) (t : State), Inv t → (processAbility t single l).2 = true →
          (processAbility t single l).1.zoneDict = t.zoneDict ∧ (processAbility t single l).1.zoneObjs = t.zoneObjs ∧
          ∀ k, k ∉ l.map (·.ac_number) → (processAbility t single l).1.findAc k = t.findAc k := by
        intro l
        induction l with
        | nil => intro t _ _; exact ⟨rfl, rfl, fun _ _ => rfl⟩
        | cons y ys ihy =>
          intro t ht hokt
          simp only [processAbility] at hokt ⊢
          cases hy : addAc t single y with
          | none => simp [hy] at hokt
          | some t1 =>
            simp only [hy] at hokt ⊢
            obtain ⟨g1, g2, _, _, g4⟩ := addAc_spec ht hy
            obtain ⟨i1, i2, i3⟩ := ihy t1 (Inv_addAc ht hy) hokt
            refine ⟨i1.trans g1, i2.trans g2, ?_⟩
            intro k hk
            simp only [List.map_cons, List.mem_cons, not_or] at hk
            rw [i3 k hk.2, g4 k hk.1]
      rcases List.mem_cons.mp hab with rfl | hmem
      · obtain ⟨p1, p2, p3⟩ := pres xs s1 hinv1 hok
        refine ⟨p1.trans e1, p2.trans e2, a, ?_, f2, f4, f5, ?_⟩
        · rw [p3 _ hnum.1, f1]
        · rw [f3]; exact zonesForAbility_ids hinv hnd single ab zs f6
      · obtain ⟨q1, q2, b, q3, q4, q5, q6, q7⟩ := ih hinv1 hnd1 hnum.2 hok hmem
        refine ⟨q1.trans e1, q2.trans e2, b, q3, q4, q5, q6, ?_⟩
        have : zoneIdAt s1 = zoneIdAt s := by funext zi; simp [zoneIdAt, e2]
        rw [← this, q7, e1]

/-- the loop stops with `KeyError` exactly when some record describes a group without a name, or its mode /
    fan-speed dictionaries lack a key of the API tables (never for a decoded message) -/
theorem processAbility_fails_iff (s : State) (hinv : Inv s) (single : Bool) (acs : List FF11.AcAbility) :
    (processAbility s single acs).2 = false ↔
      ∃ ab ∈ acs, (∃ g ∈ describedIds (s.zoneDict.map (·.1)) single ab, s.zoneDict.lookup g = none) ∨
        (mkAc ab []).isNone := by
  have mk_indep : ∀ (ab : FF11.AcAbility) (zs : List Nat), (mkAc ab zs).isNone = (mkAc ab []).isNone := by
    intro ab zs
    unfold mkAc
    cases supportedOf Api4.API_MODE_CONTROL_MAPPING ab.ac_mode_support with
    | none => rfl
    | some ms =>
      cases supportedOf Api4.API_FAN_SPEED_CONTROL_MAPPING ab.fan_speed_support with
      | none => rfl
      | some fs => rfl
  induction acs generalizing s with
  | nil => simp [processAbility]
  | cons x xs ih =>
    simp only [processAbility]
    cases ha : addAc s single x with
    | none =>
      simp only [true_iff]
      refine ⟨x, List.mem_cons_self, ?_⟩
      unfold addAc at ha
      cases hz : zonesForAbility s single x with
      | none => exact Or.inl ((zonesForAbility_none_iff single x).mp hz)
      | some zs =>
        cases hm : mkAc x zs with
        | none => right; rw [← mk_indep x zs, hm]; rfl
        | some a => simp [hz, hm] at ha
    | some s1 =>
      simp only
      obtain ⟨e1, _, _, ⟨a, zs, _, _, _, _, _, f6⟩, _⟩ := addAc_spec hinv ha
      refine Iff.trans (ih s1 (Inv_addAc hinv ha)) ?_
      rw [e1]
      have hx : ¬ ((∃ g ∈ describedIds (s.zoneDict.map (·.1)) single x, s.zoneDict.lookup g = none) ∨ (mkAc x []).isNone) := by
        intro hcon
        rcases hcon with hcon | hcon
        · have := (zonesForAbility_none_iff single x).mpr hcon
          rw [f6] at this; cases this
        · unfold addAc at ha
          rw [f6] at ha
          cases hm : mkAc x zs with
          | none => simp [hm] at ha
          | some a' =>
            rw [← mk_indep x zs, hm] at hcon; cases hcon
      constructor
      · rintro ⟨ab, hab, h⟩; exact ⟨ab, List.mem_cons_of_mem _ hab, h⟩
      · rintro ⟨ab, hab, h⟩
        rcases List.mem_cons.mp hab with rfl | hm
        · exact absurd h hx
        · exact ⟨ab, hm, h⟩

theorem keys_dictInsert {β} (d : List (Nat × β)) (k : Nat) (v : β) :
    (dictInsert d k v).map (·.1) = if k ∈ d.map (·.1) then d.map (·.1) else d.map (·.1) ++ [k] := by
  unfold dictInsert
  by_cases h : k ∈ d.map (·.1)
  · have hany : d.any (fun p => decide (p.1 = k)) = true := by
      obtain ⟨p, hp, rfl⟩ := List.mem_map.mp h
      exact List.any_eq_true.mpr ⟨p, hp, by simp⟩
    simp only [hany, ↓reduceIte, h, List.map_map]
    apply List.map_congr_left
    intro p _
    by_cases hp : p.1 = k <;> simp [hp]
  · have hany : d.any (fun p => decide (p.1 = k)) = false := by
      apply Bool.eq_false_iff.mpr
      intro hcon
      obtain ⟨p, hp, hk⟩ := List.any_eq_true.mp hcon
      exact h (List.mem_map.mpr ⟨p, hp, by simpa using hk⟩)
    simp [hany, h]

theorem nodup_keys_dictInsert {β} (d : List (Nat × β)) (k : Nat) (v : β) (h : (d.map (·.1)).Nodup) :
    ((dictInsert d k v).map (·.1)).Nodup := by
  rw [keys_dictInsert]
  split
  · exact h
  · next hk => exact List.nodup_append.mpr ⟨h, by simp, by intro a ha b hb; simp at hb; subst hb; exact fun e => hk (e ▸ ha)⟩

theorem nodup_keys_processGroupNames (s : State) (names : List (Nat × Bytes)) (h : (s.zoneDict.map (·.1)).Nodup) :
    ((processGroupNames s names).zoneDict.map (·.1)).Nodup := by
  unfold processGroupNames
  induction names generalizing s with
  | nil => exact h
  | cons p ps ih => exact ih (addZone s p) (nodup_keys_dictInsert _ _ _ h)

theorem zoneOf_addZone_self (s : State) (p : Nat × Bytes) : (addZone s p).zoneOf p.1 = some (mkZone p.1 p.2) := by
  simp [State.zoneOf, addZone, lookup_dictInsert]

theorem zoneOf_addZone_other {s : State} (hinv : Inv s) (p : Nat × Bytes) (g : Nat) (hg : g ≠ p.1) :
    (addZone s p).zoneOf g = s.zoneOf g := by
  simp only [State.zoneOf, addZone, lookup_dictInsert, hg, ↓reduceIte]
  cases hl : s.zoneDict.lookup g with
  | none => rfl
  | some i =>
    obtain ⟨z, hz, _⟩ := hinv.zoneKey _ _ hl
    obtain ⟨hlt, _⟩ := List.getElem?_eq_some_iff.mp hz
    simp [List.getElem?_append_left hlt]

theorem zoneOf_processGroupNames_other {s : State} (hinv : Inv s) (names : List (Nat × Bytes)) (g : Nat)
    (hg : g ∉ names.map (·.1)) : (processGroupNames s names).zoneOf g = s.zoneOf g := by
  unfold processGroupNames
  induction names generalizing s with
  | nil => rfl
  | cons p ps ih =>
    simp only [List.map_cons, List.mem_cons, not_or] at hg
    rw [List.foldl_cons, ih (Inv_addZone hinv p) hg.2, zoneOf_addZone_other hinv p g hg.1]

/-- **the zones the names message builds**: every named group (distinct numbers) gets a fresh zone object with
    that group number, that name and the constructor's default status -/
theorem processGroupNames_spec {s : State} (hinv : Inv s) (names : List (Nat × Bytes))
    (hnd : (names.map (·.1)).Nodup) (p : Nat × Bytes) (hp : p ∈ names) :
    (processGroupNames s names).zoneOf p.1 = some (mkZone p.1 p.2) := by
  induction names generalizing s with
  | nil => cases hp
  | cons q qs ih =>
    simp only [List.map_cons, List.nodup_cons] at hnd
    rcases List.mem_cons.mp hp with rfl | hm
    · show (processGroupNames (addZone s p) qs).zoneOf p.1 = _
      rw [zoneOf_processGroupNames_other (Inv_addZone hinv p) qs p.1 hnd.1, zoneOf_addZone_self]
    · exact ih (Inv_addZone hinv q) hnd.2 hm

/-- from an empty zone dictionary the dictionary's keys are the named groups, in message order -/
theorem keys_processGroupNames_fresh (s : State) (h0 : s.zoneDict = []) (names : List (Nat × Bytes))
    (hnd : (names.map (·.1)).Nodup) : (processGroupNames s names).zoneDict.map (·.1) = names.map (·.1) := by
  have gen : ∀ (names : List (Nat × Bytes)) (t : State), (names.map (·.1)).Nodup →
      (∀ k ∈ names.map (·.1), k ∉ t.zoneDict.map (·.1)) →
      (processGroupNames t names).zoneDict.map (·.1) = t.zoneDict.map (·.1) ++ names.map (·.1) := by
    intro names
    induction names with
    | nil => intro t _ _; simp [processGroupNames]
    | cons q qs ih =>
      intro t hn hd
      simp only [List.map_cons, List.nodup_cons] at hn
      have hq : q.1 ∉ t.zoneDict.map (·.1) := hd q.1 (by simp)
      have hk : (addZone t q).zoneDict.map (·.1) = t.zoneDict.map (·.1) ++ [q.1] := by
        simp only [addZone, keys_dictInsert, hq, ↓reduceIte]
      show (processGroupNames (addZone t q) qs).zoneDict.map (·.1) = _
      rw [ih (addZone t q) hn.2, hk]
      · simp
      · intro k hk' hmem
        rw [hk] at hmem
        rcases List.mem_append.mp hmem with h1 | h1
        · exact hd k (by simp [hk']) h1
        · simp at h1; subst h1; exact hn.1 hk'
  rw [gen names s hnd (by simp [h0]), h0]
  simp

theorem map_set_same {α β} (f : α → β) (l : List α) (i : Nat) (a a' : α) (h : l[i]? = some a) (hf : f a' = f a) :
    (l.set i a').map f = l.map f := by
  apply List.ext_getElem?
  intro j
  obtain ⟨hlt, hget⟩ := List.getElem?_eq_some_iff.mp h
  simp only [List.getElem?_map, List.getElem?_set]
  by_cases hij : i = j
  · subst hij; simp [hlt, h, hf, hget]
  · simp [hij]

/-- the installation as the API exposes it: which numbers exist, each zone object's id and name, each
    air-conditioner object's id, ability record and zone list -/
structure Shape where
  zoneDict : List (Nat × Nat)
  acDict : List (Nat × Nat)
  zones : List (Nat × Bytes)
  acs : List (Nat × FF11.AcAbility × List Nat)

def shape (s : State) : Shape :=
  { zoneDict := s.zoneDict, acDict := s.acDict
    zones := s.zoneObjs.map fun z => (z.status.group_number, z.name)
    acs := s.acObjs.map fun a => (a.status.ac_number, a.ability, a.zones) }

theorem shape_setAc {s : State} (hinv : Inv s) (k : Nat) (a a' : AcObj) (hf : s.findAc k = some a)
    (h : (a'.status.ac_number, a'.ability, a'.zones) = (a.status.ac_number, a.ability, a.zones)) :
    shape (s.setAc k a') = shape s := by
  unfold State.setAc
  cases hl : s.acDict.lookup k with
  | none => rfl
  | some i =>
    have hi : s.acObjs[i]? = some a := by simpa [State.findAc, hl] using hf
    simp only [shape]
    rw [map_set_same _ _ _ _ _ hi h]

theorem shape_setZone {s : State} (hinv : Inv s) (k : Nat) (z z' : ZoneObj) (hf : s.zoneOf k = some z)
    (h : (z'.status.group_number, z'.name) = (z.status.group_number, z.name)) :
    shape (s.setZone k z') = shape s := by
  unfold State.setZone
  cases hl : s.zoneDict.lookup k with
  | none => rfl
  | some i =>
    have hi : s.zoneObjs[i]? = some z := by simpa [State.zoneOf, hl] using hf
    simp only [shape]
    rw [map_set_same _ _ _ _ _ hi h]

theorem shape_updateAcStatus {s : State} (hinv : Inv s) (r : X2D.AcStatusData) : shape (updateAcStatus s r).1 = shape s := by
  unfold updateAcStatus
  cases hf : s.findAc r.ac_number with
  | none => rfl
  | some a =>
    simp only
    split
    · rfl
    · exact shape_setAc hinv _ a _ hf (by simp [(hinv.findAc_number hf).1])

theorem shape_updateAcTimer {s : State} (hinv : Inv s) (r : AcTimerStatusData) : shape (updateAcTimer s r).1 = shape s := by
  unfold updateAcTimer
  cases hf : s.findAc r.ac_number with
  | none => rfl
  | some a =>
    simp only
    split
    · rfl
    · exact shape_setAc hinv _ a _ hf rfl

theorem shape_updateErrInfo {s : State} (hinv : Inv s) (e : FF10.AcErrorInformationMessage) :
    shape (updateErrInfo s e).1 = shape s := by
  unfold updateErrInfo
  cases hf : s.findAc e.ac_number with
  | none => rfl
  | some a =>
    simp only
    split
    · rfl
    · exact shape_setAc hinv _ a _ hf rfl

theorem shape_updateGroupStatus {s : State} (hinv : Inv s) (g : X2B.GroupStatusData) :
    shape (updateGroupStatus s g).1 = shape s := by
  unfold updateGroupStatus
  cases hf : s.zoneOf g.group_number with
  | none => rfl
  | some z =>
    simp only
    split
    · rfl
    · exact shape_setZone hinv _ z _ hf (by simp [hinv.zoneOf_number hf])

theorem shape_foldEv {α} (f : State → α → State × List Ev) (hI : ∀ s x, Inv s → Inv (f s x).1)
    (hs : ∀ s x, Inv s → shape (f s x).1 = shape s) (s : State) (hinv : Inv s) (l : List α) :
    shape (foldEv f s l).1 = shape s := by
  induction l generalizing s with
  | nil => rfl
  | cons x xs ih =>
    show shape (foldEv f (f s x).1 xs).1 = _
    rw [ih _ (hI s x hinv), hs s x hinv]

theorem shape_foldStatus {s : State} (hinv : Inv s) (l : List X2D.AcStatusData) : shape (foldEv updateAcStatus s l).1 = shape s :=
  shape_foldEv _ (fun s x h => Inv_updateAcStatus h x) (fun s x h => shape_updateAcStatus h x) s hinv l
theorem shape_foldTimer {s : State} (hinv : Inv s) (l : List AcTimerStatusData) : shape (foldEv updateAcTimer s l).1 = shape s :=
  shape_foldEv _ (fun s x h => Inv_updateAcTimer h x) (fun s x h => shape_updateAcTimer h x) s hinv l
theorem shape_foldGroup {s : State} (hinv : Inv s) (l : List X2B.GroupStatusData) : shape (foldEv updateGroupStatus s l).1 = shape s :=
  shape_foldEv _ (fun s x h => Inv_updateGroupStatus h x) (fun s x h => shape_updateGroupStatus h x) s hinv l

theorem shape_hbOnMessage (s : State) (m : RMsg) : shape (hbOnMessage s m) = shape s := by
  unfold hbOnMessage; split <;> rfl
theorem shape_updateVersion (s : State) (v : FF30.ConsoleVersionMessage) : shape (updateVersion s v).1 = shape s := by
  unfold updateVersion; split <;> rfl
theorem shape_enterConnected (s : State) : shape (enterConnected s).1 = shape s := by
  unfold enterConnected; simp only; rw [hbStart_frame]; rfl

theorem shape_processTimers {s : State} (hinv : Inv s) (l : List AcTimerStatusData) : shape (processTimers s l).1 = shape s := by
  unfold processTimers
  split
  · exact shape_foldTimer hinv l
  · split
    · exact shape_foldTimer hinv l
    · rfl

/-- **once the ability answer has been processed** (state `INIT_AC_STATUS` or later) **no arriving frame changes the
    exposed installation**: the same zone and air-conditioner objects under the same numbers, each zone with its id
    and name, each air-conditioner with its id, ability record and zone list -/
theorem shape_recv {s : State} (hinv : Inv s) (h5 : 5 ≤ stage s.st) (m : RMsg) : shape (recv s m).1 = shape s := by
  unfold recv
  simp only [shape_hbOnMessage]
  split
  · cases m with
    | extended sub =>
      cases sub with
      | consoleVer v =>
        cases v with
        | message v =>
          simp only [onMessage]
          split
          · rfl
          · split
            · exact shape_updateVersion s v
            · rfl
        | request => rfl
      | groupNames n =>
        cases n with
        | message n =>
          simp only [onMessage]
          split
          · next hs => rw [hs] at h5; simp [stage] at h5
          · rfl
        | request r => rfl
      | acAbility a =>
        cases a with
        | ability acs =>
          simp only [onMessage]
          split
          · next hs => rw [hs] at h5; simp [stage] at h5
          · rfl
        | request r => rfl
      | errInfo e =>
        cases e with
        | message e => exact shape_updateErrInfo hinv e
        | request r => rfl
      | quickTimer q => rfl
      | unsupported i r => rfl
    | groupCtrl c => rfl
    | groupStatus g =>
      cases g with
      | request => rfl
      | status l =>
        simp only [onMessage]
        split
        · rw [shape_enterConnected]; exact shape_foldGroup hinv l
        · split
          · exact shape_foldGroup (s := rearmPolls s) ⟨hinv.acKey, hinv.zoneKey⟩ l
          · rfl
    | acCtrl c => rfl
    | acStatus a =>
      cases a with
      | request => rfl
      | status l =>
        simp only [onMessage]
        split
        · exact shape_foldStatus hinv l
        · split
          · exact shape_foldStatus hinv l
          · rfl
    | acTimerCtrl c => exact shape_processTimers hinv _
    | acTimerStatus t =>
      cases t with
      | request => rfl
      | status l => exact shape_processTimers hinv _
    | unsupported i r => rfl
  · rfl

theorem shape_passive_run {s : State} (hinv : Inv s) (hsub : s.subscribed = true) (h5 : 5 ≤ stage s.st)
    (ops : List Op) (hops : ∀ op ∈ ops, passive op = true) : shape (run s ops).1 = shape s := by
  induction ops generalizing s with
  | nil => rfl
  | cons op ops ih =>
    have hp := hops op List.mem_cons_self
    obtain ⟨hsub1, _⟩ := passive_step s hsub op hp
    have hmono := (passive_run s hsub [op] (by intro o ho; simp at ho; subst ho; exact hp)).1
    simp only [run] at hmono
    have hsh : shape (apiStep s op).1 = shape s := by
      cases op with
      | recv m => exact shape_recv hinv h5 m
      | msg mid payload =>
        simp only [apiStep]
        split
        · exact shape_recv hinv h5 _
        · rfl
      | conn up =>
        cases up with
        | true => simp [passive] at hp
        | false => simp only [apiStep, onConn]; split <;> rfl
      | _ => simp [passive] at hp
    simp only [run]
    rw [ih (Inv_apiStep hinv op) hsub1 (by omega) (fun o ho => hops o (List.mem_cons_of_mem _ ho)), hsh]

end PyAirtouch.Lemmas.Api4
