import PyAirtouch.Model.At5.C022
/-! Round trip and length lemmas for the AirTouch 5 AC control codec (0xC022). -/
namespace PyAirtouch.Lemmas.At5C022
open PyAirtouch.Model PyAirtouch.Model.At5.Utils PyAirtouch.Model.At5.C022 PyAirtouch.Gen.At5.XC022AcCtrl

/-- what `struct.pack` produces for a well-formed record -/
def recBytes (c : AcControlData) : Bytes :=
  [c.ac_number % 16 + c.power.toNat % 16 * 16, c.mode.toNat % 16 * 16 + c.fan_speed.toNat % 16,
   (encSetPoint c.set_point).1, (encSetPoint c.set_point).2.toNat]

theorem encRec_length (c : AcControlData) (bs : Bytes) (h : encRec c = .ok bs) : bs.length = recSize := by
  simp only [encRec, bind, Except.bind, pure, Except.pure] at h
  split at h
  · cases h
  · cases h; rfl

theorem encRecs_length (cs : List AcControlData) (bs : Bytes) (h : encRecs cs = .ok bs) :
    bs.length = recSize * cs.length := by
  induction cs generalizing bs with
  | nil => cases h; rfl
  | cons c cs ih =>
    simp only [encRecs, bind, Except.bind, pure, Except.pure] at h
    split at h
    · cases h
    · rename_i b hb
      split at h
      · cases h
      · rename_i bs' hbs'
        cases h
        simp only [List.length_append, List.length_cons, encRec_length c b hb, ih bs' hbs', Nat.mul_add,
          Nat.mul_one, Nat.add_comm]

/-- the announced sizes describe the bytes produced -/
theorem encode_length (m : Msg) (bs : Bytes) (h : encode m = .ok bs) :
    bs.length = nonRepeatSize m + repeatSize m * repeatCount m := by
  simp only [nonRepeatSize, repeatSize, repeatCount, Nat.zero_add]
  exact encRecs_length m.ac_control bs h

theorem encRec_ok (c : AcControlData) (h : WFRec c) : encRec c = .ok (recBytes c) := by
  obtain ⟨_, hs⟩ := h
  rcases c with ⟨n, pw, md, fs, sp⟩
  simp only at hs
  have h4 : packB (encSetPoint sp).2 = .ok (encSetPoint sp).2.toNat := by
    cases sp with
    | none => exact packB_ok (by simp [encSetPoint]) (by simp [encSetPoint])
    | some v =>
      obtain ⟨h1, h2⟩ := hs v rfl
      have hv : v ≠ 0 := by omega
      exact packB_ok (by simp only [encSetPoint, hv, ↓reduceIte, encodeSetPoint]; omega)
        (by simp only [encSetPoint, hv, ↓reduceIte, encodeSetPoint]; omega)
  simp only [encRec, h4, bind, Except.bind, pure, Except.pure, recBytes]

theorem decRec_recBytes (c : AcControlData) (h : WFRec c) (rest : Bytes) :
    decRec (recBytes c ++ rest) = .ok (c, rest) := by
  obtain ⟨hn, hs⟩ := h
  rcases c with ⟨n, pw, md, fs, sp⟩
  simp only at hn hs
  have hp : AcPowerControl.ofNat? (pw.toNat % 16) = some pw := by cases pw <;> rfl
  have hm : AcModeControl.ofNat? (md.toNat % 16) = some md := by cases md <;> rfl
  have hf : AcFanSpeedControl.ofNat? (fs.toNat % 16) = some fs := by cases fs <;> rfl
  simp only [recBytes, List.cons_append, List.nil_append, decRec]
  have e1 : (n % 16 + pw.toNat % 16 * 16) / 16 % 16 = pw.toNat % 16 := by omega
  have e2 : (md.toNat % 16 * 16 + fs.toNat % 16) / 16 % 16 = md.toNat % 16 := by omega
  have e3 : (md.toNat % 16 * 16 + fs.toNat % 16) % 16 = fs.toNat % 16 := by omega
  have e4 : (n % 16 + pw.toNat % 16 * 16) % 16 = n := by omega
  rw [e1, e2, e3, e4, hp, hm, hf]
  cases sp with
  | none => simp [encSetPoint, SET_POINT_UNCHANGED]
  | some v =>
    obtain ⟨h1, h2⟩ := hs v rfl
    have hv : v ≠ 0 := by omega
    simp [encSetPoint, hv, SET_POINT_UNCHANGED, SET_POINT_CHANGE, encodeSetPoint, decodeSetPoint]
    omega

theorem encRecs_ok (cs : List AcControlData) (h : ∀ c ∈ cs, WFRec c) :
    encRecs cs = .ok (cs.flatMap recBytes) := by
  induction cs with
  | nil => rfl
  | cons c cs ih =>
    simp only [encRecs, encRec_ok c (h c (by simp)), ih (fun x hx => h x (by simp [hx])), bind, Except.bind,
      pure, Except.pure, List.flatMap_cons]

theorem decRecs_recBytes (cs : List AcControlData) (h : ∀ c ∈ cs, WFRec c) (rest : Bytes) :
    decRecs cs.length (cs.flatMap recBytes ++ rest) = .ok (cs, rest) := by
  induction cs with
  | nil => rfl
  | cons c cs ih =>
    simp only [List.length_cons, List.flatMap_cons, List.append_assoc, decRecs]
    rw [decRec_recBytes c (h c (by simp))]
    simp only [bind, Except.bind]
    rw [ih (fun x hx => h x (by simp [hx]))]
    rfl

/-- a well-formed message can be encoded (no `struct.error`) -/
theorem encode_ok (m : Msg) (h : WF m) : ∃ bs, encode m = .ok bs :=
  ⟨_, encRecs_ok m.ac_control h⟩

/-- `decode(encode(m), header built from m)` gives `m` back, nothing left over -/
theorem decode_encode (m : Msg) (h : WF m) (rest : Bytes) :
    ∃ bs, encode m = .ok bs ∧
      decode (bs ++ rest) (nonRepeatSize m) (repeatSize m) (repeatCount m) = .ok (m, rest) := by
  refine ⟨_, encRecs_ok m.ac_control h, ?_⟩
  simp only [decode, repeatCount]
  rw [decRecs_recBytes m.ac_control h]
  rfl

/-! ### the run-time well-formedness test decides `WF` -/

theorem wfRecBool_iff (c : AcControlData) : wfRecBool c = true ↔ WFRec c := by
  rcases c with ⟨n, pw, md, fs, sp⟩
  cases sp with
  | none => simp [wfRecBool, WFRec]
  | some v => simp [wfRecBool, WFRec]

theorem wfBool_iff (m : Msg) : wfBool m = true ↔ WF m := by
  simp only [wfBool, WF, List.all_eq_true]
  exact ⟨fun h c hc => (wfRecBool_iff c).1 (h c hc), fun h c hc => (wfRecBool_iff c).2 (h c hc)⟩

end PyAirtouch.Lemmas.At5C022
