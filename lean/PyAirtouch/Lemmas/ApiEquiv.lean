import PyAirtouch.Model.Api4
import PyAirtouch.Model.Api5
import PyAirtouch.Lemmas.SpecCmd
import PyAirtouch.Lemmas.Api4Install
import PyAirtouch.Lemmas.Api5
/-!
# C19: the unified API over AirTouch 4 and AirTouch 5 — common abstract description, embeddings, equal attributes,
related states, requests

`Model/Api4.lean` and `Model/Api5.lean` are two independent state machines.  This file relates them.

## 1. what both protocols can express

* `AbsAcInfo` (the AC ability), `AbsAcStatus`, the timer record (`TimerCommon.AcTimerStatusData`, literally the same type
  in both models), the error text; bundled as `AbsAc`.
* `AbsZoneStatus` and the name; bundled as `AbsZone`.
* the embeddings `….to4` / `….to5` into the record types of the two message models.
  AirTouch 5: cool limits = heat limits = the pair, set-points in tenths (`10 * whole degrees`), `bypass_active = false`,
  `turbo_active = false`, Intelligent Auto not advertised.  AirTouch 4: `supports_turbo` = the flag, no group bitmap
  (`groups = none`: the zones of an AC are `start_group … start_group + group_count - 1` as in AirTouch 5).
* `….WF`: the side conditions under which the description is *transmittable* in both wire formats:
  AC number 0 … 3 (AirTouch 4 has four ACs), zone numbers 0 … 15 (sixteen groups), names that fit AirTouch 4's fixed
  fields (16 / 8 bytes, no NUL, UTF-8), set-points and limits 10 … 35 °C (AirTouch 5 cannot encode below 10.0 or above
  35.5 °C, AirTouch 4 has six bits of whole degrees), temperatures -50.0 … 154.7 / 150.0 °C, a zone set-point exactly
  when there is a sensor and a zone temperature only with a sensor (the AirTouch 4 / 5 status decoders), error code in
  16 bits, timer hour / minute in 5 / 6 bits.  `…_expressible`: under them the embedded records satisfy the `WFRec` of
  both message models (the exact round-trip domain of the codecs).
  None of the *attribute* / *state* / *request* theorems needs `WF` (they hold for every abstract value); `WF` is needed
  only to take the statements to the wire (`ac_set_point_wf`, `…_on_the_wire`).

## 2. equal attributes

`IsAt4Ac a o` / `IsAt5Ac a o` / `IsAt4Zone z o` / `IsAt5Zone z o`: the API object `o` holds the embedded records of the
abstract entity.  `ac_attributes_at4` / `ac_attributes_at5` / `zone_attributes_at4` / `zone_attributes_at5`: every getter
of the models gives the abstract value (`AbsAc.powerState`, …).
`ZoneView` / `AcView` / `AtView` are the common projections of the models' VIEW (`zoneView4` … are built from the models'
getters, field by field as `Api4.viewZone` / `Api5.viewZone` …; `viewZone4_render` … `viewAt5_render` show that the VIEW
text of either model is a rendering of the projection).

Attributes left out of the projection (they are in the VIEW text of both models, as parameters of `render…`):
* `supported_power_controls` — documented difference (away / sleep), `supported_power_controls_documented_difference`;
* `target_temperature_resolution` — documented difference (1.0 vs 0.1), `resolution_documented_difference`;
* `model` — AIRTOUCH_4 / AIRTOUCH_5 by definition.
Attributes of AirTouch 5 that the common description fixes (documented differences, not expressible in AirTouch 4):
away / sleep power states, Intelligent Auto fan speeds, `BYPASS` spill state, separate cool / heat limits
(`power_state_documented_difference`, `intelligent_auto_documented_difference`, `bypass_documented_difference`,
`per_mode_limits_documented_difference`).
Attribute kept with a *stated* asymmetry:
* zone `supported_power_states`: AirTouch 5 has no turbo-support report and always offers TURBO; equal iff the abstract
  flag is set (`zone_supported_power_states_iff`, `zone_supported_power_states_needs_turbo`).  Not among the documented
  differences.  In the projections this is `ZoneView.allTurbo`.

## 3. related states

`HeapRel` / `Rel`; `view_rel` (what it means for the VIEW); `onMessage_rel` / `step_rel` (one embedded console message,
any kind, any handshake state); `rel_after_init` (base); `run_rel`, `fresh_run_rel`, `fresh_run_view` (whole runs).
Side condition `AbsMsg.Admissible` / `AdmissibleRun` (single-AC ability messages), `handshake_admissible`.
Not covered: `shutdown`, connection loss / re-connection, the clock (`adv`), subscriptions and the notifications - the
relation says nothing about timers, the heartbeat manager or subscriber sets.

## 4. requests

`SameOutcome` / `SameMeaning` / `AcCmdCorr` / `ZoneCmdCorr` and the word maps `acPower45` …; `ac_set_power_alike`,
`ac_set_mode_alike`, `ac_set_fan_speed_alike`, `ac_set_target_temperature_alike`, `zone_set_power_alike`,
`zone_set_damper_alike`, `zone_set_target_temperature_alike`; the `…_documented_difference` theorems; the wire level
(`ac_same_meaning_on_the_wire`, `zone_same_meaning_on_the_wire`, `zone_set_point_wire_asymmetry`).
Not covered: the quick-timer calls and `check_for_updates` (same code in both generations).
-/
set_option linter.unusedVariables false
set_option linter.unusedSimpArgs false
namespace PyAirtouch.Lemmas.ApiEquiv
open PyAirtouch PyAirtouch.Model PyAirtouch.Gen
open PyAirtouch.Model.TimerCommon (AcTimerState AcTimerStatusData)
open PyAirtouch.Lemmas.SpecCmd

/-! ## 1. the common abstract description -/

/-- the AC modes a status report can carry in both protocols -/
inductive AbsMode
  | AUTO | HEAT | DRY | FAN | COOL | AUTO_HEAT | AUTO_COOL
deriving DecidableEq, Repr

/-- the seven fan speeds both protocols know -/
inductive AbsFan
  | AUTO | QUIET | LOW | MEDIUM | HIGH | POWERFUL | TURBO
deriving DecidableEq, Repr

def AbsMode.to4 : AbsMode → Gen.At4.X2DAcStatus.AcMode
  | .AUTO => .AUTO | .HEAT => .HEAT | .DRY => .DRY | .FAN => .FAN | .COOL => .COOL
  | .AUTO_HEAT => .AUTO_HEAT | .AUTO_COOL => .AUTO_COOL

def AbsMode.to5 : AbsMode → Gen.At5.XC023AcStatus.AcMode
  | .AUTO => .AUTO | .HEAT => .HEAT | .DRY => .DRY | .FAN => .FAN | .COOL => .COOL
  | .AUTO_HEAT => .AUTO_HEAT | .AUTO_COOL => .AUTO_COOL

/-- `selected_mode`: the automatic variants are AUTO -/
def AbsMode.selected : AbsMode → ApiEnums.AcMode
  | .AUTO | .AUTO_HEAT | .AUTO_COOL => .AUTO
  | .HEAT => .HEAT | .DRY => .DRY | .FAN => .FAN | .COOL => .COOL

/-- `active_mode`: the automatic variants name the running mode -/
def AbsMode.active : AbsMode → ApiEnums.AcMode
  | .AUTO => .AUTO | .AUTO_HEAT => .HEAT | .AUTO_COOL => .COOL
  | .HEAT => .HEAT | .DRY => .DRY | .FAN => .FAN | .COOL => .COOL

def AbsFan.to4 : AbsFan → Gen.At4.X2DAcStatus.AcFanSpeed
  | .AUTO => .AUTO | .QUIET => .QUIET | .LOW => .LOW | .MEDIUM => .MEDIUM | .HIGH => .HIGH
  | .POWERFUL => .POWERFUL | .TURBO => .TURBO

def AbsFan.to5 : AbsFan → Gen.At5.XC023AcStatus.AcFanSpeed
  | .AUTO => .AUTO | .QUIET => .QUIET | .LOW => .LOW | .MEDIUM => .MEDIUM | .HIGH => .HIGH
  | .POWERFUL => .POWERFUL | .TURBO => .TURBO

/-- the member of the unified enum -/
def AbsFan.api : AbsFan → ApiEnums.AcFanSpeed
  | .AUTO => .AUTO | .QUIET => .QUIET | .LOW => .LOW | .MEDIUM => .MEDIUM | .HIGH => .HIGH
  | .POWERFUL => .POWERFUL | .TURBO => .TURBO

def AbsFan.all : List AbsFan := [.AUTO, .QUIET, .LOW, .MEDIUM, .HIGH, .POWERFUL, .TURBO]

theorem AbsMode.to4_inj {a b : AbsMode} (h : a.to4 = b.to4) : a = b := by cases a <;> cases b <;> first | rfl | cases h
theorem AbsMode.to5_inj {a b : AbsMode} (h : a.to5 = b.to5) : a = b := by cases a <;> cases b <;> first | rfl | cases h
theorem AbsFan.to4_inj {a b : AbsFan} (h : a.to4 = b.to4) : a = b := by cases a <;> cases b <;> first | rfl | cases h
theorem AbsFan.to5_inj {a b : AbsFan} (h : a.to5 = b.to5) : a = b := by cases a <;> cases b <;> first | rfl | cases h
theorem AbsFan.api_inj {a b : AbsFan} (h : a.api = b.api) : a = b := by cases a <;> cases b <;> first | rfl | cases h

/-- what the ability report says about an AC (static) -/
structure AbsAcInfo where
  number : Nat
  name : Bytes
  /-- supported modes: any subset of the five unified modes (membership is what counts) -/
  modes : List ApiEnums.AcMode
  /-- supported fan speeds: any subset of the seven common speeds -/
  fans : List AbsFan
  /-- the one pair of set-point limits, whole degrees -/
  minSetPoint : Nat
  maxSetPoint : Nat
  /-- the zones of this AC: `firstZone … firstZone + zoneCount - 1` -/
  firstZone : Nat
  zoneCount : Nat
deriving DecidableEq, Repr

/-- what an AC status report says -/
structure AbsAcStatus where
  number : Nat
  powerOn : Bool
  mode : AbsMode
  fan : AbsFan
  /-- whole degrees -/
  setPoint : Nat
  /-- tenths of a degree -/
  temperature : Int
  spill : Bool
  timerSet : Bool
  errorCode : Nat
deriving DecidableEq, Repr

structure AbsAc where
  info : AbsAcInfo
  status : AbsAcStatus
  /-- the two quick timers (`ac_number`, `on_timer`, `off_timer`): one type for both generations -/
  timers : AcTimerStatusData
  errText : Option Bytes
deriving DecidableEq, Repr

/-- what a zone (group) status report says -/
structure AbsZoneStatus where
  number : Nat
  power : ApiEnums.ZonePowerState
  method : ApiEnums.ZoneControlMethod
  damper : Nat
  /-- whole degrees; `none` = the protocol's "invalid set-point" code -/
  setPoint : Option Nat
  sensor : Bool
  /-- tenths; `none` = not available -/
  temperature : Option Int
  batteryLow : Bool
  spill : Bool
  /-- turbo supported (AirTouch 4 reports it; AirTouch 5 has no such report) -/
  turbo : Bool
deriving DecidableEq, Repr

structure AbsZone where
  name : Bytes
  status : AbsZoneStatus
deriving DecidableEq, Repr

/-! ### embeddings -/

def AbsAcInfo.to4 (i : AbsAcInfo) : At4.FF11.AcAbility :=
  { ac_number := i.number, ac_name := i.name
    ac_mode_support := [(.AUTO, i.modes.contains .AUTO), (.HEAT, i.modes.contains .HEAT), (.DRY, i.modes.contains .DRY),
      (.FAN, i.modes.contains .FAN), (.COOL, i.modes.contains .COOL), (.UNCHANGED, true)]
    fan_speed_support := [(.AUTO, i.fans.contains .AUTO), (.QUIET, i.fans.contains .QUIET), (.LOW, i.fans.contains .LOW),
      (.MEDIUM, i.fans.contains .MEDIUM), (.HIGH, i.fans.contains .HIGH), (.POWERFUL, i.fans.contains .POWERFUL),
      (.TURBO, i.fans.contains .TURBO), (.UNCHANGED, true)]
    min_set_point := i.minSetPoint, max_set_point := i.maxSetPoint
    groups := none, start_group := i.firstZone, group_count := i.zoneCount }

def AbsAcInfo.to5 (i : AbsAcInfo) : At5.FF11.AcAbility :=
  { ac_number := i.number, ac_name := i.name, start_zone := i.firstZone, zone_count := i.zoneCount
    ac_mode_support := [(.AUTO, i.modes.contains .AUTO), (.HEAT, i.modes.contains .HEAT), (.DRY, i.modes.contains .DRY),
      (.FAN, i.modes.contains .FAN), (.COOL, i.modes.contains .COOL), (.UNCHANGED, true)]
    fan_speed_support := [(.AUTO, i.fans.contains .AUTO), (.QUIET, i.fans.contains .QUIET), (.LOW, i.fans.contains .LOW),
      (.MEDIUM, i.fans.contains .MEDIUM), (.HIGH, i.fans.contains .HIGH), (.POWERFUL, i.fans.contains .POWERFUL),
      (.TURBO, i.fans.contains .TURBO), (.INTELLIGENT_AUTO, false), (.UNCHANGED, true)]
    min_cool_set_point := i.minSetPoint, max_cool_set_point := i.maxSetPoint
    min_heat_set_point := i.minSetPoint, max_heat_set_point := i.maxSetPoint }

def AbsAcStatus.to4 (s : AbsAcStatus) : At4.X2D.AcStatusData :=
  { ac_number := s.number, power_state := if s.powerOn then .ON else .OFF, mode := s.mode.to4, fan_speed := s.fan.to4
    spill_active := s.spill, timer_set := s.timerSet, set_point := s.setPoint, temperature := s.temperature
    error_code := s.errorCode }

def AbsAcStatus.to5 (s : AbsAcStatus) : At5.C023.AcStatusData :=
  { ac_number := s.number, power_state := if s.powerOn then .ON else .OFF, mode := s.mode.to5, fan_speed := s.fan.to5
    turbo_active := false, bypass_active := false, spill_active := s.spill, timer_set := s.timerSet
    set_point := 10 * (s.setPoint : Int), temperature := s.temperature, error_code := s.errorCode }

def zonePower4 : ApiEnums.ZonePowerState → Gen.At4.X2BGroupStatus.GroupPowerState
  | .OFF => .OFF | .ON => .ON | .TURBO => .TURBO
def zonePower5 : ApiEnums.ZonePowerState → Gen.At5.XC021ZoneStatus.ZonePowerState
  | .OFF => .OFF | .ON => .ON | .TURBO => .TURBO
def zoneMethod4 : ApiEnums.ZoneControlMethod → Gen.At4.X2BGroupStatus.GroupControlMethod
  | .DAMPER => .DAMPER | .TEMPERATURE => .TEMPERATURE
def zoneMethod5 : ApiEnums.ZoneControlMethod → Gen.At5.XC021ZoneStatus.ZoneControlMethod
  | .DAMPER => .DAMPER | .TEMPERATURE => .TEMPERATURE

def AbsZoneStatus.to4 (z : AbsZoneStatus) : At4.X2B.GroupStatusData :=
  { group_number := z.number, power_state := zonePower4 z.power, control_method := zoneMethod4 z.method
    spill_active := z.spill, supports_turbo := z.turbo, has_sensor := z.sensor
    battery_status := if z.batteryLow then .LOW else .NORMAL, temperature := z.temperature
    damper_percentage := z.damper, set_point := z.setPoint }

def AbsZoneStatus.to5 (z : AbsZoneStatus) : At5.C021.ZoneStatusData :=
  { zone_number := z.number, power_state := zonePower5 z.power, spill_active := z.spill
    control_method := zoneMethod5 z.method, has_sensor := z.sensor
    battery_status := if z.batteryLow then .LOW else .NORMAL, temperature := z.temperature
    damper_percentage := z.damper, set_point := z.setPoint.map fun (sp : Nat) => 10 * (sp : Int) }

/-- the entry of the names message -/
def AbsZone.nameEntry (z : AbsZone) : Nat × Bytes := (z.status.number, z.name)

theorem AbsAcStatus.to4_inj {a b : AbsAcStatus} (h : a.to4 = b.to4) : a = b := by
  rcases a with ⟨n, p, m, f, sp, t, sl, ts, e⟩
  rcases b with ⟨n', p', m', f', sp', t', sl', ts', e'⟩
  simp only [AbsAcStatus.to4, At4.X2D.AcStatusData.mk.injEq] at h
  obtain ⟨h1, h2, h3, h4, h5, h6, h7, h8, h9⟩ := h
  have hp : p = p' := by cases p <;> cases p' <;> simp_all
  rw [AbsMode.to4_inj h3, AbsFan.to4_inj h4, h1, hp, h5, h6, h7, h8, h9]

theorem AbsAcStatus.to5_inj {a b : AbsAcStatus} (h : a.to5 = b.to5) : a = b := by
  rcases a with ⟨n, p, m, f, sp, t, sl, ts, e⟩
  rcases b with ⟨n', p', m', f', sp', t', sl', ts', e'⟩
  simp only [AbsAcStatus.to5, At5.C023.AcStatusData.mk.injEq] at h
  obtain ⟨h1, h2, h3, h4, -, -, h5, h6, h7, h8, h9⟩ := h
  have hp : p = p' := by cases p <;> cases p' <;> simp_all
  have hsp : sp = sp' := by omega
  rw [AbsMode.to5_inj h3, AbsFan.to5_inj h4, h1, hp, h5, h6, hsp, h8, h9]

/-- the two embeddings of an AC status identify the same abstract values -/
theorem AbsAcStatus.to4_eq_iff_to5_eq (a b : AbsAcStatus) : a.to4 = b.to4 ↔ a.to5 = b.to5 :=
  ⟨fun h => by rw [AbsAcStatus.to4_inj h], fun h => by rw [AbsAcStatus.to5_inj h]⟩

/-! ### side conditions: transmittable in both wire formats -/

/-- a name both ability codecs carry (16-byte field, NUL-terminated, UTF-8) -/
def AcNameWF (s : Bytes) : Prop := s.length ≤ 16 ∧ (∀ b ∈ s, b ≠ 0) ∧ utf8Valid s = true ∧ AllBytes s

/-- AC numbers 0 … 3 (AirTouch 4 has four ACs; its control message carries the number in six bits, AirTouch 5 in four);
    limits and set-points within 10 … 35 °C (AirTouch 5 cannot encode less than 10.0 or more than 35.5 °C; AirTouch 4
    has six bits); zones 0 … 15 (AirTouch 4 has sixteen groups) -/
structure AbsAcInfo.WF (i : AbsAcInfo) : Prop where
  number : i.number < 4
  name : AcNameWF i.name
  limits : 10 ≤ i.minSetPoint ∧ i.minSetPoint ≤ i.maxSetPoint ∧ i.maxSetPoint ≤ 35
  zones : i.firstZone + i.zoneCount ≤ 16

structure AbsAcStatus.WF (s : AbsAcStatus) : Prop where
  number : s.number < 4
  setPoint : 10 ≤ s.setPoint ∧ s.setPoint ≤ 35
  temperature : -500 ≤ s.temperature ∧ s.temperature ≤ 1547
  errorCode : s.errorCode < 65536

/-- hour in five bits, minute in six (the wire field of both generations) -/
def TimersWF (t : AcTimerStatusData) : Prop :=
  t.ac_number < 4 ∧ TimerCommon.WFState t.on_timer ∧ TimerCommon.WFState t.off_timer

/-- a zone status both codecs carry: a set-point exactly when there is a sensor (AirTouch 4 decoder), a temperature
    only with a sensor, set-point 10 … 35 °C, temperature -50.0 … 150.0 °C, percentage 0 … 100; `turbo` is *not*
    constrained here (AirTouch 5 simply does not transmit it) -/
structure AbsZoneStatus.WF (z : AbsZoneStatus) : Prop where
  number : z.number < 16
  damper : z.damper ≤ 100
  withSensor : z.sensor = true → ∃ sp, z.setPoint = some sp ∧ 10 ≤ sp ∧ sp ≤ 35
  noSensor : z.sensor = false → z.setPoint = none ∧ z.temperature = none
  temperature : ∀ t, z.temperature = some t → -500 ≤ t ∧ t ≤ 1500

/-- a zone name both names codecs carry (AirTouch 4: 8-byte field, NUL-terminated) -/
def ZoneNameWF (s : Bytes) : Prop := s.length ≤ 8 ∧ (∀ b ∈ s, b ≠ 0) ∧ utf8Valid s = true ∧ AllBytes s

structure AbsAc.WF (a : AbsAc) : Prop where
  info : a.info.WF
  status : a.status.WF
  timers : TimersWF a.timers
  sameNumber : a.status.number = a.info.number ∧ a.timers.ac_number = a.info.number

structure AbsZone.WF (z : AbsZone) : Prop where
  name : ZoneNameWF z.name
  status : z.status.WF

theorem acInfo_expressible (i : AbsAcInfo) (h : i.WF) : At4.FF11.WFRec i.to4 ∧ At5.FF11.WFRec i.to5 := by
  obtain ⟨h1, h2, ⟨h3, h4, h5⟩, h6⟩ := h
  refine ⟨⟨by show i.number < 256; omega, by show i.firstZone < 256; omega, by show i.zoneCount < 256; omega,
      by show i.minSetPoint < 256; omega, by show i.maxSetPoint < 256; omega, h2, ⟨rfl, rfl⟩, ⟨rfl, rfl⟩,
      by intro gs hgs; cases hgs⟩,
    ⟨by show i.number < 256; omega, by show i.firstZone < 256; omega, by show i.zoneCount < 256; omega,
      by show i.minSetPoint < 256; omega, by show i.maxSetPoint < 256; omega, by show i.minSetPoint < 256; omega,
      by show i.maxSetPoint < 256; omega, h2, ⟨rfl, rfl⟩, ⟨rfl, rfl⟩⟩⟩

theorem acStatus_expressible (s : AbsAcStatus) (h : s.WF) : At4.X2D.WFRec s.to4 ∧ At5.C023.WFRec s.to5 := by
  obtain ⟨h1, ⟨h2, h3⟩, ⟨h4, h5⟩, h6⟩ := h
  refine ⟨⟨by show s.number < 64; omega, by show s.setPoint < 64; omega, h6, h4, h5⟩,
    ⟨by show s.number < 16; omega, by show (100 : Int) ≤ 10 * (s.setPoint : Int); omega,
      by show 10 * (s.setPoint : Int) ≤ 355; omega, h4, h5, h6⟩⟩

theorem zoneStatus_expressible (z : AbsZoneStatus) (h : z.WF) : At4.X2B.WFRec z.to4 ∧ At5.C021.WFRec z.to5 := by
  obtain ⟨h1, h2, h3, h4, h5⟩ := h
  refine ⟨⟨by show z.number < 64; omega, by show z.damper < 128; omega, ?_, h4, ?_⟩,
    ⟨by show z.number < 64; omega, by show z.damper < 128; omega, ?_, ?_⟩⟩
  · intro hs
    obtain ⟨sp, e, _, _⟩ := h3 hs
    exact ⟨sp, e, by omega⟩
  · intro t ht
    have := h5 t ht
    omega
  · intro sp hsp
    cases hsen : z.sensor with
    | false =>
      have := (h4 hsen).1
      simp [AbsZoneStatus.to5, this] at hsp
    | true =>
      obtain ⟨sp', e, _, _⟩ := h3 hsen
      simp only [AbsZoneStatus.to5, e, Option.map_some, Option.some.injEq] at hsp
      omega
  · intro t ht
    cases hsen : z.sensor with
    | false =>
      have := (h4 hsen).2
      change z.temperature = some t at ht
      rw [this] at ht; cases ht
    | true => exact ⟨hsen, h5 t ht⟩

/-! ## 2. the API objects over embedded records, and their attributes -/

/-- `[api for (api, flag) in … if flag]` -/
def pick {α} (l : List (α × Bool)) : List α := (l.filter (·.2)).map (·.1)

/-- `supported_modes`: the supported ones of the five unified modes, in the order of the enum -/
def AbsAcInfo.supportedModes (i : AbsAcInfo) : List ApiEnums.AcMode :=
  pick [(.AUTO, i.modes.contains .AUTO), (.HEAT, i.modes.contains .HEAT), (.DRY, i.modes.contains .DRY),
    (.FAN, i.modes.contains .FAN), (.COOL, i.modes.contains .COOL)]

/-- `supported_fan_speeds`: the supported ones of the seven common speeds, in the order of the enum -/
def AbsAcInfo.supportedFanSpeeds (i : AbsAcInfo) : List ApiEnums.AcFanSpeed :=
  pick [(.AUTO, i.fans.contains .AUTO), (.QUIET, i.fans.contains .QUIET), (.LOW, i.fans.contains .LOW),
    (.MEDIUM, i.fans.contains .MEDIUM), (.HIGH, i.fans.contains .HIGH), (.POWERFUL, i.fans.contains .POWERFUL),
    (.TURBO, i.fans.contains .TURBO)]


theorem mem_pick {α} (l : List (α × Bool)) (a : α) : a ∈ pick l ↔ (a, true) ∈ l := by
  simp only [pick, List.mem_map, List.mem_filter]
  constructor
  · rintro ⟨⟨x, b⟩, ⟨h1, h2⟩, rfl⟩
    simp only at h2; subst h2; exact h1
  · intro h; exact ⟨(a, true), ⟨h, rfl⟩, rfl⟩

theorem mem_supportedModes (i : AbsAcInfo) (m : ApiEnums.AcMode) : m ∈ i.supportedModes ↔ m ∈ i.modes := by
  rw [AbsAcInfo.supportedModes, mem_pick, ← List.contains_iff_mem (as := i.modes)]
  cases m <;> simp

theorem mem_supportedFanSpeeds (i : AbsAcInfo) (f : AbsFan) : f.api ∈ i.supportedFanSpeeds ↔ f ∈ i.fans := by
  rw [AbsAcInfo.supportedFanSpeeds, mem_pick, ← List.contains_iff_mem (as := i.fans)]
  cases f <;> simp [AbsFan.api]

/-- Intelligent Auto is never among the supported speeds of an embedded ability -/
theorem intelligentAuto_not_supported (i : AbsAcInfo) : ApiEnums.AcFanSpeed.INTELLIGENT_AUTO ∉ i.supportedFanSpeeds := by
  rw [AbsAcInfo.supportedFanSpeeds, mem_pick]
  simp

/-! ### the abstract values of the attributes -/

def AbsAc.powerState (a : AbsAc) : ApiEnums.AcPowerState := if a.status.powerOn then .ON else .OFF
def AbsAc.selectedMode (a : AbsAc) : ApiEnums.AcMode := a.status.mode.selected
def AbsAc.activeMode (a : AbsAc) : ApiEnums.AcMode := a.status.mode.active
/-- `selected_fan_speed` and `active_fan_speed` (no Intelligent Auto in the common description) -/
def AbsAc.fanSpeed (a : AbsAc) : ApiEnums.AcFanSpeed := a.status.fan.api
/-- tenths -/
def AbsAc.currentTemperature (a : AbsAc) : Int := a.status.temperature
/-- tenths -/
def AbsAc.targetTemperature (a : AbsAc) : Int := 10 * (a.status.setPoint : Int)
def AbsAc.minTargetTemperature (a : AbsAc) : Int := 10 * (a.info.minSetPoint : Int)
def AbsAc.maxTargetTemperature (a : AbsAc) : Int := 10 * (a.info.maxSetPoint : Int)
def AbsAc.spillState (a : AbsAc) : ApiEnums.AcSpillState := if a.status.spill then .SPILL else .NONE
def AbsAc.timerState (a : AbsAc) : ApiEnums.AcTimerType → AcTimerState
  | .OFF_TIMER => a.timers.off_timer
  | .ON_TIMER => a.timers.on_timer
/-- `next_quick_timer`: outer `none` = `ValueError` of `datetime.time(hour, minute)`; `some none` = timer disabled -/
def quickTimer (t : AcTimerState) : Option (Option (Nat × Nat)) :=
  if t.disabled then some none else if t.hour < 24 ∧ t.minute < 60 then some (some (t.hour, t.minute)) else none
def AbsAc.errorInfo (a : AbsAc) : Option (Nat × Option Bytes) :=
  if a.status.errorCode ≠ 0 then some (a.status.errorCode, a.errText) else none

def AbsZone.powerState (z : AbsZone) : ApiEnums.ZonePowerState := z.status.power
def AbsZone.controlMethod (z : AbsZone) : ApiEnums.ZoneControlMethod := z.status.method
def AbsZone.batteryStatus (z : AbsZone) : ApiEnums.SensorBatteryStatus := if z.status.batteryLow then .LOW else .NORMAL
/-- tenths -/
def AbsZone.targetTemperature (z : AbsZone) : Option Int := z.status.setPoint.map fun (sp : Nat) => 10 * (sp : Int)
/-- what AirTouch 4 offers -/
def AbsZone.supportedPowerStates (z : AbsZone) : List ApiEnums.ZonePowerState :=
  [.OFF, .ON] ++ (if z.status.turbo then [.TURBO] else [])

/-! ### the objects -/

/-- the AirTouch 4 AC object holds the embedded records of `a` (`supportedModes` / `supportedFanSpeeds` are what the
    constructor computes from the embedded ability: `mkAc_embedded`) -/
structure IsAt4Ac (a : AbsAc) (o : Api4.AcObj) : Prop where
  status : o.status = a.status.to4
  timer : o.timer = a.timers
  errInfo : o.errInfo = a.errText
  ability : o.ability = a.info.to4
  modes : o.supportedModes = a.info.supportedModes
  fans : o.supportedFanSpeeds = a.info.supportedFanSpeeds

structure IsAt5Ac (a : AbsAc) (o : Api5.AcObj) : Prop where
  status : o.status = a.status.to5
  timer : o.timer = a.timers
  errInfo : o.errInfo = a.errText
  ability : o.ability = a.info.to5
  modes : o.supportedModes = a.info.supportedModes
  fans : o.supportedFanSpeeds = a.info.supportedFanSpeeds

structure IsAt4Zone (z : AbsZone) (o : Api4.ZoneObj) : Prop where
  name : o.name = z.name
  status : o.status = z.status.to4

structure IsAt5Zone (z : AbsZone) (o : Api5.ZoneObj) : Prop where
  name : o.name = z.name
  status : o.status = z.status.to5

/-- the status `At4AirConditioner.__init__` / `At5AirConditioner.__init__` start with -/
def AbsAcStatus.initial (n : Nat) : AbsAcStatus :=
  { number := n, powerOn := false, mode := .AUTO, fan := .AUTO, setPoint := 0, temperature := 0, spill := false
    timerSet := false, errorCode := 0 }

def AbsAc.initial (i : AbsAcInfo) : AbsAc :=
  { info := i, status := .initial i.number
    timers := { ac_number := i.number, on_timer := ⟨true, 0, 0⟩, off_timer := ⟨true, 0, 0⟩ }, errText := none }

/-- the status `At4Zone.__init__` / `At5Zone.__init__` start with -/
def AbsZone.initial (n : Nat) (name : Bytes) : AbsZone :=
  { name := name
    status := { number := n, power := .OFF, method := .DAMPER, damper := 0, setPoint := none, sensor := false
                temperature := some 0, batteryLow := false, spill := false, turbo := false } }

theorem supportedOf_modes (i : AbsAcInfo) :
    Api4.supportedOf Api4.API_MODE_CONTROL_MAPPING i.to4.ac_mode_support = some i.supportedModes := by
  simp only [AbsAcInfo.to4, AbsAcInfo.supportedModes]
  generalize i.modes.contains .AUTO = b1; generalize i.modes.contains .HEAT = b2
  generalize i.modes.contains .DRY = b3; generalize i.modes.contains .FAN = b4; generalize i.modes.contains .COOL = b5
  cases b1 <;> cases b2 <;> cases b3 <;> cases b4 <;> cases b5 <;> rfl

theorem supported_modes5 (i : AbsAcInfo) :
    Api5.supported Api5.API_MODE_CONTROL_MAPPING_items i.to5.ac_mode_support = some i.supportedModes := by
  simp only [AbsAcInfo.to5, AbsAcInfo.supportedModes]
  generalize i.modes.contains .AUTO = b1; generalize i.modes.contains .HEAT = b2
  generalize i.modes.contains .DRY = b3; generalize i.modes.contains .FAN = b4; generalize i.modes.contains .COOL = b5
  cases b1 <;> cases b2 <;> cases b3 <;> cases b4 <;> cases b5 <;> rfl

theorem supportedOf_fans (i : AbsAcInfo) :
    Api4.supportedOf Api4.API_FAN_SPEED_CONTROL_MAPPING i.to4.fan_speed_support = some i.supportedFanSpeeds := by
  simp only [AbsAcInfo.to4, AbsAcInfo.supportedFanSpeeds]
  generalize i.fans.contains .AUTO = b1; generalize i.fans.contains .QUIET = b2
  generalize i.fans.contains .LOW = b3; generalize i.fans.contains .MEDIUM = b4; generalize i.fans.contains .HIGH = b5
  generalize i.fans.contains .POWERFUL = b6; generalize i.fans.contains .TURBO = b7
  cases b1 <;> cases b2 <;> cases b3 <;> cases b4 <;> cases b5 <;> cases b6 <;> cases b7 <;> rfl

theorem supported_fans5 (i : AbsAcInfo) :
    Api5.supported Api5.API_FAN_SPEED_CONTROL_MAPPING_items i.to5.fan_speed_support = some i.supportedFanSpeeds := by
  simp only [AbsAcInfo.to5, AbsAcInfo.supportedFanSpeeds]
  generalize i.fans.contains .AUTO = b1; generalize i.fans.contains .QUIET = b2
  generalize i.fans.contains .LOW = b3; generalize i.fans.contains .MEDIUM = b4; generalize i.fans.contains .HIGH = b5
  generalize i.fans.contains .POWERFUL = b6; generalize i.fans.contains .TURBO = b7
  cases b1 <;> cases b2 <;> cases b3 <;> cases b4 <;> cases b5 <;> cases b6 <;> cases b7 <;> rfl

/-- the AirTouch 4 constructor on an embedded ability builds an object holding `AbsAc.initial` -/
theorem mkAc_embedded (i : AbsAcInfo) (zs : List Nat) :
    ∃ o, Api4.mkAc i.to4 zs = some o ∧ IsAt4Ac (.initial i) o ∧ o.zones = zs ∧ o.subs = [] ∧ o.stateSubs = [] := by
  simp only [Api4.mkAc, supportedOf_modes, supportedOf_fans, Option.bind_eq_bind, Option.bind_some, Option.pure_def]
  exact ⟨_, rfl, ⟨rfl, rfl, rfl, rfl, rfl, rfl⟩, rfl, rfl, rfl⟩

/-- the AirTouch 5 constructor on an embedded ability -/
theorem newAc_embedded (i : AbsAcInfo) (zs : List Nat) :
    IsAt5Ac (.initial i) (Api5.newAc i.to5 zs i.supportedModes i.supportedFanSpeeds) :=
  ⟨rfl, rfl, rfl, rfl, rfl, rfl⟩

theorem mkZone_embedded (n : Nat) (name : Bytes) : IsAt4Zone (.initial n name) (Api4.mkZone n name) := ⟨rfl, rfl⟩
theorem newZone_embedded (n : Nat) (name : Bytes) : IsAt5Zone (.initial n name) (Api5.newZone n name) := ⟨rfl, rfl⟩

/-! ### every getter gives the abstract value -/

/-- **AirTouch 4, AC getters**: on an object holding the embedding of `a`, every getter of the model (the terms
    `Api4.viewAc` prints) gives the abstract value -/
theorem ac_attributes_at4 {a : AbsAc} {o : Api4.AcObj} (h : IsAt4Ac a o) :
    o.acId = a.status.number ∧ o.ability.ac_name = a.info.name ∧
    o.supportedModes = a.info.supportedModes ∧ o.supportedFanSpeeds = a.info.supportedFanSpeeds ∧
    o.powerState = .ok a.powerState ∧ o.selectedMode = .ok a.selectedMode ∧ o.activeMode = .ok a.activeMode ∧
    o.fanSpeed = .ok a.fanSpeed ∧
    o.status.temperature = a.currentTemperature ∧ 10 * (o.status.set_point : Int) = a.targetTemperature ∧
    10 * (o.ability.min_set_point : Int) = a.minTargetTemperature ∧
    10 * (o.ability.max_set_point : Int) = a.maxTargetTemperature ∧
    o.spillState = a.spillState ∧
    (∀ tt, o.nextQuickTimer tt = match quickTimer (a.timerState tt) with
      | some v => .ok v
      | none => .error .valueError) ∧
    o.errorInfo = a.errorInfo := by
  obtain ⟨hs, ht, he, hab, hm, hf⟩ := h
  refine ⟨by rw [Api4.AcObj.acId, hs]; rfl, by rw [hab]; rfl, hm, hf, ?_, ?_, ?_, ?_, by rw [hs]; rfl, by rw [hs]; rfl,
    by rw [hab]; rfl, by rw [hab]; rfl, by rw [Api4.AcObj.spillState, hs]; rfl, ?_, ?_⟩
  · rw [Api4.AcObj.powerState, hs]; unfold AbsAc.powerState AbsAcStatus.to4; cases a.status.powerOn <;> rfl
  · rw [Api4.AcObj.selectedMode, hs]; unfold AbsAc.selectedMode AbsAcStatus.to4; cases a.status.mode <;> rfl
  · rw [Api4.AcObj.activeMode, hs]; unfold AbsAc.activeMode AbsAcStatus.to4; cases a.status.mode <;> rfl
  · rw [Api4.AcObj.fanSpeed, hs]; unfold AbsAc.fanSpeed AbsAcStatus.to4; cases a.status.fan <;> rfl
  · intro tt
    have : o.timerState tt = a.timerState tt := by cases tt <;> simp [Api4.AcObj.timerState, AbsAc.timerState, ht]
    simp only [Api4.AcObj.nextQuickTimer, this, quickTimer]
    split
    · rfl
    · split <;> rfl
  · simp only [Api4.AcObj.errorInfo, AbsAc.errorInfo, hs, he, AbsAcStatus.to4]

/-- **AirTouch 5, AC getters** (limits: cool = heat = the pair, so every mode gives the pair; spill state: bypass is
    never reported) -/
theorem ac_attributes_at5 {a : AbsAc} {o : Api5.AcObj} (h : IsAt5Ac a o) :
    o.id = a.status.number ∧ o.ability.ac_name = a.info.name ∧
    o.supportedModes = a.info.supportedModes ∧ o.supportedFanSpeeds = a.info.supportedFanSpeeds ∧
    o.powerState = some a.powerState ∧ o.selectedMode = some a.selectedMode ∧ o.activeMode = some a.activeMode ∧
    o.selectedFanSpeed = some a.fanSpeed ∧ o.activeFanSpeed = some a.fanSpeed ∧
    o.status.temperature = a.currentTemperature ∧ o.status.set_point = a.targetTemperature ∧
    10 * (o.minTarget : Int) = a.minTargetTemperature ∧ 10 * (o.maxTarget : Int) = a.maxTargetTemperature ∧
    o.spillState = a.spillState ∧
    (∀ tt, o.nextQuickTimer tt = match quickTimer (a.timerState tt) with
      | some v => .ok v
      | none => .error "ValueError") ∧
    o.errorInfo = a.errorInfo := by
  obtain ⟨hs, ht, he, hab, hm, hf⟩ := h
  have hmin : o.minTarget = a.info.minSetPoint := by
    simp only [Api5.AcObj.minTarget, hab, AbsAcInfo.to5]; split <;> simp
  have hmax : o.maxTarget = a.info.maxSetPoint := by
    simp only [Api5.AcObj.maxTarget, hab, AbsAcInfo.to5]; split <;> simp
  refine ⟨by rw [Api5.AcObj.id, hs]; rfl, by rw [hab]; rfl, hm, hf, ?_, ?_, ?_, ?_, ?_, by rw [hs]; rfl, by rw [hs]; rfl,
    by rw [hmin]; rfl, by rw [hmax]; rfl, ?_, ?_, ?_⟩
  · rw [Api5.AcObj.powerState, hs]; unfold AbsAc.powerState AbsAcStatus.to5; cases a.status.powerOn <;> rfl
  · rw [Api5.AcObj.selectedMode, hs]; unfold AbsAc.selectedMode AbsAcStatus.to5; cases a.status.mode <;> rfl
  · rw [Api5.AcObj.activeMode, hs]; unfold AbsAc.activeMode AbsAcStatus.to5; cases a.status.mode <;> rfl
  · rw [Api5.AcObj.selectedFanSpeed, hs]; unfold AbsAc.fanSpeed AbsAcStatus.to5; cases a.status.fan <;> rfl
  · rw [Api5.AcObj.activeFanSpeed, hs]; unfold AbsAc.fanSpeed AbsAcStatus.to5; cases a.status.fan <;> rfl
  · rw [Api5.AcObj.spillState, hs]; unfold AbsAc.spillState AbsAcStatus.to5; cases a.status.spill <;> rfl
  · intro tt
    have : o.timerState tt = a.timerState tt := by cases tt <;> simp [Api5.AcObj.timerState, AbsAc.timerState, ht]
    simp only [Api5.AcObj.nextQuickTimer, this, quickTimer]
    split
    · rfl
    · split <;> rfl
  · simp only [Api5.AcObj.errorInfo, AbsAc.errorInfo, hs, he, AbsAcStatus.to5]

/-- **AirTouch 4, zone getters** -/
theorem zone_attributes_at4 {z : AbsZone} {o : Api4.ZoneObj} (h : IsAt4Zone z o) :
    o.zoneId = z.status.number ∧ o.name = z.name ∧ o.supportedPowerStates = z.supportedPowerStates ∧
    o.powerState = .ok z.powerState ∧ o.controlMethod = .ok z.controlMethod ∧ o.batteryStatus = .ok z.batteryStatus ∧
    o.status.has_sensor = z.status.sensor ∧ o.status.temperature = z.status.temperature ∧
    o.status.set_point.map (fun (n : Nat) => 10 * (n : Int)) = z.targetTemperature ∧
    o.status.damper_percentage = z.status.damper ∧ o.status.spill_active = z.status.spill := by
  obtain ⟨hn, hs⟩ := h
  refine ⟨by rw [Api4.ZoneObj.zoneId, hs]; rfl, hn, by rw [Api4.ZoneObj.supportedPowerStates, hs]; rfl, ?_, ?_, ?_,
    by rw [hs]; rfl, by rw [hs]; rfl, by rw [hs]; rfl, by rw [hs]; rfl, by rw [hs]; rfl⟩
  · rw [Api4.ZoneObj.powerState, hs]; unfold AbsZone.powerState AbsZoneStatus.to4; cases z.status.power <;> rfl
  · rw [Api4.ZoneObj.controlMethod, hs]; unfold AbsZone.controlMethod AbsZoneStatus.to4; cases z.status.method <;> rfl
  · rw [Api4.ZoneObj.batteryStatus, hs]; unfold AbsZone.batteryStatus AbsZoneStatus.to4
    cases z.status.batteryLow <;> rfl

/-- **AirTouch 5, zone getters**; `supported_power_states` is the constant full list -/
theorem zone_attributes_at5 {z : AbsZone} {o : Api5.ZoneObj} (h : IsAt5Zone z o) :
    o.id = z.status.number ∧ o.name = z.name ∧ Api5.supportedZonePowerStates = [.OFF, .ON, .TURBO] ∧
    o.powerState = some z.powerState ∧ o.controlMethod = some z.controlMethod ∧ o.batteryStatus = some z.batteryStatus ∧
    o.status.has_sensor = z.status.sensor ∧ o.status.temperature = z.status.temperature ∧
    o.status.set_point = z.targetTemperature ∧
    o.status.damper_percentage = z.status.damper ∧ o.status.spill_active = z.status.spill := by
  obtain ⟨hn, hs⟩ := h
  refine ⟨by rw [Api5.ZoneObj.id, hs]; rfl, hn, rfl, ?_, ?_, ?_,
    by rw [hs]; rfl, by rw [hs]; rfl, by rw [hs]; rfl, by rw [hs]; rfl, by rw [hs]; rfl⟩
  · rw [Api5.ZoneObj.powerState, hs]; unfold AbsZone.powerState AbsZoneStatus.to5; cases z.status.power <;> rfl
  · rw [Api5.ZoneObj.controlMethod, hs]; unfold AbsZone.controlMethod AbsZoneStatus.to5; cases z.status.method <;> rfl
  · rw [Api5.ZoneObj.batteryStatus, hs]; unfold AbsZone.batteryStatus AbsZoneStatus.to5
    cases z.status.batteryLow <;> rfl

/-- `supported_power_states` agrees exactly when the abstract zone supports turbo -/
theorem zone_supported_power_states_iff (z : AbsZone) :
    z.supportedPowerStates = Api5.supportedZonePowerStates ↔ z.status.turbo = true := by
  unfold AbsZone.supportedPowerStates
  cases z.status.turbo <;> decide

/-- an AirTouch 4 group without turbo support: zone 0, off, percentage control, no sensor -/
def exZoneNoTurbo : AbsZone :=
  { name := []
    status := { number := 0, power := .OFF, method := .DAMPER, damper := 0, setPoint := none, sensor := false
                temperature := none, batteryLow := false, spill := false, turbo := false } }

/-- ASYMMETRY (not among the documented differences): an AirTouch 4 group that does not support turbo and the
    equivalent AirTouch 5 zone expose different `supported_power_states` -/
theorem zone_supported_power_states_needs_turbo :
    exZoneNoTurbo.WF ∧ ∀ (o4 : Api4.ZoneObj) (o5 : Api5.ZoneObj), IsAt4Zone exZoneNoTurbo o4 → IsAt5Zone exZoneNoTurbo o5 →
      o4.supportedPowerStates = [.OFF, .ON] ∧ Api5.supportedZonePowerStates = [.OFF, .ON, .TURBO] := by
  refine ⟨⟨⟨by decide, by simp [exZoneNoTurbo], by decide, by simp [exZoneNoTurbo, AllBytes]⟩,
    ⟨by decide, by decide, by simp [exZoneNoTurbo], by simp [exZoneNoTurbo], by simp [exZoneNoTurbo]⟩⟩, ?_⟩
  intro o4 o5 h4 h5
  exact ⟨by rw [(zone_attributes_at4 h4).2.2.1]; rfl, rfl⟩

/-! ## the common projection of the VIEW -/

/-- what `view_zone` of the harness prints, minus `target_temperature_resolution` -/
structure ZoneView where
  zoneId : Nat
  name : Bytes
  supportedPowerStates : List ApiEnums.ZonePowerState
  powerState : ApiEnums.ZonePowerState
  controlMethod : ApiEnums.ZoneControlMethod
  hasTempSensor : Bool
  sensorBatteryStatus : ApiEnums.SensorBatteryStatus
  /-- tenths -/
  currentTemperature : Option Int
  /-- tenths -/
  targetTemperature : Option Int
  currentDamperPercentage : Nat
  spillActive : Bool
deriving DecidableEq, Repr

/-- what `view_ac` prints, minus `supported_power_controls` and `target_temperature_resolution` -/
structure AcView where
  acId : Nat
  name : Bytes
  supportedModes : List ApiEnums.AcMode
  supportedFanSpeeds : List ApiEnums.AcFanSpeed
  powerState : ApiEnums.AcPowerState
  selectedMode : ApiEnums.AcMode
  activeMode : ApiEnums.AcMode
  selectedFanSpeed : ApiEnums.AcFanSpeed
  activeFanSpeed : ApiEnums.AcFanSpeed
  /-- tenths -/
  currentTemperature : Int
  targetTemperature : Int
  minTargetTemperature : Int
  maxTargetTemperature : Int
  spillState : ApiEnums.AcSpillState
  offTimer : Option (Nat × Nat)
  onTimer : Option (Nat × Nat)
  errorInfo : Option (Nat × Option Bytes)
  zones : List ZoneView
deriving DecidableEq, Repr

/-- what `view_at` prints, minus `model` -/
structure AtView where
  initialised : Bool
  airtouchId : Bytes
  serial : Bytes
  name : Bytes
  host : Bytes
  updateAvailable : Bool
  consoleVersions : List Bytes
  airConditioners : List AcView
deriving DecidableEq, Repr

/-- AirTouch 5 always offers TURBO -/
def ZoneView.allTurbo (v : ZoneView) : ZoneView := { v with supportedPowerStates := [.OFF, .ON, .TURBO] }
def AcView.allTurbo (v : AcView) : AcView := { v with zones := v.zones.map ZoneView.allTurbo }
def AtView.allTurbo (v : AtView) : AtView := { v with airConditioners := v.airConditioners.map AcView.allTurbo }

/-- the projection of an AirTouch 4 zone object: the getters of `Api4.viewZone`, field by field; `none` = a getter raised -/
def zoneView4 (z : Api4.ZoneObj) : Option ZoneView := do
  let ps ← z.powerState.toOption
  let cm ← z.controlMethod.toOption
  let bat ← z.batteryStatus.toOption
  pure { zoneId := z.zoneId, name := z.name, supportedPowerStates := z.supportedPowerStates, powerState := ps
         controlMethod := cm, hasTempSensor := z.status.has_sensor, sensorBatteryStatus := bat
         currentTemperature := z.status.temperature
         targetTemperature := z.status.set_point.map fun (n : Nat) => 10 * (n : Int)
         currentDamperPercentage := z.status.damper_percentage, spillActive := z.status.spill_active }

/-- the projection of an AirTouch 5 zone object: the getters of `Api5.viewZone` -/
def zoneView5 (z : Api5.ZoneObj) : Option ZoneView := do
  let ps ← z.powerState
  let cm ← z.controlMethod
  let bat ← z.batteryStatus
  pure { zoneId := z.id, name := z.name, supportedPowerStates := Api5.supportedZonePowerStates, powerState := ps
         controlMethod := cm, hasTempSensor := z.status.has_sensor, sensorBatteryStatus := bat
         currentTemperature := z.status.temperature, targetTemperature := z.status.set_point
         currentDamperPercentage := z.status.damper_percentage, spillActive := z.status.spill_active }

/-- the AC's own attributes (AirTouch 4), given the views of its zones -/
def acView4Core (a : Api4.AcObj) (zs : List ZoneView) : Option AcView := do
  let ps ← a.powerState.toOption
  let sm ← a.selectedMode.toOption
  let am ← a.activeMode.toOption
  let fs ← a.fanSpeed.toOption
  let offT ← (a.nextQuickTimer .OFF_TIMER).toOption
  let onT ← (a.nextQuickTimer .ON_TIMER).toOption
  pure { acId := a.acId, name := a.ability.ac_name, supportedModes := a.supportedModes
         supportedFanSpeeds := a.supportedFanSpeeds, powerState := ps, selectedMode := sm, activeMode := am
         selectedFanSpeed := fs, activeFanSpeed := fs, currentTemperature := a.status.temperature
         targetTemperature := 10 * (a.status.set_point : Int)
         minTargetTemperature := 10 * (a.ability.min_set_point : Int)
         maxTargetTemperature := 10 * (a.ability.max_set_point : Int)
         spillState := a.spillState, offTimer := offT, onTimer := onT, errorInfo := a.errorInfo, zones := zs }

/-- as `Api4.viewAc`: the zones are the objects the references resolve to -/
def acView4 (zoneObjs : List Api4.ZoneObj) (a : Api4.AcObj) : Option AcView := do
  let zs ← (a.zones.filterMap (zoneObjs[·]?)).mapM zoneView4
  acView4Core a zs

def acView5Core (a : Api5.AcObj) (zs : List ZoneView) : Option AcView := do
  let ps ← a.powerState
  let sm ← a.selectedMode
  let am ← a.activeMode
  let sf ← a.selectedFanSpeed
  let af ← a.activeFanSpeed
  let offT ← (a.nextQuickTimer .OFF_TIMER).toOption
  let onT ← (a.nextQuickTimer .ON_TIMER).toOption
  pure { acId := a.id, name := a.ability.ac_name, supportedModes := a.supportedModes
         supportedFanSpeeds := a.supportedFanSpeeds, powerState := ps, selectedMode := sm, activeMode := am
         selectedFanSpeed := sf, activeFanSpeed := af, currentTemperature := a.status.temperature
         targetTemperature := a.status.set_point
         minTargetTemperature := 10 * (a.minTarget : Int), maxTargetTemperature := 10 * (a.maxTarget : Int)
         spillState := a.spillState, offTimer := offT, onTimer := onT, errorInfo := a.errorInfo, zones := zs }

/-- as `Api5.viewAc`: a dangling zone reference is an error -/
def acView5 (zobjs : List Api5.ZoneObj) (a : Api5.AcObj) : Option AcView := do
  let zs ← a.zones.mapM fun r => (zobjs[r]?).bind zoneView5
  acView5Core a zs

def atView4 (s : Api4.State) : Option AtView := do
  let acs ← s.airConditioners.mapM (acView4 s.zoneObjs)
  pure { initialised := s.initialised, airtouchId := s.airtouchId, serial := s.serial, name := s.name, host := s.host
         updateAvailable := s.version.update_available, consoleVersions := s.version.versions, airConditioners := acs }

def atView5 (s : Api5.State) : Option AtView := do
  let acs ← s.airConditioners.mapM (acView5 s.zobjs)
  pure { initialised := s.initialised, airtouchId := s.airtouchId, serial := s.serial, name := s.name, host := s.host
         updateAvailable := s.consoleVersion.update_available, consoleVersions := s.consoleVersion.versions
         airConditioners := acs }

/-- the abstract view of a zone (AirTouch 4 side: `supported_power_states` follows the flag) -/
def AbsZone.view (z : AbsZone) : ZoneView :=
  { zoneId := z.status.number, name := z.name, supportedPowerStates := z.supportedPowerStates
    powerState := z.powerState, controlMethod := z.controlMethod, hasTempSensor := z.status.sensor
    sensorBatteryStatus := z.batteryStatus, currentTemperature := z.status.temperature
    targetTemperature := z.targetTemperature, currentDamperPercentage := z.status.damper
    spillActive := z.status.spill }

/-- the abstract view of an AC, given the views of its zones; `none` = a quick timer outside 0..23 h / 0..59 min -/
def AbsAc.view (a : AbsAc) (zs : List ZoneView) : Option AcView := do
  let offT ← quickTimer a.timers.off_timer
  let onT ← quickTimer a.timers.on_timer
  pure { acId := a.status.number, name := a.info.name, supportedModes := a.info.supportedModes
         supportedFanSpeeds := a.info.supportedFanSpeeds, powerState := a.powerState, selectedMode := a.selectedMode
         activeMode := a.activeMode, selectedFanSpeed := a.fanSpeed, activeFanSpeed := a.fanSpeed
         currentTemperature := a.currentTemperature, targetTemperature := a.targetTemperature
         minTargetTemperature := a.minTargetTemperature, maxTargetTemperature := a.maxTargetTemperature
         spillState := a.spillState, offTimer := offT, onTimer := onT, errorInfo := a.errorInfo, zones := zs }

theorem zoneView4_embedded {z : AbsZone} {o : Api4.ZoneObj} (h : IsAt4Zone z o) : zoneView4 o = some z.view := by
  obtain ⟨h1, h2, h3, h4, h5, h6, h7, h8, h9, h10, h11⟩ := zone_attributes_at4 h
  simp only [zoneView4, h4, h5, h6, Except.toOption, Option.bind_eq_bind, Option.bind_some, Option.pure_def, h1, h2, h3,
    h7, h8, h9, h10, h11, AbsZone.view]

theorem zoneView5_embedded {z : AbsZone} {o : Api5.ZoneObj} (h : IsAt5Zone z o) :
    zoneView5 o = some z.view.allTurbo := by
  obtain ⟨h1, h2, h3, h4, h5, h6, h7, h8, h9, h10, h11⟩ := zone_attributes_at5 h
  simp only [zoneView5, h4, h5, h6, Option.bind_eq_bind, Option.bind_some, Option.pure_def, h1, h2, h3,
    h7, h8, h9, h10, h11, AbsZone.view, ZoneView.allTurbo]

theorem acView4Core_embedded {a : AbsAc} {o : Api4.AcObj} (h : IsAt4Ac a o) (zs : List ZoneView) :
    acView4Core o zs = a.view zs := by
  obtain ⟨h1, h2, h3, h4, h5, h6, h7, h8, h9, h10, h11, h12, h13, h14, h15⟩ := ac_attributes_at4 h
  simp only [acView4Core, AbsAc.view, h5, h6, h7, h8, h14, AbsAc.timerState, Except.toOption, Option.bind_eq_bind,
    Option.bind_some, Option.pure_def, h1, h2, h3, h4, h9, h10, h11, h12, h13, h15]
  cases quickTimer a.timers.off_timer <;> cases quickTimer a.timers.on_timer <;> rfl

theorem acView5Core_embedded {a : AbsAc} {o : Api5.AcObj} (h : IsAt5Ac a o) (zs : List ZoneView) :
    acView5Core o zs = a.view zs := by
  obtain ⟨h1, h2, h3, h4, h5, h6, h7, h8, h8', h9, h10, h11, h12, h13, h14, h15⟩ := ac_attributes_at5 h
  simp only [acView5Core, AbsAc.view, h5, h6, h7, h8, h8', h14, AbsAc.timerState, Except.toOption, Option.bind_eq_bind,
    Option.bind_some, Option.pure_def, h1, h2, h3, h4, h9, h10, h11, h12, h13, h15]
  cases quickTimer a.timers.off_timer <;> cases quickTimer a.timers.on_timer <;> rfl

/-- **equal attributes, zones**: the projected views of the two embeddings of one abstract zone agree, up to the stated
    `supported_power_states` asymmetry; they are equal when the zone supports turbo -/
theorem zone_attributes_equal {z : AbsZone} {o4 : Api4.ZoneObj} {o5 : Api5.ZoneObj} (h4 : IsAt4Zone z o4)
    (h5 : IsAt5Zone z o5) :
    zoneView5 o5 = (zoneView4 o4).map ZoneView.allTurbo ∧ (z.status.turbo = true → zoneView4 o4 = zoneView5 o5) := by
  rw [zoneView4_embedded h4, zoneView5_embedded h5]
  refine ⟨rfl, ?_⟩
  intro ht
  simp only [ZoneView.allTurbo, AbsZone.view, AbsZone.supportedPowerStates, ht]
  rfl

/-- **equal attributes, ACs**: with equal zone views the projected views of the two embeddings of one abstract AC are
    equal (both `none` exactly when a quick timer is outside the range of `datetime.time`) -/
theorem ac_attributes_equal {a : AbsAc} {o4 : Api4.AcObj} {o5 : Api5.AcObj} (h4 : IsAt4Ac a o4) (h5 : IsAt5Ac a o5)
    (zs : List ZoneView) : acView4Core o4 zs = acView5Core o5 zs := by
  rw [acView4Core_embedded h4, acView5Core_embedded h5]

/-! ### the VIEW text of either model is a rendering of the projection

`renderZone` / `renderAc` / `renderAt` are one set of printing functions, parameterised by exactly the three attributes
left out of the projection (resolution, supported power controls, model).  The models' `viewZone` / `viewAc` / `viewAt`
print `render… (projection)`; hence equal projections mean equal VIEW text up to those three attributes. -/

def renderZone (res : Int) (v : ZoneView) : String :=
  "Zone(" ++ ",".intercalate [
    "zone_id=" ++ cNat v.zoneId, "name=" ++ cStr v.name,
    "supported_power_states=" ++ cList ApiEnums.ZonePowerState.name v.supportedPowerStates,
    "power_state=" ++ v.powerState.name, "control_method=" ++ v.controlMethod.name,
    "has_temp_sensor=" ++ cBool v.hasTempSensor, "sensor_battery_status=" ++ v.sensorBatteryStatus.name,
    "current_temperature=" ++ cOpt cTenths v.currentTemperature,
    "target_temperature=" ++ cOpt cTenths v.targetTemperature,
    "target_temperature_resolution=" ++ cTenths res,
    "current_damper_percentage=" ++ cNat v.currentDamperPercentage,
    "spill_active=" ++ cBool v.spillActive] ++ ")"

def renderAc (res : Int) (pcs : List ApiEnums.AcPowerControl) (v : AcView) : String :=
  "AC(" ++ ",".intercalate [
    "ac_id=" ++ cNat v.acId, "name=" ++ cStr v.name,
    "supported_power_controls=" ++ cList ApiEnums.AcPowerControl.name pcs,
    "supported_modes=" ++ cList ApiEnums.AcMode.name v.supportedModes,
    "supported_fan_speeds=" ++ cList ApiEnums.AcFanSpeed.name v.supportedFanSpeeds,
    "power_state=" ++ v.powerState.name, "selected_mode=" ++ v.selectedMode.name, "active_mode=" ++ v.activeMode.name,
    "selected_fan_speed=" ++ v.selectedFanSpeed.name, "active_fan_speed=" ++ v.activeFanSpeed.name,
    "current_temperature=" ++ cTenths v.currentTemperature,
    "target_temperature=" ++ cTenths v.targetTemperature,
    "target_temperature_resolution=" ++ cTenths res,
    "min_target_temperature=" ++ cTenths v.minTargetTemperature,
    "max_target_temperature=" ++ cTenths v.maxTargetTemperature,
    "spill_state=" ++ v.spillState.name,
    "off_timer=" ++ Api4.viewTimer v.offTimer, "on_timer=" ++ Api4.viewTimer v.onTimer,
    "error_info=" ++ Api4.viewErr v.errorInfo,
    "zones=[" ++ ",".intercalate (v.zones.map (renderZone res)) ++ "]"] ++ ")"

def renderAt (model : ApiEnums.AirTouchModel) (res : Int) (pcs : List ApiEnums.AcPowerControl) (v : AtView) : String :=
  "AirTouch(" ++ ",".intercalate [
    "initialised=" ++ cBool v.initialised, "airtouch_id=" ++ cStr v.airtouchId, "serial=" ++ cStr v.serial,
    "name=" ++ cStr v.name, "host=" ++ cStr v.host, "model=" ++ model.name,
    "update_available=" ++ cBool v.updateAvailable,
    "console_versions=" ++ cList cStr v.consoleVersions,
    "air_conditioners=[" ++ ",".intercalate (v.airConditioners.map (renderAc res pcs)) ++ "]"] ++ ")"

theorem viewZone4_render (z : Api4.ZoneObj) (v : ZoneView) (h : zoneView4 z = some v) :
    Api4.viewZone z = .ok (renderZone Api4.TARGET_TEMPERATURE_RESOLUTION_tenths v) := by
  simp only [zoneView4, Option.bind_eq_bind, Option.pure_def] at h
  cases h1 : z.powerState with
  | error e => simp [h1, Except.toOption] at h
  | ok ps =>
    cases h2 : z.controlMethod with
    | error e => simp [h1, h2, Except.toOption] at h
    | ok cm =>
      cases h3 : z.batteryStatus with
      | error e => simp [h1, h2, h3, Except.toOption] at h
      | ok bat =>
        simp only [h1, h2, h3, Except.toOption, Option.bind_some, Option.some.injEq] at h
        subst h
        simp only [Api4.viewZone, h1, h2, h3, bind, Except.bind, pure, Except.pure, renderZone]
        cases z.status.set_point <;> rfl

theorem viewZone5_render (z : Api5.ZoneObj) (v : ZoneView) (h : zoneView5 z = some v) :
    Api5.viewZone z = some (renderZone Api5.TARGET_TEMPERATURE_RESOLUTION_tenths v) := by
  simp only [zoneView5, Option.bind_eq_bind, Option.pure_def] at h
  cases h1 : z.powerState with
  | none => simp [h1] at h
  | some ps =>
    cases h2 : z.controlMethod with
    | none => simp [h1, h2] at h
    | some cm =>
      cases h3 : z.batteryStatus with
      | none => simp [h1, h2, h3] at h
      | some bat =>
        simp only [h1, h2, h3, Option.bind_some, Option.some.injEq] at h
        subst h
        simp only [Api5.viewZone, h1, h2, h3, Option.bind_eq_bind, Option.bind_some, Option.pure_def, renderZone]
        cases z.status.set_point <;> cases z.status.temperature <;> rfl

theorem mapM_viewZone4_render (l : List Api4.ZoneObj) (vs : List ZoneView) (h : l.mapM zoneView4 = some vs) :
    l.mapM Api4.viewZone = .ok (vs.map (renderZone Api4.TARGET_TEMPERATURE_RESOLUTION_tenths)) := by
  induction l generalizing vs with
  | nil => simp only [List.mapM_nil, Option.pure_def, Option.some.injEq] at h; subst h; rfl
  | cons z zs ih =>
    rw [List.mapM_cons] at h
    cases hz : zoneView4 z with
    | none => simp [hz] at h
    | some v =>
      cases hr : zs.mapM zoneView4 with
      | none => simp [hz, hr] at h
      | some rest =>
        simp only [hz, hr, Option.bind_eq_bind, Option.bind_some, Option.pure_def, Option.some.injEq] at h
        subst h
        rw [List.mapM_cons, viewZone4_render z v hz, ih rest hr]
        rfl

theorem viewAc4_render (zoneObjs : List Api4.ZoneObj) (a : Api4.AcObj) (v : AcView) (h : acView4 zoneObjs a = some v) :
    Api4.viewAc zoneObjs a = .ok (renderAc Api4.TARGET_TEMPERATURE_RESOLUTION_tenths Api4.supportedPowerControls v) := by
  simp only [acView4, Option.bind_eq_bind] at h
  cases hz : (a.zones.filterMap (zoneObjs[·]?)).mapM zoneView4 with
  | none => simp [hz] at h
  | some zs =>
    simp only [hz, Option.bind_some, acView4Core, Option.bind_eq_bind, Option.pure_def] at h
    cases h1 : a.powerState with
    | error e => simp [h1, Except.toOption] at h
    | ok ps =>
    cases h2 : a.selectedMode with
    | error e => simp [h1, h2, Except.toOption] at h
    | ok sm =>
    cases h3 : a.activeMode with
    | error e => simp [h1, h2, h3, Except.toOption] at h
    | ok am =>
    cases h4 : a.fanSpeed with
    | error e => simp [h1, h2, h3, h4, Except.toOption] at h
    | ok fs =>
    cases h5 : a.nextQuickTimer .OFF_TIMER with
    | error e => simp [h1, h2, h3, h4, h5, Except.toOption] at h
    | ok offT =>
    cases h6 : a.nextQuickTimer .ON_TIMER with
    | error e => simp [h1, h2, h3, h4, h5, h6, Except.toOption] at h
    | ok onT =>
      simp only [h1, h2, h3, h4, h5, h6, Except.toOption, Option.bind_some, Option.some.injEq] at h
      subst h
      simp only [Api4.viewAc, h1, h2, h3, h4, h5, h6, mapM_viewZone4_render _ _ hz, bind, Except.bind, pure, Except.pure,
        renderAc]

theorem viewAt4_render (s : Api4.State) (v : AtView) (h : atView4 s = some v) :
    Api4.viewAt s = .ok (renderAt .AIRTOUCH_4 Api4.TARGET_TEMPERATURE_RESOLUTION_tenths Api4.supportedPowerControls v) := by
  have hm : ∀ (l : List Api4.AcObj) (vs : List AcView), l.mapM (acView4 s.zoneObjs) = some vs →
      l.mapM (Api4.viewAc s.zoneObjs) =
        .ok (vs.map (renderAc Api4.TARGET_TEMPERATURE_RESOLUTION_tenths Api4.supportedPowerControls)) := by
    intro l
    induction l with
    | nil => intro vs h; simp only [List.mapM_nil, Option.pure_def, Option.some.injEq] at h; subst h; rfl
    | cons a as ih =>
      intro vs h
      rw [List.mapM_cons] at h
      cases ha : acView4 s.zoneObjs a with
      | none => simp [ha] at h
      | some w =>
        cases hr : as.mapM (acView4 s.zoneObjs) with
        | none => simp [ha, hr] at h
        | some rest =>
          simp only [ha, hr, Option.bind_eq_bind, Option.bind_some, Option.pure_def, Option.some.injEq] at h
          subst h
          rw [List.mapM_cons, viewAc4_render _ a w ha, ih rest hr]
          rfl
  simp only [atView4, Option.bind_eq_bind, Option.pure_def] at h
  cases hacs : s.airConditioners.mapM (acView4 s.zoneObjs) with
  | none => simp [hacs] at h
  | some acs =>
    simp only [hacs, Option.bind_some, Option.some.injEq] at h
    subst h
    simp only [Api4.viewAt, hm _ _ hacs, bind, Except.bind, pure, Except.pure, renderAt]

theorem optKey_some {α} (x : α) : Api5.optKey (some x) = .ok x := rfl

theorem mapM_viewZone5_render (zobjs : List Api5.ZoneObj) (f : Nat → Except String String)
    (hf : ∀ r, f r = match zobjs[r]? with
      | some z => Api5.optKey (Api5.viewZone z)
      | none => .error "KeyError")
    (l : List Nat) (vs : List ZoneView) (h : l.mapM (fun r => (zobjs[r]?).bind zoneView5) = some vs) :
    l.mapM f = .ok (vs.map (renderZone Api5.TARGET_TEMPERATURE_RESOLUTION_tenths)) := by
  induction l generalizing vs with
  | nil => simp only [List.mapM_nil, Option.pure_def, Option.some.injEq] at h; subst h; rfl
  | cons r rs ih =>
    rw [List.mapM_cons] at h
    cases hz : zobjs[r]? with
    | none => simp [hz] at h
    | some z =>
      cases hv : zoneView5 z with
      | none => simp [hz, hv] at h
      | some v =>
        cases hr : rs.mapM (fun r => (zobjs[r]?).bind zoneView5) with
        | none => simp [hz, hv, hr] at h
        | some rest =>
          simp only [hz, hv, hr, Option.bind_eq_bind, Option.bind_some, Option.pure_def, Option.some.injEq] at h
          subst h
          rw [List.mapM_cons, ih rest hr, hf r]
          simp only [hz, viewZone5_render z v hv, optKey_some]
          rfl

theorem viewAc5_render (zobjs : List Api5.ZoneObj) (a : Api5.AcObj) (v : AcView) (h : acView5 zobjs a = some v) :
    Api5.viewAc zobjs a = .ok (renderAc Api5.TARGET_TEMPERATURE_RESOLUTION_tenths Api5.supportedPowerControls v) := by
  simp only [acView5, Option.bind_eq_bind] at h
  cases hz : a.zones.mapM (fun r => (zobjs[r]?).bind zoneView5) with
  | none => simp [hz] at h
  | some zs =>
    simp only [hz, Option.bind_some, acView5Core, Option.bind_eq_bind, Option.pure_def] at h
    cases h1 : a.powerState with
    | none => simp [h1] at h
    | some ps =>
    cases h2 : a.selectedMode with
    | none => simp [h1, h2] at h
    | some sm =>
    cases h3 : a.activeMode with
    | none => simp [h1, h2, h3] at h
    | some am =>
    cases h4 : a.selectedFanSpeed with
    | none => simp [h1, h2, h3, h4] at h
    | some sf =>
    cases h4' : a.activeFanSpeed with
    | none => simp [h1, h2, h3, h4, h4'] at h
    | some af =>
    cases h5 : a.nextQuickTimer .OFF_TIMER with
    | error e => simp [h1, h2, h3, h4, h4', h5, Except.toOption] at h
    | ok offT =>
    cases h6 : a.nextQuickTimer .ON_TIMER with
    | error e => simp [h1, h2, h3, h4, h4', h5, h6, Except.toOption] at h
    | ok onT =>
      simp only [h1, h2, h3, h4, h4', h5, h6, Except.toOption, Option.bind_some, Option.some.injEq] at h
      subst h
      have ht : ∀ (x : Option (Nat × Nat)) tt, a.nextQuickTimer tt = .ok x → Api5.viewTimer a tt = .ok (Api4.viewTimer x) := by
        intro x tt hx
        simp only [Api5.viewTimer, hx]
        rcases x with _ | ⟨hh, mm⟩ <;> rfl
      simp only [Api5.viewAc, h1, h2, h3, h4, h4', ht _ _ h5, ht _ _ h6, optKey_some, bind, Except.bind, pure,
        Except.pure, renderAc]
      generalize hmap : List.mapM (m := Except String) (β := String) _ a.zones = res
      have hres : res = .ok (zs.map (renderZone Api5.TARGET_TEMPERATURE_RESOLUTION_tenths)) := by
        rw [← hmap]; exact mapM_viewZone5_render zobjs _ (fun r => rfl) _ _ hz
      subst hres
      rcases a.errorInfo with _ | ⟨c, d⟩ <;> rfl

theorem viewAt5_render (s : Api5.State) (v : AtView) (h : atView5 s = some v) :
    Api5.viewAt s = .ok (renderAt Api5.MODEL Api5.TARGET_TEMPERATURE_RESOLUTION_tenths Api5.supportedPowerControls v) := by
  have hm : ∀ (l : List Api5.AcObj) (vs : List AcView), l.mapM (acView5 s.zobjs) = some vs →
      l.mapM (Api5.viewAc s.zobjs) =
        .ok (vs.map (renderAc Api5.TARGET_TEMPERATURE_RESOLUTION_tenths Api5.supportedPowerControls)) := by
    intro l
    induction l with
    | nil => intro vs h; simp only [List.mapM_nil, Option.pure_def, Option.some.injEq] at h; subst h; rfl
    | cons a as ih =>
      intro vs h
      rw [List.mapM_cons] at h
      cases ha : acView5 s.zobjs a with
      | none => simp [ha] at h
      | some w =>
        cases hr : as.mapM (acView5 s.zobjs) with
        | none => simp [ha, hr] at h
        | some rest =>
          simp only [ha, hr, Option.bind_eq_bind, Option.bind_some, Option.pure_def, Option.some.injEq] at h
          subst h
          rw [List.mapM_cons, viewAc5_render _ a w ha, ih rest hr]
          rfl
  simp only [atView5, Option.bind_eq_bind, Option.pure_def] at h
  cases hacs : s.airConditioners.mapM (acView5 s.zobjs) with
  | none => simp [hacs] at h
  | some acs =>
    simp only [hacs, Option.bind_some, Option.some.injEq] at h
    subst h
    simp only [Api5.viewAt, hm _ _ hacs, bind, Except.bind, pure, Except.pure, renderAt]

/-! ## 3. related states

The two models keep the same kind of object heap (append-only lists of zone / AC objects, dictionaries
*number ↦ heap index* in Python insertion order).  `HeapRel` relates an AirTouch 4 state and an AirTouch 5 state
index by index: equal dictionaries, and objects at equal indices hold the two embeddings of one abstract entity. -/

/-- pointwise relation of two lists of equal length -/
def ListRel {α β} (R : α → β → Prop) (l4 : List α) (l5 : List β) : Prop :=
  l4.length = l5.length ∧ ∀ (i : Nat) a b, l4[i]? = some a → l5[i]? = some b → R a b

theorem ListRel.nil {α β} (R : α → β → Prop) : ListRel R [] [] := ⟨rfl, by intro i a b h; simp at h⟩

theorem ListRel.get {α β} {R : α → β → Prop} {l4 : List α} {l5 : List β} (h : ListRel R l4 l5) (i : Nat) :
    (l4[i]? = none ∧ l5[i]? = none) ∨ ∃ a b, l4[i]? = some a ∧ l5[i]? = some b ∧ R a b := by
  by_cases hi : i < l4.length
  · have hi5 : i < l5.length := h.1 ▸ hi
    exact .inr ⟨l4[i], l5[i], List.getElem?_eq_getElem hi, List.getElem?_eq_getElem hi5,
      h.2 i _ _ (List.getElem?_eq_getElem hi) (List.getElem?_eq_getElem hi5)⟩
  · have hi5 : ¬ i < l5.length := h.1 ▸ hi
    exact .inl ⟨List.getElem?_eq_none (Nat.le_of_not_lt hi), List.getElem?_eq_none (Nat.le_of_not_lt hi5)⟩

theorem ListRel.set {α β} {R : α → β → Prop} {l4 : List α} {l5 : List β} (h : ListRel R l4 l5) (i : Nat) (a : α) (b : β)
    (hab : R a b) : ListRel R (l4.set i a) (l5.set i b) := by
  refine ⟨by simp [h.1], ?_⟩
  intro j x y hx hy
  rw [List.getElem?_set] at hx hy
  by_cases hij : i = j
  · simp only [hij, ↓reduceIte] at hx hy
    split at hx
    · split at hy
      · cases hx; cases hy; exact hab
      · cases hy
    · cases hx
  · simp only [hij, ↓reduceIte] at hx hy
    exact h.2 j x y hx hy

theorem ListRel.set_left {α β} {R : α → β → Prop} {l4 : List α} {l5 : List β} (h : ListRel R l4 l5) (i : Nat) (a : α)
    (hab : ∀ b, l5[i]? = some b → R a b) : ListRel R (l4.set i a) l5 := by
  refine ⟨by simp [h.1], ?_⟩
  intro j x y hx hy
  rw [List.getElem?_set] at hx
  by_cases hij : i = j
  · subst hij
    simp only [↓reduceIte] at hx
    split at hx
    · cases hx; exact hab y hy
    · cases hx
  · simp only [hij, ↓reduceIte] at hx
    exact h.2 j x y hx hy

theorem ListRel.set_right {α β} {R : α → β → Prop} {l4 : List α} {l5 : List β} (h : ListRel R l4 l5) (i : Nat) (b : β)
    (hab : ∀ a, l4[i]? = some a → R a b) : ListRel R l4 (l5.set i b) := by
  refine ⟨by simp [h.1], ?_⟩
  intro j x y hx hy
  rw [List.getElem?_set] at hy
  by_cases hij : i = j
  · subst hij
    simp only [↓reduceIte] at hy
    split at hy
    · cases hy; exact hab x hx
    · cases hy
  · simp only [hij, ↓reduceIte] at hy
    exact h.2 j x y hx hy

theorem ListRel.push {α β} {R : α → β → Prop} {l4 : List α} {l5 : List β} (h : ListRel R l4 l5) (a : α) (b : β)
    (hab : R a b) : ListRel R (l4 ++ [a]) (l5 ++ [b]) := by
  refine ⟨by simp [h.1], ?_⟩
  intro j x y hx hy
  by_cases hj : j < l4.length
  · rw [List.getElem?_append_left hj] at hx
    rw [List.getElem?_append_left (h.1 ▸ hj)] at hy
    exact h.2 j x y hx hy
  · have hj' : l4.length ≤ j := Nat.le_of_not_lt hj
    rw [List.getElem?_append_right hj'] at hx
    rw [List.getElem?_append_right (h.1 ▸ hj')] at hy
    rw [← h.1] at hy
    cases hk : j - l4.length with
    | zero => simp [hk] at hx hy; subst hx; subst hy; exact hab
    | succ k => simp [hk] at hx

theorem ListRel.mono {α β} {R S : α → β → Prop} {l4 : List α} {l5 : List β} (h : ListRel R l4 l5)
    (hRS : ∀ a b, R a b → S a b) : ListRel S l4 l5 :=
  ⟨h.1, fun i a b ha hb => hRS a b (h.2 i a b ha hb)⟩

/-- the heap update both models perform for one status record: the object the dictionary names under `k` becomes
    `f` of itself (`f` answers `none` when the record changes nothing) -/
def updAt {α} (d : List (Nat × Nat)) (l : List α) (k : Nat) (f : α → Option α) : List α :=
  match d.lookup k with
  | none => l
  | some i =>
    match l[i]? with
    | none => l
    | some a =>
      match f a with
      | none => l
      | some a' => l.set i a'

theorem updAt_length {α} (d : List (Nat × Nat)) (l : List α) (k : Nat) (f : α → Option α) :
    (updAt d l k f).length = l.length := by
  unfold updAt
  split
  · rfl
  · split
    · rfl
    · split
      · rfl
      · simp

/-- `updAt` on related lists with step functions that keep related objects related - also when only one side
    considers the record a change -/
theorem ListRel.updAt {α β} {R : α → β → Prop} {l4 : List α} {l5 : List β} (h : ListRel R l4 l5) (d : List (Nat × Nat))
    (k : Nat) (f4 : α → Option α) (f5 : β → Option β)
    (hf : ∀ a b, R a b → R ((f4 a).getD a) ((f5 b).getD b)) :
    ListRel R (updAt d l4 k f4) (updAt d l5 k f5) := by
  unfold ApiEquiv.updAt
  cases hd : d.lookup k with
  | none => exact h
  | some i =>
    simp only
    rcases h.get i with ⟨h4, h5⟩ | ⟨a, b, h4, h5, hab⟩
    · simp only [h4, h5]; exact h
    · simp only [h4, h5]
      have := hf a b hab
      cases e4 : f4 a with
      | none =>
        cases e5 : f5 b with
        | none => exact h
        | some b' =>
          simp only [e4, e5, Option.getD_none, Option.getD_some] at this
          exact h.set_right i b' (by intro a0 ha0; rw [h4] at ha0; cases ha0; exact this)
      | some a' =>
        cases e5 : f5 b with
        | none =>
          simp only [e4, e5, Option.getD_none, Option.getD_some] at this
          exact h.set_left i a' (by intro b0 hb0; rw [h5] at hb0; cases hb0; exact this)
        | some b' =>
          simp only [e4, e5, Option.getD_some] at this
          exact h.set i a' b' this

theorem modifyAt_const {α} (l : List α) (i : Nat) (a : α) : Api5.modifyAt l i (fun _ => a) = l.set i a := by
  induction l generalizing i with
  | nil => rfl
  | cons x xs ih =>
    cases i with
    | zero => rfl
    | succ j => simp [Api5.modifyAt, ih]

/-- the two zone objects hold the two embeddings of one abstract zone -/
def ZoneRel (z4 : Api4.ZoneObj) (z5 : Api5.ZoneObj) : Prop := ∃ z : AbsZone, IsAt4Zone z z4 ∧ IsAt5Zone z z5

/-- the two AC objects hold the two embeddings of one abstract AC, and refer to the same zone objects (heap indices
    below `n`) -/
def AcRel (n : Nat) (a4 : Api4.AcObj) (a5 : Api5.AcObj) : Prop :=
  (∃ a : AbsAc, IsAt4Ac a a4 ∧ IsAt5Ac a a5) ∧ a4.zones = a5.zones ∧ ∀ r ∈ a4.zones, r < n

structure HeapRel (s4 : Api4.State) (s5 : Api5.State) : Prop where
  zoneDict : s4.zoneDict = s5.zones
  acDict : s4.acDict = s5.acs
  zones : ListRel ZoneRel s4.zoneObjs s5.zobjs
  acs : ListRel (AcRel s4.zoneObjs.length) s4.acObjs s5.aobjs
  zoneRefs : ∀ p ∈ s4.zoneDict, p.2 < s4.zoneObjs.length

/-- the states of the two handshake machines (`GROUP` ↔ `ZONE`) -/
def stCorr : Api4.AState → Api5.AirTouchState
  | .CLOSED => .CLOSED | .CONNECTING => .CONNECTING | .INIT_VERSION => .INIT_VERSION
  | .INIT_GROUP_NAMES => .INIT_ZONE_NAMES | .INIT_AC_ABILITY => .INIT_AC_ABILITY | .INIT_AC_STATUS => .INIT_AC_STATUS
  | .INIT_AC_TIMER_STATUS => .INIT_AC_TIMER_STATUS | .INIT_GROUP_STATUS => .INIT_ZONE_STATUS | .CONNECTED => .CONNECTED

/-- the scalar fields of a state the relation looks at -/
structure Scalars where
  subscribed : Bool
  sockOpen : Bool
  initialised : Bool
  updateAvailable : Bool
  versions : List Bytes
  airtouchId : Bytes
  serial : Bytes
  name : Bytes
  host : Bytes
deriving DecidableEq, Repr

def scalars4 (s : Api4.State) : Scalars :=
  { subscribed := s.subscribed, sockOpen := s.sockOpen, initialised := s.initialised
    updateAvailable := s.version.update_available, versions := s.version.versions, airtouchId := s.airtouchId
    serial := s.serial, name := s.name, host := s.host }

def scalars5 (s : Api5.State) : Scalars :=
  { subscribed := s.sockSubscribed, sockOpen := s.sockOpen, initialised := s.initialised
    updateAvailable := s.consoleVersion.update_available, versions := s.consoleVersion.versions
    airtouchId := s.airtouchId, serial := s.serial, name := s.name, host := s.host }

/-- **related states**: related heaps, corresponding handshake states, both sockets open, equal identification /
    console version / initialised flag / "callbacks registered" flag.  Nothing is said about timers, the heartbeat,
    subscribers. -/
structure Rel (s4 : Api4.State) (s5 : Api5.State) : Prop where
  heap : HeapRel s4 s5
  st : s5.st = stCorr s4.st
  scalars : scalars4 s4 = scalars5 s5
  isOpen : s4.sockOpen = true

theorem Rel.subscribed {s4 s5} (h : Rel s4 s5) : s4.subscribed = s5.sockSubscribed := congrArg Scalars.subscribed h.scalars
theorem Rel.open5 {s4 s5} (h : Rel s4 s5) : s5.sockOpen = true :=
  (congrArg Scalars.sockOpen h.scalars).symm.trans h.isOpen
theorem Rel.initialised {s4 s5} (h : Rel s4 s5) : s4.initialised = s5.initialised :=
  congrArg Scalars.initialised h.scalars
theorem Rel.updateAvailable {s4 s5} (h : Rel s4 s5) :
    s4.version.update_available = s5.consoleVersion.update_available := congrArg Scalars.updateAvailable h.scalars
theorem Rel.versions {s4 s5} (h : Rel s4 s5) : s4.version.versions = s5.consoleVersion.versions :=
  congrArg Scalars.versions h.scalars
theorem Rel.airtouchId {s4 s5} (h : Rel s4 s5) : s4.airtouchId = s5.airtouchId := congrArg Scalars.airtouchId h.scalars
theorem Rel.serial {s4 s5} (h : Rel s4 s5) : s4.serial = s5.serial := congrArg Scalars.serial h.scalars
theorem Rel.name {s4 s5} (h : Rel s4 s5) : s4.name = s5.name := congrArg Scalars.name h.scalars
theorem Rel.host {s4 s5} (h : Rel s4 s5) : s4.host = s5.host := congrArg Scalars.host h.scalars

theorem mapM_map_opt {α β γ} (f : α → Option β) (g : β → γ) (l : List α) :
    l.mapM (fun x => (f x).map g) = (l.mapM f).map (List.map g) := by
  induction l with
  | nil => rfl
  | cons x xs ih =>
    rw [List.mapM_cons, List.mapM_cons, ih]
    cases f x <;> cases xs.mapM f <;> rfl

theorem AbsAc.view_allTurbo (a : AbsAc) (zs : List ZoneView) :
    (a.view zs).map AcView.allTurbo = a.view (zs.map ZoneView.allTurbo) := by
  simp only [AbsAc.view, Option.bind_eq_bind, Option.pure_def]
  cases quickTimer a.timers.off_timer <;> cases quickTimer a.timers.on_timer <;> rfl

/-- the zone views behind a list of heap references -/
theorem zones_view_rel {zs4 : List Api4.ZoneObj} {zs5 : List Api5.ZoneObj} (h : ListRel ZoneRel zs4 zs5) (rs : List Nat)
    (hrs : ∀ r ∈ rs, r < zs4.length) :
    rs.mapM (fun r => (zs5[r]?).bind zoneView5) =
      ((rs.filterMap (zs4[·]?)).mapM zoneView4).map (List.map ZoneView.allTurbo) := by
  induction rs with
  | nil => rfl
  | cons r rs ih =>
    have hr : r < zs4.length := hrs r (by simp)
    rcases h.get r with ⟨h4, _⟩ | ⟨z4, z5, h4, h5, ⟨z, hz4, hz5⟩⟩
    · rw [List.getElem?_eq_getElem hr] at h4; cases h4
    · rw [List.mapM_cons, ih (fun r' hr' => hrs r' (by simp [hr'])), List.filterMap_cons, h4]
      simp only [h5, Option.bind_some, List.mapM_cons, zoneView4_embedded hz4, zoneView5_embedded hz5, Option.bind_eq_bind,
        Option.pure_def]
      cases ((rs.filterMap (zs4[·]?)).mapM zoneView4) <;> rfl

theorem acView_rel {zs4 : List Api4.ZoneObj} {zs5 : List Api5.ZoneObj} (h : ListRel ZoneRel zs4 zs5) {a4 : Api4.AcObj}
    {a5 : Api5.AcObj} (ha : AcRel zs4.length a4 a5) : acView5 zs5 a5 = (acView4 zs4 a4).map AcView.allTurbo := by
  obtain ⟨⟨a, h4, h5⟩, hz, hb⟩ := ha
  simp only [acView5, acView4, ← hz, zones_view_rel h a4.zones hb, Option.bind_eq_bind]
  cases ((a4.zones.filterMap (zs4[·]?)).mapM zoneView4) with
  | none => rfl
  | some zs =>
    simp only [Option.map_some, Option.bind_some, acView4Core_embedded h4, acView5Core_embedded h5, AbsAc.view_allTurbo]

/-- **equal attributes on related states**: the projected view of the AirTouch 5 state is the projected view of the
    AirTouch 4 state with `supported_power_states` of every zone replaced by the full list (the one stated asymmetry) -/
theorem view_rel {s4 : Api4.State} {s5 : Api5.State} (h : Rel s4 s5) : atView5 s5 = (atView4 s4).map AtView.allTurbo := by
  have hacs : ∀ d : List (Nat × Nat),
      (d.filterMap fun p => s5.aobjs[p.2]?).mapM (acView5 s5.zobjs) =
        ((d.filterMap fun p => s4.acObjs[p.2]?).mapM (acView4 s4.zoneObjs)).map (List.map AcView.allTurbo) := by
    intro d
    induction d with
    | nil => rfl
    | cons p ps ih =>
      rcases h.heap.acs.get p.2 with ⟨e4, e5⟩ | ⟨a4, a5, e4, e5, hab⟩
      · simp only [List.filterMap_cons, e4, e5, ih]
      · simp only [List.filterMap_cons, e4, e5, List.mapM_cons, ih, acView_rel h.heap.zones hab, Option.bind_eq_bind,
          Option.pure_def]
        cases acView4 s4.zoneObjs a4 <;>
          cases ((ps.filterMap fun p => s4.acObjs[p.2]?).mapM (acView4 s4.zoneObjs)) <;> rfl
  simp only [atView5, atView4, Api5.State.airConditioners, Api4.State.airConditioners, ← h.heap.acDict, hacs,
    Option.bind_eq_bind, Option.pure_def, ← h.initialised, ← h.updateAvailable, ← h.versions, ← h.airtouchId, ← h.serial,
    ← h.name, ← h.host]
  cases ((s4.acDict.filterMap fun p => s4.acObjs[p.2]?).mapM (acView4 s4.zoneObjs)) <;> rfl

/-- every zone object of the AirTouch 4 state says "turbo supported" -/
def AllTurbo (s4 : Api4.State) : Prop := ∀ z ∈ s4.zoneObjs, z.status.supports_turbo = true

/-! ### the status updates of both models as `updAt` -/

/-- `update_ac_status`, AirTouch 4 -/
def acStatusStep4 (r : At4.X2D.AcStatusData) (a : Api4.AcObj) : Option Api4.AcObj :=
  if a.status = r then none else some { a with status := r, errInfo := if r.error_code ≠ 0 then a.errInfo else none }

/-- `update_ac_status`, AirTouch 5 -/
def acStatusStep5 (r : At5.C023.AcStatusData) (a : Api5.AcObj) : Option Api5.AcObj :=
  if a.status = r then none
  else some { a with status := r, errInfo := if r.error_code ≠ 0 then a.errInfo else none }

def acTimerStep4 (r : AcTimerStatusData) (a : Api4.AcObj) : Option Api4.AcObj :=
  if a.timer = r then none else some { a with timer := r }
def acTimerStep5 (r : AcTimerStatusData) (a : Api5.AcObj) : Option Api5.AcObj :=
  if a.timer = r then none else some { a with timer := r }

def errInfoStep4 (e : Option Bytes) (a : Api4.AcObj) : Option Api4.AcObj :=
  if a.errInfo = e then none else some { a with errInfo := e }
def errInfoStep5 (e : Option Bytes) (a : Api5.AcObj) : Option Api5.AcObj :=
  if a.errInfo = e then none else some { a with errInfo := e }

def zoneStatusStep4 (g : At4.X2B.GroupStatusData) (z : Api4.ZoneObj) : Option Api4.ZoneObj :=
  if z.status = g then none else some { z with status := g }
def zoneStatusStep5 (g : At5.C021.ZoneStatusData) (z : Api5.ZoneObj) : Option Api5.ZoneObj :=
  if z.status = g then none else some { z with status := g }

theorem updateAcStatus4_eq (s : Api4.State) (r : At4.X2D.AcStatusData) :
    (Api4.updateAcStatus s r).1 = { s with acObjs := updAt s.acDict s.acObjs r.ac_number (acStatusStep4 r) } := by
  unfold Api4.updateAcStatus Api4.State.findAc Api4.State.setAc updAt acStatusStep4
  cases hd : s.acDict.lookup r.ac_number with
  | none => rfl
  | some i =>
    simp only [Option.bind_some]
    cases ha : s.acObjs[i]? with
    | none => rfl
    | some a =>
      simp only
      by_cases hs : a.status = r
      · simp only [hs, ↓reduceIte]
      · simp only [hs, ↓reduceIte]

theorem updateAcTimer4_eq (s : Api4.State) (r : AcTimerStatusData) :
    (Api4.updateAcTimer s r).1 = { s with acObjs := updAt s.acDict s.acObjs r.ac_number (acTimerStep4 r) } := by
  unfold Api4.updateAcTimer Api4.State.findAc Api4.State.setAc updAt acTimerStep4
  cases hd : s.acDict.lookup r.ac_number with
  | none => rfl
  | some i =>
    simp only [Option.bind_some]
    cases ha : s.acObjs[i]? with
    | none => rfl
    | some a =>
      simp only
      by_cases hs : a.timer = r
      · simp only [hs, ↓reduceIte]
      · simp only [hs, ↓reduceIte]

theorem updateErrInfo4_eq (s : Api4.State) (m : At4.FF10.AcErrorInformationMessage) :
    (Api4.updateErrInfo s m).1 = { s with acObjs := updAt s.acDict s.acObjs m.ac_number (errInfoStep4 m.error_info) } := by
  unfold Api4.updateErrInfo Api4.State.findAc Api4.State.setAc updAt errInfoStep4
  cases hd : s.acDict.lookup m.ac_number with
  | none => rfl
  | some i =>
    simp only [Option.bind_some]
    cases ha : s.acObjs[i]? with
    | none => rfl
    | some a =>
      simp only
      by_cases hs : a.errInfo = m.error_info
      · simp only [hs, ↓reduceIte]
      · simp only [hs, ↓reduceIte]

theorem updateGroupStatus4_eq (s : Api4.State) (g : At4.X2B.GroupStatusData) :
    (Api4.updateGroupStatus s g).1 =
      { s with zoneObjs := updAt s.zoneDict s.zoneObjs g.group_number (zoneStatusStep4 g) } := by
  unfold Api4.updateGroupStatus Api4.State.zoneOf Api4.State.setZone updAt zoneStatusStep4
  cases hd : s.zoneDict.lookup g.group_number with
  | none => rfl
  | some i =>
    simp only [Option.bind_some]
    cases ha : s.zoneObjs[i]? with
    | none => rfl
    | some a =>
      simp only
      by_cases hs : a.status = g
      · simp only [hs, ↓reduceIte]
      · simp only [hs, ↓reduceIte]

/-- a `for record in records: update(record)` loop over the AC heap -/
theorem foldEv4_ac {ρ} (f : Api4.State → ρ → Api4.State × List Api4.Ev) (key : ρ → Nat) (step : ρ → Api4.AcObj → Option Api4.AcObj)
    (hf : ∀ s r, (f s r).1 = { s with acObjs := updAt s.acDict s.acObjs (key r) (step r) }) (s : Api4.State) (l : List ρ) :
    (Api4.foldEv f s l).1 = { s with acObjs := l.foldl (fun L r => updAt s.acDict L (key r) (step r)) s.acObjs } := by
  induction l generalizing s with
  | nil => rfl
  | cons r rs ih =>
    simp only [Api4.foldEv, List.foldl_cons]
    rw [ih, hf]

theorem foldEv4_zone (s : Api4.State) (l : List At4.X2B.GroupStatusData) :
    (Api4.foldEv Api4.updateGroupStatus s l).1 =
      { s with zoneObjs := l.foldl (fun L g => updAt s.zoneDict L g.group_number (zoneStatusStep4 g)) s.zoneObjs } := by
  induction l generalizing s with
  | nil => rfl
  | cons r rs ih =>
    simp only [Api4.foldEv, List.foldl_cons]
    rw [ih, updateGroupStatus4_eq]

/-! AirTouch 5: with the socket open no handler step raises -/

theorem forEach5_ac {ρ} (g : Api5.State → ρ → Api5.HR) (key : ρ → Nat) (step : ρ → Api5.AcObj → Option Api5.AcObj)
    (hg : ∀ s r, s.sockOpen = true → (g s r).exc = none ∧
      (g s r).s = { s with aobjs := updAt s.acs s.aobjs (key r) (step r) }) (l : List ρ) (s : Api5.State)
    (ho : s.sockOpen = true) :
    (Api5.forEach l g s).exc = none ∧
    (Api5.forEach l g s).s = { s with aobjs := l.foldl (fun L r => updAt s.acs L (key r) (step r)) s.aobjs } := by
  induction l generalizing s with
  | nil => exact ⟨rfl, rfl⟩
  | cons r rs ih =>
    obtain ⟨h1, h2⟩ := hg s r ho
    simp only [Api5.forEach, List.foldl_cons, Api5.HR.andThen, h1]
    have ho' : ({ s with aobjs := updAt s.acs s.aobjs (key r) (step r) } : Api5.State).sockOpen = true := ho
    obtain ⟨i1, i2⟩ := ih _ ho'
    rw [h2]
    exact ⟨i1, by rw [i2]⟩

theorem forEach5_zone {ρ} (g : Api5.State → ρ → Api5.HR) (key : ρ → Nat) (step : ρ → Api5.ZoneObj → Option Api5.ZoneObj)
    (hg : ∀ s r, (g s r).exc = none ∧
      (g s r).s = { s with zobjs := updAt s.zones s.zobjs (key r) (step r) }) (l : List ρ) (s : Api5.State) :
    (Api5.forEach l g s).exc = none ∧
    (Api5.forEach l g s).s = { s with zobjs := l.foldl (fun L r => updAt s.zones L (key r) (step r)) s.zobjs } := by
  induction l generalizing s with
  | nil => exact ⟨rfl, rfl⟩
  | cons r rs ih =>
    obtain ⟨h1, h2⟩ := hg s r
    simp only [Api5.forEach, List.foldl_cons, Api5.HR.andThen, h1]
    obtain ⟨i1, i2⟩ := ih { s with zobjs := updAt s.zones s.zobjs (key r) (step r) }
    rw [h2]
    exact ⟨i1, by rw [i2]⟩

theorem processAcStatus5_eq (l : List At5.C023.AcStatusData) (s : Api5.State) (ho : s.sockOpen = true) :
    (Api5.processAcStatus l s).exc = none ∧
    (Api5.processAcStatus l s).s =
      { s with aobjs := l.foldl (fun L r => updAt s.acs L r.ac_number (acStatusStep5 r)) s.aobjs } := by
  unfold Api5.processAcStatus
  apply forEach5_ac _ (·.ac_number) acStatusStep5 _ l s ho
  intro s r ho
  unfold updAt Api5.State.acRef
  cases hd : s.acs.lookup r.ac_number with
  | none => exact ⟨rfl, rfl⟩
  | some i =>
    simp only [Api5.updateAcStatus, acStatusStep5]
    cases ha : s.aobjs[i]? with
    | none => exact ⟨rfl, rfl⟩
    | some a =>
      by_cases hs : a.status = r
      · simp [hs]
      · by_cases he : r.error_code = 0
        · simp [hs, he, Api5.State.setAc, modifyAt_const]
        · simp [hs, he, Api5.sendMsg, Api5.State.setAc, ho, Api5.HR.andThen, modifyAt_const]

theorem processAcTimer5_eq (l : List AcTimerStatusData) (s : Api5.State) (ho : s.sockOpen = true) :
    (Api5.processAcTimer l s).exc = none ∧
    (Api5.processAcTimer l s).s =
      { s with aobjs := l.foldl (fun L r => updAt s.acs L r.ac_number (acTimerStep5 r)) s.aobjs } := by
  unfold Api5.processAcTimer
  apply forEach5_ac _ (·.ac_number) acTimerStep5 _ l s ho
  intro s r ho
  unfold updAt Api5.State.acRef
  cases hd : s.acs.lookup r.ac_number with
  | none => exact ⟨rfl, rfl⟩
  | some i =>
    simp only [Api5.updateAcTimer, acTimerStep5]
    cases ha : s.aobjs[i]? with
    | none => exact ⟨rfl, rfl⟩
    | some a =>
      by_cases hs : a.timer = r
      · simp [hs]
      · simp [hs, Api5.State.setAc, modifyAt_const]

theorem processZoneStatus5_eq (l : List At5.C021.ZoneStatusData) (s : Api5.State) :
    (Api5.processZoneStatus l s).exc = none ∧
    (Api5.processZoneStatus l s).s =
      { s with zobjs := l.foldl (fun L r => updAt s.zones L r.zone_number (zoneStatusStep5 r)) s.zobjs } := by
  unfold Api5.processZoneStatus
  apply forEach5_zone _ (·.zone_number) zoneStatusStep5 _ l s
  intro s r
  unfold updAt
  cases hd : s.zones.lookup r.zone_number with
  | none => exact ⟨rfl, rfl⟩
  | some i =>
    simp only [Api5.updateZoneStatus, zoneStatusStep5]
    cases ha : s.zobjs[i]? with
    | none => exact ⟨rfl, rfl⟩
    | some a =>
      by_cases hs : a.status = r
      · simp [hs]
      · simp [hs, Api5.State.setZone, modifyAt_const]

theorem processErrInfo5_eq (m : At5.FF10.AcErrorInformationMessage) (s : Api5.State) :
    (Api5.processErrInfo m s).exc = none ∧
    (Api5.processErrInfo m s).s =
      { s with aobjs := updAt s.acs s.aobjs m.ac_number (errInfoStep5 m.error_info) } := by
  unfold Api5.processErrInfo updAt Api5.State.acRef
  cases hd : s.acs.lookup m.ac_number with
  | none => exact ⟨rfl, rfl⟩
  | some i =>
    simp only [Api5.updateAcErrInfo, errInfoStep5]
    cases ha : s.aobjs[i]? with
    | none => exact ⟨rfl, rfl⟩
    | some a =>
      by_cases hs : a.errInfo = m.error_info
      · simp [hs]
      · simp [hs, Api5.State.setAc, modifyAt_const]

/-! ### one embedded record keeps related objects related -/

theorem acStatusStep_rel {n : Nat} {a4 : Api4.AcObj} {a5 : Api5.AcObj} (h : AcRel n a4 a5) (x : AbsAcStatus) :
    AcRel n ((acStatusStep4 x.to4 a4).getD a4) ((acStatusStep5 x.to5 a5).getD a5) := by
  obtain ⟨⟨a, h4, h5⟩, hz, hb⟩ := h
  unfold acStatusStep4 acStatusStep5
  by_cases he : a.status = x
  · have e4 : a4.status = x.to4 := by rw [h4.status, he]
    have e5 : a5.status = x.to5 := by rw [h5.status, he]
    simp only [e4, e5, ↓reduceIte, Option.getD_none]
    exact ⟨⟨a, h4, h5⟩, hz, hb⟩
  · have e4 : a4.status ≠ x.to4 := by rw [h4.status]; exact fun e => he (AbsAcStatus.to4_inj e)
    have e5 : a5.status ≠ x.to5 := by rw [h5.status]; exact fun e => he (AbsAcStatus.to5_inj e)
    simp only [e4, e5, ↓reduceIte, Option.getD_some]
    refine ⟨⟨{ a with status := x, errText := if x.errorCode ≠ 0 then a.errText else none }, ?_, ?_⟩, hz, hb⟩
    · exact ⟨rfl, h4.timer, by show (if x.to4.error_code ≠ 0 then a4.errInfo else none) = _; rw [h4.errInfo]; rfl,
        h4.ability, h4.modes, h4.fans⟩
    · exact ⟨rfl, h5.timer, by show (if x.to5.error_code ≠ 0 then a5.errInfo else none) = _; rw [h5.errInfo]; rfl,
        h5.ability, h5.modes, h5.fans⟩

theorem acTimerStep_rel {n : Nat} {a4 : Api4.AcObj} {a5 : Api5.AcObj} (h : AcRel n a4 a5) (x : AcTimerStatusData) :
    AcRel n ((acTimerStep4 x a4).getD a4) ((acTimerStep5 x a5).getD a5) := by
  obtain ⟨⟨a, h4, h5⟩, hz, hb⟩ := h
  unfold acTimerStep4 acTimerStep5
  rw [h4.timer, h5.timer]
  by_cases he : a.timers = x
  · simp only [he, ↓reduceIte, Option.getD_none]
    exact ⟨⟨a, h4, h5⟩, hz, hb⟩
  · simp only [he, ↓reduceIte, Option.getD_some]
    exact ⟨⟨{ a with timers := x }, ⟨h4.status, rfl, h4.errInfo, h4.ability, h4.modes, h4.fans⟩,
      ⟨h5.status, rfl, h5.errInfo, h5.ability, h5.modes, h5.fans⟩⟩, hz, hb⟩

theorem errInfoStep_rel {n : Nat} {a4 : Api4.AcObj} {a5 : Api5.AcObj} (h : AcRel n a4 a5) (x : Option Bytes) :
    AcRel n ((errInfoStep4 x a4).getD a4) ((errInfoStep5 x a5).getD a5) := by
  obtain ⟨⟨a, h4, h5⟩, hz, hb⟩ := h
  unfold errInfoStep4 errInfoStep5
  rw [h4.errInfo, h5.errInfo]
  by_cases he : a.errText = x
  · simp only [he, ↓reduceIte, Option.getD_none]
    exact ⟨⟨a, h4, h5⟩, hz, hb⟩
  · simp only [he, ↓reduceIte, Option.getD_some]
    exact ⟨⟨{ a with errText := x }, ⟨h4.status, h4.timer, rfl, h4.ability, h4.modes, h4.fans⟩,
      ⟨h5.status, h5.timer, rfl, h5.ability, h5.modes, h5.fans⟩⟩, hz, hb⟩

/-- zones: whichever side considers the record a change, afterwards both hold the embeddings of the new status
    (the AirTouch 5 record does not carry `turbo`, so only AirTouch 4 may see a change) -/
theorem zoneStatusStep_rel {z4 : Api4.ZoneObj} {z5 : Api5.ZoneObj} (h : ZoneRel z4 z5) (x : AbsZoneStatus) :
    ZoneRel ((zoneStatusStep4 x.to4 z4).getD z4) ((zoneStatusStep5 x.to5 z5).getD z5) := by
  obtain ⟨z, h4, h5⟩ := h
  refine ⟨{ z with status := x }, ⟨?_, ?_⟩, ⟨?_, ?_⟩⟩
  · unfold zoneStatusStep4; split
    · exact h4.name
    · exact h4.name
  · unfold zoneStatusStep4; split
    · next e => exact e
    · rfl
  · unfold zoneStatusStep5; split
    · exact h5.name
    · exact h5.name
  · unfold zoneStatusStep5; split
    · next e => exact e
    · rfl

/-- a list of embedded records applied to related heaps -/
theorem foldl_updAt_rel {α β ρ} {R : α → β → Prop} (d : List (Nat × Nat)) (key : ρ → Nat) (s4 : ρ → α → Option α)
    (s5 : ρ → β → Option β) (hstep : ∀ x a b, R a b → R ((s4 x a).getD a) ((s5 x b).getD b)) (xs : List ρ)
    {l4 : List α} {l5 : List β} (h : ListRel R l4 l5) :
    ListRel R (xs.foldl (fun L x => updAt d L (key x) (s4 x)) l4) (xs.foldl (fun L x => updAt d L (key x) (s5 x)) l5) := by
  induction xs generalizing l4 l5 with
  | nil => exact h
  | cons x xs ih => exact ih (h.updAt d (key x) (s4 x) (s5 x) (hstep x))

theorem foldl_updAt_length {α ρ} (d : List (Nat × Nat)) (key : ρ → Nat) (st : ρ → α → Option α) (xs : List ρ) (l : List α) :
    (xs.foldl (fun L x => updAt d L (key x) (st x)) l).length = l.length := by
  induction xs generalizing l with
  | nil => rfl
  | cons x xs ih => rw [List.foldl_cons, ih, updAt_length]

/-! ### names and abilities: the heaps grow alike -/

theorem mem_dictInsert {β} (d : List (Nat × β)) (k : Nat) (v : β) (p : Nat × β) (h : p ∈ dictInsert d k v) :
    p ∈ d ∨ p = (k, v) := by
  unfold dictInsert at h
  split at h
  · obtain ⟨q, hq, e⟩ := List.mem_map.mp h
    by_cases hk : q.1 = k
    · simp only [hk, ↓reduceIte] at e; exact .inr e.symm
    · simp only [hk, ↓reduceIte] at e; exact .inl (e ▸ hq)
  · rcases List.mem_append.mp h with h1 | h1
    · exact .inl h1
    · exact .inr (by simpa using h1)

theorem AcRel.mono {n m : Nat} (hnm : n ≤ m) {a4 : Api4.AcObj} {a5 : Api5.AcObj} (h : AcRel n a4 a5) : AcRel m a4 a5 :=
  ⟨h.1, h.2.1, fun r hr => Nat.lt_of_lt_of_le (h.2.2 r hr) hnm⟩

theorem addZone_rel {s4 : Api4.State} {s5 : Api5.State} (h : HeapRel s4 s5) (p : Nat × Bytes) :
    HeapRel (Api4.addZone s4 p) (Api5.addZone s5 p) := by
  refine ⟨?_, h.acDict, ?_, ?_, ?_⟩
  · show dictInsert s4.zoneDict p.1 s4.zoneObjs.length = dictInsert s5.zones p.1 s5.zobjs.length
    rw [h.zoneDict, h.zones.1]
  · exact h.zones.push _ _ ⟨.initial p.1 p.2, mkZone_embedded _ _, newZone_embedded _ _⟩
  · show ListRel (AcRel (s4.zoneObjs ++ [Api4.mkZone p.1 p.2]).length) s4.acObjs s5.aobjs
    exact h.acs.mono fun a b hab => hab.mono (by simp)
  · intro q hq
    show q.2 < (s4.zoneObjs ++ [Api4.mkZone p.1 p.2]).length
    rcases mem_dictInsert _ _ _ _ hq with h1 | h1
    · have := h.zoneRefs q h1; simp; omega
    · subst h1; simp

/-- the names message: explicit form of both new states, related heaps -/
theorem names_rel {s4 : Api4.State} {s5 : Api5.State} (h : HeapRel s4 s5) (names : List (Nat × Bytes)) :
    ∃ Z4 D4 Z5 D5, Api4.processGroupNames s4 names = { s4 with zoneObjs := Z4, zoneDict := D4 } ∧
      Api5.processZoneNames names s5 = { s5 with zobjs := Z5, zones := D5 } ∧
      HeapRel { s4 with zoneObjs := Z4, zoneDict := D4 } { s5 with zobjs := Z5, zones := D5 } := by
  unfold Api4.processGroupNames Api5.processZoneNames
  induction names generalizing s4 s5 with
  | nil => exact ⟨_, _, _, _, rfl, rfl, h⟩
  | cons p ps ih =>
    obtain ⟨Z4, D4, Z5, D5, e4, e5, hr⟩ := ih (addZone_rel h p)
    exact ⟨Z4, D4, Z5, D5, e4, e5, hr⟩

theorem modifyAt_eq {α} (l : List α) (i : Nat) (f : α → α) :
    Api5.modifyAt l i f = match l[i]? with
      | some b => l.set i (f b)
      | none => l := by
  induction l generalizing i with
  | nil => rfl
  | cons x xs ih =>
    cases i with
    | zero => rfl
    | succ j =>
      simp only [Api5.modifyAt, ih, List.getElem?_cons_succ]
      cases xs[j]? <;> rfl

theorem ListRel.modifyAt_right {α β} {R : α → β → Prop} {l4 : List α} {l5 : List β} (h : ListRel R l4 l5) (i : Nat)
    (f : β → β) (hf : ∀ a b, R a b → R a (f b)) : ListRel R l4 (Api5.modifyAt l5 i f) := by
  rw [modifyAt_eq]
  rcases h.get i with ⟨_, e5⟩ | ⟨a, b, e4, e5, hab⟩
  · rw [e5]; exact h
  · rw [e5]
    exact h.set_right i (f b) (by intro a0 ha0; rw [e4] at ha0; cases ha0; exact hf a b hab)

theorem attachAc_rel {l4 : List Api4.ZoneObj} {l5 : List Api5.ZoneObj} (h : ListRel ZoneRel l4 l5) (r : Nat)
    (refs : List Nat) : ListRel ZoneRel l4 (Api5.attachAc r refs l5) := by
  unfold Api5.attachAc
  induction refs generalizing l5 with
  | nil => exact h
  | cons x xs ih =>
    exact ih (h.modifyAt_right x _ (by
      rintro a b ⟨z, h4, h5⟩
      exact ⟨z, h4, ⟨h5.name, h5.status⟩⟩))

theorem mapM_range'_eq_zoneRange (d : List (Nat × Nat)) (start count : Nat) :
    (List.range' start count).mapM (fun g => d.lookup g) = Api5.zoneRange d start count := by
  induction count generalizing start with
  | zero => rfl
  | succ c ih =>
    rw [List.range'_succ, List.mapM_cons, ih, Api5.zoneRange]
    cases d.lookup start <;> cases Api5.zoneRange d (start + 1) c <;> rfl

theorem zoneRange_skip (k v : Nat) (d : List (Nat × Nat)) (start count : Nat) (hk : k < start) :
    Api5.zoneRange ((k, v) :: d) start count = Api5.zoneRange d start count := by
  induction count generalizing start with
  | zero => rfl
  | succ c ih =>
    have hne : (start == k) = false := by simp; omega
    simp only [Api5.zoneRange, List.lookup_cons, hne, ih (start + 1) (by omega)]

/-- a single AC whose range is exactly the named zones (in order): the range lookup gives every dictionary value -/
theorem zoneRange_all (d : List (Nat × Nat)) (start count : Nat) (h : d.map (·.1) = List.range' start count) :
    Api5.zoneRange d start count = some (d.map (·.2)) := by
  induction d generalizing start count with
  | nil =>
    cases count with
    | zero => rfl
    | succ c => simp [List.range'_succ] at h
  | cons p ps ih =>
    cases count with
    | zero => simp at h
    | succ c =>
      obtain ⟨k, v⟩ := p
      simp only [List.map_cons, List.range'_succ, List.cons.injEq] at h
      obtain ⟨hk, hrest⟩ := h
      subst hk
      simp only [Api5.zoneRange, List.lookup_cons, beq_self_eq_true, zoneRange_skip k v ps (k + 1) c (by omega),
        ih (k + 1) c hrest, List.map_cons]

theorem mem_of_lookup {d : List (Nat × Nat)} {k v : Nat} (h : d.lookup k = some v) : (k, v) ∈ d := by
  induction d with
  | nil => cases h
  | cons p ps ih =>
    obtain ⟨a, b⟩ := p
    rw [List.lookup_cons] at h
    by_cases hk : (k == a) = true
    · simp only [hk] at h; cases h
      have : k = a := by simpa using hk
      subst this; simp
    · have hk' : (k == a) = false := by simpa using hk
      simp only [hk'] at h
      exact List.mem_cons_of_mem _ (ih h)

/-- what the range lookup finds are dictionary values -/
theorem zoneRange_mem (d : List (Nat × Nat)) (start count : Nat) (refs : List Nat)
    (h : Api5.zoneRange d start count = some refs) : ∀ r ∈ refs, ∃ k, (k, r) ∈ d := by
  induction count generalizing start refs with
  | zero => simp only [Api5.zoneRange, Option.some.injEq] at h; subst h; simp
  | succ c ih =>
    simp only [Api5.zoneRange] at h
    cases hl : d.lookup start with
    | none => simp [hl] at h
    | some v =>
      cases hr : Api5.zoneRange d (start + 1) c with
      | none => simp [hl, hr] at h
      | some rs =>
        simp only [hl, hr, Option.some.injEq] at h
        subst h
        intro r hr'
        rcases List.mem_cons.mp hr' with rfl | hm
        · exact ⟨start, mem_of_lookup hl⟩
        · exact ih (start + 1) rs hr r hm

/-- the AirTouch 4 rule for a *single* AC without group bitmap - "all named groups belong to it", whatever
    `start_group` / `group_count` say - agrees with the range rule exactly when the range is the named groups -/
def SingleOk (d : List (Nat × Nat)) (single : Bool) (i : AbsAcInfo) : Prop :=
  single = true → d.map (·.1) = List.range' i.firstZone i.zoneCount

theorem zonesForAbility_embedded (s4 : Api4.State) (single : Bool) (i : AbsAcInfo) (hs : SingleOk s4.zoneDict single i) :
    Api4.zonesForAbility s4 single i.to4 = Api5.zoneRange s4.zoneDict i.firstZone i.zoneCount := by
  simp only [Api4.zonesForAbility, AbsAcInfo.to4]
  cases single with
  | true => simp only [↓reduceIte]; rw [zoneRange_all _ _ _ (hs rfl)]
  | false => simp only [Bool.false_eq_true, ↓reduceIte]; exact mapM_range'_eq_zoneRange _ _ _

/-- one ability record: both constructors fail alike (`KeyError`: a zone of the range is not named) or both add
    related AC objects -/
theorem addAc_rel {s4 : Api4.State} {s5 : Api5.State} (h : HeapRel s4 s5) (single : Bool) (i : AbsAcInfo)
    (hs : SingleOk s4.zoneDict single i) :
    (Api4.addAc s4 single i.to4 = none ∧ Api5.addAc s5 i.to5 = none) ∨
    ∃ A4 D4 A5 Z5 D5, Api4.addAc s4 single i.to4 = some { s4 with acObjs := A4, acDict := D4 } ∧
      Api5.addAc s5 i.to5 = some { s5 with aobjs := A5, zobjs := Z5, acs := D5 } ∧
      HeapRel { s4 with acObjs := A4, acDict := D4 } { s5 with aobjs := A5, zobjs := Z5, acs := D5 } := by
  have hz := zonesForAbility_embedded s4 single i hs
  have e5 : Api5.zoneRange s5.zones i.to5.start_zone i.to5.zone_count = Api5.zoneRange s4.zoneDict i.firstZone i.zoneCount := by
    rw [h.zoneDict]; rfl
  cases hr : Api5.zoneRange s4.zoneDict i.firstZone i.zoneCount with
  | none =>
    left
    rw [hr] at hz e5
    exact ⟨by simp [Api4.addAc, hz], by simp only [Api5.addAc, e5]⟩
  | some refs =>
    right
    rw [hr] at hz e5
    obtain ⟨o, ho, hio, hoz, _, _⟩ := mkAc_embedded i refs
    refine ⟨s4.acObjs ++ [o], dictInsert s4.acDict i.number s4.acObjs.length,
      s5.aobjs ++ [Api5.newAc i.to5 refs i.supportedModes i.supportedFanSpeeds],
      Api5.attachAc s5.aobjs.length refs s5.zobjs, dictInsert s5.acs i.number s5.aobjs.length, ?_, ?_, ?_⟩
    · simp only [Api4.addAc, hz, ho, Option.bind_eq_bind, Option.bind_some, Option.pure_def]; rfl
    · simp only [Api5.addAc, e5, supported_modes5, supported_fans5]; rfl
    · refine ⟨h.zoneDict, ?_, attachAc_rel h.zones _ _, ?_, h.zoneRefs⟩
      · show dictInsert s4.acDict i.number s4.acObjs.length = dictInsert s5.acs i.number s5.aobjs.length
        rw [h.acDict, h.acs.1]
      · refine h.acs.push _ _ ⟨⟨.initial i, hio, newAc_embedded i refs⟩, hoz, ?_⟩
        intro r hr'
        rw [hoz] at hr'
        obtain ⟨k, hk⟩ := zoneRange_mem _ _ _ _ hr r hr'
        exact h.zoneRefs _ hk

/-- the ability message: both loops stop alike (at the first record naming an unknown zone) with related heaps -/
theorem abilities_rel {s4 : Api4.State} {s5 : Api5.State} (h : HeapRel s4 s5) (single : Bool) (infos : List AbsAcInfo)
    (hs : ∀ i ∈ infos, SingleOk s4.zoneDict single i) :
    ∃ A4 D4 A5 Z5 D5 ok, Api4.processAbility s4 single (infos.map AbsAcInfo.to4) = ({ s4 with acObjs := A4, acDict := D4 }, ok) ∧
      (Api5.processAcAbility (infos.map AbsAcInfo.to5) s5).s = { s5 with aobjs := A5, zobjs := Z5, acs := D5 } ∧
      (Api5.processAcAbility (infos.map AbsAcInfo.to5) s5).exc = (if ok then none else some "KeyError") ∧
      HeapRel { s4 with acObjs := A4, acDict := D4 } { s5 with aobjs := A5, zobjs := Z5, acs := D5 } := by
  induction infos generalizing s4 s5 with
  | nil => exact ⟨_, _, _, _, _, true, rfl, rfl, rfl, h⟩
  | cons i is ih =>
    rcases addAc_rel h single i (hs i (by simp)) with ⟨e4, e5⟩ | ⟨A4, D4, A5, Z5, D5, e4, e5, hr⟩
    · refine ⟨_, _, _, _, _, false, ?_, ?_, ?_, h⟩
      · simp only [List.map_cons, Api4.processAbility, e4]
      · simp only [List.map_cons, Api5.processAcAbility, Api5.forEach, e5, Api5.HR.andThen]
      · simp only [List.map_cons, Api5.processAcAbility, Api5.forEach, e5, Api5.HR.andThen]; rfl
    · obtain ⟨A4', D4', A5', Z5', D5', ok, f4, f5, fx, hr'⟩ := ih hr (fun j hj => hs j (by simp [hj]))
      refine ⟨A4', D4', A5', Z5', D5', ok, ?_, ?_, ?_, hr'⟩
      · simp only [List.map_cons, Api4.processAbility, e4]; exact f4
      · simp only [List.map_cons, Api5.processAcAbility, Api5.forEach, e5, Api5.HR.andThen]
        exact f5
      · simp only [List.map_cons, Api5.processAcAbility, Api5.forEach, e5, Api5.HR.andThen]
        exact fx

/-! ### the messages both consoles can send, and one step of both models -/

/-- a console report expressible in both protocols -/
inductive AbsMsg
  | version (updateAvailable : Bool) (versions : List Bytes)
  | names (l : List (Nat × Bytes))
  | abilities (l : List AbsAcInfo)
  | acStatus (l : List AbsAcStatus)
  | acTimers (l : List AcTimerStatusData)
  | zoneStatus (l : List AbsZoneStatus)
  | errInfo (ac : Nat) (text : Option Bytes)
deriving DecidableEq, Repr

/-- the AirTouch 4 message object -/
def AbsMsg.to4 : AbsMsg → Api4.RMsg
  | .version u vs => .extended (.consoleVer (.message ⟨u, vs⟩))
  | .names l => .extended (.groupNames (.message ⟨l⟩))
  | .abilities l => .extended (.acAbility (.ability (l.map AbsAcInfo.to4)))
  | .acStatus l => .acStatus (.status (l.map AbsAcStatus.to4))
  | .acTimers l => .acTimerStatus (.status l)
  | .zoneStatus l => .groupStatus (.status (l.map AbsZoneStatus.to4))
  | .errInfo ac t => .extended (.errInfo (.message ⟨ac, t⟩))

/-- the AirTouch 5 message object -/
def AbsMsg.to5 : AbsMsg → At5.Registry.Msg
  | .version u vs => .extended (.consoleVer (.message ⟨u, vs⟩))
  | .names l => .extended (.zoneNames (.message ⟨l⟩))
  | .abilities l => .extended (.acAbility (.ability (l.map AbsAcInfo.to5)))
  | .acStatus l => .controlStatus (.acStatus (.status (l.map AbsAcStatus.to5)))
  | .acTimers l => .controlStatus (.acTimerStatus (.status l))
  | .zoneStatus l => .controlStatus (.zoneStatus (.status (l.map AbsZoneStatus.to5)))
  | .errInfo ac t => .extended (.errInfo (.message ⟨ac, t⟩))

/-- the one side condition: an ability message with a single AC must give it exactly the named zones (AirTouch 4 gives a
    single AC without bitmap every named group, AirTouch 5 the range) -/
def AbsMsg.Admissible (s4 : Api4.State) : AbsMsg → Prop
  | .abilities l => ∀ i ∈ l, SingleOk s4.zoneDict (l.length == 1) i
  | _ => True

theorem stCorr_INIT_VERSION (x : Api4.AState) : stCorr x = .INIT_VERSION ↔ x = .INIT_VERSION := by cases x <;> simp [stCorr]
theorem stCorr_INIT_ZONE_NAMES (x : Api4.AState) : stCorr x = .INIT_ZONE_NAMES ↔ x = .INIT_GROUP_NAMES := by
  cases x <;> simp [stCorr]
theorem stCorr_INIT_AC_ABILITY (x : Api4.AState) : stCorr x = .INIT_AC_ABILITY ↔ x = .INIT_AC_ABILITY := by
  cases x <;> simp [stCorr]
theorem stCorr_INIT_AC_STATUS (x : Api4.AState) : stCorr x = .INIT_AC_STATUS ↔ x = .INIT_AC_STATUS := by
  cases x <;> simp [stCorr]
theorem stCorr_INIT_AC_TIMER_STATUS (x : Api4.AState) : stCorr x = .INIT_AC_TIMER_STATUS ↔ x = .INIT_AC_TIMER_STATUS := by
  cases x <;> simp [stCorr]
theorem stCorr_INIT_ZONE_STATUS (x : Api4.AState) : stCorr x = .INIT_ZONE_STATUS ↔ x = .INIT_GROUP_STATUS := by
  cases x <;> simp [stCorr]
theorem stCorr_CONNECTED (x : Api4.AState) : stCorr x = .CONNECTED ↔ x = .CONNECTED := by cases x <;> simp [stCorr]
theorem stCorr_CONNECTING (x : Api4.AState) : stCorr x = .CONNECTING ↔ x = .CONNECTING := by cases x <;> simp [stCorr]

theorem sendMsg_s (s : Api5.State) (p : Api5.Policy) (m : At5.Registry.Msg) (b : Bool) : (Api5.sendMsg s p m b).s = s := by
  unfold Api5.sendMsg; split <;> rfl

theorem andThen_s (r : Api5.HR) (f : Api5.State → Api5.HR) (h : r.exc = none) : (r.andThen f).s = (f r.s).s := by
  simp only [Api5.HR.andThen, h]

theorem updateVersion4_eq (s : Api4.State) (v : At4.FF30.ConsoleVersionMessage) :
    (Api4.updateVersion s v).1 = { s with version := v } := by
  unfold Api4.updateVersion
  split
  · next h => rw [← h]
  · rfl

theorem processConsoleVersionUpdate5_eq (v : At5.FF30.ConsoleVersionMessage) (s : Api5.State) :
    (Api5.processConsoleVersionUpdate v s).s = { s with consoleVersion := v } := by
  unfold Api5.processConsoleVersionUpdate
  split
  · next h => rw [← h]
  · rfl

/-- a relation-preserving change of the AC heaps -/
theorem Rel.withAcs {s4 : Api4.State} {s5 : Api5.State} (h : Rel s4 s5) {A4 : List Api4.AcObj} {A5 : List Api5.AcObj}
    (hA : ListRel (AcRel s4.zoneObjs.length) A4 A5) (st4 : Api4.AState) :
    Rel { s4 with acObjs := A4, st := st4 } { s5 with aobjs := A5, st := stCorr st4 } :=
  ⟨⟨h.heap.zoneDict, h.heap.acDict, h.heap.zones, hA, h.heap.zoneRefs⟩, rfl, h.scalars, h.isOpen⟩

/-- a relation-preserving change of the zone heaps (same length) -/
theorem Rel.withZones {s4 : Api4.State} {s5 : Api5.State} (h : Rel s4 s5) {Z4 : List Api4.ZoneObj} {Z5 : List Api5.ZoneObj}
    (hZ : ListRel ZoneRel Z4 Z5) (hlen : Z4.length = s4.zoneObjs.length) (st4 : Api4.AState) :
    Rel { s4 with zoneObjs := Z4, st := st4 } { s5 with zobjs := Z5, st := stCorr st4 } :=
  ⟨⟨h.heap.zoneDict, h.heap.acDict, hZ, by show ListRel (AcRel Z4.length) _ _; rw [hlen]; exact h.heap.acs,
    by intro p hp; show p.2 < Z4.length; rw [hlen]; exact h.heap.zoneRefs p hp⟩, rfl, h.scalars, h.isOpen⟩

theorem st_eq_self (s4 : Api4.State) : ({ s4 with st := s4.st } : Api4.State) = s4 := rfl

theorem Rel.withAcs0 {s4 : Api4.State} {s5 : Api5.State} (h : Rel s4 s5) {A4 : List Api4.AcObj} {A5 : List Api5.AcObj}
    (hA : ListRel (AcRel s4.zoneObjs.length) A4 A5) : Rel { s4 with acObjs := A4 } { s5 with aobjs := A5 } :=
  ⟨⟨h.heap.zoneDict, h.heap.acDict, h.heap.zones, hA, h.heap.zoneRefs⟩, h.st, h.scalars, h.isOpen⟩

theorem Rel.withZones0 {s4 : Api4.State} {s5 : Api5.State} (h : Rel s4 s5) {Z4 : List Api4.ZoneObj} {Z5 : List Api5.ZoneObj}
    (hZ : ListRel ZoneRel Z4 Z5) (hlen : Z4.length = s4.zoneObjs.length) :
    Rel { s4 with zoneObjs := Z4 } { s5 with zobjs := Z5 } :=
  ⟨⟨h.heap.zoneDict, h.heap.acDict, hZ, by show ListRel (AcRel Z4.length) _ _; rw [hlen]; exact h.heap.acs,
    by intro p hp; show p.2 < Z4.length; rw [hlen]; exact h.heap.zoneRefs p hp⟩, h.st, h.scalars, h.isOpen⟩

/-- `CONNECTED`, heartbeat manager started, initialised event set: both models alike -/
theorem connected_rel {s4 : Api4.State} {s5 : Api5.State} (h : Rel s4 s5) :
    Rel (Api4.enterConnected s4).1 (Api5.finishInit s5).s := by
  have hs := h.scalars
  simp only [scalars4, scalars5, Scalars.mk.injEq] at hs
  simp only [Api4.enterConnected, Api4.hbStart, Api5.finishInit, Api5.hbFeed, Api5.setInitialised]
  split
  · exact ⟨⟨h.heap.zoneDict, h.heap.acDict, h.heap.zones, h.heap.acs, h.heap.zoneRefs⟩, rfl,
      by simp only [scalars4, scalars5, Scalars.mk.injEq]; simp [hs], h.isOpen⟩
  · exact ⟨⟨h.heap.zoneDict, h.heap.acDict, h.heap.zones, h.heap.acs, h.heap.zoneRefs⟩, rfl,
      by simp only [scalars4, scalars5, Scalars.mk.injEq]; simp [hs], h.isOpen⟩

/-- the message handlers `AirTouch4._message_received` / `AirTouch5._message_received` keep states related -/
theorem onMessage_rel {s4 : Api4.State} {s5 : Api5.State} (h : Rel s4 s5) (m : AbsMsg) (toAddr : Nat)
    (hadm : m.Admissible s4) : Rel (Api4.onMessage s4 m.to4).1 (Api5.handleMessage s5 toAddr m.to5).s := by
  have ho5 := h.open5
  cases m with
  | version u vs =>
    simp only [AbsMsg.to4, AbsMsg.to5, Api4.onMessage, Api5.handleMessage, h.st, stCorr_INIT_VERSION, stCorr_CONNECTED]
    by_cases h1 : s4.st = .INIT_VERSION
    · simp only [h1, ↓reduceIte, sendMsg_s]
      exact ⟨⟨h.heap.zoneDict, h.heap.acDict, h.heap.zones, h.heap.acs, h.heap.zoneRefs⟩, rfl,
        by have := h.scalars; simp only [scalars4, scalars5, Scalars.mk.injEq] at this ⊢; simp [this], h.isOpen⟩
    · by_cases h2 : s4.st = .CONNECTED
      · simp only [h2, ↓reduceIte, reduceCtorEq, updateVersion4_eq, processConsoleVersionUpdate5_eq]
        exact ⟨⟨h.heap.zoneDict, h.heap.acDict, h.heap.zones, h.heap.acs, h.heap.zoneRefs⟩,
          by show s5.st = stCorr .CONNECTED; rw [h.st, h2],
          by have := h.scalars; simp only [scalars4, scalars5, Scalars.mk.injEq] at this ⊢; simp [this], h.isOpen⟩
      · simp only [h1, h2, ↓reduceIte]; exact h
  | names l =>
    simp only [AbsMsg.to4, AbsMsg.to5, Api4.onMessage, Api5.handleMessage, h.st, stCorr_INIT_ZONE_NAMES]
    by_cases h1 : s4.st = .INIT_GROUP_NAMES
    · simp only [h1, ↓reduceIte, sendMsg_s]
      obtain ⟨Z4, D4, Z5, D5, e4, e5, hr⟩ := names_rel h.heap l
      rw [e4, e5]
      exact ⟨⟨hr.zoneDict, hr.acDict, hr.zones, hr.acs, hr.zoneRefs⟩, rfl, h.scalars, h.isOpen⟩
    · simp only [h1, ↓reduceIte]; exact h
  | abilities l =>
    simp only [AbsMsg.to4, AbsMsg.to5, Api4.onMessage, Api5.handleMessage, h.st, stCorr_INIT_AC_ABILITY]
    by_cases h1 : s4.st = .INIT_AC_ABILITY
    · simp only [h1, ↓reduceIte, List.length_map]
      obtain ⟨A4, D4, A5, Z5, D5, ok, e4, e5, ex, hr⟩ := abilities_rel h.heap (l.length == 1) l hadm
      rw [e4]
      cases ok with
      | true =>
        simp only [↓reduceIte] at ex
        rw [andThen_s _ _ ex, sendMsg_s, e5]
        exact ⟨⟨hr.zoneDict, hr.acDict, hr.zones, hr.acs, hr.zoneRefs⟩, rfl, h.scalars, h.isOpen⟩
      | false =>
        simp only [Bool.false_eq_true, ↓reduceIte] at ex
        simp only [Api5.HR.andThen, ex, e5]
        exact ⟨⟨hr.zoneDict, hr.acDict, hr.zones, hr.acs, hr.zoneRefs⟩, by show s5.st = stCorr s4.st; exact h.st,
          h.scalars, h.isOpen⟩
    · simp only [h1, ↓reduceIte]; exact h
  | acStatus l =>
    simp only [AbsMsg.to4, AbsMsg.to5, Api4.onMessage, Api5.handleMessage, h.st, stCorr_INIT_AC_STATUS, stCorr_CONNECTED]
    obtain ⟨x5, e5⟩ := processAcStatus5_eq (l.map AbsAcStatus.to5) s5 ho5
    have e4 := foldEv4_ac Api4.updateAcStatus (·.ac_number) acStatusStep4 updateAcStatus4_eq s4 (l.map AbsAcStatus.to4)
    have hA : ListRel (AcRel s4.zoneObjs.length)
        ((l.map AbsAcStatus.to4).foldl (fun L r => updAt s4.acDict L r.ac_number (acStatusStep4 r)) s4.acObjs)
        ((l.map AbsAcStatus.to5).foldl (fun L r => updAt s5.acs L r.ac_number (acStatusStep5 r)) s5.aobjs) := by
      rw [List.foldl_map, List.foldl_map, ← h.heap.acDict]
      exact foldl_updAt_rel (R := AcRel s4.zoneObjs.length) s4.acDict (·.number) (fun x => acStatusStep4 x.to4) (fun x => acStatusStep5 x.to5)
        (fun x a b hab => acStatusStep_rel hab x) l h.heap.acs
    by_cases h1 : s4.st = .INIT_AC_STATUS
    · simp only [h1, ↓reduceIte]
      rw [andThen_s _ _ x5, sendMsg_s, e4, e5]
      exact h.withAcs hA _
    · by_cases h2 : s4.st = .CONNECTED
      · simp only [h2, ↓reduceIte, reduceCtorEq]
        rw [e4, e5]
        exact h.withAcs0 hA
      · simp only [h1, h2, ↓reduceIte]; exact h
  | acTimers l =>
    simp only [AbsMsg.to4, AbsMsg.to5, Api4.onMessage, Api4.processTimers, Api5.handleMessage, h.st,
      stCorr_INIT_AC_TIMER_STATUS, stCorr_CONNECTED]
    obtain ⟨x5, e5⟩ := processAcTimer5_eq l s5 ho5
    have e4 := foldEv4_ac Api4.updateAcTimer (·.ac_number) acTimerStep4 updateAcTimer4_eq s4 l
    have hA : ListRel (AcRel s4.zoneObjs.length)
        (l.foldl (fun L r => updAt s4.acDict L r.ac_number (acTimerStep4 r)) s4.acObjs)
        (l.foldl (fun L r => updAt s5.acs L r.ac_number (acTimerStep5 r)) s5.aobjs) := by
      rw [← h.heap.acDict]
      exact foldl_updAt_rel (R := AcRel s4.zoneObjs.length) s4.acDict (·.ac_number) acTimerStep4 acTimerStep5
        (fun x a b hab => acTimerStep_rel hab x) l h.heap.acs
    by_cases h1 : s4.st = .INIT_AC_TIMER_STATUS
    · simp only [h1, ↓reduceIte]
      rw [andThen_s _ _ x5, sendMsg_s, e4, e5]
      exact h.withAcs hA _
    · by_cases h2 : s4.st = .CONNECTED
      · simp only [h2, ↓reduceIte, reduceCtorEq]
        rw [e4, e5]
        exact h.withAcs0 hA
      · simp only [h1, h2, ↓reduceIte]; exact h
  | zoneStatus l =>
    simp only [AbsMsg.to4, AbsMsg.to5, Api4.onMessage, Api5.handleMessage, h.st, stCorr_INIT_ZONE_STATUS, stCorr_CONNECTED]
    obtain ⟨x5, e5⟩ := processZoneStatus5_eq (l.map AbsZoneStatus.to5) s5
    have hZ : ∀ d, d = s4.zoneDict → ListRel ZoneRel
        ((l.map AbsZoneStatus.to4).foldl (fun L r => updAt d L r.group_number (zoneStatusStep4 r)) s4.zoneObjs)
        ((l.map AbsZoneStatus.to5).foldl (fun L r => updAt s5.zones L r.zone_number (zoneStatusStep5 r)) s5.zobjs) := by
      intro d hd
      rw [List.foldl_map, List.foldl_map, ← h.heap.zoneDict, hd]
      exact foldl_updAt_rel (R := ZoneRel) s4.zoneDict (·.number) (fun x => zoneStatusStep4 x.to4) (fun x => zoneStatusStep5 x.to5)
        (fun x a b hab => zoneStatusStep_rel hab x) l h.heap.zones
    have hlen : ∀ d, ((l.map AbsZoneStatus.to4).foldl (fun L r => updAt d L r.group_number (zoneStatusStep4 r))
        s4.zoneObjs).length = s4.zoneObjs.length := fun d => foldl_updAt_length _ _ _ _ _
    by_cases h1 : s4.st = .INIT_GROUP_STATUS
    · simp only [h1, ↓reduceIte]
      rw [andThen_s _ _ x5, e5, foldEv4_zone]
      exact connected_rel (h.withZones0 (hZ _ rfl) (hlen _))
    · by_cases h2 : s4.st = .CONNECTED
      · simp only [h2, ↓reduceIte, reduceCtorEq]
        rw [e5, foldEv4_zone]
        exact (Rel.withZones0 (s4 := Api4.rearmPolls s4) ⟨⟨h.heap.zoneDict, h.heap.acDict, h.heap.zones, h.heap.acs, h.heap.zoneRefs⟩, h.st, h.scalars, h.isOpen⟩ (hZ _ rfl) (hlen _))
      · simp only [h1, h2, ↓reduceIte]; exact h
  | errInfo ac t =>
    simp only [AbsMsg.to4, AbsMsg.to5, Api4.onMessage, Api5.handleMessage]
    obtain ⟨x5, e5⟩ := processErrInfo5_eq ⟨ac, t⟩ s5
    rw [updateErrInfo4_eq, e5]
    have hA : ListRel (AcRel s4.zoneObjs.length) (updAt s4.acDict s4.acObjs ac (errInfoStep4 t))
        (updAt s5.acs s5.aobjs ac (errInfoStep5 t)) := by
      rw [← h.heap.acDict]
      exact h.heap.acs.updAt _ _ _ _ (fun a b hab => errInfoStep_rel hab t)
    exact h.withAcs0 hA

theorem Rel.hb4 {s4 : Api4.State} {s5 : Api5.State} (h : Rel s4 s5) (x : Heartbeat.HB) : Rel { s4 with hb := x } s5 :=
  ⟨⟨h.heap.zoneDict, h.heap.acDict, h.heap.zones, h.heap.acs, h.heap.zoneRefs⟩, h.st, h.scalars, h.isOpen⟩

theorem Rel.hb5 {s4 : Api4.State} {s5 : Api5.State} (h : Rel s4 s5) (x : Heartbeat.HB) : Rel s4 { s5 with hb := x } :=
  ⟨⟨h.heap.zoneDict, h.heap.acDict, h.heap.zones, h.heap.acs, h.heap.zoneRefs⟩, h.st, h.scalars, h.isOpen⟩

/-- **one step**: a related pair of states stays related after a pair of embedded messages (any message kind, any state
    of the handshake or after it) -/
theorem step_rel {s4 : Api4.State} {s5 : Api5.State} (h : Rel s4 s5) (m : AbsMsg) (toAddr : Nat)
    (hadm : m.Admissible s4) :
    Rel (Api4.apiStep s4 (.recv m.to4)).1 (Api5.apiStep s5 (.msg toAddr m.to5)).1 := by
  simp only [Api4.apiStep, Api4.recv, Api5.apiStep, Api5.doMsg, ← h.subscribed]
  cases hsub : s4.subscribed with
  | false => simp only [Bool.false_eq_true, ↓reduceIte, Api4.hbOnMessage]; split <;> first | exact h | exact h.hb4 _
  | true =>
    simp only [↓reduceIte]
    have hr := onMessage_rel h m toAddr hadm
    have h4 : Rel (Api4.hbOnMessage (Api4.onMessage s4 m.to4).1 m.to4) (Api5.handleMessage s5 toAddr m.to5).s := by
      unfold Api4.hbOnMessage; split
      · exact hr.hb4 _
      · exact hr
    split
    · exact h4.hb5 _
    · exact h4

/-- the AirTouch 5 object the harness would build with the identification of the AirTouch 4 one -/
def fresh5 : Api5.State :=
  Api5.State.new Api4.State.initial.airtouchId Api4.State.initial.serial Api4.State.initial.name Api4.State.initial.host

/-- **base case**: `init()` and the connection coming up, on fresh objects -/
theorem rel_after_init :
    Rel (Api4.run Api4.State.initial [.init, .conn true]).1 (Api5.run fresh5 [.init, .conn true]).1 := by
  refine ⟨⟨rfl, rfl, ListRel.nil _, ListRel.nil _, ?_⟩, rfl, rfl, rfl⟩
  intro p hp
  have : (Api4.run Api4.State.initial [.init, .conn true]).1.zoneDict = [] := rfl
  rw [this] at hp; cases hp

theorem run5_cons (s : Api5.State) (o : Api5.Op) (os : List Api5.Op) :
    (Api5.run s (o :: os)).1 = (Api5.run (Api5.apiStep s o).1 os).1 := rfl

theorem run4_cons (s : Api4.State) (o : Api4.Op) (os : List Api4.Op) :
    (Api4.run s (o :: os)).1 = (Api4.run (Api4.apiStep s o).1 os).1 := rfl

theorem run4_append (s : Api4.State) (a b : List Api4.Op) : (Api4.run s (a ++ b)).1 = (Api4.run (Api4.run s a).1 b).1 := by
  induction a generalizing s with
  | nil => rfl
  | cons o os ih => rw [List.cons_append, run4_cons, run4_cons, ih]

theorem run5_append (s : Api5.State) (a b : List Api5.Op) : (Api5.run s (a ++ b)).1 = (Api5.run (Api5.run s a).1 b).1 := by
  induction a generalizing s with
  | nil => rfl
  | cons o os ih => rw [List.cons_append, run5_cons, run5_cons, ih]

/-- the side condition along a run (only ability messages carry one) -/
def AdmissibleRun : Api4.State → List AbsMsg → Prop
  | _, [] => True
  | s4, m :: ms => m.Admissible s4 ∧ AdmissibleRun (Api4.apiStep s4 (.recv m.to4)).1 ms

/-- **lifting to runs**: related states stay related along any sequence of embedded console messages -/
theorem run_rel {s4 : Api4.State} {s5 : Api5.State} (h : Rel s4 s5) (toAddr : Nat) (ms : List AbsMsg)
    (hadm : AdmissibleRun s4 ms) :
    Rel (Api4.run s4 (ms.map fun m => .recv m.to4)).1 (Api5.run s5 (ms.map fun m => .msg toAddr m.to5)).1 := by
  induction ms generalizing s4 s5 with
  | nil => exact h
  | cons m ms ih =>
    rw [List.map_cons, List.map_cons, run4_cons, run5_cons]
    exact ih (step_rel h m toAddr hadm.1) hadm.2

/-- the scripts of the whole-run theorem: `init()`, connection up, then the console's messages -/
def script4 (ms : List AbsMsg) : List Api4.Op := [.init, .conn true] ++ ms.map fun m => .recv m.to4
def script5 (toAddr : Nat) (ms : List AbsMsg) : List Api5.Op := [.init, .conn true] ++ ms.map fun m => .msg toAddr m.to5

/-- **whole runs from fresh objects**: after `init()`, the connection coming up and the same abstract console messages
    (the handshake answers and any later status reports, in any order, with anything in between) the two models are in
    related states -/
theorem fresh_run_rel (toAddr : Nat) (ms : List AbsMsg)
    (hadm : AdmissibleRun (Api4.run Api4.State.initial [.init, .conn true]).1 ms) :
    Rel (Api4.run Api4.State.initial (script4 ms)).1 (Api5.run fresh5 (script5 toAddr ms)).1 := by
  unfold script4 script5
  rw [run4_append, run5_append]
  exact run_rel rel_after_init toAddr ms hadm

/-- … hence equal projected views (up to the `supported_power_states` asymmetry) -/
theorem fresh_run_view (toAddr : Nat) (ms : List AbsMsg)
    (hadm : AdmissibleRun (Api4.run Api4.State.initial [.init, .conn true]).1 ms) :
    atView5 (Api5.run fresh5 (script5 toAddr ms)).1 =
      (atView4 (Api4.run Api4.State.initial (script4 ms)).1).map AtView.allTurbo :=
  view_rel (fresh_run_rel toAddr ms hadm)

/-! ### when the side condition holds -/

/-- no ability message with exactly one AC: nothing to check -/
theorem admissibleRun_of_no_single (s4 : Api4.State) (ms : List AbsMsg)
    (h : ∀ m ∈ ms, ∀ l, m = .abilities l → l.length ≠ 1) : AdmissibleRun s4 ms := by
  induction ms generalizing s4 with
  | nil => trivial
  | cons m ms ih =>
    refine ⟨?_, ih _ (fun m' hm' => h m' (List.mem_cons_of_mem _ hm'))⟩
    cases m with
    | abilities l =>
      intro i _ hs
      have := h _ (List.mem_cons_self) l rfl
      simp only [beq_iff_eq] at hs
      exact absurd hs this
    | _ => trivial

theorem names_zoneDict (s : Api4.State) (hsub : s.subscribed = true) (hst : s.st = .INIT_GROUP_NAMES) (zs : List (Nat × Bytes)) :
    (Api4.apiStep s (.recv (AbsMsg.names zs).to4)).1.zoneDict = (Api4.processGroupNames s zs).zoneDict := by
  simp only [Api4.apiStep, Api4.recv, hsub, ↓reduceIte, AbsMsg.to4, Api4.onMessage, hst, Api4.hbOnMessage]
  split <;> rfl

/-- **the canonical handshake is admissible**: version, names (distinct zone numbers), abilities, then anything without
    single-AC ability messages; a single AC must cover exactly the named zones, in order -/
theorem handshake_admissible (u : Bool) (vs : List Bytes) (zs : List (Nat × Bytes)) (acs : List AbsAcInfo) (rest : List AbsMsg)
    (hnd : (zs.map (·.1)).Nodup)
    (hsingle : acs.length = 1 → ∀ i ∈ acs, zs.map (·.1) = List.range' i.firstZone i.zoneCount)
    (hrest : ∀ m ∈ rest, ∀ l, m = .abilities l → l.length ≠ 1) :
    AdmissibleRun (Api4.run Api4.State.initial [.init, .conn true]).1
      (.version u vs :: .names zs :: .abilities acs :: rest) := by
  refine ⟨trivial, trivial, ?_, admissibleRun_of_no_single _ rest hrest⟩
  intro i hi hs
  simp only [beq_iff_eq] at hs
  rw [names_zoneDict _ rfl rfl, Api4.keys_processGroupNames_fresh _ rfl zs hnd]
  exact hsingle hs i hi

/-! ### equal views when every zone supports turbo -/

theorem zoneView4_sps (z : Api4.ZoneObj) (v : ZoneView) (h : zoneView4 z = some v) :
    v.supportedPowerStates = z.supportedPowerStates := by
  simp only [zoneView4, Option.bind_eq_bind, Option.pure_def, Option.bind_eq_some_iff, Option.some.injEq] at h
  obtain ⟨_, _, _, _, _, _, rfl⟩ := h
  rfl

theorem zoneView4_allTurbo (z : Api4.ZoneObj) (v : ZoneView) (h : zoneView4 z = some v)
    (ht : z.status.supports_turbo = true) : v.allTurbo = v := by
  have := zoneView4_sps z v h
  simp only [Api4.ZoneObj.supportedPowerStates, ht, ↓reduceIte] at this
  cases v
  simp only [ZoneView.allTurbo] at this ⊢
  rw [this]; rfl

theorem mapM_zoneView4_allTurbo (l : List Api4.ZoneObj) (vs : List ZoneView) (h : l.mapM zoneView4 = some vs)
    (ht : ∀ z ∈ l, z.status.supports_turbo = true) : vs.map ZoneView.allTurbo = vs := by
  induction l generalizing vs with
  | nil => simp only [List.mapM_nil, Option.pure_def, Option.some.injEq] at h; subst h; rfl
  | cons z zs ih =>
    rw [List.mapM_cons] at h
    simp only [Option.bind_eq_bind, Option.pure_def, Option.bind_eq_some_iff, Option.some.injEq] at h
    obtain ⟨v, hv, rest, hrest, rfl⟩ := h
    rw [List.map_cons, zoneView4_allTurbo z v hv (ht z (by simp)), ih rest hrest (fun z' hz' => ht z' (by simp [hz']))]

theorem acView4_allTurbo (zoneObjs : List Api4.ZoneObj) (a : Api4.AcObj) (v : AcView) (h : acView4 zoneObjs a = some v)
    (ht : ∀ z ∈ zoneObjs, z.status.supports_turbo = true) : v.allTurbo = v := by
  simp only [acView4, acView4Core, Option.bind_eq_bind, Option.pure_def, Option.bind_eq_some_iff, Option.some.injEq] at h
  obtain ⟨zs, hzs, _, _, _, _, _, _, _, _, _, _, _, _, rfl⟩ := h
  have := mapM_zoneView4_allTurbo _ zs hzs (by
    intro z hz
    obtain ⟨r, _, hr⟩ := List.mem_filterMap.mp hz
    exact ht z (List.mem_of_getElem? hr))
  simp only [AcView.allTurbo, this]

theorem atView4_allTurbo (s : Api4.State) (v : AtView) (h : atView4 s = some v) (ht : AllTurbo s) : v.allTurbo = v := by
  simp only [atView4, Option.bind_eq_bind, Option.pure_def, Option.bind_eq_some_iff, Option.some.injEq] at h
  obtain ⟨acs, hacs, rfl⟩ := h
  have : ∀ (l : List Api4.AcObj) (vs : List AcView), l.mapM (acView4 s.zoneObjs) = some vs → vs.map AcView.allTurbo = vs := by
    intro l
    induction l with
    | nil => intro vs h; simp only [List.mapM_nil, Option.pure_def, Option.some.injEq] at h; subst h; rfl
    | cons a as ih =>
      intro vs h
      rw [List.mapM_cons] at h
      simp only [Option.bind_eq_bind, Option.pure_def, Option.bind_eq_some_iff, Option.some.injEq] at h
      obtain ⟨v, hv, rest, hrest, rfl⟩ := h
      rw [List.map_cons, acView4_allTurbo _ a v hv ht, ih rest hrest]
  simp only [AtView.allTurbo, this _ acs hacs]

/-- **equal attributes on related states, every zone supporting turbo**: the projected views are equal -/
theorem view_eq_of_allTurbo {s4 : Api4.State} {s5 : Api5.State} (h : Rel s4 s5) (ht : AllTurbo s4) :
    atView4 s4 = atView5 s5 := by
  rw [view_rel h]
  cases hv : atView4 s4 with
  | none => rfl
  | some v => rw [Option.map_some, atView4_allTurbo s4 v hv ht]

/-- … and then the VIEW texts of the two models are the same rendering of the same projection, up to the three
    attributes left out: model, resolution, supported power controls -/
theorem view_text_of_allTurbo {s4 : Api4.State} {s5 : Api5.State} (h : Rel s4 s5) (ht : AllTurbo s4) (v : AtView)
    (hv : atView4 s4 = some v) :
    Api4.viewAt s4 = .ok (renderAt .AIRTOUCH_4 10 [.TOGGLE, .TURN_OFF, .TURN_ON] v) ∧
    Api5.viewAt s5 = .ok (renderAt .AIRTOUCH_5 1 [.TOGGLE, .TURN_OFF, .TURN_ON, .SET_TO_AWAY, .SET_TO_SLEEP] v) :=
  ⟨viewAt4_render s4 v hv, viewAt5_render s5 v (by rw [← view_eq_of_allTurbo h ht]; exact hv)⟩

/-! ## 4. requests

### the correspondence of the vendor words

`Lemmas/SpecCmd.lean` gives each control message its meaning in the vocabulary of its own vendor document
(`meaning2C`, `meaning2A` for AirTouch 4; `meaningC022`, `meaningC020` for AirTouch 5).  The two vocabularies are related
by the explicit maps below.  Raw pass-through fields of the readers' records (`setpointValue`, `reserved`, `value`,
`setpointValueRaw`, `valueRaw`, `reservedZero`) are wire artefacts and not compared. -/

/-- "Change on/off state" (4) = "Change on/off status" (5) -/
def acPower45 : Spec.At4.AcPowerCmd → Spec.At5.AcPowerCmd
  | .keep => .keep | .toggle => .change | .off => .off | .on => .on

def acMode45 : Spec.At4.AcModeCmd → Spec.At5.AcModeCmd
  | .set .auto => .auto | .set .heat => .heat | .set .dry => .dry | .set .fan => .fan | .set .cool => .cool
  | .keep _ => .keep

def acFan45 : Spec.At4.AcFanCmd → Spec.At5.AcFanCmd
  | .set .auto => .auto | .set .quiet => .quiet | .set .low => .low | .set .medium => .medium | .set .high => .high
  | .set .powerful => .powerful | .set .turbo => .turbo
  | .keep _ => .keep

/-- set-point commands, both in tenths of a degree; AirTouch 5's AC control has no increase / decrease -/
def acSetpoint45 : Spec.At4.AcSetpointCmd → Option Spec.At5.AcSetpointCmd
  | .keep => some .keep | .set t => some (.set t) | .increase => none | .decrease => none

/-- the AirTouch 4 AC command and the AirTouch 5 AC command say the same -/
structure AcCmdCorr (c4 : Spec.At4.AcControl) (c5 : Spec.At5.AcControl) : Prop where
  ac : c5.ac = c4.ac
  power : c5.power = acPower45 c4.power
  mode : c5.mode = acMode45 c4.mode
  fanSpeed : c5.fanSpeed = acFan45 c4.fanSpeed
  setpoint : some c5.setpoint = acSetpoint45 c4.setpoint

/-- "Change to next state" (4) = "Change on/off state" (5) -/
def zonePower45 : Spec.At4.GroupPowerCmd → Option Spec.At5.ZonePowerCmd
  | .keep => some .keep | .next => some .change | .off => some .off | .on => some .on | .turbo => some .turbo
  | .other _ => none

/-- the AirTouch 4 setting command is the AirTouch 5 pair (setting value command, value) -/
def zoneSetting45 : Spec.At4.GroupSettingCmd → Option (Spec.At5.ZoneSettingCmd × Spec.At5.ZoneValue)
  | .keep => some (.keep, .keep) | .decrease => some (.decrease, .keep) | .increase => some (.increase, .keep)
  | .setOpenPercentage p => some (.setPercentage, .percentage p)
  | .setTargetSetpoint t => some (.setSetpoint, .setpoint t)
  | .other _ => none

/-- NOTED ASYMMETRY: the control method an AirTouch 4 group control of the unified API carries with its setting - a
    percentage switches the group to percentage control, a set-point to temperature control - while the AirTouch 5 zone
    control message of `pyairtouch` has no control-type field at all (always "keep") -/
def methodWithSetting : Spec.At4.GroupSettingCmd → Spec.At4.GroupControlMethodCmd
  | .setOpenPercentage _ => .percentage
  | .setTargetSetpoint _ => .temperature
  | _ => .keep

/-- the AirTouch 4 group command and the AirTouch 5 zone command say the same - except for the control method,
    which only AirTouch 4 sets (`method4`, `controlType5`) -/
structure ZoneCmdCorr (c4 : Spec.At4.GroupControl) (c5 : Spec.At5.ZoneControl) : Prop where
  zone : c5.zone = c4.group
  power : some c5.power = zonePower45 c4.power
  setting : some (c5.setting, c5.value) = zoneSetting45 c4.setting
  method4 : c4.controlMethod = methodWithSetting c4.setting
  controlType5 : c5.controlType = .keep

/-- the two sent messages are control messages of the same kind with corresponding meanings -/
def SameMeaning : Api4.OutMsg → At5.Registry.Msg → Prop
  | .reg (.acCtrl m4), .controlStatus (.acCtrl m5) => ∃ c5, meaningC022 m5 = [c5] ∧ AcCmdCorr (meaning2C m4) c5
  | .reg (.groupCtrl m4), .controlStatus (.zoneCtrl m5) => ∃ c5, meaningC020 m5 = [c5] ∧ ZoneCmdCorr (meaning2A m4) c5
  | _, _ => False

/-- the outputs of a public call in the two models: the same exception, or one send each (same retry policy,
    corresponding meanings) followed by `RESULT OK` -/
def SameOutcome (o4 : List Api4.Ev) (o5 : List Api5.Out) : Prop :=
  (∃ e, e ≠ "OK" ∧ o4 = [.result e] ∧ o5 = [.result e]) ∨
  (∃ p4 m4 p5 m5 b, o4 = [.send p4 m4, .result "OK"] ∧ o5 = [.send p5 m5 b, .result "OK"] ∧ p4.name = p5.name ∧
    SameMeaning m4 m5)

/-- accepted or rejected alike (nothing said about the messages) -/
def SameAcceptance (o4 : List Api4.Ev) (o5 : List Api5.Out) : Prop :=
  (∃ e, e ≠ "OK" ∧ o4 = [.result e] ∧ o5 = [.result e]) ∨
  (∃ p4 m4 p5 m5 b, o4 = [.send p4 m4, .result "OK"] ∧ o5 = [.send p5 m5 b, .result "OK"])

theorem SameOutcome.acceptance {o4 : List Api4.Ev} {o5 : List Api5.Out} (h : SameOutcome o4 o5) : SameAcceptance o4 o5 := by
  rcases h with h | ⟨p4, m4, p5, m5, b, h1, h2, _, _⟩
  · exact .inl h
  · exact .inr ⟨p4, m4, p5, m5, b, h1, h2⟩

/-! ### looking objects up in related heaps -/

theorem findAc_rel {s4 : Api4.State} {s5 : Api5.State} (h : HeapRel s4 s5) (id : Nat) :
    (s4.findAc id = none ∧ s5.ac? id = none) ∨
    ∃ a4 r a5, s4.findAc id = some a4 ∧ s5.ac? id = some (r, a5) ∧ AcRel s4.zoneObjs.length a4 a5 := by
  simp only [Api4.State.findAc, Api5.State.ac?, Api5.State.acRef, ← h.acDict]
  cases hd : s4.acDict.lookup id with
  | none => exact .inl ⟨rfl, rfl⟩
  | some i =>
    rcases h.acs.get i with ⟨e4, e5⟩ | ⟨a4, a5, e4, e5, hab⟩
    · exact .inl ⟨by simp [e4], by simp [e5]⟩
    · exact .inr ⟨a4, i, a5, by simp [e4], by simp [e5], hab⟩

theorem zoneList_rel {s4 : Api4.State} {s5 : Api5.State} (h : HeapRel s4 s5) :
    s4.airConditioners.flatMap (·.zones) = s5.zoneList := by
  simp only [Api4.State.airConditioners, Api5.State.zoneList, ← h.acDict]
  induction s4.acDict with
  | nil => rfl
  | cons p ps ih =>
    rcases h.acs.get p.2 with ⟨e4, e5⟩ | ⟨a4, a5, e4, e5, hab⟩
    · simp only [List.filterMap_cons, e4, List.flatMap_cons, e5, Option.map_none, Option.getD_none, List.nil_append, ih]
    · simp only [List.filterMap_cons, e4, List.flatMap_cons, e5, Option.map_some, Option.getD_some, ih, hab.2.1]

/-- the harness's zone lookup finds the same heap index in both models; the objects there are related -/
theorem findZone_rel {s4 : Api4.State} {s5 : Api5.State} (h : HeapRel s4 s5) (id : Nat) :
    (s4.findZone id = none ∧ s5.zone? id = none) ∨
    ∃ zi z4 z5, s4.findZone id = some zi ∧ s4.zoneObjs[zi]? = some z4 ∧ s5.zone? id = some (zi, z5) ∧ ZoneRel z4 z5 := by
  have hf : s4.findZone id = s5.zoneRefOf id := by
    simp only [Api4.State.findZone, Api5.State.zoneRefOf, zoneList_rel h]
    apply congrArg (fun p => List.find? p s5.zoneList)
    funext zi
    simp only [Api5.State.zoneHasId]
    rcases h.zones.get zi with ⟨e4, e5⟩ | ⟨z4, z5, e4, e5, ⟨z, h4, h5⟩⟩
    · simp only [e4, e5]
    · simp only [e4, e5, Api4.ZoneObj.zoneId, Api5.ZoneObj.id, h4.status, h5.status]; rfl
  simp only [Api5.State.zone?, ← hf]
  cases hz : s4.findZone id with
  | none => exact .inl ⟨rfl, rfl⟩
  | some zi =>
    have hmem := hz
    simp only [Api4.State.findZone] at hmem
    replace hmem := List.find?_some hmem
    rcases h.zones.get zi with ⟨e4, e5⟩ | ⟨z4, z5, e4, e5, hzz⟩
    · simp only [e4] at hmem; cases hmem
    · exact .inr ⟨zi, z4, z5, rfl, e4, by simp [e5], hzz⟩

/-! ### the calls -/

theorem sameOutcome_of_send {s4 : Api4.State} {s5 : Api5.State} (ho : s4.sockOpen = s5.sockOpen) {o4 : List Api4.Ev}
    {o5 : List Api5.Out} {p4 : Api4.Policy} {m4 : Api4.OutMsg} {p5 : Api5.Policy} {m5 : At5.Registry.Msg} {b : Bool}
    (h4 : o4 = if s4.sockOpen then [Api4.Ev.send p4 m4, .result "OK"] else [.result "NotOpenError"])
    (h5 : o5 = if s5.sockOpen then [Api5.Out.send p5 m5 b, .result "OK"] else [.result "NotOpenError"])
    (hp : p4.name = p5.name) (hm : SameMeaning m4 m5) : SameOutcome o4 o5 := by
  rw [h4, h5, ← ho]
  cases s4.sockOpen with
  | true => exact .inr ⟨p4, m4, p5, m5, b, rfl, rfl, hp, hm⟩
  | false => exact .inl ⟨"NotOpenError", by decide, rfl, rfl⟩

theorem sameOutcome_of_error {o4 : List Api4.Ev} {o5 : List Api5.Out} (e : String) (he : e ≠ "OK")
    (h4 : o4 = [.result e]) (h5 : o5 = [.result e]) : SameOutcome o4 o5 := .inl ⟨e, he, h4, h5⟩

theorem callOut_sendMsg (s : Api5.State) (p : Api5.Policy) (m : At5.Registry.Msg) (b : Bool) :
    Api5.callOut (Api5.sendMsg s p m b) =
      if s.sockOpen then [Api5.Out.send p m b, .result "OK"] else [.result "NotOpenError"] := by
  unfold Api5.sendMsg Api5.callOut
  cases s.sockOpen <;> rfl

theorem call4_ok (s : Api4.State) (c : Api4.Call) (p : Api4.Policy) (m : Api4.OutMsg) (h : Api4.callResult s c = .ok (p, m)) :
    (Api4.apiStep s (.call c)).2 =
      if s.sockOpen then [Api4.Ev.send p m, .result "OK"] else [.result "NotOpenError"] := by
  simp only [Api4.apiStep, Api4.doCall, h]; rfl

theorem call4_error (s : Api4.State) (c : Api4.Call) (e : Api4.Exc) (h : Api4.callResult s c = .error e) :
    (Api4.apiStep s (.call c)).2 = [.result e.name] := by
  simp only [Api4.apiStep, Api4.doCall, h]

theorem call5_ac (s : Api5.State) (id r : Nat) (a : Api5.AcObj) (c : Api5.AcCall) (h : s.ac? id = some (r, a)) :
    (Api5.apiStep s (.callAc id c)).2 = Api5.callOut (Api5.acCall s a c) := by
  simp only [Api5.apiStep, h]

theorem call5_ac_none (s : Api5.State) (id : Nat) (c : Api5.AcCall) (h : s.ac? id = none) :
    (Api5.apiStep s (.callAc id c)).2 = [.result "KeyError"] := by
  simp only [Api5.apiStep, h]

theorem call5_zone (s : Api5.State) (id r : Nat) (z : Api5.ZoneObj) (c : Api5.ZoneCall) (h : s.zone? id = some (r, z)) :
    (Api5.apiStep s (.callZone id c)).2 = Api5.callOut (Api5.zoneCall s z c) := by
  simp only [Api5.apiStep, h]

theorem call5_zone_none (s : Api5.State) (id : Nat) (c : Api5.ZoneCall) (h : s.zone? id = none) :
    (Api5.apiStep s (.callZone id c)).2 = [.result "KeyError"] := by
  simp only [Api5.apiStep, h]

theorem callOut_raise (s : Api5.State) (e : String) : Api5.callOut (Api5.raise s e) = [.result e] := rfl

/-- **`set_power` TOGGLE / TURN_OFF / TURN_ON**: unknown AC → `KeyError` in both; otherwise one AC control message each,
    same retry policy, meaning "power: change / off / on, everything else kept" for that AC -/
theorem ac_set_power_alike {s4 : Api4.State} {s5 : Api5.State} (h : HeapRel s4 s5) (ho : s4.sockOpen = s5.sockOpen)
    (id : Nat) (p : ApiEnums.AcPowerControl) (hp : p = .TOGGLE ∨ p = .TURN_OFF ∨ p = .TURN_ON) :
    SameOutcome (Api4.apiStep s4 (.call (.acSetPower id p))).2 (Api5.apiStep s5 (.callAc id (.setPower p))).2 := by
  rcases findAc_rel h id with ⟨e4, e5⟩ | ⟨a4, r, a5, e4, e5, ⟨⟨a, h4, h5⟩, _, _⟩⟩
  · exact sameOutcome_of_error "KeyError" (by decide)
      (call4_error _ _ .keyError (by simp [Api4.callResult, Api4.Call.acId?, e4]))
      (call5_ac_none _ _ _ e5)
  · have i4 : a4.acId = a.status.number := (ac_attributes_at4 h4).1
    have i5 : a5.id = a.status.number := (ac_attributes_at5 h5).1
    have hr4 : ∀ c, Api4.callResult s4 (.acSetPower id c) = Api4.callAc a4 (.acSetPower id c) := by
      intro c; simp [Api4.callResult, Api4.Call.acId?, e4]
    rw [call5_ac _ _ _ _ _ e5]
    rcases hp with rfl | rfl | rfl
    · exact sameOutcome_of_send ho (call4_ok _ _ _ _ ((hr4 _).trans rfl)) (callOut_sendMsg _ _ _ _) rfl
        ⟨_, rfl, ⟨by show a5.id = a4.acId; rw [i4, i5], rfl, rfl, rfl, rfl⟩⟩
    · exact sameOutcome_of_send ho (call4_ok _ _ _ _ ((hr4 _).trans rfl)) (callOut_sendMsg _ _ _ _) rfl
        ⟨_, rfl, ⟨by show a5.id = a4.acId; rw [i4, i5], rfl, rfl, rfl, rfl⟩⟩
    · exact sameOutcome_of_send ho (call4_ok _ _ _ _ ((hr4 _).trans rfl)) (callOut_sendMsg _ _ _ _) rfl
        ⟨_, rfl, ⟨by show a5.id = a4.acId; rw [i4, i5], rfl, rfl, rfl, rfl⟩⟩

def modeCtl4 : ApiEnums.AcMode → Gen.At4.X2CAcCtrl.AcModeControl
  | .AUTO => .AUTO | .HEAT => .HEAT | .DRY => .DRY | .FAN => .FAN | .COOL => .COOL
def modeCtl5 : ApiEnums.AcMode → Gen.At5.XC022AcCtrl.AcModeControl
  | .AUTO => .AUTO | .HEAT => .HEAT | .DRY => .DRY | .FAN => .FAN | .COOL => .COOL
def fanCtl4 : AbsFan → Gen.At4.X2CAcCtrl.AcFanSpeedControl
  | .AUTO => .AUTO | .QUIET => .QUIET | .LOW => .LOW | .MEDIUM => .MEDIUM | .HIGH => .HIGH | .POWERFUL => .POWERFUL
  | .TURBO => .TURBO
def fanCtl5 : AbsFan → Gen.At5.XC022AcCtrl.AcFanSpeedControl
  | .AUTO => .AUTO | .QUIET => .QUIET | .LOW => .LOW | .MEDIUM => .MEDIUM | .HIGH => .HIGH | .POWERFUL => .POWERFUL
  | .TURBO => .TURBO

theorem callAc4_setMode (a : Api4.AcObj) (id : Nat) (m : ApiEnums.AcMode) (po : Bool) :
    Api4.callAc a (.acSetMode id m po) =
      if a.supportedModes.contains m then
        .ok (.idempotent, .reg (.acCtrl ⟨a.acId, if po then .TURN_ON else .UNCHANGED, modeCtl4 m, .UNCHANGED, .none⟩))
      else .error .valueError := by
  simp only [Api4.callAc]
  split
  · cases m <;> cases po <;> rfl
  · rfl

theorem acCall5_setMode (s : Api5.State) (a : Api5.AcObj) (m : ApiEnums.AcMode) (po : Bool) :
    Api5.acCall s a (.setMode m po) =
      if a.supportedModes.contains m then
        Api5.sendMsg s .idempotent
          (Api5.msgAcControl ⟨a.id, if po then .TURN_ON else .UNCHANGED, modeCtl5 m, .UNCHANGED, none⟩) false
      else Api5.raise s "ValueError" := by
  simp only [Api5.acCall]
  split
  · cases m <;> cases po <;> rfl
  · rfl

theorem callAc4_setFan (a : Api4.AcObj) (id : Nat) (f : AbsFan) :
    Api4.callAc a (.acSetFanSpeed id f.api) =
      if a.supportedFanSpeeds.contains f.api then
        .ok (.idempotent, .reg (.acCtrl ⟨a.acId, .UNCHANGED, .UNCHANGED, fanCtl4 f, .none⟩))
      else .error .valueError := by
  simp only [Api4.callAc]
  split
  · cases f <;> rfl
  · rfl

theorem acCall5_setFan (s : Api5.State) (a : Api5.AcObj) (f : AbsFan) :
    Api5.acCall s a (.setFanSpeed f.api) =
      if a.supportedFanSpeeds.contains f.api then
        Api5.sendMsg s .idempotent (Api5.msgAcControl ⟨a.id, .UNCHANGED, .UNCHANGED, fanCtl5 f, none⟩) false
      else Api5.raise s "ValueError" := by
  simp only [Api5.acCall]
  split
  · cases f <;> rfl
  · rfl

/-- **`set_mode`** (any of the five modes, `power_on` either way): unknown AC → `KeyError`; mode not supported →
    `ValueError` in both; otherwise one message each: "mode := m, power := on / keep" -/
theorem ac_set_mode_alike {s4 : Api4.State} {s5 : Api5.State} (h : HeapRel s4 s5) (ho : s4.sockOpen = s5.sockOpen)
    (id : Nat) (m : ApiEnums.AcMode) (po : Bool) :
    SameOutcome (Api4.apiStep s4 (.call (.acSetMode id m po))).2 (Api5.apiStep s5 (.callAc id (.setMode m po))).2 := by
  rcases findAc_rel h id with ⟨e4, e5⟩ | ⟨a4, r, a5, e4, e5, ⟨⟨a, h4, h5⟩, _, _⟩⟩
  · exact sameOutcome_of_error "KeyError" (by decide)
      (call4_error _ _ .keyError (by simp [Api4.callResult, Api4.Call.acId?, e4]))
      (call5_ac_none _ _ _ e5)
  · have i4 : a4.acId = a.status.number := (ac_attributes_at4 h4).1
    have i5 : a5.id = a.status.number := (ac_attributes_at5 h5).1
    have hr4 : Api4.callResult s4 (.acSetMode id m po) = Api4.callAc a4 (.acSetMode id m po) := by
      simp [Api4.callResult, Api4.Call.acId?, e4]
    rw [call5_ac _ _ _ _ _ e5, acCall5_setMode, h5.modes]
    rw [callAc4_setMode, h4.modes] at hr4
    cases hc : a.info.supportedModes.contains m with
    | false =>
      simp only [hc, Bool.false_eq_true, ↓reduceIte] at hr4 ⊢
      exact sameOutcome_of_error "ValueError" (by decide) (call4_error _ _ _ hr4) rfl
    | true =>
      simp only [hc, ↓reduceIte] at hr4 ⊢
      refine sameOutcome_of_send ho (call4_ok _ _ _ _ hr4) (callOut_sendMsg _ _ _ _) rfl ⟨_, rfl, ?_⟩
      cases m <;> cases po <;> exact ⟨by show a5.id = a4.acId; rw [i4, i5], rfl, rfl, rfl, rfl⟩

/-- **`set_fan_speed`** of one of the seven common speeds: not supported → `ValueError` in both; otherwise
    "fan speed := f, everything else kept" -/
theorem ac_set_fan_speed_alike {s4 : Api4.State} {s5 : Api5.State} (h : HeapRel s4 s5) (ho : s4.sockOpen = s5.sockOpen)
    (id : Nat) (f : AbsFan) :
    SameOutcome (Api4.apiStep s4 (.call (.acSetFanSpeed id f.api))).2
      (Api5.apiStep s5 (.callAc id (.setFanSpeed f.api))).2 := by
  rcases findAc_rel h id with ⟨e4, e5⟩ | ⟨a4, r, a5, e4, e5, ⟨⟨a, h4, h5⟩, _, _⟩⟩
  · exact sameOutcome_of_error "KeyError" (by decide)
      (call4_error _ _ .keyError (by simp [Api4.callResult, Api4.Call.acId?, e4]))
      (call5_ac_none _ _ _ e5)
  · have i4 : a4.acId = a.status.number := (ac_attributes_at4 h4).1
    have i5 : a5.id = a.status.number := (ac_attributes_at5 h5).1
    have hr4 : Api4.callResult s4 (.acSetFanSpeed id f.api) = Api4.callAc a4 (.acSetFanSpeed id f.api) := by
      simp [Api4.callResult, Api4.Call.acId?, e4]
    rw [call5_ac _ _ _ _ _ e5, acCall5_setFan, h5.fans]
    rw [callAc4_setFan, h4.fans] at hr4
    cases hc : a.info.supportedFanSpeeds.contains f.api with
    | false =>
      simp only [hc, Bool.false_eq_true, ↓reduceIte] at hr4 ⊢
      exact sameOutcome_of_error "ValueError" (by decide) (call4_error _ _ _ hr4) rfl
    | true =>
      simp only [hc, ↓reduceIte] at hr4 ⊢
      refine sameOutcome_of_send ho (call4_ok _ _ _ _ hr4) (callOut_sendMsg _ _ _ _) rfl ⟨_, rfl, ?_⟩
      cases f <;> exact ⟨by show a5.id = a4.acId; rw [i4, i5], rfl, rfl, rfl, rfl⟩

/-! #### set-points: AirTouch 4 rounds to whole degrees, AirTouch 5 to tenths -/

/-- clipping a whole number of degrees: the AirTouch 5 expression (tenths, limits times ten) gives ten times the
    AirTouch 4 expression -/
theorem clip_whole (lo hi : Nat) (r : Int) :
    (Api5.clip lo hi (10 * r)).1 = ((min (max (lo : Int) r) (hi : Int)).toNat : Int) * 10 := by
  unfold Api5.clip
  simp only
  split <;> split <;> omega

/-- a whole number of degrees is rounded to itself by both -/
theorem round_whole (d : Int) : Api4.roundHundredths (100 * d) = d ∧ Api5.roundTenths (100 * d) = 10 * d := by
  constructor
  · unfold Api4.roundHundredths
    have h1 : 100 * d / 100 = d := by omega
    have h2 : 100 * d % 100 = 0 := by omega
    simp only [h1, h2]; rfl
  · unfold Api5.roundTenths Api5.roundTenthsNat
    have hr : ∀ n : Nat, (100 * n) % 10 = 0 := by intro n; omega
    have hq : ∀ n : Nat, (100 * n) / 10 = 10 * n := by intro n; omega
    by_cases hd : d < 0
    · have hn : (100 * d).natAbs = 100 * d.natAbs := by omega
      have : 100 * d < 0 := by omega
      simp only [this, ↓reduceIte, hn, hr, hq]
      simp; omega
    · have hn : (100 * d).natAbs = 100 * d.natAbs := by omega
      have : ¬ 100 * d < 0 := by omega
      simp only [this, ↓reduceIte, hn, hr, hq]
      simp; omega

/-- the two roundings agree on the argument (hundredths of a degree): AirTouch 5's tenths are AirTouch 4's whole degree -/
def RoundsAlike (h : Int) : Prop := Api5.roundTenths h = 10 * Api4.roundHundredths h

theorem roundsAlike_whole (d : Int) : RoundsAlike (100 * d) := by
  unfold RoundsAlike; rw [(round_whole d).1, (round_whole d).2]

/-- **AC `set_target_temperature`** of a whole-degree value - or any value both generations round to the same whole
    degree: both accept (there is no refusal, the value is clipped), both send "set-point := set(t)" with the *same* `t`
    in tenths, clipped into the common limits, everything else kept -/
theorem ac_set_target_temperature_alike {s4 : Api4.State} {s5 : Api5.State} (h : HeapRel s4 s5)
    (ho : s4.sockOpen = s5.sockOpen) (id : Nat) (t : Int) (ht : RoundsAlike t) :
    SameOutcome (Api4.apiStep s4 (.call (.acSetTemp id t))).2 (Api5.apiStep s5 (.callAc id (.setTargetTemperature t))).2 := by
  rcases findAc_rel h id with ⟨e4, e5⟩ | ⟨a4, r, a5, e4, e5, ⟨⟨a, h4, h5⟩, _, _⟩⟩
  · exact sameOutcome_of_error "KeyError" (by decide)
      (call4_error _ _ .keyError (by simp [Api4.callResult, Api4.Call.acId?, e4]))
      (call5_ac_none _ _ _ e5)
  · have i4 : a4.acId = a.status.number := (ac_attributes_at4 h4).1
    have i5 : a5.id = a.status.number := (ac_attributes_at5 h5).1
    have hr4 : Api4.callResult s4 (.acSetTemp id t) = Api4.callAc a4 (.acSetTemp id t) := by
      simp [Api4.callResult, Api4.Call.acId?, e4]
    rw [call5_ac _ _ _ _ _ e5]
    refine sameOutcome_of_send ho (call4_ok _ _ _ _ (hr4.trans rfl))
      (show Api5.callOut (Api5.sendMsg s5 .idempotent (Api5.msgAcControl ⟨a5.id, .UNCHANGED, .UNCHANGED, .UNCHANGED,
        some (Api5.clip a5.minTarget a5.maxTarget (Api5.roundTenths t)).1⟩)
        (Api5.clip a5.minTarget a5.maxTarget (Api5.roundTenths t)).2) = _ from callOut_sendMsg _ _ _ _) rfl ⟨_, rfl, ?_⟩
    have hmin : a5.minTarget = a.info.minSetPoint := by
      have := (ac_attributes_at5 h5).2.2.2.2.2.2.2.2.2.2.2.1
      unfold AbsAc.minTargetTemperature at this; omega
    have hmax : a5.maxTarget = a.info.maxSetPoint := by
      have := (ac_attributes_at5 h5).2.2.2.2.2.2.2.2.2.2.2.2.1
      unfold AbsAc.maxTargetTemperature at this; omega
    refine ⟨by show a5.id = a4.acId; rw [i4, i5], rfl, rfl, rfl, ?_⟩
    show some (Spec.At5.AcSetpointCmd.set _) = some (Spec.At5.AcSetpointCmd.set _)
    rw [hmin, hmax, ht, clip_whole, h4.ability]
    rfl

/-- DOCUMENTED DIFFERENCE (set-point resolution): 21.5 °C on an AC with limits 16 … 30: AirTouch 4 sends 22 °C
    (whole degrees, half to even), AirTouch 5 sends 21.5 °C -/
theorem set_point_resolution_documented_difference :
    ¬ RoundsAlike 2150 ∧ Api4.roundHundredths 2150 = 22 ∧ Api5.roundTenths 2150 = 215 ∧
    (min (max (16 : Int) (Api4.roundHundredths 2150)) 30).toNat = 22 ∧ (Api5.clip 16 30 (Api5.roundTenths 2150)).1 = 215 := by
  unfold RoundsAlike
  decide

/-- … but never by more than half a degree (before clipping): AirTouch 5's tenths and AirTouch 4's whole degrees are
    both roundings of the same argument -/
theorem set_point_resolution_bound (t : Int) :
    Api5.roundTenths t - 10 * Api4.roundHundredths t ≤ 5 ∧ 10 * Api4.roundHundredths t - Api5.roundTenths t ≤ 5 := by
  have h5 := PyAirtouch.Lemmas.Api5.roundTenths_close t
  have h4 : 100 * Api4.roundHundredths t - 50 ≤ t ∧ t ≤ 100 * Api4.roundHundredths t + 50 := by
    unfold Api4.roundHundredths
    simp only
    split
    · omega
    · split
      · omega
      · split <;> omega
  omega

/-! #### zones -/

def zonePowerCtl4 : ApiEnums.ZonePowerState → Gen.At4.X2AGroupCtrl.GroupPowerControl
  | .OFF => .TURN_OFF | .ON => .TURN_ON | .TURBO => .TURBO
def zonePowerCtl5 : ApiEnums.ZonePowerState → Gen.At5.XC020ZoneCtrl.ZonePowerControl
  | .OFF => .TURN_OFF | .ON => .TURN_ON | .TURBO => .TURBO

theorem callZone4_setPower (z : Api4.ZoneObj) (id : Nat) (p : ApiEnums.ZonePowerState) :
    Api4.callZone z (.zoneSetPower id p) =
      if z.supportedPowerStates.contains p then
        .ok (.idempotent, .reg (.groupCtrl ⟨z.status.group_number, zonePowerCtl4 p, .UNCHANGED, .none⟩))
      else .error .valueError := by
  simp only [Api4.callZone]
  split
  · cases p <;> rfl
  · rfl

theorem zoneCall5_setPower (s : Api5.State) (z : Api5.ZoneObj) (p : ApiEnums.ZonePowerState) :
    Api5.zoneCall s z (.setPower p) =
      Api5.sendMsg s .idempotent (Api5.msgZoneControl ⟨z.id, zonePowerCtl5 p, none⟩) false := by
  cases p <;> rfl

theorem callResult4_zone (s4 : Api4.State) (id zi : Nat) (z4 : Api4.ZoneObj) (c : Api4.Call) (hc : c.zoneId? = some id)
    (hca : c.acId? = none) (hne : c ≠ .atCheckForUpdates) (hf : s4.findZone id = some zi) (hz : s4.zoneObjs[zi]? = some z4) :
    Api4.callResult s4 c = Api4.callZone z4 c := by
  cases c <;> simp_all [Api4.callResult, Api4.Call.acId?, Api4.Call.zoneId?]

theorem callResult4_zone_none (s4 : Api4.State) (id : Nat) (c : Api4.Call) (hc : c.zoneId? = some id)
    (hca : c.acId? = none) (hne : c ≠ .atCheckForUpdates) (hf : s4.findZone id = none) :
    Api4.callResult s4 c = .error .keyError := by
  cases c <;> simp_all [Api4.callResult, Api4.Call.acId?, Api4.Call.zoneId?]

/-- **zone `set_power`** OFF / ON, and TURBO on a zone that supports it: one zone / group control message each,
    "power := off / on / turbo, setting and control method kept" -/
theorem zone_set_power_alike {s4 : Api4.State} {s5 : Api5.State} (h : HeapRel s4 s5) (ho : s4.sockOpen = s5.sockOpen)
    (id : Nat) (p : ApiEnums.ZonePowerState) (hturbo : p = .TURBO → AllTurbo s4) :
    SameOutcome (Api4.apiStep s4 (.call (.zoneSetPower id p))).2 (Api5.apiStep s5 (.callZone id (.setPower p))).2 := by
  rcases findZone_rel h id with ⟨e4, e5⟩ | ⟨zi, z4, z5, e4, ez, e5, ⟨z, h4, h5⟩⟩
  · exact sameOutcome_of_error "KeyError" (by decide)
      (call4_error _ _ .keyError (callResult4_zone_none _ id _ rfl rfl (by simp) e4)) (call5_zone_none _ _ _ e5)
  · have hr4 := callResult4_zone s4 id zi z4 (.zoneSetPower id p) rfl rfl (by simp) e4 ez
    rw [callZone4_setPower] at hr4
    rw [call5_zone _ _ _ _ _ e5, zoneCall5_setPower]
    have hsup : z4.supportedPowerStates.contains p = true := by
      simp only [Api4.ZoneObj.supportedPowerStates]
      cases p with
      | OFF => simp
      | ON => simp
      | TURBO => rw [hturbo rfl z4 (List.mem_of_getElem? ez)]; simp
    simp only [hsup, ↓reduceIte] at hr4
    refine sameOutcome_of_send ho (call4_ok _ _ _ _ hr4) (callOut_sendMsg _ _ _ _) rfl ⟨_, rfl, ?_⟩
    have hid : z5.id = z4.status.group_number := by rw [Api5.ZoneObj.id, h4.status, h5.status]; rfl
    cases p <;> exact ⟨hid, rfl, rfl, rfl, rfl⟩

/-- ASYMMETRY (consequence of `zone_supported_power_states_needs_turbo`, not among the documented differences):
    `set_power(TURBO)` on a group that does not report turbo support is refused by AirTouch 4 and sent by AirTouch 5 -/
theorem zone_set_power_turbo_needs_support {s4 : Api4.State} {s5 : Api5.State} (h : HeapRel s4 s5)
    (hopen : s5.sockOpen = true) (id zi : Nat) (z4 : Api4.ZoneObj) (hf : s4.findZone id = some zi)
    (hz : s4.zoneObjs[zi]? = some z4) (hno : z4.status.supports_turbo = false) :
    (Api4.apiStep s4 (.call (.zoneSetPower id .TURBO))).2 = [.result "ValueError"] ∧
    ∃ zid, (Api5.apiStep s5 (.callZone id (.setPower .TURBO))).2 =
      [.send .idempotent (Api5.msgZoneControl ⟨zid, .TURBO, none⟩) false, .result "OK"] := by
  rcases findZone_rel h id with ⟨e4, e5⟩ | ⟨zi', z4', z5, e4, ez, e5, _⟩
  · rw [hf] at e4; cases e4
  · constructor
    · have hr4 := callResult4_zone s4 id zi z4 (.zoneSetPower id .TURBO) rfl rfl (by simp) hf hz
      rw [callZone4_setPower] at hr4
      have hsup : z4.supportedPowerStates.contains .TURBO = false := by
        simp only [Api4.ZoneObj.supportedPowerStates, hno]; decide
      simp only [hsup, Bool.false_eq_true, ↓reduceIte] at hr4
      exact call4_error _ _ _ hr4
    · exact ⟨z5.id, by rw [call5_zone _ _ _ _ _ e5, zoneCall5_setPower, callOut_sendMsg, hopen]; rfl⟩

theorem callZone4_setDamper (z : Api4.ZoneObj) (id : Nat) (p : Int) :
    Api4.callZone z (.zoneSetDamper id p) =
      if p < 0 ∨ p > 100 then .error .valueError
      else .ok (.idempotent, .reg (.groupCtrl ⟨z.status.group_number, .UNCHANGED, .DAMPER, .damper p.toNat⟩)) := by
  simp only [Api4.callZone]; split <;> rfl

theorem zoneCall5_setDamper (s : Api5.State) (z : Api5.ZoneObj) (p : Int) :
    Api5.zoneCall s z (.setDamperPercentage p) =
      if p < 0 ∨ p > 100 then Api5.raise s "ValueError"
      else Api5.sendMsg s .idempotent (Api5.msgZoneControl ⟨z.id, .UNCHANGED, some (.damper p.toNat)⟩) false := by
  simp only [Api5.zoneCall]; split <;> rfl

/-- **zone `set_damper_percentage`**, any integer: outside 0 … 100 `ValueError` in both; otherwise "setting := open
    percentage p, power kept" - and, AirTouch 4 only, "control method := percentage" (`ZoneCmdCorr.method4`) -/
theorem zone_set_damper_alike {s4 : Api4.State} {s5 : Api5.State} (h : HeapRel s4 s5) (ho : s4.sockOpen = s5.sockOpen)
    (id : Nat) (p : Int) :
    SameOutcome (Api4.apiStep s4 (.call (.zoneSetDamper id p))).2
      (Api5.apiStep s5 (.callZone id (.setDamperPercentage p))).2 := by
  rcases findZone_rel h id with ⟨e4, e5⟩ | ⟨zi, z4, z5, e4, ez, e5, ⟨z, h4, h5⟩⟩
  · exact sameOutcome_of_error "KeyError" (by decide)
      (call4_error _ _ .keyError (callResult4_zone_none _ id _ rfl rfl (by simp) e4)) (call5_zone_none _ _ _ e5)
  · have hr4 := callResult4_zone s4 id zi z4 (.zoneSetDamper id p) rfl rfl (by simp) e4 ez
    rw [callZone4_setDamper] at hr4
    rw [call5_zone _ _ _ _ _ e5, zoneCall5_setDamper]
    by_cases hp : p < 0 ∨ p > 100
    · simp only [hp, ↓reduceIte] at hr4 ⊢
      exact sameOutcome_of_error "ValueError" (by decide) (call4_error _ _ _ hr4) rfl
    · simp only [hp, ↓reduceIte] at hr4 ⊢
      refine sameOutcome_of_send ho (call4_ok _ _ _ _ hr4) (callOut_sendMsg _ _ _ _) rfl ⟨_, rfl, ?_⟩
      have hid : z5.id = z4.status.group_number := by rw [Api5.ZoneObj.id, h4.status, h5.status]; rfl
      exact ⟨hid, rfl, rfl, rfl, rfl⟩

theorem zoneCall5_setTemp (s : Api5.State) (z : Api5.ZoneObj) (t : Int) :
    Api5.zoneCall s z (.setTargetTemperature t) =
      if z.status.has_sensor then
        Api5.sendMsg s .idempotent (Api5.msgZoneControl ⟨z.id, .UNCHANGED, some (.setPoint (Api5.roundTenths t))⟩) false
      else Api5.raise s "ValueError" := by
  simp only [Api5.zoneCall]; split <;> rfl

/-- **zone `set_target_temperature`** of a non-negative whole-degree value (or one both round to the same whole degree):
    no sensor → `ValueError` in both; otherwise "setting := target set-point t (same tenths), power kept" - and,
    AirTouch 4 only, "control method := temperature" -/
theorem zone_set_target_temperature_alike {s4 : Api4.State} {s5 : Api5.State} (h : HeapRel s4 s5)
    (ho : s4.sockOpen = s5.sockOpen) (id : Nat) (t : Int) (ht : RoundsAlike t) (hpos : 0 ≤ Api4.roundHundredths t) :
    SameOutcome (Api4.apiStep s4 (.call (.zoneSetTemp id t))).2
      (Api5.apiStep s5 (.callZone id (.setTargetTemperature t))).2 := by
  rcases findZone_rel h id with ⟨e4, e5⟩ | ⟨zi, z4, z5, e4, ez, e5, ⟨z, h4, h5⟩⟩
  · exact sameOutcome_of_error "KeyError" (by decide)
      (call4_error _ _ .keyError (callResult4_zone_none _ id _ rfl rfl (by simp) e4)) (call5_zone_none _ _ _ e5)
  · have hr4 := callResult4_zone s4 id zi z4 (.zoneSetTemp id t) rfl rfl (by simp) e4 ez
    have hs4 : z4.status.has_sensor = z.status.sensor := by rw [h4.status]; rfl
    have hs5 : z5.status.has_sensor = z.status.sensor := by rw [h5.status]; rfl
    rw [call5_zone _ _ _ _ _ e5, zoneCall5_setTemp, hs5]
    simp only [Api4.callZone, hs4, hpos, ↓reduceIte] at hr4
    cases hsen : z.status.sensor with
    | false =>
      simp only [hsen, Bool.false_eq_true, ↓reduceIte] at hr4 ⊢
      exact sameOutcome_of_error "ValueError" (by decide) (call4_error _ _ _ hr4) rfl
    | true =>
      simp only [hsen, ↓reduceIte] at hr4 ⊢
      refine sameOutcome_of_send ho (call4_ok _ _ _ _ hr4) (callOut_sendMsg _ _ _ _) rfl ⟨_, rfl, ?_⟩
      have hid : z5.id = z4.status.group_number := by rw [Api5.ZoneObj.id, h4.status, h5.status]; rfl
      refine ⟨hid, rfl, ?_, rfl, rfl⟩
      show some (Spec.At5.ZoneSettingCmd.setSetpoint, Spec.At5.ZoneValue.setpoint (Api5.roundTenths t)) =
        some (Spec.At5.ZoneSettingCmd.setSetpoint, Spec.At5.ZoneValue.setpoint (((Api4.roundHundredths t).toNat : Int) * 10))
      rw [ht]
      have : ((Api4.roundHundredths t).toNat : Int) = Api4.roundHundredths t := by omega
      rw [this, Int.mul_comm]

/-- zone `set_target_temperature` of *any* value: accepted or refused alike (for a negative rounded value neither sent
    message is encodable: AirTouch 4's has no wire form at all - `OutMsg.zoneSetPointNeg` -, AirTouch 5's set-point is
    below 10.0 °C) -/
theorem zone_set_target_temperature_accepted_alike {s4 : Api4.State} {s5 : Api5.State} (h : HeapRel s4 s5)
    (ho : s4.sockOpen = s5.sockOpen) (id : Nat) (t : Int) :
    SameAcceptance (Api4.apiStep s4 (.call (.zoneSetTemp id t))).2
      (Api5.apiStep s5 (.callZone id (.setTargetTemperature t))).2 := by
  rcases findZone_rel h id with ⟨e4, e5⟩ | ⟨zi, z4, z5, e4, ez, e5, ⟨z, h4, h5⟩⟩
  · exact .inl ⟨"KeyError", by decide,
      call4_error _ _ .keyError (callResult4_zone_none _ id _ rfl rfl (by simp) e4), call5_zone_none _ _ _ e5⟩
  · have hr4 := callResult4_zone s4 id zi z4 (.zoneSetTemp id t) rfl rfl (by simp) e4 ez
    have hs4 : z4.status.has_sensor = z.status.sensor := by rw [h4.status]; rfl
    have hs5 : z5.status.has_sensor = z.status.sensor := by rw [h5.status]; rfl
    rw [call5_zone _ _ _ _ _ e5, zoneCall5_setTemp, hs5]
    simp only [Api4.callZone, hs4] at hr4
    cases hsen : z.status.sensor with
    | false =>
      simp only [hsen, Bool.false_eq_true, ↓reduceIte] at hr4 ⊢
      exact .inl ⟨"ValueError", by decide, call4_error _ _ _ hr4, rfl⟩
    | true =>
      simp only [hsen, ↓reduceIte] at hr4 ⊢
      rw [callOut_sendMsg, ← ho]
      by_cases hpos : 0 ≤ Api4.roundHundredths t
      · simp only [hpos, ↓reduceIte] at hr4
        rw [call4_ok _ _ _ _ hr4]
        cases s4.sockOpen with
        | true => exact .inr ⟨_, _, _, _, _, rfl, rfl⟩
        | false => exact .inl ⟨"NotOpenError", by decide, rfl, rfl⟩
      · simp only [hpos, ↓reduceIte] at hr4
        rw [call4_ok _ _ _ _ hr4]
        cases s4.sockOpen with
        | true => exact .inr ⟨_, _, _, _, _, rfl, rfl⟩
        | false => exact .inl ⟨"NotOpenError", by decide, rfl, rfl⟩

/-! ### the documented differences, as theorems -/

/-- DOCUMENTED DIFFERENCE (away / sleep): `supported_power_controls` -/
theorem supported_power_controls_documented_difference :
    Api4.supportedPowerControls = [.TOGGLE, .TURN_OFF, .TURN_ON] ∧
    Api5.supportedPowerControls = [.TOGGLE, .TURN_OFF, .TURN_ON, .SET_TO_AWAY, .SET_TO_SLEEP] := ⟨rfl, rfl⟩

/-- DOCUMENTED DIFFERENCE (set-point resolution): `target_temperature_resolution` 1.0 vs 0.1 °C -/
theorem resolution_documented_difference :
    Api4.TARGET_TEMPERATURE_RESOLUTION_tenths = 10 ∧ Api5.TARGET_TEMPERATURE_RESOLUTION_tenths = 1 := ⟨rfl, rfl⟩

/-- DOCUMENTED DIFFERENCE (away / sleep): on related states with the AC present and the sockets open, `set_power` of
    SET_TO_AWAY / SET_TO_SLEEP is refused by AirTouch 4 (`ValueError`, nothing sent) and sent by AirTouch 5 -/
theorem set_power_away_sleep_documented_difference {s4 : Api4.State} {s5 : Api5.State} (h : HeapRel s4 s5)
    (hopen : s5.sockOpen = true) (id : Nat) (a4 : Api4.AcObj) (hf : s4.findAc id = some a4) :
    (Api4.apiStep s4 (.call (.acSetPower id .SET_TO_AWAY))).2 = [.result "ValueError"] ∧
    (Api4.apiStep s4 (.call (.acSetPower id .SET_TO_SLEEP))).2 = [.result "ValueError"] ∧
    ∃ n, (Api5.apiStep s5 (.callAc id (.setPower .SET_TO_AWAY))).2 =
        [.send .idempotent (Api5.msgAcControl ⟨n, .SET_TO_AWAY, .UNCHANGED, .UNCHANGED, none⟩) false, .result "OK"] ∧
      (Api5.apiStep s5 (.callAc id (.setPower .SET_TO_SLEEP))).2 =
        [.send .idempotent (Api5.msgAcControl ⟨n, .SET_TO_SLEEP, .UNCHANGED, .UNCHANGED, none⟩) false, .result "OK"] := by
  rcases findAc_rel h id with ⟨e4, e5⟩ | ⟨a4', r, a5, e4, e5, _⟩
  · rw [hf] at e4; cases e4
  · have hr4 : ∀ c, Api4.callResult s4 (.acSetPower id c) = Api4.callAc a4 (.acSetPower id c) := by
      intro c; simp [Api4.callResult, Api4.Call.acId?, hf]
    refine ⟨call4_error _ _ .valueError ((hr4 _).trans rfl), call4_error _ _ .valueError ((hr4 _).trans rfl), a5.id, ?_, ?_⟩
    · rw [call5_ac _ _ _ _ _ e5]
      show Api5.callOut (Api5.sendMsg s5 .idempotent _ false) = _
      rw [callOut_sendMsg, hopen]; rfl
    · rw [call5_ac _ _ _ _ _ e5]
      show Api5.callOut (Api5.sendMsg s5 .idempotent _ false) = _
      rw [callOut_sendMsg, hopen]; rfl

theorem supportedOf_keys {α β} [BEq β] (mapping : List (α × β)) (support : List (β × Bool)) (l : List α)
    (h : Api4.supportedOf mapping support = some l) : ∀ x ∈ l, x ∈ mapping.map (·.1) := by
  unfold Api4.supportedOf at h
  cases hm : mapping.mapM (fun p => (support.lookup p.2).map fun b => (p.1, b)) with
  | none => simp [hm] at h
  | some r =>
    simp only [hm, Option.map_some, Option.some.injEq] at h
    subst h
    have hkeys : ∀ (mp : List (α × β)) (r : List (α × Bool)),
        mp.mapM (fun p => (support.lookup p.2).map fun b => (p.1, b)) = some r → r.map (·.1) = mp.map (·.1) := by
      intro mp
      induction mp with
      | nil => intro r h; simp only [List.mapM_nil, Option.pure_def, Option.some.injEq] at h; subst h; rfl
      | cons p ps ih =>
        intro r h
        rw [List.mapM_cons] at h
        simp only [Option.bind_eq_bind, Option.pure_def, Option.bind_eq_some_iff, Option.map_eq_some_iff,
          Option.some.injEq] at h
        obtain ⟨q, ⟨b, _, rfl⟩, rest, hrest, rfl⟩ := h
        simp [ih rest hrest]
    intro x hx
    obtain ⟨q, hq, rfl⟩ := List.mem_map.mp hx
    rw [← hkeys mapping r hm]
    exact List.mem_map.mpr ⟨q, (List.mem_filter.mp hq).1, rfl⟩

/-- DOCUMENTED DIFFERENCE (Intelligent Auto): *no* AirTouch 4 AC object the constructor can build supports
    INTELLIGENT_AUTO, whatever the ability record says: `set_fan_speed(INTELLIGENT_AUTO)` is a `ValueError`; an
    AirTouch 5 AC that advertises it sends "fan speed := intelligent auto" -/
theorem intelligent_auto_documented_difference :
    (∀ (ab : At4.FF11.AcAbility) (zs : List Nat) (o : Api4.AcObj) (id : Nat), Api4.mkAc ab zs = some o →
      ApiEnums.AcFanSpeed.INTELLIGENT_AUTO ∉ o.supportedFanSpeeds ∧
      Api4.callAc o (.acSetFanSpeed id .INTELLIGENT_AUTO) = .error .valueError) ∧
    (∀ (s5 : Api5.State) (a5 : Api5.AcObj), ApiEnums.AcFanSpeed.INTELLIGENT_AUTO ∈ a5.supportedFanSpeeds →
      Api5.acCall s5 a5 (.setFanSpeed .INTELLIGENT_AUTO) =
        Api5.sendMsg s5 .idempotent (Api5.msgAcControl ⟨a5.id, .UNCHANGED, .UNCHANGED, .INTELLIGENT_AUTO, none⟩) false) := by
  constructor
  · intro ab zs o id h
    have hno : ApiEnums.AcFanSpeed.INTELLIGENT_AUTO ∉ o.supportedFanSpeeds := by
      simp only [Api4.mkAc, Option.bind_eq_bind, Option.pure_def, Option.bind_eq_some_iff, Option.some.injEq] at h
      obtain ⟨modes, _, fans, hf, rfl⟩ := h
      intro hmem
      have := supportedOf_keys _ _ _ hf _ hmem
      revert this; decide
    refine ⟨hno, ?_⟩
    have : o.supportedFanSpeeds.contains ApiEnums.AcFanSpeed.INTELLIGENT_AUTO = false := by
      simpa using hno
    simp only [Api4.callAc, this, Bool.false_eq_true, ↓reduceIte]
  · intro s5 a5 hmem
    have : a5.supportedFanSpeeds.contains ApiEnums.AcFanSpeed.INTELLIGENT_AUTO = true := by simpa using hmem
    simp only [Api5.acCall, this, ↓reduceIte]
    rfl

/-- DOCUMENTED DIFFERENCE (bypass reporting): no AirTouch 4 AC ever shows BYPASS; an AirTouch 5 AC whose status has
    `bypass_active` (and not `spill_active`) does -/
theorem bypass_documented_difference :
    (∀ o : Api4.AcObj, o.spillState ≠ .BYPASS) ∧
    (∀ o : Api5.AcObj, o.status.spill_active = false → o.status.bypass_active = true → o.spillState = .BYPASS) := by
  constructor
  · intro o; unfold Api4.AcObj.spillState; split <;> simp
  · intro o h1 h2; simp [Api5.AcObj.spillState, h1, h2]

/-- DOCUMENTED DIFFERENCE (away / sleep): an AirTouch 4 AC is ON or OFF; AirTouch 5 also reports the away and sleep states -/
theorem power_state_documented_difference :
    (∀ (o : Api4.AcObj) p, o.powerState = .ok p → p = .OFF ∨ p = .ON) ∧
    Api5.AC_POWER_STATE_MAPPING .OFF_AWAY = some .OFF_AWAY ∧ Api5.AC_POWER_STATE_MAPPING .ON_AWAY = some .ON_AWAY ∧
    Api5.AC_POWER_STATE_MAPPING .SLEEP = some .SLEEP := by
  refine ⟨?_, rfl, rfl, rfl⟩
  intro o p h
  unfold Api4.AcObj.powerState at h
  cases hs : o.status.power_state <;> rw [hs] at h <;> cases h <;> simp

/-- DOCUMENTED DIFFERENCE (per-mode limits): AirTouch 4 has one pair of limits whatever the mode; an AirTouch 5 AC with
    different cool and heat limits (17 … 30 / 16 … 28) shows 16 … 28 in HEAT, 17 … 30 in COOL and the hull 16 … 30 in
    every other mode -/
theorem per_mode_limits_documented_difference (ab : At5.FF11.AcAbility) (hc : ab.min_cool_set_point = 17)
    (hC : ab.max_cool_set_point = 30) (hh : ab.min_heat_set_point = 16) (hH : ab.max_heat_set_point = 28)
    (o : Api5.AcObj) (ho : o.ability = ab) :
    (o.status.mode = .HEAT → o.minTarget = 16 ∧ o.maxTarget = 28) ∧
    (o.status.mode = .COOL → o.minTarget = 17 ∧ o.maxTarget = 30) ∧
    (o.status.mode = .AUTO → o.minTarget = 16 ∧ o.maxTarget = 30) := by
  refine ⟨?_, ?_, ?_⟩ <;> intro hm <;> simp [Api5.AcObj.minTarget, Api5.AcObj.maxTarget, hm, ho, hc, hC, hh, hH]

/-- the AirTouch 4 group bitmap is *not* used by the embedding: with a bitmap the zones of an AC are listed in CPython's
    set order, e.g. zones 6 … 9 as 8, 9, 6, 7 (AirTouch 5: 6, 7, 8, 9) - an ordering difference of `ac.zones` outside the
    common description -/
theorem at4_bitmap_zone_order : Api4.pySetOrder [6, 7, 8, 9] = [8, 9, 6, 7] := by decide

/-- the single-AC side condition is needed: AirTouch 4 gives a single AC without bitmap *every* named group, AirTouch 5
    only its range.  Zones 0 and 1 named, one AC with range 0 … 0: -/
theorem single_ac_needs_covering_range :
    let s4 : Api4.State := Api4.processGroupNames Api4.State.initial [(0, []), (1, [])]
    let s5 : Api5.State := Api5.processZoneNames [(0, []), (1, [])] fresh5
    let i : AbsAcInfo := { number := 0, name := [], modes := [], fans := [], minSetPoint := 16, maxSetPoint := 30,
                           firstZone := 0, zoneCount := 1 }
    Api4.zonesForAbility s4 true i.to4 = some [0, 1] ∧ Api5.zoneRange s5.zones i.to5.start_zone i.to5.zone_count = some [0] := by
  decide

/-! ### on the wire

`SameMeaning` relates the *meanings* (`Lemmas/SpecCmd.lean`) of the two message objects.  With C04 (`wire_2C`,
`wire_C022`, `wire_2A`, `wire_C020`) this is a statement about bytes: for well-formed messages the vendor's reader of
each generation, applied to the frame that generation's send path writes, returns commands that correspond. -/

/-- AC control: what the AirTouch 4 reader reads from the AirTouch 4 frame corresponds to what the AirTouch 5 reader
    reads from the AirTouch 5 frame -/
theorem ac_same_meaning_on_the_wire (pid4 pid5 : Nat) (h4 : pid4 < 256) (h5 : pid5 < 256) (m4 : At4.X2C.Msg)
    (m5 : At5.C022.Msg) (hwf4 : At4.X2C.WF m4) (hwf5 : At5.C022.WF m5)
    (hsame : SameMeaning (.reg (.acCtrl m4)) (.controlStatus (.acCtrl m5))) :
    ∃ fr4 fr5 f c5, At4.Registry.frameOf pid4 (.acCtrl m4) = .ok fr4 ∧
      Spec.At4.readWire fr4 = some (.acControl (meaning2C m4)) ∧
      At5.Registry.frameOf pid5 (.controlStatus (.acCtrl m5)) = .ok fr5 ∧
      Spec.At5.readFrame (fr5.drop 10) = some f ∧ Spec.At5.frameOk (fr5.drop 10) = true ∧
      Spec.At5.readControlStatus f.data = some (.acControl [c5]) ∧ AcCmdCorr (meaning2C m4) c5 := by
  obtain ⟨c5, hc5, hcorr⟩ := hsame
  have hlen : m5.ac_control.length = 1 := by
    have := congrArg List.length hc5
    simpa [meaningC022] using this
  obtain ⟨fr4, e4, _, _, _, r4⟩ := wire_2C pid4 h4 m4 hwf4
  obtain ⟨fr5, f, e5, rf, ok, _, _, _, r5⟩ := wire_C022 pid5 h5 m5 hwf5 (by omega)
  exact ⟨fr4, fr5, f, c5, e4, r4, e5, rf, ok, by rw [r5, hc5], hcorr⟩

/-- zone / group control, likewise (AirTouch 5 additionally within the ranges its document gives, `DocRange020`) -/
theorem zone_same_meaning_on_the_wire (pid4 pid5 : Nat) (h4 : pid4 < 256) (h5 : pid5 < 256) (m4 : At4.X2A.Msg)
    (m5 : At5.C020.Msg) (hwf4 : At4.X2A.WF m4) (hwf5 : At5.C020.WF m5) (hdoc : ∀ z ∈ m5.zone_control, DocRange020 z)
    (hsame : SameMeaning (.reg (.groupCtrl m4)) (.controlStatus (.zoneCtrl m5))) :
    ∃ fr4 fr5 f c5, At4.Registry.frameOf pid4 (.groupCtrl m4) = .ok fr4 ∧
      Spec.At4.readWire fr4 = some (.groupControl (meaning2A m4)) ∧
      At5.Registry.frameOf pid5 (.controlStatus (.zoneCtrl m5)) = .ok fr5 ∧
      Spec.At5.readFrame (fr5.drop 10) = some f ∧ Spec.At5.frameOk (fr5.drop 10) = true ∧
      Spec.At5.readControlStatus f.data = some (.zoneControl [c5]) ∧ ZoneCmdCorr (meaning2A m4) c5 := by
  obtain ⟨c5, hc5, hcorr⟩ := hsame
  have hlen : m5.zone_control.length = 1 := by
    have := congrArg List.length hc5
    simpa [meaningC020] using this
  obtain ⟨fr4, e4, _, _, _, r4⟩ := wire_2A pid4 h4 m4 hwf4
  obtain ⟨fr5, f, e5, rf, ok, _, _, _, r5⟩ := wire_C020 pid5 h5 m5 hwf5 hdoc (by omega)
  exact ⟨fr4, fr5, f, c5, e4, r4, e5, rf, ok, by rw [r5, hc5], hcorr⟩

/-- the AC control messages of `set_power` / `set_mode` / `set_fan_speed` (no set-point) are well-formed in both
    generations for AC numbers 0 … 3 (`AbsAcStatus.WF`) -/
theorem ac_control_wf (n : Nat) (hn : n < 4) (p4 : Gen.At4.X2CAcCtrl.AcPowerControl) (m4 : Gen.At4.X2CAcCtrl.AcModeControl)
    (f4 : Gen.At4.X2CAcCtrl.AcFanSpeedControl) (p5 : Gen.At5.XC022AcCtrl.AcPowerControl)
    (m5 : Gen.At5.XC022AcCtrl.AcModeControl) (f5 : Gen.At5.XC022AcCtrl.AcFanSpeedControl) :
    At4.X2C.WF ⟨n, p4, m4, f4, .none⟩ ∧ At5.C022.WF ⟨[⟨n, p5, m5, f5, none⟩]⟩ := by
  refine ⟨⟨by show n < 64; omega, trivial⟩, ?_⟩
  intro c hc
  simp only [List.mem_singleton] at hc
  subst hc
  exact ⟨by show n < 16; omega, by intro sp h; cases h⟩

/-- the set-point messages of `set_target_temperature` are well-formed in both generations when the AC number is 0 … 3
    and the limits lie within 10 … 35 °C (`AbsAcInfo.WF`): the clipped value is transmittable by both -/
theorem ac_set_point_wf (n lo hi : Nat) (r : Int) (hn : n < 4) (h1 : 10 ≤ lo) (h2 : lo ≤ hi) (h3 : hi ≤ 35) :
    At4.X2C.WF ⟨n, .UNCHANGED, .UNCHANGED, .UNCHANGED, .value (min (max (lo : Int) r) (hi : Int)).toNat⟩ ∧
    At5.C022.WF ⟨[⟨n, .UNCHANGED, .UNCHANGED, .UNCHANGED, some (Api5.clip lo hi (10 * r)).1⟩]⟩ := by
  refine ⟨⟨by show n < 64; omega, by show (min (max (lo : Int) r) (hi : Int)).toNat < 64; omega⟩, ?_⟩
  intro c hc
  simp only [List.mem_singleton] at hc
  subst hc
  refine ⟨by show n < 16; omega, ?_⟩
  intro sp h
  simp only [Option.some.injEq] at h
  subst h
  rw [clip_whole]
  omega

/-- WIRE-LEVEL ASYMMETRY (neither API clamps a *zone* set-point): `zone.set_target_temperature(d)` for a whole
    `d` outside 10 … 35 is accepted by both APIs (`zone_set_target_temperature_alike`); AirTouch 4's message is
    well-formed and goes out (0 … 255 °C), AirTouch 5's encoder raises `struct.error` -/
theorem zone_set_point_wire_asymmetry (g zn d : Nat) (hg : g < 256) (hd : d < 10 ∨ 35 < d) (hd' : d < 256) :
    At4.X2A.WF ⟨g, .UNCHANGED, .TEMPERATURE, .setPoint d⟩ ∧
    At5.C020.encode ⟨[⟨zn, .UNCHANGED, some (.setPoint (10 * (d : Int)))⟩]⟩ = .error .structError :=
  ⟨⟨hg, hd'⟩, value_boundary_C020_unencodable zn .UNCHANGED _ (by omega)⟩

/-- AC `set_target_temperature` of *any* value (two decimals): never refused by either generation - both clip and send
    (what they send differs by the documented rounding: `set_point_resolution_bound`) -/
theorem ac_set_target_temperature_accepted_alike {s4 : Api4.State} {s5 : Api5.State} (h : HeapRel s4 s5)
    (ho : s4.sockOpen = s5.sockOpen) (id : Nat) (t : Int) :
    SameAcceptance (Api4.apiStep s4 (.call (.acSetTemp id t))).2
      (Api5.apiStep s5 (.callAc id (.setTargetTemperature t))).2 := by
  rcases findAc_rel h id with ⟨e4, e5⟩ | ⟨a4, r, a5, e4, e5, _⟩
  · exact .inl ⟨"KeyError", by decide,
      call4_error _ _ .keyError (by simp [Api4.callResult, Api4.Call.acId?, e4]), call5_ac_none _ _ _ e5⟩
  · have hr4 : Api4.callResult s4 (.acSetTemp id t) = Api4.callAc a4 (.acSetTemp id t) := by
      simp [Api4.callResult, Api4.Call.acId?, e4]
    rw [call5_ac _ _ _ _ _ e5, call4_ok _ _ _ _ (hr4.trans rfl)]
    show SameAcceptance _ (Api5.callOut (Api5.sendMsg s5 .idempotent _ _))
    rw [callOut_sendMsg, ← ho]
    cases s4.sockOpen with
    | true => exact .inr ⟨_, _, _, _, _, rfl, rfl⟩
    | false => exact .inl ⟨"NotOpenError", by decide, rfl, rfl⟩

end PyAirtouch.Lemmas.ApiEquiv
