import PyAirtouch.Lemmas.Api4Records
/-!
# The heap invariant is preserved by every step; what a message does in state `CONNECTED`
-/
set_option linter.unusedSimpArgs false
set_option linter.unusedVariables false
namespace PyAirtouch.Lemmas.Api4
open PyAirtouch.Model PyAirtouch.Model.Api4 PyAirtouch.Model.At4
open PyAirtouch.Model.TimerCommon (AcTimerState AcTimerStatusData)

theorem findAc_foldStatus {s : State} (hinv : Inv s) (l : List X2D.AcStatusData) (k : Nat) :
    (foldEv updateAcStatus s l).1.findAc k =
      (s.findAc k).map fun a => l.foldl (fun a r => if k = r.ac_number then acAfterStatus r a else a) a :=
  findAc_foldEv updateAcStatus k (fun r a => if k = r.ac_number then acAfterStatus r a else a)
    (fun s x h => Inv_updateAcStatus h x) (fun s x h => findAc_updateAcStatus h x k) s hinv l

theorem findAc_foldTimer {s : State} (hinv : Inv s) (l : List AcTimerStatusData) (k : Nat) :
    (foldEv updateAcTimer s l).1.findAc k =
      (s.findAc k).map fun a => l.foldl (fun a r => if k = r.ac_number then acAfterTimer r a else a) a :=
  findAc_foldEv updateAcTimer k (fun r a => if k = r.ac_number then acAfterTimer r a else a)
    (fun s x h => Inv_updateAcTimer h x) (fun s x h => findAc_updateAcTimer h x k) s hinv l

theorem zoneOf_foldGroup {s : State} (hinv : Inv s) (l : List X2B.GroupStatusData) (k : Nat) :
    (foldEv updateGroupStatus s l).1.zoneOf k =
      (s.zoneOf k).map fun z => l.foldl (fun z g => if k = g.group_number then { z with status := g } else z) z :=
  zoneOf_foldEv updateGroupStatus k (fun g z => if k = g.group_number then { z with status := g } else z)
    (fun s x h => Inv_updateGroupStatus h x) (fun s x h => zoneOf_updateGroupStatus h x k) s hinv l

theorem findAc_foldGroup (s : State) (l : List X2B.GroupStatusData) (k : Nat) :
    (foldEv updateGroupStatus s l).1.findAc k = s.findAc k := by
  rw [foldEv_frame_zone _ updateGroupStatus_frame]; rfl

theorem zoneOf_foldStatus (s : State) (l : List X2D.AcStatusData) (k : Nat) :
    (foldEv updateAcStatus s l).1.zoneOf k = s.zoneOf k := by
  rw [foldEv_frame_ac _ updateAcStatus_frame]; rfl

theorem zoneOf_foldTimer (s : State) (l : List AcTimerStatusData) (k : Nat) :
    (foldEv updateAcTimer s l).1.zoneOf k = s.zoneOf k := by
  rw [foldEv_frame_ac _ updateAcTimer_frame]; rfl

theorem findAc_updateVersion (s : State) (v : FF30.ConsoleVersionMessage) (k : Nat) :
    (updateVersion s v).1.findAc k = s.findAc k := by
  unfold updateVersion; split <;> rfl

theorem zoneOf_updateVersion (s : State) (v : FF30.ConsoleVersionMessage) (k : Nat) :
    (updateVersion s v).1.zoneOf k = s.zoneOf k := by
  unfold updateVersion; split <;> rfl

theorem map_acStep_id (o : Option AcObj) (f : AcObj → AcObj) (h : ∀ a, f a = a) : o = o.map f := by
  cases o with
  | none => rfl
  | some a => simp [h]

theorem findAc_recv_connected {s : State} (hinv : Inv s) (hst : s.st = .CONNECTED) (hsub : s.subscribed = true)
    (m : RMsg) (k : Nat) : (recv s m).1.findAc k = (s.findAc k).map (acStep k m) := by
  unfold recv
  simp only [hsub, ↓reduceIte, findAc_hbOnMessage]
  cases m with
  | extended sub =>
    cases sub with
    | consoleVer v =>
      cases v with
      | message v =>
        simp only [onMessage, hst, reduceCtorEq, ↓reduceIte, findAc_updateVersion]
        exact map_acStep_id _ _ (fun a => rfl)
      | request => exact map_acStep_id _ _ (fun a => rfl)
    | groupNames n => cases n <;> simp only [onMessage, hst] <;> exact map_acStep_id _ _ (fun a => rfl)
    | acAbility a => cases a <;> simp only [onMessage, hst] <;> exact map_acStep_id _ _ (fun a => rfl)
    | errInfo e =>
      cases e with
      | message e => simp only [onMessage, findAc_updateErrInfo hinv]; rfl
      | request r => exact map_acStep_id _ _ (fun a => rfl)
    | quickTimer q => exact map_acStep_id _ _ (fun a => rfl)
    | unsupported i r => exact map_acStep_id _ _ (fun a => rfl)
  | groupCtrl c => exact map_acStep_id _ _ (fun a => rfl)
  | groupStatus g =>
    cases g with
    | request => exact map_acStep_id _ _ (fun a => rfl)
    | status l =>
      simp only [onMessage, hst]
      simp only [reduceCtorEq, ↓reduceIte, findAc_foldGroup]
      exact map_acStep_id _ _ (fun a => rfl)
  | acCtrl c => exact map_acStep_id _ _ (fun a => rfl)
  | acStatus a =>
    cases a with
    | request => exact map_acStep_id _ _ (fun a => rfl)
    | status l => simp only [onMessage, hst, reduceCtorEq, ↓reduceIte, findAc_foldStatus hinv]; rfl
  | acTimerCtrl c => simp only [onMessage, processTimers, hst, reduceCtorEq, ↓reduceIte, findAc_foldTimer hinv]; rfl
  | acTimerStatus t =>
    cases t with
    | request => exact map_acStep_id _ _ (fun a => rfl)
    | status l => simp only [onMessage, processTimers, hst, reduceCtorEq, ↓reduceIte, findAc_foldTimer hinv]; rfl
  | unsupported i r => exact map_acStep_id _ _ (fun a => rfl)

/-- everything except the clock and the timers -/
structure Core where
  st : AState
  version : FF30.ConsoleVersionMessage
  zoneObjs : List ZoneObj
  acObjs : List AcObj
  zoneDict : List (Nat × Nat)
  acDict : List (Nat × Nat)
  subs : List Sub
  initialised : Bool
  sockOpen : Bool
  sockConnected : Bool
  subscribed : Bool
  airtouchId : Bytes

def core (s : State) : Core :=
  { st := s.st, version := s.version, zoneObjs := s.zoneObjs, acObjs := s.acObjs, zoneDict := s.zoneDict,
    acDict := s.acDict, subs := s.subs, initialised := s.initialised, sockOpen := s.sockOpen,
    sockConnected := s.sockConnected, subscribed := s.subscribed, airtouchId := s.airtouchId }

theorem core_fireHbTimeout (s : State) : core (fireHbTimeout s).1 = core s := by
  unfold fireHbTimeout
  split
  · split
    · split <;> rfl
    · rfl
  · rfl

theorem core_firePolls (s : State) : core (firePolls s).1 = core s := rfl
theorem core_fireInitWaits (s : State) : core (fireInitWaits s).1 = core s := rfl

theorem core_fireBeat (s : State) : core (fireBeat s).1 = core s := by
  unfold fireBeat
  split
  · split <;> rfl
  · rfl

theorem core_tick (s : State) : core (tick s).1 = core s := by
  unfold tick
  simp only [core_fireBeat, core_fireInitWaits, core_firePolls, core_fireHbTimeout]
  rfl

theorem core_advance (n : Nat) (s : State) : core (advance n s).1 = core s := by
  induction n generalizing s with
  | zero => rfl
  | succ n ih => simp only [advance, ih, core_tick]

theorem Inv_of_core {s s' : State} (h : core s' = core s) (hi : Inv s) : Inv s' := by
  have h1 : s'.acDict = s.acDict := congrArg Core.acDict h
  have h2 : s'.acObjs = s.acObjs := congrArg Core.acObjs h
  have h3 : s'.zoneDict = s.zoneDict := congrArg Core.zoneDict h
  have h4 : s'.zoneObjs = s.zoneObjs := congrArg Core.zoneObjs h
  exact ⟨by rw [h1, h2]; exact hi.acKey, by rw [h3, h4]; exact hi.zoneKey⟩

theorem Inv_initial : Inv State.initial := ⟨by intro k i h; simp [State.initial, List.lookup] at h, by intro k i h; simp [State.initial, List.lookup] at h⟩

theorem Inv_addZone {s : State} (h : Inv s) (p : Nat × Bytes) : Inv (addZone s p) := by
  constructor
  · exact h.acKey
  · intro k i hk
    simp only [addZone, lookup_dictInsert] at hk
    by_cases hkp : k = p.1
    · simp only [hkp, ↓reduceIte, Option.some.injEq] at hk
      subst hk
      exact ⟨mkZone p.1 p.2, by simp [addZone], by simp [mkZone, hkp]⟩
    · simp only [hkp, ↓reduceIte] at hk
      obtain ⟨z, hz, hzn⟩ := h.zoneKey _ _ hk
      obtain ⟨hlt, _⟩ := List.getElem?_eq_some_iff.mp hz
      exact ⟨z, by simp [addZone, List.getElem?_append_left hlt, hz], hzn⟩

theorem Inv_processGroupNames {s : State} (h : Inv s) (l : List (Nat × Bytes)) : Inv (processGroupNames s l) := by
  unfold processGroupNames
  induction l generalizing s with
  | nil => exact h
  | cons p ps ih => exact ih (Inv_addZone h p)

theorem mkAc_number {ab : FF11.AcAbility} {zs : List Nat} {a : AcObj} (h : mkAc ab zs = some a) :
    a.status.ac_number = ab.ac_number ∧ a.timer.ac_number = ab.ac_number ∧ a.zones = zs ∧ a.subs = [] ∧ a.stateSubs = [] := by
  unfold mkAc at h
  cases h1 : supportedOf Gen.Api4.API_MODE_CONTROL_MAPPING ab.ac_mode_support with
  | none => simp [h1] at h
  | some ms =>
    cases h2 : supportedOf Gen.Api4.API_FAN_SPEED_CONTROL_MAPPING ab.fan_speed_support with
    | none => simp [h1, h2] at h
    | some fs =>
      simp [h1, h2] at h
      subst h
      exact ⟨rfl, rfl, rfl, rfl, rfl⟩

theorem Inv_addAc {s s' : State} (h : Inv s) {single : Bool} {ab : FF11.AcAbility} (hs : addAc s single ab = some s') :
    Inv s' := by
  unfold addAc at hs
  cases hz : zonesForAbility s single ab with
  | none => simp [hz] at hs
  | some zs =>
    cases ha : mkAc ab zs with
    | none => simp [hz, ha] at hs
    | some a =>
      simp [hz, ha] at hs
      subst hs
      obtain ⟨hn1, hn2, _⟩ := mkAc_number ha
      constructor
      · intro k i hk
        simp only [lookup_dictInsert] at hk
        by_cases hkp : k = ab.ac_number
        · simp only [hkp, ↓reduceIte, Option.some.injEq] at hk
          subst hk
          exact ⟨a, by simp, by simp [hn1, hkp], by simp [hn2, hkp]⟩
        · simp only [hkp, ↓reduceIte] at hk
          obtain ⟨b, hb, hb1, hb2⟩ := h.acKey _ _ hk
          obtain ⟨hlt, _⟩ := List.getElem?_eq_some_iff.mp hb
          exact ⟨b, by simp [List.getElem?_append_left hlt, hb], hb1, hb2⟩
      · exact h.zoneKey

theorem Inv_processAbility {s : State} (h : Inv s) (single : Bool) (l : List FF11.AcAbility) :
    Inv (processAbility s single l).1 := by
  induction l generalizing s with
  | nil => exact h
  | cons ab rest ih =>
    simp only [processAbility]
    cases ha : addAc s single ab with
    | none => exact h
    | some s' => exact ih (Inv_addAc h ha)

theorem Inv_hbStart {s : State} (h : Inv s) : Inv (hbStart s).1 := by
  unfold hbStart; split
  · exact ⟨h.acKey, h.zoneKey⟩
  · exact h

theorem Inv_enterConnected {s : State} (h : Inv s) : Inv (enterConnected s).1 := by
  unfold enterConnected
  exact Inv_hbStart ⟨h.acKey, h.zoneKey⟩

theorem Inv_st {s : State} (h : Inv s) (x : AState) : Inv { s with st := x } := ⟨h.acKey, h.zoneKey⟩

theorem Inv_processTimers {s : State} (h : Inv s) (l : List AcTimerStatusData) : Inv (processTimers s l).1 := by
  unfold processTimers
  split
  · exact Inv_st (Inv_foldTimer h l) _
  · split
    · exact Inv_foldTimer h l
    · exact h

theorem Inv_updateVersion {s : State} (h : Inv s) (v : FF30.ConsoleVersionMessage) : Inv (updateVersion s v).1 := by
  unfold updateVersion; split
  · exact h
  · exact ⟨h.acKey, h.zoneKey⟩

theorem Inv_onMessage {s : State} (h : Inv s) (m : RMsg) : Inv (onMessage s m).1 := by
  cases m with
  | extended sub =>
    cases sub with
    | consoleVer v =>
      cases v with
      | message v =>
        simp only [onMessage]
        split
        · exact ⟨h.acKey, h.zoneKey⟩
        · split
          · exact Inv_updateVersion h v
          · exact h
      | request => exact h
    | groupNames n =>
      cases n with
      | message n =>
        simp only [onMessage]
        split
        · exact Inv_st (Inv_processGroupNames h _) _
        · exact h
      | request r => exact h
    | acAbility a =>
      cases a with
      | ability acs =>
        simp only [onMessage]
        split
        · have := Inv_processAbility h (acs.length == 1) acs
          split
          · next s' heq => rw [heq] at this; exact Inv_st this _
          · next s' heq => rw [heq] at this; exact this
        · exact h
      | request r => exact h
    | errInfo e =>
      cases e with
      | message e => exact Inv_updateErrInfo h e
      | request r => exact h
    | quickTimer q => exact h
    | unsupported i r => exact h
  | groupCtrl c => exact h
  | groupStatus g =>
    cases g with
    | request => exact h
    | status l =>
      simp only [onMessage]
      split
      · exact Inv_enterConnected (Inv_foldGroup h l)
      · split
        · exact Inv_foldGroup (s := rearmPolls s) ⟨h.acKey, h.zoneKey⟩ l
        · exact h
  | acCtrl c => exact h
  | acStatus a =>
    cases a with
    | request => exact h
    | status l =>
      simp only [onMessage]
      split
      · exact Inv_st (Inv_foldStatus h l) _
      · split
        · exact Inv_foldStatus h l
        · exact h
  | acTimerCtrl c => exact Inv_processTimers h _
  | acTimerStatus t =>
    cases t with
    | request => exact h
    | status l => exact Inv_processTimers h _
  | unsupported i r => exact h

theorem Inv_recv {s : State} (h : Inv s) (m : RMsg) : Inv (recv s m).1 := by
  unfold recv
  apply Inv_hbOnMessage
  split
  · exact Inv_onMessage h m
  · exact h

theorem Inv_onConn {s : State} (h : Inv s) (up : Bool) : Inv (onConn s up).1 := by
  unfold onConn
  split
  · exact h
  · split
    · split <;> exact ⟨h.acKey, h.zoneKey⟩
    · split
      · split <;> exact h
      · exact h

theorem Inv_subUnsub {s : State} (h : Inv s) (t : Target) (f : List Sub → List Sub) : Inv (subUnsub s t f).1 := by
  unfold subUnsub
  cases t with
  | airtouch => exact ⟨h.acKey, h.zoneKey⟩
  | ac i general =>
    simp only
    cases hf : s.findAc i with
    | none => exact h
    | some a =>
      simp only
      have hn := h.findAc_number hf
      apply Inv_setAc h
      · split <;> exact hn.1
      · split <;> exact hn.2
  | zone i =>
    simp only
    cases hz : s.findZone i with
    | none => exact h
    | some zi =>
      simp only
      cases hzo : s.zoneObjs[zi]? with
      | none => exact h
      | some z =>
        simp only
        obtain ⟨hlt, _⟩ := List.getElem?_eq_some_iff.mp hzo
        constructor
        · exact h.acKey
        · intro k j hj
          obtain ⟨b, hb, hbn⟩ := h.zoneKey _ _ hj
          by_cases hij : zi = j
          · subst hij
            rw [hzo] at hb; cases hb
            exact ⟨{ z with subs := f z.subs }, by simp [List.getElem?_set, hlt], hbn⟩
          · exact ⟨b, by simp [List.getElem?_set, hij, hb], hbn⟩

/-- the heap invariant holds in every reachable state -/
theorem Inv_apiStep {s : State} (h : Inv s) (op : Op) : Inv (apiStep s op).1 := by
  cases op with
  | init => simp only [apiStep, doInit]; split <;> exact ⟨h.acKey, h.zoneKey⟩
  | shutdown =>
    exact ⟨by intro k i hk; simp [apiStep, doShutdown, List.lookup] at hk, by intro k i hk; simp [apiStep, doShutdown, List.lookup] at hk⟩
  | conn up => exact Inv_onConn (s := { s with sockConnected := up, hb := _ }) ⟨h.acKey, h.zoneKey⟩ up
  | msg mid payload =>
    simp only [apiStep]
    split
    · exact Inv_recv h _
    · exact h
  | recv m => exact Inv_recv h m
  | call c => exact h
  | callBad c => exact h
  | sub t sid r => exact Inv_subUnsub h t _
  | unsub t sid => exact Inv_subUnsub h t _
  | adv n => exact Inv_of_core (core_advance n s) h
  | view => simp only [apiStep]; split <;> exact h

theorem Inv_run {s : State} (h : Inv s) (ops : List Op) : Inv (run s ops).1 := by
  induction ops generalizing s with
  | nil => exact h
  | cons op ops ih => exact ih (Inv_apiStep h op)

end PyAirtouch.Lemmas.Api4
