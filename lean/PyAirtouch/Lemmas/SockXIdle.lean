import PyAirtouch.Lemmas.SockXInv
import PyAirtouch.Lemmas.SockIdle
/-!
# Nothing stays queued on an idle connection — with cancelled callers

The base invariant `SockIdle.IInv` says: connected, current transport open, queue non-empty ⟹ some task is still going
to drain the queue or to disconnect (`promising`).  Its proof picks the task that has just run as the witness, and that
task may be an API caller - which the extended model (`Model/SockX.lean`) may cancel.  Here the invariant is
strengthened to a witness that no cancellation can remove (`durable`: a background task, or a `close()` waiting for
the background tasks - `.closeGather` is not a cancellation point of `stepX`), and proved for every step of the
extended model:

* a block run by a background task: the existing `Post` lemmas of `SockIdle.lean` (the task itself is the witness);
* a block run by an API caller: `Weak` - if the socket is connected with a non-empty queue on an open transport
  afterwards, it was so before, with the same current transport (so the earlier durable witness, another task, is still
  there); for the drain loop (`drain_weak`) moreover the queue it started from had at least two entries, which is what a
  fresh `send` needs (its own entry does not count);
* a block that tears the connection down ends "dead" (not connected, or current transport not open): `disconnect_dead`;
* `cancel t`: the cancelled task is not durable, the witness is another task.
-/
namespace PyAirtouch.Lemmas.SockXIdle
open PyAirtouch.Model.Sock PyAirtouch.Spec.Trace PyAirtouch.Lemmas.Sock PyAirtouch.Lemmas.SockIdle PyAirtouch.Lemmas.SockX
open PyAirtouch.Lemmas.SockConn (Shrink liveAt shrink_drainLoop' shrink_closeConn closeConn_notLive ExecCase RunCase
  step_run_cases connPc)
open PyAirtouch.Lemmas.SockOrder (mem_modify)

/-! ### vocabulary -/

/-- pcs only background tasks can have -/
def needsBg : Pc → Bool
  | .connStart | .connDelay _ | .connOpening => true
  | _ => false

/-- a task no cancellation of `stepX` removes: a background task, or a `close()` waiting for the background tasks -/
def durable (k : Task) : Bool := k.bg || k.pc == .closeGather

/-- connected, something queued, current transport open -/
def Live (c : Core) : Prop := c.isConnected = true ∧ c.queue ≠ [] ∧ curLive c = true

/-- if `c'` is `Live` then so was `c`, with the same current transport -/
def Weak (c c' : Core) : Prop := Live c' → Live c ∧ c'.rw = c.rw

theorem Weak.of_same {c c' : Core} (h : Same c c') : Weak c c' :=
  fun ⟨h1, h2, h3⟩ => ⟨⟨h.conn ▸ h1, h.q h2, h.live h3⟩, h.rw⟩

theorem curLive_iff (c : Core) : curLive c = true ↔ ∃ w, c.rw = some w ∧ liveAt c w := by
  unfold curLive liveAt
  cases c.rw with
  | none => simp
  | some w =>
    cases hc : c.conns[w]? with
    | none => simp [hc]
    | some x => cases hx : x.isLive <;> simp [hc, hx]

theorem curLive_shrink {c c' : Core} (h : Shrink c c') (hl : curLive c' = true) : curLive c = true := by
  obtain ⟨w, hw, hlw⟩ := (curLive_iff c').1 hl
  exact (curLive_iff c).2 ⟨w, by rw [← h.rw]; exact hw, h.live w hlw⟩

/-! ### the code between two suspension points -/

theorem exec_noBg (fuel : Nat) (c : Core) (sp : List Pc) (k : Kont) : needsBg (exec fuel c sp k).pc = false := by
  fun_induction exec fuel c sp k <;> grind [needsBg]

/-- a block that starts with `_disconnect` never ends connected on an open current transport -/
theorem disconnect_dead (fuel : Nat) (h1 : 1 ≤ fuel) (c : Core) (sp : List Pc) (r : Ret) :
    ¬ ((exec fuel c sp (.disconnect r)).core.isConnected = true ∧
       curLive (exec fuel c sp (.disconnect r)).core = true) := by
  obtain ⟨n, rfl⟩ : ∃ n, fuel = n + 1 := ⟨fuel - 1, by omega⟩
  simp only [exec]
  split
  · rename_i w hw
    rintro ⟨_, hl⟩
    obtain ⟨w', hw', h⟩ := (curLive_iff _).1 hl
    have hrw : (closeConn c w).rw = c.rw := (shrink_closeConn c w).rw
    dsimp only at hw' h
    rw [hrw, hw] at hw'
    cases hw'
    exact closeConn_notLive c w h
  · rename_i hw
    cases n with
    | zero =>
      rintro ⟨_, hl⟩
      obtain ⟨w', hw', _⟩ := (curLive_iff _).1 hl
      simp only [exec] at hw'
      rw [hw] at hw'; cases hw'
    | succ m =>
      simp only [exec, hw, ↓reduceIte]
      rintro ⟨hc, _⟩
      simp [Core.emit] at hc

theorem drainLoop_queue_ne (w : Nat) (q : List Entry) (c : Core) (h : (drainLoop c w q).1.queue ≠ []) : q ≠ [] := by
  intro hq; subst hq; exact h rfl

/-- if the drain loop, started on `e :: rest`, leaves something queued on a transport that is still open, then `rest` was
    not empty: the loop has dealt with `e` -/
theorem drainLoop_tail (w : Nat) (e : Entry) (rest : List Entry) (c : Core) :
    liveAt (drainLoop c w (e :: rest)).1 w → (drainLoop c w (e :: rest)).1.queue ≠ [] → rest ≠ [] := by
  unfold drainLoop
  split
  · rename_i hnl
    intro hl _
    exfalso
    unfold liveAt at hl
    dsimp only at hl
    rw [hl] at hnl
    simp at hnl
  split
  · exact fun _ hq => drainLoop_queue_ne _ _ _ hq
  · split
    · exact fun _ hq => drainLoop_queue_ne _ _ _ hq
    · split
      · exact fun _ hq => drainLoop_queue_ne _ _ _ hq
      · exact fun _ hq => hq
      · exact fun _ hq => hq

theorem drainLoop_weak {c c' : Core} {w : Nat} {st : DrainStop} (hw : c.rw = some w)
    (heq : drainLoop c w c.queue = (c', st)) (hl : Live c') : Live c ∧ c'.rw = c.rw ∧ c.queue.tail ≠ [] := by
  have hs : Shrink c c' := shrink_drainLoop' heq
  have hlive : curLive c = true := curLive_shrink hs hl.2.2
  have hlw : liveAt c' w := by
    obtain ⟨w', hw', h⟩ := (curLive_iff c').1 hl.2.2
    rw [hs.rw, hw] at hw'; cases hw'; exact h
  have ht : c.queue.tail ≠ [] := by
    cases hq : c.queue with
    | nil =>
      exfalso
      rw [hq] at heq
      have h1 : (drainLoop c w []).1.queue = [] := rfl
      rw [heq] at h1
      exact hl.2.1 h1
    | cons e rest =>
      rw [hq] at heq
      have h1 := drainLoop_tail w e rest c
      rw [heq] at h1
      simpa using h1 hlw hl.2.1
  refine ⟨⟨hs.isConnected ▸ hl.1, ?_, hlive⟩, hs.rw, ht⟩
  intro h; rw [h] at ht; exact ht rfl

/-- `_drain_message_queue` run by any task: if it ends connected with something queued on an open transport, it started
    so, with the same transport and at least two entries queued -/
theorem drain_weak (fuel : Nat) (h2 : 2 ≤ fuel) (c : Core) (sp : List Pc) (r : Ret) (hr : plainRet r = true)
    (hsp : ∀ p ∈ sp, startPc p = true) (hpre : Pre c) (hl : Live (exec fuel c sp (.drain r)).core) :
    Live c ∧ (exec fuel c sp (.drain r)).core.rw = c.rw ∧ c.queue.tail ≠ [] := by
  obtain ⟨n, rfl⟩ : ∃ n, fuel = n + 1 := ⟨fuel - 1, by omega⟩
  have hn : 1 ≤ n := by omega
  revert hl
  simp only [exec]
  split
  · rename_i hnc
    intro hl
    obtain ⟨r1, _, _⟩ := ret_plain n c sp r hr hsp
    have hc : c.isConnected = true := r1.conn ▸ hl.1
    simp [hc] at hnc
  · split
    · rename_i hnone
      intro hl
      obtain ⟨r1, _, _⟩ := ret_plain n c sp r hr hsp
      have hc : c.isConnected = true := r1.conn ▸ hl.1
      have := hpre hc
      rw [hnone] at this; cases this
    · rename_i w hw
      split
      · rename_i c' heq
        intro hl
        obtain ⟨r1, _, _⟩ := ret_plain n c' sp r hr hsp
        obtain ⟨hl', hrw'⟩ := Weak.of_same r1 hl
        obtain ⟨a, b, d⟩ := drainLoop_weak hw heq hl'
        exact ⟨a, hrw'.trans b, d⟩
      · rename_i c' e heq
        intro hl
        exact drainLoop_weak hw heq hl
      · rename_i c' e heq
        intro hl
        exfalso
        exact disconnect_dead n hn (requeue c' e) sp (.resetTail r) ⟨hl.1, hl.2.2⟩

theorem connAfterNotify_weak (fuel : Nat) (h3 : 3 ≤ fuel) (c : Core) (sp : List Pc)
    (hsp : ∀ p ∈ sp, startPc p = true) (hpre : Pre c) (hl : Live (exec fuel c sp (.ret .connAfterNotify)).core) :
    Live c ∧ (exec fuel c sp (.ret .connAfterNotify)).core.rw = c.rw := by
  obtain ⟨n, rfl⟩ : ∃ n, fuel = n + 1 := ⟨fuel - 1, by omega⟩
  revert hl
  simp only [exec]
  intro hl
  obtain ⟨a, b, _⟩ := drain_weak n (by omega) c sp .connAfterDrain rfl hsp hpre hl
  exact ⟨a, b⟩

/-! ### the invariant -/

structure IInvX (s : Sys) : Prop where
  pre : Pre s.core
  pcs : ∀ k ∈ s.tasks, okPc k.pc = true
  bgs : ∀ k ∈ s.tasks, needsBg k.pc = true → k.bg = true
  busy : Live s.core → ∃ k ∈ s.tasks, promising s.core.rw k.pc = true ∧ durable k = true

theorem upd_bgs (s : Sys) (t : Nat) (out : Out) {k : Task} (hk : s.tasks[t]? = some k)
    (h : ∀ k ∈ s.tasks, needsBg k.pc = true → k.bg = true) (hnb : needsBg out.pc = true → k.bg = true) :
    ∀ k' ∈ (upd s t out).tasks, needsBg k'.pc = true → k'.bg = true := by
  intro k' hk'
  simp only [upd, List.mem_append] at hk'
  rcases hk' with hk' | hk'
  · rcases mem_modify _ _ _ _ hk' with hk' | ⟨y, hy, rfl⟩
    · exact h k' hk'
    · rw [hk] at hy; cases hy; exact hnb
  · simp only [List.mem_map] at hk'
    obtain ⟨p, _, rfl⟩ := hk'
    exact fun _ => rfl

theorem IInvX.upd_of {s : Sys} (h : IInvX s) {t : Nat} {k : Task} (hk : s.tasks[t]? = some k) (out : Out)
    (ho : OutOk out) (hnb : needsBg out.pc = true → k.bg = true)
    (hb : Live out.core → ∃ k' ∈ (upd s t out).tasks, promising out.core.rw k'.pc = true ∧ durable k' = true) :
    IInvX (upd s t out) :=
  ⟨ho.pre, upd_pcs s t out h.pcs ho.pc ho.sp, upd_bgs s t out hk h.bgs hnb, hb⟩

/-- a background task ends its block responsible for whatever is queued -/
theorem IInvX.updA {s : Sys} (h : IInvX s) {t : Nat} {k : Task} (hk : s.tasks[t]? = some k) (out : Out)
    (ho : OutOk out) (hpost : Post out) (hbg : k.bg = true) : IInvX (upd s t out) := by
  refine h.upd_of hk out ho (fun _ => hbg) ?_
  intro hl
  refine ⟨{ k with pc := out.pc }, ?_, hpost hl.1 hl.2.1 hl.2.2, by simp [durable, hbg]⟩
  simp only [upd, List.mem_append]
  exact .inl (mem_modify_self _ _ _ _ hk)

/-- the block of a task that was not the durable witness: the earlier witness is still there -/
theorem IInvX.updB {s : Sys} (h : IInvX s) {t : Nat} {k : Task} (hk : s.tasks[t]? = some k) (out : Out)
    (ho : OutOk out) (hnb : needsBg out.pc = true → k.bg = true) (hw : Weak s.core out.core)
    (hnw : ¬ (promising s.core.rw k.pc = true ∧ durable k = true)) : IInvX (upd s t out) := by
  refine h.upd_of hk out ho hnb ?_
  intro hl
  obtain ⟨hl0, hrw⟩ := hw hl
  obtain ⟨k', hk', hp, hd⟩ := h.busy hl0
  rcases mem_modify_other (fun k => { k with pc := out.pc }) _ _ _ _ hk' hk with hm | rfl
  · exact ⟨k', by simp only [upd]; exact List.mem_append_left _ hm, by rw [hrw]; exact hp, hd⟩
  · exact absurd ⟨hp, hd⟩ hnw

theorem IInvX.updSame {s : Sys} (h : IInvX s) {t : Nat} {k : Task} (hk : s.tasks[t]? = some k) (out : Out)
    (hs : Same s.core out.core) (hpc : okPc out.pc = true) (hsp : ∀ p ∈ out.spawned, startPc p = true)
    (hnb : needsBg out.pc = true → k.bg = true) (hnp : promising s.core.rw k.pc = false) : IInvX (upd s t out) :=
  h.updB hk out ⟨hs.pre h.pre, hpc, hsp⟩ hnb (Weak.of_same hs) (fun ⟨hp, _⟩ => by rw [hnp] at hp; cases hp)

/-- the block ends not connected, or on a current transport that is not open -/
theorem IInvX.updC {s : Sys} (h : IInvX s) {t : Nat} {k : Task} (hk : s.tasks[t]? = some k) (out : Out)
    (ho : OutOk out) (hnb : needsBg out.pc = true → k.bg = true)
    (hdead : ¬ (out.core.isConnected = true ∧ curLive out.core = true)) : IInvX (upd s t out) :=
  h.upd_of hk out ho hnb (fun hl => absurd ⟨hl.1, hl.2.2⟩ hdead)

theorem api_bgs (ts : List Task) (c : Core) (out : Out) (h : ∀ k ∈ ts, needsBg k.pc = true → k.bg = true)
    (hnb : needsBg out.pc = false) : ∀ k ∈ (spawnApi ⟨c, ts⟩ out).tasks, needsBg k.pc = true → k.bg = true := by
  intro k hk
  simp only [spawnApi, List.mem_append, List.mem_singleton, List.mem_map] at hk
  rcases hk with (hk | rfl) | ⟨p, _, rfl⟩
  · exact h k hk
  · intro hn; rw [hnb] at hn; cases hn
  · exact fun _ => rfl

theorem IInvX.api_of (ts : List Task) (c : Core) (out : Out) (hpcs : ∀ k ∈ ts, okPc k.pc = true)
    (hbgs : ∀ k ∈ ts, needsBg k.pc = true → k.bg = true) (ho : OutOk out) (hnb : needsBg out.pc = false)
    (hb : Live out.core → ∃ k' ∈ (spawnApi ⟨c, ts⟩ out).tasks, promising out.core.rw k'.pc = true ∧ durable k' = true) :
    IInvX (spawnApi ⟨c, ts⟩ out) :=
  ⟨ho.pre, api_pcs ts c out hpcs ho.pc ho.sp, api_bgs ts c out hbgs hnb, hb⟩

/-- a new API call whose first block did not create the situation: the earlier witness is still there -/
theorem IInvX.apiB {s : Sys} (h : IInvX s) (out : Out) (ho : OutOk out) (hnb : needsBg out.pc = false)
    (hw : Weak s.core out.core) : IInvX (spawnApi s out) := by
  refine IInvX.api_of s.tasks s.core out h.pcs h.bgs ho hnb ?_
  intro hl
  obtain ⟨hl0, hrw⟩ := hw hl
  obtain ⟨k', hk', hp, hd⟩ := h.busy hl0
  exact ⟨k', by simp [spawnApi, hk'], by rw [hrw]; exact hp, hd⟩

theorem IInvX.apiSame {s : Sys} (h : IInvX s) (out : Out) (hs : Same s.core out.core) (hpc : okPc out.pc = true)
    (hsp : ∀ p ∈ out.spawned, startPc p = true) (hnb : needsBg out.pc = false) : IInvX (spawnApi s out) :=
  h.apiB out ⟨hs.pre h.pre, hpc, hsp⟩ hnb (Weak.of_same hs)

theorem IInvX.env {s : Sys} (h : IInvX s) (c' : Core) (hs : Same s.core c') : IInvX { s with core := c' } := by
  refine ⟨hs.pre h.pre, h.pcs, h.bgs, ?_⟩
  intro hl
  obtain ⟨hl0, hrw⟩ := Weak.of_same hs hl
  obtain ⟨k', hk', hp, hd⟩ := h.busy hl0
  exact ⟨k', hk', by rw [hrw]; exact hp, hd⟩

theorem cancel_bgs (ts : List Task) (h : ∀ k ∈ ts, needsBg k.pc = true → k.bg = true) :
    ∀ k ∈ ts.map cancelTask, needsBg k.pc = true → k.bg = true := by
  intro k hk
  simp only [List.mem_map] at hk
  obtain ⟨k0, hk0, rfl⟩ := hk
  have := h k0 hk0
  unfold cancelTask
  split
  · rename_i hb
    split <;> exact fun _ => hb
  · exact this

theorem noBg_imp {p : Pc} {b : Bool} (h : needsBg p = false) : needsBg p = true → b = true := by
  intro hn; rw [h] at hn; cases hn

theorem not_durable {k : Task} (hb : k.bg = false) (hp : k.pc ≠ .closeGather) : durable k = false := by
  simp [durable, hb, hp]

/-! ### one step of the base model -/

theorem step_run_iinvx (s s' : Sys) (t : Nat) (a : Answer) (hI : IInvX s)
    (h : step s (.run t a) = some s') : IInvX s' := by
  have hdisc : ∀ (c : Core) (r : Ret), plainRet r = true → Pre c →
      OutOk (exec FUEL c [] (.disconnect r)) ∧
        ¬ ((exec FUEL c [] (.disconnect r)).core.isConnected = true ∧ curLive (exec FUEL c [] (.disconnect r)).core = true) :=
    fun c r hr hp => ⟨(disconnect_idle FUEL (by decide) c [] r hr (by simp) hp).1, disconnect_dead FUEL (by decide) c [] r⟩
  cases step_run_cases h with
  | exec k0 pc c0 kont hk0 hpc hc =>
    have hok : okPc pc = true := hpc ▸ hI.pcs k0 (List.mem_of_getElem? hk0)
    have hnb : needsBg (exec FUEL c0 [] kont).pc = true → k0.bg = true := noBg_imp (exec_noBg _ _ _ _)
    cases hc with
    | drainOk w e r =>
      have hr : plainRet r = true := by simpa [okPc] using hok
      obtain ⟨h1, h2⟩ := drain_idle FUEL (by decide) s.core [] r hr (by simp) hI.pre
      cases hb : k0.bg with
      | true => exact hI.updA hk0 _ h1 h2 hb
      | false =>
        refine hI.updB hk0 _ h1 hnb ?_ ?_
        · intro hl
          obtain ⟨a1, a2, _⟩ := drain_weak FUEL (by decide) s.core [] r hr (by simp) hI.pre hl
          exact ⟨a1, a2⟩
        · rintro ⟨_, hd⟩
          rw [not_durable hb (by rw [hpc]; simp)] at hd; cases hd
    | drainErr w e r hnl =>
      have hr : plainRet r = true := by simpa [okPc] using hok
      obtain ⟨g1, g2⟩ := requeue_fields s.core e
      obtain ⟨h1, h2⟩ := hdisc (requeue s.core e) (.resetTail r) (by simpa [plainRet] using hr)
        (by intro hc; rw [g2]; exact hI.pre (g1 ▸ hc))
      exact hI.updC hk0 _ h1 hnb h2
    | closed w r exc hdead =>
      have hr : plainRet r = true := by simpa [okPc] using hok
      obtain ⟨d1, d2, d3⟩ := discTail_idle FUEL s.core [] (some w) r hr (by simp)
      by_cases hw : s.core.rw = some w
      · obtain ⟨e1, e2⟩ := d3 (by decide) hw
        exact hI.updC hk0 _ (disconnected_ok _ r hr e1 e2 d2).1 hnb (fun ⟨hc, _⟩ => by rw [e1] at hc; cases hc)
      · rcases d1 with ⟨e1, e2⟩ | ⟨e1, e2⟩
        · exact hI.updSame hk0 _ e1 (okPc_of_quiet e2) d2 hnb (by rw [hpc]; simp [promising, hw])
        · exact hI.updC hk0 _ (disconnected_ok _ r hr e1 e2 d2).1 hnb (fun ⟨hc, _⟩ => by rw [e1] at hc; cases hc)
    | notified r =>
      have hr := hok
      simp only [okPc, Bool.or_eq_true, beq_iff_eq] at hr
      rcases hr with rfl | hr
      · obtain ⟨h1, h2⟩ := connAfterNotify_idle FUEL fuel_ge s.core [] (by simp) hI.pre
        cases hb : k0.bg with
        | true => exact hI.updA hk0 _ h1 h2 hb
        | false =>
          refine hI.updB hk0 _ h1 hnb ?_ ?_
          · exact fun hl => connAfterNotify_weak FUEL (by decide) s.core [] (by simp) hI.pre hl
          · rintro ⟨_, hd⟩
            rw [not_durable hb (by rw [hpc]; simp)] at hd; cases hd
      · obtain ⟨r1, r2, r3⟩ := ret_plain FUEL s.core [] r hr (by simp)
        exact hI.updSame hk0 _ r1 (okPc_of_quiet r2) r3 hnb (by rw [hpc]; exact plain_not_promising hr _)
    | readStart =>
      obtain ⟨r1, r2, r3⟩ := ret_plain FUEL s.core [] .readLoop rfl (by simp)
      exact hI.updSame hk0 _ r1 (okPc_of_quiet r2) r3 hnb (by rw [hpc]; rfl)
    | readBad c =>
      obtain ⟨h1, h2⟩ := hdisc s.core (.resetTail .readLoop) rfl hI.pre
      exact hI.updC hk0 _ h1 hnb h2
    | readFail c =>
      obtain ⟨h1, h2⟩ := hdisc s.core (.resetTail .done) rfl hI.pre
      exact hI.updC hk0 _ h1 hnb h2
    | gathered hg =>
      obtain ⟨h1, h2⟩ := hdisc s.core .closeTail rfl hI.pre
      exact hI.updC hk0 _ h1 hnb h2
  | connect k0 hk0 hpc =>
    have hbg : k0.bg = true := hI.bgs k0 (List.mem_of_getElem? hk0) (by revert hpc; cases k0.pc <;> simp [connPc, needsBg])
    have hnp : promising s.core.rw k0.pc = false := by revert hpc; cases k0.pc <;> simp [connPc, promising]
    have hcb : Same s.core (connectBlock s.core).core ∧ okPc (connectBlock s.core).pc = true ∧
        ∀ p ∈ (connectBlock s.core).spawned, startPc p = true := by
      unfold connectBlock
      split
      · exact ⟨Same.refl _, rfl, by simp⟩
      · exact ⟨⟨rfl, rfl, id, id⟩, rfl, by simp⟩
    exact hI.updSame hk0 _ hcb.1 hcb.2.1 hcb.2.2 (fun _ => hbg) hnp
  | openOk k0 hk0 hpc =>
    have hbg : k0.bg = true := hI.bgs k0 (List.mem_of_getElem? hk0) (by rw [hpc]; rfl)
    refine hI.updA hk0 _ ⟨?_, rfl, by simp⟩ (fun _ _ _ => rfl) hbg
    intro _; simp [Core.emit]
  | openRefused k0 hk0 hpc =>
    refine hI.updSame hk0 _ ⟨rfl, rfl, id, id⟩ rfl ?_ (noBg_imp rfl) (by rw [hpc]; rfl)
    intro p hp'
    split at hp'
    · simp only [List.mem_singleton] at hp'; subst hp'; rfl
    · simp at hp'
  | cancelled k0 hk0 hpc =>
    exact hI.updSame hk0 _ ⟨rfl, rfl, id, id⟩ rfl (by simp) (noBg_imp rfl) (by rw [hpc]; rfl)
  | readMsg k0 c tag hk0 hpc =>
    exact hI.updSame hk0 _ ⟨rfl, rfl, id, id⟩ rfl (by simp) (noBg_imp rfl) (by rw [hpc]; rfl)
  | readEof k0 c hk0 hpc =>
    exact hI.updSame hk0 _ (Same.refl _) rfl (by simp) (noBg_imp rfl) (by rw [hpc]; rfl)

theorem step_iinvx (s s' : Sys) (l : Label) (hI : IInvX s) (h : step s l = some s') : IInvX s' := by
  cases l with
  | advance t =>
    simp only [step] at h
    split at h
    · injection h with h; subst h
      exact hI.env _ ⟨rfl, rfl, id, id⟩
    · simp at h
  | envLost cid =>
    simp only [step] at h
    split at h
    · injection h with h; subst h
      refine hI.env _ ⟨rfl, rfl, id, ?_⟩
      exact curLive_set (c := s.core) (cid := cid) (x := .dying true) (fun h => by cases h)
    · simp at h
  | envLostRan cid =>
    simp only [step] at h
    split at h
    · rename_i e _
      injection h with h; subst h
      refine hI.env _ ⟨rfl, rfl, id, ?_⟩
      exact curLive_set (c := s.core) (cid := cid) (x := .dead e) (fun h => by cases h)
    · simp at h
  | envPause cid b =>
    simp only [step] at h
    split at h
    · rename_i heq
      injection h with h; subst h
      refine hI.env _ ⟨rfl, rfl, id, ?_⟩
      exact curLive_set (c := s.core) (cid := cid) (fun _ => ⟨_, heq, rfl⟩)
    · simp at h
  | envFailWrites cid b =>
    simp only [step] at h
    split at h
    · rename_i heq
      injection h with h; subst h
      refine hI.env _ ⟨rfl, rfl, id, ?_⟩
      exact curLive_set (c := s.core) (cid := cid) (fun _ => ⟨_, heq, rfl⟩)
    · simp at h
  | apiOpen =>
    simp only [step] at h
    split at h
    · injection h with h; subst h
      exact hI.apiSame _ ⟨rfl, rfl, id, id⟩ rfl (by simp) rfl
    · injection h with h; subst h
      refine hI.apiSame _ ⟨rfl, rfl, fun h => absurd rfl h, id⟩ rfl ?_ rfl
      intro p hp; simp only [List.mem_singleton] at hp; subst hp; rfl
  | apiClose =>
    simp only [step] at h
    split at h
    · injection h with h; subst h
      exact hI.apiSame _ ⟨rfl, rfl, id, id⟩ rfl (by simp) rfl
    · have hpre : Pre { s.core.emit (.apiClose s.core.now) with isOpen := false } := hI.pre
      have hts := cancel_pcs _ hI.pcs
      have hbs := cancel_bgs _ hI.bgs
      split at h
      · injection h with h; subst h
        refine IInvX.api_of _ _ _ hts hbs ⟨hpre, rfl, by simp⟩ rfl ?_
        intro _
        exact ⟨⟨.closeGather, false⟩, by simp [spawnApi], rfl, rfl⟩
      · injection h with h; subst h
        obtain ⟨h1, _⟩ := disconnect_idle FUEL (by decide)
          { s.core.emit (.apiClose s.core.now) with isOpen := false } [] .closeTail rfl (by simp) hpre
        refine IInvX.api_of _ _ _ hts hbs h1 (exec_noBg _ _ _ _) ?_
        intro hl
        exact absurd ⟨hl.1, hl.2.2⟩ (disconnect_dead FUEL (by decide) _ [] .closeTail)
  | apiReset =>
    simp only [step] at h
    injection h with h; subst h
    have hpre : Pre (s.core.emit (.apiReset s.core.now)) := hI.pre
    obtain ⟨h1, _⟩ := disconnect_idle FUEL (by decide) (s.core.emit (.apiReset s.core.now)) []
      (.resetTail .done) rfl (by simp) hpre
    refine IInvX.api_of s.tasks s.core _ hI.pcs hI.bgs h1 (exec_noBg _ _ _ _) ?_
    intro hl
    exact absurd ⟨hl.1, hl.2.2⟩ (disconnect_dead FUEL (by decide) _ [] (.resetTail .done))
  | apiSend sid r life ok =>
    simp only [step] at h
    split at h
    · injection h with h; subst h
      exact hI.apiSame _ ⟨rfl, rfl, id, id⟩ rfl (by simp) rfl
    · split at h
      · injection h with h; subst h
        refine hI.apiSame _ ⟨rfl, rfl, ?_, id⟩ rfl (by simp) rfl
        intro hq hnil
        apply hq
        simp [Core.emit, purged, hnil]
      · injection h with h; subst h
        have hpre : Pre ({ s.core with
            queue := purged s.core.now s.core.queue ++ [(⟨sid, r, s.core.now + life, ok, false⟩ : Entry)],
            trace := s.core.trace ++ purgeEvents s.core.now s.core.queue }.emit
              (.accept sid s.core.now (s.core.now + life) r ok)) := hI.pre
        obtain ⟨h1, _⟩ := drain_idle FUEL (by decide) _ [] .done rfl (by simp) hpre
        refine hI.apiB _ h1 (exec_noBg _ _ _ _) ?_
        intro hl
        obtain ⟨⟨a1, _, a3⟩, a4, a5⟩ := drain_weak FUEL (by decide) _ [] .done rfl (by simp) hpre hl
        refine ⟨⟨a1, ?_, a3⟩, a4⟩
        intro hnil
        apply a5
        simp [Core.emit, purged, hnil]
  | run t a => exact step_run_iinvx s s' t a hI h

/-! ### the cancel step, and every reachable state of the extended model -/

theorem cancel_iinvx {s s' : Sys} {t : Nat} (hI : IInvX s) (h : stepX s (.cancel t) = some s') : IInvX s' := by
  obtain ⟨k, hk, hbg, hc, rfl⟩ := stepX_cancel h
  have hnd : durable k = false := not_durable hbg (by intro hp; rw [hp] at hc; cases hc)
  refine ⟨hI.pre, ?_, ?_, ?_⟩
  · intro k' hk'
    rcases mem_modify _ _ _ _ hk' with hk' | ⟨y, _, rfl⟩
    · exact hI.pcs k' hk'
    · rfl
  · intro k' hk'
    rcases mem_modify _ _ _ _ hk' with hk' | ⟨y, _, rfl⟩
    · exact hI.bgs k' hk'
    · intro hn; cases hn
  · intro hl
    obtain ⟨k', hk', hp, hd⟩ := hI.busy hl
    rcases mem_modify_other (fun k => { k with pc := Pc.finished }) _ _ _ _ hk' hk with hm | rfl
    · exact ⟨k', hm, hp, hd⟩
    · rw [hnd] at hd; cases hd

theorem IInvX.init : IInvX Model.Sock.init := by
  refine ⟨?_, ?_, ?_, ?_⟩ <;> simp [Model.Sock.init, Pre, Live]

theorem idle_invariantX {s : Sys} (h : ReachableX s) : IInvX s := by
  refine ReachableX.induction (P := IInvX) IInvX.init ?_ s h
  intro s l s' _ hp hst
  cases l with
  | base l => exact step_iinvx s s' l hp hst
  | cancel t => exact cancel_iinvx hp hst

end PyAirtouch.Lemmas.SockXIdle
