import PyAirtouch.Model.HeartbeatX
import PyAirtouch.Lemmas.Heartbeat
set_option linter.unusedSimpArgs false
/-!
# Invariants of the heartbeat model extended with refused heartbeats (`Model/HeartbeatX.lean`)

Every induction is over extended label lists; the `base` case of each step lemma is the existing per-step lemma
of the base model (`Lemmas/Heartbeat.lean`), the `beatRefused` case is new - and short, because a refused
heartbeat changes `hl` only.
-/
namespace PyAirtouch.Lemmas.HeartbeatX
open PyAirtouch.Model.Heartbeat PyAirtouch.Spec.Heartbeat PyAirtouch.Lemmas.Heartbeat

/-! ### induction over extended runs -/

theorem runX_inv {P : HB → Prop} (hstep : ∀ h l h', P h → stepX h l = some h' → P h') :
    ∀ ls h h', P h → runX h ls = some h' → P h' := by
  intro ls
  induction ls with
  | nil => intro h h' hp hr; simp only [runX, Option.some.injEq] at hr; subst hr; exact hp
  | cons l ls ih =>
    intro h h' hp hr
    simp only [runX] at hr
    cases hs : stepX h l with
    | none => simp [hs] at hr
    | some h1 =>
      simp only [hs, Option.bind_some] at hr
      exact ih h1 h' (hstep h l h1 hp hs) hr

theorem reachableX_inv {P : HB → Prop} {i t : Nat} (h0 : P (init i t))
    (hstep : ∀ h l h', P h → stepX h l = some h' → P h') {h : HB} : ReachableX i t h → P h := by
  intro ⟨ls, hr⟩
  exact runX_inv hstep ls _ _ h0 hr

theorem runX_append {h : HB} {ls1 ls2 : List LabelX} :
    runX h (ls1 ++ ls2) = (runX h ls1).bind (fun h' => runX h' ls2) := by
  induction ls1 generalizing h with
  | nil => simp [runX]
  | cons l ls ih =>
    simp only [List.cons_append, runX]
    cases stepX h l with
    | none => simp
    | some h1 => simp [ih]

theorem reachableX_step {i t : Nat} {h h' : HB} {l : LabelX} :
    ReachableX i t h → stepX h l = some h' → ReachableX i t h' := by
  intro ⟨ls, hr⟩ hs
  refine ⟨ls ++ [l], ?_⟩
  rw [runX_append, hr]
  simp [runX, hs]

theorem reachableX_run {i t : Nat} {h h' : HB} {ls : List LabelX} :
    ReachableX i t h → runX h ls = some h' → ReachableX i t h' := by
  intro ⟨ls0, hr⟩ hs
  refine ⟨ls0 ++ ls, ?_⟩
  rw [runX_append, hr]
  simpa using hs

theorem runX_base {h : HB} : ∀ ls : List Label, runX h (ls.map .base) = run h ls := by
  intro ls
  induction ls generalizing h with
  | nil => rfl
  | cons l ls ih =>
    simp only [List.map_cons, runX, run, stepX]
    cases step h l with
    | none => rfl
    | some h1 => simp [ih]

/-- the extension is conservative: every state of the base model is a state of the extended one -/
theorem reachableX_of_reachable {i t : Nat} {h : HB} : Reachable i t h → ReachableX i t h := by
  intro ⟨ls, hr⟩
  exact ⟨ls.map .base, by rw [runX_base, hr]⟩

/-! ### the refused iteration -/

theorem refuse_eq {h h' : HB} {next : HL} (hs : refuse h next = some h') :
    ∃ u, h.hl = .sleeping u ∧ u ≤ h.now ∧ h.connected = true ∧ h' = { h with hl := next } := by
  unfold refuse at hs
  split at hs
  · next u hu =>
    split at hs
    · next hc =>
      simp only [Bool.and_eq_true, decide_eq_true_eq] at hc
      cases hs
      exact ⟨u, hu, hc.1, hc.2, rfl⟩
    · cases hs
  · cases hs

/-- what a refused heartbeat is, under the repaired code: the heartbeat loop was due (`hl = .sleeping u`, `u ≤ now`),
    the link is up, and the only field that changes is `hl` -/
theorem refused_eq {h h' : HB} (hs : stepX h .beatRefused = some h') :
    ∃ u, h.hl = .sleeping u ∧ u ≤ h.now ∧ h.connected = true ∧
      h' = { h with hl := .sleeping (h.now + h.interval) } :=
  refuse_eq hs

/-- `beatRefused` is enabled exactly when `hlBeat` is enabled and the link is up -/
theorem refused_enabled_iff {h : HB} :
    (stepX h .beatRefused).isSome = true ↔ (step h .hlBeat).isSome = true ∧ h.connected = true := by
  simp only [stepX, refuse, step]
  cases h.hl with
  | idle => simp
  | sleeping u =>
    by_cases hu : u ≤ h.now <;> cases hc : h.connected <;> simp [hu, hc]

/-! ### the invariants of the base model hold for the extended system -/

theorem basic_stepX {i t : Nat} {h h' : HB} {l : LabelX} :
    Basic i t h → stepX h l = some h' → Basic i t h' := by
  intro hb hs
  cases l with
  | base l => exact basic_step hb hs
  | beatRefused =>
    obtain ⟨u, hu, hle, hc, rfl⟩ := refused_eq hs
    obtain ⟨h1, h2, h3, h4, h5, h6⟩ := hb
    constructor <;> grind

theorem reachableX_basic {i t : Nat} {h : HB} : ReachableX i t h → Basic i t h :=
  reachableX_inv (basic_init i t) (fun _ _ _ => basic_stepX)

theorem traceInv_stepX {i t : Nat} {h h' : HB} {l : LabelX} :
    Basic i t h → TraceInv t h → stepX h l = some h' → TraceInv t h' := by
  intro hb k hs
  cases l with
  | base l => exact traceInv_step hb k hs
  | beatRefused =>
    obtain ⟨u, hu, hle, hc, rfl⟩ := refused_eq hs
    exact ⟨k.past, k.resp_arm, k.reset_ge, k.reset_quiet⟩

theorem armInv_stepX {i t : Nat} {h h' : HB} {l : LabelX} (hb : Basic i t h) (ht : TraceInv t h)
    (ha : ArmInv t h) (hs : stepX h l = some h') : ArmInv t h' := by
  cases l with
  | base l => exact armInv_step hb ht ha hs
  | beatRefused =>
    obtain ⟨u, hu, hle, hc, rfl⟩ := refused_eq hs
    exact ⟨ha.flag_resp, ha.arm_origin, ha.reset_origin⟩

theorem reachableX_all {i t : Nat} {h : HB} : ReachableX i t h → Basic i t h ∧ TraceInv t h ∧ ArmInv t h :=
  reachableX_inv (P := fun h => Basic i t h ∧ TraceInv t h ∧ ArmInv t h)
    ⟨basic_init i t, traceInv_init i t, armInv_init i t⟩
    (fun _ _ _ hp hs => ⟨basic_stepX hp.1 hs, traceInv_stepX hp.1 hp.2.1 hs,
      armInv_stepX hp.1 hp.2.1 hp.2.2 hs⟩)

theorem reachableX_traceInv {i t : Nat} {h : HB} (hr : ReachableX i t h) : TraceInv t h :=
  (reachableX_all hr).2.1

theorem reachableX_armInv {i t : Nat} {h : HB} (hr : ReachableX i t h) : ArmInv t h :=
  (reachableX_all hr).2.2

/-- the only extended step that appends a `reset` event is an expiry while connected -/
theorem stepX_reset {h h' : HB} {l : LabelX} {r : Nat} (hs : stepX h l = some h')
    (hin : HEv.reset r ∈ h'.trace) (hout : HEv.reset r ∉ h.trace) :
    l = .base .tlFire ∧ h.connected = true ∧ r = h.now ∧ h'.trace = h.trace ++ [.reset h.now] := by
  cases l with
  | base l =>
    obtain ⟨a, b, c, d⟩ := step_reset hs hin hout
    exact ⟨by rw [a], b, c, d⟩
  | beatRefused =>
    obtain ⟨u, hu, hle, hc, rfl⟩ := refused_eq hs
    exact absurd hin hout

/-! ### "started" read off the recorded events, and the invariant `HlAlive` -/

def startedStep (b : Bool) : HEv → Bool
  | .start _ => true
  | .stop _ => false
  | _ => b

/-- the latest `start` / `stop` event of the record is a `start` -/
def started (tr : List HEv) : Bool := tr.foldl startedStep false

theorem started_append (tr : List HEv) (e : HEv) : started (tr ++ [e]) = startedStep (started tr) e := by
  simp [started, List.foldl_append]

/-- monitoring is started (after a `start` and before the next `stop`) iff the heartbeat loop is alive
    (`.sleeping _`), iff the timeout loop is alive -/
structure HlAlive (h : HB) : Prop where
  hl : started h.trace = true ↔ ∃ u, h.hl = .sleeping u
  tl : started h.trace = true ↔ h.tl ≠ .idle

theorem hlAlive_init (i t : Nat) : HlAlive (init i t) := by
  constructor <;> simp [init, started]

theorem hlAlive_step {h h' : HB} {l : Label} : HlAlive h → step h l = some h' → HlAlive h' := by
  intro ⟨a1, a2⟩ hs
  cases l <;> simp only [step, HB.emit, enterTimeout] at hs
  all_goals (repeat' split at hs)
  all_goals (first | cases hs | skip)
  all_goals constructor
  all_goals try simp only [started_append, startedStep]
  all_goals grind

theorem hlAlive_stepX {h h' : HB} {l : LabelX} : HlAlive h → stepX h l = some h' → HlAlive h' := by
  intro ha hs
  cases l with
  | base l => exact hlAlive_step ha hs
  | beatRefused =>
    obtain ⟨u, hu, hle, hc, rfl⟩ := refused_eq hs
    obtain ⟨a1, a2⟩ := ha
    exact ⟨⟨fun _ => ⟨_, rfl⟩, fun _ => a1.2 ⟨u, hu⟩⟩, a2⟩

theorem reachableX_hlAlive {i t : Nat} {h : HB} : ReachableX i t h → HlAlive h :=
  reachableX_inv (hlAlive_init i t) (fun _ _ _ => hlAlive_stepX)

/-! ### no extended step except `stop` ends the heartbeat loop -/

theorem step_keeps_loop {h h' : HB} {l : Label} (hs : step h l = some h') (hne : l ≠ .stop) :
    (∃ u, h.hl = .sleeping u) → ∃ u', h'.hl = .sleeping u' := by
  intro ⟨u, hu⟩
  cases l <;> simp only [step, HB.emit, enterTimeout] at hs
  all_goals (repeat' split at hs)
  all_goals (first | cases hs | skip)
  all_goals grind

theorem stepX_keeps_loop {h h' : HB} {l : LabelX} (hs : stepX h l = some h') (hne : l ≠ .base .stop) :
    (∃ u, h.hl = .sleeping u) → ∃ u', h'.hl = .sleeping u' := by
  intro hu
  cases l with
  | base l => exact step_keeps_loop hs (fun e => hne (by rw [e])) hu
  | beatRefused =>
    obtain ⟨u, _, _, _, rfl⟩ := refused_eq hs
    exact ⟨_, rfl⟩

theorem runX_keeps_loop : ∀ (ls : List LabelX) (h h' : HB), runX h ls = some h' →
    (∀ l ∈ ls, l ≠ .base .stop) → (∃ u, h.hl = .sleeping u) → ∃ u', h'.hl = .sleeping u' := by
  intro ls
  induction ls with
  | nil => intro h h' hr _ hu; simp only [runX, Option.some.injEq] at hr; subst hr; exact hu
  | cons l ls ih =>
    intro h h' hr hl hu
    simp only [runX] at hr
    cases hs : stepX h l with
    | none => simp [hs] at hr
    | some h1 =>
      simp only [hs, Option.bind_some] at hr
      exact ih h1 h' hr (fun l' hl' => hl l' (List.mem_cons_of_mem _ hl'))
        (stepX_keeps_loop hs (hl l (List.mem_cons_self ..)) hu)

/-! ### time does not pass a pending deadline unnoticed (extended runs) -/

theorem stepX_keeps_deadline {h h' : HB} {l : LabelX} {d : Nat} (hs : stepX h l = some h')
    (hw : h.tl = .waiting d) (hn : h.now ≤ d)
    (h1 : l ≠ .base .tlFire) (h2 : l ≠ .base .tlWake) (h3 : l ≠ .base .stop) :
    h'.tl = .waiting d ∧ h'.now ≤ d ∧ h'.lastArm = h.lastArm := by
  cases l with
  | base l =>
    exact step_keeps_deadline hs hw hn (fun e => h1 (by rw [e])) (fun e => h2 (by rw [e])) (fun e => h3 (by rw [e]))
  | beatRefused =>
    obtain ⟨u, _, _, _, rfl⟩ := refused_eq hs
    exact ⟨hw, hn, rfl⟩

theorem runX_keeps_deadline {d : Nat} : ∀ (ls : List LabelX) (h h' : HB), runX h ls = some h' →
    h.tl = .waiting d → h.now ≤ d →
    (∀ l ∈ ls, l ≠ .base .tlFire ∧ l ≠ .base .tlWake ∧ l ≠ .base .stop) →
    h'.tl = .waiting d ∧ h'.now ≤ d ∧ h'.lastArm = h.lastArm := by
  intro ls
  induction ls with
  | nil => intro h h' hr hw hn _; simp only [runX, Option.some.injEq] at hr; subst hr; exact ⟨hw, hn, rfl⟩
  | cons l ls ih =>
    intro h h' hr hw hn hl
    simp only [runX] at hr
    cases hs : stepX h l with
    | none => simp [hs] at hr
    | some h1 =>
      simp only [hs, Option.bind_some] at hr
      have hl0 := hl l (List.mem_cons_self ..)
      obtain ⟨a, b, c⟩ := stepX_keeps_deadline hs hw hn hl0.1 hl0.2.1 hl0.2.2
      have := ih h1 h' hr a b (fun l' hl' => hl l' (List.mem_cons_of_mem _ hl'))
      exact ⟨this.1, this.2.1, this.2.2.trans c⟩

/-! ### runs in which every iteration of the heartbeat loop is answered in time

The monitor `Mon` of `GoodRun` (`Lemmas/Heartbeat.lean`) reads a refused iteration like any other iteration of the
heartbeat loop: it is outstanding until the timeout loop consumes a response.  (No request went out, so only a stray
response can do that.) -/

def monStepX (m : Nat) (s : Mon) : LabelX → Option Mon
  | .base l => s.step m l
  | .beatRefused => s.step m .hlBeat

def goodFromX (m : Nat) (s : Mon) : List LabelX → Bool
  | [] => true
  | l :: ls =>
    match monStepX m s l with
    | some s' => goodFromX m s' ls
    | none => false

def GoodRunX (m : Nat) (ls : List LabelX) : Prop := goodFromX m ⟨0, none⟩ ls = true

instance (m : Nat) (ls : List LabelX) : Decidable (GoodRunX m ls) := by
  unfold GoodRunX; infer_instance

theorem sim_stepX {i t m : Nat} (hm : 0 < m) (hmt : m + i ≤ t) {h h' : HB} {s s' : Mon} {l : LabelX} :
    Sim i t m h s → stepX h l = some h' → monStepX m s l = some s' → Sim i t m h' s' := by
  intro hsim hs hms
  cases l with
  | base l => exact sim_step hm hmt hsim hs hms
  | beatRefused =>
    have hlt := sim_lt hm hsim
    have hb' := basic_stepX hsim.basic hs
    obtain ⟨u, hu, hle, hc, rfl⟩ := refused_eq hs
    obtain ⟨hb, g1, g2, g3, g4, g5⟩ := hsim
    obtain ⟨h1, h2, h3, h4, h5, h6⟩ := hb
    simp only [monStepX, Mon.step] at hms
    repeat' split at hms
    all_goals (first | cases hms | skip)
    all_goals constructor
    all_goals grind

theorem sim_runX {i t m : Nat} (hm : 0 < m) (hmt : m + i ≤ t) :
    ∀ ls h h' s, Sim i t m h s → runX h ls = some h' → goodFromX m s ls = true →
      ∃ s', Sim i t m h' s' := by
  intro ls
  induction ls with
  | nil => intro h h' s hsim hr _; simp only [runX, Option.some.injEq] at hr; subst hr; exact ⟨s, hsim⟩
  | cons l ls ih =>
    intro h h' s hsim hr hg
    simp only [runX] at hr
    simp only [goodFromX] at hg
    cases hs : stepX h l with
    | none => simp [hs] at hr
    | some h1 =>
      simp only [hs, Option.bind_some] at hr
      cases hms : monStepX m s l with
      | none => simp [hms] at hg
      | some s1 =>
        simp only [hms] at hg
        exact ih h1 h' s1 (sim_stepX hm hmt hsim hs hms) hr hg

/-! ### the code before the repair (`stepOld`): once the heartbeat loop's task has ended nothing but `stop` + `start`
brings it back -/

def beats (tr : List HEv) : List Nat := tr.filterMap fun | .beat b => some b | _ => none

theorem beats_append (tr : List HEv) (e : HEv) :
    beats (tr ++ [e]) = beats tr ++ (match e with | .beat b => [b] | _ => []) := by
  unfold beats
  rw [List.filterMap_append]
  cases e <;> rfl

/-- the heartbeat loop's task is gone while the timeout loop is still there -/
def Dead (h : HB) : Prop := h.hl = .idle ∧ h.tl ≠ .idle

theorem step_dead {h h' : HB} {l : Label} (hd : Dead h) (hs : step h l = some h') (hne : l ≠ .stop) :
    Dead h' ∧ beats h'.trace = beats h.trace := by
  obtain ⟨d1, d2⟩ := hd
  unfold Dead
  cases l <;> simp only [step, HB.emit, enterTimeout] at hs
  all_goals (repeat' split at hs)
  all_goals (first | cases hs | skip)
  all_goals simp only [beats_append]
  all_goals grind

theorem stepOld_dead {h h' : HB} {l : LabelX} (hd : Dead h) (hs : stepOld h l = some h')
    (hne : l ≠ .base .stop) : Dead h' ∧ beats h'.trace = beats h.trace := by
  cases l with
  | base l => exact step_dead hd hs (fun e => hne (by rw [e]))
  | beatRefused =>
    obtain ⟨u, hu, _⟩ := refuse_eq hs
    rw [hd.1] at hu; cases hu

theorem runOld_dead : ∀ (ls : List LabelX) (h h' : HB), Dead h → runOld h ls = some h' →
    (∀ l ∈ ls, l ≠ .base .stop) → Dead h' ∧ beats h'.trace = beats h.trace := by
  intro ls
  induction ls with
  | nil => intro h h' hd hr _; simp only [runOld, Option.some.injEq] at hr; subst hr; exact ⟨hd, rfl⟩
  | cons l ls ih =>
    intro h h' hd hr hl
    simp only [runOld] at hr
    cases hs : stepOld h l with
    | none => simp [hs] at hr
    | some h1 =>
      simp only [hs, Option.bind_some] at hr
      obtain ⟨a, b⟩ := stepOld_dead hd hs (hl l (List.mem_cons_self ..))
      obtain ⟨c, d⟩ := ih h1 h' a hr (fun l' hl' => hl l' (List.mem_cons_of_mem _ hl'))
      exact ⟨c, d.trans b⟩

/-- in a dead state neither kind of iteration of the heartbeat loop is enabled -/
theorem dead_no_iteration {h : HB} (hd : Dead h) :
    stepOld h (.base .hlBeat) = none ∧ stepOld h .beatRefused = none := by
  simp [stepOld, step, refuse, hd.1]

/-! ### label sequences used by the non-vacuity examples (`interval` 2400, `timeout` 2640) -/

/-- link up, started at 0, the first heartbeat is refused -/
def exRefusedFirst : List LabelX := [.base (.conn true), .base .start, .beatRefused]

/-- first heartbeat at 0 sent and answered; link lost at 2352 and back at 2400 with a full send buffer: the heartbeat
    of 2400 is refused; nothing is outstanding at the console, so the deadline 2640 expires: reset (the residual known
    finding); the reset completes; the clock is at the next iteration of the heartbeat loop, 4800 -/
def exOverflow : List LabelX :=
  [.base (.conn true), .base .start, .base .hlBeat, .base .response, .base .tlWake,
   .base (.advance 2352), .base (.conn false), .base (.advance 2400), .base (.conn true), .beatRefused,
   .base (.advance 2640), .base .tlFire, .base .tlResetDone, .base (.advance 4800)]

end PyAirtouch.Lemmas.HeartbeatX
