import PyAirtouch.Lemmas.Api5Out
/-!
# Lemmas about time in the AirTouch 5 API model: the idle heartbeat manager, `adv`, unchanged reports
-/
namespace PyAirtouch.Lemmas.Api5
open PyAirtouch.Model PyAirtouch.Model.Api5 PyAirtouch.Model.At5 PyAirtouch.Model.At5.Registry
open PyAirtouch.Model.TimerCommon (AcTimerState AcTimerStatusData)
open PyAirtouch.Model.Heartbeat
open PyAirtouch.Gen PyAirtouch.Gen.Api5

/-- the heartbeat manager is not running (neither task exists) -/
def HbIdle (h : HB) : Prop := h.tl = .idle ∧ h.hl = .idle

theorem settle_idle (rt fuel : Nat) (h : HB) (t : Nat) (incl : Bool) (hi : HbIdle h) :
    settle rt fuel h t incl = h := by
  cases fuel with
  | zero => rfl
  | succ f =>
    unfold settle
    have hw : apply! h .tlWake = h := by simp [apply!, step, hi.1]
    simp only [hw, ite_self, hi.1, hi.2]

theorem advance_idle (h : HB) (t : Nat) (hi : HbIdle h) :
    ∃ n', apply! h (.advance t) = { h with now := n' } := by
  simp only [apply!, step, hi.1, hi.2]
  split
  · exact ⟨t, rfl⟩
  · refine ⟨h.now, ?_⟩
    obtain ⟨h1, h2⟩ := hi
    cases h; simp_all

/-- time passing does nothing to an idle heartbeat manager -/
theorem feed_finish_idle (h : HB) (t : Nat) (hi : HbIdle h) :
    ∃ n', feed 0 h (.finish t) = { h with now := n' } := by
  unfold feed
  simp only [HIn.time]
  rw [settle_idle _ _ _ _ _ hi]
  obtain ⟨n', hn⟩ := advance_idle h t hi
  rw [hn]
  exact ⟨n', settle_idle _ _ _ _ _ hi⟩

theorem hbFeed_finish_idle (s : State) (t : Nat) (hi : HbIdle s.hb) :
    (hbFeed s (.finish t)).2 = [] ∧ HbIdle (hbFeed s (.finish t)).1.hb ∧
      ∃ hb', (hbFeed s (.finish t)).1 = { s with hb := hb' } := by
  have hi' : HbIdle { s.hb with trace := [], expiries := [] } := hi
  obtain ⟨n', hn⟩ := feed_finish_idle _ t hi'
  simp only [hbFeed, hn]
  exact ⟨rfl, hi, _, rfl⟩

/-- `adv` with the heartbeat manager idle: only the due `init()` time-outs, in order -/
theorem doAdv_idle (s : State) (n : Nat) (hi : HbIdle s.hb) :
    (doAdv s n).2 = (s.pendingInits.filter (· ≤ s.now + n)).map (fun _ => Out.result "init False") ∧
    HbIdle (doAdv s n).1.hb ∧
    ∃ hb', (doAdv s n).1 = { s with hb := hb', now := s.now + n, pendingInits := s.pendingInits.filter (s.now + n < ·) } := by
  unfold doAdv
  simp only
  have key : ∀ (due : List Nat) (acc : State × List Out), HbIdle acc.1.hb →
      let res := due.foldl (fun (acc : State × List Out) d =>
        ((hbFeed acc.1 (.finish d)).1, acc.2 ++ (hbFeed acc.1 (.finish d)).2 ++ [Out.result "init False"])) acc
      res.2 = acc.2 ++ due.map (fun _ => Out.result "init False") ∧ HbIdle res.1.hb ∧
        ∃ hb', res.1 = { acc.1 with hb := hb' } := by
    intro due
    induction due with
    | nil => intro acc h; exact ⟨by simp, h, acc.1.hb, rfl⟩
    | cons d due ih =>
      intro acc h
      obtain ⟨h1, h2, hb1, h3⟩ := hbFeed_finish_idle acc.1 d h
      have := ih ((hbFeed acc.1 (.finish d)).1, acc.2 ++ (hbFeed acc.1 (.finish d)).2 ++ [Out.result "init False"]) h2
      simp only [List.foldl_cons]
      obtain ⟨g1, g2, hb2, g3⟩ := this
      refine ⟨?_, g2, hb2, ?_⟩
      · rw [g1, h1]; simp
      · rw [g3, h3]
  obtain ⟨g1, g2, hb1, g3⟩ := key (s.pendingInits.filter (· ≤ s.now + n)) (s, []) hi
  obtain ⟨h1, h2, hb2, h3⟩ := hbFeed_finish_idle _ (s.now + n) g2
  simp only at g1 g3
  refine ⟨?_, ?_, hb2, ?_⟩
  · rw [g1, h1]; simp
  · exact h2
  · rw [h3, g3]

/-! ### reports that change nothing -/

theorem runSteps_silent {α} (step : State → α → State × List Out) (l : List α) (s : State)
    (h : ∀ d ∈ l, step s d = (s, [])) : runSteps step l s = (s, []) := by
  induction l with
  | nil => rfl
  | cons d l ih =>
    have hd := h d (by simp)
    simp only [runSteps, hd]
    have := ih (fun e he => h e (by simp [he]))
    simp [this]

theorem acStatusStep_same (s : State) (d : C023.AcStatusData)
    (h : ∀ r a, s.acRef d.ac_number = some r → s.aobjs[r]? = some a → a.status = d) : acStatusStep s d = (s, []) := by
  unfold acStatusStep
  cases hr : s.acRef d.ac_number with
  | none => rfl
  | some r =>
    cases ha : s.aobjs[r]? with
    | none => simp [ha]
    | some a =>
      have := h r a hr ha
      simp [ha, acAfterStatus, acStatusOut, this, State.setAc, modifyAt_self _ _ _ ha]

theorem acTimerStep_same (s : State) (d : AcTimerStatusData)
    (h : ∀ r a, s.acRef d.ac_number = some r → s.aobjs[r]? = some a → a.timer = d) : acTimerStep s d = (s, []) := by
  unfold acTimerStep
  cases hr : s.acRef d.ac_number with
  | none => rfl
  | some r =>
    cases ha : s.aobjs[r]? with
    | none => simp [ha]
    | some a =>
      have := h r a hr ha
      have e : acAfterTimer a d = a := by cases a; simp_all [acAfterTimer]
      simp [ha, e, acTimerOut, this, State.setAc, modifyAt_self _ _ _ ha]

theorem zoneStatusStep_same (s : State) (d : C021.ZoneStatusData)
    (h : ∀ r z, s.zones.lookup d.zone_number = some r → s.zobjs[r]? = some z → z.status = d) :
    zoneStatusStep s d = (s, []) := by
  unfold zoneStatusStep
  cases hr : s.zones.lookup d.zone_number with
  | none => rfl
  | some r =>
    cases hz : s.zobjs[r]? with
    | none => simp [hz]
    | some z =>
      have := h r z hr hz
      have e : zoneAfterStatus z d = z := by cases z; simp_all [zoneAfterStatus]
      simp [hz, e, zoneStatusOut, this, State.setZone, modifyAt_self _ _ _ hz]

end PyAirtouch.Lemmas.Api5
