import PyAirtouch.Lemmas.Api5Run
/-!
# A concrete AirTouch 5 session used by the non-vacuity examples

`demo5`: a new object with one AirTouch-level subscriber, `init()`, the connection, and a console that answers the six
handshake requests (one AC with two zones; console version `"1"`, update available).
-/
namespace PyAirtouch.Lemmas.Api5
open PyAirtouch.Model PyAirtouch.Model.Api5 PyAirtouch.Model.At5 PyAirtouch.Model.At5.Registry
open PyAirtouch.Gen PyAirtouch.Gen.Api5

def demo5New : State := State.new [97] [98] [99] [100]
def demo5Version : Msg := .extended (.consoleVer (.message ⟨true, [[49]]⟩))
def demo5Names : Msg := .extended (.zoneNames (.message ⟨[(0, [76]), (1, [66])]⟩))
def demo5Ability : FF11.AcAbility :=
  { ac_number := 0, ac_name := [77], start_zone := 0, zone_count := 2,
    ac_mode_support := FF11.decModeSupport 31, fan_speed_support := FF11.decFanSpeedSupport 255,
    min_cool_set_point := 17, max_cool_set_point := 30, min_heat_set_point := 16, max_heat_set_point := 28 }
def demo5Abilities : Msg := .extended (.acAbility (.ability [demo5Ability]))
def demo5AcStatus : Msg := .controlStatus (.acStatus (.status [(newAc demo5Ability [] [] []).status]))
def demo5Timers : Msg := .controlStatus (.acTimerStatus (.status []))
def demo5Zones : Msg := .controlStatus (.zoneStatus (.status []))

/-- the connection comes up and the console answers every request -/
def demo5Handshake : List Op :=
  [.conn true, .msg 176 demo5Version, .msg 176 demo5Names, .msg 176 demo5Abilities, .msg 176 demo5AcStatus,
   .msg 176 demo5Timers, .msg 176 demo5Zones]

def demo5Ops : List Op := [.sub .at "w" false, .init] ++ demo5Handshake

/-- initialised and connected -/
def demo5 : State := runS demo5New demo5Ops

/-- `init()` called, the connection up, the version and the zone names received: in the middle of the handshake -/
def demo5Mid : State := runS demo5New [.sub .at "w" false, .init, .conn true, .msg 176 demo5Version, .msg 176 demo5Names]

set_option maxRecDepth 4000 in
theorem demo5_facts : demo5.st = .CONNECTED ∧ demo5.initialised = true ∧ demo5.acs = [(0, 0)] ∧
    demo5.zones = [(0, 0), (1, 1)] ∧ demo5.sockOpen = true ∧ demo5.hb.tl = .waiting 2640 ∧ demo5.hb.hl = .sleeping 2400 ∧
    demo5.hb.connected = true ∧ demo5.subs = ["w"] ∧ demo5.pendingInits = [] ∧ demo5.now = 0 := by decide

set_option maxRecDepth 4000 in
theorem demo5Mid_facts : demo5Mid.st = .INIT_AC_ABILITY ∧ demo5Mid.initialised = false ∧ demo5Mid.zones = [(0, 0), (1, 1)] ∧
    demo5Mid.sockOpen = true ∧ demo5Mid.pendingInits = [40] := by decide

end PyAirtouch.Lemmas.Api5
