import PyAirtouch.Model.At5.FF13
import PyAirtouch.Lemmas.Part3Text
/-!
# Length and round trip lemmas for the AirTouch 5 zone names codec (repaired `size`: two bytes per zone)
-/
namespace PyAirtouch.Lemmas.At5FF13
open PyAirtouch.Model PyAirtouch.Model.At5.FF13 PyAirtouch.Lemmas.Part3Text

def nameBytes (ns : List (Nat × Bytes)) : Nat := (ns.map (fun p => p.2.length)).sum

theorem sumNameLengths_eq (ns : List (Nat × Bytes)) :
    ∀ start, sumNameLengths start ns = start + nameBytes ns := by
  induction ns with
  | nil => intro start; simp [sumNameLengths, nameBytes]
  | cons p ps ih =>
    intro start
    have := ih (start + p.2.length)
    simp only [sumNameLengths, List.foldl_cons, nameBytes, List.map_cons, List.sum_cons] at this ⊢
    omega

theorem flatMap_length (ns : List (Nat × Bytes)) :
    (ns.flatMap encEntry).length = 2 * ns.length + nameBytes ns := by
  induction ns with
  | nil => simp [nameBytes]
  | cons p ps ih =>
    simp only [List.flatMap_cons, List.length_append, ih, encEntry, List.length_cons, nameBytes,
      List.map_cons, List.sum_cons]
    omega

theorem encode_length (m : Msg) : (encode m).length = size m := by
  cases m with
  | request r => rcases r with ⟨_ | n⟩ <;> rfl
  | message m => simp only [encode, size, flatMap_length, sumNameLengths_eq]

/-- on well-formed messages the real encoder raises nothing and produces `encode m` -/
theorem encodeE_ok (m : Msg) (h : WF m) : encodeE m = .ok (encode m) := by
  cases m with
  | request r =>
    rcases r with ⟨_ | n⟩
    · rfl
    · have : n < 256 := h n rfl
      simp [encodeE, encode, this]
  | message m =>
    have : m.zone_names.all (fun p => decide (p.1 < 256) && decide (p.2.length < 256)) = true := by
      rw [List.all_eq_true]
      intro p hp
      obtain ⟨h1, h2, _⟩ := h.2.2 p hp
      simp [h1]; omega
    simp [encodeE, this]

theorem decNames_encode (ns : List (Nat × Bytes)) :
    ∀ (acc : List (Nat × Bytes)) (rest : Bytes), (dictKeys (acc ++ ns)).Nodup →
      (∀ p ∈ ns, utf8Valid p.2 = true) →
      decNames (ns.flatMap encEntry ++ rest) (ns.flatMap encEntry).length acc = .ok (acc ++ ns, rest) := by
  induction ns with
  | nil => intro acc rest _ _; rw [decNames.eq_def]; simp
  | cons p ps ih =>
    intro acc rest hnd hv
    rcases p with ⟨z, name⟩
    have hvn : utf8Valid name = true := hv (z, name) (by simp)
    have hfresh : z ∉ dictKeys acc := by
      intro hz
      simp only [dictKeys, List.map_append, List.map_cons] at hnd hz
      rw [List.nodup_append] at hnd
      exact hnd.2.2 z hz z (by simp) rfl
    rw [decNames.eq_def]
    have hlen : ((z, name) :: ps).flatMap encEntry = z :: name.length :: (name ++ ps.flatMap encEntry) := by
      simp [List.flatMap_cons, encEntry]
    rw [hlen]
    have hne : (z :: name.length :: (name ++ ps.flatMap encEntry)).length ≠ 0 := by simp
    have hfit : ¬ (2 + name.length > (z :: name.length :: (name ++ ps.flatMap encEntry)).length) := by
      simp only [List.length_cons, List.length_append]; omega
    have hrem : (z :: name.length :: (name ++ ps.flatMap encEntry)).length - (2 + name.length)
        = (ps.flatMap encEntry).length := by
      simp only [List.length_cons, List.length_append]; omega
    simp only [hne, ↓reduceIte, List.cons_append, List.append_assoc, hfit, List.take_left',
      List.drop_left', hvn, hrem, dictInsert_fresh acc z name hfresh]
    have := ih (acc ++ [(z, name)]) rest (by simpa using hnd) (fun q hq => hv q (by simp [hq]))
    simpa using this

/-- with the payload length in the header every well-formed message and request survives the round trip -/
theorem decode_encode_actual (m : Msg) (h : WF m) (rest : Bytes) :
    decode (encode m ++ rest) (encode m).length = .ok (m, rest) := by
  cases m with
  | request r =>
    rcases r with ⟨_ | n⟩
    · simp [decode, encode]
    · simp [decode, encode]
  | message m =>
    rcases m with ⟨ns⟩
    obtain ⟨hne, hnd, hwf⟩ := h
    have hl := flatMap_length ns
    have hlen : ns.length ≠ 0 := by simpa using hne
    have h0 : (ns.flatMap encEntry).length ≠ 0 := by omega
    have h1 : (ns.flatMap encEntry).length ≠ 1 := by omega
    simp only [decode, encode, h0, h1, ↓reduceIte]
    rw [decNames_encode ns [] rest (by simpa using hnd) (fun p hp => (hwf p hp).2.2)]
    simp

/-- `decode(encode(m), header with message_length = size(m))` gives `m` back, nothing left over -/
theorem decode_encode (m : Msg) (h : WF m) (rest : Bytes) :
    decode (encode m ++ rest) (size m) = .ok (m, rest) := by
  rw [← encode_length m]
  exact decode_encode_actual m h rest

theorem wfBool_iff (m : Msg) : wfBool m = true ↔ WF m := by
  cases m with
  | request r => rcases r with ⟨_ | n⟩ <;> simp [wfBool, WF]
  | message m =>
    simp only [wfBool, WF, Bool.and_eq_true, nodupBool_iff, List.all_eq_true, decide_eq_true_eq,
      Bool.not_eq_true', List.isEmpty_eq_false_iff, ne_eq, and_assoc]

/-- the case excluded by `WF`: an empty mapping is sent with no content, which is the "ALL" request -/
theorem empty_mapping_not_preserved (rest : Bytes) :
    decode (encode (.message ⟨[]⟩) ++ rest) (size (.message ⟨[]⟩)) = .ok (.request ⟨none⟩, rest) := by
  simp [decode, encode, size, sumNameLengths]

end PyAirtouch.Lemmas.At5FF13
