import PyAirtouch.Model.At5.FF13
import PyAirtouch.Lemmas.Part3Text
/-!
# Length and round trip lemmas for the AirTouch 5 zone names codec

FINDING reflected here: `ZoneNamesEncoder.size` is short by one byte per zone (`encode_length`), so a Zone
Names Message never survives the send path's header (`size_roundtrip_fails`); with the true payload length in
the header the round trip holds (`decode_encode_actual`).  Requests are not affected (`decode_encode`).
-/
namespace PyAirtouch.Lemmas.At5FF13
open PyAirtouch.Model PyAirtouch.Model.At5.FF13 PyAirtouch.Lemmas.Part3Text

def nameBytes (ns : List (Nat × Bytes)) : Nat := (ns.map (fun p => p.2.length)).sum

theorem sumNameLengths_eq (ns : List (Nat × Bytes)) :
    ∀ start, sumNameLengths start ns = start + nameBytes ns := by
  induction ns with
  | nil => intro start; simp [sumNameLengths, nameBytes]
  | cons p ps ih =>
    intro start
    have := ih (start + p.2.length)
    simp only [sumNameLengths, List.foldl_cons, nameBytes, List.map_cons, List.sum_cons] at this ⊢
    omega

theorem flatMap_length (ns : List (Nat × Bytes)) :
    (ns.flatMap encEntry).length = 2 * ns.length + nameBytes ns := by
  induction ns with
  | nil => simp [nameBytes]
  | cons p ps ih =>
    simp only [List.flatMap_cons, List.length_append, ih, encEntry, List.length_cons, nameBytes,
      List.map_cons, List.sum_cons]
    omega

/-- what the code does: the announced size is short by one byte per zone -/
theorem encode_length (m : Msg) : (encode m).length = size m + zoneCount m := by
  cases m with
  | request r => rcases r with ⟨_ | n⟩ <;> rfl
  | message m =>
    simp only [encode, size, zoneCount, flatMap_length, sumNameLengths_eq]
    omega

/-- `size` and `encode` agree exactly when there is no zone entry (requests, empty mapping) -/
theorem encode_length_iff (m : Msg) : (encode m).length = size m ↔ zoneCount m = 0 := by
  rw [encode_length]; omega

/-- on well-formed messages the real encoder raises nothing and produces `encode m` -/
theorem encodeE_ok (m : Msg) (h : WF m) : encodeE m = .ok (encode m) := by
  cases m with
  | request r =>
    rcases r with ⟨_ | n⟩
    · rfl
    · have : n < 256 := h n rfl
      simp [encodeE, encode, this]
  | message m =>
    have : m.zone_names.all (fun p => decide (p.1 < 256) && decide (p.2.length < 256)) = true := by
      rw [List.all_eq_true]
      intro p hp
      obtain ⟨h1, h2, _⟩ := h.2.2 p hp
      simp [h1]; omega
    simp [encodeE, this]

theorem decNames_encode (ns : List (Nat × Bytes)) :
    ∀ (acc : List (Nat × Bytes)) (rest : Bytes), (dictKeys (acc ++ ns)).Nodup →
      (∀ p ∈ ns, utf8Valid p.2 = true) →
      decNames (ns.flatMap encEntry ++ rest) (ns.flatMap encEntry).length acc = .ok (acc ++ ns, rest) := by
  induction ns with
  | nil => intro acc rest _ _; rw [decNames.eq_def]; simp
  | cons p ps ih =>
    intro acc rest hnd hv
    rcases p with ⟨z, name⟩
    have hvn : utf8Valid name = true := hv (z, name) (by simp)
    have hfresh : z ∉ dictKeys acc := by
      intro hz
      simp only [dictKeys, List.map_append, List.map_cons] at hnd hz
      rw [List.nodup_append] at hnd
      exact hnd.2.2 z hz z (by simp) rfl
    rw [decNames.eq_def]
    have hlen : ((z, name) :: ps).flatMap encEntry = z :: name.length :: (name ++ ps.flatMap encEntry) := by
      simp [List.flatMap_cons, encEntry]
    rw [hlen]
    have hne : (z :: name.length :: (name ++ ps.flatMap encEntry)).length ≠ 0 := by simp
    have hfit : ¬ (2 + name.length > (z :: name.length :: (name ++ ps.flatMap encEntry)).length) := by
      simp only [List.length_cons, List.length_append]; omega
    have hrem : (z :: name.length :: (name ++ ps.flatMap encEntry)).length - (2 + name.length)
        = (ps.flatMap encEntry).length := by
      simp only [List.length_cons, List.length_append]; omega
    simp only [hne, ↓reduceIte, List.cons_append, List.append_assoc, hfit, List.take_left',
      List.drop_left', hvn, hrem, dictInsert_fresh acc z name hfresh]
    have := ih (acc ++ [(z, name)]) rest (by simpa using hnd) (fun q hq => hv q (by simp [hq]))
    simpa using this

/-- requests: `decode(encode(m), header with message_length = size(m))` gives `m` back.  The hypothesis
    `zoneCount m = 0` excludes every Zone Names Message (for those see `decode_encode_actual` and
    `size_roundtrip_fails`) -/
theorem decode_encode (m : Msg) (h : WF m) (hz : zoneCount m = 0) (rest : Bytes) :
    decode (encode m ++ rest) (size m) = .ok (m, rest) := by
  cases m with
  | request r =>
    rcases r with ⟨_ | n⟩
    · simp [decode, encode, size]
    · simp [decode, encode, size]
  | message m =>
    exfalso
    have : m.zone_names.length ≠ 0 := by simpa using h.1
    exact this hz

/-- with the TRUE payload length in the header (what a correct `size` would announce) every well-formed
    message and request survives the round trip -/
theorem decode_encode_actual (m : Msg) (h : WF m) (rest : Bytes) :
    decode (encode m ++ rest) (encode m).length = .ok (m, rest) := by
  cases m with
  | request r =>
    have := decode_encode (.request r) h rfl rest
    rwa [← (encode_length_iff (.request r)).mpr rfl] at this
  | message m =>
    rcases m with ⟨ns⟩
    obtain ⟨hne, hnd, hwf⟩ := h
    have hl := flatMap_length ns
    have hlen : ns.length ≠ 0 := by simpa using hne
    have h0 : (ns.flatMap encEntry).length ≠ 0 := by omega
    have h1 : (ns.flatMap encEntry).length ≠ 1 := by omega
    simp only [decode, encode, h0, h1, ↓reduceIte]
    rw [decNames_encode ns [] rest (by simpa using hnd) (fun p hp => (hwf p hp).2.2)]
    simp

/-- a successful run of the loop consumes exactly `remaining` bytes of a buffer that has them -/
theorem decNames_consumes (buf : Bytes) (remaining : Nat) (acc : List (Nat × Bytes)) :
    ∀ d r, remaining ≤ buf.length → decNames buf remaining acc = .ok (d, r) →
      r.length + remaining = buf.length := by
  fun_induction decNames buf remaining acc with
  | case1 buf acc => intro d r _ h; cases h; rfl
  | case2 => intro d r _ h; cases h
  | case3 => intro d r _ h; cases h
  | case4 => intro d r _ h; cases h
  | case5 remaining acc hrem zone n tl hfit name hv ih =>
    intro d r hle h
    simp only [List.length_cons] at hle
    have := ih d r (by simp only [List.length_drop]; omega) h
    simp only [List.length_drop, List.length_cons] at this ⊢
    omega
  | case6 => intro d r _ h; cases h

/-- FINDING: with the header the send path builds (`message_length = size(m)`) no Zone Names Message with at
    least one zone comes back: the decoder raises, or returns something else, or leaves bytes over -/
theorem size_roundtrip_fails (ns : List (Nat × Bytes)) (hne : ns ≠ []) (rest : Bytes) :
    decode (encode (.message ⟨ns⟩) ++ rest) (size (.message ⟨ns⟩)) ≠ .ok (.message ⟨ns⟩, rest) := by
  have hlen : ns.length ≠ 0 := by simpa using hne
  have hl := flatMap_length ns
  intro h
  simp only [decode, encode, size, sumNameLengths_eq] at h
  split at h
  · omega
  · split at h
    · split at h <;> cases h
    · split at h
      · cases h
      · rename_i d r heq
        have hc := decNames_consumes _ _ _ d r (by simp only [List.length_append]; omega) heq
        simp only [List.length_append] at hc
        injection h with h
        injection h with _ hr
        subst hr
        omega

/-- the smallest instance: `{0: "A"}` is announced as 2 bytes, sent as `00 01 41`, and rejected -/
example : size (.message ⟨[(0, [0x41])]⟩) = 2 ∧ encode (.message ⟨[(0, [0x41])]⟩) = [0, 1, 0x41] ∧
    decode [0, 1, 0x41] 2 = .error .decodeError := by
  refine ⟨by decide, by decide, ?_⟩
  simp [decode, decNames]

end PyAirtouch.Lemmas.At5FF13
