import PyAirtouch.Lemmas.SockBasic
/-!
# Queue and retry invariants of the socket model

Proved once per abstract step (`AStep`, see `SockBasic.lean`) and transported to the model through
`run_abs`.
-/
namespace PyAirtouch.Lemmas.Sock
open PyAirtouch.Model.Sock PyAirtouch.Spec.Trace

/-! ### C16: entries that were never re-queued -/

def fresh (q : List Entry) : List Entry := q.filter (fun e => !e.requeued)

theorem AStep.fresh_bound {a b : Abs} (h : AStep a b) :
    (fresh a.queue).length ≤ CAP → (fresh b.queue).length ≤ CAP := by
  induction h with
  | refl a => exact id
  | trans _ _ ih1 ih2 => exact fun h => ih2 (ih1 h)
  | tick a t h => exact id
  | note a ev h => exact id
  | dropQ a q' h =>
    intro hb
    exact Nat.le_trans (List.Sublist.length_le (List.Sublist.filter _ h)) hb
  | dropF a fl' h => exact id
  | permF a fl' h => exact id
  | write a e rest wev hq hlt hw =>
    intro hb
    rw [hq] at hb
    refine Nat.le_trans (List.Sublist.length_le (List.Sublist.filter _ ?_)) hb
    exact List.sublist_cons_self _ _
  | writeNone a e rest hq =>
    intro hb
    rw [hq] at hb
    refine Nat.le_trans (List.Sublist.length_le (List.Sublist.filter _ ?_)) hb
    exact List.sublist_cons_self _ _
  | requeue a e fl' hf hk => intro hb; simpa [fresh] using hb
  | burn a sid => exact id
  | accept a sid r life ok hcap =>
    intro _
    have : (fresh a.queue).length ≤ a.queue.length := List.length_filter_le _ _
    simp only [fresh, List.filter_append, List.length_append] at this ⊢
    simp
    omega

theorem fresh_bound_of_reachable {s : Sys} (h : Reachable s) : (fresh s.core.queue).length ≤ CAP := by
  obtain ⟨ls, h⟩ := h
  exact (run_abs ls s h).fresh_bound (by simp [abs, absC, init, fresh])

/-! ### trace functions under extension -/

theorem acceptedAt_append (tr tr' : List Ev) (s : Nat) :
    acceptedAt (tr ++ tr') s = (acceptedAt tr s).or (acceptedAt tr' s) := by
  simp [acceptedAt, List.findSome?_append]

theorem acceptedAt_mono {tr : List Ev} {s : Nat} {x} (tr' : List Ev) (h : acceptedAt tr s = some x) :
    acceptedAt (tr ++ tr') s = some x := by
  simp [acceptedAt_append, h]

theorem acceptedAt_quiet (tr : List Ev) (ev : Ev) (s : Nat) (h : Quiet ev = true) :
    acceptedAt (tr ++ [ev]) s = acceptedAt tr s := by
  rw [acceptedAt_append]
  cases ev <;> simp_all [Quiet, acceptedAt]

theorem acceptedAt_write (tr : List Ev) (ev : Ev) (s sid now : Nat) (h : IsWrite ev sid now) :
    acceptedAt (tr ++ [ev]) s = acceptedAt tr s := by
  rw [acceptedAt_append]
  obtain ⟨cid, rfl | rfl | rfl⟩ := h <;> simp [acceptedAt]

theorem acceptedAt_accept (tr : List Ev) (s sid t e r : Nat) (ok : Bool) :
    acceptedAt (tr ++ [.accept sid t e r ok]) s =
      (acceptedAt tr s).or (if sid = s then some (t, e, r, ok) else none) := by
  rw [acceptedAt_append]; simp [acceptedAt]

theorem writeAttempts_quiet (tr : List Ev) (ev : Ev) (s : Nat) (h : Quiet ev = true) :
    writeAttempts (tr ++ [ev]) s = writeAttempts tr s := by
  cases ev <;> simp_all [Quiet, writeAttempts, List.countP_append]

theorem writeAttempts_accept (tr : List Ev) (s sid t e r : Nat) (ok : Bool) :
    writeAttempts (tr ++ [.accept sid t e r ok]) s = writeAttempts tr s := by
  simp [writeAttempts, List.countP_append]

theorem writeAttempts_write (tr : List Ev) (ev : Ev) (s sid now : Nat) (h : IsWrite ev sid now) :
    writeAttempts (tr ++ [ev]) s = writeAttempts tr s + (if sid = s then 1 else 0) := by
  obtain ⟨cid, rfl | rfl | rfl⟩ := h <;> simp [writeAttempts, List.countP_append, List.countP_cons]

/-- what the invariant says about one event of the trace -/
def WriteOk (tr : List Ev) : Ev → Prop
  | .wire _ s t | .deadWrite _ s t | .writeFault _ s t =>
    ∃ t0 e r ok, acceptedAt tr s = some (t0, e, r, ok) ∧ t < e
  | .wireUnknown _ _ => False
  | _ => True

theorem WriteOk.mono {tr : List Ev} {ev : Ev} (tr' : List Ev) (h : WriteOk tr ev) : WriteOk (tr ++ tr') ev := by
  cases ev <;> simp only [WriteOk] at h ⊢
  all_goals
    obtain ⟨t0, e, r, ok, h1, h2⟩ := h
    exact ⟨t0, e, r, ok, acceptedAt_mono tr' h1, h2⟩

theorem WriteOk.quiet (tr : List Ev) {ev : Ev} (h : Quiet ev = true) : WriteOk tr ev := by
  cases ev <;> simp_all [Quiet, WriteOk]

/-- a sid that was never accepted has never been written (given the per-event invariant) -/
theorem writeAttempts_zero {tr : List Ev} {s : Nat} (hw : ∀ ev ∈ tr, WriteOk tr ev)
    (hn : acceptedAt tr s = none) : writeAttempts tr s = 0 := by
  simp only [writeAttempts, List.countP_eq_zero]
  intro ev hev
  have := hw ev hev
  cases ev <;> simp only [decide_eq_true_eq, Bool.false_eq_true, not_false_eq_true]
  all_goals
    simp only [WriteOk] at this
    obtain ⟨t0, e, r, ok, h1, _⟩ := this
    intro heq; subst heq; rw [hn] at h1; cases h1

/-! ### C01 / C02: the invariant linking queue, in-flight entries and trace -/

/-- `x` was accepted with its expiry / encodability and has retries left to cover its attempts -/
def Held (tr : List Ev) (slack : Nat) (x : Entry) : Prop :=
  ∃ t0 r0, acceptedAt tr x.sid = some (t0, x.expiry, r0, x.encOk) ∧
    writeAttempts tr x.sid + x.retries ≤ r0 + slack

structure AInv (a : Abs) : Prop where
  accUsed : ∀ sid x, acceptedAt a.trace sid = some x → sid ∈ a.used
  writes : ∀ ev ∈ a.trace, WriteOk a.trace ev
  accepts : ∀ s t e r ok, Ev.accept s t e r ok ∈ a.trace → acceptedAt a.trace s = some (t, e, r, ok)
  bounded : ∀ s t e r ok, acceptedAt a.trace s = some (t, e, r, ok) → writeAttempts a.trace s ≤ 1 + r
  queued : ∀ x ∈ a.queue, Held a.trace 0 x
  flying : ∀ x ∈ a.fl, Held a.trace 1 x
  uniq : ((a.queue ++ a.fl).map (·.sid)).Nodup

theorem AInv.note {a : Abs} (h : AInv a) (ev : Ev) (hq : Quiet ev = true) :
    AInv { a with trace := a.trace ++ [ev] } := by
  have hacc : ∀ s, acceptedAt (a.trace ++ [ev]) s = acceptedAt a.trace s := fun s => acceptedAt_quiet _ _ s hq
  have hwa : ∀ s, writeAttempts (a.trace ++ [ev]) s = writeAttempts a.trace s := fun s => writeAttempts_quiet _ _ s hq
  constructor
  · simpa only [hacc] using h.accUsed
  · intro ev' hev'
    simp only [List.mem_append, List.mem_singleton] at hev'
    rcases hev' with hev' | rfl
    · exact (h.writes ev' hev').mono _
    · exact WriteOk.quiet _ hq
  · intro s t e r ok hmem
    simp only [List.mem_append, List.mem_singleton] at hmem
    rcases hmem with hmem | rfl
    · rw [hacc]; exact h.accepts s t e r ok hmem
    · simp [Quiet] at hq
  · simpa only [hacc, hwa] using h.bounded
  · simpa only [Held, hacc, hwa] using h.queued
  · simpa only [Held, hacc, hwa] using h.flying
  · exact h.uniq


theorem nodup_sids_sub {q q' fl fl' : List Entry} (hq : q'.Sublist q) (hf : fl'.Sublist fl)
    (h : ((q ++ fl).map (·.sid)).Nodup) : ((q' ++ fl').map (·.sid)).Nodup :=
  List.Nodup.sublist (List.Sublist.map _ (List.Sublist.append hq hf)) h

theorem AInv.dropQ {a : Abs} (h : AInv a) (q' : List Entry) (hs : q'.Sublist a.queue) :
    AInv { a with queue := q' } :=
  { h with queued := fun x hx => h.queued x (hs.subset hx)
           uniq := nodup_sids_sub hs (List.Sublist.refl _) h.uniq }

theorem AInv.dropF {a : Abs} (h : AInv a) (fl' : List Entry) (hs : fl'.Sublist a.fl) :
    AInv { a with fl := fl' } :=
  { h with flying := fun x hx => h.flying x (hs.subset hx)
           uniq := nodup_sids_sub (List.Sublist.refl _) hs h.uniq }

theorem AInv.permF {a : Abs} (h : AInv a) (fl' : List Entry) (hs : fl'.Perm a.fl) :
    AInv { a with fl := fl' } :=
  { h with flying := fun x hx => h.flying x (hs.subset hx)
           uniq := (List.Perm.nodup_iff ((List.Perm.append_left _ hs).map _)).2 h.uniq }

/-- moving the head of the queue to the in-flight set keeps the identities distinct, and the moved
    identity differs from all the others -/
theorem uniq_move {e : Entry} {rest fl : List Entry} (h : (((e :: rest) ++ fl).map (·.sid)).Nodup) :
    ((rest ++ e :: fl).map (·.sid)).Nodup ∧ (∀ x ∈ rest, x.sid ≠ e.sid) ∧ (∀ x ∈ fl, x.sid ≠ e.sid) := by
  have hp : (rest ++ e :: fl).Perm ((e :: rest) ++ fl) := List.perm_middle
  refine ⟨(List.Perm.nodup_iff (hp.map _)).2 h, ?_, ?_⟩
  · intro x hx heq
    simp only [List.cons_append, List.map_cons, List.nodup_cons, List.mem_map, List.mem_append] at h
    exact h.1 ⟨x, .inl hx, heq⟩
  · intro x hx heq
    simp only [List.cons_append, List.map_cons, List.nodup_cons, List.mem_map, List.mem_append] at h
    exact h.1 ⟨x, .inr hx, heq⟩

theorem AInv.write {a : Abs} (h : AInv a) (e : Entry) (rest : List Entry) (wev : Ev)
    (hq : a.queue = e :: rest) (hlt : a.now < e.expiry) (hw : IsWrite wev e.sid a.now) :
    AInv { a with queue := rest, trace := a.trace ++ [wev], fl := e :: a.fl } := by
  have hacc : ∀ s, acceptedAt (a.trace ++ [wev]) s = acceptedAt a.trace s := fun s => acceptedAt_write _ _ s _ _ hw
  have hwa : ∀ s, writeAttempts (a.trace ++ [wev]) s = writeAttempts a.trace s + (if e.sid = s then 1 else 0) :=
    fun s => writeAttempts_write _ _ s _ _ hw
  have hu := h.uniq; rw [hq] at hu
  obtain ⟨hu1, hu2, hu3⟩ := uniq_move hu
  obtain ⟨t0, r0, he1, he2⟩ := h.queued e (by simp [hq])
  constructor
  · simpa only [hacc] using h.accUsed
  · intro ev' hev'
    simp only [List.mem_append, List.mem_singleton] at hev'
    rcases hev' with hev' | rfl
    · exact (h.writes ev' hev').mono _
    · obtain ⟨cid, rfl | rfl | rfl⟩ := hw <;>
        exact ⟨t0, e.expiry, r0, e.encOk, acceptedAt_mono _ he1, hlt⟩
  · intro s t e' r ok hmem
    simp only [List.mem_append, List.mem_singleton] at hmem
    rcases hmem with hmem | rfl
    · rw [hacc]; exact h.accepts s t e' r ok hmem
    · obtain ⟨cid, h | h | h⟩ := hw <;> cases h
  · intro s t e' r ok hs
    simp only [hacc] at hs
    rw [hwa]
    have := h.bounded s t e' r ok hs
    split
    · rename_i heq; subst heq
      rw [he1] at hs; cases hs; omega
    · omega
  · intro x hx
    have hne := hu2 x hx
    obtain ⟨t1, r1, hx1, hx2⟩ := h.queued x (by simp [hq, hx])
    refine ⟨t1, r1, by rw [hacc]; exact hx1, ?_⟩
    rw [hwa, if_neg (fun h => hne h.symm)]; exact hx2
  · intro x hx
    simp only [List.mem_cons] at hx
    rcases hx with rfl | hx
    · refine ⟨t0, r0, by rw [hacc]; exact he1, ?_⟩
      rw [hwa, if_pos rfl]; omega
    · have hne := hu3 x hx
      obtain ⟨t1, r1, hx1, hx2⟩ := h.flying x hx
      refine ⟨t1, r1, by rw [hacc]; exact hx1, ?_⟩
      rw [hwa, if_neg (fun h => hne h.symm)]; exact hx2
  · exact hu1

theorem AInv.writeNone {a : Abs} (h : AInv a) (e : Entry) (rest : List Entry) (hq : a.queue = e :: rest) :
    AInv { a with queue := rest, fl := e :: a.fl } := by
  have hu := h.uniq; rw [hq] at hu
  obtain ⟨hu1, _, _⟩ := uniq_move hu
  obtain ⟨t0, r0, he1, he2⟩ := h.queued e (by simp [hq])
  refine { h with queued := fun x hx => h.queued x (by simp [hq, hx]), flying := ?_, uniq := hu1 }
  intro x hx
  simp only [List.mem_cons] at hx
  rcases hx with rfl | hx
  · exact ⟨t0, r0, he1, Nat.le_succ_of_le he2⟩
  · exact h.flying x hx

theorem AInv.requeue {a : Abs} (h : AInv a) (e : Entry) (fl' : List Entry) (hf : a.fl = e :: fl')
    (hk : e.retries ≠ 0) :
    AInv { a with queue := { e with retries := e.retries - 1, requeued := true } :: a.queue, fl := fl' } := by
  obtain ⟨t0, r0, he1, he2⟩ := h.flying e (by simp [hf])
  refine { h with queued := ?_, flying := fun x hx => h.flying x (by simp [hf, hx]), uniq := ?_ }
  · intro x hx
    simp only [List.mem_cons] at hx
    rcases hx with rfl | hx
    · exact ⟨t0, r0, he1, by simp only; omega⟩
    · exact h.queued x hx
  · have hu := h.uniq; rw [hf] at hu
    have hp : (({ e with retries := e.retries - 1, requeued := true } : Entry) :: a.queue ++ fl').map (·.sid)
        = ((e :: (a.queue ++ fl')).map (·.sid)) := by simp
    show ((({ e with retries := e.retries - 1, requeued := true } : Entry) :: a.queue ++ fl').map (·.sid)).Nodup
    rw [hp]
    exact (List.Perm.nodup_iff ((List.perm_middle (a := e) (l₁ := a.queue) (l₂ := fl')).map _)).1 hu


theorem AInv.burn {a : Abs} (h : AInv a) (sid : Nat) : AInv { a with used := a.used ++ [sid] } :=
  { h with accUsed := fun s x hx => by simp [h.accUsed s x hx] }

theorem AInv.accept {a : Abs} (h : AInv a) (sid r life : Nat) (ok : Bool) (hfresh : sid ∉ a.used) :
    AInv { a with used := a.used ++ [sid]
                  queue := a.queue ++ [⟨sid, r, a.now + life, ok, false⟩]
                  trace := a.trace ++ [.accept sid a.now (a.now + life) r ok] } := by
  have hnone : acceptedAt a.trace sid = none := by
    cases hx : acceptedAt a.trace sid with
    | none => rfl
    | some x => exact absurd (h.accUsed sid x hx) hfresh
  have hzero : writeAttempts a.trace sid = 0 := writeAttempts_zero h.writes hnone
  have hacc : ∀ s, acceptedAt (a.trace ++ [.accept sid a.now (a.now + life) r ok]) s =
      (acceptedAt a.trace s).or (if sid = s then some (a.now, a.now + life, r, ok) else none) :=
    fun s => acceptedAt_accept _ s _ _ _ _ _
  have hold : ∀ s x, acceptedAt a.trace s = some x →
      acceptedAt (a.trace ++ [.accept sid a.now (a.now + life) r ok]) s = some x :=
    fun s x hx => acceptedAt_mono _ hx
  have hnew : acceptedAt (a.trace ++ [.accept sid a.now (a.now + life) r ok]) sid = some (a.now, a.now + life, r, ok) := by
    rw [hacc, hnone]; simp
  have hwa : ∀ s, writeAttempts (a.trace ++ [.accept sid a.now (a.now + life) r ok]) s = writeAttempts a.trace s :=
    fun s => writeAttempts_accept _ s _ _ _ _ _
  have hheld : ∀ k x, Held a.trace k x → Held (a.trace ++ [.accept sid a.now (a.now + life) r ok]) k x := by
    intro k x ⟨t1, r1, hx1, hx2⟩
    exact ⟨t1, r1, hold _ _ hx1, by rw [hwa]; exact hx2⟩
  have hsidq : ∀ k x, Held a.trace k x → x.sid ≠ sid := by
    intro k x ⟨t1, r1, hx1, _⟩ heq
    rw [heq, hnone] at hx1; cases hx1
  constructor
  · intro s x hx
    rw [hacc] at hx
    cases hs : acceptedAt a.trace s with
    | some y => simp [h.accUsed s y hs]
    | none =>
      rw [hs] at hx
      by_cases heq : sid = s
      · subst heq; simp
      · simp [heq] at hx
  · intro ev' hev'
    simp only [List.mem_append, List.mem_singleton] at hev'
    rcases hev' with hev' | rfl
    · exact (h.writes ev' hev').mono _
    · trivial
  · intro s t e' r' ok' hmem
    simp only [List.mem_append, List.mem_singleton] at hmem
    rcases hmem with hmem | hmem
    · exact hold _ _ (h.accepts s t e' r' ok' hmem)
    · cases hmem; exact hnew
  · intro s t e' r' ok' hs
    rw [hwa]
    rw [hacc] at hs
    cases hs' : acceptedAt a.trace s with
    | some y => rw [hs'] at hs; simp only [Option.or, Option.some.injEq] at hs; subst hs; exact h.bounded s t e' r' ok' hs'
    | none =>
      rw [hs'] at hs
      by_cases heq : sid = s
      · subst heq; rw [hzero]; omega
      · simp [heq] at hs
  · intro x hx
    simp only [List.mem_append, List.mem_singleton] at hx
    rcases hx with hx | rfl
    · exact hheld 0 x (h.queued x hx)
    · exact ⟨a.now, r, hnew, by rw [hwa, hzero]; simp⟩
  · exact fun x hx => hheld 1 x (h.flying x hx)
  · have hu := h.uniq
    have hp : (a.queue ++ [(⟨sid, r, a.now + life, ok, false⟩ : Entry)] ++ a.fl).Perm
        ((⟨sid, r, a.now + life, ok, false⟩ : Entry) :: (a.queue ++ a.fl)) := by
      simp only [List.append_assoc, List.singleton_append]
      exact List.perm_middle
    refine (List.Perm.nodup_iff (hp.map _)).2 ?_
    simp only [List.map_cons, List.nodup_cons]
    refine ⟨?_, hu⟩
    intro hmem
    simp only [List.mem_map, List.mem_append] at hmem
    obtain ⟨x, hx | hx, heq⟩ := hmem
    · exact hsidq 0 x (h.queued x hx) heq
    · exact hsidq 1 x (h.flying x hx) heq

theorem AStep.used_sublist {a b : Abs} (h : AStep a b) : a.used.Sublist b.used := by
  induction h with
  | trans _ _ ih1 ih2 => exact ih1.trans ih2
  | burn a sid => exact List.sublist_append_left _ _
  | accept a sid r life ok hcap => exact List.sublist_append_left _ _
  | _ => exact List.Sublist.refl _

/-- the invariant, conditional on the identities used so far being pairwise distinct -/
theorem AStep.inv {a b : Abs} (h : AStep a b) : (a.used.Nodup → AInv a) → (b.used.Nodup → AInv b) := by
  induction h with
  | refl a => exact id
  | trans _ _ ih1 ih2 => exact fun h => ih2 (ih1 h)
  | tick a t h => exact fun h hn => { h hn with }
  | note a ev hq => exact fun h hn => (h hn).note ev hq
  | dropQ a q' hs => exact fun h hn => (h hn).dropQ q' hs
  | dropF a fl' hs => exact fun h hn => (h hn).dropF fl' hs
  | permF a fl' hs => exact fun h hn => (h hn).permF fl' hs
  | write a e rest wev hq hlt hw => exact fun h hn => (h hn).write e rest wev hq hlt hw
  | writeNone a e rest hq => exact fun h hn => (h hn).writeNone e rest hq
  | requeue a e fl' hf hk => exact fun h hn => (h hn).requeue e fl' hf hk
  | burn a sid =>
    intro h hn
    exact (h (List.Nodup.sublist (List.sublist_append_left _ _) hn)).burn sid
  | accept a sid r life ok hcap =>
    intro h hn
    have hn' : a.used.Nodup := List.Nodup.sublist (List.sublist_append_left _ _) hn
    refine (h hn').accept sid r life ok ?_
    intro hmem
    simp only [List.nodup_append, List.mem_singleton] at hn
    exact hn.2.2 sid hmem sid rfl rfl

theorem AInv.init : AInv (abs [] Model.Sock.init) := by
  constructor <;> simp [abs, absC, Model.Sock.init, flOf, acceptedAt]

theorem inv_of_reachableWF {s : Sys} (h : ReachableWF s) : ∃ u, AInv (abs u s) := by
  obtain ⟨ls, hn, h⟩ := h
  exact ⟨sendSids ls, (run_abs ls s h).inv (fun _ => AInv.init) hn⟩

end PyAirtouch.Lemmas.Sock
