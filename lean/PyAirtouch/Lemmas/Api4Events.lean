import PyAirtouch.Lemmas.Api4Inv
/-!
# What kinds of events each part of the AirTouch 4 API model can emit
-/
set_option linter.unusedSimpArgs false
set_option linter.unusedVariables false
namespace PyAirtouch.Lemmas.Api4
open PyAirtouch.Model PyAirtouch.Model.Api4 PyAirtouch.Model.At4
open PyAirtouch.Model.TimerCommon (AcTimerState AcTimerStatusData)

theorem foldEv_events {α} (P : Ev → Prop) (f : State → α → State × List Ev)
    (hf : ∀ s x, ∀ e ∈ (f s x).2, P e) (s : State) (l : List α) : ∀ e ∈ (foldEv f s l).2, P e := by
  induction l generalizing s with
  | nil => intro e he; simp [foldEv] at he
  | cons x xs ih =>
    intro e he
    simp only [foldEv, List.mem_append] at he
    rcases he with he | he
    · exact hf s x e he
    · exact ih _ e he

/-- the requests the API sends on its own initiative -/
def isRequest : OutMsg → Bool
  | .reg (.extended (.consoleVer .request)) => true
  | .reg (.extended (.groupNames (.request _))) => true
  | .reg (.extended (.acAbility (.request _))) => true
  | .reg (.extended (.errInfo (.request _))) => true
  | .reg (.acStatus .request) => true
  | .reg (.acTimerStatus .request) => true
  | .reg (.groupStatus .request) => true
  | _ => false

/-- every send in the list is a request sent with the connected-only policy -/
def ConnReq (e : Ev) : Prop := ∀ p m, e = Ev.send p m → p = .connected ∧ isRequest m = true

theorem connReq_of_not_send {e : Ev} (h : e.isSend = false) : ConnReq e := by
  intro p m he; subst he; simp [Ev.isSend] at h

theorem connReq_send_request {m : OutMsg} (h : isRequest m = true) : ConnReq (Ev.send .connected m) := by
  intro p m' he; cases he; exact ⟨rfl, h⟩

theorem connReq_notifyAcAll (a : AcObj) : ∀ e ∈ notifyAcAll a, ConnReq e := by
  intro e he
  simp only [notifyAcAll, List.mem_append, List.mem_map] at he
  rcases he with ⟨_, _, rfl⟩ | ⟨_, _, rfl⟩ <;> exact connReq_of_not_send rfl

theorem connReq_updateAcStatus (s : State) (r : X2D.AcStatusData) : ∀ e ∈ (updateAcStatus s r).2, ConnReq e := by
  unfold updateAcStatus
  split
  · intro e he; cases he
  · split
    · intro e he; cases he
    · intro e he
      simp only [List.mem_append] at he
      rcases he with he | he
      · split at he
        · simp only [List.mem_singleton] at he; subst he; exact connReq_send_request rfl
        · cases he
      · exact connReq_notifyAcAll _ e he

theorem connReq_updateAcTimer (s : State) (r : AcTimerStatusData) : ∀ e ∈ (updateAcTimer s r).2, ConnReq e := by
  unfold updateAcTimer
  split
  · intro e he; cases he
  · split
    · intro e he; cases he
    · exact connReq_notifyAcAll _

theorem connReq_updateErrInfo (s : State) (r : FF10.AcErrorInformationMessage) :
    ∀ e ∈ (updateErrInfo s r).2, ConnReq e := by
  unfold updateErrInfo
  split
  · intro e he; cases he
  · split
    · intro e he; cases he
    · exact connReq_notifyAcAll _

theorem connReq_updateGroupStatus (s : State) (g : X2B.GroupStatusData) :
    ∀ e ∈ (updateGroupStatus s g).2, ConnReq e := by
  unfold updateGroupStatus
  split
  · intro e he; cases he
  · split
    · intro e he; cases he
    · intro e he
      simp only [List.mem_append, List.mem_map, List.mem_flatMap, notifyAcGeneral] at he
      rcases he with ⟨_, _, rfl⟩ | ⟨_, _, _, _, rfl⟩ <;> exact connReq_of_not_send rfl

theorem connReq_updateVersion (s : State) (v : FF30.ConsoleVersionMessage) :
    ∀ e ∈ (updateVersion s v).2, ConnReq e := by
  unfold updateVersion
  split
  · intro e he; cases he
  · intro e he
    simp only [List.mem_map] at he
    obtain ⟨_, _, rfl⟩ := he
    exact connReq_of_not_send rfl

theorem connReq_hbStart (s : State) : ∀ e ∈ (hbStart s).2, ConnReq e := by
  unfold hbStart
  split
  · split
    · intro e he; simp only [List.mem_singleton] at he; subst he; exact connReq_send_request rfl
    · intro e he; cases he
  · intro e he; cases he

theorem connReq_enterConnected (s : State) : ∀ e ∈ (enterConnected s).2, ConnReq e := by
  intro e he
  simp only [enterConnected, List.mem_append, List.mem_singleton, List.mem_map] at he
  rcases he with (rfl | ⟨_, _, rfl⟩) | he
  · exact connReq_of_not_send rfl
  · exact connReq_of_not_send rfl
  · exact connReq_hbStart _ e he

theorem connReq_append {l₁ l₂ : List Ev} (h1 : ∀ e ∈ l₁, ConnReq e) (h2 : ∀ e ∈ l₂, ConnReq e) :
    ∀ e ∈ l₁ ++ l₂, ConnReq e := by
  intro e he
  rcases List.mem_append.mp he with h | h
  · exact h1 e h
  · exact h2 e h

theorem connReq_single_request {m : OutMsg} (h : isRequest m = true) : ∀ e ∈ [Ev.send .connected m], ConnReq e := by
  intro e he; simp only [List.mem_singleton] at he; subst he; exact connReq_send_request h

theorem connReq_nil : ∀ e ∈ ([] : List Ev), ConnReq e := by intro e he; cases he

theorem connReq_processTimers (s : State) (l : List AcTimerStatusData) : ∀ e ∈ (processTimers s l).2.1, ConnReq e := by
  unfold processTimers
  split
  · exact connReq_append (foldEv_events _ _ connReq_updateAcTimer s l) (connReq_single_request rfl)
  · split
    · exact foldEv_events _ _ connReq_updateAcTimer s l
    · exact connReq_nil

theorem connReq_onMessage (s : State) (m : RMsg) : ∀ e ∈ (onMessage s m).2.1, ConnReq e := by
  cases m with
  | extended sub =>
    cases sub with
    | consoleVer v =>
      cases v with
      | message v =>
        simp only [onMessage]
        split
        · exact connReq_single_request rfl
        · split
          · exact connReq_updateVersion s v
          · exact connReq_nil
      | request => exact connReq_nil
    | groupNames n =>
      cases n with
      | message n =>
        simp only [onMessage]
        split
        · exact connReq_single_request rfl
        · exact connReq_nil
      | request r => exact connReq_nil
    | acAbility a =>
      cases a with
      | ability acs =>
        simp only [onMessage]
        split
        · split
          · exact connReq_single_request rfl
          · exact connReq_nil
        · exact connReq_nil
      | request r => exact connReq_nil
    | errInfo e =>
      cases e with
      | message e => exact connReq_updateErrInfo s e
      | request r => exact connReq_nil
    | quickTimer q => exact connReq_nil
    | unsupported i r => exact connReq_nil
  | groupCtrl c => exact connReq_nil
  | groupStatus g =>
    cases g with
    | request => exact connReq_nil
    | status l =>
      simp only [onMessage]
      split
      · exact connReq_append (foldEv_events _ _ connReq_updateGroupStatus s l) (connReq_enterConnected _)
      · split
        · exact foldEv_events _ _ connReq_updateGroupStatus _ l
        · exact connReq_nil
  | acCtrl c => exact connReq_nil
  | acStatus a =>
    cases a with
    | request => exact connReq_nil
    | status l =>
      simp only [onMessage]
      split
      · exact connReq_append (foldEv_events _ _ connReq_updateAcStatus s l) (connReq_single_request rfl)
      · split
        · exact foldEv_events _ _ connReq_updateAcStatus s l
        · exact connReq_nil
  | acTimerCtrl c => exact connReq_processTimers s _
  | acTimerStatus t =>
    cases t with
    | request => exact connReq_nil
    | status l => exact connReq_processTimers s _
  | unsupported i r => exact connReq_nil

theorem connReq_recv (s : State) (m : RMsg) : ∀ e ∈ (recv s m).2, ConnReq e := by
  unfold recv
  simp only
  apply connReq_append
  · split
    · exact connReq_onMessage s m
    · exact connReq_nil
  · split
    · intro e he; simp only [List.mem_singleton] at he; subst he; exact connReq_of_not_send rfl
    · exact connReq_nil

theorem connReq_onConn (s : State) (up : Bool) : ∀ e ∈ (onConn s up).2, ConnReq e := by
  unfold onConn
  split
  · exact connReq_nil
  · split
    · split
      · exact connReq_single_request rfl
      · intro e he; simp only [List.mem_singleton] at he; subst he; exact connReq_of_not_send rfl
    · split
      · split
        · intro e he
          simp only [List.mem_cons, List.mem_nil_iff, or_false] at he
          rcases he with rfl | rfl <;> exact connReq_send_request rfl
        · intro e he; simp only [List.mem_singleton] at he; subst he; exact connReq_of_not_send rfl
      · exact connReq_nil

theorem connReq_firePoll (c o : Bool) (t d : Nat) : ∀ e ∈ (firePoll c o t d).2, ConnReq e := by
  unfold firePoll
  split
  · split
    · split
      · exact connReq_single_request rfl
      · exact connReq_nil
    · exact connReq_nil
  · exact connReq_nil

theorem connReq_tick (s : State) : ∀ e ∈ (tick s).2, ConnReq e := by
  unfold tick
  simp only
  refine connReq_append (connReq_append (connReq_append ?_ ?_) ?_) ?_
  · unfold fireHbTimeout
    split
    · split
      · split
        · intro e he; simp only [List.mem_singleton] at he; subst he; exact connReq_of_not_send rfl
        · exact connReq_nil
      · exact connReq_nil
    · exact connReq_nil
  · intro e he
    simp only [firePolls, List.mem_append, List.mem_flatMap, List.mem_map] at he
    rcases he with ⟨x, ⟨d, _, rfl⟩, hx⟩ | he
    · exact connReq_firePoll _ _ _ _ e hx
    · split at he
      · next c hc =>
        simp only [Option.map_eq_some_iff] at hc
        obtain ⟨d, _, rfl⟩ := hc
        exact connReq_firePoll _ _ _ _ e he
      · cases he
  · intro e he
    simp only [fireInitWaits, List.mem_map] at he
    obtain ⟨_, _, rfl⟩ := he
    exact connReq_of_not_send rfl
  · unfold fireBeat
    split
    · split
      · split
        · exact connReq_single_request rfl
        · exact connReq_nil
      · exact connReq_nil
    · exact connReq_nil

theorem connReq_advance (n : Nat) (s : State) : ∀ e ∈ (advance n s).2, ConnReq e := by
  induction n generalizing s with
  | zero => exact connReq_nil
  | succ n ih => exact connReq_append (connReq_tick s) (ih _)

end PyAirtouch.Lemmas.Api4
