import PyAirtouch.Lemmas.Api5Out
/-!
# The retry-policy table of the AirTouch 5 API layer (definitions used by `Props.C02At5`) and lemmas about the calls
-/
namespace PyAirtouch.Lemmas.Api5
open PyAirtouch.Model PyAirtouch.Model.Api5 PyAirtouch.Model.At5 PyAirtouch.Model.At5.Registry
open PyAirtouch.Gen PyAirtouch.Gen.Api5

/-- a command whose repetition changes the outcome -/
def accumulating : Msg → Bool
  | .controlStatus (.acCtrl m) => m.ac_control.any fun d => d.power = .TOGGLE
  | .controlStatus (.zoneCtrl m) => m.zone_control.any fun d => d.zone_power = .TOGGLE ||
      match d.zone_setting with
      | some (.incDec _) => true
      | _ => false
  | _ => false

/-- the policy table -/
def expectedPolicy : Op → Msg → Policy
  | .callAt, _ => .idempotent
  | .callAc _ _, m | .callZone _ _, m => if accumulating m then .nonIdempotent else .idempotent
  | _, _ => .connected

def CallPol (o : Out) : Prop :=
  match o with
  | .send p m _ => p = if accumulating m then .nonIdempotent else .idempotent
  | _ => True

theorem acCall_callPol (s : State) (a : AcObj) (c : AcCall) : AllOut CallPol (acCall s a c) := by
  cases c <;> simp only [acCall, sendAcControl, sendTimerControl, raise]
  all_goals (repeat' split)
  all_goals first
    | exact allOut_nil _ _ _
    | (apply allOut_sendMsg; simp_all [CallPol, accumulating, msgAcControl, msgTimerControl, msgQuickTimer])

theorem zoneCall_callPol (s : State) (z : ZoneObj) (c : ZoneCall) : AllOut CallPol (zoneCall s z c) := by
  cases c <;> simp only [zoneCall, sendZoneControl, raise]
  all_goals (repeat' split)
  all_goals first
    | exact allOut_nil _ _ _
    | (apply allOut_sendMsg; simp_all [CallPol, accumulating, msgZoneControl])

theorem mem_callOut {r : HR} {p : Policy} {m : Msg} {b : Bool} (h : Out.send p m b ∈ callOut r) : Out.send p m b ∈ r.out := by
  simpa [callOut] using h

theorem zone_power_table_no_toggle (p : ApiEnums.ZonePowerState) (c : Gen.At5.XC020ZoneCtrl.ZonePowerControl)
    (h : API_ZONE_POWER_MAPPING p = some c) : c ≠ .TOGGLE := by
  cases p <;> cases c <;> first | decide | exact absurd h (by decide)

theorem power_table_toggle (p : ApiEnums.AcPowerControl) (c : Gen.At5.XC022AcCtrl.AcPowerControl)
    (h : API_POWER_CONTROL_MAPPING p = some c) : c = .TOGGLE ↔ p = .TOGGLE := by
  cases p <;> cases c <;> first | decide | exact absurd h (by decide)

def ZonePol (o : Out) : Prop :=
  match o with
  | .send p _ _ => p = .idempotent
  | _ => True

theorem zoneCall_zonePol (s : State) (z : ZoneObj) (c : ZoneCall) : AllOut ZonePol (zoneCall s z c) := by
  cases c <;> simp only [zoneCall, sendZoneControl, raise]
  all_goals (repeat' split)
  all_goals first
    | exact allOut_nil _ _ _
    | (apply allOut_sendMsg; simp_all [ZonePol])
  all_goals (rename_i h _; exact absurd rfl (zone_power_table_no_toggle _ _ h))

def AcPol (c : AcCall) (o : Out) : Prop :=
  match o with
  | .send p _ _ => (p = .nonIdempotent ↔ c = .setPower .TOGGLE)
  | _ => True

theorem acCall_acPol (s : State) (a : AcObj) (c : AcCall) : AllOut (AcPol c) (acCall s a c) := by
  cases c <;> simp only [acCall, sendAcControl, sendTimerControl, raise]
  all_goals (repeat' split)
  all_goals first
    | exact allOut_nil _ _ _
    | (apply allOut_sendMsg; simp_all [AcPol])
  · rename_i h _; exact (power_table_toggle _ _ h).1 rfl
  · rename_i h hn; exact fun hp => hn ((power_table_toggle _ _ h).2 hp)

end PyAirtouch.Lemmas.Api5
