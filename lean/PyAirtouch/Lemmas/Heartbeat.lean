import PyAirtouch.Model.Heartbeat
set_option linter.unusedSimpArgs false
/-!
# Helper lemmas about the heartbeat model

Invariants of `PyAirtouch.Model.Heartbeat.step` that hold for every label sequence.
-/
namespace PyAirtouch.Lemmas.Heartbeat
open PyAirtouch.Model.Heartbeat PyAirtouch.Spec.Heartbeat

/-! ### induction over runs -/

theorem run_inv {P : HB → Prop} (hstep : ∀ h l h', P h → step h l = some h' → P h') :
    ∀ ls h h', P h → run h ls = some h' → P h' := by
  intro ls
  induction ls with
  | nil => intro h h' hp hr; simp only [run, Option.some.injEq] at hr; subst hr; exact hp
  | cons l ls ih =>
    intro h h' hp hr
    simp only [run] at hr
    cases hs : step h l with
    | none => simp [hs] at hr
    | some h1 =>
      simp only [hs, Option.bind_some] at hr
      exact ih h1 h' (hstep h l h1 hp hs) hr

theorem reachable_inv {P : HB → Prop} {i t : Nat} (h0 : P (init i t))
    (hstep : ∀ h l h', P h → step h l = some h' → P h') {h : HB} : Reachable i t h → P h := by
  intro ⟨ls, hr⟩
  exact run_inv hstep ls _ _ h0 hr

theorem run_append {h : HB} {ls1 ls2 : List Label} :
    run h (ls1 ++ ls2) = (run h ls1).bind (fun h' => run h' ls2) := by
  induction ls1 generalizing h with
  | nil => simp [run]
  | cons l ls ih =>
    simp only [List.cons_append, run]
    cases step h l with
    | none => simp
    | some h1 => simp [ih]

theorem reachable_step {i t : Nat} {h h' : HB} {l : Label} :
    Reachable i t h → step h l = some h' → Reachable i t h' := by
  intro ⟨ls, hr⟩ hs
  refine ⟨ls ++ [l], ?_⟩
  rw [run_append, hr]
  simp [run, hs]

theorem reachable_run {i t : Nat} {h h' : HB} {ls : List Label} :
    Reachable i t h → run h ls = some h' → Reachable i t h' := by
  intro ⟨ls0, hr⟩ hs
  refine ⟨ls0 ++ ls, ?_⟩
  rw [run_append, hr]
  simpa using hs

/-! ### the basic timing invariant -/

/-- parameters are constant, the latest arm point is in the past, a pending deadline is exactly
`timeout` after it and not yet passed, a pending wake-up is not yet passed and at most `interval`
ahead, and the two tasks exist together -/
structure Basic (i t : Nat) (h : HB) : Prop where
  timeout_eq : h.timeout = t
  interval_eq : h.interval = i
  arm_le : h.lastArm ≤ h.now
  deadline : ∀ d, h.tl = .waiting d → h.now ≤ d ∧ d = h.lastArm + h.timeout
  wake : ∀ u, h.hl = .sleeping u → h.now ≤ u ∧ u ≤ h.now + h.interval
  both : h.tl = .idle ↔ h.hl = .idle

theorem basic_init (i t : Nat) : Basic i t (init i t) := by
  constructor <;> simp [init]

theorem basic_step {i t : Nat} {h h' : HB} {l : Label} :
    Basic i t h → step h l = some h' → Basic i t h' := by
  intro ⟨h1, h2, h3, h4, h5, h6⟩ hs
  cases l <;> simp only [step, HB.emit, enterTimeout] at hs
  all_goals (repeat' split at hs)
  all_goals (first | cases hs | skip)
  all_goals (constructor <;> grind)

theorem reachable_basic {i t : Nat} {h : HB} : Reachable i t h → Basic i t h :=
  reachable_inv (basic_init i t) (fun _ _ _ => basic_step)

/-! ### one-step facts about the trace -/

/-- a step appends at most one event -/
theorem step_trace {h h' : HB} {l : Label} (hs : step h l = some h') :
    h'.trace = h.trace ∨ ∃ e, h'.trace = h.trace ++ [e] ∧ e.time = h.now := by
  cases l <;> simp only [step, HB.emit, enterTimeout] at hs
  all_goals (repeat' split at hs)
  all_goals (first | cases hs | skip)
  all_goals simp [HEv.time]

/-- the only step that appends a `reset` event is an expiry while connected -/
theorem step_reset {h h' : HB} {l : Label} {r : Nat} (hs : step h l = some h')
    (hin : HEv.reset r ∈ h'.trace) (hout : HEv.reset r ∉ h.trace) :
    l = .tlFire ∧ h.connected = true ∧ r = h.now ∧ h'.trace = h.trace ++ [.reset h.now] := by
  cases l <;> simp only [step, HB.emit, enterTimeout] at hs
  all_goals (repeat' split at hs)
  all_goals (first | cases hs | skip)
  all_goals grind

/-! ### the trace invariant: responses and resets -/

/-- events are stamped with times in the past; while a deadline is pending every response seen so far
is no later than the latest arm point, or it has just arrived and is waiting to be consumed; every
reset in the trace happened at least `timeout` after the start of time and no response falls in the
`timeout` ticks before it -/
structure TraceInv (t : Nat) (h : HB) : Prop where
  past : ∀ e ∈ h.trace, e.time ≤ h.now
  resp_arm : ∀ d, h.tl = .waiting d → ∀ x, HEv.resp x ∈ h.trace →
    x ≤ h.lastArm ∨ (h.flag = true ∧ x = h.now)
  reset_ge : ∀ r, HEv.reset r ∈ h.trace → t ≤ r
  reset_quiet : ∀ r x, HEv.reset r ∈ h.trace → HEv.resp x ∈ h.trace → x + t ≤ r ∨ r ≤ x

theorem traceInv_init (i t : Nat) : TraceInv t (init i t) := by
  constructor <;> simp [init]

theorem traceInv_step {i t : Nat} {h h' : HB} {l : Label} :
    Basic i t h → TraceInv t h → step h l = some h' → TraceInv t h' := by
  intro ⟨h1, h2, h3, h4, h5, h6⟩ ⟨k1, k2, k3, k4⟩ hs
  have k1r : ∀ r, HEv.reset r ∈ h.trace → r ≤ h.now := fun r hr => k1 _ hr
  have k1x : ∀ x, HEv.resp x ∈ h.trace → x ≤ h.now := fun x hx => k1 _ hx
  cases l <;> simp only [step, HB.emit, enterTimeout] at hs
  all_goals (repeat' split at hs)
  all_goals (first | cases hs | skip)
  all_goals constructor
  all_goals try simp only [List.mem_append, List.mem_cons, List.not_mem_nil,
    reduceCtorEq, HEv.reset.injEq, HEv.resp.injEq, or_false]
  all_goals grind [HEv.time]

theorem reachable_traceInv {i t : Nat} {h : HB} : Reachable i t h → TraceInv t h := by
  intro hr
  have : Basic i t h ∧ TraceInv t h :=
    reachable_inv (P := fun h => Basic i t h ∧ TraceInv t h) ⟨basic_init i t, traceInv_init i t⟩
      (fun _ _ _ hp hs => ⟨basic_step hp.1 hs, traceInv_step hp.1 hp.2 hs⟩) hr
  exact this.2

/-! ### runs in which every heartbeat is answered in time

`GoodRun` reads a label sequence on its own (it does not look at the model state).  It keeps the
current time (the argument of the latest `advance`) and the instant `b` of the oldest iteration of
the heartbeat loop (`hlBeat`) that has not yet been followed by the timeout loop consuming a response
(`tlWake`).  The run is good when time is never advanced to `b + m` or beyond while such an
iteration is outstanding. -/

structure Mon where
  now : Nat
  pending : Option Nat
deriving DecidableEq, Repr

/-- one label; `none` = the run is not good -/
def Mon.step (m : Nat) (s : Mon) : Label → Option Mon
  | .advance t' =>
    match s.pending with
    | some b => if t' < b + m then some { s with now := t' } else none
    | none => some { s with now := t' }
  | .hlBeat =>
    match s.pending with
    | none => some { s with pending := some s.now }
    | some _ => some s
  | .tlWake => some { s with pending := none }
  | .stop => some { s with pending := none }
  | _ => some s

def goodFrom (m : Nat) (s : Mon) : List Label → Bool
  | [] => true
  | l :: ls =>
    match s.step m l with
    | some s' => goodFrom m s' ls
    | none => false

/-- every iteration of the heartbeat loop at an instant `b` is followed by a consumed response
before time reaches `b + m` -/
def GoodRun (m : Nat) (ls : List Label) : Prop := goodFrom m ⟨0, none⟩ ls = true

instance (m : Nat) (ls : List Label) : Decidable (GoodRun m ls) := by
  unfold GoodRun; infer_instance

/-- the simulation invariant between the model and the monitor of `GoodRun` -/
structure Sim (i t m : Nat) (h : HB) (s : Mon) : Prop where
  basic : Basic i t h
  now_eq : s.now = h.now
  not_resetting : h.tl ≠ .resetting
  idle_pending : h.tl = .idle → s.pending = none
  slack : ∀ d u, h.tl = .waiting d → h.hl = .sleeping u →
    (s.pending = none → u + m ≤ d) ∧ (∀ b, s.pending = some b → b + m ≤ d ∧ h.now < b + m)
  no_reset : ∀ r, HEv.reset r ∉ h.trace

theorem sim_init (i t m : Nat) : Sim i t m (init i t) ⟨0, none⟩ := by
  constructor <;> first | exact basic_init i t | simp [init]

/-- in a good run the deadline is never reached -/
theorem sim_lt {i t m : Nat} (hm : 0 < m) {h : HB} {s : Mon} (hsim : Sim i t m h s) :
    ∀ d, h.tl = .waiting d → h.now < d := by
  obtain ⟨⟨h1, h2, h3, h4, h5, h6⟩, g1, g2, g3, g4, g5⟩ := hsim
  intro d hd
  cases hhl : h.hl with
  | idle => rw [h6.2 hhl] at hd; cases hd
  | sleeping u =>
    have := g4 d u hd hhl
    have := h5 u hhl
    cases hp : s.pending <;> grind

theorem sim_step {i t m : Nat} (hm : 0 < m) (hmt : m + i ≤ t) {h h' : HB} {s s' : Mon} {l : Label} :
    Sim i t m h s → step h l = some h' → s.step m l = some s' → Sim i t m h' s' := by
  intro hsim hs hms
  have hlt := sim_lt hm hsim
  obtain ⟨hb, g1, g2, g3, g4, g5⟩ := hsim
  have hb' := basic_step hb hs
  obtain ⟨h1, h2, h3, h4, h5, h6⟩ := hb
  cases l <;> simp only [step, HB.emit, enterTimeout] at hs <;> simp only [Mon.step] at hms
  all_goals (repeat' split at hs)
  all_goals (repeat' split at hms)
  all_goals (first | cases hs | skip)
  all_goals (first | cases hms | skip)
  all_goals constructor
  all_goals try simp only [List.mem_append, List.mem_cons, List.not_mem_nil,
    reduceCtorEq, or_false]
  all_goals grind

theorem sim_run {i t m : Nat} (hm : 0 < m) (hmt : m + i ≤ t) :
    ∀ ls h h' s, Sim i t m h s → run h ls = some h' → goodFrom m s ls = true →
      ∃ s', Sim i t m h' s' := by
  intro ls
  induction ls with
  | nil => intro h h' s hsim hr _; simp only [run, Option.some.injEq] at hr; subst hr; exact ⟨s, hsim⟩
  | cons l ls ih =>
    intro h h' s hsim hr hg
    simp only [run] at hr
    simp only [goodFrom] at hg
    cases hs : step h l with
    | none => simp [hs] at hr
    | some h1 =>
      simp only [hs, Option.bind_some] at hr
      cases hms : s.step m l with
      | none => simp [hms] at hg
      | some s1 =>
        simp only [hms] at hg
        exact ih h1 h' s1 (sim_step hm hmt hsim hs hms) hr hg

/-! ### time does not pass a pending deadline unnoticed -/

theorem step_keeps_deadline {h h' : HB} {l : Label} {d : Nat} (hs : step h l = some h')
    (hw : h.tl = .waiting d) (hn : h.now ≤ d)
    (h1 : l ≠ .tlFire) (h2 : l ≠ .tlWake) (h3 : l ≠ .stop) :
    h'.tl = .waiting d ∧ h'.now ≤ d ∧ h'.lastArm = h.lastArm := by
  cases l <;> simp only [step, HB.emit, enterTimeout] at hs
  all_goals (repeat' split at hs)
  all_goals (first | cases hs | skip)
  all_goals grind

theorem run_keeps_deadline {d : Nat} : ∀ (ls : List Label) (h h' : HB), run h ls = some h' →
    h.tl = .waiting d → h.now ≤ d → (∀ l ∈ ls, l ≠ .tlFire ∧ l ≠ .tlWake ∧ l ≠ .stop) →
    h'.tl = .waiting d ∧ h'.now ≤ d ∧ h'.lastArm = h.lastArm := by
  intro ls
  induction ls with
  | nil => intro h h' hr hw hn _; simp only [run, Option.some.injEq] at hr; subst hr; exact ⟨hw, hn, rfl⟩
  | cons l ls ih =>
    intro h h' hr hw hn hl
    simp only [run] at hr
    cases hs : step h l with
    | none => simp [hs] at hr
    | some h1 =>
      simp only [hs, Option.bind_some] at hr
      have hl0 := hl l (List.mem_cons_self ..)
      obtain ⟨a, b, c⟩ := step_keeps_deadline hs hw hn hl0.1 hl0.2.1 hl0.2.2
      have := ih h1 h' hr a b (fun l' hl' => hl l' (List.mem_cons_of_mem _ hl'))
      exact ⟨this.1, this.2.1, this.2.2.trans c⟩

/-! ### where an arm point comes from -/

/-- `a` is the instant of a recorded `start`, response or completed reset -/
def Origin (tr : List HEv) (a : Nat) : Prop :=
  HEv.start a ∈ tr ∨ HEv.resp a ∈ tr ∨ HEv.resetDone a ∈ tr

theorem Origin.append {tr : List HEv} {a : Nat} (e : HEv) : Origin tr a → Origin (tr ++ [e]) a := by
  unfold Origin; grind

theorem flag_resp_step {i t : Nat} {h h' : HB} {l : Label}
    (hb : Basic i t h)
    (a1 : ∀ d, h.tl = .waiting d → h.flag = true → HEv.resp h.now ∈ h.trace)
    (hs : step h l = some h') :
    ∀ d, h'.tl = .waiting d → h'.flag = true → HEv.resp h'.now ∈ h'.trace := by
  obtain ⟨h1, h2, h3, h4, h5, h6⟩ := hb
  cases l <;> simp only [step, HB.emit, enterTimeout] at hs
  all_goals (repeat' split at hs)
  all_goals (first | cases hs | skip)
  all_goals try simp only [List.mem_append, List.mem_cons, List.not_mem_nil,
    reduceCtorEq, HEv.resp.injEq, or_false]
  all_goals grind

theorem arm_origin_step {i t : Nat} {h h' : HB} {l : Label}
    (hb : Basic i t h) (k1x : ∀ x, HEv.resp x ∈ h.trace → x ≤ h.now)
    (a1 : ∀ d, h.tl = .waiting d → h.flag = true → HEv.resp h.now ∈ h.trace)
    (a2 : ∀ d, h.tl = .waiting d → ∃ k a, h.lastArm = a + k * t ∧ Origin h.trace a ∧
      ∀ x, HEv.resp x ∈ h.trace → x ≤ a ∨ (h.flag = true ∧ x = h.now))
    (hs : step h l = some h') :
    ∀ d, h'.tl = .waiting d → ∃ k a, h'.lastArm = a + k * t ∧ Origin h'.trace a ∧
      ∀ x, HEv.resp x ∈ h'.trace → x ≤ a ∨ (h'.flag = true ∧ x = h'.now) := by
  obtain ⟨h1, h2, h3, h4, h5, h6⟩ := hb
  intro d hd
  cases l <;> simp only [step, HB.emit, enterTimeout] at hs
  all_goals (repeat' split at hs)
  all_goals (first | cases hs | skip)
  all_goals try (cases hd; done)
  all_goals simp only [Origin, List.mem_append, List.mem_cons, List.not_mem_nil,
          reduceCtorEq, HEv.resp.injEq, HEv.start.injEq, HEv.resetDone.injEq, or_false] at a2 ⊢
  all_goals try dsimp only at hd
  all_goals first
    | (obtain ⟨k, a, e1, e2, e3⟩ := a2 _ hd; refine ⟨k, a, ?_⟩; grind)
    | (refine ⟨0, h.now, ?_⟩; grind)
    | (by_cases hf : h.flag = true
       · refine ⟨0, h.now, ?_⟩; grind
       · obtain ⟨k, a, e1, e2, e3⟩ := a2 _ (by assumption); refine ⟨k + 1, a, ?_⟩; grind)

theorem reset_origin_step {i t : Nat} {h h' : HB} {l : Label}
    (hb : Basic i t h) (k1r : ∀ r, HEv.reset r ∈ h.trace → r ≤ h.now)
    (a2 : ∀ d, h.tl = .waiting d → ∃ k a, h.lastArm = a + k * t ∧ Origin h.trace a ∧
      ∀ x, HEv.resp x ∈ h.trace → x ≤ a ∨ (h.flag = true ∧ x = h.now))
    (a3 : ∀ r, HEv.reset r ∈ h.trace → ∃ k a, r = a + (k + 1) * t ∧ Origin h.trace a ∧
      ∀ x, HEv.resp x ∈ h.trace → x ≤ a ∨ r ≤ x)
    (hs : step h l = some h') :
    ∀ r, HEv.reset r ∈ h'.trace → ∃ k a, r = a + (k + 1) * t ∧ Origin h'.trace a ∧
      ∀ x, HEv.resp x ∈ h'.trace → x ≤ a ∨ r ≤ x := by
  obtain ⟨h1, h2, h3, h4, h5, h6⟩ := hb
  intro r hr
  cases l <;> simp only [step, HB.emit, enterTimeout] at hs
  all_goals (repeat' split at hs)
  all_goals (first | cases hs | skip)
  all_goals simp only [Origin, List.mem_append, List.mem_cons, List.not_mem_nil,
          reduceCtorEq, HEv.resp.injEq, HEv.start.injEq, HEv.resetDone.injEq, HEv.reset.injEq,
          or_false] at a2 a3 hr ⊢
  all_goals first
    | (rcases hr with hr | rfl
       · obtain ⟨k, a, e1, e2, e3⟩ := a3 r hr; refine ⟨k, a, ?_⟩; grind
       · obtain ⟨k, a, e1, e2, e3⟩ := a2 _ (by assumption); refine ⟨k, a, ?_⟩; grind)
    | (obtain ⟨k, a, e1, e2, e3⟩ := a3 r hr; refine ⟨k, a, ?_⟩; grind)

/-- a set event was recorded; the latest arm point is a whole number of timeouts (expiries while the
link was down) after a recorded start / response / completed reset, with no response in between;
the same for every recorded reset -/
structure ArmInv (t : Nat) (h : HB) : Prop where
  flag_resp : ∀ d, h.tl = .waiting d → h.flag = true → HEv.resp h.now ∈ h.trace
  arm_origin : ∀ d, h.tl = .waiting d → ∃ k a, h.lastArm = a + k * t ∧ Origin h.trace a ∧
    ∀ x, HEv.resp x ∈ h.trace → x ≤ a ∨ (h.flag = true ∧ x = h.now)
  reset_origin : ∀ r, HEv.reset r ∈ h.trace → ∃ k a, r = a + (k + 1) * t ∧ Origin h.trace a ∧
    ∀ x, HEv.resp x ∈ h.trace → x ≤ a ∨ r ≤ x

theorem armInv_init (i t : Nat) : ArmInv t (init i t) := by
  constructor <;> simp [init]

theorem armInv_step {i t : Nat} {h h' : HB} {l : Label} (hb : Basic i t h) (ht : TraceInv t h)
    (ha : ArmInv t h) (hs : step h l = some h') : ArmInv t h' :=
  ⟨flag_resp_step hb ha.flag_resp hs,
   arm_origin_step hb (fun _ hx => ht.past _ hx) ha.flag_resp ha.arm_origin hs,
   reset_origin_step hb (fun _ hr => ht.past _ hr) ha.arm_origin ha.reset_origin hs⟩

theorem reachable_armInv {i t : Nat} {h : HB} : Reachable i t h → ArmInv t h := by
  intro hr
  have : Basic i t h ∧ TraceInv t h ∧ ArmInv t h :=
    reachable_inv (P := fun h => Basic i t h ∧ TraceInv t h ∧ ArmInv t h)
      ⟨basic_init i t, traceInv_init i t, armInv_init i t⟩
      (fun _ _ _ hp hs => ⟨basic_step hp.1 hs, traceInv_step hp.1 hp.2.1 hs,
        armInv_step hp.1 hp.2.1 hp.2.2 hs⟩) hr
  exact this.2.2

/-! ### label sequences used by the non-vacuity examples (`interval` 2400, `timeout` 2640) -/

/-- link up, started at 5, first request sent, the clock at the second wake-up -/
def exBeat : List Label := [.conn true, .advance 5, .start, .hlBeat, .advance 2405]
/-- … second request sent, the clock at the deadline 5 + 2640 -/
def exDue : List Label := exBeat ++ [.hlBeat, .advance 2645]
/-- requests at 5, 2405, 4805 answered after 0, 239 and 100 ticks -/
def exGood : List Label :=
  [.conn true, .advance 5, .start, .hlBeat, .response, .tlWake,
   .advance 2405, .hlBeat, .advance 2644, .response, .tlWake,
   .advance 4805, .hlBeat, .advance 4905, .response, .tlWake, .advance 7000]

end PyAirtouch.Lemmas.Heartbeat
