import PyAirtouch.Lemmas.SockQueue
/-!
# Order of transmission in the socket model

* `doWrite_events`: a frame is written without an intervening suspension (one event per frame);
* `noLoss`: histories without connection loss, dead write, write fault, explicit reset **and
  without the client closing a transport itself** (`clientClose`);
* the invariant `SInv` and the theorem `once_in_order`: in a `noLoss` history every accepted
  message is written at most once, in acceptance order.

The proof is a direct invariant proof: `Pres c c'` is a reflexive, transitive relation between the
socket fields before and after a piece of code, strong enough to carry the invariant `Good`.
-/
namespace PyAirtouch.Lemmas.SockOrder
open PyAirtouch.Model.Sock PyAirtouch.Spec.Trace PyAirtouch.Lemmas.Sock

/-! ### C: one event per frame -/

/-- `_write` emits its whole outcome at once: one complete frame, or a failed attempt -/
theorem doWrite_events (c : Core) (w : Nat) (e : Entry) :
    ∃ evs, (doWrite c w e).1.trace = c.trace ++ evs ∧
      (evs = [.wire w e.sid c.now] ∨ evs = [.writeFault w e.sid c.now, .lost w c.now] ∨
       evs = [.deadWrite w e.sid c.now] ∨ evs = []) := by
  unfold doWrite
  split
  · exact ⟨_, rfl, .inl rfl⟩
  · exact ⟨[.writeFault w e.sid c.now, .lost w c.now], by simp [Core.emit], .inr (.inl rfl)⟩
  · exact ⟨_, rfl, .inr (.inr (.inl rfl))⟩
  · exact ⟨_, rfl, .inr (.inr (.inl rfl))⟩
  · exact ⟨_, rfl, .inr (.inr (.inl rfl))⟩
  · exact ⟨[], by simp, .inr (.inr (.inr rfl))⟩

/-- nothing but the trace and the state of the transport written to is touched -/
theorem doWrite_fields (c : Core) (w : Nat) (e : Entry) :
    (doWrite c w e).1.now = c.now ∧ (doWrite c w e).1.queue = c.queue ∧ (doWrite c w e).1.rw = c.rw ∧
    (doWrite c w e).1.isConnected = c.isConnected ∧ (doWrite c w e).1.isOpen = c.isOpen ∧
    (doWrite c w e).1.connecting = c.connecting ∧ (doWrite c w e).1.conns.length = c.conns.length := by
  unfold doWrite
  split <;> simp [Core.emit]

/-! ### histories without loss -/

def isClientClose : Ev → Bool
  | .clientClose _ _ => true
  | _ => false

/-- no connection loss, dead write, write fault, explicit reset, and no transport closed by the client -/
def noLoss (tr : List Ev) : Bool := !hasFault tr && !tr.any isClientClose

/-- the events excluded by `noLoss` -/
def lossEv : Ev → Bool
  | .fault _ | .lost _ _ | .deadWrite _ _ _ | .writeFault _ _ _ | .apiReset _ | .clientClose _ _ => true
  | _ => false

theorem noLoss_nil : noLoss [] = true := rfl

theorem noLoss_append (a b : List Ev) : noLoss (a ++ b) = (noLoss a && noLoss b) := by
  simp only [noLoss, hasFault, List.any_append]
  cases List.any a _ <;> cases List.any a isClientClose <;> simp

theorem noLoss_single (ev : Ev) : noLoss [ev] = !lossEv ev := by
  cases ev <;> rfl

theorem noLoss_snoc (tr : List Ev) (ev : Ev) : noLoss (tr ++ [ev]) = (noLoss tr && !lossEv ev) := by
  rw [noLoss_append, noLoss_single]

theorem noLoss_all (tr : List Ev) : noLoss tr = tr.all (fun ev => !lossEv ev) := by
  induction tr with
  | nil => rfl
  | cons ev tr ih =>
    have := noLoss_append [ev] tr
    simp only [List.singleton_append] at this
    rw [this, noLoss_single, ih]; simp

theorem noLoss_cons (ev : Ev) (tr : List Ev) : noLoss (ev :: tr) = (!lossEv ev && noLoss tr) := by
  have := noLoss_append [ev] tr
  simp only [List.singleton_append] at this
  rw [this, noLoss_single]

theorem wiredSids_append (a b : List Ev) : wiredSids (a ++ b) = wiredSids a ++ wiredSids b := by
  simp [wiredSids, List.filterMap_append]

theorem acceptedSids_append (a b : List Ev) : acceptedSids (a ++ b) = acceptedSids a ++ acceptedSids b := by
  simp [acceptedSids, List.filterMap_append]

/-- events that are neither a loss, nor an acceptance, nor a frame on the wire -/
def Plain (ev : Ev) : Bool :=
  !lossEv ev && (match ev with | .accept .. => false | .wire .. => false | _ => true)

theorem wiredSids_snoc_of_not_wire (tr : List Ev) (ev : Ev) (h : ∀ c s t, ev ≠ .wire c s t) :
    wiredSids (tr ++ [ev]) = wiredSids tr := by
  rw [wiredSids_append]
  cases ev with
  | wire c s t => exact absurd rfl (h c s t)
  | _ => simp [wiredSids]

theorem acceptedSids_snoc_of_not_accept (tr : List Ev) (ev : Ev) (h : ∀ s t e r ok, ev ≠ .accept s t e r ok) :
    acceptedSids (tr ++ [ev]) = acceptedSids tr := by
  rw [acceptedSids_append]
  cases ev with
  | accept s t e r ok => exact absurd rfl (h s t e r ok)
  | _ => simp [acceptedSids]

def sids (q : List Entry) : List Nat := q.map (·.sid)


theorem plain_wired (evs : List Ev) (h : ∀ ev ∈ evs, Plain ev = true) : wiredSids evs = [] := by
  simp only [wiredSids, List.filterMap_eq_nil_iff]
  intro ev hev
  have := h ev hev
  cases ev <;> simp_all [Plain]

theorem plain_accepted (evs : List Ev) (h : ∀ ev ∈ evs, Plain ev = true) : acceptedSids evs = [] := by
  simp only [acceptedSids, List.filterMap_eq_nil_iff]
  intro ev hev
  have := h ev hev
  cases ev <;> simp_all [Plain]

/-! ### the invariant on the socket fields, and the relation that carries it -/

def rwValid (c : Core) : Prop := ∀ w, c.rw = some w → w < c.conns.length

def allLive (c : Core) : Prop := ∀ x ∈ c.conns, x.isLive = true

/-- in a history without loss every transport is open, and what has been written followed by what
    is queued is a subsequence of what has been accepted -/
def Good (c : Core) : Prop :=
  noLoss c.trace = true → allLive c ∧ (wiredSids c.trace ++ sids c.queue).Sublist (acceptedSids c.trace)

structure Pres (c c' : Core) : Prop where
  len : c.conns.length ≤ c'.conns.length
  mono : noLoss c'.trace = true → noLoss c.trace = true
  acc : acceptedSids c'.trace = acceptedSids c.trace
  rwv : rwValid c → rwValid c'
  live : noLoss c'.trace = true → allLive c → allLive c'
  wq : noLoss c'.trace = true →
    (wiredSids c'.trace ++ sids c'.queue).Sublist (wiredSids c.trace ++ sids c.queue)

theorem Pres.refl (c : Core) : Pres c c :=
  ⟨Nat.le_refl _, id, rfl, id, fun _ h => h, fun _ => List.Sublist.refl _⟩

theorem Pres.trans {a b c : Core} (h1 : Pres a b) (h2 : Pres b c) : Pres a c where
  len := Nat.le_trans h1.len h2.len
  mono h := h1.mono (h2.mono h)
  acc := h2.acc.trans h1.acc
  rwv h := h2.rwv (h1.rwv h)
  live h hl := h2.live h (h1.live (h2.mono h) hl)
  wq h := (h2.wq h).trans (h1.wq (h2.mono h))

theorem Pres.good {c c' : Core} (h : Pres c c') (hg : Good c) : Good c' := by
  intro hn
  obtain ⟨hl, hs⟩ := hg (h.mono hn)
  exact ⟨h.live hn hl, by rw [h.acc]; exact (h.wq hn).trans hs⟩

/-- once the history contains a loss the conditional parts are void -/
theorem Pres.lossy {c c' : Core} (hl : noLoss c'.trace = false) (len : c.conns.length ≤ c'.conns.length)
    (acc : acceptedSids c'.trace = acceptedSids c.trace) (rwv : rwValid c → rwValid c') : Pres c c' :=
  ⟨len, fun h => by simp [hl] at h, acc, rwv, fun h => by simp [hl] at h, fun h => by simp [hl] at h⟩

/-- code that leaves the transports alone, removes entries from the queue at most, and logs only
    plain events -/
theorem Pres.plain {c c' : Core} (evs : List Ev) (hconns : c'.conns = c.conns)
    (hq : (sids c'.queue).Sublist (sids c.queue)) (hrw : c'.rw = c.rw ∨ c'.rw = none)
    (htr : c'.trace = c.trace ++ evs) (hp : ∀ ev ∈ evs, Plain ev = true) : Pres c c' where
  len := by rw [hconns]; exact Nat.le_refl _
  mono h := by rw [htr, noLoss_append] at h; simp only [Bool.and_eq_true] at h; exact h.1
  acc := by rw [htr, acceptedSids_append, plain_accepted evs hp, List.append_nil]
  rwv h w hw := by
    rw [hconns]
    rcases hrw with hrw | hrw
    · exact h w (hrw ▸ hw)
    · rw [hrw] at hw; cases hw
  live _ h := by unfold allLive; rw [hconns]; exact h
  wq _ := by
    rw [htr, wiredSids_append, plain_wired evs hp, List.append_nil]
    exact List.Sublist.append (List.Sublist.refl _) hq

theorem Pres.emit {c : Core} (ev : Ev) (h : Plain ev = true) : Pres c (c.emit ev) :=
  Pres.plain [ev] rfl (List.Sublist.refl _) (.inl rfl) rfl (by simpa using h)

/-! ### writing -/

theorem doWrite_pres (c : Core) (w : Nat) (e : Entry) :
    (doWrite c w e).1.conns.length = c.conns.length ∧
    (noLoss (doWrite c w e).1.trace = true → noLoss c.trace = true) ∧
    acceptedSids (doWrite c w e).1.trace = acceptedSids c.trace ∧
    (doWrite c w e).1.rw = c.rw ∧
    (noLoss (doWrite c w e).1.trace = true → (doWrite c w e).1.conns = c.conns ∧
      (wiredSids (doWrite c w e).1.trace = wiredSids c.trace ++ [e.sid] ∨
       (wiredSids (doWrite c w e).1.trace = wiredSids c.trace ∧ (doWrite c w e).2 = .suspend))) ∧
    ((doWrite c w e).2 = .raise → noLoss (doWrite c w e).1.trace = false) := by
  unfold doWrite
  split <;>
    simp [Core.emit, noLoss_append, noLoss_cons, noLoss_nil, lossEv, acceptedSids, wiredSids]
  split <;> simp


/-- the drain loop, started on the entries `q`: what is written and what is left is `q` with some
    entries removed; a raised stop means a dead write was logged -/
theorem drainLoop_pres (w : Nat) : ∀ (q : List Entry) (c : Core),
    (drainLoop c w q).1.conns.length = c.conns.length ∧
    (noLoss (drainLoop c w q).1.trace = true → noLoss c.trace = true) ∧
    acceptedSids (drainLoop c w q).1.trace = acceptedSids c.trace ∧
    (drainLoop c w q).1.rw = c.rw ∧
    (noLoss (drainLoop c w q).1.trace = true → (drainLoop c w q).1.conns = c.conns ∧
      (wiredSids (drainLoop c w q).1.trace ++ sids (drainLoop c w q).1.queue).Sublist
        (wiredSids c.trace ++ sids q)) ∧
    (∀ e, (drainLoop c w q).2 = .raised e → noLoss (drainLoop c w q).1.trace = false) := by
  intro q
  induction q with
  | nil =>
    intro c
    simp [drainLoop, sids]
  | cons e rest ih =>
    intro c
    have hdrop : ∀ why, let c1 := c.emit (.qdrop e.sid c.now why)
        c1.conns = c.conns ∧ (noLoss c1.trace = true → noLoss c.trace = true) ∧
        acceptedSids c1.trace = acceptedSids c.trace ∧ c1.rw = c.rw ∧ wiredSids c1.trace = wiredSids c.trace := by
      intro why
      simp [Core.emit, noLoss_append, acceptedSids, wiredSids]
      intro h _; exact h
    have hsub : (wiredSids c.trace ++ sids rest).Sublist (wiredSids c.trace ++ sids (e :: rest)) :=
      List.Sublist.append (List.Sublist.refl _) (by simp [sids])
    unfold drainLoop
    split
    · exact ⟨rfl, id, rfl, rfl, fun _ => ⟨rfl, List.Sublist.refl _⟩, fun _ h => by cases h⟩
    split
    · obtain ⟨h1, h2, h3, h4, h5⟩ := hdrop .expired
      obtain ⟨i1, i2, i3, i4, i5, i6⟩ := ih (c.emit (.qdrop e.sid c.now .expired))
      refine ⟨by rw [i1, h1], fun h => h2 (i2 h), i3.trans h3, i4.trans h4, fun h => ?_, i6⟩
      obtain ⟨j1, j2⟩ := i5 h
      exact ⟨j1.trans h1, by rw [h5] at j2; exact j2.trans hsub⟩
    · split
      · obtain ⟨h1, h2, h3, h4, h5⟩ := hdrop .encErr
        obtain ⟨i1, i2, i3, i4, i5, i6⟩ := ih (c.emit (.qdrop e.sid c.now .encErr))
        refine ⟨by rw [i1, h1], fun h => h2 (i2 h), i3.trans h3, i4.trans h4, fun h => ?_, i6⟩
        obtain ⟨j1, j2⟩ := i5 h
        exact ⟨j1.trans h1, by rw [h5] at j2; exact j2.trans hsub⟩
      · obtain ⟨d1, d2, d3, d4, d5, d6⟩ := doWrite_pres c w e
        split
        · rename_i c' heq
          rw [heq] at d1 d2 d3 d4 d5 d6
          simp only at d1 d2 d3 d4 d5 d6
          obtain ⟨i1, i2, i3, i4, i5, i6⟩ := ih c'
          refine ⟨i1.trans d1, fun h => d2 (i2 h), i3.trans d3, i4.trans d4, fun h => ?_, i6⟩
          obtain ⟨j1, j2⟩ := i5 h
          obtain ⟨k1, k2⟩ := d5 (i2 h)
          refine ⟨j1.trans k1, ?_⟩
          rcases k2 with k2 | ⟨_, k2⟩
          · rw [k2] at j2
            simpa [sids] using j2
          · cases k2
        · rename_i c' heq
          rw [heq] at d1 d2 d3 d4 d5 d6
          simp only at d1 d2 d3 d4 d5 d6
          refine ⟨d1, d2, d3, d4, fun h => ?_, by simp⟩
          obtain ⟨k1, k2⟩ := d5 h
          refine ⟨k1, ?_⟩
          rcases k2 with k2 | ⟨k2, _⟩
          · simp [k2, sids]
          · rw [k2]; exact hsub
        · rename_i c' heq
          rw [heq] at d1 d2 d3 d4 d5 d6
          simp only at d1 d2 d3 d4 d5 d6
          have hl := d6 trivial
          exact ⟨d1, d2, d3, d4, fun h => by simp [hl] at h, fun _ _ => hl⟩

theorem drainLoop_pres' (w : Nat) (c c' : Core) (stop : DrainStop) (h : drainLoop c w c.queue = (c', stop)) :
    Pres c c' ∧ c'.rw = c.rw ∧ (∀ e, stop = .raised e → noLoss c'.trace = false) := by
  obtain ⟨i1, i2, i3, i4, i5, i6⟩ := drainLoop_pres w c.queue c
  rw [h] at i1 i2 i3 i4 i5 i6
  simp only at i1 i2 i3 i4 i5 i6
  refine ⟨⟨Nat.le_of_eq i1.symm, i2, i3, ?_, ?_, fun hn => (i5 hn).2⟩, i4, i6⟩
  · intro hv w' hw'; rw [i1]; exact hv w' (i4 ▸ hw')
  · intro hn hl; unfold allLive; rw [(i5 hn).1]; exact hl

theorem requeue_mono (c : Core) (e : Entry) :
    (noLoss (requeue c e).trace = true → noLoss c.trace = true) ∧ (requeue c e).conns = c.conns ∧
    acceptedSids (requeue c e).trace = acceptedSids c.trace ∧ (requeue c e).rw = c.rw := by
  unfold requeue
  split
  · simp [Core.emit, noLoss_append, acceptedSids]
    intro h _; exact h
  · simp

/-- the retry path is only ever taken in a history that contains a loss -/
theorem requeue_pres (c : Core) (e : Entry) (hl : noLoss c.trace = false) : Pres c (requeue c e) := by
  obtain ⟨h1, h2, h3, h4⟩ := requeue_mono c e
  refine Pres.lossy ?_ (by rw [h2]; exact Nat.le_refl _) h3 ?_
  · cases h : noLoss (requeue c e).trace with
    | false => rfl
    | true => rw [h1 h] at hl; cases hl
  · intro hv w hw; rw [h2]; exact hv w (h4 ▸ hw)

theorem closeConn_pres (c : Core) (w : Nat) : Pres c (closeConn c w) ∧ (closeConn c w).rw = c.rw := by
  unfold closeConn
  split
  · refine ⟨Pres.lossy ?_ ?_ ?_ ?_, rfl⟩
    · simp [Core.emit, noLoss_append, noLoss_cons, lossEv]
    · simp [Core.emit]
    · simp [Core.emit, acceptedSids]
    · intro hv w' hw'; simpa [Core.emit] using hv w' hw'
  · exact ⟨Pres.refl _, rfl⟩


/-! ### the code between two suspension points -/

/-- a task suspended in `drain()` waits on a transport that exists -/
def pcValid (n : Nat) : Pc → Prop
  | .drainAwait w _ _ => w < n
  | _ => True

theorem pcValid_mono {n m : Nat} (h : n ≤ m) (p : Pc) : pcValid n p → pcValid m p := by
  cases p <;> simp only [pcValid] <;> first | exact id | exact fun h' => Nat.lt_of_lt_of_le h' h

theorem pcValid_of_hold {n : Nat} {p : Pc} (h : hold p = []) : pcValid n p := by
  cases p <;> simp_all [hold, pcValid]

theorem exec_pres (fuel : Nat) : ∀ (c : Core) (sp : List Pc) (k : Kont), rwValid c →
    Pres c (exec fuel c sp k).core ∧ pcValid (exec fuel c sp k).core.conns.length (exec fuel c sp k).pc := by
  induction fuel with
  | zero => intro c sp k _; exact ⟨Pres.refl _, trivial⟩
  | succ n ih =>
    intro c sp k hv
    cases k with
    | drain r =>
      simp only [exec]
      split
      · exact ih _ _ _ hv
      · split
        · exact ih _ _ _ hv
        · rename_i w hw
          split
          · rename_i c' heq
            obtain ⟨hp, _, _⟩ := drainLoop_pres' w c c' _ heq
            have := ih c' sp (.ret r) (hp.rwv hv)
            exact ⟨hp.trans this.1, this.2⟩
          · rename_i c' e heq
            obtain ⟨hp, _, _⟩ := drainLoop_pres' w c c' _ heq
            refine ⟨hp, ?_⟩
            exact Nat.lt_of_lt_of_le (hv w hw) hp.len
          · rename_i c' e heq
            obtain ⟨hp, _, hl⟩ := drainLoop_pres' w c c' _ heq
            have hr := requeue_pres c' e (hl e rfl)
            have := ih (requeue c' e) sp (.disconnect (.resetTail r)) (hr.rwv (hp.rwv hv))
            exact ⟨(hp.trans hr).trans this.1, this.2⟩
    | disconnect r =>
      simp only [exec]
      split
      · rename_i w _
        obtain ⟨hc, _⟩ := closeConn_pres c w
        exact ⟨hc, trivial⟩
      · exact ih _ _ _ hv
    | discTail w r =>
      simp only [exec]
      split
      · exact ⟨Pres.plain [.notify false c.now] rfl (List.Sublist.refl _) (.inr rfl) rfl (by simp [Plain, lossEv]), trivial⟩
      · exact ih _ _ _ hv
    | ret r =>
      cases r with
      | done => exact ⟨Pres.refl _, trivial⟩
      | closeTail => exact ⟨Pres.emit _ rfl, trivial⟩
      | connAfterNotify => simp only [exec]; exact ih _ _ _ hv
      | connAfterDrain => exact ⟨Pres.refl _, trivial⟩
      | resetTail r => simp only [exec]; exact ih _ _ _ hv
      | readLoop =>
        simp only [exec]
        split
        · exact ⟨Pres.refl _, trivial⟩
        · exact ⟨Pres.refl _, trivial⟩


/-! ### the invariant of the whole system -/

structure CInv (u : List Nat) (c : Core) : Prop where
  rwv : rwValid c
  accU : (acceptedSids c.trace).Sublist u
  good : Good c

def SInv (u : List Nat) (s : Sys) : Prop :=
  CInv u s.core ∧ ∀ k ∈ s.tasks, pcValid s.core.conns.length k.pc

theorem CInv.pres {u : List Nat} {c c' : Core} (h : CInv u c) (hp : Pres c c') : CInv u c' :=
  ⟨hp.rwv h.rwv, by rw [hp.acc]; exact h.accU, hp.good h.good⟩

theorem CInv.accept {u : List Nat} {c : Core} (h : CInv u c) (sid r x : Nat) (ok : Bool) :
    CInv (u ++ [sid]) ({ c with queue := c.queue ++ [(⟨sid, r, x, ok, false⟩ : Entry)] }.emit (.accept sid c.now x r ok)) := by
  refine ⟨h.rwv, ?_, ?_⟩
  · simp only [Core.emit, acceptedSids_append]
    exact List.Sublist.append h.accU (by simp [acceptedSids])
  · intro hn
    simp only [Core.emit, noLoss_append, Bool.and_eq_true] at hn
    obtain ⟨hl, hs⟩ := h.good hn.1
    refine ⟨hl, ?_⟩
    simp only [Core.emit, wiredSids_append, acceptedSids_append, sids, List.map_append]
    have e1 : wiredSids [Ev.accept sid c.now x r ok] = [] := rfl
    have e2 : acceptedSids [Ev.accept sid c.now x r ok] = [sid] := rfl
    rw [e1, e2, List.append_nil, ← List.append_assoc]
    exact List.Sublist.append hs (List.Sublist.refl _)

theorem SInv.weaken {u u' : List Nat} {s : Sys} (h : SInv u s) (hu : u.Sublist u') : SInv u' s :=
  ⟨⟨h.1.rwv, h.1.accU.trans hu, h.1.good⟩, h.2⟩

theorem mem_modify {α : Type} (f : α → α) : ∀ (l : List α) (t : Nat) (x : α), x ∈ l.modify t f →
    x ∈ l ∨ ∃ y, l[t]? = some y ∧ x = f y := by
  intro l
  induction l with
  | nil => intro t x h; simp at h
  | cons a l ih =>
    intro t x h
    cases t with
    | zero =>
      simp only [List.modify_zero_cons, List.mem_cons] at h
      rcases h with h | h
      · exact .inr ⟨a, by simp, h⟩
      · exact .inl (by simp [h])
    | succ t =>
      simp only [List.modify_succ_cons, List.mem_cons] at h
      rcases h with h | h
      · exact .inl (by simp [h])
      · rcases ih t x h with h | ⟨y, hy, hx⟩
        · exact .inl (by simp [h])
        · exact .inr ⟨y, by simpa using hy, hx⟩

theorem tasks_spawn {n : Nat} (sp : List Pc) (hsp : ∀ p ∈ sp, hold p = []) :
    ∀ k ∈ sp.map (fun p => (⟨p, true⟩ : Task)), pcValid n k.pc := by
  intro k hk
  simp only [List.mem_map] at hk
  obtain ⟨p, hp, rfl⟩ := hk
  exact pcValid_of_hold (hsp p hp)

theorem tasks_upd {n : Nat} (s : Sys) (t : Nat) (out : Out) (h : ∀ k ∈ s.tasks, pcValid n k.pc)
    (hpc : pcValid n out.pc) (hsp : ∀ p ∈ out.spawned, hold p = []) :
    ∀ k ∈ (upd s t out).tasks, pcValid n k.pc := by
  intro k hk
  simp only [upd, List.mem_append] at hk
  rcases hk with hk | hk
  · rcases mem_modify _ _ _ _ hk with hk | ⟨y, _, rfl⟩
    · exact h k hk
    · exact hpc
  · exact tasks_spawn _ hsp k hk

theorem tasks_spawnApi {n : Nat} (s : Sys) (out : Out) (h : ∀ k ∈ s.tasks, pcValid n k.pc)
    (hpc : pcValid n out.pc) (hsp : ∀ p ∈ out.spawned, hold p = []) :
    ∀ k ∈ (spawnApi s out).tasks, pcValid n k.pc := by
  intro k hk
  simp only [spawnApi, List.mem_append, List.mem_singleton] at hk
  rcases hk with (hk | rfl) | hk
  · exact h k hk
  · exact hpc
  · exact tasks_spawn _ hsp k hk

theorem tasks_cancel {n : Nat} (ts : List Task) (h : ∀ k ∈ ts, pcValid n k.pc) :
    ∀ k ∈ ts.map cancelTask, pcValid n k.pc := by
  intro k hk
  simp only [List.mem_map] at hk
  obtain ⟨k0, hk0, rfl⟩ := hk
  have := h k0 hk0
  unfold cancelTask
  split
  · split <;> first | trivial | exact this
  · exact this

theorem tasks_mono {n m : Nat} (hnm : n ≤ m) {ts : List Task} (h : ∀ k ∈ ts, pcValid n k.pc) :
    ∀ k ∈ ts, pcValid m k.pc := fun k hk => pcValid_mono hnm _ (h k hk)

/-- a task resumes and runs `exec` from a core `c0` obtained from the current one -/
theorem SInv.upd_exec {u : List Nat} {s : Sys} (h : SInv u s) (t : Nat) (c0 : Core) (k : Kont)
    (hp : Pres s.core c0) : SInv u (upd s t (exec FUEL c0 [] k)) := by
  have hc0 := h.1.pres hp
  obtain ⟨he, hpc⟩ := exec_pres FUEL c0 [] k hc0.rwv
  have hsp := (exec_abs' [] c0 k []).2
  refine ⟨hc0.pres he, ?_⟩
  exact tasks_upd s t _ (tasks_mono (Nat.le_trans hp.len he.len) h.2) hpc hsp

theorem SInv.upd_plain {u : List Nat} {s : Sys} (h : SInv u s) (t : Nat) (out : Out)
    (hp : Pres s.core out.core) (hpc : hold out.pc = []) (hsp : ∀ p ∈ out.spawned, hold p = []) :
    SInv u (upd s t out) :=
  ⟨h.1.pres hp, tasks_upd s t _ (tasks_mono hp.len h.2) (pcValid_of_hold hpc) hsp⟩

theorem SInv.api_exec {u : List Nat} {s : Sys} (ts : List Task) (c0 : Core) (k : Kont) (hc0 : CInv u c0)
    (hts : ∀ k ∈ ts, pcValid c0.conns.length k.pc) :
    SInv u (spawnApi ⟨s.core, ts⟩ (exec FUEL c0 [] k)) := by
  obtain ⟨he, hpc⟩ := exec_pres FUEL c0 [] k hc0.rwv
  have hsp := (exec_abs' [] c0 k []).2
  exact ⟨hc0.pres he, tasks_spawnApi _ _ (tasks_mono he.len hts) hpc hsp⟩

theorem SInv.api_plain {u : List Nat} {s : Sys} (ts : List Task) (out : Out) (hc : CInv u out.core)
    (hts : ∀ k ∈ ts, pcValid out.core.conns.length k.pc) (hpc : hold out.pc = [])
    (hsp : ∀ p ∈ out.spawned, hold p = []) : SInv u (spawnApi ⟨s.core, ts⟩ out) :=
  ⟨hc, tasks_spawnApi _ _ hts (pcValid_of_hold hpc) hsp⟩


/-! ### one step of the whole system -/

theorem connectBlock_pres (c : Core) :
    Pres c (connectBlock c).core ∧ hold (connectBlock c).pc = [] ∧ ∀ p ∈ (connectBlock c).spawned, hold p = [] := by
  unfold connectBlock
  split
  · exact ⟨Pres.refl _, rfl, by simp⟩
  · exact ⟨Pres.plain [.attempt c.now] rfl (List.Sublist.refl _) (.inl rfl) rfl (by simp [Plain, lossEv]), rfl, by simp⟩

theorem openOk_pres (c : Core) :
    Pres c (({ c with conns := c.conns ++ [ConnSt.live false false], rw := some c.conns.length, connecting := false,
                      isConnected := true }.emit (.opened c.conns.length c.now)).emit (.notify true c.now)) where
  len := by simp [Core.emit]
  mono h := by
    simp only [Core.emit, noLoss_append, Bool.and_eq_true] at h
    exact h.1.1
  acc := by simp [Core.emit, acceptedSids]
  rwv _ w hw := by
    simp only [Core.emit, Option.some.injEq] at hw
    subst hw; simp [Core.emit]
  live _ hl x hx := by
    simp only [Core.emit, List.mem_append, List.mem_singleton] at hx
    rcases hx with hx | rfl
    · exact hl x hx
    · rfl
  wq _ := by simp [Core.emit, wiredSids]

/-- a transport that is not open witnesses a loss in the history -/
theorem lossy_of_not_live {c : Core} (hg : Good c) (w : Nat) (hw : w < c.conns.length)
    (hn : (c.conns[w]?.map ConnSt.isLive).getD false = false) : noLoss c.trace = false := by
  cases h : noLoss c.trace with
  | false => rfl
  | true =>
    have hl := (hg h).1 c.conns[w] (List.getElem_mem hw)
    simp [List.getElem?_eq_getElem hw, hl] at hn

theorem pcAt_mem {s : Sys} {t : Nat} {p : Pc} (h : pcAt s t = some p) : ∃ k ∈ s.tasks, k.pc = p := by
  unfold pcAt at h
  cases hk : s.tasks[t]? with
  | none => simp [hk] at h
  | some k =>
    simp only [hk, Option.map_some, Option.some.injEq] at h
    exact ⟨k, List.mem_of_getElem? hk, h⟩

theorem step_run_sinv (u : List Nat) (s s' : Sys) (t : Nat) (a : Answer) (hI : SInv u s)
    (h : step s (.run t a) = some s') : SInv u s' := by
  simp only [step] at h
  split at h
  · split at h
    · injection h with h; subst h
      obtain ⟨h1, h2, h3⟩ := connectBlock_pres s.core
      exact hI.upd_plain t _ h1 h2 h3
    · simp at h
  · injection h with h; subst h
    obtain ⟨h1, h2, h3⟩ := connectBlock_pres s.core
    exact hI.upd_plain t _ h1 h2 h3
  · injection h with h; subst h
    exact hI.upd_plain t _ (openOk_pres s.core) rfl (by simp)
  · injection h with h; subst h
    refine hI.upd_plain t _ (Pres.plain [.refused s.core.now] rfl (List.Sublist.refl _) (.inl rfl) rfl
      (by simp [Plain, lossEv])) rfl ?_
    intro p hp'
    split at hp'
    · simp only [List.mem_singleton] at hp'; subst hp'; rfl
    · simp at hp'
  · injection h with h; subst h
    exact hI.upd_plain t _ (Pres.plain [] rfl (List.Sublist.refl _) (.inl rfl) (by simp) (by simp)) rfl (by simp)
  · injection h with h; subst h
    exact hI.upd_exec t _ _ (Pres.refl _)
  · rename_i w e r hp
    split at h
    · simp at h
    · rename_i hnl
      injection h with h; subst h
      obtain ⟨k, hk, hkp⟩ := pcAt_mem hp
      have hw : w < s.core.conns.length := by
        have := hI.2 k hk
        rw [hkp] at this; exact this
      have hl := lossy_of_not_live hI.1.good w hw (by simpa using hnl)
      exact hI.upd_exec t _ _ (requeue_pres s.core e hl)
  · split at h
    · injection h with h; subst h
      exact hI.upd_exec t _ _ (Pres.refl _)
    · simp at h
  · injection h with h; subst h
    exact hI.upd_exec t _ _ (Pres.refl _)
  · injection h with h; subst h
    exact hI.upd_exec t _ _ (Pres.refl _)
  · injection h with h; subst h
    exact hI.upd_plain t _ (Pres.emit _ rfl) rfl (by simp)
  · injection h with h; subst h
    exact hI.upd_exec t _ _ (Pres.refl _)
  · split at h
    · split at h
      · injection h with h; subst h
        exact hI.upd_exec t _ _ (Pres.refl _)
      · injection h with h; subst h
        exact hI.upd_plain t _ (Pres.refl _) rfl (by simp)
    · injection h with h; subst h
      exact hI.upd_plain t _ (Pres.refl _) rfl (by simp)
  · injection h with h; subst h
    exact hI.upd_exec t _ _ (Pres.refl _)
  · split at h
    · simp at h
    · injection h with h; subst h
      exact hI.upd_exec t _ _ (Pres.refl _)
  · simp at h


/-- the environment changes the state of one transport without the client logging anything -/
theorem set_pres (c : Core) (cid : Nat) (x : ConnSt)
    (h : x.isLive = true ∨ ∃ y, c.conns[cid]? = some y ∧ y.isLive = false) :
    Pres c { c with conns := c.conns.set cid x } where
  len := by simp
  mono := id
  acc := rfl
  rwv hv w hw := by simpa using hv w hw
  live _ hl z hz := by
    rcases h with h | ⟨y, hy, hyl⟩
    · rcases List.mem_or_eq_of_mem_set hz with hz | rfl
      · exact hl z hz
      · exact h
    · have := hl y (List.mem_of_getElem? hy)
      rw [hyl] at this; cases this
  wq _ := List.Sublist.refl _

theorem SInv.env {u : List Nat} {s : Sys} (h : SInv u s) (c' : Core) (hp : Pres s.core c') :
    SInv u { s with core := c' } :=
  ⟨h.1.pres hp, tasks_mono hp.len h.2⟩

theorem purgeEvents_plain (now : Nat) (q : List Entry) : ∀ ev ∈ purgeEvents now q, Plain ev = true := by
  intro ev hev
  simp only [purgeEvents, List.mem_map] at hev
  obtain ⟨e, _, rfl⟩ := hev
  rfl

theorem step_sinv (u : List Nat) (s s' : Sys) (l : Label) (hI : SInv u s) (h : step s l = some s') :
    SInv (usedAfter u l) s' := by
  cases l with
  | advance t =>
    simp only [step] at h
    split at h
    · injection h with h; subst h
      exact hI.env _ (Pres.plain [] rfl (List.Sublist.refl _) (.inl rfl) (by simp) (by simp))
    · simp at h
  | envLost cid =>
    simp only [step] at h
    split at h
    · injection h with h; subst h
      refine hI.env _ (Pres.lossy ?_ (by simp [Core.emit]) (by simp [Core.emit, acceptedSids]) ?_)
      · simp [Core.emit, noLoss_append, noLoss_cons, lossEv]
      · intro hv w hw; simpa [Core.emit] using hv w hw
    · simp at h
  | envLostRan cid =>
    simp only [step] at h
    split at h
    · rename_i e heq
      injection h with h; subst h
      exact hI.env _ (set_pres _ _ _ (.inr ⟨_, heq, rfl⟩))
    · simp at h
  | envPause cid b =>
    simp only [step] at h
    split at h
    · injection h with h; subst h
      exact hI.env _ (set_pres _ _ _ (.inl rfl))
    · simp at h
  | envFailWrites cid b =>
    simp only [step] at h
    split at h
    · injection h with h; subst h
      exact hI.env _ (set_pres _ _ _ (.inl rfl))
    · simp at h
  | apiOpen =>
    simp only [step] at h
    have hp : Pres s.core (s.core.emit (.apiOpen s.core.now)) := Pres.emit _ rfl
    split at h
    · injection h with h; subst h
      exact SInv.api_plain (s := s) s.tasks _ (hI.1.pres hp) (tasks_mono hp.len hI.2) rfl (by simp)
    · injection h with h; subst h
      have hp2 : Pres s.core { s.core.emit (.apiOpen s.core.now) with isOpen := true, queue := [] } :=
        Pres.plain [.apiOpen s.core.now] rfl (List.nil_sublist _) (.inl rfl) rfl (by simp [Plain, lossEv])
      refine SInv.api_plain (s := s) s.tasks _ (hI.1.pres hp2) (tasks_mono hp2.len hI.2) rfl ?_
      intro p hp'; simp only [List.mem_singleton] at hp'; subst hp'; rfl
  | apiClose =>
    simp only [step] at h
    split at h
    · injection h with h; subst h
      have hp : Pres s.core ((s.core.emit (.apiClose s.core.now)).emit (.apiCloseDone s.core.now)) :=
        (Pres.emit _ rfl).trans (Pres.emit _ rfl)
      exact SInv.api_plain (s := s) s.tasks _ (hI.1.pres hp) (tasks_mono hp.len hI.2) rfl (by simp)
    · have hp : Pres s.core { s.core.emit (.apiClose s.core.now) with isOpen := false } :=
        Pres.plain [.apiClose s.core.now] rfl (List.Sublist.refl _) (.inl rfl) rfl (by simp [Plain, lossEv])
      have hts := tasks_cancel _ (tasks_mono hp.len hI.2)
      split at h
      · injection h with h; subst h
        exact SInv.api_plain (s := s) _ _ (hI.1.pres hp) hts rfl (by simp)
      · injection h with h; subst h
        exact SInv.api_exec (s := s) _ _ _ (hI.1.pres hp) hts
  | apiReset =>
    simp only [step] at h
    injection h with h; subst h
    have hp : Pres s.core (s.core.emit (.apiReset s.core.now)) := by
      refine Pres.lossy ?_ (by simp [Core.emit]) (by simp [Core.emit, acceptedSids]) ?_
      · simp [Core.emit, noLoss_append, noLoss_cons, lossEv]
      · intro hv w hw; simpa [Core.emit] using hv w hw
    exact SInv.api_exec (s := s) s.tasks _ _ (hI.1.pres hp) (tasks_mono hp.len hI.2)
  | apiSend sid r life ok =>
    simp only [step] at h
    split at h
    · injection h with h; subst h
      have hp : Pres s.core (s.core.emit (.reject sid s.core.now .notOpen)) := Pres.emit _ rfl
      exact (SInv.api_plain (s := s) s.tasks _ (hI.1.pres hp) (tasks_mono hp.len hI.2) rfl (by simp)).weaken
        (List.sublist_append_left _ _)
    · have hp : Pres s.core { s.core with queue := purged s.core.now s.core.queue,
                                          trace := s.core.trace ++ purgeEvents s.core.now s.core.queue } :=
        Pres.plain _ rfl (List.Sublist.map _ List.filter_sublist) (.inl rfl) rfl (purgeEvents_plain _ _)
      split at h
      · injection h with h; subst h
        have hp2 := hp.trans (Pres.emit (.reject sid s.core.now .overflow) rfl)
        exact (SInv.api_plain (s := s) s.tasks _ (hI.1.pres hp2) (tasks_mono hp2.len hI.2) rfl (by simp)).weaken
          (List.sublist_append_left _ _)
      · injection h with h; subst h
        have hc := (hI.1.pres hp).accept sid r (s.core.now + life) ok
        exact SInv.api_exec (s := s) s.tasks _ _ hc hI.2
  | run t a => exact step_run_sinv u s s' t a hI h

theorem SInv.init : SInv [] Model.Sock.init := by
  refine ⟨⟨?_, ?_, ?_⟩, ?_⟩
  · intro w hw; simp [Model.Sock.init] at hw
  · simp [Model.Sock.init, acceptedSids]
  · intro _; simp [Model.Sock.init, allLive, wiredSids, acceptedSids, sids]
  · simp [Model.Sock.init]

theorem run_sinv (ls : List Label) (s : Sys) (h : run Model.Sock.init ls = some s) : SInv (sendSids ls) s := by
  refine run_induction (P := fun ls s => SInv (sendSids ls) s) SInv.init ?_ ls s h
  intro ls s l s' _ hp hst
  have := step_sinv (sendSids ls) s s' l hp hst
  rwa [usedAfter_eq, ← sendSids_append] at this

/-! ### the monitor -/

theorem isSubseq_of_sublist : ∀ (xs ys : List Nat), xs.Sublist ys → isSubseq xs ys = true := by
  intro xs ys
  induction ys generalizing xs with
  | nil => intro h; cases h; rfl
  | cons y ys ih =>
    intro h
    cases xs with
    | nil => rfl
    | cons x xs =>
      simp only [isSubseq]
      split
      · rename_i heq; subst heq
        exact ih xs (List.Sublist.of_cons_cons h)
      · rename_i hne
        cases h with
        | cons _ h => exact ih _ h
        | cons_cons _ h => exact absurd rfl hne

theorem wireCount_eq_count (tr : List Ev) (s : Nat) : wireCount tr s = (wiredSids tr).count s := by
  induction tr with
  | nil => rfl
  | cons ev tr ih =>
    simp only [wireCount, wiredSids, List.countP_cons, List.filterMap_cons] at ih ⊢
    cases ev <;> simp [ih, List.count_cons]

/-- in a history without loss, every message is written at most once and in acceptance order -/
theorem once_in_order {s : Sys} (h : ReachableWF s) (hn : noLoss s.core.trace = true) :
    (∀ sid, wireCount s.core.trace sid ≤ 1) ∧ (wiredSids s.core.trace).Sublist (acceptedSids s.core.trace) := by
  obtain ⟨ls, hnd, hr⟩ := h
  have hI := run_sinv ls s hr
  obtain ⟨_, hs⟩ := hI.1.good hn
  have hsub : (wiredSids s.core.trace).Sublist (acceptedSids s.core.trace) :=
    (List.sublist_append_left _ _).trans hs
  have hnd' : (wiredSids s.core.trace).Nodup := (hnd.sublist hI.1.accU).sublist hsub
  refine ⟨fun sid => ?_, hsub⟩
  rw [wireCount_eq_count]
  exact List.nodup_iff_count.1 hnd' sid

end PyAirtouch.Lemmas.SockOrder
