import PyAirtouch.Lemmas.Heartbeat
set_option linter.unusedSimpArgs false
/-!
# Observational equivalence of heartbeat-manager states

Two `HB` records that differ only in what no step ever reads behave alike.  Never read: the ghost
fields `lastArm`, `expiries`; the event flag while the manager is not running (`start` clears it,
a response is not even delivered); `resetAt` outside a reset in progress (it is written on entering
the reset).  `trace` is append-only output: equivalent states append the same events.

Used by the API models: the manager of an API object that was shut down and the manager of a fresh
object are equivalent in this sense, and stay so for ever.
-/
namespace PyAirtouch.Lemmas.Heartbeat
open PyAirtouch.Model.Heartbeat PyAirtouch.Spec.Heartbeat

/-- equal in everything a step can read -/
structure HbEquiv (h h' : HB) : Prop where
  now : h.now = h'.now
  interval : h.interval = h'.interval
  timeout : h.timeout = h'.timeout
  tl : h.tl = h'.tl
  hl : h.hl = h'.hl
  connected : h.connected = h'.connected
  flag : h.tl ≠ .idle → h.flag = h'.flag
  resetAt : h.tl = .resetting → h.resetAt = h'.resetAt

theorem HbEquiv.refl (h : HB) : HbEquiv h h := ⟨rfl, rfl, rfl, rfl, rfl, rfl, fun _ => rfl, fun _ => rfl⟩

theorem HbEquiv.symm {h h' : HB} (e : HbEquiv h h') : HbEquiv h' h :=
  ⟨e.now.symm, e.interval.symm, e.timeout.symm, e.tl.symm, e.hl.symm, e.connected.symm,
   fun hn => (e.flag (by rw [e.tl]; exact hn)).symm, fun hr => (e.resetAt (by rw [e.tl]; exact hr)).symm⟩

theorem HbEquiv.trans {a b c : HB} (e1 : HbEquiv a b) (e2 : HbEquiv b c) : HbEquiv a c :=
  ⟨e1.now.trans e2.now, e1.interval.trans e2.interval, e1.timeout.trans e2.timeout, e1.tl.trans e2.tl,
   e1.hl.trans e2.hl, e1.connected.trans e2.connected,
   fun hn => (e1.flag hn).trans (e2.flag (by rw [← e1.tl]; exact hn)),
   fun hr => (e1.resetAt hr).trans (e2.resetAt (by rw [← e1.tl]; exact hr))⟩

/-- the ghost fields and the trace can be replaced at will -/
theorem HbEquiv.ghost (h : HB) (la : Nat) (ex : List Nat) (tr : List HEv) :
    HbEquiv h { h with lastArm := la, expiries := ex, trace := tr } :=
  ⟨rfl, rfl, rfl, rfl, rfl, rfl, fun _ => rfl, fun _ => rfl⟩

/-- what a step appended to the trace -/
def newEvents (h h' : HB) : List HEv := h'.trace.drop h.trace.length

/-- equivalent states: a label is enabled in both or in neither, the successors are equivalent and the same
    events were appended -/
theorem HbEquiv.step {h h' : HB} (e : HbEquiv h h') (l : Label) :
    (step h l = none ∧ step h' l = none) ∨
    ∃ g g', step h l = some g ∧ step h' l = some g' ∧ HbEquiv g g' ∧
      ∃ evs, g.trace = h.trace ++ evs ∧ g'.trace = h'.trace ++ evs := by
  obtain ⟨e1, e2, e3, e4, e5, e6, e7, e8⟩ := e
  cases h with | mk n i t f tl hl c la ra ex tr =>
  cases h' with | mk n' i' t' f' tl' hl' c' la' ra' ex' tr' =>
  simp only at e1 e2 e3 e4 e5 e6 e7 e8
  subst e1 e2 e3 e4 e5 e6
  cases l <;> cases tl <;> cases hl <;>
    simp only [PyAirtouch.Model.Heartbeat.step, HB.emit, enterTimeout, ne_eq, not_true_eq_false, not_false_eq_true,
      reduceCtorEq, forall_const, false_implies, implies_true] at e7 e8 ⊢
  all_goals (try subst e7)
  all_goals (try subst e8)
  all_goals (repeat' split)
  all_goals first
    | (left; exact ⟨rfl, rfl⟩)
    | (right
       refine ⟨_, _, rfl, rfl, ?_, ?_⟩
       · constructor <;> simp_all
       · first
          | exact ⟨[], (List.append_nil _).symm, (List.append_nil _).symm⟩
          | exact ⟨[_], rfl, rfl⟩)
    | simp_all

/-- `HbEquiv` together with "the same events were appended since `(h0, h0')`" -/
structure HbSim (h0 h0' h h' : HB) : Prop where
  equiv : HbEquiv h h'
  events : ∃ evs, h.trace = h0.trace ++ evs ∧ h'.trace = h0'.trace ++ evs

theorem HbSim.start {h h' : HB} (e : HbEquiv h h') : HbSim h h' h h' :=
  ⟨e, [], (List.append_nil _).symm, (List.append_nil _).symm⟩

theorem HbSim.apply {h0 h0' h h' : HB} (s : HbSim h0 h0' h h') (l : Label) :
    HbSim h0 h0' (apply! h l) (apply! h' l) := by
  obtain ⟨e, evs, t1, t2⟩ := s
  rcases e.step l with ⟨n1, n2⟩ | ⟨g, g', s1, s2, eg, evs', u1, u2⟩
  · simp only [apply!, n1, n2, Option.getD_none]; exact ⟨e, evs, t1, t2⟩
  · simp only [apply!, s1, s2, Option.getD_some]
    exact ⟨eg, evs ++ evs', by rw [u1, t1, List.append_assoc], by rw [u2, t2, List.append_assoc]⟩

theorem HbSim.settle {h0 h0' : HB} (rt : Nat) (t : Nat) (incl : Bool) :
    ∀ (fuel : Nat) {h h' : HB}, HbSim h0 h0' h h' → HbSim h0 h0' (settle rt fuel h t incl) (settle rt fuel h' t incl) := by
  intro fuel
  induction fuel with
  | zero => intro h h' s; exact s
  | succ fuel ih =>
    intro h h' s
    -- the first action: consume a set event (nothing happens while idle, where the flags may differ)
    have s1 : HbSim h0 h0' (if h.flag then apply! h .tlWake else h) (if h'.flag then apply! h' .tlWake else h') := by
      by_cases hi : h.tl = .idle
      · have hi' : h'.tl = .idle := by rw [← s.equiv.tl]; exact hi
        have w : apply! h .tlWake = h := by simp [apply!, step, hi]
        have w' : apply! h' .tlWake = h' := by simp [apply!, step, hi']
        simp only [w, w', ite_self]; exact s
      · rw [← s.equiv.flag hi]
        split
        · exact s.apply _
        · exact s
    unfold PyAirtouch.Model.Heartbeat.settle
    simp only
    generalize (if h.flag then apply! h .tlWake else h) = k at s1
    generalize (if h'.flag then apply! h' .tlWake else h') = k' at s1
    have etl := s1.equiv.tl
    have ehl := s1.equiv.hl
    have era := s1.equiv.resetAt
    rw [← etl, ← ehl]
    cases htl : k.tl <;> cases hhl : k.hl <;> simp only
    all_goals (try (have := era htl; rw [← this]))
    all_goals (repeat' split)
    all_goals first
      | exact s1
      | (apply ih; rw [← etl, htl]; exact (s1.apply _).apply _)
      | (apply ih; exact (s1.apply _).apply _)
      | (exfalso
         have key : ∀ d, (apply! k (.advance d)).tl = (apply! k' (.advance d)).tl :=
           fun d => (s1.apply (.advance d)).equiv.tl
         simp_all; done)

theorem HbSim.feed {h h' : HB} (rt : Nat) (e : HbEquiv h h') (i : HIn) :
    HbSim h h' (feed rt h i) (feed rt h' i) := by
  unfold PyAirtouch.Model.Heartbeat.feed
  have s0 := HbSim.settle rt i.time false 100000 (HbSim.start e)
  have s1 := s0.apply (.advance i.time)
  cases i <;> simp only
  · exact s1.apply _
  · exact HbSim.settle rt _ true 8 (s1.apply _)
  · exact s1.apply _
  · exact (s1.apply _).apply _
  · exact s1.apply _
  · exact HbSim.settle rt _ true 100000 s1

/-- the form used by the AirTouch 5 API model: both traces start empty, so equivalent managers fed the same input
    produce the same trace and stay equivalent -/
theorem HbEquiv.feed_cleared {h h' : HB} (rt : Nat) (e : HbEquiv h h') (i : HIn) :
    HbEquiv (PyAirtouch.Model.Heartbeat.feed rt { h with trace := [], expiries := [] } i)
            (PyAirtouch.Model.Heartbeat.feed rt { h' with trace := [], expiries := [] } i) ∧
    (PyAirtouch.Model.Heartbeat.feed rt { h with trace := [], expiries := [] } i).trace =
      (PyAirtouch.Model.Heartbeat.feed rt { h' with trace := [], expiries := [] } i).trace := by
  have e' : HbEquiv { h with trace := [], expiries := [] } { h' with trace := [], expiries := [] } :=
    ⟨e.now, e.interval, e.timeout, e.tl, e.hl, e.connected, e.flag, e.resetAt⟩
  obtain ⟨g, evs, t1, t2⟩ := HbSim.feed rt e' i
  refine ⟨g, ?_⟩
  rw [t1, t2]

/-! ### the scheduler as a run of labels; the parameters never change -/

theorem apply_run (h : HB) (l : Label) : ∃ ls, run h ls = some (apply! h l) := by
  cases hs : step h l with
  | none => exact ⟨[], by simp [apply!, hs, run]⟩
  | some g => exact ⟨[l], by simp [apply!, hs, run]⟩

theorem run_trans {a b c : HB} {l1 l2 : List Label} (h1 : run a l1 = some b) (h2 : run b l2 = some c) :
    run a (l1 ++ l2) = some c := by
  rw [run_append, h1]; simpa using h2

theorem settle_run (rt t : Nat) (incl : Bool) : ∀ (fuel : Nat) (h : HB), ∃ ls, run h ls = some (settle rt fuel h t incl) := by
  intro fuel
  induction fuel with
  | zero => intro h; exact ⟨[], rfl⟩
  | succ fuel ih =>
    intro h
    have a0 : ∃ ls, run h ls = some (if h.flag then apply! h .tlWake else h) := by
      split
      · exact apply_run _ _
      · exact ⟨[], rfl⟩
    obtain ⟨l0, r0⟩ := a0
    unfold PyAirtouch.Model.Heartbeat.settle
    simp only
    generalize (if h.flag then apply! h .tlWake else h) = k at r0
    have two : ∀ (l1 l2 : Label), ∃ ls, run h ls = some (settle rt fuel (apply! (apply! k l1) l2) t incl) := by
      intro l1 l2
      obtain ⟨a, ha⟩ := apply_run k l1
      obtain ⟨b, hb⟩ := apply_run (apply! k l1) l2
      obtain ⟨c, hc⟩ := ih (apply! (apply! k l1) l2)
      exact ⟨_, run_trans (run_trans (run_trans r0 ha) hb) hc⟩
    repeat' split
    all_goals first
      | exact ⟨l0, r0⟩
      | exact two _ _

theorem feed_run (rt : Nat) (h : HB) (i : HIn) : ∃ ls, run h ls = some (feed rt h i) := by
  have pre : ∀ t, ∃ ls, run h ls = some (apply! (settle rt 100000 h t false) (.advance t)) := by
    intro t
    obtain ⟨l0, r0⟩ := settle_run rt t false 100000 h
    obtain ⟨l1, r1⟩ := apply_run (settle rt 100000 h t false) (.advance t)
    exact ⟨_, run_trans r0 r1⟩
  unfold PyAirtouch.Model.Heartbeat.feed
  cases i <;> simp only [HIn.time]
  all_goals (rename_i t; obtain ⟨l01, r01⟩ := pre t; revert r01)
  all_goals (generalize apply! (settle rt 100000 h t false) (.advance t) = k; intro r01)
  · obtain ⟨a, ha⟩ := apply_run k (.conn ‹Bool›); exact ⟨_, run_trans r01 ha⟩
  · obtain ⟨a, ha⟩ := apply_run k .start
    obtain ⟨b, hb⟩ := settle_run rt t true 8 (apply! k .start)
    exact ⟨_, run_trans (run_trans r01 ha) hb⟩
  · obtain ⟨a, ha⟩ := apply_run k .stop; exact ⟨_, run_trans r01 ha⟩
  · obtain ⟨a, ha⟩ := apply_run k .response
    obtain ⟨b, hb⟩ := apply_run (apply! k .response) .tlWake
    exact ⟨_, run_trans (run_trans r01 ha) hb⟩
  · obtain ⟨a, ha⟩ := apply_run k .tlResetDone; exact ⟨_, run_trans r01 ha⟩
  · obtain ⟨b, hb⟩ := settle_run rt t true 100000 k
    exact ⟨_, run_trans r01 hb⟩

theorem step_params {h g : HB} {l : Label} (hs : step h l = some g) : g.interval = h.interval ∧ g.timeout = h.timeout := by
  cases l <;> simp only [step, HB.emit, enterTimeout] at hs
  all_goals (repeat' split at hs)
  all_goals (first | cases hs | skip)
  all_goals exact ⟨rfl, rfl⟩

theorem run_params {h g : HB} {ls : List Label} (hr : run h ls = some g) : g.interval = h.interval ∧ g.timeout = h.timeout :=
  run_inv (P := fun x => x.interval = h.interval ∧ x.timeout = h.timeout)
    (fun _ _ _ hp hs => ⟨(step_params hs).1.trans hp.1, (step_params hs).2.trans hp.2⟩) ls h g ⟨rfl, rfl⟩ hr

theorem feed_params (rt : Nat) (h : HB) (i : HIn) :
    (feed rt h i).interval = h.interval ∧ (feed rt h i).timeout = h.timeout := by
  obtain ⟨ls, hr⟩ := feed_run rt h i
  exact run_params hr

/-! ### the embedded clock never runs ahead of the inputs -/

theorem step_now_le {h g : HB} {l : Label} {T : Nat} (hs : step h l = some g) (hn : h.now ≤ T)
    (hl : ∀ t, l = .advance t → t ≤ T) : g.now ≤ T := by
  cases l <;> simp only [step, HB.emit, enterTimeout] at hs
  all_goals (repeat' split at hs)
  all_goals (first | cases hs | skip)
  all_goals first
    | exact hn
    | exact hl _ rfl

theorem apply_now_le (h : HB) (l : Label) {T : Nat} (hn : h.now ≤ T) (hl : ∀ t, l = .advance t → t ≤ T) :
    (apply! h l).now ≤ T := by
  cases hs : step h l with
  | none => simpa [apply!, hs] using hn
  | some g => simpa [apply!, hs] using step_now_le hs hn hl

theorem settle_now_le (rt t : Nat) (incl : Bool) {T : Nat} (ht : t ≤ T) :
    ∀ (fuel : Nat) (h : HB), h.now ≤ T → (settle rt fuel h t incl).now ≤ T := by
  intro fuel
  induction fuel with
  | zero => intro h hn; exact hn
  | succ fuel ih =>
    intro h hn
    have h0 : (if h.flag then apply! h .tlWake else h).now ≤ T := by
      split
      · exact apply_now_le _ _ hn (fun _ e => by cases e)
      · exact hn
    unfold PyAirtouch.Model.Heartbeat.settle
    simp only
    generalize (if h.flag then apply! h .tlWake else h) = k at h0
    have two : ∀ (d : Nat) (l2 : Label), d ≤ T → (∀ t, l2 = .advance t → t ≤ T) →
        (settle rt fuel (apply! (apply! k (.advance d)) l2) t incl).now ≤ T := by
      intro d l2 hd hl2
      exact ih _ (apply_now_le _ _ (apply_now_le _ _ h0 (fun t' e => by cases e; exact hd)) hl2)
    repeat' split
    all_goals first
      | exact h0
      | (apply two _ _ _ (fun _ e => by cases e)
         simp_all
         omega)

theorem feed_now_le (rt : Nat) (h : HB) (i : HIn) {T : Nat} (hn : h.now ≤ T) (hi : i.time ≤ T) :
    (feed rt h i).now ≤ T := by
  have pre : (apply! (settle rt 100000 h i.time false) (.advance i.time)).now ≤ T :=
    apply_now_le _ _ (settle_now_le rt _ _ hi _ _ hn) (fun t e => by cases e; exact hi)
  unfold PyAirtouch.Model.Heartbeat.feed
  cases i <;> simp only [HIn.time] at pre hi ⊢
  · exact apply_now_le _ _ pre (fun _ e => by cases e)
  · exact settle_now_le rt _ _ hi _ _ (apply_now_le _ _ pre (fun _ e => by cases e))
  · exact apply_now_le _ _ pre (fun _ e => by cases e)
  · exact apply_now_le _ _ (apply_now_le _ _ pre (fun _ e => by cases e)) (fun _ e => by cases e)
  · exact apply_now_le _ _ pre (fun _ e => by cases e)
  · exact settle_now_le rt _ _ hi _ _ pre

end PyAirtouch.Lemmas.Heartbeat
