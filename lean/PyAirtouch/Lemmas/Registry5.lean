import PyAirtouch.Model.At5.Registry
import PyAirtouch.Lemmas.RegistryCommon
import PyAirtouch.Lemmas.Frame
import PyAirtouch.Lemmas.At5C020
import PyAirtouch.Lemmas.At5C021
import PyAirtouch.Lemmas.At5C022
import PyAirtouch.Lemmas.At5C023
import PyAirtouch.Lemmas.At5C032
import PyAirtouch.Lemmas.At5C033
import PyAirtouch.Lemmas.At5FF10
import PyAirtouch.Lemmas.At5FF11
import PyAirtouch.Lemmas.At5FF13
import PyAirtouch.Lemmas.At5FF30
import PyAirtouch.Lemmas.At5FF49
/-!
# AirTouch 5: registry, 0x1F and 0xC0 wrappers and whole-frame theorems

* `size_eq_length`      the length announced in the header is the number of payload bytes written
                        (`2 + size sub`, `8 + non_repeat + count * stride`)
* `controlStatus_layout` the 0xC0 sub-header written is `(sub id, non_repeat_size, repeat_size, repeat_count)`
* `decodeMsg_encodeMsg` the registry's decoder undoes the registry's encoder (wrappers included)
* `frame_roundtrip`     what `socket.send` writes, `_read_one_message` delivers, under the factory's header
* `frameOf_ok`          the send path does not raise on well-formed messages whose payload fits 16 bits
* `mkHeader_*`          addressing
* `decodeMsg_unknown*`  unknown type bytes / sub-ids / sub-types are preserved as `UnsupportedMessage` (C17)
* `wfMsgBool_iff`       the run-time well-formedness test is `WFMsg`
-/
namespace PyAirtouch.Lemmas.Registry5
open PyAirtouch.Model PyAirtouch.Model.At5 PyAirtouch.Model.At5.Registry PyAirtouch.Model.At5.Utils
open PyAirtouch.Lemmas.RegistryCommon
open PyAirtouch.Gen.At5

/-- a sub-header field that is a small constant once the definitions are unfolded -/
macro "small_const" : tactic =>
  `(tactic| first
    | exact (by decide : (0 : Nat) < 65536)
    | exact (by decide : (4 : Nat) < 65536)
    | exact (by decide : (8 : Nat) < 65536)
    | exact (by decide : (9 : Nat) < 65536)
    | exact (by decide : (10 : Nat) < 65536))

/-! ### leaf facts: length, round trip and byte range of what each registered encoder writes -/

/-- what the 0x1F wrapper needs to know about one leaf codec on one message -/
structure LeafOK {M : Type} (decode : Bytes → Nat → Except DecErr (M × Bytes)) (m : M) (size : Nat)
    (bs : Bytes) : Prop where
  len : bs.length = size
  dec : decode bs size = .ok (m, [])
  bytes : AllBytes bs

/-- what the 0xC0 wrapper needs to know about one leaf codec on one message -/
structure CsOK {M : Type} (decode : Bytes → Nat → Nat → Nat → Except DecErr (M × Bytes)) (m : M)
    (nr rl rc : Nat) (bs : Bytes) : Prop where
  len : bs.length = nr + rl * rc
  dec : decode bs nr rl rc = .ok (m, [])
  bytes : AllBytes bs
  nrLt : nr < 65536
  rlLt : rl < 65536

theorem packH_bytes {v : Int} {bs : Bytes} (h : packH v = .ok bs) : AllBytes bs := by
  unfold packH at h
  split at h
  · cases h; exact allBytes_be16Bytes _
  · cases h

/-! #### 0xC020 zone control -/

theorem c020_encRec_bytes (z : C020.ZoneControlData) (bs : Bytes) (h : C020.encRec z = .ok bs) :
    AllBytes bs := by
  simp only [C020.encRec, bind, Except.bind, pure, Except.pure] at h
  split at h
  · cases h
  · rename_i b1 h1
    split at h
    · cases h
    · rename_i b2 h2
      split at h
      · cases h
      · rename_i b3 h3
        cases h
        have := packB_length h1
        have := packB_length h2
        have := packB_length h3
        intro b hb
        simp only [List.mem_cons, List.not_mem_nil, or_false] at hb
        omega

theorem c020_encRecs_bytes (zs : List C020.ZoneControlData) (bs : Bytes) (h : C020.encRecs zs = .ok bs) :
    AllBytes bs := by
  induction zs generalizing bs with
  | nil => cases h; exact allBytes_nil
  | cons z zs ih =>
    simp only [C020.encRecs, bind, Except.bind, pure, Except.pure] at h
    split at h
    · cases h
    · rename_i b hb
      split at h
      · cases h
      · rename_i bs' hbs'
        cases h
        exact allBytes_append.mpr ⟨c020_encRec_bytes z b hb, ih bs' hbs'⟩

theorem c020_ok (m : C020.Msg) (hwf : C020.WF m) (bs : Bytes) (h : C020.encode m = .ok bs) :
    CsOK C020.decode m (C020.nonRepeatSize m) (C020.repeatSize m) (C020.repeatCount m) bs := by
  obtain ⟨bs', h1, h2⟩ := At5C020.decode_encode m hwf []
  have hb : bs' = bs := except_ok_inj (h1.symm.trans h)
  subst hb
  exact ⟨At5C020.encode_length m bs' h, by rwa [List.append_nil] at h2, c020_encRecs_bytes _ _ h,
    by small_const, by small_const⟩

/-! #### 0xC021 zone status -/

theorem zps_lt (p : XC021ZoneStatus.ZonePowerState) : p.toNat < 4 := by cases p <;> decide
theorem zcm_lt (p : XC021ZoneStatus.ZoneControlMethod) : p.toNat < 2 := by cases p <;> decide
theorem zbat_lt (p : XC021ZoneStatus.SensorBatteryStatus) : p.toNat < 2 := by cases p <;> decide

theorem c021_encRec_bytes (z : C021.ZoneStatusData) (bs : Bytes) (h : C021.encRec z = .ok bs) :
    AllBytes bs := by
  simp only [C021.encRec, bind, Except.bind, pure, Except.pure] at h
  split at h
  · cases h
  · rename_i b3 h3
    cases h
    have := packB_length h3
    have := zps_lt z.power_state
    have := zcm_lt z.control_method
    have := zbat_lt z.battery_status
    have := boolToBit_le z.has_sensor 7
    have := boolToBit_le z.spill_active 1
    refine allBytes_append.mpr ⟨allBytes_append.mpr ⟨?_, allBytes_be16Bytes _⟩, ?_⟩ <;>
    · intro b hb
      simp only [List.mem_cons, List.not_mem_nil, or_false] at hb
      omega

theorem c021_encRecs_bytes (zs : List C021.ZoneStatusData) (bs : Bytes) (h : C021.encRecs zs = .ok bs) :
    AllBytes bs := by
  induction zs generalizing bs with
  | nil => cases h; exact allBytes_nil
  | cons z zs ih =>
    simp only [C021.encRecs, bind, Except.bind, pure, Except.pure] at h
    split at h
    · cases h
    · rename_i b hb
      split at h
      · cases h
      · rename_i bs' hbs'
        cases h
        exact allBytes_append.mpr ⟨c021_encRec_bytes z b hb, ih bs' hbs'⟩

theorem c021_ok (m : C021.Msg) (hwf : C021.WF m) (bs : Bytes) (h : C021.encode m = .ok bs) :
    CsOK C021.decode m (C021.nonRepeatSize m) (C021.repeatSize m) (C021.repeatCount m) bs := by
  obtain ⟨bs', h1, h2⟩ := At5C021.decode_encode m hwf []
  have hb : bs' = bs := except_ok_inj (h1.symm.trans h)
  subst hb
  refine ⟨At5C021.encode_length m bs' h, by rwa [List.append_nil] at h2, ?_, by small_const, ?_⟩
  · cases m with
    | request => cases h; exact allBytes_nil
    | status zs => exact c021_encRecs_bytes zs bs' h
  · cases m <;> small_const

/-! #### 0xC022 AC control -/

theorem c022_encSetPoint_fst (sp : Option Int) : (C022.encSetPoint sp).1 ≤ 64 := by
  unfold C022.encSetPoint
  split
  · decide
  · split
    · exact (by decide : (0 : Nat) ≤ 64)
    · exact (by decide : (64 : Nat) ≤ 64)

theorem c022_encRec_bytes (c : C022.AcControlData) (bs : Bytes) (h : C022.encRec c = .ok bs) :
    AllBytes bs := by
  simp only [C022.encRec, bind, Except.bind, pure, Except.pure] at h
  split at h
  · cases h
  · rename_i b4 h4
    cases h
    have := packB_length h4
    have := c022_encSetPoint_fst c.set_point
    intro b hb
    simp only [List.mem_cons, List.not_mem_nil, or_false] at hb
    omega

theorem c022_encRecs_bytes (cs : List C022.AcControlData) (bs : Bytes) (h : C022.encRecs cs = .ok bs) :
    AllBytes bs := by
  induction cs generalizing bs with
  | nil => cases h; exact allBytes_nil
  | cons c cs ih =>
    simp only [C022.encRecs, bind, Except.bind, pure, Except.pure] at h
    split at h
    · cases h
    · rename_i b hb
      split at h
      · cases h
      · rename_i bs' hbs'
        cases h
        exact allBytes_append.mpr ⟨c022_encRec_bytes c b hb, ih bs' hbs'⟩

theorem c022_ok (m : C022.Msg) (hwf : C022.WF m) (bs : Bytes) (h : C022.encode m = .ok bs) :
    CsOK C022.decode m (C022.nonRepeatSize m) (C022.repeatSize m) (C022.repeatCount m) bs := by
  obtain ⟨bs', h1, h2⟩ := At5C022.decode_encode m hwf []
  have hb : bs' = bs := except_ok_inj (h1.symm.trans h)
  subst hb
  exact ⟨At5C022.encode_length m bs' h, by rwa [List.append_nil] at h2, c022_encRecs_bytes _ _ h,
    by small_const, by small_const⟩

/-! #### 0xC023 AC status -/

theorem c023_encRec_bytes (a : C023.AcStatusData) (bs : Bytes) (h : C023.encRec a = .ok bs) :
    AllBytes bs := by
  simp only [C023.encRec, bind, Except.bind, pure, Except.pure] at h
  split at h
  · cases h
  · rename_i b3 h3
    split at h
    · cases h
    · rename_i err herr
      cases h
      have := packB_length h3
      have := boolToBit_le a.turbo_active 3
      have := boolToBit_le a.bypass_active 2
      have := boolToBit_le a.spill_active 1
      have := boolToBit_le a.timer_set 0
      refine allBytes_append.mpr ⟨allBytes_append.mpr ⟨allBytes_append.mpr ⟨?_, allBytes_be16Bytes _⟩,
        packH_bytes herr⟩, ?_⟩
      · intro b hb
        simp only [List.mem_cons, List.not_mem_nil, or_false, XC023AcStatus.BYTE4_UNUSED_BITS] at hb
        omega
      · intro b hb
        simp only [XC023AcStatus.PADDING_BYTES, List.mem_cons, List.not_mem_nil, or_false] at hb
        omega

theorem c023_encRecs_bytes (acs : List C023.AcStatusData) (bs : Bytes) (h : C023.encRecs acs = .ok bs) :
    AllBytes bs := by
  induction acs generalizing bs with
  | nil => cases h; exact allBytes_nil
  | cons a acs ih =>
    simp only [C023.encRecs, bind, Except.bind, pure, Except.pure] at h
    split at h
    · cases h
    · rename_i b hb
      split at h
      · cases h
      · rename_i bs' hbs'
        cases h
        exact allBytes_append.mpr ⟨c023_encRec_bytes a b hb, ih bs' hbs'⟩

theorem c023_ok (m : C023.Msg) (hwf : C023.WF m) (bs : Bytes) (h : C023.encode m = .ok bs) :
    CsOK C023.decode m (C023.nonRepeatSize m) (C023.repeatSize m) (C023.repeatCount m) bs := by
  obtain ⟨bs', h1, h2⟩ := At5C023.decode_encode m hwf []
  have hb : bs' = bs := except_ok_inj (h1.symm.trans h)
  subst hb
  refine ⟨At5C023.encode_length m bs' h, by rwa [List.append_nil] at h2, ?_, by small_const, ?_⟩
  · cases m with
    | request => cases h; exact allBytes_nil
    | status acs => exact c023_encRecs_bytes acs bs' h
  · cases m <;> small_const

/-! #### 0xC033 / 0xC032 AC timers -/

theorem c033_encodeBytes_bytes (m : C033.Msg) (hwf : C033.WF m) : AllBytes (C033.encodeBytes m) := by
  cases m with
  | request => exact allBytes_nil
  | status l =>
    refine allBytes_flatMap _ _ (fun d hd => ?_)
    have hac : d.ac_number < 256 := (hwf d hd).1
    have z : AllBytes XC033AcTimerStatus.PADDING_BYTES := by
      intro b hb
      simp only [XC033AcTimerStatus.PADDING_BYTES, List.mem_cons, List.not_mem_nil, or_false] at hb
      omega
    exact allBytes_cons.mpr ⟨hac, allBytes_append.mpr ⟨allBytes_append.mpr
      ⟨allBytes_encTimerState _, allBytes_encTimerState _⟩, z⟩⟩

theorem c033_ok (m : C033.Msg) (hwf : C033.WF m) (bs : Bytes) (h : C033.encode m = .ok bs) :
    CsOK C033.decode m (C033.nonRepeatSize m) (C033.repeatSize m) (C033.repeatCount m) bs := by
  have hb : bs = C033.encodeBytes m := At5C033.encode_eq m bs h
  subst hb
  refine ⟨At5C033.encodeBytes_length m, ?_, c033_encodeBytes_bytes m hwf, by small_const, ?_⟩
  · have := At5C033.decode_encode m hwf []
    rwa [List.append_nil] at this
  · cases m <;> small_const

theorem c032_ok (m : C032.Msg) (hwf : C032.WF m) (bs : Bytes) (h : C032.encode m = .ok bs) :
    CsOK C032.decode m (C032.nonRepeatSize m) (C032.repeatSize m) (C032.repeatCount m) bs := by
  have hb : bs = C032.encodeBytes m := At5C033.encode_eq m.toStatus bs h
  subst hb
  refine ⟨At5C032.encodeBytes_length m, ?_, c033_encodeBytes_bytes m.toStatus hwf, by small_const, by small_const⟩
  have := At5C032.decode_encode m hwf []
  rwa [List.append_nil] at this

/-! #### the extended sub-messages -/

theorem ff10_ok (m : FF10.Msg) (hwf : FF10.WF m) (ht : ∀ t ∈ (ExtSub.errInfo m).texts, AllBytes t)
    (bs : Bytes) (h : FF10.encodeE m = .ok bs) : LeafOK FF10.decode m (FF10.size m) bs := by
  have hb : bs = FF10.encode m := (except_ok_inj ((At5FF10.encodeE_ok m hwf).symm.trans h)).symm
  subst hb
  refine ⟨At5FF10.encode_length m, ?_, ?_⟩
  · have := At5FF10.decode_encode m hwf []
    rwa [List.append_nil] at this
  · cases m with
    | request r =>
      intro b hb
      simp only [FF10.encode, List.mem_cons, List.not_mem_nil, or_false] at hb
      omega
    | message mm =>
      obtain ⟨-, hs⟩ := hwf
      rcases mm with ⟨ac, e⟩
      cases e with
      | none =>
        intro b hb
        simp only [FF10.encode, FF10.errText, Option.getD_none, List.length_nil, List.append_nil,
          List.mem_cons, List.not_mem_nil, or_false] at hb
        omega
      | some t =>
        obtain ⟨-, hl, -⟩ := hs t rfl
        have hbt : AllBytes t := ht t (by simp [ExtSub.texts])
        simp only [FF10.encode, FF10.errText, Option.getD_some]
        refine allBytes_append.mpr ⟨?_, hbt⟩
        intro b hb
        simp only [List.mem_cons, List.not_mem_nil, or_false] at hb
        omega

theorem ff11_ok (m : FF11.Msg) (hwf : FF11.WF m) (bs : Bytes) (h : FF11.encodeE m = .ok bs) :
    LeafOK FF11.decode m (FF11.size m) bs := by
  have hb : bs = FF11.encode m := (except_ok_inj ((At5FF11.encodeE_ok m hwf).symm.trans h)).symm
  subst hb
  refine ⟨At5FF11.encode_length m, ?_, At5FF11.encode_allBytes m hwf⟩
  have := At5FF11.decode_encode m hwf []
  rwa [List.append_nil] at this

theorem ff13_ok (m : FF13.Msg) (hwf : FF13.WF m) (ht : ∀ t ∈ (ExtSub.zoneNames m).texts, AllBytes t)
    (bs : Bytes) (h : FF13.encodeE m = .ok bs) : LeafOK FF13.decode m (FF13.size m) bs := by
  have hb : bs = FF13.encode m := (except_ok_inj ((At5FF13.encodeE_ok m hwf).symm.trans h)).symm
  subst hb
  refine ⟨At5FF13.encode_length m, ?_, ?_⟩
  · have := At5FF13.decode_encode m hwf []
    rwa [List.append_nil] at this
  · cases m with
    | request r =>
      rcases r with ⟨g⟩
      cases g with
      | none => exact allBytes_nil
      | some n =>
        have hn : n < 256 := hwf n rfl
        intro b hb
        simp only [FF13.encode, List.mem_cons, List.not_mem_nil, or_false] at hb
        omega
    | message mm =>
      obtain ⟨-, -, hp⟩ := hwf
      refine allBytes_flatMap _ _ (fun p hpm => ?_)
      have hbt : AllBytes p.2 := ht p.2 (by simp only [ExtSub.texts]; exact List.mem_map.mpr ⟨p, hpm, rfl⟩)
      obtain ⟨h1, h2, -⟩ := hp p hpm
      exact allBytes_cons.mpr ⟨h1, allBytes_cons.mpr ⟨by omega, hbt⟩⟩

theorem ff49_ok (m : FF49.Msg) (hwf : FF49.WF m) (bs : Bytes) (h : FF49.encode m = .ok bs) :
    LeafOK FF49.decode m (FF49.size m) bs := by
  have hb : bs = FF49.encodeBytes m := (except_ok_inj ((At5FF49.encode_ok m hwf).symm.trans h)).symm
  subst hb
  refine ⟨At5FF49.encodeBytes_length m, ?_, ?_⟩
  · have := At5FF49.decode_encode m hwf []
    rwa [List.append_nil] at this
  · have hac : m.ac_number < 256 := hwf.1
    intro b hb
    simp only [FF49.encodeBytes, TimerCommon.QuickTimer.encodeBytes, TimerCommon.QuickTimer.encodeDuration,
      List.mem_cons, List.not_mem_nil, or_false] at hb
    omega

theorem ff30_ok (m : FF30.Msg) (hwf : FF30.WF m) (ht : ∀ t ∈ (ExtSub.consoleVer m).texts, AllBytes t)
    (bs : Bytes) (h : FF30.encodeE m = .ok bs) : LeafOK FF30.decode m (FF30.size m) bs := by
  have hb : bs = FF30.encode m := (except_ok_inj ((At5FF30.encodeE_ok m hwf).symm.trans h)).symm
  subst hb
  refine ⟨At5FF30.encode_length m, ?_, ?_⟩
  · have := At5FF30.decode_encode m hwf []
    rwa [List.append_nil] at this
  · cases m with
    | request => exact allBytes_nil
    | message mm =>
      obtain ⟨-, -, hl⟩ := hwf
      have hj : AllBytes (FF30.joined mm) :=
        allBytes_joinSep _ (by decide) _ (fun v hv => ht v (by simpa [ExtSub.texts] using hv))
      simp only [FF30.encode]
      refine allBytes_append.mpr ⟨?_, hj⟩
      intro b hb
      simp only [List.mem_cons, List.not_mem_nil, or_false] at hb
      rcases hb with rfl | rfl
      · split <;> omega
      · omega

/-! ### the 0x1F wrapper -/

theorem mapMsg_ok {M N : Type} (f : M → N) {r : Except DecErr (M × Bytes)} {m : M} {rest : Bytes}
    (h : r = .ok (m, rest)) : mapMsg f r = .ok (f m, rest) := by
  subst h; rfl

theorem mapMsg_ok_inv {M N : Type} (f : M → N) {r : Except DecErr (M × Bytes)} {n : N} {rest : Bytes}
    (h : mapMsg f r = .ok (n, rest)) : ∃ m, r = .ok (m, rest) ∧ n = f m := by
  cases r with
  | error e => cases h
  | ok v =>
    obtain ⟨m, r'⟩ := v
    simp only [mapMsg, Except.ok.injEq, Prod.mk.injEq] at h
    exact ⟨m, by rw [h.2], h.1.symm⟩

/-- the extended sub-message layer: the size handed to the wrapper is the number of bytes the sub-encoder
    writes, the sub-decoder selected by the sub-id undoes it, and only bytes are written -/
theorem ext_ok (s : ExtSub) (hwf : WFSub s) (body : Bytes) (h : ExtSub.encode s = .ok body) :
    ExtSub.size s = .ok body.length ∧ decodeSub s.messageId body.length body = .ok (s, []) ∧
    AllBytes body ∧ s.messageId < 65536 := by
  cases s with
  | errInfo m =>
    have L := ff10_ok m hwf.1 hwf.2 body h
    refine ⟨by rw [L.len]; rfl, ?_, L.bytes, by simp only [ExtSub.messageId]; decide⟩
    rw [L.len]
    simp only [decodeSub, ExtSub.messageId, ↓reduceIte]
    exact mapMsg_ok _ L.dec
  | acAbility m =>
    have L := ff11_ok m hwf.1 body h
    refine ⟨by rw [L.len]; rfl, ?_, L.bytes, by simp only [ExtSub.messageId]; decide⟩
    rw [L.len]
    simp only [decodeSub, ExtSub.messageId, X1FFF10ErrInfo.MESSAGE_ID, X1FFF11AcAbility.MESSAGE_ID,
      Nat.reduceEqDiff, ↓reduceIte]
    exact mapMsg_ok _ L.dec
  | zoneNames m =>
    have L := ff13_ok m hwf.1 hwf.2 body h
    refine ⟨by rw [L.len]; rfl, ?_, L.bytes, by simp only [ExtSub.messageId]; decide⟩
    rw [L.len]
    simp only [decodeSub, ExtSub.messageId, X1FFF10ErrInfo.MESSAGE_ID, X1FFF11AcAbility.MESSAGE_ID,
      X1FFF13ZoneNames.MESSAGE_ID, Nat.reduceEqDiff, ↓reduceIte]
    exact mapMsg_ok _ L.dec
  | consoleVer m =>
    have L := ff30_ok m hwf.1 hwf.2 body h
    refine ⟨by rw [L.len]; rfl, ?_, L.bytes, by simp only [ExtSub.messageId]; decide⟩
    rw [L.len]
    simp only [decodeSub, ExtSub.messageId, X1FFF10ErrInfo.MESSAGE_ID, X1FFF11AcAbility.MESSAGE_ID,
      X1FFF13ZoneNames.MESSAGE_ID, X1FFF30ConsoleVer.MESSAGE_ID, Nat.reduceEqDiff, ↓reduceIte]
    exact mapMsg_ok _ L.dec
  | quickTimer m =>
    have L := ff49_ok m hwf.1 body h
    refine ⟨by rw [L.len]; rfl, ?_, L.bytes, by simp only [ExtSub.messageId]; decide⟩
    rw [L.len]
    simp only [decodeSub, ExtSub.messageId, X1FFF10ErrInfo.MESSAGE_ID, X1FFF11AcAbility.MESSAGE_ID,
      X1FFF13ZoneNames.MESSAGE_ID, X1FFF30ConsoleVer.MESSAGE_ID, X1FFF49QuickTimer.MESSAGE_ID,
      Nat.reduceEqDiff, ↓reduceIte]
    exact mapMsg_ok _ L.dec
  | unsupported id raw => exact hwf.1.elim

/-- what `ExtendedMessageEncoder.encode` writes: the big-endian sub-id, then the sub-message -/
theorem encodeExt_inv (s : ExtSub) (bs : Bytes) (h : encodeExt s = .ok bs) :
    ∃ n body, ExtSub.size s = .ok n ∧ ExtSub.encode s = .ok body ∧ bs = be16Bytes s.messageId ++ body := by
  unfold encodeExt at h
  cases hs : ExtSub.size s with
  | error e => simp [hs, bind, Except.bind] at h
  | ok n =>
    cases he : ExtSub.encode s with
    | error e => simp [hs, he, bind, Except.bind] at h
    | ok body =>
      simp only [hs, he, bind, Except.bind, pure, Except.pure, Except.ok.injEq] at h
      exact ⟨n, body, rfl, rfl, h.symm⟩

/-! ### the 0xC0 wrapper -/

/-- the control/status sub-message layer: the three lengths the wrapper writes into the sub-header are the
    leaf's `(non_repeat_size, repeat_size, repeat_count)`, they describe the bytes the sub-encoder writes, the
    sub-decoder selected by the sub-type undoes it under exactly these header values -/
theorem cs_ok (s : CsSub) (hwf : WFCs s) (body : Bytes) (h : CsSub.encode s = .ok body) :
    ∃ nr rl rc, CsSub.dims s = .ok (nr, rl, rc) ∧ body.length = nr + rl * rc ∧
      decodeCsSub s.messageId nr rl rc body = .ok (s, []) ∧ AllBytes body ∧
      s.messageId < 256 ∧ nr < 65536 ∧ rl < 65536 ∧ rc < 65536 := by
  obtain ⟨hw, hc⟩ := hwf
  cases s with
  | zoneCtrl m =>
    have L := c020_ok m hw body h
    refine ⟨_, _, _, rfl, L.len, ?_, L.bytes, by simp only [CsSub.messageId]; decide, L.nrLt, L.rlLt, hc⟩
    simp only [decodeCsSub, CsSub.messageId, ↓reduceIte]
    exact mapMsg_ok _ L.dec
  | zoneStatus m =>
    have L := c021_ok m hw body h
    refine ⟨_, _, _, rfl, L.len, ?_, L.bytes, by simp only [CsSub.messageId]; decide, L.nrLt, L.rlLt, hc⟩
    simp only [decodeCsSub, CsSub.messageId, XC020ZoneCtrl.MESSAGE_ID, XC021ZoneStatus.MESSAGE_ID,
      Nat.reduceEqDiff, ↓reduceIte]
    exact mapMsg_ok _ L.dec
  | acCtrl m =>
    have L := c022_ok m hw body h
    refine ⟨_, _, _, rfl, L.len, ?_, L.bytes, by simp only [CsSub.messageId]; decide, L.nrLt, L.rlLt, hc⟩
    simp only [decodeCsSub, CsSub.messageId, XC020ZoneCtrl.MESSAGE_ID, XC021ZoneStatus.MESSAGE_ID,
      XC022AcCtrl.MESSAGE_ID, Nat.reduceEqDiff, ↓reduceIte]
    exact mapMsg_ok _ L.dec
  | acStatus m =>
    have L := c023_ok m hw body h
    refine ⟨_, _, _, rfl, L.len, ?_, L.bytes, by simp only [CsSub.messageId]; decide, L.nrLt, L.rlLt, hc⟩
    simp only [decodeCsSub, CsSub.messageId, XC020ZoneCtrl.MESSAGE_ID, XC021ZoneStatus.MESSAGE_ID,
      XC022AcCtrl.MESSAGE_ID, XC023AcStatus.MESSAGE_ID, Nat.reduceEqDiff, ↓reduceIte]
    exact mapMsg_ok _ L.dec
  | acTimerCtrl m =>
    have L := c032_ok m hw body h
    refine ⟨_, _, _, rfl, L.len, ?_, L.bytes, by simp only [CsSub.messageId]; decide, L.nrLt, L.rlLt, hc⟩
    simp only [decodeCsSub, CsSub.messageId, XC020ZoneCtrl.MESSAGE_ID, XC021ZoneStatus.MESSAGE_ID,
      XC022AcCtrl.MESSAGE_ID, XC023AcStatus.MESSAGE_ID, XC032AcTimerCtrl.MESSAGE_ID, Nat.reduceEqDiff,
      ↓reduceIte]
    exact mapMsg_ok _ L.dec
  | acTimerStatus m =>
    have L := c033_ok m hw body h
    refine ⟨_, _, _, rfl, L.len, ?_, L.bytes, by simp only [CsSub.messageId]; decide, L.nrLt, L.rlLt, hc⟩
    simp only [decodeCsSub, CsSub.messageId, XC020ZoneCtrl.MESSAGE_ID, XC021ZoneStatus.MESSAGE_ID,
      XC022AcCtrl.MESSAGE_ID, XC023AcStatus.MESSAGE_ID, XC032AcTimerCtrl.MESSAGE_ID,
      XC033AcTimerStatus.MESSAGE_ID, Nat.reduceEqDiff, ↓reduceIte]
    exact mapMsg_ok _ L.dec
  | unsupported id raw => exact hw.elim

/-- what `ControlStatusEncoder.encode` writes: the eight sub-header bytes carrying the sub-type and the
    leaf's three lengths, then the sub-message -/
theorem encodeCs_inv (s : CsSub) (bs : Bytes) (h : encodeCs s = .ok bs) :
    ∃ nr rl rc body, CsSub.dims s = .ok (nr, rl, rc) ∧ CsSub.encode s = .ok body ∧
      bs = csSubHeaderBytes s.messageId nr rl rc ++ body := by
  unfold encodeCs at h
  cases hd : CsSub.dims s with
  | error e => simp [hd, bind, Except.bind] at h
  | ok d =>
    obtain ⟨nr, rl, rc⟩ := d
    simp only [hd, bind, Except.bind] at h
    split at h
    · cases he : CsSub.encode s with
      | error e => simp [he] at h
      | ok body =>
        simp only [he, pure, Except.pure, Except.ok.injEq] at h
        exact ⟨nr, rl, rc, body, rfl, rfl, h.symm⟩
    · cases h

/-! ### the registry: size, round trip, byte range -/

theorem decodeMsg_leaf (t f pid id len : Nat) (bs : Bytes) :
    decodeMsg ⟨t, f, pid, id, len⟩ bs =
      if id = X1FExt.MESSAGE_ID then decodeExt ⟨t, f, pid, id, len⟩ bs
      else if id = XC0CtrlStatus.MESSAGE_ID then decodeCs bs
      else .ok (.unsupported id (bs.take len), bs.drop len) := rfl

theorem csSubHeaderBytes_length (i nr rl rc : Nat) : (csSubHeaderBytes i nr rl rc).length = 8 := rfl

theorem allBytes_csSubHeaderBytes (i nr rl rc : Nat) (hi : i < 256) : AllBytes (csSubHeaderBytes i nr rl rc) := by
  unfold csSubHeaderBytes
  refine allBytes_append.mpr ⟨allBytes_append.mpr ⟨allBytes_append.mpr ⟨?_, allBytes_be16Bytes _⟩,
    allBytes_be16Bytes _⟩, allBytes_be16Bytes _⟩
  intro b hb
  simp only [List.mem_cons, List.not_mem_nil, or_false] at hb
  omega

theorem decodeCs_header (i nr rl rc : Nat) (body : Bytes) (hnr : nr < 65536) (hrl : rl < 65536)
    (hrc : rc < 65536) :
    decodeCs (csSubHeaderBytes i nr rl rc ++ body) = mapMsg .controlStatus (decodeCsSub i nr rl rc body) := by
  simp only [csSubHeaderBytes, be16Bytes, List.cons_append, List.nil_append, decodeCs,
    be16_be16Bytes _ hnr, be16_be16Bytes _ hrl, be16_be16Bytes _ hrc]

theorem msg_ok (m : Msg) (hwf : WFMsg m) (bs : Bytes) (h : encodeMsg m = .ok bs) :
    sizeMsg m = .ok bs.length ∧
    (∀ t f pid, decodeMsg ⟨t, f, pid, m.messageId, bs.length⟩ bs = .ok (m, [])) ∧ AllBytes bs := by
  cases m with
  | extended s =>
    obtain ⟨n, body, -, henc, rfl⟩ := encodeExt_inv s bs h
    obtain ⟨hsz, hdec, hb, hid⟩ := ext_ok s hwf body henc
    have hlen : (be16Bytes s.messageId ++ body).length = 2 + body.length := by
      simp only [be16Bytes, List.length_append, List.length_cons, List.length_nil]
    refine ⟨?_, ?_, allBytes_append.mpr ⟨allBytes_be16Bytes _, hb⟩⟩
    · rw [hlen]
      simp only [sizeMsg, hsz, Except.map, subHeaderSize, X1FExt.SUB_HEADER_STRUCT_size]
    · intro t f pid
      rw [hlen, decodeMsg_leaf]
      simp only [Msg.messageId, ↓reduceIte, decodeExt, be16Bytes, List.cons_append, List.nil_append,
        subHeaderSize, X1FExt.SUB_HEADER_STRUCT_size, Nat.add_sub_cancel_left, be16_be16Bytes _ hid]
      exact mapMsg_ok _ hdec
  | controlStatus s =>
    obtain ⟨nr, rl, rc, body, hd, henc, rfl⟩ := encodeCs_inv s bs h
    obtain ⟨nr', rl', rc', hd', hlen, hdec, hb, hid, hnr, hrl, hrc⟩ := cs_ok s hwf body henc
    have e := except_ok_inj (hd.symm.trans hd')
    simp only [Prod.mk.injEq] at e
    obtain ⟨rfl, rfl, rfl⟩ := e
    refine ⟨?_, ?_, allBytes_append.mpr ⟨allBytes_csSubHeaderBytes _ _ _ _ hid, hb⟩⟩
    · simp only [sizeMsg, hd, Except.map, csHeaderSize, XC0CtrlStatus.SUB_HEADER_STRUCT_size,
        List.length_append, csSubHeaderBytes_length, hlen, Nat.mul_comm rc rl, Nat.add_assoc]
    · intro t f pid
      rw [decodeMsg_leaf]
      simp only [Msg.messageId, X1FExt.MESSAGE_ID, XC0CtrlStatus.MESSAGE_ID, Nat.reduceEqDiff, ↓reduceIte]
      rw [decodeCs_header _ _ _ _ _ hnr hrl hrc]
      exact mapMsg_ok _ hdec
  | unsupported id raw => exact hwf.elim

/-- the length computed in advance for the header (`encoder.size(message)`, nested sub-message included:
    `2 + size sub`, `8 + non_repeat + count * stride`) is the number of payload bytes the encoder writes -/
theorem size_eq_length (m : Msg) (bs : Bytes) (hwf : WFMsg m) (h : encodeMsg m = .ok bs) :
    sizeMsg m = .ok bs.length := (msg_ok m hwf bs h).1

/-- the registry's decoder, called with the header the factory builds, undoes the registry's encoder -/
theorem decodeMsg_encodeMsg (m : Msg) (bs : Bytes) (pid : Nat) (hwf : WFMsg m) (h : encodeMsg m = .ok bs) :
    decodeMsg (mkHeader pid m bs.length) bs = .ok (m, []) := (msg_ok m hwf bs h).2.1 _ _ _

theorem encodeMsg_bytes (m : Msg) (bs : Bytes) (hwf : WFMsg m) (h : encodeMsg m = .ok bs) : AllBytes bs :=
  (msg_ok m hwf bs h).2.2

/-- the extended wrapper's size is `2 + ` the sub-message's size, and what it writes starts with the
    big-endian sub-message id -/
theorem extended_layout (s : ExtSub) (bs : Bytes) (hwf : WFSub s) (h : encodeMsg (.extended s) = .ok bs) :
    ∃ body, ExtSub.encode s = .ok body ∧ ExtSub.size s = .ok body.length ∧
      sizeMsg (.extended s) = .ok (2 + body.length) ∧ bs = be16Bytes s.messageId ++ body := by
  obtain ⟨n, body, -, henc, rfl⟩ := encodeExt_inv s bs h
  obtain ⟨hsz, -, -, -⟩ := ext_ok s hwf body henc
  refine ⟨body, henc, hsz, ?_, rfl⟩
  simp only [sizeMsg, hsz, Except.map, subHeaderSize, X1FExt.SUB_HEADER_STRUCT_size]

/-- the 0xC0 wrapper: the eight sub-header bytes are `sub id, 0, non_repeat_size, repeat_size, repeat_count`
    (big-endian 16-bit fields) of the leaf, the leaf writes `non_repeat_size + repeat_size * repeat_count`
    bytes behind them, and the size announced in the frame header is `8 +` that -/
theorem controlStatus_layout (s : CsSub) (bs : Bytes) (hwf : WFCs s) (h : encodeMsg (.controlStatus s) = .ok bs) :
    ∃ nr rl rc body, CsSub.dims s = .ok (nr, rl, rc) ∧ CsSub.encode s = .ok body ∧
      body.length = nr + rl * rc ∧
      bs = [s.messageId, 0] ++ be16Bytes nr ++ be16Bytes rl ++ be16Bytes rc ++ body ∧
      sizeMsg (.controlStatus s) = .ok (8 + nr + rc * rl) ∧ bs.length = 8 + nr + rc * rl := by
  obtain ⟨nr, rl, rc, body, hd, henc, rfl⟩ := encodeCs_inv s bs h
  obtain ⟨nr', rl', rc', hd', hlen, -, -, -, -, -, -⟩ := cs_ok s hwf body henc
  have e := except_ok_inj (hd.symm.trans hd')
  simp only [Prod.mk.injEq] at e
  obtain ⟨rfl, rfl, rfl⟩ := e
  refine ⟨nr, rl, rc, body, hd, henc, hlen, rfl, ?_, ?_⟩
  · simp only [sizeMsg, hd, Except.map, csHeaderSize, XC0CtrlStatus.SUB_HEADER_STRUCT_size]
  · simp only [List.length_append, csSubHeaderBytes_length, hlen, Nat.mul_comm rc rl, Nat.add_assoc]

/-! ### whole frames -/

theorem writeFrame_inv (h : Hdr) (m : Msg) (fr : Bytes) (hfr : writeFrame h m = .ok fr) :
    ∃ hb ck payload, At5.Hdr.encode h = .ok (hb, ck) ∧ encodeMsg m = .ok payload ∧
      Frame.frame hb ck payload = some fr := by
  unfold writeFrame at hfr
  cases he : At5.Hdr.encode h with
  | error e => simp [he, bind, Except.bind] at hfr
  | ok v =>
    obtain ⟨hb, ck⟩ := v
    cases hm : encodeMsg m with
    | error e => simp [he, hm, bind, Except.bind] at hfr
    | ok payload =>
      cases hf : Frame.frame hb ck payload with
      | none => simp [he, hm, hf, bind, Except.bind] at hfr
      | some fr' =>
        simp only [he, hm, hf, bind, Except.bind, pure, Except.pure, Except.ok.injEq] at hfr
        exact ⟨hb, ck, payload, rfl, rfl, by rw [← hfr]; exact hf⟩

theorem frameOf_inv (pid : Nat) (m : Msg) (fr : Bytes) (hfr : frameOf pid m = .ok fr) :
    ∃ n hb ck payload, sizeMsg m = .ok n ∧ At5.Hdr.encode (mkHeader pid m n) = .ok (hb, ck) ∧
      encodeMsg m = .ok payload ∧ Frame.frame hb ck payload = some fr := by
  unfold frameOf at hfr
  cases hs : sizeMsg m with
  | error e => simp [hs, bind, Except.bind] at hfr
  | ok n =>
    simp only [hs, bind, Except.bind] at hfr
    obtain ⟨hb, ck, payload, h1, h2, h3⟩ := writeFrame_inv _ m fr hfr
    exact ⟨n, hb, ck, payload, rfl, h1, h2, h3⟩

/-- **whole-frame round trip**: the bytes `socket.send(m)` hands to the stream writer (size → header factory
    with packet id `pid` → header encoder → message encoder → CRC) are parsed by `_read_one_message` into the
    factory's header and the message `m`, and whatever follows the frame is left untouched.
    (`pid < 256` and "the payload fits the length fields" follow from `frameOf pid m = .ok fr`.) -/
theorem frame_roundtrip (m : Msg) (pid : Nat) (fr rest : Bytes) (hwf : WFMsg m)
    (hfr : frameOf pid m = .ok fr) :
    ∃ n, sizeMsg m = .ok n ∧ fr.length = At5.Hdr.headerLength + n + 2 ∧
      Frame.parseOne proto (fr ++ rest) = .deliver (mkHeader pid m n) m rest := by
  obtain ⟨n, hb, ck, payload, hs, he, hm, hf⟩ := frameOf_inv pid m fr hfr
  obtain ⟨hsz, hdec, hbytes⟩ := msg_ok m hwf payload hm
  have hn : n = payload.length := except_ok_inj (hs.symm.trans hsz)
  subst hn
  have hwfh : At5.Hdr.WF (mkHeader pid m payload.length) := (Frame.at5_encode_eq _ hb ck he).1
  refine ⟨payload.length, hs, ?_, ?_⟩
  · obtain ⟨hl, -, -⟩ := Frame.at5_hdr_roundtrip _ hb ck [] hwfh he
    obtain ⟨-, -, -, hck⟩ := Frame.at5_hdr_checksum_span _ hb ck hwfh he
    rw [Frame.frame_eq hb ck payload fr hck hbytes hf]
    simp only [List.length_append, hl]
    rfl
  · exact Frame.at5_frame_roundtrip proto rfl rfl rfl (mkHeader pid m payload.length) m hb ck payload fr rest
      hwfh he rfl (hdec _ _ _) hbytes hf

/-- on a well-formed message every registered encoder succeeds -/
theorem encodeMsg_ok (m : Msg) (hwf : WFMsg m) : ∃ bs, encodeMsg m = .ok bs := by
  cases m with
  | extended s =>
    have hs : ∃ n, ExtSub.size s = .ok n := by
      cases s <;> first | exact ⟨_, rfl⟩ | exact hwf.1.elim
    have he : ∃ body, ExtSub.encode s = .ok body := by
      cases s with
      | errInfo m => exact ⟨_, At5FF10.encodeE_ok m hwf.1⟩
      | acAbility m => exact ⟨_, At5FF11.encodeE_ok m hwf.1⟩
      | zoneNames m => exact ⟨_, At5FF13.encodeE_ok m hwf.1⟩
      | consoleVer m => exact ⟨_, At5FF30.encodeE_ok m hwf.1⟩
      | quickTimer m => exact ⟨_, At5FF49.encode_ok m hwf.1⟩
      | unsupported id raw => exact hwf.1.elim
    obtain ⟨n, hn⟩ := hs
    obtain ⟨body, hb⟩ := he
    refine ⟨be16Bytes s.messageId ++ body, ?_⟩
    simp only [encodeMsg, encodeExt, hn, hb, bind, Except.bind, pure, Except.pure]
  | controlStatus s =>
    have he : ∃ body, CsSub.encode s = .ok body := by
      cases s with
      | zoneCtrl m => exact At5C020.encode_ok m hwf.1
      | zoneStatus m => exact At5C021.encode_ok m hwf.1
      | acCtrl m => exact At5C022.encode_ok m hwf.1
      | acStatus m => exact At5C023.encode_ok m hwf.1
      | acTimerCtrl m => exact ⟨_, At5C032.encode_ok m hwf.1⟩
      | acTimerStatus m => exact ⟨_, At5C033.encode_ok m hwf.1⟩
      | unsupported id raw => exact hwf.1.elim
    obtain ⟨body, hb⟩ := he
    obtain ⟨nr, rl, rc, hd, -, -, -, hid, hnr, hrl, hrc⟩ := cs_ok s hwf body hb
    refine ⟨csSubHeaderBytes s.messageId nr rl rc ++ body, ?_⟩
    simp only [encodeMsg, encodeCs, hd, hb, hid, hnr, hrl, hrc, and_self, ↓reduceIte, bind, Except.bind,
      pure, Except.pure]
  | unsupported id raw => exact hwf.elim

theorem messageId_lt (m : Msg) (hwf : WFMsg m) : m.messageId < 256 := by
  cases m <;> first | exact hwf.elim | (simp only [Msg.messageId]; decide)

/-- the send path does not raise on a well-formed message whose payload fits the length fields of the
    header (the AirTouch 5 outer header carries `10 + length + 2` in 16 bits) -/
theorem frameOf_ok (m : Msg) (pid : Nat) (hwf : WFMsg m) (hpid : pid < 256)
    (hfit : ∀ n, sizeMsg m = .ok n → n + 12 < 65536) : ∃ fr, frameOf pid m = .ok fr := by
  obtain ⟨payload, hm⟩ := encodeMsg_ok m hwf
  obtain ⟨hsz, -, hbytes⟩ := msg_ok m hwf payload hm
  have hid := messageId_lt m hwf
  have hf := hfit _ hsz
  have hwfh : At5.Hdr.WF (mkHeader pid m payload.length) := by
    refine ⟨?_, by simp only [mkHeader]; decide, hpid, hid, by simp only [mkHeader]; omega, ?_⟩
    · simp only [mkHeader]
      split <;> decide
    · simp only [mkHeader, At5.Hdr.dataLength, Gen.At5.Hdr.INTERNAL_HEADER_LENGTH, Gen.At5.Hdr.CRC_LENGTH]
      omega
  obtain ⟨⟨hb, ck⟩, he⟩ := (Frame.at5_encode_ok_iff _).mpr hwfh
  obtain ⟨-, -, -, hck⟩ := Frame.at5_hdr_checksum_span _ hb ck hwfh he
  refine ⟨hb ++ payload ++ PyAirtouch.Spec.checkBytes (ck ++ payload), ?_⟩
  simp only [frameOf, writeFrame, hsz, he, hm, Frame.frame_isSome hb ck payload hck hbytes, bind,
    Except.bind, pure, Except.pure]

/-! ### addressing (against the constants the translator read off the real header factory) -/

theorem mkHeader_to_address (pid : Nat) (m : Msg) (n : Nat) :
    (mkHeader pid m n).to_address =
      if m.messageId = X1FExt.MESSAGE_ID then Registry.toAddressExtended else Registry.toAddressNormal := rfl

theorem mkHeader_from_address (pid : Nat) (m : Msg) (n : Nat) :
    (mkHeader pid m n).from_address = Registry.fromAddress := rfl

theorem mkHeader_fields (pid : Nat) (m : Msg) (n : Nat) :
    (mkHeader pid m n).packet_id = pid ∧ (mkHeader pid m n).message_id = m.messageId ∧
    (mkHeader pid m n).message_length = n := ⟨rfl, rfl, rfl⟩

/-- to-address 0x90 exactly for extended messages, else 0x80 -/
theorem mkHeader_to_address_wf (pid : Nat) (m : Msg) (n : Nat) (hwf : WFMsg m) :
    (mkHeader pid m n).to_address =
      if m.isExtended then Registry.toAddressExtended else Registry.toAddressNormal := by
  cases m <;> first | exact hwf.elim | rfl

theorem toAddress_values : Registry.toAddressExtended = 0x90 ∧ Registry.toAddressNormal = 0x80 ∧
    Registry.fromAddress = 0xB0 := ⟨rfl, rfl, rfl⟩

/-- the packet id counter stays a byte -/
theorem nextPacketId_lt (pid : Nat) : nextPacketId pid < Registry.packetIdModulus := by
  unfold nextPacketId Registry.packetIdModulus; omega

/-! ### unknown message types are preserved (C17) -/

/-- every type byte without a registered decoder: the whole payload is preserved, unchanged, in an
    `UnsupportedMessage` carrying the type byte; nothing is left over, nothing is raised -/
theorem decodeMsg_unknown (id : Nat) (hid : id ∉ Registry.decoderIds) (t f pid : Nat) (b : Bytes) :
    decodeMsg ⟨t, f, pid, id, b.length⟩ b = .ok (.unsupported id b, []) := by
  simp only [Registry.decoderIds, List.mem_cons, List.not_mem_nil, or_false, not_or] at hid
  obtain ⟨h1, h2⟩ := hid
  rw [decodeMsg_leaf]
  simp only [X1FExt.MESSAGE_ID, XC0CtrlStatus.MESSAGE_ID, h1, h2, ↓reduceIte, List.take_length,
    List.drop_length]

/-- every 0x1F sub-id without a registered sub-decoder: the bytes behind the two id bytes are preserved in
    `ExtendedMessage(UnsupportedMessage(sub_id, rest))`; nothing is left over -/
theorem decodeMsg_unknown_sub (hi lo : Nat) (hid : be16 hi lo ∉ Registry.extDecoderIds) (t f pid : Nat)
    (rest : Bytes) :
    decodeMsg ⟨t, f, pid, X1FExt.MESSAGE_ID, 2 + rest.length⟩ (hi :: lo :: rest) =
      .ok (.extended (.unsupported (be16 hi lo) rest), []) := by
  simp only [Registry.extDecoderIds, List.mem_cons, List.not_mem_nil, or_false, not_or] at hid
  obtain ⟨h1, h2, h3, h4, h5⟩ := hid
  rw [decodeMsg_leaf]
  simp only [↓reduceIte, decodeExt, subHeaderSize, X1FExt.SUB_HEADER_STRUCT_size, Nat.add_sub_cancel_left,
    decodeSub, X1FFF10ErrInfo.MESSAGE_ID, X1FFF11AcAbility.MESSAGE_ID, X1FFF13ZoneNames.MESSAGE_ID,
    X1FFF30ConsoleVer.MESSAGE_ID, X1FFF49QuickTimer.MESSAGE_ID, h1, h2, h3, h4, h5, List.take_length,
    List.drop_length, mapMsg]

/-- the same through the receive path's eyes: for every sub-id value (two bytes) -/
theorem decodeMsg_unknown_sub' (subId : Nat) (hlt : subId < 65536) (hid : subId ∉ Registry.extDecoderIds)
    (t f pid : Nat) (rest : Bytes) :
    decodeMsg ⟨t, f, pid, X1FExt.MESSAGE_ID, (be16Bytes subId ++ rest).length⟩ (be16Bytes subId ++ rest) =
      .ok (.extended (.unsupported subId rest), []) := by
  have := decodeMsg_unknown_sub (subId / 256 % 256) (subId % 256) (by rw [be16_be16Bytes _ hlt]; exact hid)
    t f pid rest
  rw [be16_be16Bytes _ hlt] at this
  have hl : (be16Bytes subId ++ rest).length = 2 + rest.length := by
    simp only [be16Bytes, List.length_append, List.length_cons, List.length_nil]
  rw [hl]
  exact this

/-- every 0xC0 sub-type without a registered sub-decoder: the `non_repeat + repeat_count * repeat_length`
    payload bytes announced by the sub-header are preserved unchanged in
    `ControlStatusMessage(UnsupportedMessage(sub_type, payload))`; nothing is left over.  (The header's
    `message_length` is not consulted; on the receive path it is `8 + body.length`.) -/
theorem decodeMsg_unknown_cs (sid pad n1 n2 l1 l2 c1 c2 : Nat) (body : Bytes)
    (hid : sid ∉ Registry.csDecoderIds) (hlen : body.length = be16 n1 n2 + be16 c1 c2 * be16 l1 l2)
    (t f pid len : Nat) :
    decodeMsg ⟨t, f, pid, XC0CtrlStatus.MESSAGE_ID, len⟩ (sid :: pad :: n1 :: n2 :: l1 :: l2 :: c1 :: c2 :: body) =
      .ok (.controlStatus (.unsupported sid body), []) := by
  simp only [Registry.csDecoderIds, List.mem_cons, List.not_mem_nil, or_false, not_or] at hid
  obtain ⟨h1, h2, h3, h4, h5, h6⟩ := hid
  rw [decodeMsg_leaf]
  simp only [X1FExt.MESSAGE_ID, XC0CtrlStatus.MESSAGE_ID, Nat.reduceEqDiff, ↓reduceIte, decodeCs, decodeCsSub,
    XC020ZoneCtrl.MESSAGE_ID, XC021ZoneStatus.MESSAGE_ID, XC022AcCtrl.MESSAGE_ID, XC023AcStatus.MESSAGE_ID,
    XC032AcTimerCtrl.MESSAGE_ID, XC033AcTimerStatus.MESSAGE_ID, h1, h2, h3, h4, h5, h6, ← hlen,
    List.take_length, List.drop_length, mapMsg]

/-- a decoder only ever answers a top-level `UnsupportedMessage` for an unregistered type byte, and then
    it carries exactly the announced part of the buffer -/
theorem decodeMsg_unsupported_inv (h : Hdr) (b : Bytes) (id : Nat) (raw rest : Bytes)
    (hd : decodeMsg h b = .ok (.unsupported id raw, rest)) :
    id = h.message_id ∧ id ∉ Registry.decoderIds ∧ raw = b.take h.message_length ∧
    rest = b.drop h.message_length := by
  unfold decodeMsg at hd
  split at hd
  · unfold decodeExt at hd
    split at hd
    · obtain ⟨x, -, hx⟩ := mapMsg_ok_inv _ hd; cases hx
    · cases hd
  · split at hd
    · unfold decodeCs at hd
      split at hd
      · obtain ⟨x, -, hx⟩ := mapMsg_ok_inv _ hd; cases hx
      · cases hd
    · rename_i h1 h2
      simp only [Except.ok.injEq, Prod.mk.injEq, Msg.unsupported.injEq] at hd
      obtain ⟨⟨rfl, rfl⟩, rfl⟩ := hd
      refine ⟨rfl, ?_, rfl, rfl⟩
      simp only [Registry.decoderIds, List.mem_cons, List.not_mem_nil, or_false, not_or]
      exact ⟨h1, h2⟩

/-! ### the run-time well-formedness test -/

theorem allBytesBool_iff' (bs : Bytes) : allBytesBool bs = true ↔ AllBytes bs :=
  allBytesBool_iff allBytesBool (fun _ => rfl) bs

theorem ff11NameBool_iff (s : Bytes) : ff11NameBool s = true ↔ FF11.WFName s := by
  simp only [ff11NameBool, FF11.WFName, Bool.and_eq_true, decide_eq_true_eq, List.all_eq_true,
    allBytesBool_iff', and_assoc]

theorem ff11RecBool_iff (ac : FF11.AcAbility) : ff11RecBool ac = true ↔ FF11.WFRec ac := by
  simp only [ff11RecBool, FF11.WFRec, Bool.and_eq_true, decide_eq_true_eq, ff11NameBool_iff, and_assoc]

theorem ff11WfBool_iff (m : FF11.Msg) : ff11WfBool m = true ↔ FF11.WF m := by
  cases m with
  | request n =>
    cases n with
    | none => simp [ff11WfBool, FF11.WF]
    | some n => simp [ff11WfBool, FF11.WF]
  | ability acs =>
    simp only [ff11WfBool, FF11.WF, Bool.and_eq_true, Bool.not_eq_true', List.isEmpty_eq_false_iff,
      List.all_eq_true, ff11RecBool_iff, ne_eq]

theorem extSub_wfBool_iff (s : ExtSub) : s.wfBool = true ↔ s.WF := by
  cases s with
  | errInfo m => exact At5FF10.wfBool_iff m
  | acAbility m => exact ff11WfBool_iff m
  | zoneNames m => exact At5FF13.wfBool_iff m
  | consoleVer m => exact At5FF30.wfBool_iff m
  | quickTimer m => exact At5FF49.wfBool_iff m
  | unsupported id raw => simp [ExtSub.wfBool, ExtSub.WF]

theorem wfSubBool_iff (s : ExtSub) : wfSubBool s = true ↔ WFSub s := by
  simp only [wfSubBool, WFSub, Bool.and_eq_true, extSub_wfBool_iff, List.all_eq_true, allBytesBool_iff']

theorem csSub_wfBool_iff (s : CsSub) : s.wfBool = true ↔ s.WF := by
  cases s with
  | zoneCtrl m => exact At5C020.wfBool_iff m
  | zoneStatus m => exact At5C021.wfBool_iff m
  | acCtrl m => exact At5C022.wfBool_iff m
  | acStatus m => exact At5C023.wfBool_iff m
  | acTimerCtrl m => exact At5C032.wfBool_iff m
  | acTimerStatus m => exact At5C033.wfBool_iff m
  | unsupported id raw => simp [CsSub.wfBool, CsSub.WF]

theorem wfCsBool_iff (s : CsSub) : wfCsBool s = true ↔ WFCs s := by
  simp only [wfCsBool, WFCs, Bool.and_eq_true, csSub_wfBool_iff, decide_eq_true_eq]

theorem wfMsgBool_iff (m : Msg) : wfMsgBool m = true ↔ WFMsg m := by
  cases m with
  | extended s => exact wfSubBool_iff s
  | controlStatus s => exact wfCsBool_iff s
  | unsupported id raw => simp [wfMsgBool, WFMsg]

/-- every message the AC-ability decoder produces from bytes is well formed (so is every extended
    AC-ability message the receive path delivers) -/
theorem ff11_decoded_wf (buffer : Bytes) (hb : AllBytes buffer) (msgLen : Nat) (m : FF11.Msg) (rest : Bytes)
    (h : FF11.decode buffer msgLen = .ok (m, rest)) : WFMsg (.extended (.acAbility m)) :=
  ⟨(At5FF11.decode_WF buffer hb msgLen m rest h).1, fun _ ht => by cases ht⟩

/-! ### non-vacuity: concrete frames -/

-- the vendor's zone-status request `55 55 55 aa 80 b0 01 c0 00 08 21 00 00 00 00 00 00 00 a4 31` behind
-- the outer header
example : frameOf 1 (.controlStatus (.zoneStatus .request)) =
    .ok [0x55, 0x55, 0x55, 0xab, 0, 0, 0, 20, 0, 20, 0x55, 0x55, 0x55, 0xaa, 0x80, 0xb0, 0x01, 0xc0, 0x00, 0x08,
         0x21, 0, 0, 0, 0, 0, 0, 0, 0xa4, 0x31] := by decide +kernel
example : WFMsg (.controlStatus (.zoneStatus .request)) := ⟨trivial, by decide⟩
-- zone control: sub-header `20 00 | 00 00 | 00 04 | 00 01` = sub type, non-repeat 0, stride 4, one record
example : frameOf 1 (.controlStatus (.zoneCtrl ⟨[⟨1, .UNCHANGED, some (.damper 80)⟩]⟩)) =
    .ok [0x55, 0x55, 0x55, 0xab, 0, 0, 0, 24, 0, 24, 0x55, 0x55, 0x55, 0xaa, 0x80, 0xb0, 0x01, 0xc0, 0x00, 0x0c,
         0x20, 0, 0, 0, 0, 4, 0, 1, 1, 0x80, 80, 0, 76, 248] := by decide +kernel
-- an extended message goes to address 0x90: "all zone names"
example : frameOf 1 (.extended (.zoneNames (.request ⟨none⟩))) =
    .ok [0x55, 0x55, 0x55, 0xab, 0, 0, 0, 14, 0, 14, 0x55, 0x55, 0x55, 0xaa, 0x90, 0xb0, 0x01, 0x1f, 0x00, 0x02,
         0xff, 0x13, 66, 205] := by decide +kernel
-- unknown type byte, unknown 0x1F sub-id, unknown 0xC0 sub-type (2 + 2 * 3 payload bytes)
example : decodeMsg ⟨0xb0, 0x80, 7, 0x45, 3⟩ [1, 2, 3] = .ok (.unsupported 0x45 [1, 2, 3], []) := by decide +kernel
example : decodeMsg ⟨0xb0, 0x90, 7, 0x1f, 5⟩ [0xff, 0x77, 1, 2, 3] =
    .ok (.extended (.unsupported 0xff77 [1, 2, 3]), []) := by decide +kernel
example : decodeMsg ⟨0xb0, 0x80, 7, 0xc0, 16⟩ [0x77, 0, 0, 2, 0, 3, 0, 2, 1, 2, 3, 4, 5, 6, 7, 8] =
    .ok (.controlStatus (.unsupported 0x77 [1, 2, 3, 4, 5, 6, 7, 8]), []) := by decide +kernel
-- an `UnsupportedMessage` cannot be sent: `get_encoder` raises `NotImplementedError`
example : frameOf 1 (.unsupported 0x45 [1, 2, 3]) = .error .notImplemented := by decide +kernel

end PyAirtouch.Lemmas.Registry5
