import PyAirtouch.Lemmas.Api4Shutdown
import PyAirtouch.Lemmas.Api4Heartbeat
import PyAirtouch.Lemmas.Api4Install
/-!
# Facts about every reachable state of the AirTouch 4 API model

`Reach4 s`: `s` is the state after some op list run on the fresh object `State.initial`; `ReachD4 s`: after an op
list that keeps the calling discipline (`disciplined true`: every `init` is the first op or follows a `shutdown`
with no other `init` in between).

* `SockFacts`: the "socket-open facts" the model file only documents (`reach_sockFacts`);
* `Ahead`: every pending deadline lies strictly ahead of the clock, at most one period away (`reach_ahead`);
* `DiscFacts`: what the discipline adds (`reachD_discFacts`);
* `reach_inv`, `reach_hbWf`: the heap invariant and the heartbeat invariant, restated for `Reach4`.
-/
set_option linter.unusedSimpArgs false
set_option linter.unusedVariables false
namespace PyAirtouch.Lemmas.Api4Reach
open PyAirtouch.Model PyAirtouch.Model.Api4 PyAirtouch.Model.At4 PyAirtouch.Lemmas.Api4 PyAirtouch.Gen
open PyAirtouch.Model.TimerCommon (AcTimerState AcTimerStatusData)
open PyAirtouch.Model.Heartbeat (HB Label step enterTimeout)

/-- reachable from the fresh object -/
def Reach4 (s : State) : Prop := ∃ ops, (run State.initial ops).1 = s

/-- reachable from the fresh object by a disciplined op list -/
def ReachD4 (s : State) : Prop := ∃ ops, disciplined true ops = true ∧ (run State.initial ops).1 = s

theorem ReachD4.reach {s : State} (h : ReachD4 s) : Reach4 s := by
  obtain ⟨ops, _, e⟩ := h; exact ⟨ops, e⟩

theorem Reach4.initial : Reach4 State.initial := ⟨[], rfl⟩

theorem Reach4.step {s : State} (h : Reach4 s) (op : Op) : Reach4 (apiStep s op).1 := by
  obtain ⟨ops, e⟩ := h
  refine ⟨ops ++ [op], ?_⟩
  rw [run_append, e]
  rfl

theorem Reach4.run {s : State} (h : Reach4 s) (ops : List Op) : Reach4 (run s ops).1 := by
  induction ops generalizing s with
  | nil => exact h
  | cons op ops ih => exact ih (h.step op)

/-- induction over reachable states -/
theorem Reach4.induct {P : State → Prop} (h0 : P State.initial) (hstep : ∀ s op, Reach4 s → P s → P (apiStep s op).1)
    {s : State} (h : Reach4 s) : P s := by
  obtain ⟨ops, e⟩ := h
  subst e
  have gen : ∀ (ops : List Op) (t : State), Reach4 t → P t → P (Api4.run t ops).1 := by
    intro ops
    induction ops with
    | nil => intro t _ ht; exact ht
    | cons op ops ih => intro t hr ht; exact ih _ (hr.step op) (hstep t op hr ht)
  exact gen ops _ Reach4.initial h0

/-! ## the heartbeat manager is idle or not -/

theorem tl_waiting_beq (a : Nat) : (Heartbeat.TL.waiting a == Heartbeat.TL.idle) = false := rfl
theorem tl_resetting_beq : (Heartbeat.TL.resetting == Heartbeat.TL.idle) = false := rfl
theorem hl_sleeping_beq (a : Nat) : (Heartbeat.HL.sleeping a == Heartbeat.HL.idle) = false := rfl

/-- only `start` and `stop` change whether the heartbeat manager runs -/
theorem hbIdle_apply (h : HB) (l : Label) (h1 : l ≠ .start) (h2 : l ≠ .stop) : hbIdle (hbApply h l) = hbIdle h := by
  cases hs : step h l with
  | none => rw [hbApply_of_none hs]
  | some h' =>
    rw [hbApply_of_some hs]
    cases l <;> simp only [step, HB.emit, enterTimeout] at hs
    all_goals (repeat' split at hs)
    all_goals (first | cases hs | skip)
    all_goals simp_all [hbIdle, tl_waiting_beq, tl_resetting_beq, hl_sleeping_beq]

theorem hbIdle_now (h : HB) (n : Nat) : hbIdle { h with now := n } = hbIdle h := rfl

theorem hbIdle_responded (h : HB) : hbIdle (respondedHB h) = hbIdle h := by
  unfold respondedHB
  rw [hbIdle_apply _ _ (by simp) (by simp), hbIdle_apply _ _ (by simp) (by simp)]

theorem hbIdle_timeoutHB (c : Bool) (t : Nat) (h : HB) : hbIdle (timeoutHB c t h) = hbIdle h := by
  unfold timeoutHB
  split
  · split
    · split
      · rw [hbIdle_apply _ _ (by simp) (by simp), hbIdle_apply _ _ (by simp) (by simp)]
      · rw [hbIdle_apply _ _ (by simp) (by simp)]
    · rfl
  · rfl

theorem hbIdle_beatHB (t : Nat) (h : HB) : hbIdle (beatHB t h) = hbIdle h := by
  unfold beatHB
  split
  · split
    · rw [hbIdle_apply _ _ (by simp) (by simp)]
    · rfl
  · rfl

theorem hbIdle_tickHB (c : Bool) (t : Nat) (h : HB) : hbIdle (tickHB c t h) = hbIdle h := by
  unfold tickHB
  rw [hbIdle_beatHB, hbIdle_timeoutHB]
  rfl

theorem hbIdle_startHB (n : Nat) (h : HB) : hbIdle (startHB n h) = false := by
  unfold startHB
  by_cases hi : hbIdle h = true
  · simp only [hi, ↓reduceIte]
    have hi' : hbIdle { h with now := n } = true := hi
    obtain ⟨f1, _⟩ := startedHB_fields hi'
    simp [hbIdle, f1, tl_waiting_beq]
  · simp only [hi, Bool.false_eq_true, ↓reduceIte]

/-! ## the tasks (poll tasks, pending `init()` calls) under a message and under a tick -/

/-- the message is a group status arriving in state `CONNECTED` -/
def rearms (s : State) (m : RMsg) : Bool :=
  s.st == .CONNECTED && (match m with | .groupStatus (.status _) => true | _ => false)

structure TaskView where
  pollCur : Option Nat
  pollOrphans : List Nat
  initWaits : List Nat
  now : Nat
  sockConnected : Bool
  sockOpen : Bool

def taskView (s : State) : TaskView :=
  { pollCur := s.pollCur, pollOrphans := s.pollOrphans, initWaits := s.initWaits, now := s.now,
    sockConnected := s.sockConnected, sockOpen := s.sockOpen }

theorem taskView_processGroupNames (s : State) (l : List (Nat × Bytes)) :
    taskView (processGroupNames s l) = taskView s := by
  unfold processGroupNames
  induction l generalizing s with
  | nil => rfl
  | cons p ps ih => rw [List.foldl_cons, ih]; rfl

theorem taskView_processAbility (s : State) (single : Bool) (l : List FF11.AcAbility) :
    taskView (processAbility s single l).1 = taskView s := by
  induction l generalizing s with
  | nil => rfl
  | cons ab rest ih =>
    simp only [processAbility]
    cases ha : addAc s single ab with
    | none => rfl
    | some s' =>
      simp only
      rw [ih]
      unfold addAc at ha
      cases hz : zonesForAbility s single ab with
      | none => simp [hz] at ha
      | some zs =>
        cases hm : mkAc ab zs with
        | none => simp [hz, hm] at ha
        | some a => simp [hz, hm] at ha; subst ha; rfl

theorem taskView_foldStatus (s : State) (l : List X2D.AcStatusData) : taskView (foldEv updateAcStatus s l).1 = taskView s := by
  rw [foldEv_frame_ac _ updateAcStatus_frame]; rfl
theorem taskView_foldTimer (s : State) (l : List AcTimerStatusData) : taskView (foldEv updateAcTimer s l).1 = taskView s := by
  rw [foldEv_frame_ac _ updateAcTimer_frame]; rfl
theorem taskView_foldGroup (s : State) (l : List X2B.GroupStatusData) : taskView (foldEv updateGroupStatus s l).1 = taskView s := by
  rw [foldEv_frame_zone _ updateGroupStatus_frame]; rfl
theorem taskView_updateErrInfo (s : State) (e : FF10.AcErrorInformationMessage) : taskView (updateErrInfo s e).1 = taskView s := by
  rw [updateErrInfo_frame]; rfl
theorem taskView_updateVersion (s : State) (v : FF30.ConsoleVersionMessage) : taskView (updateVersion s v).1 = taskView s := by
  unfold updateVersion; split <;> rfl

theorem taskView_processTimers (s : State) (l : List AcTimerStatusData) : taskView (processTimers s l).1 = taskView s := by
  unfold processTimers
  split
  · exact taskView_foldTimer s l
  · split
    · exact taskView_foldTimer s l
    · rfl

theorem taskView_enterConnected (s : State) :
    taskView (enterConnected s).1 =
      { pollCur := some (s.now + Api4.GROUP_STATUS_TIMEOUT), pollOrphans := s.pollOrphans ++ s.pollCur.toList,
        initWaits := [], now := s.now, sockConnected := s.sockConnected, sockOpen := s.sockOpen } := by
  unfold enterConnected
  simp only
  rw [hbStart_frame]
  rfl

/-- the tasks after the message handler: the completing group status orphans the current poll task, starts a new one
    and releases every waiting `init()`; a group status in `CONNECTED` re-arms every poll task; nothing else touches
    them -/
theorem taskView_onMessage (s : State) (m : RMsg) :
    taskView (onMessage s m).1 =
      if completes s m then
        { pollCur := some (s.now + Api4.GROUP_STATUS_TIMEOUT), pollOrphans := s.pollOrphans ++ s.pollCur.toList,
          initWaits := [], now := s.now, sockConnected := s.sockConnected, sockOpen := s.sockOpen }
      else if rearms s m then
        { pollCur := s.pollCur.map (fun _ => s.now + Api4.GROUP_STATUS_TIMEOUT),
          pollOrphans := s.pollOrphans.map (fun _ => s.now + Api4.GROUP_STATUS_TIMEOUT),
          initWaits := s.initWaits, now := s.now, sockConnected := s.sockConnected, sockOpen := s.sockOpen }
      else taskView s := by
  cases m with
  | extended sub =>
    have hc : completes s (.extended sub) = false := by simp [completes]
    have hr : rearms s (.extended sub) = false := by simp [rearms]
    rw [hc, hr]
    simp only [Bool.false_eq_true, ↓reduceIte]
    cases sub with
    | consoleVer v =>
      cases v with
      | message v =>
        simp only [onMessage]
        split
        · rfl
        · split
          · exact taskView_updateVersion s v
          · rfl
      | request => rfl
    | groupNames n =>
      cases n with
      | message n =>
        simp only [onMessage]
        split
        · exact taskView_processGroupNames s _
        · rfl
      | request r => rfl
    | acAbility a =>
      cases a with
      | ability acs =>
        simp only [onMessage]
        split
        · have := taskView_processAbility s (acs.length == 1) acs
          split
          · next s' heq => rw [heq] at this; exact this
          · next s' heq => rw [heq] at this; exact this
        · rfl
      | request r => rfl
    | errInfo e =>
      cases e with
      | message e => exact taskView_updateErrInfo s e
      | request r => rfl
    | quickTimer q => rfl
    | unsupported i r => rfl
  | groupCtrl c => simp [completes, rearms]; rfl
  | groupStatus g =>
    cases g with
    | request => simp [completes, rearms]; rfl
    | status l =>
      simp only [onMessage, completes, rearms]
      split
      · next hst =>
        rw [taskView_enterConnected]
        have := taskView_foldGroup s l
        simp only [hst, beq_self_eq_true, Bool.and_true, ↓reduceIte]
        rw [show (foldEv updateGroupStatus s l).1.pollCur = s.pollCur from congrArg TaskView.pollCur this,
          show (foldEv updateGroupStatus s l).1.pollOrphans = s.pollOrphans from congrArg TaskView.pollOrphans this,
          show (foldEv updateGroupStatus s l).1.now = s.now from congrArg TaskView.now this,
          show (foldEv updateGroupStatus s l).1.sockConnected = s.sockConnected from congrArg TaskView.sockConnected this,
          show (foldEv updateGroupStatus s l).1.sockOpen = s.sockOpen from congrArg TaskView.sockOpen this]
      · next hst =>
        have hb : (s.st == Api4.AirTouchState.INIT_GROUP_STATUS) = false := by simpa using hst
        simp only [hb, Bool.false_and, Bool.false_eq_true, ↓reduceIte]
        split
        · next hc =>
          simp only [hc, beq_self_eq_true, Bool.and_true, ↓reduceIte]
          exact taskView_foldGroup (rearmPolls s) l
        · next hc =>
          have hb2 : (s.st == Api4.AirTouchState.CONNECTED) = false := by simpa using hc
          simp only [hb2, Bool.false_and, Bool.false_eq_true, ↓reduceIte]
  | acCtrl c => simp [completes, rearms]; rfl
  | acStatus a =>
    have hc : completes s (.acStatus a) = false := by simp [completes]
    have hr : rearms s (.acStatus a) = false := by simp [rearms]
    rw [hc, hr]
    simp only [Bool.false_eq_true, ↓reduceIte]
    cases a with
    | request => rfl
    | status l =>
      simp only [onMessage]
      split
      · exact taskView_foldStatus s l
      · split
        · exact taskView_foldStatus s l
        · rfl
  | acTimerCtrl c => simp [completes, rearms]; exact taskView_processTimers s _
  | acTimerStatus t =>
    have hc : completes s (.acTimerStatus t) = false := by simp [completes]
    have hr : rearms s (.acTimerStatus t) = false := by simp [rearms]
    rw [hc, hr]
    simp only [Bool.false_eq_true, ↓reduceIte]
    cases t with
    | request => rfl
    | status l => exact taskView_processTimers s _
  | unsupported i r => simp [completes, rearms]; rfl

theorem taskView_hbOnMessage (s : State) (m : RMsg) : taskView (hbOnMessage s m) = taskView s := by
  unfold hbOnMessage; split <;> rfl

/-- the tasks after `recv m` -/
theorem taskView_recv (s : State) (m : RMsg) :
    taskView (recv s m).1 =
      if s.subscribed && completes s m then
        { pollCur := some (s.now + Api4.GROUP_STATUS_TIMEOUT), pollOrphans := s.pollOrphans ++ s.pollCur.toList,
          initWaits := [], now := s.now, sockConnected := s.sockConnected, sockOpen := s.sockOpen }
      else if s.subscribed && rearms s m then
        { pollCur := s.pollCur.map (fun _ => s.now + Api4.GROUP_STATUS_TIMEOUT),
          pollOrphans := s.pollOrphans.map (fun _ => s.now + Api4.GROUP_STATUS_TIMEOUT),
          initWaits := s.initWaits, now := s.now, sockConnected := s.sockConnected, sockOpen := s.sockOpen }
      else taskView s := by
  unfold recv
  simp only [taskView_hbOnMessage]
  cases hsub : s.subscribed with
  | false => simp
  | true => simp only [↓reduceIte, Bool.true_and]; exact taskView_onMessage s m

theorem taskView_fireHbTimeout (s : State) : taskView (fireHbTimeout s).1 = taskView s := by
  unfold fireHbTimeout
  split
  · split
    · split <;> rfl
    · rfl
  · rfl

theorem taskView_fireBeat (s : State) : taskView (fireBeat s).1 = taskView s := by
  unfold fireBeat
  split
  · split <;> rfl
  · rfl

/-- the tasks after one tick -/
theorem taskView_tick (s : State) :
    taskView (tick s).1 =
      { pollCur := (s.pollCur.map (firePoll s.sockConnected s.sockOpen (s.now + 1))).bind (·.1)
        pollOrphans := (s.pollOrphans.map (firePoll s.sockConnected s.sockOpen (s.now + 1))).filterMap (·.1)
        initWaits := s.initWaits.filter (fun d => !decide (d ≤ s.now + 1))
        now := s.now + 1, sockConnected := s.sockConnected, sockOpen := s.sockOpen } := by
  unfold tick
  simp only
  rw [taskView_fireBeat]
  have h1 := taskView_fireHbTimeout { s with now := s.now + 1, hb := { s.hb with now := s.now + 1 } }
  generalize (fireHbTimeout { s with now := s.now + 1, hb := { s.hb with now := s.now + 1 } }).1 = t at h1
  have e1 : t.pollCur = s.pollCur := congrArg TaskView.pollCur h1
  have e2 : t.pollOrphans = s.pollOrphans := congrArg TaskView.pollOrphans h1
  have e3 : t.now = s.now + 1 := congrArg TaskView.now h1
  have e4 : t.sockConnected = s.sockConnected := congrArg TaskView.sockConnected h1
  have e5 : t.sockOpen = s.sockOpen := congrArg TaskView.sockOpen h1
  have e6 : t.initWaits = s.initWaits := congrArg TaskView.initWaits h1
  simp only [fireInitWaits, firePolls, taskView, e1, e2, e3, e4, e5, e6]

/-- the group-status requests of one tick: those of the orphaned poll tasks, then that of the current one -/
theorem tick_pollCount (s : State) :
    (tick s).2.count pollEv =
      ((s.pollOrphans.map (firePoll s.sockConnected s.sockOpen (s.now + 1))).flatMap (·.2)).count pollEv +
      (match s.pollCur.map (firePoll s.sockConnected s.sockOpen (s.now + 1)) with
       | some c => c.2.count pollEv
       | none => 0) := by
  unfold tick
  simp only [List.count_append, count_fireHbTimeout, count_fireBeat, count_fireInitWaits, Nat.zero_add, Nat.add_zero]
  have h1 := taskView_fireHbTimeout { s with now := s.now + 1, hb := { s.hb with now := s.now + 1 } }
  generalize (fireHbTimeout { s with now := s.now + 1, hb := { s.hb with now := s.now + 1 } }).1 = t at h1
  have e1 : t.pollCur = s.pollCur := congrArg TaskView.pollCur h1
  have e2 : t.pollOrphans = s.pollOrphans := congrArg TaskView.pollOrphans h1
  have e3 : t.now = s.now + 1 := congrArg TaskView.now h1
  have e4 : t.sockConnected = s.sockConnected := congrArg TaskView.sockConnected h1
  have e5 : t.sockOpen = s.sockOpen := congrArg TaskView.sockOpen h1
  simp only [firePolls, e1, e2, e3, e4, e5]
  cases s.pollCur <;> simp [List.count_append]

/-! ## the socket-open facts -/

/-- What holds in every reachable state about the stub socket, the handshake state, the initialised event, the
    current poll task, the heartbeat manager and the object model.  In words: the socket is open exactly while the
    state is not `CLOSED`; outside `CLOSED` the callbacks are subscribed; in `CLOSED` the object model is empty;
    the initialised event, the current poll task and the heartbeat manager live and die together (set / created /
    started when `CONNECTED` is entered, cleared / cancelled / stopped only by `shutdown()`), and they imply an open
    socket; `CONNECTED` implies all three; no `init()` call waits while the initialised event is set. -/
structure SockFacts (s : State) : Prop where
  open_iff : s.sockOpen = true ↔ s.st ≠ .CLOSED
  subscribed : s.st ≠ .CLOSED → s.subscribed = true
  closed_empty : s.st = .CLOSED → s.acDict = [] ∧ s.zoneDict = [] ∧ s.acObjs = [] ∧ s.zoneObjs = []
  init_open : s.initialised = true → s.st ≠ .CLOSED
  connected_init : s.st = .CONNECTED → s.initialised = true
  poll_iff : s.pollCur.isSome = s.initialised
  hb_iff : hbIdle s.hb = !s.initialised
  init_nowaits : s.initialised = true → s.initWaits = []

/-- in a reachable state, `CLOSED` means `Closed` (everything `shutdown()` resets is reset) -/
theorem SockFacts.closed {s : State} (f : SockFacts s) (h : s.st = .CLOSED) : Closed s := by
  have hi : s.initialised = false := by
    cases hi : s.initialised with
    | false => rfl
    | true => exact absurd h (f.init_open hi)
  obtain ⟨e1, e2, e3, e4⟩ := f.closed_empty h
  refine ⟨h, hi, e1, e2, e3, e4, ?_, ?_, ?_⟩
  · have := f.poll_iff
    rw [hi] at this
    cases hp : s.pollCur with
    | none => rfl
    | some d => rw [hp] at this; cases this
  · have := f.hb_iff
    rw [hi] at this
    exact this
  · cases ho : s.sockOpen with
    | false => rfl
    | true => exact absurd h (f.open_iff.mp ho)

theorem sockFacts_of_closed {s : State} (c : Closed s) : SockFacts s := by
  refine ⟨?_, ?_, ?_, ?_, ?_, ?_, ?_, ?_⟩
  · constructor
    · intro h; rw [c.sockOpen] at h; cases h
    · intro h; exact absurd c.st h
  · intro h; exact absurd c.st h
  · intro _; exact ⟨c.acDict, c.zoneDict, c.acObjs, c.zoneObjs⟩
  · intro h; rw [c.initialised] at h; cases h
  · intro h; rw [c.st] at h; cases h
  · rw [c.pollCur, c.initialised]; rfl
  · rw [c.idle, c.initialised]; rfl
  · intro h; rw [c.initialised] at h; cases h

theorem sockFacts_initial : SockFacts State.initial := sockFacts_of_closed State.initial_closed

/-- a step that starts and ends outside `CLOSED`, does not enter `CONNECTED`, and leaves the socket, the
    subscription, the initialised event, the existence of a poll task and the heartbeat's running alone -/
theorem SockFacts.frame {s t : State} (f : SockFacts s) (h1 : t.st ≠ .CLOSED)
    (hc : t.st = .CONNECTED → s.st = .CONNECTED) (h2 : t.sockOpen = true) (h3 : t.subscribed = true)
    (h4 : t.initialised = s.initialised) (h5 : t.pollCur.isSome = s.pollCur.isSome) (h6 : hbIdle t.hb = hbIdle s.hb)
    (h7 : s.initWaits = [] → t.initWaits = []) : SockFacts t := by
  refine ⟨⟨fun _ => h1, fun _ => h2⟩, fun _ => h3, fun h => absurd h h1, fun _ => h1, ?_, ?_, ?_, ?_⟩
  · intro h; rw [h4]; exact f.connected_init (hc h)
  · rw [h5, h4]; exact f.poll_iff
  · rw [h6, h4]; exact f.hb_iff
  · intro h; rw [h4] at h; exact h7 (f.init_nowaits h)

theorem sockFacts_init {s : State} (f : SockFacts s) : SockFacts (apiStep s .init).1 := by
  simp only [apiStep, doInit]
  split
  · next hi =>
    exact ⟨⟨fun _ h => (by cases h), fun _ => rfl⟩, fun _ => rfl, fun h => (by cases h), fun _ h => (by cases h),
      fun h => (by cases h), f.poll_iff, f.hb_iff, f.init_nowaits⟩
  · next hi =>
    exact ⟨⟨fun _ h => (by cases h), fun _ => rfl⟩, fun _ => rfl, fun h => (by cases h), fun _ h => (by cases h),
      fun h => (by cases h), f.poll_iff, f.hb_iff, fun h => absurd h hi⟩

theorem sockFacts_subUnsub {s : State} (f : SockFacts s) (hcl : s.st ≠ .CLOSED) (t : Target) (g : List Sub → List Sub) :
    SockFacts (subUnsub s t g).1 := by
  have ho : s.sockOpen = true := f.open_iff.mpr hcl
  have hsub := f.subscribed hcl
  cases t with
  | airtouch => exact f.frame hcl id ho hsub rfl rfl rfl id
  | ac i general =>
    simp only [subUnsub]
    cases s.findAc i with
    | none => exact f
    | some a => simp only; rw [setAc_frame]; exact f.frame hcl id ho hsub rfl rfl rfl id
  | zone i =>
    simp only [subUnsub]
    cases s.findZone i with
    | none => exact f
    | some zi =>
      simp only
      cases s.zoneObjs[zi]? with
      | none => exact f
      | some z => exact f.frame hcl id ho hsub rfl rfl rfl id

theorem sockFacts_recv {s : State} (f : SockFacts s) (hcl : s.st ≠ .CLOSED) (m : RMsg) : SockFacts (recv s m).1 := by
  have ho : s.sockOpen = true := f.open_iff.mpr hcl
  have hsub := f.subscribed hcl
  have hsv := sockView_recv s m
  have ho' : (recv s m).1.sockOpen = true := (congrArg SockView.sockOpen hsv).trans ho
  have hsub' : (recv s m).1.subscribed = true := (congrArg SockView.subscribed hsv).trans hsub
  have htv := taskView_recv s m
  have hhv := hbView_recv s m
  cases hc : completes s m with
  | true =>
    obtain ⟨hst, l, rfl⟩ := (completes_iff s m).mp hc
    obtain ⟨f1, f2, f3, f4, f5, _⟩ := recv_final_answer s hsub l hst
    have hne : (recv s (.groupStatus (.status l))).1.st ≠ .CLOSED := by rw [f1]; intro h; cases h
    exact ⟨⟨fun _ => hne, fun _ => ho'⟩, fun _ => hsub', fun h => absurd h hne,
      fun _ => hne, fun _ => f2, (by rw [f4, f2]; rfl), (by rw [f5, f2]; rfl), fun _ => f3⟩
  | false =>
    have hcs : (s.subscribed && completes s m) = false := by rw [hc]; simp
    have hi := recv_initialised s m hcs
    rw [hcs] at htv
    simp only [Bool.false_eq_true, ↓reduceIte] at htv
    have hst : (recv s m).1.st ≠ .CLOSED ∧ ((recv s m).1.st = .CONNECTED → s.st = .CONNECTED) := by
      have hp := (passive_step s hsub (.recv m) rfl).2
      have e : (apiStep s (.recv m)).1 = (recv s m).1 := rfl
      rw [e] at hp
      rcases hp with ⟨h1, _⟩ | ⟨h1, h2, h3, _⟩ | ⟨h1, h2⟩
      · rw [h1]; exact ⟨hcl, id⟩
      · constructor
        · intro h; rw [h] at h1; simp [stage] at h1
        · intro h
          have : stage (recv s m).1.st = 8 := by rw [h]; rfl
          omega
      · exfalso
        have : completes s m = true := by
          -- the state became CONNECTED from INIT_GROUP_STATUS: only the completing message does that
          cases hk : answerKind s.st m with
          | false =>
            have := (recv_not_answer s m hk).1
            rw [h2, h1] at this; cases this
          | true =>
            rw [h1] at hk
            refine (completes_iff s m).mpr ⟨h1, ?_⟩
            cases m with
            | groupStatus g => cases g with
              | status l => exact ⟨l, rfl⟩
              | request => simp [answerKind] at hk
            | extended sub => simp [answerKind] at hk
            | _ => simp [answerKind] at hk
        rw [hc] at this; cases this
    have hidle : hbIdle (recv s m).1.hb = hbIdle s.hb := by
      rw [show (recv s m).1.hb = recvHB s m from congrArg HbView.hb hhv]
      unfold recvHB
      rw [hcs]
      simp only [Bool.false_eq_true, ↓reduceIte]
      split
      · rw [hbIdle_responded]; rfl
      · rfl
    refine f.frame hst.1 hst.2 ho' hsub' hi ?_ hidle ?_
    · split at htv
      · rw [show (recv s m).1.pollCur = _ from congrArg TaskView.pollCur htv]
        cases s.pollCur <;> rfl
      · rw [show (recv s m).1.pollCur = _ from congrArg TaskView.pollCur htv]
        rfl
    · intro hw
      split at htv
      · rw [show (recv s m).1.initWaits = _ from congrArg TaskView.initWaits htv]; exact hw
      · rw [show (recv s m).1.initWaits = _ from congrArg TaskView.initWaits htv]; exact hw

theorem firePoll_open (c : Bool) (t d : Nat) : ((firePoll c true t d).1).isSome = true := by
  unfold firePoll
  split
  · split <;> rfl
  · rfl

theorem sockFacts_tick {s : State} (f : SockFacts s) (hcl : s.st ≠ .CLOSED) : SockFacts (tick s).1 := by
  have ho : s.sockOpen = true := f.open_iff.mpr hcl
  have hsub := f.subscribed hcl
  have hcore := core_tick s
  have htv := taskView_tick s
  have hhv := hbView_tick s
  have e1 : (tick s).1.st = s.st := congrArg Core.st hcore
  refine f.frame (by rw [e1]; exact hcl) (by rw [e1]; exact id) ((congrArg Core.sockOpen hcore).trans ho)
    ((congrArg Core.subscribed hcore).trans hsub) (congrArg Core.initialised hcore) ?_ ?_ ?_
  · rw [show (tick s).1.pollCur = _ from congrArg TaskView.pollCur htv, ho]
    cases s.pollCur with
    | none => rfl
    | some d => simp only [Option.map_some, Option.bind_some, Option.isSome_some]; exact firePoll_open _ _ _
  · rw [show (tick s).1.hb = _ from congrArg HbView.hb hhv, hbIdle_tickHB]
  · intro hw
    rw [show (tick s).1.initWaits = _ from congrArg TaskView.initWaits htv, hw]
    rfl

theorem sockFacts_advance (n : Nat) {s : State} (f : SockFacts s) (hcl : s.st ≠ .CLOSED) :
    SockFacts (advance n s).1 := by
  induction n generalizing s with
  | zero => exact f
  | succ n ih =>
    have e1 : (tick s).1.st = s.st := congrArg Core.st (core_tick s)
    exact ih (sockFacts_tick f hcl) (by rw [e1]; exact hcl)

/-- **every op preserves the socket-open facts** -/
theorem sockFacts_step {s : State} (f : SockFacts s) (op : Op) : SockFacts (apiStep s op).1 := by
  by_cases hcl : s.st = .CLOSED
  · have hc := f.closed hcl
    cases op with
    | init => exact sockFacts_init f
    | shutdown => exact sockFacts_of_closed (closed_step hc _ rfl).1
    | conn up => exact sockFacts_of_closed (closed_step hc _ rfl).1
    | msg mid payload => exact sockFacts_of_closed (closed_step hc _ rfl).1
    | recv m => exact sockFacts_of_closed (closed_step hc _ rfl).1
    | call c => exact sockFacts_of_closed (closed_step hc _ rfl).1
    | callBad c => exact sockFacts_of_closed (closed_step hc _ rfl).1
    | sub t sid r => exact sockFacts_of_closed (closed_step hc _ rfl).1
    | unsub t sid => exact sockFacts_of_closed (closed_step hc _ rfl).1
    | adv n => exact sockFacts_of_closed (closed_step hc _ rfl).1
    | view => exact sockFacts_of_closed (closed_step hc _ rfl).1
  · have ho : s.sockOpen = true := f.open_iff.mpr hcl
    have hsub := f.subscribed hcl
    cases op with
    | init => exact sockFacts_init f
    | shutdown => exact sockFacts_of_closed (shutdown_state s).1
    | conn up =>
      have hidle : hbIdle (hbApply { s.hb with now := s.now } (.conn up)) = hbIdle s.hb := by
        rw [hbIdle_apply _ _ (by simp) (by simp)]; rfl
      simp only [apiStep, onConn, hsub, Bool.not_true, Bool.false_eq_true, ↓reduceIte]
      split
      · next h =>
        have hs : s.st = .CONNECTING := by
          simp only [Bool.and_eq_true, beq_iff_eq] at h; exact h.2
        (try split) <;>
          exact f.frame (by intro h; cases h) (by intro h; cases h) ho rfl rfl rfl hidle id
      · split
        · (try split) <;> exact f.frame hcl id ho rfl rfl rfl hidle id
        · exact f.frame hcl id ho rfl rfl rfl hidle id
    | msg mid payload =>
      simp only [apiStep]
      split
      · exact sockFacts_recv f hcl _
      · exact f
    | recv m => exact sockFacts_recv f hcl m
    | call c => exact f
    | callBad c => exact f
    | sub t sid r => exact sockFacts_subUnsub f hcl t _
    | unsub t sid => exact sockFacts_subUnsub f hcl t _
    | adv n => exact sockFacts_advance n f hcl
    | view => simp only [apiStep]; split <;> exact f

theorem sockFacts_run {s : State} (f : SockFacts s) (ops : List Op) : SockFacts (run s ops).1 := by
  induction ops generalizing s with
  | nil => exact f
  | cons op ops ih => exact ih (sockFacts_step f op)

/-- **the socket-open facts hold in every reachable state** -/
theorem reach_sockFacts {s : State} (h : Reach4 s) : SockFacts s := by
  obtain ⟨ops, e⟩ := h
  rw [← e]
  exact sockFacts_run sockFacts_initial ops

/-- the heap invariant, restated -/
theorem reach_inv {s : State} (h : Reach4 s) : Inv s := by
  obtain ⟨ops, e⟩ := h
  rw [← e]
  exact Inv_run Inv_initial ops

/-- the heartbeat invariant, restated -/
theorem reach_hbWf {s : State} (h : Reach4 s) : HbWf s := by
  obtain ⟨ops, e⟩ := h
  rw [← e]
  exact hbWf_run ops hbWf_initial

/-! ## every pending deadline lies ahead of the clock -/

/-- the deadline of every poll task (current or orphaned) is strictly ahead of the clock and at most 300 s away;
    the deadline of every waiting `init()` is strictly ahead and at most 5 s away -/
structure Ahead (s : State) : Prop where
  poll : ∀ d, s.pollCur = some d → s.now < d ∧ d ≤ s.now + Api4.GROUP_STATUS_TIMEOUT
  orphans : ∀ d ∈ s.pollOrphans, s.now < d ∧ d ≤ s.now + Api4.GROUP_STATUS_TIMEOUT
  waits : ∀ d ∈ s.initWaits, s.now < d ∧ d ≤ s.now + Api4.INIT_TIMEOUT

theorem Ahead.of_fields {s t : State} (a : Ahead s) (e1 : t.pollCur = s.pollCur) (e2 : t.pollOrphans = s.pollOrphans)
    (e3 : t.initWaits = s.initWaits) (e4 : t.now = s.now) : Ahead t :=
  ⟨(by rw [e1, e4]; exact a.poll), (by rw [e2, e4]; exact a.orphans), (by rw [e3, e4]; exact a.waits)⟩

theorem Ahead.of_view {s t : State} (a : Ahead s) (h : taskView t = taskView s) : Ahead t :=
  a.of_fields (congrArg TaskView.pollCur h) (congrArg TaskView.pollOrphans h) (congrArg TaskView.initWaits h)
    (congrArg TaskView.now h)

theorem ahead_initial : Ahead State.initial :=
  ⟨fun d h => (by cases h), fun d h => (by cases h), fun d h => (by cases h)⟩

theorem taskView_subUnsub (s : State) (t : Target) (f : List Sub → List Sub) :
    taskView (subUnsub s t f).1 = taskView s := by
  unfold subUnsub
  cases t with
  | airtouch => rfl
  | ac i general =>
    simp only
    cases s.findAc i with
    | none => rfl
    | some a => simp only; rw [setAc_frame]; rfl
  | zone i =>
    simp only
    cases s.findZone i with
    | none => rfl
    | some zi =>
      simp only
      cases s.zoneObjs[zi]? with
      | none => rfl
      | some z => rfl

theorem taskView_onConn (s : State) (up : Bool) : taskView (onConn s up).1 = taskView s := by
  unfold onConn
  split
  · rfl
  · split
    · split <;> rfl
    · split
      · split <;> rfl
      · rfl

theorem firePoll_ahead (c o : Bool) (n d d' : Nat) (h : n < d ∧ d ≤ n + Api4.GROUP_STATUS_TIMEOUT)
    (hf : (firePoll c o (n + 1) d).1 = some d') : n + 1 < d' ∧ d' ≤ n + 1 + Api4.GROUP_STATUS_TIMEOUT := by
  have hT : 0 < Api4.GROUP_STATUS_TIMEOUT := by decide
  unfold firePoll at hf
  split at hf
  · split at hf
    · split at hf
      · simp only [Option.some.injEq] at hf; omega
      · cases hf
    · simp only [Option.some.injEq] at hf; omega
  · simp only [Option.some.injEq] at hf; omega

theorem ahead_tick {s : State} (a : Ahead s) : Ahead (tick s).1 := by
  have htv := taskView_tick s
  have e1 : (tick s).1.pollCur = _ := congrArg TaskView.pollCur htv
  have e2 : (tick s).1.pollOrphans = _ := congrArg TaskView.pollOrphans htv
  have e3 : (tick s).1.initWaits = _ := congrArg TaskView.initWaits htv
  have e4 : (tick s).1.now = _ := congrArg TaskView.now htv
  simp only at e1 e2 e3 e4
  refine ⟨?_, ?_, ?_⟩
  · intro d hd
    rw [e1] at hd
    rw [e4]
    cases hc : s.pollCur with
    | none => rw [hc] at hd; cases hd
    | some d0 =>
      rw [hc] at hd
      exact firePoll_ahead _ _ _ _ _ (a.poll d0 hc) hd
  · intro d hd
    rw [e2] at hd
    rw [e4]
    simp only [List.mem_filterMap, List.mem_map] at hd
    obtain ⟨x, ⟨d0, hd0, rfl⟩, hx⟩ := hd
    exact firePoll_ahead _ _ _ _ _ (a.orphans d0 hd0) hx
  · intro d hd
    rw [e3] at hd
    rw [e4]
    simp only [List.mem_filter, Bool.not_eq_eq_eq_not, Bool.not_true, decide_eq_false_iff_not] at hd
    have := a.waits d hd.1
    omega

theorem ahead_advance (n : Nat) {s : State} (a : Ahead s) : Ahead (advance n s).1 := by
  induction n generalizing s with
  | zero => exact a
  | succ n ih => exact ih (ahead_tick a)

theorem ahead_recv {s : State} (a : Ahead s) (m : RMsg) : Ahead (recv s m).1 := by
  have hT : 0 < Api4.GROUP_STATUS_TIMEOUT := by decide
  have htv := taskView_recv s m
  split at htv
  · have e1 : (recv s m).1.pollCur = _ := congrArg TaskView.pollCur htv
    have e2 : (recv s m).1.pollOrphans = _ := congrArg TaskView.pollOrphans htv
    have e3 : (recv s m).1.initWaits = _ := congrArg TaskView.initWaits htv
    have e4 : (recv s m).1.now = _ := congrArg TaskView.now htv
    simp only at e1 e2 e3 e4
    refine ⟨?_, ?_, ?_⟩
    · intro d hd; rw [e1] at hd; rw [e4]; cases hd; omega
    · intro d hd
      rw [e2] at hd; rw [e4]
      rcases List.mem_append.mp hd with h | h
      · exact a.orphans d h
      · cases hc : s.pollCur with
        | none => rw [hc] at h; cases h
        | some d0 =>
          rw [hc] at h
          simp only [Option.toList_some, List.mem_singleton] at h
          subst h; exact a.poll d hc
    · intro d hd; rw [e3] at hd; cases hd
  · split at htv
    · have e1 : (recv s m).1.pollCur = _ := congrArg TaskView.pollCur htv
      have e2 : (recv s m).1.pollOrphans = _ := congrArg TaskView.pollOrphans htv
      have e3 : (recv s m).1.initWaits = _ := congrArg TaskView.initWaits htv
      have e4 : (recv s m).1.now = _ := congrArg TaskView.now htv
      simp only at e1 e2 e3 e4
      refine ⟨?_, ?_, ?_⟩
      · intro d hd; rw [e1] at hd; rw [e4]
        cases hc : s.pollCur with
        | none => rw [hc] at hd; cases hd
        | some d0 =>
          rw [hc] at hd
          simp only [Option.map_some, Option.some.injEq] at hd
          omega
      · intro d hd; rw [e2] at hd; rw [e4]
        simp only [List.mem_map] at hd
        obtain ⟨_, _, hd⟩ := hd
        omega
      · rw [e3, e4]; exact a.waits
    · exact a.of_view htv

/-- **every op keeps the deadlines ahead** -/
theorem ahead_step {s : State} (a : Ahead s) (op : Op) : Ahead (apiStep s op).1 := by
  cases op with
  | init =>
    simp only [apiStep, doInit]
    split
    · exact ⟨a.poll, a.orphans, a.waits⟩
    · refine ⟨a.poll, a.orphans, ?_⟩
      intro d hd
      have hT : 0 < Api4.INIT_TIMEOUT := by decide
      show s.now < d ∧ d ≤ s.now + Api4.INIT_TIMEOUT
      rcases List.mem_append.mp hd with h | h
      · exact a.waits d h
      · simp only [List.mem_singleton] at h
        omega
  | shutdown => exact ⟨fun d h => (by cases h), a.orphans, a.waits⟩
  | conn up =>
    simp only [apiStep]
    have h := taskView_onConn { s with sockConnected := up, hb := hbApply { s.hb with now := s.now } (.conn up) } up
    exact a.of_fields (congrArg TaskView.pollCur h) (congrArg TaskView.pollOrphans h) (congrArg TaskView.initWaits h)
      (congrArg TaskView.now h)
  | msg mid payload =>
    simp only [apiStep]
    split
    · exact ahead_recv a _
    · exact a
  | recv m => exact ahead_recv a m
  | call c => exact a
  | callBad c => exact a
  | sub t sid r => exact a.of_view (taskView_subUnsub s t _)
  | unsub t sid => exact a.of_view (taskView_subUnsub s t _)
  | adv n => exact ahead_advance n a
  | view => simp only [apiStep]; split <;> exact a

theorem reach_ahead {s : State} (h : Reach4 s) : Ahead s :=
  Reach4.induct (P := Ahead) ahead_initial (fun s op _ a => ahead_step a op) h

/-! ## the discipline -/

/-- what the calling discipline adds: no orphaned poll task; the initialised event, the current poll task and the
    running heartbeat exist exactly in state `CONNECTED` -/
structure DiscFacts (s : State) : Prop where
  orphans : s.pollOrphans = []
  init_iff : s.initialised = true ↔ s.st = .CONNECTED
  poll_iff : s.pollCur.isSome = true ↔ s.st = .CONNECTED
  hb_iff : hbIdle s.hb = false ↔ s.st = .CONNECTED

theorem reachD_discFacts {s : State} (h : ReachD4 s) : DiscFacts s := by
  have f := reach_sockFacts h.reach
  obtain ⟨ops, hd, e⟩ := h
  have j : NoOrphan s := by
    rw [← e]
    exact noOrphans_disciplined_from ⟨rfl, fun _ => rfl⟩ true (fun _ => State.initial_closed) ops hd
  have hp : s.pollCur.isSome = true ↔ s.st = .CONNECTED := by
    constructor
    · intro hs
      apply Classical.byContradiction
      intro hne
      rw [j.cur hne] at hs; cases hs
    · intro hc
      rw [f.poll_iff]; exact f.connected_init hc
  refine ⟨j.orphans, ?_, hp, ?_⟩
  · rw [← f.poll_iff]; exact hp
  · rw [f.hb_iff, ← hp, f.poll_iff]
    cases s.initialised <;> simp

/-! ## the poll tasks under the clock, orphans included -/

/-- one poll task at the tick that moves the clock to `t` -/
def pollStep (t d : Nat) : Nat := if d ≤ t then t + Api4.GROUP_STATUS_TIMEOUT else d

theorem firePoll_safe (c o : Bool) (t d : Nat) (h : c = true → o = true) :
    firePoll c o t d = (some (pollStep t d), if decide (d ≤ t) && c then [pollEv] else []) := by
  unfold firePoll pollStep
  by_cases hd : d ≤ t
  · cases c with
    | true => simp [hd, h rfl, pollEv]
    | false => simp [hd]
  · simp [hd]

/-- the deadline of a poll task after `n` ticks from time `now` -/
def pollRun : Nat → Nat → Nat → Nat
  | 0, _, d => d
  | n+1, now, d => pollRun n (now + 1) (pollStep (now + 1) d)

/-- how often it expired meanwhile -/
def pollFires : Nat → Nat → Nat → Nat
  | 0, _, _ => 0
  | n+1, now, d => (if d ≤ now + 1 then 1 else 0) + pollFires n (now + 1) (pollStep (now + 1) d)

theorem poll_closed (n now d : Nat) (hd : now < d) :
    pollRun n now d = d + Api4.GROUP_STATUS_TIMEOUT * deadlinesUpTo d Api4.GROUP_STATUS_TIMEOUT (now + n) ∧
    pollFires n now d = deadlinesUpTo d Api4.GROUP_STATUS_TIMEOUT (now + n) := by
  have hT : 0 < Api4.GROUP_STATUS_TIMEOUT := by decide
  induction n generalizing now d with
  | zero => simp [pollRun, pollFires, deadlinesUpTo_before _ _ _ hd]
  | succ n ih =>
    simp only [pollRun, pollFires]
    have hnn : now + 1 + n = now + (n + 1) := by omega
    by_cases hf : d ≤ now + 1
    · have hshift := deadlinesUpTo_shift d Api4.GROUP_STATUS_TIMEOUT (now + (n + 1)) hT (by omega)
      have hdeq : d = now + 1 := by omega
      have hp : pollStep (now + 1) d = d + Api4.GROUP_STATUS_TIMEOUT := by simp [pollStep, hf, hdeq]
      obtain ⟨i1, i2⟩ := ih (now + 1) (d + Api4.GROUP_STATUS_TIMEOUT) (by omega)
      rw [hp, i1, i2, hnn, hshift]
      simp only [hf, ↓reduceIte]
      constructor
      · rw [Nat.mul_add, Nat.mul_one]; omega
      · trivial
    · have hp : pollStep (now + 1) d = d := by simp [pollStep, hf]
      obtain ⟨i1, i2⟩ := ih (now + 1) d (by omega)
      rw [hp, i1, i2, hnn]
      simp [hf]

theorem countP_add_sum (p : Nat → Bool) (f : Nat → Nat) (l : List Nat) :
    l.countP p + (l.map f).sum = (l.map (fun d => (if p d then 1 else 0) + f d)).sum := by
  induction l with
  | nil => rfl
  | cons x xs ih =>
    simp only [List.countP_cons, List.map_cons, List.sum_cons]
    cases p x <;> simp <;> omega

/-- one tick while "connected implies open" (every reachable state that is not a `Closed` one with a stale
    `conn 1`): every poll task - current and orphaned - whose deadline is reached re-arms, and sends a group-status
    request if the socket is connected -/
theorem tick_polls (s : State) (hopen : s.sockConnected = true → s.sockOpen = true) :
    (tick s).1.pollCur = s.pollCur.map (pollStep (s.now + 1)) ∧
    (tick s).1.pollOrphans = s.pollOrphans.map (pollStep (s.now + 1)) ∧
    (tick s).2.count pollEv =
      (if s.sockConnected then (s.pollOrphans ++ s.pollCur.toList).countP (fun d => decide (d ≤ s.now + 1)) else 0) := by
  have htv := taskView_tick s
  have e1 : (tick s).1.pollCur = _ := congrArg TaskView.pollCur htv
  have e2 : (tick s).1.pollOrphans = _ := congrArg TaskView.pollOrphans htv
  simp only at e1 e2
  have hfp : firePoll s.sockConnected s.sockOpen (s.now + 1) =
      fun d => (some (pollStep (s.now + 1) d), if decide (d ≤ s.now + 1) && s.sockConnected then [pollEv] else []) := by
    funext d; exact firePoll_safe _ _ _ _ hopen
  refine ⟨?_, ?_, ?_⟩
  · rw [e1, hfp]; cases s.pollCur <;> rfl
  · rw [e2, hfp, List.filterMap_map]
    have : ∀ l : List Nat, List.filterMap (some ∘ pollStep (s.now + 1)) l = l.map (pollStep (s.now + 1)) := by
      intro l
      induction l with
      | nil => rfl
      | cons x xs ih => simp [List.filterMap_cons, ih]
    exact this _
  · rw [tick_pollCount, hfp]
    have hl : ∀ l : List Nat,
        ((l.map (fun d => ((some (pollStep (s.now + 1) d) : Option Nat),
            if decide (d ≤ s.now + 1) && s.sockConnected then [pollEv] else []))).flatMap (·.2)).count pollEv =
          (if s.sockConnected then l.countP (fun d => decide (d ≤ s.now + 1)) else 0) := by
      intro l
      induction l with
      | nil => simp
      | cons x xs ih =>
        simp only [List.map_cons, List.flatMap_cons, List.count_append, ih, List.countP_cons]
        cases s.sockConnected <;> by_cases hx : x ≤ s.now + 1 <;> simp [hx] <;> omega
    rw [hl, List.countP_append]
    cases s.pollCur with
    | none => cases s.sockConnected <;> simp
    | some d =>
      cases s.sockConnected <;> by_cases hx : d ≤ s.now + 1 <;> simp [hx]

/-- **`adv n`, orphans included**: every poll task runs on with its own phase -/
theorem advance_polls (n : Nat) (s : State) (hopen : s.sockConnected = true → s.sockOpen = true) :
    (advance n s).1.pollCur = s.pollCur.map (pollRun n s.now) ∧
    (advance n s).1.pollOrphans = s.pollOrphans.map (pollRun n s.now) ∧
    (advance n s).2.count pollEv =
      (if s.sockConnected then ((s.pollOrphans ++ s.pollCur.toList).map (pollFires n s.now)).sum else 0) := by
  induction n generalizing s with
  | zero =>
    refine ⟨?_, ?_, ?_⟩
    · simp only [advance]; cases s.pollCur <;> rfl
    · simp only [advance]
      show s.pollOrphans = s.pollOrphans.map (fun d => d)
      simp
    · simp only [advance, List.count_nil]
      have : ∀ l : List Nat, (l.map (pollFires 0 s.now)).sum = 0 := by
        intro l; induction l with
        | nil => rfl
        | cons x xs ih => rw [List.map_cons, List.sum_cons, ih]; rfl
      rw [this]; simp
  | succ n ih =>
    obtain ⟨t1, t2, t3⟩ := tick_polls s hopen
    have htv := taskView_tick s
    have e4 : (tick s).1.now = s.now + 1 := congrArg TaskView.now htv
    have e5 : (tick s).1.sockConnected = s.sockConnected := congrArg TaskView.sockConnected htv
    have e6 : (tick s).1.sockOpen = s.sockOpen := congrArg TaskView.sockOpen htv
    obtain ⟨i1, i2, i3⟩ := ih (tick s).1 (by rw [e5, e6]; exact hopen)
    simp only [advance, List.count_append]
    refine ⟨?_, ?_, ?_⟩
    · rw [i1, t1, e4]; cases s.pollCur <;> rfl
    · rw [i2, t2, e4, List.map_map]; rfl
    · rw [i3, t3, t1, t2, e4, e5]
      cases s.sockConnected with
      | false => simp
      | true =>
        simp only [↓reduceIte]
        have hl : s.pollOrphans.map (pollStep (s.now + 1)) ++ (s.pollCur.map (pollStep (s.now + 1))).toList =
            (s.pollOrphans ++ s.pollCur.toList).map (pollStep (s.now + 1)) := by
          cases s.pollCur <;> simp
        rw [hl, List.map_map, countP_add_sum]
        congr 1
        apply List.map_congr_left
        intro d _
        simp [pollFires]

/-- … in closed form when every deadline lies ahead (always, in a reachable state: `reach_ahead`): the task with
    deadline `d` sends at `d`, `d + 2400`, `d + 4800`, … -/
theorem advance_polls_closed (n : Nat) (s : State) (hopen : s.sockConnected = true → s.sockOpen = true)
    (hah : ∀ d ∈ s.pollOrphans ++ s.pollCur.toList, s.now < d) :
    (advance n s).1.pollCur =
      s.pollCur.map (fun d => d + Api4.GROUP_STATUS_TIMEOUT * deadlinesUpTo d Api4.GROUP_STATUS_TIMEOUT (s.now + n)) ∧
    (advance n s).1.pollOrphans =
      s.pollOrphans.map (fun d => d + Api4.GROUP_STATUS_TIMEOUT * deadlinesUpTo d Api4.GROUP_STATUS_TIMEOUT (s.now + n)) ∧
    (advance n s).2.count pollEv =
      (if s.sockConnected then
        ((s.pollOrphans ++ s.pollCur.toList).map (fun d => deadlinesUpTo d Api4.GROUP_STATUS_TIMEOUT (s.now + n))).sum
       else 0) := by
  obtain ⟨h1, h2, h3⟩ := advance_polls n s hopen
  refine ⟨?_, ?_, ?_⟩
  · rw [h1]
    cases hc : s.pollCur with
    | none => rfl
    | some d =>
      simp only [Option.map_some, Option.some.injEq]
      exact (poll_closed n s.now d (hah d (by simp [hc]))).1
  · rw [h2]
    apply List.map_congr_left
    intro d hd
    exact (poll_closed n s.now d (hah d (List.mem_append_left _ hd))).1
  · rw [h3]
    congr 2
    apply List.map_congr_left
    intro d hd
    exact (poll_closed n s.now d (hah d hd)).2

/-- no poll task sends while the socket is not open -/
theorem tick_polls_notOpen (s : State) (ho : s.sockOpen = false) : (tick s).2.count pollEv = 0 := by
  rw [tick_pollCount, ho]
  have h1 : ∀ l : List Nat, ((l.map (firePoll s.sockConnected false (s.now + 1))).flatMap (·.2)) = [] := by
    intro l
    induction l with
    | nil => rfl
    | cons x xs ih => simp only [List.map_cons, List.flatMap_cons, ih, firePoll_notOpen, List.append_nil]
  rw [h1]
  cases s.pollCur with
  | none => rfl
  | some d => simp [firePoll_notOpen]

/-- **an orphaned poll task on a shut-down object whose socket reports a connection** (`conn 1` after
    `shutdown()`): at its deadline it dies silently (`NotOpenError` out of `send`); nothing is sent -/
theorem advance_polls_dead (n : Nat) (s : State) (hc : s.sockConnected = true) (ho : s.sockOpen = false)
    (hah : ∀ d ∈ s.pollOrphans, s.now < d) :
    (advance n s).1.pollOrphans = s.pollOrphans.filter (fun d => decide (s.now + n < d)) ∧
    (advance n s).2.count pollEv = 0 := by
  induction n generalizing s with
  | zero =>
    simp only [advance, List.count_nil, Nat.add_zero, and_true]
    symm
    apply List.filter_eq_self.mpr
    intro d hd
    simpa using hah d hd
  | succ n ih =>
    have htv := taskView_tick s
    have e2 : (tick s).1.pollOrphans = _ := congrArg TaskView.pollOrphans htv
    have e4 : (tick s).1.now = s.now + 1 := congrArg TaskView.now htv
    have e5 : (tick s).1.sockConnected = s.sockConnected := congrArg TaskView.sockConnected htv
    have e6 : (tick s).1.sockOpen = s.sockOpen := congrArg TaskView.sockOpen htv
    simp only at e2
    have hf : (tick s).1.pollOrphans = s.pollOrphans.filter (fun d => decide (s.now + 1 < d)) := by
      rw [e2, hc, ho, List.filterMap_map]
      have : ∀ l : List Nat, List.filterMap ((fun x => x.1) ∘ firePoll true false (s.now + 1)) l =
          l.filter (fun d => decide (s.now + 1 < d)) := by
        intro l
        induction l with
        | nil => rfl
        | cons x xs ih =>
          rw [List.filterMap_cons, List.filter_cons, ih]
          simp only [Function.comp, (firePoll_cases false (s.now + 1) x).2.1]
          by_cases hx : x ≤ s.now + 1
          · have : ¬ s.now + 1 < x := by omega
            simp [hx, this]
          · have : s.now + 1 < x := by omega
            simp [hx, this]
      exact this _
    have hah' : ∀ d ∈ (tick s).1.pollOrphans, (tick s).1.now < d := by
      intro d hd
      rw [hf] at hd
      rw [e4]
      simpa using (List.mem_filter.mp hd).2
    obtain ⟨i1, i2⟩ := ih (tick s).1 (e5.trans hc) (e6.trans ho) hah'
    simp only [advance, List.count_append, i2, tick_polls_notOpen s ho, Nat.add_zero, and_true]
    rw [i1, hf, e4, List.filter_filter]
    apply List.filter_congr
    intro d _
    by_cases h1 : s.now + (n + 1) < d
    · have h2 : s.now + 1 + n < d := by omega
      have h3 : s.now + 1 < d := by omega
      simp [h1, h2, h3]
    · have h2 : ¬ s.now + 1 + n < d := by omega
      simp [h1, h2]

/-! ## the documented facts, one by one

`Model/Api4.lean` documents: "in reachable states a state `≠ CLOSED`, a running heartbeat, a live current poll task
and a non-empty air-conditioner dictionary all imply an open socket". -/

/-- handshake state `≠ CLOSED` → socket open (and conversely) -/
theorem open_iff_not_closed {s : State} (h : Reach4 s) : s.sockOpen = true ↔ s.st ≠ .CLOSED :=
  (reach_sockFacts h).open_iff

/-- heartbeat running → socket open, the initialised event set -/
theorem open_of_hb_running {s : State} (h : Reach4 s) (hr : hbIdle s.hb = false) :
    s.sockOpen = true ∧ s.initialised = true := by
  have f := reach_sockFacts h
  have hi : s.initialised = true := by
    have := f.hb_iff; rw [hr] at this
    cases hi : s.initialised with
    | true => rfl
    | false => rw [hi] at this; cases this
  exact ⟨f.open_iff.mpr (f.init_open hi), hi⟩

/-- a live current poll task → socket open, state not `CLOSED`, the initialised event set, the heartbeat running, the
    deadline ahead.  NOT `CONNECTED`: see `poll_without_connected`. -/
theorem open_of_poll {s : State} (h : Reach4 s) {d : Nat} (hp : s.pollCur = some d) :
    s.sockOpen = true ∧ s.st ≠ .CLOSED ∧ s.initialised = true ∧ hbIdle s.hb = false ∧
    s.now < d ∧ d ≤ s.now + Api4.GROUP_STATUS_TIMEOUT := by
  have f := reach_sockFacts h
  have hi : s.initialised = true := by rw [← f.poll_iff, hp]; rfl
  have hb : hbIdle s.hb = false := by rw [f.hb_iff, hi]; rfl
  exact ⟨f.open_iff.mpr (f.init_open hi), f.init_open hi, hi, hb, (reach_ahead h).poll d hp⟩

/-- a non-empty dictionary or object heap → socket open -/
theorem open_of_model {s : State} (h : Reach4 s)
    (hm : s.acDict ≠ [] ∨ s.zoneDict ≠ [] ∨ s.acObjs ≠ [] ∨ s.zoneObjs ≠ []) : s.sockOpen = true := by
  have f := reach_sockFacts h
  apply f.open_iff.mpr
  intro hc
  obtain ⟨e1, e2, e3, e4⟩ := f.closed_empty hc
  rcases hm with h | h | h | h
  · exact h e1
  · exact h e2
  · exact h e3
  · exact h e4

/-- the initialised event set → socket open, state not `CLOSED`, nobody waiting in `init()`, and (both ways) a live
    current poll task and a running heartbeat.  NOT `CONNECTED`: see `initialised_without_connected`. -/
theorem open_of_initialised {s : State} (h : Reach4 s) (hi : s.initialised = true) :
    s.sockOpen = true ∧ s.st ≠ .CLOSED ∧ s.initWaits = [] ∧ s.pollCur.isSome = true ∧ hbIdle s.hb = false := by
  have f := reach_sockFacts h
  exact ⟨f.open_iff.mpr (f.init_open hi), f.init_open hi, f.init_nowaits hi, by rw [f.poll_iff, hi],
    by rw [f.hb_iff, hi]; rfl⟩

/-- `CONNECTED` → initialised (hence all of the above) -/
theorem initialised_of_connected {s : State} (h : Reach4 s) (hc : s.st = .CONNECTED) : s.initialised = true :=
  (reach_sockFacts h).connected_init hc

/-- the socket is not open exactly in the `Closed` states (everything `shutdown()` resets is reset) -/
theorem closed_iff_not_open {s : State} (h : Reach4 s) : s.sockOpen = false ↔ Closed s := by
  have f := reach_sockFacts h
  constructor
  · intro ho
    apply f.closed
    apply Classical.byContradiction
    intro hne
    rw [f.open_iff.mpr hne] at ho; cases ho
  · intro hc; exact hc.sockOpen

/-- "socket connected → socket open" fails exactly in `Closed` states with a stale `conn 1`; everywhere else the
    timers' sends are safe -/
theorem open_or_closed {s : State} (h : Reach4 s) : s.sockOpen = true ∨ Closed s := by
  cases ho : s.sockOpen with
  | true => exact Or.inl rfl
  | false => exact Or.inr ((closed_iff_not_open h).mp ho)

/-- `init()` a second time without `shutdown()` -/
def reinitOps : List Op := demoOps ++ [.init]

/-- **"a live current poll ⇒ `CONNECTED`" and "initialised ⇒ `CONNECTED`" are false** for reachable states in general:
    after `init, conn 1, ⟨six answers⟩, init` the state is `CONNECTING` while the initialised event is set, the poll
    task of the first handshake is alive and the heartbeat runs -/
theorem poll_without_connected :
    Reach4 (run State.initial reinitOps).1 ∧ (run State.initial reinitOps).1.st = .CONNECTING ∧
    (run State.initial reinitOps).1.pollCur = some 2400 ∧ (run State.initial reinitOps).1.initialised = true ∧
    hbIdle (run State.initial reinitOps).1.hb = false ∧ (run State.initial reinitOps).1.acDict ≠ [] ∧
    disciplined true reinitOps = false :=
  ⟨⟨_, rfl⟩, by decide, by decide, by decide, by decide, by decide, by decide⟩

theorem initialised_without_connected :
    ∃ s, Reach4 s ∧ s.initialised = true ∧ s.st ≠ .CONNECTED :=
  ⟨_, poll_without_connected.1, poll_without_connected.2.2.2.1, by rw [poll_without_connected.2.1]; intro h; cases h⟩

/-- … and true under the discipline -/
theorem connected_of_initialised_disciplined {s : State} (h : ReachD4 s) (hi : s.initialised = true) :
    s.st = .CONNECTED := (reachD_discFacts h).init_iff.mp hi

theorem connected_of_poll_disciplined {s : State} (h : ReachD4 s) {d : Nat} (hp : s.pollCur = some d) :
    s.st = .CONNECTED := (reachD_discFacts h).poll_iff.mp (by rw [hp]; rfl)

theorem demo_reachD : ReachD4 demo := ⟨demoOps, by decide, rfl⟩

/-! ## passive op lists: the connection flag, the events -/

/-- the op is the loss of the connection -/
def dropsConn : Op → Bool
  | .conn false => true
  | _ => false

theorem sockConnected_passive_step (s : State) (op : Op) (hp : passive op = true) :
    (apiStep s op).1.sockConnected = (s.sockConnected && !dropsConn op) ∧ (apiStep s op).1.now = s.now := by
  have h : (apiStep s op).1.sockConnected = _ := congrArg HbView.sockConnected (hbView_apiStep s op)
  have h' : (apiStep s op).1.now = _ := congrArg HbView.now (hbView_apiStep s op)
  cases op with
  | recv m => exact ⟨by simpa [dropsConn] using h, h'⟩
  | msg mid payload => exact ⟨by simpa [dropsConn] using h, h'⟩
  | conn up =>
    cases up with
    | true => simp [passive] at hp
    | false => exact ⟨by simpa [dropsConn] using h, h'⟩
  | _ => simp [passive] at hp

theorem sockConnected_passive_run (s : State) (ops : List Op) (hops : ∀ op ∈ ops, passive op = true) :
    (run s ops).1.sockConnected = (s.sockConnected && !ops.any dropsConn) ∧ (run s ops).1.now = s.now := by
  induction ops generalizing s with
  | nil => simp [run]
  | cons op ops ih =>
    obtain ⟨h1, h2⟩ := sockConnected_passive_step s op (hops op List.mem_cons_self)
    obtain ⟨i1, i2⟩ := ih (apiStep s op).1 (fun o ho => hops o (List.mem_cons_of_mem _ ho))
    simp only [run]
    refine ⟨?_, i2.trans h2⟩
    rw [i1, h1, List.any_cons]
    cases s.sockConnected <;> cases dropsConn op <;> simp

theorem answerKind_of_completes {s : State} {m : RMsg} (h : completes s m = true) : answerKind s.st m = true := by
  obtain ⟨hst, l, rfl⟩ := (completes_iff s m).mp h
  rw [hst]; rfl

theorem completes_false_of {s : State} {m : RMsg} (hn : answerKind s.st m = false ∨ s.st ≠ .INIT_GROUP_STATUS) :
    (s.subscribed && completes s m) = false := by
  cases hc : completes s m with
  | false => simp
  | true =>
    rcases hn with h | h
    · rw [answerKind_of_completes hc] at h; cases h
    · exact absurd ((completes_iff s m).mp hc).1 h

/-- a passive op that does not complete the handshake: no `RESULT`, no `HBSTART`, no `RESET`, no heartbeat request -/
theorem plain_passive_step (s : State) (op : Op) (hp : passive op = true)
    (hn : answers s.st op = false ∨ s.st ≠ .INIT_GROUP_STATUS) : Plain (apiStep s op).2 := by
  cases op with
  | recv m => exact plain_recv s m (completes_false_of hn)
  | msg mid payload =>
    simp only [apiStep]
    split
    · next m hm =>
      simp only [answers, hm] at hn
      exact plain_recv s m (completes_false_of hn)
    · exact plain_single rfl
  | conn up =>
    cases up with
    | true => simp [passive] at hp
    | false =>
      have : (apiStep s (.conn false)).2 = [] := by
        simp only [apiStep, onConn]; split <;> simp
      rw [this]; exact plain_nil
  | _ => simp [passive] at hp

/-- … over a passive op list that does not reach `CONNECTED` -/
theorem plain_passive_run (s : State) (hsub : s.subscribed = true) (ops : List Op)
    (hops : ∀ op ∈ ops, passive op = true) (hle : stage (run s ops).1.st ≤ 7) : Plain (run s ops).2 := by
  induction ops generalizing s with
  | nil => exact plain_nil
  | cons op ops ih =>
    have hp := hops op List.mem_cons_self
    obtain ⟨hsub1, _⟩ := passive_step s hsub op hp
    have hmono := (passive_run (apiStep s op).1 hsub1 ops (fun o ho => hops o (List.mem_cons_of_mem _ ho))).1
    simp only [run] at hle ⊢
    apply plain_append
    · apply plain_passive_step s op hp
      by_cases hg : s.st = .INIT_GROUP_STATUS
      · left
        cases ha : answers s.st op with
        | false => rfl
        | true =>
          have := answers_final s hsub op hg ha
          rw [this] at hmono
          have : stage Api4.AirTouchState.CONNECTED = 8 := rfl
          omega
      · exact Or.inr hg
    · exact ih (apiStep s op).1 hsub1 (fun o ho => hops o (List.mem_cons_of_mem _ ho)) hle

theorem plain_junk_run (s : State) (j : List Op) (hj : Junk s.st j) : Plain (run s j).2 := by
  induction j generalizing s with
  | nil => exact plain_nil
  | cons op ops ih =>
    obtain ⟨hp, ha⟩ := hj op List.mem_cons_self
    simp only [run]
    apply plain_append (plain_passive_step s op hp (Or.inl ha))
    apply ih
    rw [(junk_step s op hp ha).1]
    exact fun o ho => hj o (List.mem_cons_of_mem _ ho)

theorem junk_passive {st : AState} {j : List Op} (hj : Junk st j) : ∀ op ∈ j, passive op = true :=
  fun op ho => (hj op ho).1

/-! ## the object model before the ability answer -/

/-- the dictionaries and the object heap -/
structure ModelView where
  zoneDict : List (Nat × Nat)
  acDict : List (Nat × Nat)
  zoneObjs : List ZoneObj
  acObjs : List AcObj

def modelView (s : State) : ModelView :=
  { zoneDict := s.zoneDict, acDict := s.acDict, zoneObjs := s.zoneObjs, acObjs := s.acObjs }

theorem modelView_hbOnMessage (s : State) (m : RMsg) : modelView (hbOnMessage s m) = modelView s := by
  unfold hbOnMessage; split <;> rfl

/-- before `CONNECTED`, with no air-conditioner object yet, the handler ignores every message that is not the awaited
    answer -/
theorem onMessage_junk_early (s : State) (m : RMsg) (h : answerKind s.st m = false) (hc : s.st ≠ .CONNECTED)
    (h0 : s.acDict = []) : onMessage s m = (s, [], none) := by
  cases m with
  | extended sub =>
    cases sub with
    | consoleVer v =>
      cases v with
      | message v =>
        simp only [onMessage]
        split
        · next hs => simp [hs, answerKind] at h
        · simp [hc]
      | request => rfl
    | groupNames n =>
      cases n with
      | message n =>
        simp only [onMessage]
        split
        · next hs => simp [hs, answerKind] at h
        · rfl
      | request r => rfl
    | acAbility a =>
      cases a with
      | ability acs =>
        simp only [onMessage]
        split
        · next hs => simp [hs, answerKind] at h
        · rfl
      | request r => rfl
    | errInfo e =>
      cases e with
      | message e => simp [onMessage, updateErrInfo, State.findAc, h0]
      | request r => rfl
    | quickTimer q => rfl
    | unsupported i r => rfl
  | groupCtrl c => rfl
  | groupStatus g =>
    cases g with
    | request => rfl
    | status l =>
      simp only [onMessage]
      split
      · next hs => simp [hs, answerKind] at h
      · simp [hc]
  | acCtrl c => rfl
  | acStatus a =>
    cases a with
    | request => rfl
    | status l =>
      simp only [onMessage]
      split
      · next hs => simp [hs, answerKind] at h
      · simp [hc]
  | acTimerCtrl c =>
    simp only [onMessage, processTimers]
    split
    · next hs => simp [hs, answerKind] at h
    · simp [hc]
  | acTimerStatus t =>
    cases t with
    | request => rfl
    | status l =>
      simp only [onMessage, processTimers]
      split
      · next hs => simp [hs, answerKind] at h
      · simp [hc]
  | unsupported i r => rfl

theorem modelView_junk_step (s : State) (op : Op) (hp : passive op = true) (ha : answers s.st op = false)
    (hc : s.st ≠ .CONNECTED) (h0 : s.acDict = []) : modelView (apiStep s op).1 = modelView s := by
  have key : ∀ m, answerKind s.st m = false → modelView (recv s m).1 = modelView s := by
    intro m hk
    unfold recv
    simp only [modelView_hbOnMessage]
    split
    · rw [onMessage_junk_early s m hk hc h0]
    · rfl
  cases op with
  | recv m => exact key m ha
  | msg mid payload =>
    simp only [apiStep]
    split
    · next m hm => simp only [answers, hm] at ha; exact key m ha
    · rfl
  | conn up =>
    cases up with
    | true => simp [passive] at hp
    | false => simp only [apiStep, onConn]; split <;> rfl
  | _ => simp [passive] at hp

theorem modelView_junk_run (s : State) (j : List Op) (hj : Junk s.st j) (hc : s.st ≠ .CONNECTED) (h0 : s.acDict = []) :
    modelView (run s j).1 = modelView s := by
  induction j generalizing s with
  | nil => rfl
  | cons op ops ih =>
    obtain ⟨hp, ha⟩ := hj op List.mem_cons_self
    obtain ⟨j1, _, j3, _, _⟩ := junk_step s op hp ha
    have hm := modelView_junk_step s op hp ha hc h0
    simp only [run]
    rw [ih (apiStep s op).1 (by rw [j1]; exact fun o ho => hj o (List.mem_cons_of_mem _ ho)) (by rw [j1]; exact hc)
      ((congrArg ModelView.acDict hm).trans h0), hm]

/-! ## the object model the handshake builds from a fresh object -/

/-- what the API exposes of the installation: the air-conditioners (`air_conditioners`, in dictionary order), each
    with `ac_id`, `name` and its `zones` (in list order), each zone with `zone_id` and `name` -/
def exposedModel (s : State) : List (Nat × Bytes × List (Nat × Bytes)) :=
  s.airConditioners.map fun a =>
    (a.acId, a.ability.ac_name, (a.zones.filterMap (s.zoneObjs[·]?)).map fun z => (z.zoneId, z.name))

/-- the name the names message gives group `g` -/
def nameOf (names : List (Nat × Bytes)) (g : Nat) : Bytes := (names.lookup g).getD []

/-- the installation the names message and the ability message describe: one air-conditioner per ability record, in
    message order, with the record's number and name; its zones are the groups `describedIds` lists for the record
    (the bitmap in CPython set order `pySetOrder`; for a single record without bitmap every named group in names-message
    order; otherwise `start_group … start_group + group_count - 1`), each with its name from the names message -/
def describedModel (names : List (Nat × Bytes)) (acs : List FF11.AcAbility) : List (Nat × Bytes × List (Nat × Bytes)) :=
  acs.map fun ab =>
    (ab.ac_number, ab.ac_name,
      (describedIds (names.map (·.1)) (acs.length == 1) ab).map fun g => (g, nameOf names g))

/-- a consistent installation description: the names message names distinct groups, the ability records carry
    distinct numbers, complete mode / fan-speed tables (every decoded record does), and refer only to named groups -/
def Consistent (names : List (Nat × Bytes)) (acs : List FF11.AcAbility) : Prop :=
  (names.map (·.1)).Nodup ∧ (acs.map (·.ac_number)).Nodup ∧
  ∀ ab ∈ acs, (mkAc ab []).isSome = true ∧
    ∀ g ∈ describedIds (names.map (·.1)) (acs.length == 1) ab, g ∈ names.map (·.1)

theorem processGroupNames_model (s : State) (names : List (Nat × Bytes)) :
    (processGroupNames s names).zoneObjs = s.zoneObjs ++ names.map (fun p => mkZone p.1 p.2) ∧
    (processGroupNames s names).acDict = s.acDict ∧ (processGroupNames s names).acObjs = s.acObjs := by
  unfold processGroupNames
  induction names generalizing s with
  | nil => simp
  | cons p ps ih =>
    rw [List.foldl_cons]
    obtain ⟨i1, i2, i3⟩ := ih (addZone s p)
    refine ⟨?_, i2, i3⟩
    rw [i1]
    simp [addZone]

theorem keys_processAbility (s : State) (single : Bool) (acs : List FF11.AcAbility)
    (hok : (processAbility s single acs).2 = true) (hnum : (acs.map (·.ac_number)).Nodup)
    (hd : ∀ k ∈ acs.map (·.ac_number), k ∉ s.acDict.map (·.1)) :
    (processAbility s single acs).1.acDict.map (·.1) = s.acDict.map (·.1) ++ acs.map (·.ac_number) := by
  induction acs generalizing s with
  | nil => simp [processAbility]
  | cons x xs ih =>
    simp only [processAbility] at hok ⊢
    cases ha : addAc s single x with
    | none => simp [ha] at hok
    | some s1 =>
      simp only [ha] at hok ⊢
      simp only [List.map_cons, List.nodup_cons] at hnum
      have hk : s1.acDict.map (·.1) = s.acDict.map (·.1) ++ [x.ac_number] := by
        unfold addAc at ha
        cases hz : zonesForAbility s single x with
        | none => simp [hz] at ha
        | some zs =>
          cases hm : mkAc x zs with
          | none => simp [hz, hm] at ha
          | some a =>
            simp [hz, hm] at ha
            subst ha
            have hx : x.ac_number ∉ s.acDict.map (·.1) := hd x.ac_number (by simp)
            simp only [keys_dictInsert, hx, ↓reduceIte]
      rw [ih s1 hok hnum.2, hk]
      · simp
      · intro k hk' hmem
        rw [hk] at hmem
        rcases List.mem_append.mp hmem with h1 | h1
        · exact hd k (by simp [hk']) h1
        · simp at h1; subst h1; exact hnum.1 hk'

/-- the dictionary's values in order are its keys looked up in order -/
theorem airConditioners_eq (s : State) (hnd : (s.acDict.map (·.1)).Nodup) :
    s.airConditioners = (s.acDict.map (·.1)).filterMap s.findAc := by
  unfold State.airConditioners
  rw [List.filterMap_map]
  have gen : ∀ l : List (Nat × Nat), (∀ p ∈ l, p ∈ s.acDict) →
      l.filterMap (fun p => s.acObjs[p.2]?) = l.filterMap (s.findAc ∘ fun p => p.1) := by
    intro l
    induction l with
    | nil => intro _; rfl
    | cons p ps ih =>
      intro hl
      obtain ⟨k, i⟩ := p
      have hp : (k, i) ∈ s.acDict := hl _ List.mem_cons_self
      rw [List.filterMap_cons, List.filterMap_cons, ih (fun q hq => hl q (List.mem_cons_of_mem _ hq))]
      simp only [Function.comp, State.findAc, lookup_of_mem_nodup _ hnd k i hp, Option.bind_some]
  exact gen _ (fun _ h => h)

theorem filterMap_eq_map_of {α β} (f : α → Option β) (g : α → β) (l : List α) (h : ∀ x ∈ l, f x = some (g x)) :
    l.filterMap f = l.map g := by
  induction l with
  | nil => rfl
  | cons x xs ih =>
    rw [List.filterMap_cons, h x List.mem_cons_self, List.map_cons,
      ih (fun y hy => h y (List.mem_cons_of_mem _ hy))]

theorem nameOf_mem (names : List (Nat × Bytes)) (hnd : (names.map (·.1)).Nodup) (p : Nat × Bytes) (hp : p ∈ names) :
    nameOf names p.1 = p.2 := by
  unfold nameOf
  rw [lookup_of_mem_nodup names hnd p.1 p.2 hp]
  rfl

/-- zone objects whose group numbers are `ids`, in a heap that was built by the names message alone, are the named
    zones `ids` -/
theorem zones_named (names : List (Nat × Bytes)) (hnd : (names.map (·.1)).Nodup) (zs ids : List Nat)
    (h : zs.map (fun zi => ((names.map (fun p => mkZone p.1 p.2))[zi]?).map (·.status.group_number)) = ids.map some) :
    (zs.filterMap ((names.map (fun p => mkZone p.1 p.2))[·]?)).map (fun z => (z.zoneId, z.name)) =
      ids.map (fun g => (g, nameOf names g)) := by
  induction zs generalizing ids with
  | nil =>
    cases ids with
    | nil => rfl
    | cons g gs => simp at h
  | cons zi zs ih =>
    cases ids with
    | nil => simp at h
    | cons g gs =>
      simp only [List.map_cons, List.cons.injEq] at h
      obtain ⟨h1, h2⟩ := h
      rw [List.getElem?_map] at h1
      cases hp : names[zi]? with
      | none => rw [hp] at h1; cases h1
      | some p =>
        rw [hp] at h1
        simp only [Option.map_some, Option.some.injEq] at h1
        have hmem : p ∈ names := List.mem_of_getElem? hp
        rw [List.filterMap_cons, List.getElem?_map, hp]
        simp only [Option.map_some, List.map_cons, ih gs h2]
        have hg : (mkZone p.1 p.2).status.group_number = p.1 := rfl
        rw [hg] at h1
        subst h1
        rw [nameOf_mem names hnd p hmem]
        rfl

/-- the exposed model is a function of the `shape` (numbers, names, ability records, zone lists): statuses, timers,
    error texts and subscribers do not matter -/
def exposedOfShape (sh : Shape) : List (Nat × Bytes × List (Nat × Bytes)) :=
  (sh.acDict.filterMap fun p => sh.acs[p.2]?).map fun x => (x.1, x.2.1.ac_name, x.2.2.filterMap (sh.zones[·]?))

theorem exposedModel_shape (s : State) : exposedModel s = exposedOfShape (shape s) := by
  unfold exposedModel exposedOfShape State.airConditioners shape
  simp only [List.getElem?_map]
  rw [show (fun p : Nat × Nat => Option.map (fun a : AcObj => (a.status.ac_number, a.ability, a.zones)) s.acObjs[p.2]?) =
      (fun p => (s.acObjs[p.2]?).map (fun a : AcObj => (a.status.ac_number, a.ability, a.zones))) from rfl,
    ← List.map_filterMap, List.map_map]
  apply List.map_congr_left
  intro a _
  simp only [Function.comp, AcObj.acId, Prod.mk.injEq, true_and]
  rw [show (fun x => Option.map (fun z : ZoneObj => (z.status.group_number, z.name)) s.zoneObjs[x]?) =
      (fun x => (s.zoneObjs[x]?).map (fun z : ZoneObj => (z.status.group_number, z.name))) from rfl,
    ← List.map_filterMap]
  rfl

theorem exposedModel_of_shape {s t : State} (h : shape s = shape t) : exposedModel s = exposedModel t := by
  rw [exposedModel_shape, exposedModel_shape, h]

theorem mem_keys_lookup {β} (d : List (Nat × β)) (k : Nat) (h : k ∈ d.map (·.1)) : d.lookup k ≠ none := by
  intro hn
  have : (d.lookup k).isSome = true := by
    rw [← any_key_iff_lookup]
    obtain ⟨p, hp, rfl⟩ := List.mem_map.mp h
    exact List.any_eq_true.mpr ⟨p, hp, by simp⟩
  rw [hn] at this; cases this

/-- **the model built by the names answer followed by the ability answer**: from a state whose model is empty, a
    consistent description yields no `KeyError` and exactly the described installation -/
theorem model_of_description (s : State) (hinv : Inv s) (h0 : modelView s = ⟨[], [], [], []⟩)
    (names : List (Nat × Bytes)) (acs : List FF11.AcAbility) (hc : Consistent names acs) (t : State)
    (ht : modelView t = modelView (processGroupNames s names)) (hinvt : Inv t) :
    (processAbility t (acs.length == 1) acs).2 = true ∧
    exposedModel (processAbility t (acs.length == 1) acs).1 = describedModel names acs := by
  obtain ⟨hn1, hn2, hn3⟩ := hc
  have z1 : s.zoneDict = [] := congrArg ModelView.zoneDict h0
  have z2 : s.acDict = [] := congrArg ModelView.acDict h0
  have z3 : s.zoneObjs = [] := congrArg ModelView.zoneObjs h0
  have z4 : s.acObjs = [] := congrArg ModelView.acObjs h0
  obtain ⟨g1, g2, g3⟩ := processGroupNames_model s names
  have t1 : t.zoneDict = (processGroupNames s names).zoneDict := congrArg ModelView.zoneDict ht
  have t2 : t.acDict = [] := (congrArg ModelView.acDict ht).trans (g2.trans z2)
  have t3 : t.zoneObjs = names.map (fun p => mkZone p.1 p.2) := by
    have : t.zoneObjs = (processGroupNames s names).zoneObjs := congrArg ModelView.zoneObjs ht
    rw [this, g1, z3]; rfl
  have tk : t.zoneDict.map (·.1) = names.map (·.1) := by
    rw [t1]; exact keys_processGroupNames_fresh s z1 names hn1
  have tnd : (t.zoneDict.map (·.1)).Nodup := by rw [tk]; exact hn1
  -- no KeyError
  have hok : (processAbility t (acs.length == 1) acs).2 = true := by
    cases hp : (processAbility t (acs.length == 1) acs).2 with
    | true => rfl
    | false =>
      obtain ⟨ab, hab, hbad⟩ := (processAbility_fails_iff t hinvt _ acs).mp hp
      obtain ⟨c1, c2⟩ := hn3 ab hab
      rcases hbad with ⟨g, hg, hl⟩ | hbad
      · rw [tk] at hg
        have := c2 g hg
        rw [← tk] at this
        exact absurd hl (mem_keys_lookup _ _ this)
      · rw [Option.isNone_iff_eq_none] at hbad
        rw [hbad] at c1; cases c1
  refine ⟨hok, ?_⟩
  -- the dictionary of air-conditioners
  have hkeys := keys_processAbility t _ acs hok hn2 (by rw [t2]; simp)
  rw [t2] at hkeys
  simp only [List.map_nil, List.nil_append] at hkeys
  have hinv' : Inv (processAbility t (acs.length == 1) acs).1 := Inv_processAbility hinvt _ acs
  unfold exposedModel describedModel
  rw [airConditioners_eq _ (by rw [hkeys]; exact hn2), hkeys, List.filterMap_map, List.map_filterMap]
  have hspec := fun ab hab => processAbility_spec hinvt tnd (acs.length == 1) acs hn2 hok ab hab
  apply filterMap_eq_map_of
  intro ab hab
  obtain ⟨_, e2, a, f1, f2, _, _, f5⟩ := hspec ab hab
  simp only [Function.comp, f1, Option.map_some, Option.some.injEq, Prod.mk.injEq]
  refine ⟨(hinv'.findAc_number f1).1, by rw [f2], ?_⟩
  rw [e2, t3]
  apply zones_named names hn1
  rw [← tk]
  rw [← f5]
  apply List.map_congr_left
  intro zi _
  simp [zoneIdAt, t3]

/-! ## a purely syntactic sufficient condition for `Consistent` -/

theorem mem_setInsert8 (fuel : Nat) (tbl : List (Option Nat)) (i v x : Nat)
    (h : some x ∈ setInsert8 fuel tbl i v) : some x ∈ tbl ∨ x = v := by
  induction fuel generalizing i with
  | zero => exact Or.inl h
  | succ n ih =>
    unfold setInsert8 at h
    split at h
    · rcases List.mem_or_eq_of_mem_set h with h | h
      · exact Or.inl h
      · exact Or.inr (Option.some.inj h)
    · split at h
      · exact Or.inl h
      · exact ih _ h

/-- CPython's set order lists only elements of the set -/
theorem mem_of_mem_pySetOrder (gs : List Nat) (g : Nat) (h : g ∈ pySetOrder gs) : g ∈ gs := by
  unfold pySetOrder at h
  split at h
  · have gen : ∀ (l : List Nat) (t : List (Option Nat)),
        some g ∈ l.foldl (fun t v => setInsert8 8 t (v % 8) v) t → some g ∈ t ∨ g ∈ l := by
      intro l
      induction l with
      | nil => intro t h; exact Or.inl h
      | cons x xs ih =>
        intro t h
        rw [List.foldl_cons] at h
        rcases ih _ h with h | h
        · rcases mem_setInsert8 _ _ _ _ _ h with h | h
          · exact Or.inl h
          · exact Or.inr (by rw [h]; exact List.mem_cons_self)
        · exact Or.inr (List.mem_cons_of_mem _ h)
    have hm : some g ∈ gs.foldl (fun t v => setInsert8 8 t (v % 8) v) (List.replicate 8 none) := by
      simpa [List.mem_filterMap] using h
    rcases gen _ _ hm with h | h
    · simp [List.mem_replicate] at h
    · exact h
  · exact h

/-- the three record formats, each referring only to named groups: a bitmap whose groups are all named; or no bitmap
    and the record is the only one (then it gets every named group); or no bitmap and `start_group … start_group +
    group_count - 1` are all named -/
def RecordNamed (named : List Nat) (single : Bool) (ab : FF11.AcAbility) : Prop :=
  match ab.groups with
  | some gs => ∀ g ∈ gs, g ∈ named
  | none => single = true ∨ ∀ g ∈ List.range' ab.start_group ab.group_count, g ∈ named

instance (named : List Nat) (single : Bool) (ab : FF11.AcAbility) : Decidable (RecordNamed named single ab) := by
  unfold RecordNamed
  split <;> infer_instance

/-- distinct group numbers, distinct AC numbers, complete tables, and every record `RecordNamed` -/
def SyntacticallyConsistent (names : List (Nat × Bytes)) (acs : List FF11.AcAbility) : Prop :=
  (names.map (·.1)).Nodup ∧ (acs.map (·.ac_number)).Nodup ∧
  ∀ ab ∈ acs, (mkAc ab []).isSome = true ∧ RecordNamed (names.map (·.1)) (acs.length == 1) ab

theorem consistent_of_syntactic {names : List (Nat × Bytes)} {acs : List FF11.AcAbility}
    (h : SyntacticallyConsistent names acs) : Consistent names acs := by
  obtain ⟨h1, h2, h3⟩ := h
  refine ⟨h1, h2, fun ab hab => ⟨(h3 ab hab).1, ?_⟩⟩
  have hr := (h3 ab hab).2
  unfold RecordNamed at hr
  unfold describedIds
  cases hg : ab.groups with
  | some gs =>
    rw [hg] at hr
    intro g hgm
    exact hr g (mem_of_mem_pySetOrder gs g hgm)
  | none =>
    rw [hg] at hr
    simp only
    cases hsg : (acs.length == 1) with
    | true => intro g hgm; simpa using hgm
    | false =>
      rw [hsg] at hr
      simp only [Bool.false_eq_true, ↓reduceIte, false_or] at hr ⊢
      exact hr

/-! ## under the discipline the object model is empty until the names answer -/

theorem modelView_recv_version_aux (s : State) (hsub : s.subscribed = true) (hst : s.st = .INIT_VERSION)
    (v : FF30.ConsoleVersionMessage) :
    modelView (recv s (.extended (.consoleVer (.message v)))).1 = modelView s := by
  simp only [recv, hsub, ↓reduceIte, onMessage, hst, modelView_hbOnMessage]
  rfl

/-- before the names answer has been processed (`CLOSED`, `CONNECTING`, `INIT_VERSION`, `INIT_GROUP_NAMES`) there is
    no zone and no air-conditioner -/
def EarlyEmpty (s : State) : Prop := stage s.st ≤ 3 → modelView s = ⟨[], [], [], []⟩

theorem earlyEmpty_of {s t : State} (he : EarlyEmpty s) (h1 : stage s.st ≤ stage t.st) (h2 : modelView t = modelView s) :
    EarlyEmpty t := fun h => h2.trans (he (Nat.le_trans h1 h))

theorem earlyEmpty_recv {s : State} (he : EarlyEmpty s) (m : RMsg) : EarlyEmpty (recv s m).1 := by
  cases hsub : s.subscribed with
  | false =>
    have e : (recv s m).1 = hbOnMessage s m := by simp [recv, hsub]
    rw [e]
    exact earlyEmpty_of he (by rw [st_hbOnMessage]; exact Nat.le_refl _) (modelView_hbOnMessage s m)
  | true =>
    have hmono : stage s.st ≤ stage (recv s m).1.st := by
      have := (passive_run s hsub [.recv m] (by intro o ho; simp at ho; subst ho; rfl)).1
      simpa [run, apiStep] using this
    intro hle
    have hle0 : stage s.st ≤ 3 := Nat.le_trans hmono hle
    have hm0 := he hle0
    have hne : s.st ≠ .CONNECTED := by intro h; rw [h] at hle0; simp [stage] at hle0
    cases hk : answerKind s.st m with
    | false =>
      exact (modelView_junk_step s (.recv m) rfl hk hne (congrArg ModelView.acDict hm0)).trans hm0
    | true =>
      cases hs : s.st <;> rw [hs] at hk hle0 <;> simp [stage] at hle0
      · -- CLOSED
        cases m <;> simp [answerKind] at hk
      · cases m <;> simp [answerKind] at hk
      · -- INIT_VERSION: the version answer
        cases m with
        | extended sub =>
          cases sub with
          | consoleVer v =>
            cases v with
            | message v => exact (modelView_recv_version_aux s hsub hs v).trans hm0
            | request => simp [answerKind] at hk
          | _ => simp [answerKind] at hk
        | _ => simp [answerKind] at hk
      · -- INIT_GROUP_NAMES: the names answer leads to stage 4
        exfalso
        have h1 := (recv_answer s hsub m (by rw [hs]; exact hk) (by rw [hs]; intro h; cases h) (by
          intro acs hm; subst hm; simp [answerKind] at hk)).1
        rw [h1, hs] at hle
        simp [stage, nextState] at hle

theorem earlyEmpty_subUnsub {s : State} (he : EarlyEmpty s) (t : Target) (f : List Sub → List Sub) :
    EarlyEmpty (subUnsub s t f).1 := by
  intro hle
  rw [st_subUnsub] at hle
  have hm := he hle
  have a1 : s.acDict = [] := congrArg ModelView.acDict hm
  cases t with
  | airtouch => exact hm
  | ac i general =>
    have : s.findAc i = none := by simp [State.findAc, a1]
    simp only [subUnsub, this]; exact hm
  | zone i =>
    have : s.findZone i = none := by simp [State.findZone, State.airConditioners, a1]
    simp only [subUnsub, this]; exact hm

/-- every op except `init` keeps it -/
theorem earlyEmpty_step {s : State} (he : EarlyEmpty s) (op : Op) (hop : op ≠ .init) : EarlyEmpty (apiStep s op).1 := by
  cases op with
  | init => exact absurd rfl hop
  | shutdown => intro _; rfl
  | conn up =>
    simp only [apiStep, onConn]
    split
    · exact earlyEmpty_of he (Nat.le_refl _) rfl
    · split
      · next h =>
        have hs : s.st = .CONNECTING := by
          simp only [Bool.and_eq_true, beq_iff_eq] at h; exact h.2
        split <;> exact earlyEmpty_of he (by rw [hs]; show 1 ≤ 2; omega) rfl
      · split
        · split <;> exact earlyEmpty_of he (Nat.le_refl _) rfl
        · exact earlyEmpty_of he (Nat.le_refl _) rfl
  | msg mid payload =>
    simp only [apiStep]
    split
    · exact earlyEmpty_recv he _
    · exact he
  | recv m => exact earlyEmpty_recv he m
  | call c => exact he
  | callBad c => exact he
  | sub t sid r => exact earlyEmpty_subUnsub he t _
  | unsub t sid => exact earlyEmpty_subUnsub he t _
  | adv n =>
    have hc := core_advance n s
    exact earlyEmpty_of he (by
        show stage s.st ≤ stage (advance n s).1.st
        rw [show (advance n s).1.st = s.st from congrArg Core.st hc]; exact Nat.le_refl _)
      (by
        simp only [apiStep, modelView, show (advance n s).1.zoneDict = s.zoneDict from congrArg Core.zoneDict hc,
          show (advance n s).1.acDict = s.acDict from congrArg Core.acDict hc,
          show (advance n s).1.zoneObjs = s.zoneObjs from congrArg Core.zoneObjs hc,
          show (advance n s).1.acObjs = s.acObjs from congrArg Core.acObjs hc])
  | view => simp only [apiStep]; split <;> exact he

theorem earlyEmpty_disciplined_from {s : State} (he : EarlyEmpty s) (c : Bool) (hc : c = true → Closed s)
    (ops : List Op) (hd : disciplined c ops = true) : EarlyEmpty (run s ops).1 := by
  induction ops generalizing s c with
  | nil => exact he
  | cons op ops ih =>
    simp only [run]
    cases op with
    | init =>
      simp only [disciplined, Bool.and_eq_true] at hd
      have hcl := hc hd.1
      refine ih ?_ false (fun h => by cases h) hd.2
      intro _
      have : modelView (apiStep s .init).1 = modelView s := by
        simp only [apiStep, doInit]; split <;> rfl
      rw [this]
      simp only [modelView, hcl.zoneDict, hcl.acDict, hcl.zoneObjs, hcl.acObjs]
    | shutdown =>
      exact ih (earlyEmpty_step he _ (fun h => by cases h)) true (fun _ => (shutdown_state s).1) hd
    | conn up =>
      exact ih (earlyEmpty_step he _ (fun h => by cases h)) c (fun h => (closed_step (hc h) _ rfl).1) hd
    | msg mid payload =>
      exact ih (earlyEmpty_step he _ (fun h => by cases h)) c (fun h => (closed_step (hc h) _ rfl).1) hd
    | recv m =>
      exact ih (earlyEmpty_step he _ (fun h => by cases h)) c (fun h => (closed_step (hc h) _ rfl).1) hd
    | call k =>
      exact ih (earlyEmpty_step he _ (fun h => by cases h)) c (fun h => (closed_step (hc h) _ rfl).1) hd
    | callBad k =>
      exact ih (earlyEmpty_step he _ (fun h => by cases h)) c (fun h => (closed_step (hc h) _ rfl).1) hd
    | sub t sid r =>
      exact ih (earlyEmpty_step he _ (fun h => by cases h)) c (fun h => (closed_step (hc h) _ rfl).1) hd
    | unsub t sid =>
      exact ih (earlyEmpty_step he _ (fun h => by cases h)) c (fun h => (closed_step (hc h) _ rfl).1) hd
    | adv n =>
      exact ih (earlyEmpty_step he _ (fun h => by cases h)) c (fun h => (closed_step (hc h) _ rfl).1) hd
    | view =>
      exact ih (earlyEmpty_step he _ (fun h => by cases h)) c (fun h => (closed_step (hc h) _ rfl).1) hd

/-- **under the discipline a non-empty dictionary or heap means the names answer has been processed** (state
    `INIT_AC_ABILITY` or later); without it `reinitOps` gives `CONNECTING` with a full model -/
theorem reachD_earlyEmpty {s : State} (h : ReachD4 s) : EarlyEmpty s := by
  obtain ⟨ops, hd, e⟩ := h
  rw [← e]
  exact earlyEmpty_disciplined_from (fun _ => rfl) true (fun _ => State.initial_closed) ops hd

end PyAirtouch.Lemmas.Api4Reach
