import PyAirtouch.Model.At4.X2C
/-! Round trip and length lemmas for the AirTouch 4 AC control codec (0x2C). -/
namespace PyAirtouch.Lemmas.At4X2C
open PyAirtouch.Model PyAirtouch.Model.At4.X2C PyAirtouch.Gen.At4.X2CAcCtrl

theorem encB1_lt (m : Msg) : encB1 m < 256 := by
  rcases m with ⟨ac, pw, md, fs, sc⟩
  simp only [encB1, encAcNumber]
  have : encPower pw ≤ 192 := by cases pw <;> decide
  omega

theorem encB2_lt (m : Msg) : encB2 m < 256 := by
  rcases m with ⟨ac, pw, md, fs, sc⟩
  simp only [encB2]
  cases md <;> cases fs <;> decide

theorem encSetPointControl_lt (c : AcSetPointControl) : encSetPointControl c < 256 := by
  cases c with
  | incDec v => cases v <;> decide
  | value sp => simp only [encSetPointControl, SET_POINT_CONTROL_VALUE]; omega
  | none => decide

/-- every packed byte is masked: the encoder never raises, whatever the field values -/
theorem encode_ok (m : Msg) : encode m = .ok (encodeBytes m) := by
  simp [encode, encB1_lt, encB2_lt, encSetPointControl_lt]

theorem encode_length (m : Msg) (bs : Bytes) (h : encode m = .ok bs) : bs.length = size m := by
  rw [encode_ok] at h
  cases h
  rfl

theorem decSetPointControl_enc (c : AcSetPointControl) (h : WFSetPointControl c) :
    decSetPointControl (encSetPointControl c) = c := by
  cases c with
  | incDec v => cases v <;> rfl
  | value sp =>
    simp only [WFSetPointControl] at h
    have e1 : (SET_POINT_CONTROL_VALUE * 64 % 256 + sp % 64) / 64 % 4 = 1 := by
      simp only [SET_POINT_CONTROL_VALUE]; omega
    have e2 : (SET_POINT_CONTROL_VALUE * 64 % 256 + sp % 64) % 64 = sp := by
      simp only [SET_POINT_CONTROL_VALUE]; omega
    simp only [encSetPointControl, decSetPointControl, e1, e2]
    rfl
  | none => rfl

theorem decode_encodeBytes (m : Msg) (h : WF m) (rest : Bytes) (msgLen : Nat) :
    decode (encodeBytes m ++ rest) msgLen = .ok (m, rest) := by
  obtain ⟨hac, hsc⟩ := h
  rcases m with ⟨ac, pw, md, fs, sc⟩
  simp only at hac hsc
  have hp : encPower pw = pw.toNat * 64 ∧ pw.toNat < 4 := by cases pw <;> decide
  have hpw : AcPowerControl.ofNat? pw.toNat = some pw := by cases pw <;> rfl
  have e1 : (encPower pw + encAcNumber ac) / 64 % 4 = pw.toNat := by
    simp only [encAcNumber]; omega
  have e2 : (encPower pw + encAcNumber ac) % 64 = ac := by
    simp only [encAcNumber]; omega
  have e3 : AcModeControl.ofNat? ((encMode md + encFanSpeed fs) / 16 % 16) = some md := by
    cases md <;> cases fs <;> decide
  have e4 : AcFanSpeedControl.ofNat? ((encMode md + encFanSpeed fs) % 16) = some fs := by
    cases md <;> cases fs <;> decide
  simp only [encodeBytes, encB1, encB2, List.cons_append, List.nil_append, decode, e1, e2, e3, e4, hpw,
    decSetPointControl_enc sc hsc]

/-- `decode(encode(m) ++ rest, header with message_length = size(m))` gives `m` back and leaves `rest` -/
theorem decode_encode (m : Msg) (h : WF m) (rest : Bytes) :
    ∃ bs, encode m = .ok bs ∧ decode (bs ++ rest) (size m) = .ok (m, rest) :=
  ⟨encodeBytes m, encode_ok m, decode_encodeBytes m h rest _⟩

/-- out-of-domain numbers are masked by the encoder: the message read back is the masked one -/
theorem decode_encode_masked (m : Msg) (rest : Bytes) (msgLen : Nat) :
    ∃ m', decode (encodeBytes m ++ rest) msgLen = .ok (m', rest) ∧ WF m' ∧
      m'.power = m.power ∧ m'.mode = m.mode ∧ m'.fan_speed = m.fan_speed ∧ m'.ac_number = m.ac_number % 64 := by
  let sc' : AcSetPointControl := match m.set_point_control with
    | .value sp => .value (sp % 64)
    | c => c
  let m' : Msg := { m with ac_number := m.ac_number % 64, set_point_control := sc' }
  have hwf : WF m' := by
    refine ⟨Nat.mod_lt _ (by decide), ?_⟩
    show WFSetPointControl sc'
    cases h : m.set_point_control <;> simp only [sc', h, WFSetPointControl]
    exact Nat.mod_lt _ (by decide)
  have henc : encodeBytes m = encodeBytes m' := by
    have h3 : encSetPointControl m.set_point_control = encSetPointControl sc' := by
      cases h : m.set_point_control <;> simp only [sc', h, encSetPointControl, Nat.mod_mod]
    simp only [encodeBytes, encB1, encB2, encAcNumber, m', Nat.mod_mod, h3]
  exact ⟨m', by rw [henc]; exact decode_encodeBytes m' hwf rest msgLen, hwf, rfl, rfl, rfl, rfl⟩

theorem wfSetPointControlBool_iff (c : AcSetPointControl) :
    wfSetPointControlBool c = true ↔ WFSetPointControl c := by
  cases c <;> simp [wfSetPointControlBool, WFSetPointControl]

theorem wfBool_iff (m : Msg) : wfBool m = true ↔ WF m := by
  simp [wfBool, WF, wfSetPointControlBool_iff]

end PyAirtouch.Lemmas.At4X2C
