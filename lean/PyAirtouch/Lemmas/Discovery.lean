import PyAirtouch.Model.Discovery
import PyAirtouch.Spec.Discovery
/-!
# Lemmas for C18 (discovery)
-/
namespace PyAirtouch.Lemmas.Discovery
open PyAirtouch.Model PyAirtouch.Model.Discovery PyAirtouch.Gen.Discovery
open PyAirtouch.Spec.Discovery (splitFirst readResponse marker4 marker5)

abbrev SResponse := PyAirtouch.Spec.Discovery.Response

/-- the model's response seen as a response of the specification -/
def toSpec (r : Response) : SResponse :=
  { gen := r.gen, host := r.host, serial := r.serial, airtouchId := r.airtouch_id, name := r.name }

theorem toSpec_inj {r s : Response} (h : toSpec r = toSpec s) : r = s := by
  cases r; cases s; simp only [toSpec, PyAirtouch.Spec.Discovery.Response.mk.injEq] at h
  simp [h]

theorem utf8Valid_eq (bs : Bytes) : Model.utf8Valid bs = PyAirtouch.Spec.Discovery.utf8Valid bs := rfl

/-! ### `splitFirst` and joining with commas -/

def NoComma (bs : Bytes) : Prop := ∀ b ∈ bs, b ≠ 44

def joinC : List Bytes → Bytes
  | [] => []
  | [x] => x
  | x :: y :: r => x ++ 44 :: joinC (y :: r)

theorem span_loop_eq {α} (p : α → Bool) (l acc : List α) :
    List.span.loop p l acc = (acc.reverse ++ l.takeWhile p, l.dropWhile p) := by
  induction l generalizing acc with
  | nil => simp [List.span.loop]
  | cons a l ih =>
    cases h : p a <;> simp [List.span.loop, h, ih]

theorem span_eq {α} (p : α → Bool) (l : List α) : l.span p = (l.takeWhile p, l.dropWhile p) := by
  simp [List.span, span_loop_eq]

theorem span_append_of_all {α} (p : α → Bool) (h : List α) (x : α) (rest : List α)
    (hh : ∀ b ∈ h, p b = true) (hx : p x = false) : (h ++ x :: rest).span p = (h, x :: rest) := by
  rw [span_eq]
  induction h with
  | nil => simp [hx]
  | cons b h ih =>
    have hb := hh b (by simp)
    have := ih (fun x hx => hh x (by simp [hx]))
    simp only [Prod.mk.injEq] at this
    simp [hb, this]

theorem span_of_all {α} (p : α → Bool) (h : List α) (hh : ∀ b ∈ h, p b = true) : h.span p = (h, []) := by
  rw [span_eq]
  induction h with
  | nil => simp
  | cons b h ih =>
    have hb := hh b (by simp)
    have := ih (fun x hx => hh x (by simp [hx]))
    simp only [Prod.mk.injEq] at this
    simp [hb, this]

theorem span_spec {α} (p : α → Bool) (l pre post : List α) (h : l.span p = (pre, post)) :
    l = pre ++ post ∧ (∀ b ∈ pre, p b = true) ∧ (post = [] ∨ ∃ x rest, post = x :: rest ∧ p x = false) := by
  rw [span_eq] at h
  induction l generalizing pre with
  | nil => simp at h; obtain ⟨h1, h2⟩ := h; subst h1 h2; simp
  | cons a l ih =>
    cases ha : p a
    · simp [ha] at h
      obtain ⟨h1, h2⟩ := h
      subst h1 h2
      simp [ha]
    · simp [ha] at h
      obtain ⟨h1, h2⟩ := h
      obtain ⟨i1, i2, i3⟩ := ih (l.takeWhile p) (by rw [h2])
      subst h1
      refine ⟨by simp; exact i1, ?_, i3⟩
      intro b hb
      rcases List.mem_cons.1 hb with rfl | hb
      · exact ha
      · exact i2 b hb

theorem splitFirst_zero (bs : Bytes) : splitFirst 0 bs = [bs] := rfl

theorem splitFirst_succ (n : Nat) (bs : Bytes) :
    splitFirst (n+1) bs = match bs.span (fun x => decide (x ≠ 44)) with
      | (pre, []) => [pre]
      | (pre, _ :: rest) => pre :: splitFirst n rest := rfl

theorem splitMax_succ (n : Nat) (bs : Bytes) :
    splitMax (n+1) bs = match bs.span (fun x => decide (x ≠ 44)) with
      | (pre, []) => [pre]
      | (pre, _ :: rest) => pre :: splitMax n rest := rfl

theorem splitMax_eq_splitFirst (n : Nat) (bs : Bytes) : splitMax n bs = splitFirst n bs := by
  induction n generalizing bs with
  | zero => rfl
  | succ n ih =>
    rw [splitMax_succ, splitFirst_succ]
    cases List.span (fun x => decide (x ≠ 44)) bs with
    | mk pre post => cases post <;> simp [ih]

theorem splitFirst_cons (n : Nat) (h rest : Bytes) (hh : NoComma h) :
    splitFirst (n+1) (h ++ 44 :: rest) = h :: splitFirst n rest := by
  rw [splitFirst_succ, span_append_of_all _ h 44 rest (fun b hb => by simpa using hh b hb) (by simp)]

theorem splitFirst_noComma (n : Nat) (h : Bytes) (hh : NoComma h) : splitFirst n h = [h] := by
  cases n with
  | zero => rfl
  | succ n => rw [splitFirst_succ, span_of_all _ h (fun b hb => by simpa using hh b hb)]

theorem span_comma_spec (bs pre post : Bytes) (h : bs.span (fun x => decide (x ≠ 44)) = (pre, post)) :
    bs = pre ++ post ∧ NoComma pre ∧ (post = [] ∨ ∃ rest, post = 44 :: rest) := by
  obtain ⟨h1, h2, h3⟩ := span_spec _ _ _ _ h
  refine ⟨h1, fun b hb => by simpa using h2 b hb, ?_⟩
  rcases h3 with h3 | ⟨x, rest, h3, hx⟩
  · exact .inl h3
  · right; simp at hx; subst hx; exact ⟨rest, h3⟩

/-- the fields of `splitFirst`, joined with commas, are the datagram; all but the last field are comma-free -/
theorem splitFirst_spec (n : Nat) (bs : Bytes) :
    joinC (splitFirst n bs) = bs ∧ (∀ p ∈ (splitFirst n bs).dropLast, NoComma p) ∧ splitFirst n bs ≠ [] := by
  induction n generalizing bs with
  | zero => simp [splitFirst, joinC]
  | succ n ih =>
    rw [splitFirst_succ]
    split
    · rename_i pre h
      obtain ⟨h1, _, _⟩ := span_comma_spec _ _ _ h
      simp [joinC, h1]
    · rename_i pre x rest h
      obtain ⟨h1, h2, h3⟩ := span_comma_spec _ _ _ h
      obtain ⟨j1, j2, j3⟩ := ih rest
      have hx : x = 44 := by
        rcases h3 with h3 | ⟨r, h3⟩
        · simp at h3
        · simp at h3; exact h3.1
      subst hx
      refine ⟨?_, ?_, by simp⟩
      · cases hs : splitFirst n rest with
        | nil => exact absurd hs j3
        | cons y r => rw [joinC, ← hs, j1, h1]
      · intro p hp
        cases hs : splitFirst n rest with
        | nil => exact absurd hs j3
        | cons y r =>
          rw [hs, List.dropLast_cons_cons] at hp
          rcases List.mem_cons.1 hp with rfl | hp
          · exact h2
          · exact j2 p (by rw [hs]; exact hp)

/-! ### `contains` -/

theorem contains_of_prefix (needle rest : Bytes) : contains needle (needle ++ rest) = true := by
  cases h : needle ++ rest with
  | nil =>
    simp at h
    simp [contains, h.1]
  | cons b bs =>
    rw [contains, ← h]
    simp

theorem contains_append_left (needle pre rest : Bytes) (h : contains needle rest = true) :
    contains needle (pre ++ rest) = true := by
  induction pre with
  | nil => simpa
  | cons b pre ih => simp [contains, ih]

theorem contains_mid (needle pre post : Bytes) : contains needle (pre ++ (needle ++ post)) = true :=
  contains_append_left _ _ _ (contains_of_prefix _ _)

/-! ### one datagram -/

theorem stripped4 : At4.responseIdStripped = marker4 := by decide +kernel
theorem stripped5 : At5.responseIdStripped = marker5 := by decide +kernel
theorem respId4 : At4.responseId = 44 :: (marker4 ++ [44]) := by decide +kernel
theorem respId5 : At5.responseId = 44 :: (marker5 ++ [44]) := by decide +kernel

theorem contains_marker (mk h s rest : Bytes) :
    contains (44 :: (mk ++ [44])) (h ++ 44 :: (s ++ 44 :: (mk ++ 44 :: rest))) = true := by
  have : h ++ 44 :: (s ++ 44 :: (mk ++ 44 :: rest)) = (h ++ 44 :: s) ++ ((44 :: (mk ++ [44])) ++ rest) := by simp
  rw [this]; exact contains_mid _ _ _

theorem received4_eq_spec (d : Bytes) (r : Response) :
    received cfg4 d = .added r ↔ readResponse 4 d = some (toSpec r) := by
  by_cases hd : d = At4.requestData
  · subst hd
    have h1 : received cfg4 At4.requestData = .ignored := by decide
    have h2 : readResponse 4 At4.requestData = none := by decide
    simp [h1, h2]
  · have hj := (splitFirst_spec 3 d).1
    simp only [received, «match», decode, cfg4, readResponse, At4.numParts, splitMax_eq_splitFirst,
      beq_iff_eq, hd, Nat.reduceSub, if_true, if_false, stripped4, respId4]
    generalize splitFirst 3 d = parts at *
    match parts with
    | [] | [_] | [_,_] | [_,_,_] | _::_::_::_::_::_ => split <;> simp
    | [h, s, m, a] =>
      simp only [joinC] at hj
      by_cases hm : m = marker4
      · subst hm
        rw [← hj, contains_marker]
        cases r with
        | mk g ai nm se ho =>
        cases ha : Model.utf8Valid a <;> cases hs : Model.utf8Valid s <;> cases hh : Model.utf8Valid h <;>
          simp [utf8, ← utf8Valid_eq, ha, hs, hh, toSpec, bind, Except.bind, pure, Except.pure] <;> grind
      · split <;> simp [hm]

theorem received5_eq_spec (d : Bytes) (r : Response) :
    received cfg5 d = .added r ↔ readResponse 5 d = some (toSpec r) := by
  by_cases hd : d = At5.requestData
  · subst hd
    have h1 : received cfg5 At5.requestData = .ignored := by decide
    have h2 : readResponse 5 At5.requestData = none := by decide
    simp [h1, h2]
  · have hj := (splitFirst_spec 4 d).1
    simp only [received, «match», decode, cfg5, readResponse, At5.numParts, splitMax_eq_splitFirst,
      beq_iff_eq, hd, Nat.reduceSub, if_false, stripped5, respId5, Nat.reduceEqDiff]
    generalize splitFirst 4 d = parts at *
    match parts with
    | [] | [_] | [_,_] | [_,_,_] | [_,_,_,_] | _::_::_::_::_::_::_ => split <;> simp
    | [h, s, m, a, n] =>
      simp only [joinC] at hj
      by_cases hm : m = marker5
      · subst hm
        rw [← hj, contains_marker]
        cases r with
        | mk g ai nm se ho =>
        cases ha : Model.utf8Valid a <;> cases hn : Model.utf8Valid n <;> cases hs : Model.utf8Valid s <;>
          cases hh : Model.utf8Valid h <;>
          simp [utf8, ← utf8Valid_eq, ha, hs, hh, hn, toSpec, bind, Except.bind, pure, Except.pure] <;> grind
      · split <;> simp [hm]

/-- the model and the specification agree on every datagram -/
def Agree (c : Cfg) (g : Nat) : Prop :=
  ∀ d r, received c d = .added r ↔ readResponse g d = some (toSpec r)

theorem agree4 : Agree cfg4 4 := received4_eq_spec
theorem agree5 : Agree cfg5 5 := received5_eq_spec

/-- `toSpec` is onto -/
def ofSpec (s : SResponse) : Response :=
  { gen := s.gen, airtouch_id := s.airtouchId, name := s.name, serial := s.serial, host := s.host }

theorem toSpec_ofSpec (s : SResponse) : toSpec (ofSpec s) = s := rfl

/-! ### the search loop -/

/-- what one arrival does to the collected responses -/
def stepR (c : Cfg) (acc : List Response) (a : Nat × Bytes) : List Response :=
  match received c a.2 with
  | .added r => insertNew acc r
  | _ => acc

theorem mem_insertNew (acc : List Response) (r x : Response) : x ∈ insertNew acc r ↔ x ∈ acc ∨ x = r := by
  unfold insertNew; split
  · constructor
    · exact .inl
    · rintro (h | rfl) <;> assumption
  · simp

theorem nodup_insertNew (acc : List Response) (r : Response) (h : acc.Nodup) : (insertNew acc r).Nodup := by
  unfold insertNew; split
  · exact h
  · rename_i hr
    rw [List.nodup_append]
    refine ⟨h, by simp, ?_⟩
    intro a ha b hb
    simp at hb; subst hb
    intro hab; subst hab; exact hr ha

theorem mem_foldl_stepR (c : Cfg) (l : List (Nat × Bytes)) (acc : List Response) (x : Response) :
    x ∈ l.foldl (stepR c) acc ↔ x ∈ acc ∨ ∃ a ∈ l, received c a.2 = .added x := by
  induction l generalizing acc with
  | nil => simp
  | cons a l ih =>
    rw [List.foldl_cons, ih]
    unfold stepR
    cases hr : received c a.2 with
    | added r =>
      simp only [mem_insertNew, List.mem_cons, exists_eq_or_imp, hr, Received.added.injEq]
      constructor
      · rintro ((h | h) | h)
        · exact .inl h
        · exact .inr (.inl h.symm)
        · exact .inr (.inr h)
      · rintro (h | h | h)
        · exact .inl (.inl h)
        · exact .inl (.inr h.symm)
        · exact .inr h
    | _ => simp [hr]

theorem nodup_foldl_stepR (c : Cfg) (l : List (Nat × Bytes)) (acc : List Response) (h : acc.Nodup) :
    (l.foldl (stepR c) acc).Nodup := by
  induction l generalizing acc with
  | nil => exact h
  | cons a l ih =>
    rw [List.foldl_cons]; apply ih
    unfold stepR; split
    · exact nodup_insertNew _ _ h
    · exact h

/-- the responses collected during the interval `[now, now + 4)` starting from nothing -/
def W (c : Cfg) (arr : List (Nat × Bytes)) (now : Nat) : List Response :=
  (arr.filter (fun a => now ≤ a.1 ∧ a.1 < now + requestInterval)).foldl (stepR c) []

theorem nodup_W (c arr now) : (W c arr now).Nodup := nodup_foldl_stepR _ _ _ List.nodup_nil

theorem mem_W {c g} (H : Agree c g) (arr now) (x : Response) :
    x ∈ W c arr now ↔ ∃ a ∈ arr, now ≤ a.1 ∧ a.1 < now + 4 ∧ readResponse g a.2 = some (toSpec x) := by
  unfold W
  rw [mem_foldl_stepR]
  have H' : ∀ d r, received c d = .added r ↔ readResponse g d = some (toSpec r) := H
  simp only [List.not_mem_nil, false_or, List.mem_filter, requestInterval, H']
  constructor
  · rintro ⟨a, ⟨h1, h2⟩, h4⟩
    have h2 := of_decide_eq_true h2
    exact ⟨a, h1, h2.1, h2.2, h4⟩
  · rintro ⟨a, h1, h2, h3, h4⟩; exact ⟨a, ⟨h1, decide_eq_true ⟨h2, h3⟩⟩, h4⟩

theorem W_eq_nil {c g} (H : Agree c g) (arr now) :
    W c arr now = [] ↔ ∀ a ∈ arr, now ≤ a.1 → a.1 < now + 4 → readResponse g a.2 = none := by
  constructor
  · intro h a ha h1 h2
    cases hr : readResponse g a.2 with
    | none => rfl
    | some s =>
      have : ofSpec s ∈ W c arr now := (mem_W H arr now _).2 ⟨a, ha, h1, h2, by rw [hr, toSpec_ofSpec]⟩
      rw [h] at this; simp at this
  · intro h
    cases hw : W c arr now with
    | nil => rfl
    | cons x l =>
      have : x ∈ W c arr now := by rw [hw]; simp
      obtain ⟨a, ha, h1, h2, h3⟩ := (mem_W H arr now x).1 this
      rw [h a ha h1 h2] at h3; simp at h3

theorem searchLoop_zero (c arr now sent rs) : searchLoop c arr 0 now sent rs = (sent, now, rs) := rfl

theorem searchLoop_stop (c arr f now sent) (rs : List Response) (h : rs ≠ []) :
    searchLoop c arr (f+1) now sent rs = (sent, now, rs) := by
  cases rs with
  | nil => exact absurd rfl h
  | cons x l => rfl

theorem searchLoop_go (c arr f now sent) :
    searchLoop c arr (f+1) now sent [] = searchLoop c arr f (now + 4) (sent ++ [now]) (W c arr now) := rfl

/-- the Spec's test "nothing collected before `t`" -/
def quietB (g : Nat) (arr : List (Nat × Bytes)) (t : Nat) : Bool :=
  (arr.filter (fun a => a.1 < t ∧ (readResponse g a.2).isSome)).isEmpty

theorem expectedRequests_eq (g arr) :
    PyAirtouch.Spec.Discovery.expectedRequests g arr = [0, 4, 8].filter (quietB g arr) := rfl

/-- no response in the format of generation `g` arrived strictly before `t` -/
def Quiet (g : Nat) (arr : List (Nat × Bytes)) (t : Nat) : Prop :=
  ∀ a ∈ arr, a.1 < t → readResponse g a.2 = none

theorem quiet_filter (g arr t) : quietB g arr t = true ↔ Quiet g arr t := by
  simp only [quietB, List.isEmpty_iff, List.filter_eq_nil_iff, decide_eq_true_eq, not_and, Quiet]
  constructor
  · intro h a ha hlt
    have := h a ha hlt
    cases hr : readResponse g a.2 <;> simp_all
  · intro h a ha hlt; simp [h a ha hlt]

theorem quiet_zero (g arr) : Quiet g arr 0 := fun _ _ h => absurd h (Nat.not_lt_zero _)

theorem quiet_mono {g arr s t} (hst : s ≤ t) (h : Quiet g arr t) : Quiet g arr s :=
  fun a ha hlt => h a ha (Nat.lt_of_lt_of_le hlt hst)

open PyAirtouch.Spec.Discovery (expectedRequests returnTime expectedResponses dedup) in
/-- the three possible courses of a search -/
theorem search_cases {c g} (H : Agree c g) (arr : List (Nat × Bytes)) :
    (¬ Quiet g arr 4 ∧ search c arr = ([0], 4, W c arr 0) ∧ expectedRequests g arr = [0]) ∨
    (Quiet g arr 4 ∧ ¬ Quiet g arr 8 ∧ search c arr = ([0, 4], 8, W c arr 4) ∧ expectedRequests g arr = [0, 4]) ∨
    (Quiet g arr 8 ∧ search c arr = ([0, 4, 8], 12, W c arr 8) ∧ expectedRequests g arr = [0, 4, 8]) := by
  have e0 := (quiet_filter g arr 0).2 (quiet_zero g arr)
  have w0 : W c arr 0 = [] ↔ Quiet g arr 4 := by
    rw [W_eq_nil H]; constructor
    · intro h a ha hlt; exact h a ha (Nat.zero_le _) (by omega)
    · intro h a ha _ hlt; exact h a ha (by omega)
  by_cases q4 : Quiet g arr 4
  · have w4 : W c arr 4 = [] ↔ Quiet g arr 8 := by
      rw [W_eq_nil H]; constructor
      · intro h a ha hlt
        by_cases h4 : a.1 < 4
        · exact q4 a ha h4
        · exact h a ha (by omega) (by omega)
      · intro h a ha _ hlt; exact h a ha (by omega)
    have e4 := (quiet_filter g arr 4).2 q4
    by_cases q8 : Quiet g arr 8
    · right; right
      have e8 := (quiet_filter g arr 8).2 q8
      refine ⟨q8, ?_, ?_⟩
      · rw [search, maxRequests, searchLoop_go, w0.2 q4, searchLoop_go, w4.2 q8, searchLoop_go, searchLoop_zero]; rfl
      · simp only [expectedRequests_eq, List.filter_cons, List.filter_nil, e0, e4, e8, if_true]
    · right; left
      have e8 : quietB g arr 8 = false := by
        rw [Bool.eq_false_iff]; exact fun h => q8 ((quiet_filter g arr 8).1 h)
      refine ⟨q4, q8, ?_, ?_⟩
      · rw [search, maxRequests, searchLoop_go, w0.2 q4, searchLoop_go,
          searchLoop_stop _ _ _ _ _ _ (fun h => q8 (w4.1 h))]; rfl
      · simp only [expectedRequests_eq, List.filter_cons, List.filter_nil, e0, e4, e8, if_true, if_false, Bool.false_eq_true]
  · left
    have q8 : ¬ Quiet g arr 8 := fun h => q4 (quiet_mono (by omega) h)
    have e4 : quietB g arr 4 = false := by
      rw [Bool.eq_false_iff]; exact fun h => q4 ((quiet_filter g arr 4).1 h)
    have e8 : quietB g arr 8 = false := by
      rw [Bool.eq_false_iff]; exact fun h => q8 ((quiet_filter g arr 8).1 h)
    refine ⟨q4, ?_, ?_⟩
    · rw [search, maxRequests, searchLoop_go, searchLoop_stop _ _ _ _ _ _ (fun h => q4 (w0.1 h))]; rfl
    · simp only [expectedRequests_eq, List.filter_cons, List.filter_nil, e0, e4, e8, if_true, if_false, Bool.false_eq_true]

theorem mem_dedup {α} [DecidableEq α] (l : List α) (x : α) : x ∈ PyAirtouch.Spec.Discovery.dedup l ↔ x ∈ l := by
  induction l with
  | nil => simp [PyAirtouch.Spec.Discovery.dedup]
  | cons y l ih =>
    unfold PyAirtouch.Spec.Discovery.dedup
    split
    · rename_i hy
      rw [ih, List.mem_cons]
      constructor
      · exact .inr
      · rintro (rfl | h)
        · exact hy
        · exact h
    · simp [ih]

theorem mem_expectedResponses (g arr) (s : SResponse) :
    s ∈ PyAirtouch.Spec.Discovery.expectedResponses g arr ↔
      ∃ a ∈ arr, a.1 < PyAirtouch.Spec.Discovery.returnTime g arr ∧ readResponse g a.2 = some s := by
  simp only [PyAirtouch.Spec.Discovery.expectedResponses, mem_dedup, List.mem_filterMap, List.mem_filter,
    decide_eq_true_eq]
  constructor
  · rintro ⟨a, ⟨h1, h2⟩, h3⟩; exact ⟨a, h1, h2, h3⟩
  · rintro ⟨a, h1, h2, h3⟩; exact ⟨a, ⟨h1, h2⟩, h3⟩

end PyAirtouch.Lemmas.Discovery
