import PyAirtouch.Lemmas.Api4Inv
/-!
# A concrete installation and the state after its handshake (used by the non-vacuity examples)
-/
namespace PyAirtouch.Lemmas.Api4
open PyAirtouch.Model PyAirtouch.Model.Api4 PyAirtouch.Model.At4

/-- a two-zone, one-AC installation (group bitmap {0,1}) -/
def demoAbility : FF11.AcAbility :=
  { ac_number := 0, ac_name := [65, 67], ac_mode_support := FF11.decModeSupport 0x1F,
    fan_speed_support := FF11.decFanSpeedSupport 0x7F, min_set_point := 16, max_set_point := 30,
    groups := some [0, 1], start_group := 0, group_count := 0 }

def demoAcStatus : X2D.AcStatusData :=
  { ac_number := 0, power_state := .ON, mode := .AUTO_HEAT, fan_speed := .LOW, spill_active := false,
    timer_set := false, set_point := 22, temperature := 235, error_code := 0 }

def demoTimer : TimerCommon.AcTimerStatusData :=
  { ac_number := 0, on_timer := { disabled := false, hour := 7, minute := 30 },
    off_timer := { disabled := true, hour := 0, minute := 0 } }

def demoGroup : X2B.GroupStatusData :=
  { group_number := 1, power_state := .ON, control_method := .TEMPERATURE, spill_active := false,
    supports_turbo := true, has_sensor := true, battery_status := .NORMAL, temperature := some 215,
    damper_percentage := 50, set_point := some 22 }

def demoVersionMsg : RMsg := .extended (.consoleVer (.message { update_available := false, versions := [[49]] }))
def demoNamesMsg : RMsg := .extended (.groupNames (.message { group_names := [(0, [97]), (1, [98])] }))
def demoAbilityMsg : RMsg := .extended (.acAbility (.ability [demoAbility]))
def demoAcStatusMsg : RMsg := .acStatus (.status [demoAcStatus])
def demoTimerMsg : RMsg := .acTimerStatus (.status [demoTimer])
def demoGroupMsg : RMsg := .groupStatus (.status [demoGroup])

def demoAnswers : List RMsg :=
  [demoVersionMsg, demoNamesMsg, demoAbilityMsg, demoAcStatusMsg, demoTimerMsg, demoGroupMsg]

def demoOps : List Op := [.init, .conn true] ++ demoAnswers.map Op.recv

/-- the state after a complete handshake -/
def demo : State := (run State.initial demoOps).1

theorem demo_inv : Inv demo := Inv_run Inv_initial _
theorem demo_connected : demo.st = .CONNECTED := by decide
theorem demo_subscribed : demo.subscribed = true := by decide
theorem demo_open : demo.sockOpen = true := by decide
theorem demo_connectedSock : demo.sockConnected = true := by decide
/-- the demo state with one subscriber of each kind (the AC-state one raises) -/
def demoSub : State :=
  (run demo [.sub (.ac 0 true) "g" false, .sub (.ac 0 false) "t" true, .sub (.zone 1) "z" false, .sub .airtouch "a" false]).1


/-- right after `init()` and the connection: the version request is outstanding -/
def afterConn : State := (run State.initial [.init, .conn true]).1

/-- the demo installation's handshake as junk/answer stages, with interleaved junk -/
def demoSteps : List (List Op × RMsg) :=
  [([.recv (.acStatus (.status [demoAcStatus])), .msg 0x99 [1, 2], .conn false], demoVersionMsg),
   ([.recv demoVersionMsg], demoNamesMsg),
   ([.recv (.extended (.consoleVer .request))], demoAbilityMsg),
   ([], demoAcStatusMsg),
   ([.recv (.extended (.errInfo (.message { ac_number := 0, error_info := some [69] })))], demoTimerMsg),
   ([.recv demoAcStatusMsg], demoGroupMsg)]

end PyAirtouch.Lemmas.Api4
