import PyAirtouch.Model.At5.FF30
import PyAirtouch.Lemmas.Part3Text
/-! Round trip and length lemmas for the AirTouch 5 console version codec. -/
namespace PyAirtouch.Lemmas.At5FF30
open PyAirtouch.Model PyAirtouch.Model.At5.FF30 PyAirtouch.Lemmas.Part3Text

theorem encode_length (m : Msg) : (encode m).length = size m := by
  cases m with
  | request => rfl
  | message m => simp [encode, size]; omega

/-- on well-formed messages the real encoder raises nothing and produces `encode m` -/
theorem encodeE_ok (m : Msg) (h : WF m) : encodeE m = .ok (encode m) := by
  cases m with
  | request => rfl
  | message m =>
    have hl : (joined m).length < 256 := by have := h.2.2; omega
    simp [encodeE, hl]

theorem joined_valid (m : ConsoleVersionMessage) (h : ∀ v ∈ m.versions, utf8Valid v = true) :
    utf8Valid (joined m) = true :=
  utf8Valid_joinSep sepByte (by decide) m.versions h

/-- `decode(encode(m), header with message_length = size(m))` gives `m` back, nothing left over -/
theorem decode_encode (m : Msg) (h : WF m) (rest : Bytes) :
    decode (encode m ++ rest) (size m) = .ok (m, rest) := by
  cases m with
  | request => simp [decode, encode, size]
  | message m =>
    obtain ⟨hne, hv, _⟩ := h
    have hvalid := joined_valid m (fun v hm => (hv v hm).2)
    have hsplit : splitOn sepByte (joined m) = m.versions :=
      splitOn_joinSep sepByte m.versions hne (fun v hm => (hv v hm).1)
    have hsz : 2 + (joined m).length ≠ 0 := by omega
    rcases m with ⟨ua, vs⟩
    simp only [decode, encode, size, hsz, ↓reduceIte, List.cons_append, List.nil_append,
      List.take_left', List.drop_left', hvalid, hsplit]
    cases ua <;> simp

theorem wfBool_iff (m : Msg) : wfBool m = true ↔ WF m := by
  cases m with
  | request => simp [wfBool, WF]
  | message m => simp [wfBool, WF, and_assoc]

/-- the case excluded by `WF`: an empty version list is sent as the empty text and decodes as `[""]` -/
theorem empty_versions_not_preserved (ua : Bool) (rest : Bytes) :
    decode (encode (.message ⟨ua, []⟩) ++ rest) (size (.message ⟨ua, []⟩))
      = .ok (.message ⟨ua, [[]]⟩, rest) := by
  cases ua <;> simp [decode, encode, size, joined, joinSep, splitOn, utf8Valid_nil]

end PyAirtouch.Lemmas.At5FF30
