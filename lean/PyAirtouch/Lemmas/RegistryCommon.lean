import PyAirtouch.Model.Bytes
import PyAirtouch.Model.Part3Text
import PyAirtouch.Model.TimerCommon
import PyAirtouch.Model.Frame
/-!
# Helpers shared by `Lemmas/Registry4.lean` and `Lemmas/Registry5.lean`

Facts about `AllBytes` (every element of a byte string is below 256): the whole-frame round trip needs the
payload handed to the CRC to consist of bytes.
-/
namespace PyAirtouch.Lemmas.RegistryCommon
open PyAirtouch.Model

-- decidable equality of results, for the concrete examples (`decide +kernel`)
deriving instance DecidableEq for Except
deriving instance DecidableEq for PyAirtouch.Model.Frame.Outcome

theorem allBytes_nil : AllBytes [] := by intro b hb; cases hb

theorem allBytes_cons {a : Nat} {l : Bytes} : AllBytes (a :: l) ↔ a < 256 ∧ AllBytes l := by
  unfold AllBytes
  constructor
  · intro h
    exact ⟨h a (List.mem_cons_self ..), fun b hb => h b (List.mem_cons_of_mem _ hb)⟩
  · rintro ⟨h1, h2⟩ b hb
    rcases List.mem_cons.mp hb with rfl | hb
    · exact h1
    · exact h2 b hb

theorem allBytes_append {a b : Bytes} : AllBytes (a ++ b) ↔ AllBytes a ∧ AllBytes b := by
  unfold AllBytes
  constructor
  · intro h
    exact ⟨fun x hx => h x (List.mem_append_left _ hx), fun x hx => h x (List.mem_append_right _ hx)⟩
  · rintro ⟨h1, h2⟩ x hx
    rcases List.mem_append.mp hx with hx | hx
    · exact h1 x hx
    · exact h2 x hx

theorem allBytes_flatMap {α} (f : α → Bytes) (l : List α) (h : ∀ a ∈ l, AllBytes (f a)) :
    AllBytes (l.flatMap f) := by
  intro b hb
  obtain ⟨a, ha, hba⟩ := List.mem_flatMap.mp hb
  exact h a ha b hba

theorem allBytes_be16Bytes (v : Nat) : AllBytes (be16Bytes v) := by
  intro b hb
  simp only [be16Bytes, List.mem_cons, List.not_mem_nil, or_false] at hb
  omega

theorem allBytes_le16Bytes (v : Nat) : AllBytes (le16Bytes v) := by
  intro b hb
  simp only [le16Bytes, List.mem_cons, List.not_mem_nil, or_false] at hb
  omega

theorem allBytes_replicate_zero (n : Nat) : AllBytes (List.replicate n 0) := by
  intro b hb
  rw [List.mem_replicate] at hb
  omega

theorem allBytes_take {l : Bytes} (n : Nat) (h : AllBytes l) : AllBytes (l.take n) :=
  fun b hb => h b (List.mem_of_mem_take hb)

theorem allBytes_encodeCString (s : Bytes) (n : Nat) (hs : AllBytes s) : AllBytes (encodeCString s n) := by
  unfold encodeCString
  exact allBytes_take _ (allBytes_append.mpr ⟨hs, allBytes_replicate_zero _⟩)

theorem allBytes_joinSep (sep : Nat) (hsep : sep < 256) (vs : List Bytes) (h : ∀ v ∈ vs, AllBytes v) :
    AllBytes (joinSep sep vs) := by
  induction vs with
  | nil => exact allBytes_nil
  | cons v ws ih =>
    cases ws with
    | nil => exact h v (List.mem_cons_self ..)
    | cons w ws =>
      simp only [joinSep]
      refine allBytes_append.mpr ⟨h v (List.mem_cons_self ..), allBytes_cons.mpr ⟨hsep, ?_⟩⟩
      exact ih (fun x hx => h x (List.mem_cons_of_mem _ hx))

theorem boolToBit_le (b : Bool) (k : Nat) : boolToBit b k ≤ 2 ^ k := by
  unfold boolToBit; split
  · exact Nat.le_refl _
  · exact Nat.zero_le _

theorem allBytes_encTimerState (t : TimerCommon.AcTimerState) : AllBytes (TimerCommon.encTimerState t) := by
  have := boolToBit_le t.disabled 7
  intro b hb
  simp only [TimerCommon.encTimerState, List.mem_cons, List.not_mem_nil, or_false] at hb
  omega

theorem allBytesBool_iff (f : Bytes → Bool) (hf : ∀ bs, f bs = bs.all (fun b => decide (b < 256))) (bs : Bytes) :
    f bs = true ↔ AllBytes bs := by
  rw [hf]
  simp only [List.all_eq_true, decide_eq_true_eq]
  rfl

/-- `be16` undoes `be16Bytes` on 16-bit values -/
theorem be16_be16Bytes (v : Nat) (h : v < 65536) : be16 (v / 256 % 256) (v % 256) = v := by
  unfold be16; omega

theorem except_ok_inj {ε α} {a b : α} (h : (Except.ok a : Except ε α) = .ok b) : a = b := by
  injection h

end PyAirtouch.Lemmas.RegistryCommon
