import PyAirtouch.Lemmas.Api4Connected
/-!
# Repeating a status message is silent
-/
set_option linter.unusedVariables false
set_option linter.unusedSimpArgs false
namespace PyAirtouch.Lemmas.Api4
open PyAirtouch.Model PyAirtouch.Model.Api4 PyAirtouch.Model.At4 PyAirtouch.Gen
open PyAirtouch.Model.TimerCommon (AcTimerState AcTimerStatusData)

theorem lastFor_of_nodup {α} (key : α → Nat) (l : List α) (hnd : (l.map key).Nodup) (r : α) (hr : r ∈ l) :
    lastFor key (key r) l = some r := by
  induction l with
  | nil => cases hr
  | cons x xs ih =>
    simp only [List.map_cons, List.nodup_cons] at hnd
    simp only [lastFor]
    rcases List.mem_cons.mp hr with rfl | hmem
    · have : lastFor key (key r) xs = none := by
        apply lastFor_none
        intro y hy heq
        exact hnd.1 (List.mem_map.mpr ⟨y, hy, heq⟩)
      simp [this]
    · rw [ih hnd.2 hmem]

theorem foldEv_noop {α} (f : State → α → State × List Ev) (s : State) (l : List α)
    (h : ∀ x ∈ l, f s x = (s, [])) : foldEv f s l = (s, []) := by
  induction l with
  | nil => rfl
  | cons x xs ih =>
    simp only [foldEv, h x List.mem_cons_self, ih (fun y hy => h y (List.mem_cons_of_mem _ hy))]
    rfl

theorem updateAcStatus_noop (t : State) (r : X2D.AcStatusData)
    (h : ∀ a, t.findAc r.ac_number = some a → a.status = r) : updateAcStatus t r = (t, []) := by
  unfold updateAcStatus
  cases hf : t.findAc r.ac_number with
  | none => rfl
  | some a => simp [h a hf]

theorem updateAcTimer_noop (t : State) (r : AcTimerStatusData)
    (h : ∀ a, t.findAc r.ac_number = some a → a.timer = r) : updateAcTimer t r = (t, []) := by
  unfold updateAcTimer
  cases hf : t.findAc r.ac_number with
  | none => rfl
  | some a => simp [h a hf]

theorem updateGroupStatus_noop (t : State) (g : X2B.GroupStatusData)
    (h : ∀ z, t.zoneOf g.group_number = some z → z.status = g) : updateGroupStatus t g = (t, []) := by
  unfold updateGroupStatus
  cases hf : t.zoneOf g.group_number with
  | none => rfl
  | some z => simp [h z hf]

/-- processing an AC-status list a second time (distinct AC numbers) is a no-op -/
theorem foldStatus_twice {s : State} (hinv : Inv s) (l : List X2D.AcStatusData)
    (hnd : (l.map (·.ac_number)).Nodup) (t : State)
    (ht : ∀ k, t.findAc k = (foldEv updateAcStatus s l).1.findAc k) :
    foldEv updateAcStatus t l = (t, []) := by
  apply foldEv_noop
  intro r hr
  have h1 := findAc_foldStatus hinv l r.ac_number
  apply updateAcStatus_noop
  intro a hf
  rw [← ht, hf] at h1
  cases hs : s.findAc r.ac_number with
  | none => simp [hs] at h1
  | some a0 =>
    simp [hs] at h1
    subst h1
    rw [foldl_status_status, lastFor_of_nodup (·.ac_number) l hnd r hr]
    rfl

theorem foldTimer_twice {s : State} (hinv : Inv s) (l : List AcTimerStatusData)
    (hnd : (l.map (·.ac_number)).Nodup) (t : State)
    (ht : ∀ k, t.findAc k = (foldEv updateAcTimer s l).1.findAc k) :
    foldEv updateAcTimer t l = (t, []) := by
  apply foldEv_noop
  intro r hr
  have h1 := findAc_foldTimer hinv l r.ac_number
  apply updateAcTimer_noop
  intro a hf
  rw [← ht, hf] at h1
  cases hs : s.findAc r.ac_number with
  | none => simp [hs] at h1
  | some a0 =>
    simp [hs] at h1
    subst h1
    rw [foldl_timer_timer, lastFor_of_nodup (·.ac_number) l hnd r hr]
    rfl

theorem foldGroup_twice {s : State} (hinv : Inv s) (l : List X2B.GroupStatusData)
    (hnd : (l.map (·.group_number)).Nodup) (t : State)
    (ht : ∀ k, t.zoneOf k = (foldEv updateGroupStatus s l).1.zoneOf k) :
    foldEv updateGroupStatus t l = (t, []) := by
  apply foldEv_noop
  intro r hr
  have h1 := zoneOf_foldGroup hinv l r.group_number
  apply updateGroupStatus_noop
  intro a hf
  rw [← ht, hf] at h1
  cases hs : s.zoneOf r.group_number with
  | none => simp [hs] at h1
  | some a0 =>
    simp [hs] at h1
    subst h1
    rw [foldl_group_status, lastFor_of_nodup (·.group_number) l hnd r hr]
    rfl

/-! ### subscriber sets -/

theorem subAdd_twice (l : List Sub) (sid : String) (r r' : Bool) :
    subAdd (subAdd l { sid := sid, raises := r }) { sid := sid, raises := r' } = subAdd l { sid := sid, raises := r } := by
  unfold subAdd
  by_cases h : (l.any fun x => x.sid == sid) = true
  · simp [h]
  · simp [h]

theorem subRemove_not_mem (l : List Sub) (sid : String) : ∀ sb ∈ subRemove l sid, sb.sid ≠ sid := by
  intro sb h
  simp only [subRemove, List.mem_filter, Bool.not_eq_eq_eq_not, Bool.not_true, beq_eq_false_iff_ne, ne_eq] at h
  exact h.2

/-- changing a zone object's subscriber set does not change which zone the harness finds under an id -/
theorem findZone_set_subs (s : State) (zi : Nat) (z : ZoneObj) (hz : s.zoneObjs[zi]? = some z) (l : List Sub) (i : Nat) :
    ({ s with zoneObjs := s.zoneObjs.set zi { z with subs := l } } : State).findZone i = s.findZone i := by
  simp only [State.findZone, State.airConditioners]
  congr 1
  funext j
  obtain ⟨hlt, hget⟩ := List.getElem?_eq_some_iff.mp hz
  simp only [List.getElem?_set]
  by_cases hij : zi = j
  · subst hij; simp [hlt, hz, ZoneObj.zoneId, hget]
  · simp [hij]

end PyAirtouch.Lemmas.Api4
