import PyAirtouch.Lemmas.SockHealInv
/-!
# Healing of the socket model, part 2: the strategy

From every state that is reachable under the calling discipline and the EOF rule (`ReachableH`), open,
with no `close()` in progress, a sequence of benign labels leads to a `Healed` state within
`RETRY_DELAY`:

* phase A (`calm_reach`): the environment stops pausing / failing writes (`Calm`);
* phase B (`b1_progress`, `quiesce`): every pending `connection_lost` runs and every task that is not a
  connection attempt and not a reader of a live transport is resumed (`drainOk` on a live transport,
  `drainErr` / `readErr` / `readEof` on one that is not, `go` otherwise) until none is left (`Quiescent`);
  the measure is lexicographic: number of live transports, then `mu` = sum of the task ranks (`rank`) +
  number of closing transports; no connection is opened and the clock does not move;
* phase C (`pc_of_quiescent`, `pc_progress`, `pc_loop`): the clock advances to `now + RETRY_DELAY` (every
  retry deadline has then passed, `HInv1.delay`), connection attempts run - the first one with `openOk`,
  notifies, drains the whole queue into the healthy transport (`exec_connAfterNotify_live`) and starts the
  reader, the others see `is_connected` and return (measure `muC`);
* `healed_of_done`: when only finished tasks and readers are left the state is `Healed` - connected by
  the reconnect invariant, a reader exists by the watch invariant, the queue is empty by `IInv`;
* `heal_reach` / `never_wedges` / `progress_possible`: the theorems;
* `stuck_never_heals`, `readers_persist`: the two negative results used in `Props/C07Heal.lean`.
-/
namespace PyAirtouch.Lemmas.SockHeal
open PyAirtouch.Model.Sock PyAirtouch.Spec.Trace PyAirtouch.Lemmas.Sock PyAirtouch.Lemmas.SockConn

/-! ### calm environment -/

/-- no transport is pausing or failing writes -/
def Calm (c : Core) : Prop := ∀ (i : Nat) (p f : Bool), c.conns[i]? = some (ConnSt.live p f) → p = false ∧ f = false

theorem Calm.same {c c' : Core} (h : Calm c) (hc : c'.conns = c.conns) : Calm c' := by
  intro i p f hi; rw [hc] at hi; exact h i p f hi

theorem Calm.set {c : Core} (h : Calm c) (w : Nat) (x : ConnSt) (hx : x.isLive = false ∨ x = .live false false) :
    Calm { c with conns := c.conns.set w x } := by
  intro i p f hi
  simp only [List.getElem?_set] at hi
  split at hi
  · split at hi
    · cases hi
      rcases hx with hx | hx
      · cases hx
      · cases hx; exact ⟨rfl, rfl⟩
    · cases hi
  · exact h i p f hi

theorem doWrite_calm {c : Core} (h : Calm c) (w : Nat) (e : Entry) : (doWrite c w e).1.conns = c.conns := by
  unfold doWrite
  split <;> try rfl
  rename_i p hp
  have := (h w p true hp).2
  cases this

theorem drainLoop_calm (w : Nat) (q : List Entry) : ∀ c : Core, Calm c → (drainLoop c w q).1.conns = c.conns := by
  induction q with
  | nil => intro c _; rfl
  | cons e rest ih =>
    intro c hc
    simp only [drainLoop]
    split
    · rfl
    split
    · exact ih _ (hc.same rfl)
    · split
      · exact ih _ (hc.same rfl)
      · have hw := doWrite_calm hc w e
        split
        · rename_i c' h; rw [h] at hw; rw [ih c' (hc.same hw)]; exact hw
        · rename_i c' h; rw [h] at hw; exact hw
        · rename_i c' h; rw [h] at hw; exact hw

theorem drainLoop_calm' {c c' : Core} {w : Nat} {st : DrainStop} (hc : Calm c)
    (h : drainLoop c w c.queue = (c', st)) : c'.conns = c.conns := by
  have := drainLoop_calm w c.queue c hc; rw [h] at this; exact this

theorem requeue_conns (c : Core) (e : Entry) : (requeue c e).conns = c.conns := by
  unfold requeue; split <;> rfl

/-- under a calm environment a block leaves the transports alone, or closes the live current one -/
theorem exec_conns (fuel : Nat) (c : Core) (sp : List Pc) (k : Kont) (hc : Calm c) :
    (exec fuel c sp k).core.conns = c.conns ∨
    ∃ w p f, c.conns[w]? = some (.live p f) ∧ (exec fuel c sp k).core.conns = c.conns.set w (.dying false) := by
  fun_induction exec fuel c sp k
  case case4 c' hd ih =>
    have e := drainLoop_calm' hc hd
    rcases ih (hc.same e) with h | ⟨w, p, f, h1, h2⟩
    · exact .inl (h.trans e)
    · exact .inr ⟨w, p, f, e ▸ h1, e ▸ h2⟩
  case case5 c' e hd => exact .inl (drainLoop_calm' hc hd)
  case case6 c' e hd ih =>
    have e1 := drainLoop_calm' hc hd
    have e2 : (requeue c' e).conns = _ := (requeue_conns c' e).trans e1
    rcases ih (hc.same e2) with h | ⟨w, p, f, h1, h2⟩
    · exact .inl (h.trans e2)
    · exact .inr ⟨w, p, f, e2 ▸ h1, e2 ▸ h2⟩
  case case7 =>
    rename_i c _ _ w _
    unfold closeConn
    split
    · rename_i p f hp; exact .inr ⟨w, p, f, hp, rfl⟩
    · exact .inl rfl
  all_goals first | exact .inl rfl | (rename_i ih; exact ih hc)

/-! ### draining into a healthy transport -/

theorem drainLoop_live (w : Nat) (q : List Entry) : ∀ c : Core, c.conns[w]? = some (.live false false) →
    ∃ c', drainLoop c w q = (c', .empty) ∧ c'.queue = [] ∧ c'.conns = c.conns := by
  induction q with
  | nil => intro c _; exact ⟨_, rfl, rfl, rfl⟩
  | cons e rest ih =>
    intro c hc
    simp only [drainLoop]
    split
    · rename_i hnl; simp [hc, ConnSt.isLive] at hnl
    split
    · exact ih _ hc
    · split
      · exact ih _ hc
      · have hw : doWrite c w e = (c.emit (.wire w e.sid c.now), .cont) := by
          simp [doWrite, hc]
        rw [hw]
        exact ih _ hc

theorem exec_drain_live (fuel : Nat) (c : Core) (sp : List Pc) (r : Ret) (w : Nat) (hcon : c.isConnected = true)
    (hrw : c.rw = some w) (hl : c.conns[w]? = some (.live false false)) :
    ∃ c', Shrink c c' ∧ c'.conns = c.conns ∧ c'.queue = [] ∧
      exec (fuel + 1) c sp (.drain r) = exec fuel c' sp (.ret r) := by
  obtain ⟨c', h1, h2, h3⟩ := drainLoop_live w c.queue c hl
  refine ⟨c', shrink_drainLoop' h1, h3, h2, ?_⟩
  · simp [exec, hcon, hrw, h1]

/-! ### ranks: how many more blocks a task can run without a new connection -/

def rankRet : Ret → Nat
  | .done | .closeTail => 0
  | .readLoop => 4
  | .connAfterDrain => 5
  | .connAfterNotify => 8
  | .resetTail r => rankRet r

/-- rank of a program counter, whatever the state of the transports -/
def rankU : Pc → Nat
  | .drainAwait _ _ r => 3 + rankRet r
  | .discWait _ r => 2 + rankRet r
  | .notifyWait r => 1 + rankRet r
  | .readStart => 5
  | .readWait _ => 4
  | .cancelledOpening => 1
  | _ => 0

/-- a reader of a live transport stays where it is -/
def rank (c : Core) : Pc → Nat
  | .readWait x => if isLiveAt c x then 0 else 4
  | p => rankU p

def rankK : Kont → Nat
  | .ret r => rankRet r
  | .drain r => 3 + rankRet r
  | .disconnect r => 2 + rankRet r
  | .discTail _ r => 1 + rankRet r

def sumU (sp : List Pc) : Nat := (sp.map rankU).sum

theorem sumU_append (a b : List Pc) : sumU (a ++ b) = sumU a + sumU b := by
  simp [sumU, List.map_append, List.sum_append]

theorem rank_le (c : Core) (p : Pc) : rank c p ≤ rankU p := by
  cases p <;> simp [rank, rankU]
  split <;> omega

theorem exec_rank (fuel : Nat) (c : Core) (sp : List Pc) (k : Kont) :
    rankU (exec fuel c sp k).pc + sumU (exec fuel c sp k).spawned ≤ rankK k + sumU sp := by
  fun_induction exec fuel c sp k
  case case1 => simp [rankU]
  case case2 ih => simp only [rankK] at ih ⊢; omega
  case case3 ih => simp only [rankK] at ih ⊢; omega
  case case4 ih => simp only [rankK] at ih ⊢; omega
  case case5 => simp [rankU, rankK]
  case case6 ih => simp only [rankK, rankRet] at ih ⊢; omega
  case case7 => simp [rankU, rankK]
  case case8 ih => simp only [rankK] at ih ⊢; omega
  case case9 => simp [rankU, rankK]
  case case10 ih => simp only [rankK] at ih ⊢; omega
  case case11 => simp [rankU]
  case case12 => simp [rankU]
  case case13 ih => simp only [rankK, rankRet] at ih ⊢; omega
  case case14 =>
    simp only [rankU, rankK, rankRet, sumU_append]
    split <;> simp [sumU, rankU] <;> omega
  case case15 ih =>
    simp only [rankK, rankRet] at ih ⊢
    have hs : sumU (if ‹Core›.isOpen = true then ‹List Pc› ++ [Pc.connStart] else ‹List Pc›) = sumU ‹List Pc› := by
      split
      · simp [sumU, rankU]
      · rfl
    rw [hs] at ih
    exact ih
  case case16 => simp [rankU, rankK, rankRet]
  case case17 => simp [rankU]

/-! ### the measure -/

def isDying : ConnSt → Bool
  | .dying _ => true
  | _ => false

def liveCount (c : Core) : Nat := c.conns.countP ConnSt.isLive
def dyingCount (c : Core) : Nat := c.conns.countP isDying
def taskSum (c : Core) (ts : List Task) : Nat := (ts.map (fun k => rank c k.pc)).sum
def mu (s : Sys) : Nat := taskSum s.core s.tasks + dyingCount s.core

theorem countP_set_same {α : Type} (p : α → Bool) : ∀ (l : List α) (w : Nat) (x y : α), l[w]? = some x → p x = p y →
    (l.set w y).countP p = l.countP p := by
  intro l
  induction l with
  | nil => intro w x y h; simp at h
  | cons a l ih =>
    intro w x y h hp
    cases w with
    | zero =>
      simp only [List.getElem?_cons_zero, Option.some.injEq] at h; subst h
      simp [List.countP_cons, hp]
    | succ w =>
      simp only [List.getElem?_cons_succ] at h
      simp [List.countP_cons, ih w x y h hp]

theorem countP_set_lt {α : Type} (p : α → Bool) : ∀ (l : List α) (w : Nat) (x y : α), l[w]? = some x → p x = true →
    p y = false → (l.set w y).countP p + 1 = l.countP p := by
  intro l
  induction l with
  | nil => intro w x y h; simp at h
  | cons a l ih =>
    intro w x y h hx hy
    cases w with
    | zero =>
      simp only [List.getElem?_cons_zero, Option.some.injEq] at h; subst h
      simp [hx, hy]
    | succ w =>
      simp only [List.getElem?_cons_succ] at h
      have := ih w x y h hx hy
      simp only [List.set_cons_succ, List.countP_cons]
      omega

theorem sum_modify {α : Type} (g : α → Nat) (f : α → α) : ∀ (l : List α) (t : Nat) (x : α), l[t]? = some x →
    ((l.modify t f).map g).sum + g x = (l.map g).sum + g (f x) := by
  intro l
  induction l with
  | nil => intro t x h; simp at h
  | cons a l ih =>
    intro t x h
    cases t with
    | zero =>
      simp only [List.getElem?_cons_zero, Option.some.injEq] at h; subst h
      simp [List.modify]; omega
    | succ t =>
      simp only [List.getElem?_cons_succ] at h
      have := ih t x h
      simp only [List.modify_succ_cons, List.map_cons, List.sum_cons]
      omega

/-- liveness of every transport is the same in `c'` as in `c` -/
def SameLive (c c' : Core) : Prop := ∀ i, isLiveAt c' i = isLiveAt c i

theorem SameLive.of_conns {c c' : Core} (h : c'.conns = c.conns) : SameLive c c' := by
  intro i; unfold isLiveAt; rw [h]

theorem rank_sameLive {c c' : Core} (h : SameLive c c') (p : Pc) : rank c' p = rank c p := by
  cases p <;> simp [rank, h _]

theorem taskSum_sameLive {c c' : Core} (h : SameLive c c') (ts : List Task) : taskSum c' ts = taskSum c ts := by
  unfold taskSum
  congr 1
  apply List.map_congr_left
  intro k _; exact rank_sameLive h _

theorem taskSum_spawn (c : Core) (sp : List Pc) : taskSum c (sp.map (fun p => (⟨p, true⟩ : Task))) ≤ sumU sp := by
  induction sp with
  | nil => simp [taskSum, sumU]
  | cons p sp ih =>
    simp only [taskSum, sumU, List.map_cons, List.sum_cons] at ih ⊢
    have := rank_le c p
    omega

/-- the task sum after a block, when the liveness of the transports did not change -/
theorem taskSum_upd {s : Sys} {t : Nat} {k0 : Task} {out : Out} (ht : s.tasks[t]? = some k0)
    (hl : SameLive s.core out.core) :
    taskSum out.core (upd s t out).tasks + rank s.core k0.pc ≤
      taskSum s.core s.tasks + rankU out.pc + sumU out.spawned := by
  have h1 := sum_modify (fun k => rank s.core k.pc) (fun k => { k with pc := out.pc }) s.tasks t k0 ht
  have h2 := taskSum_spawn s.core out.spawned
  have h3 := rank_le s.core out.pc
  rw [taskSum_sameLive hl]
  simp only [taskSum, upd, List.map_append, List.sum_append] at *
  omega

/-! ### benign steps stay inside the invariants -/

theorem benign_fair {d : Nat} {s : Sys} {l : Label} (h : benign d s l = true) : fair s l = true := by
  cases l with
  | run t a =>
    simp only [fair, disciplined, Bool.true_and]
    cases a <;> try rfl
    simp only [eofOk]
    simp only [benign] at h
    split <;> try rfl
    rename_i c hp
    rw [hp] at h
    simp only at h
    unfold clientClosed at h
    unfold excLost
    split at h <;> simp_all
  | apiOpen => cases h
  | apiClose => cases h
  | _ => rfl

theorem run_isOpen {s s' : Sys} {t : Nat} {a : Answer} (h : step s (.run t a) = some s') :
    s'.core.isOpen = s.core.isOpen ∧ s'.core.now = s.core.now := by
  cases step_run_cases h with
  | exec k0 pc c0 kont hk0 hpc hc =>
    have hf := exec_frame FUEL c0 [] kont
    exact ⟨hf.isOpen.trans hc.shrink.isOpen, hf.now.trans hc.shrink.now⟩
  | connect k0 hk0 hpc =>
    simp only [upd, connectBlock]
    split <;> exact ⟨rfl, rfl⟩
  | openOk => exact ⟨rfl, rfl⟩
  | openRefused => exact ⟨rfl, rfl⟩
  | cancelled => exact ⟨rfl, rfl⟩
  | readMsg => exact ⟨rfl, rfl⟩
  | readEof => exact ⟨rfl, rfl⟩

theorem benign_isOpen {d : Nat} {s s' : Sys} {l : Label} (hb : benign d s l = true) (h : step s l = some s') :
    s'.core.isOpen = s.core.isOpen := by
  cases l with
  | run t a => exact (run_isOpen h).1
  | advance t => simp only [step] at h; split at h <;> cases h; rfl
  | envLostRan cid => simp only [step] at h; split at h <;> cases h; rfl
  | envPause cid b => simp only [step] at h; split at h <;> cases h; rfl
  | envFailWrites cid b => simp only [step] at h; split at h <;> cases h; rfl
  | _ => cases hb

/-- benign labels other than `advance` leave the clock alone; `advance t` sets it to `t ≤ d` -/
theorem benign_now {d : Nat} {s s' : Sys} {l : Label} (hb : benign d s l = true) (h : step s l = some s') :
    s'.core.now = s.core.now ∨ s'.core.now ≤ d := by
  cases l with
  | run t a => exact .inl (run_isOpen h).2
  | advance t =>
    simp only [step] at h; split at h <;> cases h
    right; simpa [benign] using hb
  | envLostRan cid => simp only [step] at h; split at h <;> cases h; exact .inl rfl
  | envPause cid b => simp only [step] at h; split at h <;> cases h; exact .inl rfl
  | envFailWrites cid b => simp only [step] at h; split at h <;> cases h; exact .inl rfl
  | _ => cases hb

theorem BReach.now_le {d : Nat} {s s' : Sys} (h : BReach d s s') (h0 : s.core.now ≤ d) : s'.core.now ≤ d := by
  induction h with
  | refl => exact h0
  | cons l hb hs _ ih =>
    apply ih
    rcases benign_now hb hs with e | e
    · rw [e]; exact h0
    · exact e

/-- where the strategy lives: reachable under the two rules, and open -/
structure Good (s : Sys) : Prop where
  reach : ReachableH s
  isOpen : s.core.isOpen = true

theorem Good.next {d : Nat} {s s' : Sys} {l : Label} (h : Good s) (hb : benign d s l = true)
    (hs : step s l = some s') : Good s' :=
  ⟨h.reach.next (benign_fair hb) hs, (benign_isOpen hb hs).trans h.isOpen⟩

theorem Good.breach {d : Nat} {s s' : Sys} (h : Good s) (hr : BReach d s s') : Good s' := by
  induction hr with
  | refl => exact h
  | cons l hb hs _ ih => exact ih (h.next hb hs)

theorem Good.inv {s : Sys} (h : Good s) : Inv s := inv_reachable h.reach.reachable
theorem Good.cinv {s : Sys} (h : Good s) : CInv s := cinv_reachableD h.reach.reachableD
theorem Good.h1 {s : Sys} (h : Good s) : HInv1 s := hinv1_reachable h.reach.reachable
theorem Good.h2 {s : Sys} (h : Good s) : HInv2 s := hinv2_reachableH h.reach
theorem Good.iinv {s : Sys} (h : Good s) : SockIdle.IInv s := SockIdle.idle_invariant h.reach.reachable
theorem Good.notClosing {s : Sys} (h : Good s) : closing s.core.trace = false := not_closing_of_open h.cinv h.isOpen
theorem Good.noClose {s : Sys} (h : Good s) : ∀ k ∈ s.tasks, closePc k.pc = false :=
  no_close_mem h.cinv h.notClosing

/-! ### phase B: quiescing -/

/-- lexicographic order on (number of live transports, `mu`) -/
def lt2 (s' s : Sys) : Prop :=
  liveCount s'.core < liveCount s.core ∨ (liveCount s'.core = liveCount s.core ∧ mu s' < mu s)

theorem lt2_plain {s : Sys} {t : Nat} {k0 : Task} {out : Out} (ht : s.tasks[t]? = some k0)
    (hc : out.core.conns = s.core.conns) (hr : rankU out.pc + sumU out.spawned < rank s.core k0.pc) :
    lt2 (upd s t out) s := by
  right
  have h1 := taskSum_upd (out := out) ht (SameLive.of_conns hc)
  have e1 : liveCount (upd s t out).core = liveCount s.core := by show liveCount out.core = _; unfold liveCount; rw [hc]
  have e2 : dyingCount (upd s t out).core = dyingCount s.core := by show dyingCount out.core = _; unfold dyingCount; rw [hc]
  refine ⟨e1, ?_⟩
  unfold mu
  rw [e2]
  show taskSum out.core (upd s t out).tasks + _ < _
  omega

theorem b1_exec {s : Sys} {t : Nat} {k0 : Task} {c0 : Core} {kont : Kont} (fuel : Nat) (ht : s.tasks[t]? = some k0)
    (hcalm : Calm s.core) (hc0 : c0.conns = s.core.conns) (hr : rankK kont < rank s.core k0.pc) :
    Calm (upd s t (exec fuel c0 [] kont)).core ∧ lt2 (upd s t (exec fuel c0 [] kont)) s := by
  have hcalm0 : Calm c0 := hcalm.same hc0
  have hrk := exec_rank fuel c0 [] kont
  rcases exec_conns fuel c0 [] kont hcalm0 with h | ⟨w, p, f, h1, h2⟩
  · refine ⟨hcalm.same (h.trans hc0), lt2_plain ht (h.trans hc0) ?_⟩
    simp only [sumU, List.map_nil, List.sum_nil, Nat.add_zero] at hrk
    simp only [sumU] at *
    omega
  · constructor
    · show Calm (exec fuel c0 [] kont).core
      intro i p' f' hi
      rw [h2] at hi
      exact (hcalm0.set w (.dying false) (.inl rfl)) i p' f' hi
    · left
      show liveCount (exec fuel c0 [] kont).core < liveCount s.core
      unfold liveCount
      rw [h2, ← hc0]
      have := countP_set_lt ConnSt.isLive c0.conns w (.live p f) (.dying false) h1 rfl rfl
      omega

def qPc (c : Core) : Pc → Bool
  | .finished | .connStart | .connDelay _ | .connOpening => true
  | .readWait x => isLiveAt c x
  | _ => false

/-- nothing left to do without a new connection -/
def Quiescent (s : Sys) : Prop := dyingCount s.core = 0 ∧ ∀ k ∈ s.tasks, qPc s.core k.pc = true

theorem exists_dying {c : Core} (h : dyingCount c ≠ 0) : ∃ (i : Nat) (e : Bool), c.conns[i]? = some (ConnSt.dying e) := by
  unfold dyingCount at h
  have : 0 < c.conns.countP isDying := Nat.pos_of_ne_zero h
  rw [List.countP_pos_iff] at this
  obtain ⟨x, hx, hd⟩ := this
  obtain ⟨i, hi⟩ := List.getElem?_of_mem hx
  cases x with
  | dying e => exact ⟨i, e, hi⟩
  | _ => cases hd

theorem isLiveAt_set_notLive (c : Core) (w : Nat) (x y : ConnSt) (hx : c.conns[w]? = some x) (h1 : x.isLive = false)
    (h2 : y.isLive = false) : SameLive c { c with conns := c.conns.set w y } := by
  intro i
  unfold isLiveAt
  simp only [List.getElem?_set]
  by_cases hwi : w = i
  · subst hwi
    have hl : w < c.conns.length := by
      rcases Nat.lt_or_ge w c.conns.length with h | h
      · exact h
      · rw [List.getElem?_eq_none h] at hx; cases hx
    obtain ⟨_, hx'⟩ := List.getElem?_eq_some_iff.1 hx
    simp [hl, hx', h1, h2]
  · simp [hwi]

theorem b1_lostRan {s : Sys} {i : Nat} {e : Bool} (hcalm : Calm s.core) (hi : s.core.conns[i]? = some (.dying e)) (d : Nat) :
    ∃ s', benign d s (.envLostRan i) = true ∧ step s (.envLostRan i) = some s' ∧ Calm s'.core ∧
      s'.core.now = s.core.now ∧ lt2 s' s := by
  refine ⟨{ s with core := { s.core with conns := s.core.conns.set i (.dead e) } }, rfl, by simp [step, hi],
    hcalm.set i (.dead e) (.inl rfl), rfl, .inr ⟨?_, ?_⟩⟩
  · exact countP_set_same ConnSt.isLive _ _ _ _ hi rfl
  · have hsl := isLiveAt_set_notLive s.core i _ (.dead e) hi rfl rfl
    have hd := countP_set_lt isDying s.core.conns i _ (.dead e) hi rfl rfl
    unfold mu
    show taskSum _ s.tasks + dyingCount _ < _
    rw [taskSum_sameLive hsl]
    unfold dyingCount
    show _ + (s.core.conns.set i (.dead e)).countP isDying < _
    omega

theorem pcAt_of {s : Sys} {t : Nat} {k : Task} (h : s.tasks[t]? = some k) : pcAt s t = some k.pc := by
  simp [pcAt, h]

theorem not_dying_of {c : Core} (h : dyingCount c = 0) (i : Nat) (e : Bool) : c.conns[i]? ≠ some (.dying e) := by
  intro hi
  unfold dyingCount at h
  have : 0 < c.conns.countP isDying := List.countP_pos_iff.2 ⟨_, List.mem_of_getElem? hi, rfl⟩
  omega

theorem b1_task {s : Sys} (hG : Good s) (hcalm : Calm s.core) (hdy : dyingCount s.core = 0) {t : Nat} {k : Task}
    (ht : s.tasks[t]? = some k) (hq : qPc s.core k.pc = false) (d : Nat) :
    ∃ l s', benign d s l = true ∧ step s l = some s' ∧ Calm s'.core ∧ s'.core.now = s.core.now ∧ lt2 s' s := by
  have hp := pcAt_of ht
  have hkm : k ∈ s.tasks := List.mem_of_getElem? ht
  cases hpc : k.pc with
  | finished => rw [hpc] at hq; cases hq
  | connStart => rw [hpc] at hq; cases hq
  | connDelay due => rw [hpc] at hq; cases hq
  | connOpening => rw [hpc] at hq; cases hq
  | closeGather => have := hG.noClose k hkm; rw [hpc] at this; cases this
  | cancelledOpening =>
    rw [hpc] at hp
    have hst : step s (.run t .go) = some (upd s t ⟨{ s.core with connecting := false }, .finished, []⟩) := by
      simp only [step, hp]
    refine ⟨_, _, rfl, hst, hcalm.same rfl, rfl, lt2_plain ht rfl ?_⟩
    rw [hpc]; simp [rank, rankU, sumU]
  | readStart =>
    rw [hpc] at hp
    have hst : step s (.run t .go) = some (upd s t (exec FUEL s.core [] (.ret .readLoop))) := by
      simp only [step, hp]
    obtain ⟨h1, h2⟩ := b1_exec FUEL (c0 := s.core) (kont := .ret .readLoop) ht hcalm rfl (by rw [hpc]; simp [rankK, rank, rankU, rankRet])
    exact ⟨_, _, rfl, hst, h1, (run_isOpen hst).2, h2⟩
  | notifyWait r =>
    rw [hpc] at hp
    have hst : step s (.run t .go) = some (upd s t (exec FUEL s.core [] (.ret r))) := by
      simp only [step, hp]
    obtain ⟨h1, h2⟩ := b1_exec FUEL (c0 := s.core) (kont := .ret r) ht hcalm rfl
      (by rw [hpc]; simp [rankK, rank, rankU])
    exact ⟨_, _, rfl, hst, h1, (run_isOpen hst).2, h2⟩
  | discWait w r =>
    rw [hpc] at hp
    have hd := hG.h1.disc k hkm
    rw [hpc] at hd
    obtain ⟨hlen, hnl⟩ := hd
    have hdead : ∃ e, s.core.conns[w]? = some (.dead e) := by
      rw [List.getElem?_eq_getElem hlen]
      cases hx : s.core.conns[w] with
      | live p f => exfalso; apply hnl; unfold liveAt; rw [List.getElem?_eq_getElem hlen, hx]; rfl
      | dying e => exfalso; exact not_dying_of hdy w e (by rw [List.getElem?_eq_getElem hlen, hx])
      | dead e => exact ⟨e, rfl⟩
    obtain ⟨e, he⟩ := hdead
    have hst : step s (.run t .go) = some (upd s t (exec FUEL s.core [] (.discTail (some w) r))) := by
      simp only [step, hp, he]
    obtain ⟨h1, h2⟩ := b1_exec FUEL (c0 := s.core) (kont := .discTail (some w) r) ht hcalm rfl
      (by rw [hpc]; simp [rankK, rank, rankU])
    exact ⟨_, _, rfl, hst, h1, (run_isOpen hst).2, h2⟩
  | drainAwait w e r =>
    rw [hpc] at hp
    rcases Bool.eq_false_or_eq_true (isLiveAt s.core w) with hl | hl
    · -- the transport is healthy: the drain continues and empties the queue
      have hla := (isLiveAt_iff _ _).1 hl
      have hrw := hG.inv.core.live_rw w hla
      have hcon : s.core.isConnected = true := by rw [hG.inv.core.conn_rw, hrw]; rfl
      have hlive : s.core.conns[w]? = some (.live false false) := by
        unfold liveAt at hla
        cases hx : s.core.conns[w]? with
        | none => rw [hx] at hla; cases hla
        | some x =>
          cases x with
          | live p f => obtain ⟨rfl, rfl⟩ := hcalm w p f hx; rfl
          | dying _ => rw [hx] at hla; cases hla
          | dead _ => rw [hx] at hla; cases hla
      have hst : step s (.run t .drainOk) = some (upd s t (exec FUEL s.core [] (.drain r))) := by
        simp only [step, hp]
      obtain ⟨c', hs', hc', _, hex⟩ := exec_drain_live 15 s.core [] r w hcon hrw hlive
      rw [FUEL_eq, hex] at hst
      have hrk : rankK (.ret r) < rank s.core k.pc := by rw [hpc]; simp [rankK, rank, rankU]
      obtain ⟨h1, h2⟩ := b1_exec 15 (c0 := c') (kont := .ret r) ht hcalm hc' hrk
      exact ⟨_, _, rfl, hst, h1, (run_isOpen hst).2, h2⟩
    · have hst : step s (.run t .drainErr) = some (upd s t (exec FUEL (requeue s.core e) [] (.disconnect (.resetTail r)))) := by
        simp only [step, hp]
        unfold isLiveAt at hl
        simp [hl]
      have hb : benign d s (.run t .drainErr) = true := by simp [benign, hp, hl]
      obtain ⟨h1, h2⟩ := b1_exec FUEL (c0 := requeue s.core e) (kont := .disconnect (.resetTail r)) ht hcalm
        (requeue_conns _ _) (by rw [hpc]; simp [rankK, rank, rankU, rankRet])
      exact ⟨_, _, hb, hst, h1, (run_isOpen hst).2, h2⟩
  | readWait x =>
    rw [hpc] at hp hq
    have hnl : isLiveAt s.core x = false := hq
    have hrk : rankK (.disconnect (.resetTail .done)) < rank s.core k.pc := by
      rw [hpc]; simp [rankK, rank, rankRet, hnl]
    obtain ⟨h1, h2⟩ := b1_exec FUEL (c0 := s.core) (kont := .disconnect (.resetTail .done)) ht hcalm rfl hrk
    rcases Bool.eq_false_or_eq_true (clientClosed s.core x) with hcc | hcc
    · have hb : benign d s (.run t .readEof) = true := by simp [benign, hp, hcc]
      cases hrw : s.core.rw with
      | none =>
        have hst : step s (.run t .readEof) = some (upd s t ⟨s.core, .finished, []⟩) := by
          simp only [step, hp, hrw]
        refine ⟨_, _, hb, hst, hcalm, rfl, lt2_plain ht rfl ?_⟩
        rw [hpc]; simp [rank, rankU, sumU, hnl]
      | some w =>
        rcases Bool.eq_false_or_eq_true ((s.core.conns[w]?.map ConnSt.isLive).getD false) with hl | hl
        · have hst : step s (.run t .readEof) = some (upd s t (exec FUEL s.core [] (.disconnect (.resetTail .done)))) := by
            simp only [step, hp, hrw, hl, ↓reduceIte]
          exact ⟨_, _, hb, hst, h1, (run_isOpen hst).2, h2⟩
        · have hst : step s (.run t .readEof) = some (upd s t ⟨s.core, .finished, []⟩) := by
            simp only [step, hp, hrw, hl, Bool.false_eq_true, ↓reduceIte]
          refine ⟨_, _, hb, hst, hcalm, rfl, lt2_plain ht rfl ?_⟩
          rw [hpc]; simp [rank, rankU, sumU, hnl]
    · have hb : benign d s (.run t .readErr) = true := by simp [benign, hp, hnl]
      have hst : step s (.run t .readErr) = some (upd s t (exec FUEL s.core [] (.disconnect (.resetTail .done)))) := by
        simp only [step, hp]
      exact ⟨_, _, hb, hst, h1, (run_isOpen hst).2, h2⟩

/-- some benign label makes progress towards a quiescent state (no deadlock in phase B) -/
theorem b1_progress {s : Sys} (hG : Good s) (hcalm : Calm s.core) (hq : ¬ Quiescent s) (d : Nat) :
    ∃ l s', benign d s l = true ∧ step s l = some s' ∧ Calm s'.core ∧ s'.core.now = s.core.now ∧ lt2 s' s := by
  by_cases hdy : dyingCount s.core = 0
  · have : ¬ (s.tasks.all (fun k => qPc s.core k.pc) = true) := by
      intro h
      apply hq
      exact ⟨hdy, fun k hk => (List.all_eq_true.1 h) k hk⟩
    have this : s.tasks.all (fun k => qPc s.core k.pc) = false := by simpa using this
    obtain ⟨k, hk, hkq⟩ := List.all_eq_false.1 this
    obtain ⟨t, ht⟩ := List.getElem?_of_mem hk
    exact b1_task hG hcalm hdy ht (by simpa using hkq) d
  · obtain ⟨i, e, hi⟩ := exists_dying hdy
    obtain ⟨s', h⟩ := b1_lostRan hcalm hi d
    exact ⟨_, s', h⟩

/-- phase B: run everything that can run without a new connection -/
theorem quiesce (d : Nat) : ∀ (n m : Nat) (s : Sys), liveCount s.core = n → mu s = m → Good s → Calm s.core →
    ∃ s', BReach d s s' ∧ Calm s'.core ∧ Quiescent s' ∧ s'.core.now = s.core.now := by
  intro n
  induction n using Nat.strongRecOn with
  | _ n ihn =>
    intro m
    induction m using Nat.strongRecOn with
    | _ m ihm =>
      intro s hn hm hG hcalm
      by_cases hq : Quiescent s
      · exact ⟨s, .refl _, hcalm, hq, rfl⟩
      · obtain ⟨l, s1, hb, hst, hc1, hnow, hlt⟩ := b1_progress hG hcalm hq d
        have hG1 := hG.next hb hst
        have key : ∃ s', BReach d s1 s' ∧ Calm s'.core ∧ Quiescent s' ∧ s'.core.now = s1.core.now := by
          rcases hlt with h | ⟨h1, h2⟩
          · exact ihn _ (hn ▸ h) _ s1 rfl rfl hG1 hc1
          · exact ihm _ (hm ▸ h2) s1 (h1.trans hn) rfl hG1 hc1
        obtain ⟨s', h1, h2, h3, h4⟩ := key
        exact ⟨s', .cons l hb hst h1, h2, h3, h4.trans hnow⟩

/-! ### phase A: the environment calms down -/

theorem calm_of_current {s : Sys} (hinv : Inv s)
    (h : ∀ (w : Nat) (p f : Bool), s.core.rw = some w → s.core.conns[w]? = some (ConnSt.live p f) → p = false ∧ f = false) :
    Calm s.core := by
  intro i p f hi
  have hl : liveAt s.core i := by unfold liveAt; rw [hi]; rfl
  exact h i p f (hinv.core.live_rw i hl) hi

theorem calm_reach (d : Nat) {s : Sys} (hG : Good s) :
    ∃ s', BReach d s s' ∧ Calm s'.core ∧ s'.core.now = s.core.now := by
  cases hrw : s.core.rw with
  | none =>
    refine ⟨s, .refl _, calm_of_current hG.inv ?_, rfl⟩
    intro w p f h; rw [hrw] at h; cases h
  | some w =>
    cases hw : s.core.conns[w]? with
    | none =>
      refine ⟨s, .refl _, calm_of_current hG.inv ?_, rfl⟩
      intro w' p f h h'; rw [hrw] at h; cases h; rw [hw] at h'; cases h'
    | some x =>
      cases x with
      | dying e =>
        refine ⟨s, .refl _, calm_of_current hG.inv ?_, rfl⟩
        intro w' p f h h'; rw [hrw] at h; cases h; rw [hw] at h'; cases h'
      | dead e =>
        refine ⟨s, .refl _, calm_of_current hG.inv ?_, rfl⟩
        intro w' p f h h'; rw [hrw] at h; cases h; rw [hw] at h'; cases h'
      | live p f =>
        have hlen : w < s.core.conns.length := by
          rcases Nat.lt_or_ge w s.core.conns.length with h | h
          · exact h
          · rw [List.getElem?_eq_none h] at hw; cases hw
        let s1 : Sys := { s with core := { s.core with conns := s.core.conns.set w (.live false f) } }
        have hst1 : step s (.envPause w false) = some s1 := by simp [step, hw, s1]
        have hw1 : s1.core.conns[w]? = some (.live false f) := by simp [s1, hlen]
        let s2 : Sys := { s1 with core := { s1.core with conns := s1.core.conns.set w (.live false false) } }
        have hst2 : step s1 (.envFailWrites w false) = some s2 := by simp only [step, hw1]; rfl
        have hG2 : Good s2 := (hG.next (d := d) (l := .envPause w false) rfl hst1).next (d := d) (l := .envFailWrites w false) rfl hst2
        refine ⟨s2, .cons _ rfl hst1 (.cons _ rfl hst2 (.refl _)), calm_of_current hG2.inv ?_, rfl⟩
        intro w' p' f' h h'
        have : s2.core.rw = some w := hrw
        rw [this] at h; cases h
        have : s2.core.conns[w]? = some (.live false false) := by simp [s2, s1, hlen]
        rw [this] at h'; cases h'; exact ⟨rfl, rfl⟩

/-! ### phase C: connecting -/

theorem exec_connAfterNotify_live (c : Core) (w : Nat) (hcon : c.isConnected = true)
    (hrw : c.rw = some w) (hl : c.conns[w]? = some (.live false false)) :
    ∃ c', Shrink c c' ∧ c'.conns = c.conns ∧ c'.queue = [] ∧
      exec FUEL c [] (.ret .connAfterNotify) = ⟨c', .finished, [.readStart]⟩ := by
  obtain ⟨c', h1, h2, h3, h4⟩ := exec_drain_live 14 c [] .connAfterDrain w hcon hrw hl
  refine ⟨c', h1, h2, h3, ?_⟩
  have : exec FUEL c [] (.ret .connAfterNotify) = exec (14 + 1) c [] (.drain .connAfterDrain) := rfl
  rw [this, h4]
  have hc' : c'.isConnected = true := h1.isConnected.trans hcon
  simp [exec, hc']

theorem exec_readLoop_some (c : Core) (w : Nat) (hrw : c.rw = some w) :
    exec FUEL c [] (.ret .readLoop) = ⟨c, .readWait w, []⟩ := by
  simp [FUEL_eq, exec, hrw]

/-- program counters of phase C; `connDelay` deadlines have passed, readers read live transports -/
def cPc (c : Core) : Pc → Bool
  | .finished | .connStart | .connOpening | .readStart | .notifyWait .connAfterNotify => true
  | .connDelay due => decide (due ≤ c.now)
  | .readWait x => isLiveAt c x
  | _ => false

def rankC : Pc → Nat
  | .connStart | .connDelay _ => 12
  | .connOpening => 11
  | .notifyWait _ => 9
  | .readStart => 5
  | _ => 0

def muC (s : Sys) : Nat := (s.tasks.map (fun k => rankC k.pc)).sum

def active2 : Pc → Bool
  | .notifyWait _ | .readStart => true
  | _ => false

structure PC (s : Sys) : Prop where
  good : Good s
  pcs : ∀ k ∈ s.tasks, cPc s.core k.pc = true
  live : s.core.isConnected = true → ∃ w, s.core.rw = some w ∧ s.core.conns[w]? = some (.live false false)
  act : (∃ k ∈ s.tasks, active2 k.pc = true) → s.core.isConnected = true

theorem muC_upd {s : Sys} {t : Nat} {k0 : Task} {out : Out} (ht : s.tasks[t]? = some k0) :
    muC (upd s t out) + rankC k0.pc = muC s + rankC out.pc + (out.spawned.map rankC).sum := by
  have h1 := sum_modify (fun k => rankC k.pc) (fun k => { k with pc := out.pc }) s.tasks t k0 ht
  simp only [muC, upd, List.map_append, List.sum_append, List.map_map] at *
  have : (List.map ((fun k : Task => rankC k.pc) ∘ fun p => ({ pc := p, bg := true } : Task)) out.spawned) = out.spawned.map rankC := by
    apply List.map_congr_left; intro p _; rfl
  rw [this]
  omega

theorem PC.upd {s : Sys} (h : PC s) {t : Nat} {out : Out}
    (hg : Good (upd s t out)) (hpc : cPc out.core out.pc = true) (hsp : ∀ p ∈ out.spawned, cPc out.core p = true)
    (hmono : ∀ p, cPc s.core p = true → cPc out.core p = true)
    (hlive : out.core.isConnected = true → ∃ w, out.core.rw = some w ∧ out.core.conns[w]? = some (.live false false))
    (hcon : s.core.isConnected = true → out.core.isConnected = true)
    (hnew : (active2 out.pc = true ∨ ∃ p ∈ out.spawned, active2 p = true) → out.core.isConnected = true) :
    PC (upd s t out) := by
  refine ⟨hg, ?_, hlive, ?_⟩
  · intro k hk
    rcases mem_upd hk with hk | ⟨k1, _, rfl⟩ | ⟨_, hk⟩
    · exact hmono _ (h.pcs k hk)
    · exact hpc
    · exact hsp _ hk
  · rintro ⟨k, hk, ha⟩
    rcases mem_upd hk with hk | ⟨k1, _, rfl⟩ | ⟨_, hk⟩
    · exact hcon (h.act ⟨k, hk, ha⟩)
    · exact hnew (.inl ha)
    · exact hnew (.inr ⟨_, hk, ha⟩)

theorem cPc_congr {c c' : Core} (hn : c'.now = c.now) (hc : c'.conns = c.conns) (p : Pc) : cPc c' p = cPc c p := by
  cases p <;> simp [cPc, hn, isLiveAt, hc]

theorem connectBlock_facts (c : Core) :
    (connectBlock c).core.conns = c.conns ∧ (connectBlock c).core.rw = c.rw ∧ (connectBlock c).core.now = c.now ∧
    (connectBlock c).core.isConnected = c.isConnected ∧
    ((connectBlock c).pc = .finished ∨ (connectBlock c).pc = .connOpening) ∧ (connectBlock c).spawned = [] := by
  unfold connectBlock
  split
  · exact ⟨rfl, rfl, rfl, rfl, .inl rfl, rfl⟩
  · exact ⟨rfl, rfl, rfl, rfl, .inr rfl, rfl⟩

theorem pc_connect {s : Sys} (h : PC s) (d : Nat) {t : Nat} {k : Task} (ht : s.tasks[t]? = some k)
    (hst : step s (.run t .go) = some (upd s t (connectBlock s.core))) (hr : rankC k.pc = 12) :
    ∃ l s', benign d s l = true ∧ step s l = some s' ∧ PC s' ∧ s'.core.now = s.core.now ∧ muC s' < muC s := by
  obtain ⟨f1, f2, f3, f4, f5, f6⟩ := connectBlock_facts s.core
  refine ⟨_, _, rfl, hst, ?_, f3, ?_⟩
  · refine h.upd (h.good.next (d := d) (l := .run t .go) rfl hst) ?_ ?_ ?_ ?_ ?_ ?_
    · rcases f5 with e | e <;> rw [e] <;> rfl
    · rw [f6]; intro p hp; cases hp
    · intro p hp; rw [cPc_congr f3 f1]; exact hp
    · intro hc; rw [f2, f1]; exact h.live (f4 ▸ hc)
    · intro hc; rw [f4]; exact hc
    · rintro (ha | ⟨p, hp, _⟩)
      · rcases f5 with e | e <;> rw [e] at ha <;> cases ha
      · rw [f6] at hp; cases hp
  · have := muC_upd (out := connectBlock s.core) ht
    rw [f6, hr] at this
    rcases f5 with e | e <;> rw [e] at this <;> simp [rankC] at this <;> omega

theorem isLiveAt_append {c : Core} {x : Nat} (a : ConnSt) (h : isLiveAt c x = true) (evs : List Ev) (r : Option Nat)
    (b1 b2 : Bool) :
    isLiveAt { c with conns := c.conns ++ [a], rw := r, connecting := b1, isConnected := b2, trace := evs } x = true := by
  unfold isLiveAt at *
  have hx : x < c.conns.length := by
    rcases Nat.lt_or_ge x c.conns.length with h' | h'
    · exact h'
    · rw [List.getElem?_eq_none h'] at h; cases h
  simp only [List.getElem?_append_left hx]
  exact h

theorem pc_progress {s : Sys} (h : PC s) (d : Nat) {t : Nat} {k : Task} (ht : s.tasks[t]? = some k)
    (hk : k.pc ≠ .finished ∧ ∀ x, k.pc ≠ .readWait x) :
    ∃ l s', benign d s l = true ∧ step s l = some s' ∧ PC s' ∧ s'.core.now = s.core.now ∧ muC s' < muC s := by
  have hp := pcAt_of ht
  have hkm : k ∈ s.tasks := List.mem_of_getElem? ht
  have hc := h.pcs k hkm
  cases hpc : k.pc with
  | finished => exact absurd hpc hk.1
  | readWait x => exact absurd hpc (hk.2 x)
  | closeGather => rw [hpc] at hc; cases hc
  | cancelledOpening => rw [hpc] at hc; cases hc
  | drainAwait w e r => rw [hpc] at hc; cases hc
  | discWait w r => rw [hpc] at hc; cases hc
  | connStart =>
    rw [hpc] at hp
    exact pc_connect h d ht (by simp only [step, hp]) (by rw [hpc]; rfl)
  | connDelay due =>
    rw [hpc] at hp hc
    have hdue : due ≤ s.core.now := by simpa [cPc] using hc
    exact pc_connect h d ht (by simp only [step, hp, hdue, ↓reduceIte]) (by rw [hpc]; rfl)
  | connOpening =>
    rw [hpc] at hp
    have hst : step s (.run t .openOk) = some (upd s t
        ⟨({ s.core with conns := s.core.conns ++ [ConnSt.live false false], rw := some s.core.conns.length,
                        connecting := false, isConnected := true }.emit
            (.opened s.core.conns.length s.core.now)).emit (.notify true s.core.now),
         .notifyWait .connAfterNotify, []⟩) := by
      simp only [step, hp]
    refine ⟨_, _, rfl, hst, ?_, rfl, ?_⟩
    · refine h.upd (h.good.next (d := d) (l := .run t .openOk) rfl hst) rfl (by simp) ?_ ?_ (fun _ => rfl) (fun _ => rfl)
      · intro p hp'
        cases p with
        | readWait x => exact isLiveAt_append _ hp' _ _ _ _
        | notifyWait r => cases r <;> exact hp'
        | _ => exact hp'
      · intro _
        exact ⟨s.core.conns.length, rfl, by simp [Core.emit]⟩
    · refine Nat.lt_of_add_lt_add_right (n := rankC k.pc) ?_
      rw [muC_upd ht, hpc]
      simp [rankC]
  | notifyWait r =>
    rw [hpc] at hp hc
    have hr : r = .connAfterNotify := by revert hc; cases r <;> simp [cPc]
    subst hr
    have hcon := h.act ⟨k, hkm, by rw [hpc]; rfl⟩
    obtain ⟨w, hrw, hl⟩ := h.live hcon
    obtain ⟨c', h1, h2, _, h4⟩ := exec_connAfterNotify_live s.core w hcon hrw hl
    have hst : step s (.run t .go) = some (upd s t ⟨c', .finished, [.readStart]⟩) := by
      simp only [step, hp, h4]
    refine ⟨_, _, rfl, hst, ?_, h1.now, ?_⟩
    · refine h.upd (h.good.next (d := d) (l := .run t .go) rfl hst) rfl ?_ ?_ ?_ ?_ ?_
      · intro p hp'; simp only [List.mem_singleton] at hp'; subst hp'; rfl
      · intro p hp'; rw [cPc_congr h1.now h2]; exact hp'
      · intro _; exact ⟨w, h1.rw.trans hrw, by show c'.conns[w]? = _; rw [h2]; exact hl⟩
      · intro _; exact h1.isConnected.trans hcon
      · intro _; exact h1.isConnected.trans hcon
    · have := muC_upd (out := ⟨c', .finished, [.readStart]⟩) ht
      rw [hpc] at this
      simp [rankC] at this
      omega
  | readStart =>
    rw [hpc] at hp
    have hcon := h.act ⟨k, hkm, by rw [hpc]; rfl⟩
    obtain ⟨w, hrw, hl⟩ := h.live hcon
    have hst : step s (.run t .go) = some (upd s t ⟨s.core, .readWait w, []⟩) := by
      simp only [step, hp, exec_readLoop_some s.core w hrw]
    refine ⟨_, _, rfl, hst, ?_, rfl, ?_⟩
    · refine h.upd (h.good.next (d := d) (l := .run t .go) rfl hst) ?_ (by simp) (fun _ hp' => hp') h.live (fun hc' => hc')
        (fun _ => hcon)
      simp [cPc, isLiveAt, hl, ConnSt.isLive]
    · have := muC_upd (out := ⟨s.core, .readWait w, []⟩) ht
      rw [hpc] at this
      simp [rankC] at this
      omega

def doneC : Pc → Bool
  | .finished | .readWait _ => true
  | _ => false

theorem pc_loop (d : Nat) : ∀ (m : Nat) (s : Sys), muC s = m → PC s →
    ∃ s', BReach d s s' ∧ PC s' ∧ (∀ k ∈ s'.tasks, doneC k.pc = true) ∧ s'.core.now = s.core.now := by
  intro m
  induction m using Nat.strongRecOn with
  | _ m ih =>
    intro s hm h
    cases hall : s.tasks.all (fun k => doneC k.pc) with
    | true => exact ⟨s, .refl _, h, fun k hk => List.all_eq_true.1 hall k hk, rfl⟩
    | false =>
      obtain ⟨k, hk, hkd⟩ := List.all_eq_false.1 hall
      obtain ⟨t, ht⟩ := List.getElem?_of_mem hk
      have hnd : k.pc ≠ .finished ∧ ∀ x, k.pc ≠ .readWait x := by
        constructor
        · intro e; rw [e] at hkd; exact hkd rfl
        · intro x e; rw [e] at hkd; exact hkd rfl
      obtain ⟨l, s1, hb, hst, h1, hnow, hlt⟩ := pc_progress h d ht hnd
      obtain ⟨s', r1, r2, r3, r4⟩ := ih _ (hm ▸ hlt) s1 rfl h1
      exact ⟨s', .cons l hb hst r1, r2, r3, r4.trans hnow⟩

theorem healed_of_done {s : Sys} (h : PC s) (hd : ∀ k ∈ s.tasks, doneC k.pc = true) : Healed s := by
  have hG := h.good
  have hcon : s.core.isConnected = true := by
    rcases Bool.eq_false_or_eq_true s.core.isConnected with hc | hc
    · exact hc
    · obtain ⟨k, hk, hr⟩ := hG.h2.reconn hG.isOpen hG.notClosing hc
      have := hd k hk
      revert hr this; cases k.pc <;> simp [reconnPc, doneC]
  obtain ⟨w, hrw, hl⟩ := h.live hcon
  refine ⟨hG.isOpen, hcon, ?_, ?_, w, hrw, hl, ?_, ?_⟩
  · rcases Bool.eq_false_or_eq_true s.core.connecting with hc | hc
    · have := hG.inv.core.connecting hc; rw [hcon] at this; cases this
    · exact hc
  · cases hq : s.core.queue with
    | nil => rfl
    | cons e q =>
      obtain ⟨k, hk, hp⟩ := hG.iinv.busy hcon (by rw [hq]; simp) (by simp [SockIdle.curLive, hrw, hl, ConnSt.isLive])
      have := hd k hk
      revert hp this; cases k.pc <;> simp [SockIdle.promising, doneC]
  · rcases hG.h2.watch hG.isOpen w hrw with ⟨k, hk, r, hr⟩ | ⟨_, k, hk, hch⟩
    · have := hd k hk; rw [hr] at this; cases this
    · refine ⟨k, hk, ?_⟩
      have := hd k hk
      revert hch this; cases k.pc <;> simp [chainPc, doneC]
  · intro k hk
    have h1 := hd k hk
    have h2 := h.pcs k hk
    cases hp : k.pc with
    | finished => exact .inl rfl
    | readWait x =>
      right
      rw [hp] at h2
      have : liveAt s.core x := (isLiveAt_iff _ _).1 h2
      have := hG.inv.core.live_rw x this
      rw [hrw] at this; cases this; rfl
    | _ => rw [hp] at h1; cases h1

/-! ### the theorem -/

/-- after quiescing and waiting for the retry delay, the state is ready for phase C -/
theorem pc_of_quiescent {d : Nat} {s s' : Sys} (hG : Good s) (hcalm : Calm s.core) (hq : Quiescent s)
    (hd : d = s.core.now + RETRY_DELAY) (hst : step s (.advance d) = some s') : PC s' := by
  have hs' : s' = { s with core := { s.core with now := d } } := by
    simp only [step] at hst
    split at hst
    · exact (Option.some.inj hst).symm
    · cases hst
  have hG' : Good s' := hG.next (d := d) (l := .advance d) (by simp [benign]) hst
  subst hs'
  refine ⟨hG', ?_, ?_, ?_⟩
  · intro k hk
    have h1 := hq.2 k hk
    have h2 := hG.h1.delay k hk
    cases hp : k.pc with
    | connDelay due =>
      rw [hp] at h2
      simp only [cPc, decide_eq_true_eq]
      exact hd ▸ h2
    | readWait x => rw [hp] at h1; exact h1
    | finished => rfl
    | connStart => rfl
    | connOpening => rfl
    | _ => rw [hp] at h1; cases h1
  · intro hcon
    have hcon' : s.core.isConnected = true := hcon
    have hrw : ∃ w, s.core.rw = some w := by
      have := hG.inv.core.conn_rw
      rw [hcon'] at this
      cases h : s.core.rw with
      | none => rw [h] at this; cases this
      | some w => exact ⟨w, rfl⟩
    obtain ⟨w, hrw⟩ := hrw
    refine ⟨w, hrw, ?_⟩
    show s.core.conns[w]? = _
    rcases hG.h2.watch hG.isOpen w hrw with ⟨k, hk, r, hr⟩ | ⟨_, k, hk, hch⟩
    · have := hq.2 k hk; rw [hr] at this; cases this
    · have h1 := hq.2 k hk
      have hl : isLiveAt s.core w = true := by
        revert hch h1; cases k.pc <;> simp [chainPc, qPc]
        intro e h; subst e; exact h
      unfold isLiveAt at hl
      cases hx : s.core.conns[w]? with
      | none => rw [hx] at hl; cases hl
      | some x =>
        cases x with
        | live p f => obtain ⟨rfl, rfl⟩ := hcalm w p f hx; rfl
        | dying _ => rw [hx] at hl; cases hl
        | dead _ => rw [hx] at hl; cases hl
  · rintro ⟨k, hk, ha⟩
    have h1 := hq.2 k hk
    revert ha h1; cases k.pc <;> simp [active2, qPc]

/-- **never wedged**: from every state reachable under the calling discipline and the EOF rule in
    which the socket is open, a sequence of benign labels - in which the clock does not pass
    `now + RETRY_DELAY` - leads to a healed state -/
theorem heal_reach {s : Sys} (h : ReachableH s) (ho : s.core.isOpen = true) :
    ∃ s', BReach (s.core.now + RETRY_DELAY) s s' ∧ Healed s' ∧ s'.core.now ≤ s.core.now + RETRY_DELAY := by
  have hG : Good s := ⟨h, ho⟩
  obtain ⟨sA, rA, cA, nA⟩ := calm_reach (s.core.now + RETRY_DELAY) hG
  have hGA := hG.breach rA
  obtain ⟨sB, rB, cB, qB, nB⟩ := quiesce (s.core.now + RETRY_DELAY) _ _ sA rfl rfl hGA cA
  have hGB := hGA.breach rB
  have hnow : sB.core.now = s.core.now := nB.trans nA
  have hst : step sB (.advance (s.core.now + RETRY_DELAY)) =
      some { sB with core := { sB.core with now := s.core.now + RETRY_DELAY } } := by
    simp only [step]
    rw [if_pos (by rw [hnow]; exact Nat.le_add_right _ _)]
  have hPC := pc_of_quiescent hGB cB qB (by rw [hnow]) hst
  obtain ⟨s', rC, pC, dC, nC⟩ := pc_loop (s.core.now + RETRY_DELAY) _ _ rfl hPC
  refine ⟨s', rA.trans (rB.trans (.cons _ (by simp [benign]) hst rC)), healed_of_done pC dC, ?_⟩
  rw [nC]
  exact Nat.le_refl _

/-- `heal_reach` as a label sequence -/
theorem never_wedges {s : Sys} (h : ReachableH s) (ho : s.core.isOpen = true) :
    ∃ ls s', benignRun (s.core.now + RETRY_DELAY) s ls = true ∧ run s ls = some s' ∧ Healed s' ∧
      s'.core.now ≤ s.core.now + RETRY_DELAY := by
  obtain ⟨s', hr, hh, hn⟩ := heal_reach h ho
  obtain ⟨ls, h1, h2⟩ := hr.toRun
  exact ⟨ls, s', h1, h2, hh, hn⟩

/-- no deadlock: in a state that is not healed some benign label is enabled, and it is the first
    label of a benign sequence that heals -/
theorem progress_possible {s : Sys} (h : ReachableH s) (ho : s.core.isOpen = true) (hn : ¬ Healed s) :
    ∃ l s1 s', benign (s.core.now + RETRY_DELAY) s l = true ∧ step s l = some s1 ∧
      BReach (s.core.now + RETRY_DELAY) s1 s' ∧ Healed s' := by
  obtain ⟨s', hr, hh, _⟩ := heal_reach h ho
  cases hr with
  | refl => exact absurd hh hn
  | cons l hb hs hr' => exact ⟨l, _, s', hb, hs, hr', hh⟩

/-- under the calling discipline an open socket has no `close()` in progress -/
theorem open_not_closing {s : Sys} (h : ReachableD s) (ho : s.core.isOpen = true) : closing s.core.trace = false :=
  not_closing_of_open (cinv_reachableD h) ho

/-! ### a decidable test for `Healed` (for the examples) -/

def healedB (s : Sys) : Bool :=
  s.core.isOpen && s.core.isConnected && !s.core.connecting && s.core.queue.isEmpty &&
  match s.core.rw with
  | some w => decide (s.core.conns[w]? = some (.live false false)) && s.tasks.any (fun k => k.pc == .readWait w) &&
      s.tasks.all (fun k => k.pc == .finished || k.pc == .readWait w)
  | none => false

theorem healed_of_healedB {s : Sys} (h : healedB s = true) : Healed s := by
  unfold healedB at h
  cases hrw : s.core.rw with
  | none => rw [hrw] at h; simp at h
  | some w =>
    rw [hrw] at h
    simp only [Bool.and_eq_true, Bool.not_eq_eq_eq_not, Bool.not_true, List.isEmpty_iff, decide_eq_true_eq,
      List.any_eq_true, beq_iff_eq, List.all_eq_true, Bool.or_eq_true] at h
    obtain ⟨⟨⟨⟨h1, h2⟩, h3⟩, h4⟩, ⟨h5, h6⟩, h7⟩ := h
    exact ⟨h1, h2, h3, h4, w, hrw, h5, h6, h7⟩

/-! ### states from which no benign label sequence heals -/

/-- every task has finished and no transport is live: only the clock moves -/
def Stuck (s : Sys) : Prop := (∀ k ∈ s.tasks, k.pc = .finished) ∧ ∀ x ∈ s.core.conns, x.isLive = false

theorem stuck_step {d : Nat} {s s' : Sys} {l : Label} (h : Stuck s) (hb : benign d s l = true)
    (hs : step s l = some s') : Stuck s' := by
  have hnl : ∀ (i : Nat) (p f : Bool), s.core.conns[i]? ≠ some (ConnSt.live p f) := by
    intro i p f hi
    have := h.2 _ (List.mem_of_getElem? hi)
    cases this
  cases l with
  | advance t =>
    simp only [step] at hs; split at hs <;> cases hs; exact h
  | envLostRan cid =>
    simp only [step] at hs
    split at hs
    · cases hs
      refine ⟨h.1, ?_⟩
      intro x hx
      rcases List.mem_or_eq_of_mem_set hx with hx | rfl
      · exact h.2 x hx
      · rfl
    · cases hs
  | envPause cid b =>
    simp only [step] at hs
    split at hs
    · rename_i f hc; exact absurd hc (hnl _ _ _)
    · cases hs
  | envFailWrites cid b =>
    simp only [step] at hs
    split at hs
    · rename_i p hc; exact absurd hc (hnl _ _ _)
    · cases hs
  | run t a =>
    exfalso
    cases hp : pcAt s t with
    | none => cases a <;> simp [step, hp] at hs
    | some p =>
      obtain ⟨k, hk, hkp⟩ := pcAt_eq.1 hp
      have := h.1 k (List.mem_of_getElem? hk)
      rw [hkp] at this; subst this
      cases a <;> simp [step, hp] at hs
  | _ => cases hb

theorem stuck_never_heals {d : Nat} {s s' : Sys} (h : Stuck s) (hr : BReach d s s') : ¬ Healed s' := by
  induction hr with
  | refl s =>
    intro hh
    obtain ⟨w, _, hl, _⟩ := hh.conn
    have := h.2 _ (List.mem_of_getElem? hl)
    cases this
  | cons l hb hs _ ih => exact ih (stuck_step h hb hs)

/-! ### readers of a live transport stay: "exactly one reader" cannot be restored by benign labels -/

theorem isLiveAt_set_other (c : Core) (cid w : Nat) (x : ConnSt) (h : isLiveAt c w = true)
    (hx : cid = w → x.isLive = true) : isLiveAt { c with conns := c.conns.set cid x } w = true := by
  unfold isLiveAt at *
  simp only [List.getElem?_set]
  by_cases hcw : cid = w
  · subst hcw
    have hl : cid < c.conns.length := by
      rcases Nat.lt_or_ge cid c.conns.length with h' | h'
      · exact h'
      · rw [List.getElem?_eq_none h'] at h; cases h
    simp [hl, hx rfl]
  · simp [hcw, h]

theorem readers_step {d : Nat} {s s' : Sys} {l : Label} {w : Nat}
    (h1 : ∀ k ∈ s.tasks, k.pc = .finished ∨ k.pc = .readWait w) (h2 : isLiveAt s.core w = true)
    (hb : benign d s l = true) (hs : step s l = some s') : s'.tasks = s.tasks ∧ isLiveAt s'.core w = true := by
  cases l with
  | advance t => simp only [step] at hs; split at hs <;> cases hs; exact ⟨rfl, h2⟩
  | envLostRan cid =>
    simp only [step] at hs
    split at hs
    · rename_i e he
      cases hs
      refine ⟨rfl, isLiveAt_set_other _ _ _ _ h2 ?_⟩
      intro e'; subst e'
      unfold isLiveAt at h2; rw [he] at h2; cases h2
    · cases hs
  | envPause cid b =>
    simp only [step] at hs
    split at hs
    · cases hs; exact ⟨rfl, isLiveAt_set_other _ _ _ _ h2 (fun _ => rfl)⟩
    · cases hs
  | envFailWrites cid b =>
    simp only [step] at hs
    split at hs
    · cases hs; exact ⟨rfl, isLiveAt_set_other _ _ _ _ h2 (fun _ => rfl)⟩
    · cases hs
  | run t a =>
    exfalso
    cases hp : pcAt s t with
    | none => cases a <;> simp [step, hp] at hs
    | some p =>
      obtain ⟨k, hk, hkp⟩ := pcAt_eq.1 hp
      rcases h1 k (List.mem_of_getElem? hk) with e | e
      · rw [hkp] at e; subst e
        cases a <;> simp [step, hp] at hs
      · rw [hkp] at e; subst e
        have hcc : clientClosed s.core w = false := by
          unfold isLiveAt at h2; unfold clientClosed
          cases hx : s.core.conns[w]? with
          | none => rfl
          | some x =>
            rw [hx] at h2
            cases x with
            | live p f => rfl
            | dying e => cases h2
            | dead e => cases h2
        cases a <;> first | (simp [step, hp] at hs; done) | (simp [benign, hp, h2, hcc] at hb; done)
  | _ => cases hb

/-- readers blocked on a live transport are not disturbed by benign labels -/
theorem readers_persist {d : Nat} {s s' : Sys} {w : Nat}
    (h1 : ∀ k ∈ s.tasks, k.pc = .finished ∨ k.pc = .readWait w) (h2 : isLiveAt s.core w = true)
    (hr : BReach d s s') : s'.tasks = s.tasks := by
  induction hr with
  | refl => rfl
  | cons l hb hs _ ih =>
    obtain ⟨e1, e2⟩ := readers_step h1 h2 hb hs
    rw [ih (by rw [e1]; exact h1) e2, e1]

theorem healedB_of_healed {s : Sys} (h : Healed s) : healedB s = true := by
  obtain ⟨h1, h2, h3, h4, w, hrw, h5, h6, h7⟩ := h
  unfold healedB
  rw [hrw]
  simp only [Bool.and_eq_true, Bool.not_eq_eq_eq_not, Bool.not_true, List.isEmpty_iff, decide_eq_true_eq,
    List.any_eq_true, beq_iff_eq, List.all_eq_true, Bool.or_eq_true]
  exact ⟨⟨⟨⟨h1, h2⟩, h3⟩, h4⟩, ⟨h5, h6⟩, h7⟩

theorem not_healed_of_healedB {s : Sys} (h : healedB s = false) : ¬ Healed s := by
  intro hh; rw [healedB_of_healed hh] at h; cases h

end PyAirtouch.Lemmas.SockHeal
