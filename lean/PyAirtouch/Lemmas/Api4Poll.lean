import PyAirtouch.Lemmas.Api4Inv
/-!
# The group-status poll under the clock
-/
set_option linter.unusedSimpArgs false
set_option linter.unusedVariables false
namespace PyAirtouch.Lemmas.Api4
open PyAirtouch.Model PyAirtouch.Model.Api4 PyAirtouch.Model.At4 PyAirtouch.Gen

/-- the poll request as an output event -/
def pollEv : Ev := Ev.send .connected groupStatusRequest

/-- what the poll tasks look at -/
structure PollView where
  pollCur : Option Nat
  pollOrphans : List Nat
  now : Nat
  sockConnected : Bool
  sockOpen : Bool
deriving DecidableEq

def pollView (s : State) : PollView :=
  { pollCur := s.pollCur, pollOrphans := s.pollOrphans, now := s.now, sockConnected := s.sockConnected,
    sockOpen := s.sockOpen }

theorem pollView_fireHbTimeout (s : State) : pollView (fireHbTimeout s).1 = pollView s := by
  unfold fireHbTimeout
  split
  · split
    · split <;> rfl
    · rfl
  · rfl

theorem pollView_fireBeat (s : State) : pollView (fireBeat s).1 = pollView s := by
  unfold fireBeat
  split
  · split <;> rfl
  · rfl

theorem count_fireHbTimeout (s : State) : (fireHbTimeout s).2.count pollEv = 0 := by
  unfold fireHbTimeout
  split
  · split
    · split <;> rfl
    · rfl
  · rfl

theorem count_fireBeat (s : State) : (fireBeat s).2.count pollEv = 0 := by
  unfold fireBeat
  split
  · split
    · split
      · rfl
      · rfl
    · rfl
  · rfl

theorem count_fireInitWaits (s : State) : (fireInitWaits s).2.count pollEv = 0 := by
  simp only [fireInitWaits]
  apply List.count_eq_zero.mpr
  intro h
  simp only [List.mem_map] at h
  obtain ⟨_, _, he⟩ := h
  cases he

/-- one tick, seen by the current poll task when there are no orphaned poll tasks -/
theorem tick_poll (s : State) (ho : s.pollOrphans = []) :
    pollView (tick s).1 =
      { pollCur := (s.pollCur.map (firePoll s.sockConnected s.sockOpen (s.now + 1))).bind (·.1),
        pollOrphans := [], now := s.now + 1, sockConnected := s.sockConnected, sockOpen := s.sockOpen } ∧
    (tick s).2.count pollEv =
      (match s.pollCur.map (firePoll s.sockConnected s.sockOpen (s.now + 1)) with
       | some c => c.2.count pollEv
       | none => 0) := by
  unfold tick
  simp only
  constructor
  · rw [pollView_fireBeat]
    show pollView (firePolls (fireHbTimeout _).1).1 = _
    have h1 := pollView_fireHbTimeout { s with now := s.now + 1, hb := { s.hb with now := s.now + 1 } }
    generalize (fireHbTimeout { s with now := s.now + 1, hb := { s.hb with now := s.now + 1 } }).1 = t at h1
    have e1 : t.pollCur = s.pollCur := congrArg PollView.pollCur h1
    have e2 : t.pollOrphans = s.pollOrphans := congrArg PollView.pollOrphans h1
    have e3 : t.now = s.now + 1 := congrArg PollView.now h1
    have e4 : t.sockConnected = s.sockConnected := congrArg PollView.sockConnected h1
    have e5 : t.sockOpen = s.sockOpen := congrArg PollView.sockOpen h1
    simp only [firePolls, pollView, e1, e2, e3, e4, e5, ho, List.map_nil, List.filterMap_nil]
  · simp only [List.count_append, count_fireHbTimeout, count_fireBeat, count_fireInitWaits, Nat.zero_add, Nat.add_zero]
    have h1 := pollView_fireHbTimeout { s with now := s.now + 1, hb := { s.hb with now := s.now + 1 } }
    generalize (fireHbTimeout { s with now := s.now + 1, hb := { s.hb with now := s.now + 1 } }).1 = t at h1
    have e1 : t.pollCur = s.pollCur := congrArg PollView.pollCur h1
    have e2 : t.pollOrphans = s.pollOrphans := congrArg PollView.pollOrphans h1
    have e3 : t.now = s.now + 1 := congrArg PollView.now h1
    have e4 : t.sockConnected = s.sockConnected := congrArg PollView.sockConnected h1
    have e5 : t.sockOpen = s.sockOpen := congrArg PollView.sockOpen h1
    simp only [firePolls, e1, e2, e3, e4, e5, ho, List.map_nil, List.flatMap_nil, List.nil_append]
    cases s.pollCur <;> rfl

/-- number of deadlines `d, d+T, d+2T, …` that are `≤ t` -/
def deadlinesUpTo (d T t : Nat) : Nat := if t < d then 0 else (t - d) / T + 1

theorem deadlinesUpTo_shift (d T t : Nat) (hT : 0 < T) (h : d ≤ t) :
    deadlinesUpTo d T t = 1 + deadlinesUpTo (d + T) T t := by
  unfold deadlinesUpTo
  have h1 : ¬ t < d := by omega
  simp only [h1, ↓reduceIte]
  by_cases h2 : t < d + T
  · simp only [h2, ↓reduceIte]
    have : (t - d) / T = 0 := Nat.div_eq_of_lt (by omega)
    omega
  · simp only [h2, ↓reduceIte]
    have : t - d = (t - (d + T)) + T := by omega
    rw [this, Nat.add_div_right _ hT]
    omega

theorem deadlinesUpTo_before (d T t : Nat) (h : t < d) : deadlinesUpTo d T t = 0 := by
  simp [deadlinesUpTo, h]

/-- `adv n` with one live poll task whose deadline `d` lies ahead: a request goes out at `d`, `d + T`, `d + 2T`, …
    (nothing when the socket is not connected), and the task ends up waiting for the next of these instants -/
theorem advance_poll (n : Nat) (s : State) (d : Nat) (ho : s.pollOrphans = []) (hc : s.pollCur = some d)
    (hd : s.now < d) (hopen : s.sockConnected = true → s.sockOpen = true) :
    (advance n s).2.count pollEv =
      (if s.sockConnected then deadlinesUpTo d Api4.GROUP_STATUS_TIMEOUT (s.now + n) else 0) ∧
    pollView (advance n s).1 =
      { pollCur := some (d + Api4.GROUP_STATUS_TIMEOUT * deadlinesUpTo d Api4.GROUP_STATUS_TIMEOUT (s.now + n)),
        pollOrphans := [], now := s.now + n, sockConnected := s.sockConnected, sockOpen := s.sockOpen } := by
  have hT : 0 < Api4.GROUP_STATUS_TIMEOUT := by decide
  induction n generalizing s d with
  | zero =>
    simp only [advance, List.count_nil, Nat.add_zero, deadlinesUpTo_before _ _ _ hd, Nat.mul_zero]
    constructor
    · split <;> rfl
    · simp [pollView, hc, ho]
  | succ n ih =>
    obtain ⟨hv, hcnt⟩ := tick_poll s ho
    simp only [hc, Option.map_some, Option.bind_some] at hv hcnt
    have e2 : (tick s).1.pollOrphans = [] := congrArg PollView.pollOrphans hv
    have e3 : (tick s).1.now = s.now + 1 := congrArg PollView.now hv
    have e4 : (tick s).1.sockConnected = s.sockConnected := congrArg PollView.sockConnected hv
    have e5 : (tick s).1.sockOpen = s.sockOpen := congrArg PollView.sockOpen hv
    have e1 : (tick s).1.pollCur = (firePoll s.sockConnected s.sockOpen (s.now + 1) d).1 := congrArg PollView.pollCur hv
    have hopen' : (tick s).1.sockConnected = true → (tick s).1.sockOpen = true := by rw [e4, e5]; exact hopen
    simp only [advance, List.count_append, hcnt]
    by_cases hfire : d ≤ s.now + 1
    · -- the deadline is reached in this tick
      have hdeq : d = s.now + 1 := by omega
      have hshift := deadlinesUpTo_shift d Api4.GROUP_STATUS_TIMEOUT (s.now + (n + 1)) hT (by omega)
      cases hcon : s.sockConnected with
      | true =>
        have hop := hopen hcon
        have hp : firePoll true s.sockOpen (s.now + 1) d =
            (some (s.now + 1 + Api4.GROUP_STATUS_TIMEOUT), [pollEv]) := by
          simp [firePoll, hfire, hop, pollEv]
        rw [hcon] at e1 e4 hcnt
        rw [hp] at e1
        obtain ⟨ih1, ih2⟩ := ih (tick s).1 (s.now + 1 + Api4.GROUP_STATUS_TIMEOUT) e2 e1 (by omega) hopen'
        rw [e3, e4] at ih1 ih2
        rw [e5] at ih2
        have hnn : s.now + 1 + n = s.now + (n + 1) := by omega
        rw [hnn, ← hdeq] at ih1 ih2
        constructor
        · rw [hp, ih1, hshift]
          simp [pollEv]
        · rw [ih2, hshift]
          congr 2
          rw [Nat.mul_add, Nat.mul_one]; omega
      | false =>
        have hp : firePoll false s.sockOpen (s.now + 1) d = (some (s.now + 1 + Api4.GROUP_STATUS_TIMEOUT), []) := by
          simp [firePoll, hfire]
        rw [hcon] at e1 e4
        rw [hp] at e1
        obtain ⟨ih1, ih2⟩ := ih (tick s).1 (s.now + 1 + Api4.GROUP_STATUS_TIMEOUT) e2 e1 (by omega) hopen'
        rw [e3, e4] at ih1 ih2
        rw [e5] at ih2
        have hnn : s.now + 1 + n = s.now + (n + 1) := by omega
        rw [hnn, ← hdeq] at ih1 ih2
        constructor
        · rw [hp, ih1]; simp
        · rw [ih2, hshift]
          congr 2
          rw [Nat.mul_add, Nat.mul_one]; omega
    · have hp : firePoll s.sockConnected s.sockOpen (s.now + 1) d = (some d, []) := by
        simp [firePoll, hfire]
      rw [hp] at e1
      obtain ⟨ih1, ih2⟩ := ih (tick s).1 d e2 e1 (by omega) hopen'
      rw [e3, e4] at ih1 ih2
      rw [e5] at ih2
      have hnn : s.now + 1 + n = s.now + (n + 1) := by omega
      rw [hnn] at ih1 ih2
      constructor
      · rw [hp, ih1]; simp
      · exact ih2

end PyAirtouch.Lemmas.Api4
