import PyAirtouch.Model.Api5
/-!
# Lemmas about the AirTouch 5 API model: heap updates, one-step specifications of the entity updates,
the `forEach` loops of the `_process_*` methods
-/
namespace PyAirtouch.Lemmas.Api5
open PyAirtouch.Model PyAirtouch.Model.Api5 PyAirtouch.Model.At5 PyAirtouch.Model.At5.Registry
open PyAirtouch.Model.TimerCommon (AcTimerState AcTimerStatusData)
open PyAirtouch.Gen PyAirtouch.Gen.Api5

/-! ### `modifyAt` -/

theorem modifyAt_length {α} (l : List α) (i : Nat) (f : α → α) : (modifyAt l i f).length = l.length := by
  induction l generalizing i with
  | nil => simp [modifyAt]
  | cons x xs ih => cases i <;> simp [modifyAt, ih]

theorem modifyAt_get_same {α} (l : List α) (i : Nat) (f : α → α) : (modifyAt l i f)[i]? = l[i]?.map f := by
  induction l generalizing i with
  | nil => simp [modifyAt]
  | cons x xs ih => cases i <;> simp [modifyAt, ih]

theorem modifyAt_get_other {α} (l : List α) (i j : Nat) (f : α → α) (h : i ≠ j) : (modifyAt l i f)[j]? = l[j]? := by
  induction l generalizing i j with
  | nil => simp [modifyAt]
  | cons x xs ih =>
    cases i <;> cases j <;> simp [modifyAt] at h ⊢
    exact ih _ _ h

theorem modifyAt_self {α} (l : List α) (i : Nat) (x : α) (h : l[i]? = some x) : modifyAt l i (fun _ => x) = l := by
  induction l generalizing i with
  | nil => simp [modifyAt]
  | cons y ys ih =>
    cases i with
    | zero => simp at h; simp [modifyAt, h]
    | succ i => simp at h; simp [modifyAt, ih i h]

theorem modifyAt_get {α} (l : List α) (i j : Nat) (f : α → α) :
    (modifyAt l i f)[j]? = if i = j then l[j]?.map f else l[j]? := by
  by_cases h : i = j
  · subst h; simp [modifyAt_get_same]
  · simp [h, modifyAt_get_other _ _ _ _ h]

/-! ### handler results -/

@[simp] theorem andThen_none (r : HR) (f : State → HR) (h : r.exc = none) :
    r.andThen f = { s := (f r.s).s, out := r.out ++ (f r.s).out, exc := (f r.s).exc } := by
  simp [HR.andThen, h]

theorem andThen_some (r : HR) (f : State → HR) (c : String) (h : r.exc = some c) : r.andThen f = r := by
  simp [HR.andThen, h]

/-! ### one-step specifications (socket open) -/

/-- the AC object after `update_ac_status(d)` -/
def acAfterStatus (a : AcObj) (d : C023.AcStatusData) : AcObj :=
  if a.status = d then a
  else if d.error_code ≠ 0 then { a with status := d } else { a with status := d, errInfo := none }

/-- what `update_ac_status(d)` emits -/
def acStatusOut (a : AcObj) (d : C023.AcStatusData) : List Out :=
  if a.status = d then []
  else (if d.error_code ≠ 0 then [.send .connected (msgErrInfoRequest d.ac_number) false] else []) ++
    acNotifyAll (acAfterStatus a d)

theorem updateAcStatus_spec {s : State} {r : Nat} {a : AcObj} (d : C023.AcStatusData)
    (hopen : s.sockOpen = true) (ha : s.aobjs[r]? = some a) :
    updateAcStatus s r d = { s := s.setAc r (acAfterStatus a d), out := acStatusOut a d, exc := none } := by
  unfold updateAcStatus acStatusOut acAfterStatus
  simp only [ha]
  by_cases h1 : a.status = d
  · simp [h1, State.setAc, modifyAt_self _ _ _ ha]
  · by_cases h2 : d.error_code ≠ 0
    · simp [h1, h2, sendMsg, State.setAc, hopen, HR.andThen, AcObj.id]
    · simp [h1, h2]

theorem updateAcStatus_none {s : State} {r : Nat} (d : C023.AcStatusData) (ha : s.aobjs[r]? = none) :
    updateAcStatus s r d = { s } := by
  simp [updateAcStatus, ha]

def acAfterTimer (a : AcObj) (d : AcTimerStatusData) : AcObj := { a with timer := d }
def acTimerOut (a : AcObj) (d : AcTimerStatusData) : List Out :=
  if a.timer = d then [] else acNotifyAll (acAfterTimer a d)

theorem updateAcTimer_spec {s : State} {r : Nat} {a : AcObj} (d : AcTimerStatusData) (ha : s.aobjs[r]? = some a) :
    updateAcTimer s r d = { s := s.setAc r (acAfterTimer a d), out := acTimerOut a d, exc := none } := by
  unfold updateAcTimer acTimerOut acAfterTimer
  simp only [ha]
  by_cases h1 : a.timer = d
  · have : ({ a with timer := d } : AcObj) = a := by cases a; simp_all
    simp [h1, State.setAc, this, modifyAt_self _ _ _ ha]
  · simp [h1]

def acAfterErrInfo (a : AcObj) (e : Option Bytes) : AcObj := { a with errInfo := e }
def acErrInfoOut (a : AcObj) (e : Option Bytes) : List Out :=
  if a.errInfo = e then [] else acNotifyAll (acAfterErrInfo a e)

theorem updateAcErrInfo_spec {s : State} {r : Nat} {a : AcObj} (e : Option Bytes) (ha : s.aobjs[r]? = some a) :
    updateAcErrInfo s r e = { s := s.setAc r (acAfterErrInfo a e), out := acErrInfoOut a e, exc := none } := by
  unfold updateAcErrInfo acErrInfoOut acAfterErrInfo
  simp only [ha]
  by_cases h1 : a.errInfo = e
  · have : ({ a with errInfo := e } : AcObj) = a := by cases a; simp_all
    simp [h1, State.setAc, this, modifyAt_self _ _ _ ha]
  · simp [h1]

def zoneAfterStatus (z : ZoneObj) (d : C021.ZoneStatusData) : ZoneObj := { z with status := d }
def zoneStatusOut (aobjs : List AcObj) (z : ZoneObj) (d : C021.ZoneStatusData) : List Out :=
  if z.status = d then [] else zoneNotify aobjs (zoneAfterStatus z d)

theorem updateZoneStatus_spec {s : State} {r : Nat} {z : ZoneObj} (d : C021.ZoneStatusData) (hz : s.zobjs[r]? = some z) :
    updateZoneStatus s r d = { s := s.setZone r (zoneAfterStatus z d), out := zoneStatusOut s.aobjs z d, exc := none } := by
  unfold updateZoneStatus zoneStatusOut zoneAfterStatus
  simp only [hz]
  by_cases h1 : z.status = d
  · have : ({ z with status := d } : ZoneObj) = z := by cases z; simp_all
    simp [h1, State.setZone, this, modifyAt_self _ _ _ hz]
  · simp [h1]


/-! ### the `_process_*` loops as folds (socket open: no exception) -/

def runSteps {α} (step : State → α → State × List Out) : List α → State → State × List Out
  | [], s => (s, [])
  | x :: xs, s => ((runSteps step xs (step s x).1).1, (step s x).2 ++ (runSteps step xs (step s x).1).2)

theorem forEach_eq_runSteps {α} (f : State → α → HR) (step : State → α → State × List Out) (I : State → Prop)
    (h : ∀ s x, I s → f s x = { s := (step s x).1, out := (step s x).2, exc := none } ∧ I (step s x).1)
    (xs : List α) (s : State) (hI : I s) :
    forEach xs f s = { s := (runSteps step xs s).1, out := (runSteps step xs s).2, exc := none } ∧
      I (runSteps step xs s).1 := by
  induction xs generalizing s with
  | nil => simp [forEach, runSteps, hI]
  | cons x xs ih =>
    obtain ⟨h1, h2⟩ := h s x hI
    obtain ⟨h3, h4⟩ := ih (step s x).1 h2
    simp [forEach, runSteps, h1, HR.andThen, h3, h4]

theorem runSteps_inv {α} (step : State → α → State × List Out) (R : State → State → Prop)
    (hrefl : ∀ s, R s s) (htrans : ∀ a b c, R a b → R b c → R a c) (hstep : ∀ s x, R s (step s x).1)
    (xs : List α) (s : State) : R s (runSteps step xs s).1 := by
  induction xs generalizing s with
  | nil => exact hrefl s
  | cons x xs ih => exact htrans _ _ _ (hstep s x) (ih _)

theorem runSteps_out {α} (step : State → α → State × List Out) (O : Out → Prop)
    (hstep : ∀ s x, ∀ o ∈ (step s x).2, O o) (xs : List α) (s : State) : ∀ o ∈ (runSteps step xs s).2, O o := by
  induction xs generalizing s with
  | nil => simp [runSteps]
  | cons x xs ih =>
    intro o ho
    simp only [runSteps, List.mem_append] at ho
    rcases ho with ho | ho
    · exact hstep s x o ho
    · exact ih _ o ho

def acStatusStep (s : State) (d : C023.AcStatusData) : State × List Out :=
  match s.acRef d.ac_number with
  | some r => match s.aobjs[r]? with
    | some a => (s.setAc r (acAfterStatus a d), acStatusOut a d)
    | none => (s, [])
  | none => (s, [])

def acTimerStep (s : State) (d : AcTimerStatusData) : State × List Out :=
  match s.acRef d.ac_number with
  | some r => match s.aobjs[r]? with
    | some a => (s.setAc r (acAfterTimer a d), acTimerOut a d)
    | none => (s, [])
  | none => (s, [])

def zoneStatusStep (s : State) (d : C021.ZoneStatusData) : State × List Out :=
  match s.zones.lookup d.zone_number with
  | some r => match s.zobjs[r]? with
    | some z => (s.setZone r (zoneAfterStatus z d), zoneStatusOut s.aobjs z d)
    | none => (s, [])
  | none => (s, [])

theorem setAc_sockOpen (s : State) (r : Nat) (a : AcObj) : (s.setAc r a).sockOpen = s.sockOpen := rfl
theorem setZone_sockOpen (s : State) (r : Nat) (z : ZoneObj) : (s.setZone r z).sockOpen = s.sockOpen := rfl

theorem acStatusStep_sockOpen (s : State) (d : C023.AcStatusData) : (acStatusStep s d).1.sockOpen = s.sockOpen := by
  unfold acStatusStep; repeat' split
  all_goals rfl

theorem acTimerStep_sockOpen (s : State) (d : AcTimerStatusData) : (acTimerStep s d).1.sockOpen = s.sockOpen := by
  unfold acTimerStep; repeat' split
  all_goals rfl

theorem zoneStatusStep_sockOpen (s : State) (d : C021.ZoneStatusData) : (zoneStatusStep s d).1.sockOpen = s.sockOpen := by
  unfold zoneStatusStep; repeat' split
  all_goals rfl

theorem processAcStatus_eq (l : List C023.AcStatusData) (s : State) (hopen : s.sockOpen = true) :
    processAcStatus l s = { s := (runSteps acStatusStep l s).1, out := (runSteps acStatusStep l s).2, exc := none } ∧
      (runSteps acStatusStep l s).1.sockOpen = true := by
  unfold processAcStatus
  refine forEach_eq_runSteps _ acStatusStep (fun s => s.sockOpen = true) ?_ l s hopen
  intro s d hs
  refine ⟨?_, by rw [acStatusStep_sockOpen]; exact hs⟩
  unfold acStatusStep
  cases hr : s.acRef d.ac_number with
  | none => rfl
  | some r =>
    cases ha : s.aobjs[r]? with
    | none => simp [updateAcStatus_none d ha, ha]
    | some a => simp [updateAcStatus_spec d hs ha, ha]

theorem processAcTimer_eq (l : List AcTimerStatusData) (s : State) :
    processAcTimer l s = { s := (runSteps acTimerStep l s).1, out := (runSteps acTimerStep l s).2, exc := none } := by
  unfold processAcTimer
  refine (forEach_eq_runSteps _ acTimerStep (fun _ => True) ?_ l s trivial).1
  intro s d _
  refine ⟨?_, trivial⟩
  unfold acTimerStep
  cases hr : s.acRef d.ac_number with
  | none => rfl
  | some r =>
    cases ha : s.aobjs[r]? with
    | none => simp [updateAcTimer, ha]
    | some a => simp [updateAcTimer_spec d ha, ha]

theorem processZoneStatus_eq (l : List C021.ZoneStatusData) (s : State) :
    processZoneStatus l s = { s := (runSteps zoneStatusStep l s).1, out := (runSteps zoneStatusStep l s).2, exc := none } := by
  unfold processZoneStatus
  refine (forEach_eq_runSteps _ zoneStatusStep (fun _ => True) ?_ l s trivial).1
  intro s d _
  refine ⟨?_, trivial⟩
  unfold zoneStatusStep
  cases hr : s.zones.lookup d.zone_number with
  | none => rfl
  | some r =>
    cases hz : s.zobjs[r]? with
    | none => simp [updateZoneStatus, hz]
    | some z => simp [updateZoneStatus_spec d hz, hz]


/-! ### last writer wins -/

/-- `cur` overwritten, in order, by every record of `l` that the dict addresses to object `r` -/
def lastWriter {D} (key : D → Nat) (dict : List (Nat × Nat)) (r : Nat) (l : List D) (cur : D) : D :=
  l.foldl (fun c d => if dict.lookup (key d) = some r then d else c) cur

theorem lastWriter_cons {D} (key : D → Nat) (dict : List (Nat × Nat)) (r : Nat) (d : D) (l : List D) (cur : D) :
    lastWriter key dict r (d :: l) cur = lastWriter key dict r l (if dict.lookup (key d) = some r then d else cur) := rfl

/-- nothing addressed to `r`: unchanged -/
theorem lastWriter_none {D} (key : D → Nat) (dict : List (Nat × Nat)) (r : Nat) (l : List D) (cur : D)
    (h : ∀ d ∈ l, dict.lookup (key d) ≠ some r) : lastWriter key dict r l cur = cur := by
  induction l generalizing cur with
  | nil => rfl
  | cons d l ih =>
    rw [lastWriter_cons, if_neg (h d (by simp))]
    exact ih _ (fun d hd => h d (by simp [hd]))

/-- the last record addressed to `r` is the result -/
theorem lastWriter_last {D} (key : D → Nat) (dict : List (Nat × Nat)) (r : Nat) (l1 l2 : List D) (d cur : D)
    (hd : dict.lookup (key d) = some r) (h2 : ∀ e ∈ l2, dict.lookup (key e) ≠ some r) :
    lastWriter key dict r (l1 ++ d :: l2) cur = d := by
  unfold lastWriter
  rw [List.foldl_append, List.foldl_cons, if_pos hd]
  exact lastWriter_none key dict r l2 d h2

theorem acAfterStatus_status (a : AcObj) (d : C023.AcStatusData) : (acAfterStatus a d).status = d := by
  unfold acAfterStatus; repeat' split
  all_goals first | assumption | rfl

/-- the fields of an AC object that no status / timer / error update touches -/
def fixedOf (a : AcObj) :=
  (a.ability, a.zones, a.supportedModes, a.supportedFanSpeeds, a.subs, a.subsState)

theorem acAfterStatus_fixed (a : AcObj) (d : C023.AcStatusData) : fixedOf (acAfterStatus a d) = fixedOf a := by
  unfold acAfterStatus; repeat' split
  all_goals rfl

theorem acAfterStatus_timer (a : AcObj) (d : C023.AcStatusData) : (acAfterStatus a d).timer = a.timer := by
  unfold acAfterStatus; repeat' split
  all_goals rfl

theorem acStatusStep_acs (s : State) (d : C023.AcStatusData) : (acStatusStep s d).1.acs = s.acs := by
  unfold acStatusStep; repeat' split
  all_goals rfl

theorem acStatusStep_get (s : State) (d : C023.AcStatusData) (r : Nat) (a : AcObj) (ha : s.aobjs[r]? = some a) :
    (acStatusStep s d).1.aobjs[r]? =
      some (if s.acRef d.ac_number = some r then acAfterStatus a d else a) := by
  unfold acStatusStep
  cases hr : s.acRef d.ac_number with
  | none => simp [ha]
  | some r' =>
    cases ha' : s.aobjs[r']? with
    | none =>
      have : r' ≠ r := by intro h; subst h; simp [ha] at ha'
      simp [ha', ha, this]
    | some a0 =>
      by_cases h : r' = r
      · subst h
        have : a0 = a := by simpa [ha] using ha'.symm
        subst this
        simp [ha', State.setAc, modifyAt_get_same]
      · simp [ha', State.setAc, modifyAt_get_other _ _ _ _ h, ha, h]

theorem runSteps_acStatus (l : List C023.AcStatusData) (s : State) (r : Nat) (a : AcObj) (ha : s.aobjs[r]? = some a) :
    (runSteps acStatusStep l s).1.acs = s.acs ∧
    ∃ a', (runSteps acStatusStep l s).1.aobjs[r]? = some a' ∧
      a'.status = lastWriter (·.ac_number) s.acs r l a.status ∧ fixedOf a' = fixedOf a ∧ a'.timer = a.timer := by
  induction l generalizing s a with
  | nil => exact ⟨rfl, a, ha, rfl, rfl, rfl⟩
  | cons d l ih =>
    have hget := acStatusStep_get s d r a ha
    obtain ⟨h1, a', h2, h3, h4, h5⟩ := ih (acStatusStep s d).1 _ hget
    rw [acStatusStep_acs] at h1 h3
    refine ⟨h1, a', h2, ?_, ?_, ?_⟩
    · rw [h3, lastWriter_cons]
      unfold State.acRef
      by_cases h : s.acs.lookup d.ac_number = some r <;> simp [h, acAfterStatus_status]
    · rw [h4]; split
      · exact acAfterStatus_fixed a d
      · rfl
    · rw [h5]; split
      · exact acAfterStatus_timer a d
      · rfl


theorem acTimerStep_acs (s : State) (d : AcTimerStatusData) : (acTimerStep s d).1.acs = s.acs := by
  unfold acTimerStep; repeat' split
  all_goals rfl

theorem acTimerStep_get (s : State) (d : AcTimerStatusData) (r : Nat) (a : AcObj) (ha : s.aobjs[r]? = some a) :
    (acTimerStep s d).1.aobjs[r]? =
      some (if s.acRef d.ac_number = some r then acAfterTimer a d else a) := by
  unfold acTimerStep
  cases hr : s.acRef d.ac_number with
  | none => simp [ha]
  | some r' =>
    cases ha' : s.aobjs[r']? with
    | none =>
      have : r' ≠ r := by intro h; subst h; simp [ha] at ha'
      simp [ha', ha, this]
    | some a0 =>
      by_cases h : r' = r
      · subst h
        have : a0 = a := by simpa [ha] using ha'.symm
        subst this
        simp [ha', State.setAc, modifyAt_get_same]
      · simp [ha', State.setAc, modifyAt_get_other _ _ _ _ h, ha, h]

theorem runSteps_acTimer (l : List AcTimerStatusData) (s : State) (r : Nat) (a : AcObj) (ha : s.aobjs[r]? = some a) :
    (runSteps acTimerStep l s).1.acs = s.acs ∧
    ∃ a', (runSteps acTimerStep l s).1.aobjs[r]? = some a' ∧
      a'.timer = lastWriter (·.ac_number) s.acs r l a.timer ∧ fixedOf a' = fixedOf a ∧ a'.status = a.status ∧
      a'.errInfo = a.errInfo := by
  induction l generalizing s a with
  | nil => exact ⟨rfl, a, ha, rfl, rfl, rfl, rfl⟩
  | cons d l ih =>
    have hget := acTimerStep_get s d r a ha
    obtain ⟨h1, a', h2, h3, h4, h5, h6⟩ := ih (acTimerStep s d).1 _ hget
    rw [acTimerStep_acs] at h1 h3
    refine ⟨h1, a', h2, ?_, ?_, ?_, ?_⟩
    · rw [h3, lastWriter_cons]
      unfold State.acRef
      by_cases h : s.acs.lookup d.ac_number = some r <;> simp [h, acAfterTimer]
    · rw [h4]; split <;> rfl
    · rw [h5]; split <;> rfl
    · rw [h6]; split <;> rfl

theorem zoneStatusStep_zones (s : State) (d : C021.ZoneStatusData) : (zoneStatusStep s d).1.zones = s.zones := by
  unfold zoneStatusStep; repeat' split
  all_goals rfl

theorem zoneStatusStep_get (s : State) (d : C021.ZoneStatusData) (r : Nat) (z : ZoneObj) (hz : s.zobjs[r]? = some z) :
    (zoneStatusStep s d).1.zobjs[r]? =
      some (if s.zones.lookup d.zone_number = some r then zoneAfterStatus z d else z) := by
  unfold zoneStatusStep
  cases hr : s.zones.lookup d.zone_number with
  | none => simp [hz]
  | some r' =>
    cases hz' : s.zobjs[r']? with
    | none =>
      have : r' ≠ r := by intro h; subst h; simp [hz] at hz'
      simp [hz', hz, this]
    | some z0 =>
      by_cases h : r' = r
      · subst h
        have : z0 = z := by simpa [hz] using hz'.symm
        subst this
        simp [hz', State.setZone, modifyAt_get_same]
      · simp [hz', State.setZone, modifyAt_get_other _ _ _ _ h, hz, h]

theorem runSteps_zoneStatus (l : List C021.ZoneStatusData) (s : State) (r : Nat) (z : ZoneObj) (hz : s.zobjs[r]? = some z) :
    (runSteps zoneStatusStep l s).1.zones = s.zones ∧
    ∃ z', (runSteps zoneStatusStep l s).1.zobjs[r]? = some z' ∧
      z'.status = lastWriter (·.zone_number) s.zones r l z.status ∧ z'.name = z.name ∧ z'.subs = z.subs ∧ z'.fwd = z.fwd := by
  induction l generalizing s z with
  | nil => exact ⟨rfl, z, hz, rfl, rfl, rfl, rfl⟩
  | cons d l ih =>
    have hget := zoneStatusStep_get s d r z hz
    obtain ⟨h1, z', h2, h3, h4, h5, h6⟩ := ih (zoneStatusStep s d).1 _ hget
    rw [zoneStatusStep_zones] at h1 h3
    refine ⟨h1, z', h2, ?_, ?_, ?_, ?_⟩
    · rw [h3, lastWriter_cons]
      by_cases h : s.zones.lookup d.zone_number = some r <;> simp [h, zoneAfterStatus]
    · rw [h4]; split <;> rfl
    · rw [h5]; split <;> rfl
    · rw [h6]; split <;> rfl

/-! ### `apiStep` on status frames while CONNECTED -/

theorem apiStep_acStatus_connected (s : State) (toAddr : Nat) (l : List C023.AcStatusData)
    (hsub : s.sockSubscribed = true) (hst : s.st = .CONNECTED) (hopen : s.sockOpen = true) :
    apiStep s (.msg toAddr (.controlStatus (.acStatus (.status l)))) = runSteps acStatusStep l s := by
  simp [apiStep, doMsg, hsub, handleMessage, hst, isHeartbeatResponse, (processAcStatus_eq l s hopen).1, excOut]

theorem apiStep_acTimer_connected (s : State) (toAddr : Nat) (l : List AcTimerStatusData)
    (hsub : s.sockSubscribed = true) (hst : s.st = .CONNECTED) :
    apiStep s (.msg toAddr (.controlStatus (.acTimerStatus (.status l)))) = runSteps acTimerStep l s := by
  simp [apiStep, doMsg, hsub, handleMessage, hst, isHeartbeatResponse, processAcTimer_eq l s, excOut]

theorem apiStep_zoneStatus_connected (s : State) (toAddr : Nat) (l : List C021.ZoneStatusData)
    (hsub : s.sockSubscribed = true) (hst : s.st = .CONNECTED) :
    apiStep s (.msg toAddr (.controlStatus (.zoneStatus (.status l)))) = runSteps zoneStatusStep l s := by
  simp [apiStep, doMsg, hsub, handleMessage, hst, isHeartbeatResponse, processZoneStatus_eq l s, excOut]


/-! ### rounding and clipping of set-points -/

theorem roundTenthsNat_close (a : Nat) : 10 * roundTenthsNat a ≤ a + 5 ∧ a ≤ 10 * roundTenthsNat a + 5 := by
  unfold roundTenthsNat
  simp only
  split
  · omega
  · split
    · omega
    · split <;> omega

/-- `round(x, 1)` is within 0.05 of `x` (hundredths vs. tenths) -/
theorem roundTenths_close (h : Int) : 10 * roundTenths h - h ≤ 5 ∧ h - 10 * roundTenths h ≤ 5 := by
  unfold roundTenths
  have := roundTenthsNat_close h.natAbs
  split <;> omega

/-- a value with at most one decimal is not changed -/
theorem roundTenths_exact (t : Int) : roundTenths (10 * t) = t := by
  unfold roundTenths roundTenthsNat
  simp only
  split <;> split <;> omega

theorem clip_range (lo hi : Nat) (r : Int) (h : lo ≤ hi) :
    10 * (lo : Int) ≤ (clip lo hi r).1 ∧ (clip lo hi r).1 ≤ 10 * (hi : Int) := by
  unfold clip
  simp only
  split <;> split <;> simp_all <;> omega

theorem clip_id (lo hi : Nat) (r : Int) (h1 : 10 * (lo : Int) ≤ r) (h2 : r ≤ 10 * (hi : Int)) : (clip lo hi r).1 = r := by
  unfold clip
  simp only
  split <;> split <;> simp_all <;> omega

theorem clip_low (lo hi : Nat) (r : Int) (h : lo ≤ hi) (h1 : r ≤ 10 * (lo : Int)) : (clip lo hi r).1 = 10 * (lo : Int) := by
  unfold clip
  simp only
  split <;> split <;> simp_all <;> omega

theorem clip_high (lo hi : Nat) (r : Int) (h : lo ≤ hi) (h1 : 10 * (hi : Int) ≤ r) : (clip lo hi r).1 = 10 * (hi : Int) := by
  unfold clip
  simp only
  split <;> split <;> simp_all <;> omega


/-! ### shape of the public calls -/

theorem sendMsg_shape (s : State) (p : Policy) (m : Msg) (b : Bool) :
    (sendMsg s p m b).s = s ∧
    ((∃ p' m' b', (sendMsg s p m b).out = [.send p' m' b'] ∧ (sendMsg s p m b).exc = none) ∨
     (∃ e, (sendMsg s p m b).out = [] ∧ (sendMsg s p m b).exc = some e ∧ e ≠ "OK")) := by
  unfold sendMsg
  split
  · exact ⟨rfl, .inl ⟨_, _, _, rfl, rfl⟩⟩
  · exact ⟨rfl, .inr ⟨_, rfl, rfl, by decide⟩⟩

theorem raise_shape (s : State) (c : String) (hc : c ≠ "OK") :
    (raise s c).s = s ∧
    ((∃ p' m' b', (raise s c).out = [.send p' m' b'] ∧ (raise s c).exc = none) ∨
     (∃ e, (raise s c).out = [] ∧ (raise s c).exc = some e ∧ e ≠ "OK")) :=
  ⟨rfl, .inr ⟨c, rfl, rfl, hc⟩⟩

theorem acCall_shape (s : State) (a : AcObj) (c : AcCall) :
    (acCall s a c).s = s ∧
    ((∃ p m b, (acCall s a c).out = [.send p m b] ∧ (acCall s a c).exc = none) ∨
     (∃ e, (acCall s a c).out = [] ∧ (acCall s a c).exc = some e ∧ e ≠ "OK")) := by
  cases c <;> simp only [acCall, sendAcControl, sendTimerControl]
  all_goals (repeat' split)
  all_goals first
    | exact sendMsg_shape _ _ _ _
    | exact raise_shape _ _ (by decide)

theorem zoneCall_shape (s : State) (z : ZoneObj) (c : ZoneCall) :
    (zoneCall s z c).s = s ∧
    ((∃ p m b, (zoneCall s z c).out = [.send p m b] ∧ (zoneCall s z c).exc = none) ∨
     (∃ e, (zoneCall s z c).out = [] ∧ (zoneCall s z c).exc = some e ∧ e ≠ "OK")) := by
  cases c <;> simp only [zoneCall, sendZoneControl]
  all_goals (repeat' split)
  all_goals first
    | exact sendMsg_shape _ _ _ _
    | exact raise_shape _ _ (by decide)

end PyAirtouch.Lemmas.Api5
