import PyAirtouch.Model.Frame
import PyAirtouch.Model.At4.Hdr
import PyAirtouch.Model.At5.Hdr
import PyAirtouch.Props.C06
/-!
# Lemmas about the framing layer (`Model/Frame.lean`)
-/
namespace PyAirtouch.Lemmas.Frame
open PyAirtouch.Model PyAirtouch.Model.Frame

variable {H M : Type}

/-! ### A. prefix stability of `parseOne` -/

/-- what `parseOne` does once the whole header is buffered -/
def afterHdr (p : Proto H M) (hb r1 : Bytes) : Outcome H M :=
  match p.decodeHdr hb with
  | .error e => .reject (some e)
  | .ok (h, hrem, ck) =>
    if hrem ≠ [] then .reject (some .decodeError) else
    let n := p.msgLen h
    if r1.length < n + 2 then .needMore else
    let mb := r1.take n
    let crc := (r1.drop n).take 2
    let rest := r1.drop (n + 2)
    match crcValidate (ck ++ mb) crc with
    | .result true =>
      match p.decodeMsg h mb with
      | .error e => .reject (some e)
      | .ok (m, mrem) => if mrem ≠ [] then .reject (some .decodeError) else .deliver h m rest
    | .result false => .reject none
    | _ => .reject (some .valueError)

theorem parseOne_eq (p : Proto H M) (bs : Bytes) :
    parseOne p bs = if bs.length < p.headerLength then .needMore
      else afterHdr p (bs.take p.headerLength) (bs.drop p.headerLength) := rfl

/-- what happens to an outcome when more bytes arrive behind a decided one -/
def Outcome.extend (more : Bytes) : Outcome H M → Outcome H M
  | .deliver h m rest => .deliver h m (rest ++ more)
  | o => o

theorem afterHdr_append (p : Proto H M) (hb r1 more : Bytes) (h : afterHdr p hb r1 ≠ .needMore) :
    afterHdr p hb (r1 ++ more) = Outcome.extend more (afterHdr p hb r1) := by
  unfold afterHdr at h ⊢
  cases hdec : p.decodeHdr hb with
  | error e => rfl
  | ok v =>
    obtain ⟨hd, hrem, ck⟩ := v
    simp only [hdec] at h ⊢
    cases hrem with
    | cons x xs => rfl
    | nil =>
      simp only [ne_eq, not_true_eq_false, ↓reduceIte] at h ⊢
      by_cases hl : r1.length < p.msgLen hd + 2
      · simp [hl] at h
      · simp only [hl, ↓reduceIte] at h ⊢
        have hl' : ¬ (r1 ++ more).length < p.msgLen hd + 2 := by
          simp only [List.length_append]; omega
        simp only [hl', ↓reduceIte]
        have e1 : (r1 ++ more).take (p.msgLen hd) = r1.take (p.msgLen hd) :=
          List.take_append_of_le_length (by omega)
        have e2 : ((r1 ++ more).drop (p.msgLen hd)).take 2 = (r1.drop (p.msgLen hd)).take 2 := by
          rw [List.drop_append_of_le_length (by omega)]
          exact List.take_append_of_le_length (by simp only [List.length_drop]; omega)
        have e3 : (r1 ++ more).drop (p.msgLen hd + 2) = r1.drop (p.msgLen hd + 2) ++ more :=
          List.drop_append_of_le_length (by omega)
        rw [e1, e2, e3]
        cases crcValidate (ck ++ List.take (p.msgLen hd) r1) (List.take 2 (List.drop (p.msgLen hd) r1)) with
        | valueError => rfl
        | overflow => rfl
        | result b =>
          cases b with
          | false => rfl
          | true =>
            simp only
            cases p.decodeMsg hd (List.take (p.msgLen hd) r1) with
            | error e => rfl
            | ok w =>
              obtain ⟨m, mrem⟩ := w
              simp only
              cases mrem <;> rfl

/-- inversion: the only way `afterHdr` delivers -/
theorem afterHdr_deliver_inv (p : Proto H M) (hb r1 : Bytes) {h : H} {m : M} {rest : Bytes}
    (hd : afterHdr p hb r1 = .deliver h m rest) :
    ∃ ck, p.decodeHdr hb = .ok (h, [], ck) ∧ p.msgLen h + 2 ≤ r1.length ∧
      crcValidate (ck ++ r1.take (p.msgLen h)) ((r1.drop (p.msgLen h)).take 2) = .result true ∧
      p.decodeMsg h (r1.take (p.msgLen h)) = .ok (m, []) ∧ rest = r1.drop (p.msgLen h + 2) := by
  unfold afterHdr at hd
  cases hdec : p.decodeHdr hb with
  | error e => simp only [hdec] at hd; cases hd
  | ok v =>
    obtain ⟨h', hrem, ck⟩ := v
    simp only [hdec] at hd
    cases hrem with
    | cons x xs => simp at hd
    | nil =>
      simp only [ne_eq, not_true_eq_false, ↓reduceIte] at hd
      by_cases hl : r1.length < p.msgLen h' + 2
      · simp [hl] at hd
      · simp only [hl, ↓reduceIte] at hd
        cases hcrc : crcValidate (ck ++ List.take (p.msgLen h') r1) (List.take 2 (List.drop (p.msgLen h') r1)) with
        | valueError => simp only [hcrc] at hd; cases hd
        | overflow => simp only [hcrc] at hd; cases hd
        | result b =>
          cases b with
          | false => simp only [hcrc] at hd; cases hd
          | true =>
            simp only [hcrc] at hd
            cases hmsg : p.decodeMsg h' (List.take (p.msgLen h') r1) with
            | error e => simp only [hmsg] at hd; cases hd
            | ok w =>
              obtain ⟨m', mrem⟩ := w
              simp only [hmsg] at hd
              cases mrem with
              | cons x xs => simp at hd
              | nil =>
                simp only [not_true_eq_false, ↓reduceIte] at hd
                injection hd with e1 e2 e3
                subst e1 e2 e3
                exact ⟨ck, rfl, by omega, hcrc, hmsg, rfl⟩

/-- `afterHdr` on a buffer that is visibly message bytes, two check bytes and a tail -/
theorem afterHdr_parts (p : Proto H M) (hb mb crc rest ck : Bytes) (h : H)
    (hdec : p.decodeHdr hb = .ok (h, [], ck)) (hmb : mb.length = p.msgLen h) (hcrc : crc.length = 2) :
    afterHdr p hb (mb ++ crc ++ rest) =
      match crcValidate (ck ++ mb) crc with
      | .result true =>
        match p.decodeMsg h mb with
        | .error e => .reject (some e)
        | .ok (m, mrem) => if mrem ≠ [] then .reject (some .decodeError) else .deliver h m rest
      | .result false => .reject none
      | _ => .reject (some .valueError) := by
  unfold afterHdr
  simp only [hdec, ne_eq, not_true_eq_false, ↓reduceIte]
  have hl : ¬ (mb ++ crc ++ rest).length < p.msgLen h + 2 := by
    simp only [List.length_append]; omega
  simp only [hl, ↓reduceIte]
  have e1 : (mb ++ crc ++ rest).take (p.msgLen h) = mb := by
    rw [List.append_assoc]; exact List.take_left' hmb
  have e2 : ((mb ++ crc ++ rest).drop (p.msgLen h)).take 2 = crc := by
    rw [List.append_assoc, List.drop_left' hmb]; exact List.take_left' hcrc
  have e3 : (mb ++ crc ++ rest).drop (p.msgLen h + 2) = rest :=
    List.drop_left' (by simp only [List.length_append]; omega)
  rw [e1, e2, e3]

theorem parseOne_parts (p : Proto H M) (hb tail : Bytes) (hlen : hb.length = p.headerLength) :
    parseOne p (hb ++ tail) = afterHdr p hb tail := by
  rw [parseOne_eq]
  have hl : ¬ (hb ++ tail).length < p.headerLength := by simp only [List.length_append]; omega
  simp only [hl, ↓reduceIte]
  rw [List.take_left' hlen, List.drop_left' hlen]

theorem parseOne_append_of_ne_needMore (p : Proto H M) (bs more : Bytes)
    (h : parseOne p bs ≠ .needMore) :
    parseOne p (bs ++ more) = Outcome.extend more (parseOne p bs) := by
  rw [parseOne_eq] at h ⊢
  by_cases hl : bs.length < p.headerLength
  · simp [hl] at h
  · simp only [hl, ↓reduceIte] at h
    have hl' : ¬ (bs ++ more).length < p.headerLength := by simp only [List.length_append]; omega
    rw [parseOne_eq]
    simp only [hl, hl', ↓reduceIte]
    rw [List.take_append_of_le_length (by omega), List.drop_append_of_le_length (by omega)]
    exact afterHdr_append p _ _ more h

/-- a delivered frame stays delivered, with the same header and message, whatever arrives behind it -/
theorem parseOne_deliver_append (p : Proto H M) {bs : Bytes} {h : H} {m : M} {rest : Bytes}
    (hd : parseOne p bs = .deliver h m rest) (more : Bytes) :
    parseOne p (bs ++ more) = .deliver h m (rest ++ more) := by
  rw [parseOne_append_of_ne_needMore p bs more (by rw [hd]; intro c; cases c), hd]; rfl

/-- a rejected stream stays rejected, for the same reason, whatever arrives behind it -/
theorem parseOne_reject_append (p : Proto H M) {bs : Bytes} {e : Option DecErr}
    (hd : parseOne p bs = .reject e) (more : Bytes) :
    parseOne p (bs ++ more) = .reject e := by
  rw [parseOne_append_of_ne_needMore p bs more (by rw [hd]; intro c; cases c), hd]; rfl

/-! ### F. only frames whose check value validated are delivered -/

theorem parseOne_deliver_valid (p : Proto H M) {bs : Bytes} {h : H} {m : M} {rest : Bytes}
    (hd : parseOne p bs = .deliver h m rest) :
    ∃ hb mb crc ck, bs = hb ++ mb ++ crc ++ rest ∧ hb.length = p.headerLength ∧
      mb.length = p.msgLen h ∧ crc.length = 2 ∧ p.decodeHdr hb = .ok (h, [], ck) ∧
      crcValidate (ck ++ mb) crc = .result true ∧ p.decodeMsg h mb = .ok (m, []) := by
  rw [parseOne_eq] at hd
  by_cases hl : bs.length < p.headerLength
  · simp [hl] at hd
  · simp only [hl, ↓reduceIte] at hd
    obtain ⟨ck, hdec, hlen, hcrc, hmsg, hrest⟩ := afterHdr_deliver_inv p _ _ hd
    have hr1 : (bs.drop p.headerLength).length = bs.length - p.headerLength := List.length_drop
    refine ⟨bs.take p.headerLength, (bs.drop p.headerLength).take (p.msgLen h),
      ((bs.drop p.headerLength).drop (p.msgLen h)).take 2, ck, ?_, ?_, ?_, ?_, hdec, hcrc, hmsg⟩
    · subst hrest
      rw [List.append_assoc, List.append_assoc]
      conv => lhs; rw [← List.take_append_drop p.headerLength bs]
      congr 1
      conv => lhs; rw [← List.take_append_drop (p.msgLen h) (bs.drop p.headerLength)]
      congr 1
      conv => lhs; rw [← List.take_append_drop 2 ((bs.drop p.headerLength).drop (p.msgLen h))]
      congr 1
      rw [List.drop_drop]
    · rw [List.length_take]; omega
    · rw [List.length_take]; omega
    · rw [List.length_take, List.length_drop]; omega

/-- a delivery consumes a whole frame from the front of the buffer: at least a header and two check bytes -/
theorem parseOne_deliver_consumes (p : Proto H M) {bs : Bytes} {h : H} {m : M} {rest : Bytes}
    (hd : parseOne p bs = .deliver h m rest) :
    rest.length + p.headerLength + 2 ≤ bs.length ∧ ∃ consumed, bs = consumed ++ rest := by
  obtain ⟨hb, mb, crc, ck, rfl, hhb, hmb, hcrc, -⟩ := parseOne_deliver_valid p hd
  refine ⟨?_, hb ++ mb ++ crc, rfl⟩
  simp only [List.length_append]; omega

/-- a frame whose header decodes but whose check value does not validate is rejected as a CRC failure
    (and its message bytes never reach a decoder: the result does not depend on `decodeMsg`) -/
theorem parseOne_bad_crc (p : Proto H M) (hb mb crc rest ck : Bytes) (h : H)
    (hhb : hb.length = p.headerLength) (hdec : p.decodeHdr hb = .ok (h, [], ck))
    (hmb : mb.length = p.msgLen h) (hcrc : crc.length = 2)
    (hbad : crcValidate (ck ++ mb) crc = .result false) :
    parseOne p (hb ++ mb ++ crc ++ rest) = .reject none := by
  rw [List.append_assoc, List.append_assoc, parseOne_parts p hb _ hhb, ← List.append_assoc,
    afterHdr_parts p hb mb crc rest ck h hdec hmb hcrc, hbad]

/-! ### B. fuel independence -/

theorem parseAll_succ (p : Proto H M) (f : Nat) (bs : Bytes) :
    parseAll p (f + 1) bs =
      match parseOne p bs with
      | .needMore => ([], ⟨bs, false⟩)
      | .reject _ => ([], ⟨[], true⟩)
      | .deliver h m rest => ((h, m) :: (parseAll p f rest).1, (parseAll p f rest).2) := by
  rw [parseAll]
  cases parseOne p bs <;> rfl

theorem parseAll_fuel (p : Proto H M) : ∀ (f1 f2 : Nat) (bs : Bytes),
    bs.length < f1 → bs.length < f2 → parseAll p f1 bs = parseAll p f2 bs := by
  intro f1
  induction f1 with
  | zero => intro f2 bs h; omega
  | succ f1 ih =>
    intro f2 bs h1 h2
    cases f2 with
    | zero => omega
    | succ f2 =>
      rw [parseAll_succ, parseAll_succ]
      cases hpo : parseOne p bs with
      | needMore => rfl
      | reject e => rfl
      | deliver h m rest =>
        have := (parseOne_deliver_consumes p hpo).1
        simp only
        rw [ih f2 rest (by omega) (by omega)]

/-! ### settled states -/

/-- nothing more can be done with the buffered bytes alone -/
def Settled (p : Proto H M) (s : RState) : Prop := s.dead = true ∨ parseOne p s.buf = .needMore

theorem parseAll_settled (p : Proto H M) : ∀ (f : Nat) (bs : Bytes),
    bs.length < f → Settled p (parseAll p f bs).2 := by
  intro f
  induction f with
  | zero => intro bs h; omega
  | succ f ih =>
    intro bs h
    rw [parseAll_succ]
    cases hpo : parseOne p bs with
    | needMore => exact Or.inr hpo
    | reject e => exact Or.inl rfl
    | deliver h' m rest =>
      have := (parseOne_deliver_consumes p hpo).1
      exact ih rest (by omega)

/-- the buffer kept by `parseAll` is a suffix of its input, so it is never longer -/
theorem parseAll_buf_length (p : Proto H M) : ∀ (f : Nat) (bs : Bytes),
    (parseAll p f bs).2.buf.length ≤ bs.length := by
  intro f
  induction f with
  | zero => intro bs; exact Nat.le_refl _
  | succ f ih =>
    intro bs
    rw [parseAll_succ]
    cases hpo : parseOne p bs with
    | needMore => exact Nat.le_refl _
    | reject e => exact Nat.zero_le _
    | deliver h' m rest =>
      have := (parseOne_deliver_consumes p hpo).1
      have := ih rest
      simp only
      omega

/-- a dead state holds no bytes -/
theorem parseAll_dead_buf (p : Proto H M) : ∀ (f : Nat) (bs : Bytes),
    (parseAll p f bs).2.dead = true → (parseAll p f bs).2.buf = [] := by
  intro f
  induction f with
  | zero => intro bs h; cases h
  | succ f ih =>
    intro bs
    rw [parseAll_succ]
    cases hpo : parseOne p bs with
    | needMore => intro h; cases h
    | reject e => intro _; rfl
    | deliver h' m rest => exact ih rest

/-! ### C. parsing a concatenation -/

theorem parseAll_append (p : Proto H M) : ∀ (f1 f f2 : Nat) (a b : Bytes),
    a.length < f1 → (a ++ b).length < f →
    ((parseAll p f1 a).2.buf ++ b).length < f2 →
    parseAll p f (a ++ b) =
      if (parseAll p f1 a).2.dead then parseAll p f1 a
      else ((parseAll p f1 a).1 ++ (parseAll p f2 ((parseAll p f1 a).2.buf ++ b)).1,
            (parseAll p f2 ((parseAll p f1 a).2.buf ++ b)).2) := by
  intro f1
  induction f1 with
  | zero => intro f f2 a b h; omega
  | succ f1 ih =>
    intro f f2 a b h1 h h2
    cases f with
    | zero => omega
    | succ f =>
      rw [parseAll_succ p f1 a] at h2 ⊢
      rw [parseAll_succ p f (a ++ b)]
      cases hpo : parseOne p a with
      | needMore =>
        simp only [hpo] at h2
        simp only [Bool.false_eq_true, ↓reduceIte, List.nil_append]
        rw [← parseAll_succ p f (a ++ b)]
        exact parseAll_fuel p _ _ _ h h2
      | reject e =>
        rw [parseOne_reject_append p hpo b]
        rfl
      | deliver h' m rest =>
        have hc := (parseOne_deliver_consumes p hpo).1
        simp only [hpo] at h2
        rw [parseOne_deliver_append p hpo b]
        simp only
        have hlen : (rest ++ b).length < f := by
          simp only [List.length_append] at h ⊢; omega
        rw [ih f f2 rest b (by omega) hlen h2]
        by_cases hdead : (parseAll p f1 rest).2.dead = true
        · simp only [hdead, ↓reduceIte]
        · simp only [hdead, Bool.false_eq_true, ↓reduceIte, List.cons_append]

/-! ### D. one segment or two -/

theorem feed_settled (p : Proto H M) (s : RState) (seg : Bytes) : Settled p (feed p s seg).2 := by
  unfold feed
  by_cases hd : s.dead = true
  · simp only [hd, ↓reduceIte]; exact Or.inl hd
  · simp only [hd, Bool.false_eq_true, ↓reduceIte]
    exact parseAll_settled p _ _ (Nat.lt_succ_self _)

/-- no side condition is needed: `feed` parses everything it can each time -/
theorem feed_append (p : Proto H M) (s : RState) (a b : Bytes) :
    feed p s (a ++ b) =
      (let r1 := feed p s a; let r2 := feed p r1.2 b; (r1.1 ++ r2.1, r2.2)) := by
  unfold feed
  by_cases hd : s.dead = true
  · simp only [hd, ↓reduceIte, List.append_nil]
  · simp only [hd, Bool.false_eq_true, ↓reduceIte]
    rw [← List.append_assoc]
    rw [parseAll_append p ((s.buf ++ a).length + 1) _
      (((parseAll p ((s.buf ++ a).length + 1) (s.buf ++ a)).2.buf ++ b).length + 1) (s.buf ++ a) b
      (Nat.lt_succ_self _) (Nat.lt_succ_self _) (Nat.lt_succ_self _)]
    by_cases hdead : (parseAll p ((s.buf ++ a).length + 1) (s.buf ++ a)).2.dead = true
    · simp only [hdead, ↓reduceIte, List.append_nil]
    · simp only [hdead, Bool.false_eq_true, ↓reduceIte]

/-- feeding nothing to a settled state changes nothing and delivers nothing -/
theorem feed_nil (p : Proto H M) (s : RState) (hs : Settled p s) : feed p s [] = ([], s) := by
  unfold feed
  by_cases hd : s.dead = true
  · simp only [hd, ↓reduceIte]
  · simp only [hd, Bool.false_eq_true, ↓reduceIte, List.append_nil]
    rcases hs with h | h
    · exact absurd h hd
    · rw [parseAll_succ, h]
      cases s with
      | mk buf dead =>
        simp only [Bool.not_eq_true] at hd
        simp only at hd ⊢
        rw [hd]

/-! ### E. segmentation -/

theorem settled_init (p : Proto H M) (hpos : 0 < p.headerLength) : Settled p ⟨[], false⟩ := by
  refine Or.inr ?_
  rw [parseOne_eq]
  simp only [List.length_nil, hpos, ↓reduceIte]

theorem feedAll_eq_feed_flatten_of_settled (p : Proto H M) (segs : List Bytes) :
    ∀ s, Settled p s → feedAll p s segs = feed p s segs.flatten := by
  induction segs with
  | nil => intro s hs; rw [List.flatten_nil, feed_nil p s hs]; rfl
  | cons seg segs ih =>
    intro s hs
    rw [List.flatten_cons, feed_append, feedAll]
    simp only
    rw [ih _ (feed_settled p s seg)]

/-- however TCP cuts the byte stream into segments (empty ones included), the frames delivered, their
    order and the final receiver state are those of the whole stream arriving at once -/
theorem feedAll_eq_feed_flatten (p : Proto H M) (hpos : 0 < p.headerLength) (segs : List Bytes) :
    feedAll p ⟨[], false⟩ segs = feed p ⟨[], false⟩ segs.flatten :=
  feedAll_eq_feed_flatten_of_settled p segs _ (settled_init p hpos)

theorem any_two_segmentations (p : Proto H M) (hpos : 0 < p.headerLength) (segs1 segs2 : List Bytes)
    (h : segs1.flatten = segs2.flatten) :
    feedAll p ⟨[], false⟩ segs1 = feedAll p ⟨[], false⟩ segs2 := by
  rw [feedAll_eq_feed_flatten p hpos, feedAll_eq_feed_flatten p hpos, h]

/-! ### G. frame round trip -/

theorem frame_eq (hb ck payload fr : Bytes) (hck : ∀ b ∈ ck, b < 256) (hpl : ∀ b ∈ payload, b < 256)
    (hfr : frame hb ck payload = some fr) :
    fr = hb ++ payload ++ PyAirtouch.Spec.checkBytes (ck ++ payload) := by
  unfold frame at hfr
  have hb' : PyAirtouch.Lemmas.CrcDetect.Bytes (ck ++ payload) := by
    intro x hx
    rcases List.mem_append.mp hx with h | h
    · exact hck x h
    · exact hpl x h
  rw [PyAirtouch.Props.C06.C06_calculate_eq_modbus _ hb'] at hfr
  simp only [Option.map_some, Option.some.injEq] at hfr
  exact hfr.symm

/-- the send path never fails on bytes -/
theorem frame_isSome (hb ck payload : Bytes) (hck : ∀ b ∈ ck, b < 256) (hpl : ∀ b ∈ payload, b < 256) :
    frame hb ck payload = some (hb ++ payload ++ PyAirtouch.Spec.checkBytes (ck ++ payload)) := by
  unfold frame
  have hb' : PyAirtouch.Lemmas.CrcDetect.Bytes (ck ++ payload) := by
    intro x hx
    rcases List.mem_append.mp hx with h | h
    · exact hck x h
    · exact hpl x h
  rw [PyAirtouch.Props.C06.C06_calculate_eq_modbus _ hb']
  rfl

/-- what the send path emits, the receive path delivers (and leaves the bytes behind it untouched) -/
theorem frame_roundtrip (p : Proto H M) (hb ck payload fr rest : Bytes) (h : H) (m : M)
    (hhb : hb.length = p.headerLength) (hdec : p.decodeHdr hb = .ok (h, [], ck))
    (hlen : p.msgLen h = payload.length) (hmsg : p.decodeMsg h payload = .ok (m, []))
    (hck : ∀ b ∈ ck, b < 256) (hpl : ∀ b ∈ payload, b < 256)
    (hfr : frame hb ck payload = some fr) :
    parseOne p (fr ++ rest) = .deliver h m rest := by
  have hb' : PyAirtouch.Lemmas.CrcDetect.Bytes (ck ++ payload) := by
    intro x hx
    rcases List.mem_append.mp hx with h | h
    · exact hck x h
    · exact hpl x h
  rw [frame_eq hb ck payload fr hck hpl hfr]
  have hcl : (PyAirtouch.Spec.checkBytes (ck ++ payload)).length = 2 := rfl
  rw [List.append_assoc, List.append_assoc, parseOne_parts p hb _ hhb, ← List.append_assoc,
    afterHdr_parts p hb payload _ rest ck h hdec hlen.symm hcl,
    PyAirtouch.Props.C06.C06_validate_iff _ _ hb' hcl]
  simp only [decide_true, hmsg, ne_eq, not_true_eq_false, ↓reduceIte]

/-! ### H. header round trips -/

theorem be16_roundtrip (v : Nat) (h : v < 65536) : be16 (v / 256 % 256) (v % 256) = v := by
  unfold be16; omega

section At4
open PyAirtouch.Model.At4.Hdr PyAirtouch.Gen.At4.Hdr

/-- `encode` succeeds exactly on well-formed headers -/
theorem at4_encode_ok_iff (h : At4Header) : (∃ r, encode h = .ok r) ↔ WF h := by
  unfold encode
  by_cases hwf : WF h <;> simp [hwf]

theorem at4_encode_eq (h : At4Header) (hb ck : Bytes) (henc : encode h = .ok (hb, ck)) :
    WF h ∧
    ck = [h.to_address, h.from_address, h.packet_id, h.message_id,
          h.message_length / 256 % 256, h.message_length % 256] ∧
    hb = [85, 85] ++ ck := by
  unfold encode at henc
  by_cases hwf : WF h
  · simp only [hwf, ↓reduceIte, Except.ok.injEq, Prod.mk.injEq] at henc
    obtain ⟨rfl, rfl⟩ := henc
    exact ⟨hwf, rfl, rfl⟩
  · simp [hwf] at henc

/-- the 8 header bytes decode back to the header that was encoded, leave what follows untouched, and
    hand the same checksum data to the receiver as the sender used -/
theorem at4_hdr_roundtrip (h : At4Header) (hb ck rest : Bytes) (hwf : WF h)
    (henc : encode h = .ok (hb, ck)) :
    hb.length = headerLength ∧ decode (hb ++ rest) = .ok (h, rest, ck) ∧ (∀ b ∈ hb, b < 256) := by
  obtain ⟨-, rfl, rfl⟩ := at4_encode_eq h hb ck henc
  obtain ⟨h1, h2, h3, h4, h5⟩ := hwf
  refine ⟨rfl, ?_, ?_⟩
  · cases h with
    | mk t f pid mid len =>
      simp only at h1 h2 h3 h4 h5
      simp only [decode, List.cons_append, List.nil_append, PREFIX, ne_eq, not_true_eq_false,
        ↓reduceIte, be16]
      have : len / 256 % 256 * 256 + len % 256 = len := by omega
      rw [this]
  · intro b hb
    simp only [List.cons_append, List.nil_append, List.mem_cons, List.not_mem_nil, or_false] at hb
    omega

/-- the checksum covers `to, from, packet id, message id, length hi, length lo`: everything after the
    2-byte prefix -/
theorem at4_hdr_checksum_span (h : At4Header) (hb ck : Bytes) (hwf : WF h)
    (henc : encode h = .ok (hb, ck)) :
    ck = hb.drop CHECKSUM_DATA_START ∧ ck = hb.drop 2 ∧
    ck = [h.to_address, h.from_address, h.packet_id, h.message_id,
          h.message_length / 256 % 256, h.message_length % 256] ∧
    (∀ b ∈ ck, b < 256) := by
  obtain ⟨-, rfl, rfl⟩ := at4_encode_eq h hb ck henc
  obtain ⟨h1, h2, h3, h4, h5⟩ := hwf
  refine ⟨rfl, rfl, rfl, ?_⟩
  intro b hb
  simp only [List.mem_cons, List.not_mem_nil, or_false] at hb
  omega

end At4

section At5
open PyAirtouch.Model.At5.Hdr PyAirtouch.Gen.At5.Hdr

theorem at5_encode_ok_iff (h : At5Header) : (∃ r, encode h = .ok r) ↔ WF h := by
  unfold encode
  by_cases hwf : WF h <;> simp [hwf]

theorem at5_encode_eq (h : At5Header) (hb ck : Bytes) (henc : encode h = .ok (hb, ck)) :
    WF h ∧
    ck = [h.to_address, h.from_address, h.packet_id, h.message_id,
          h.message_length / 256 % 256, h.message_length % 256] ∧
    hb = [85, 85, 85, 171, 0, 0] ++
          be16Bytes (10 + h.message_length + 2) ++ be16Bytes (10 + h.message_length + 2) ++
          [85, 85, 85, 170] ++ ck := by
  unfold encode at henc
  by_cases hwf : WF h
  · simp only [hwf, ↓reduceIte, Except.ok.injEq, Prod.mk.injEq] at henc
    obtain ⟨rfl, rfl⟩ := henc
    exact ⟨hwf, rfl, rfl⟩
  · simp [hwf] at henc

theorem at5_hdr_roundtrip (h : At5Header) (hb ck rest : Bytes) (hwf : WF h)
    (henc : encode h = .ok (hb, ck)) :
    hb.length = headerLength ∧ decode (hb ++ rest) = .ok (h, rest, ck) ∧ (∀ b ∈ hb, b < 256) := by
  obtain ⟨-, rfl, rfl⟩ := at5_encode_eq h hb ck henc
  obtain ⟨h1, h2, h3, h4, h5, h6⟩ := hwf
  have h6' : 10 + h.message_length + 2 < 65536 := h6
  refine ⟨rfl, ?_, ?_⟩
  · clear henc h6
    cases h with
    | mk t f pid mid len =>
      simp only at h1 h2 h3 h4 h5 h6'
      simp only [decode, be16Bytes, List.cons_append, List.nil_append, OUTER_HEADER_PREFIX,
        INNER_HEADER_PREFIX, ne_eq, not_true_eq_false, ↓reduceIte, dataLength,
        INTERNAL_HEADER_LENGTH, CRC_LENGTH, be16_roundtrip _ h5, be16_roundtrip _ h6']
  · intro b hb
    simp only [be16Bytes, List.cons_append, List.nil_append, List.mem_cons, List.not_mem_nil,
      or_false] at hb
    omega

/-- the checksum covers the last 6 header bytes (`to, from, packet id, message id, length hi, length lo`):
    neither prefix and neither outer length field is covered -/
theorem at5_hdr_checksum_span (h : At5Header) (hb ck : Bytes) (hwf : WF h)
    (henc : encode h = .ok (hb, ck)) :
    ck = hb.drop CHECKSUM_DATA_START ∧ ck = hb.drop 14 ∧
    ck = [h.to_address, h.from_address, h.packet_id, h.message_id,
          h.message_length / 256 % 256, h.message_length % 256] ∧
    (∀ b ∈ ck, b < 256) := by
  obtain ⟨-, rfl, rfl⟩ := at5_encode_eq h hb ck henc
  obtain ⟨h1, h2, h3, h4, h5, h6⟩ := hwf
  refine ⟨rfl, rfl, rfl, ?_⟩
  intro b hb
  simp only [List.mem_cons, List.not_mem_nil, or_false] at hb
  omega

/-- both outer length fields (bytes 6-7 and 8-9, big-endian) carry `10 + message_length + 2` -/
theorem at5_hdr_outer_lengths (h : At5Header) (hb ck : Bytes) (hwf : WF h)
    (henc : encode h = .ok (hb, ck)) :
    (hb.drop 6).take 2 = be16Bytes (10 + h.message_length + 2) ∧
    (hb.drop 8).take 2 = be16Bytes (10 + h.message_length + 2) ∧
    be16 (hb.getD 6 0) (hb.getD 7 0) = 10 + h.message_length + 2 ∧
    be16 (hb.getD 8 0) (hb.getD 9 0) = 10 + h.message_length + 2 := by
  obtain ⟨-, rfl, rfl⟩ := at5_encode_eq h hb ck henc
  obtain ⟨h1, h2, h3, h4, h5, h6⟩ := hwf
  have h6' : 10 + h.message_length + 2 < 65536 := h6
  refine ⟨rfl, rfl, ?_, ?_⟩ <;>
  · simp only [be16Bytes, List.cons_append, List.nil_append, List.getD_cons_succ,
      List.getD_cons_zero, be16]
    omega

end At5

/-! ### G + H. whole-frame round trips for the two header formats

For any receive-path protocol bundle whose header side is the AT4 (resp. AT5) header codec: a frame
built by the send path from a well-formed header and a payload of the declared length is delivered
intact, and the bytes behind it are left for the next frame. -/

section At4Frame
open PyAirtouch.Model.At4.Hdr

theorem at4_frame_roundtrip (p : Proto At4Header M) (hpl : p.headerLength = headerLength)
    (hpd : p.decodeHdr = decode) (hpm : p.msgLen = fun h => h.message_length)
    (h : At4Header) (m : M) (hb ck payload fr rest : Bytes) (hwf : WF h)
    (henc : encode h = .ok (hb, ck)) (hlen : h.message_length = payload.length)
    (hmsg : p.decodeMsg h payload = .ok (m, [])) (hpay : ∀ b ∈ payload, b < 256)
    (hfr : frame hb ck payload = some fr) :
    parseOne p (fr ++ rest) = .deliver h m rest := by
  obtain ⟨h1, h2, -⟩ := at4_hdr_roundtrip h hb ck [] hwf henc
  rw [List.append_nil] at h2
  obtain ⟨-, -, -, h3⟩ := at4_hdr_checksum_span h hb ck hwf henc
  exact frame_roundtrip p hb ck payload fr rest h m (by rw [h1, hpl]) (by rw [hpd]; exact h2)
    (by rw [hpm]; exact hlen) hmsg h3 hpay hfr

end At4Frame

section At5Frame
open PyAirtouch.Model.At5.Hdr

theorem at5_frame_roundtrip (p : Proto At5Header M) (hpl : p.headerLength = headerLength)
    (hpd : p.decodeHdr = decode) (hpm : p.msgLen = fun h => h.message_length)
    (h : At5Header) (m : M) (hb ck payload fr rest : Bytes) (hwf : WF h)
    (henc : encode h = .ok (hb, ck)) (hlen : h.message_length = payload.length)
    (hmsg : p.decodeMsg h payload = .ok (m, [])) (hpay : ∀ b ∈ payload, b < 256)
    (hfr : frame hb ck payload = some fr) :
    parseOne p (fr ++ rest) = .deliver h m rest := by
  obtain ⟨h1, h2, -⟩ := at5_hdr_roundtrip h hb ck [] hwf henc
  rw [List.append_nil] at h2
  obtain ⟨-, -, -, h3⟩ := at5_hdr_checksum_span h hb ck hwf henc
  exact frame_roundtrip p hb ck payload fr rest h m (by rw [h1, hpl]) (by rw [hpd]; exact h2)
    (by rw [hpm]; exact hlen) hmsg h3 hpay hfr

end At5Frame

/-! ### non-vacuity: the vendor's AT4 group-status request `55 55 80 b0 01 2b 00 00 f5 2f` -/

section Examples
open PyAirtouch.Model.At4.Hdr

/-- AT4 headers with a message decoder that returns the raw message bytes -/
def at4Raw : Proto At4Header Bytes :=
  { headerLength := headerLength, decodeHdr := decode, msgLen := fun h => h.message_length,
    decodeMsg := fun _ bs => .ok (bs, []) }

def exFrame : Bytes := [0x55, 0x55, 0x80, 0xb0, 0x01, 0x2b, 0x00, 0x00, 0xf5, 0x2f]
def exHdr : At4Header :=
  { to_address := 0x80, from_address := 0xb0, packet_id := 1, message_id := 0x2b, message_length := 0 }

-- the send path produces exactly the vendor's bytes
example : (encode exHdr).toOption.bind (fun r => frame r.1 r.2 []) = some exFrame := by decide +kernel
-- two frames cut at awkward places (and an empty segment): both delivered, in order, nothing left over
example : feedAll at4Raw ⟨[], false⟩ [exFrame.take 3, [], exFrame.drop 3 ++ exFrame.take 9, exFrame.drop 9] =
    ([(exHdr, []), (exHdr, [])], ⟨[], false⟩) := by decide +kernel
-- one damaged bit in the second frame: the first is delivered, then the stream is dead
example : feedAll at4Raw ⟨[], false⟩ [exFrame ++ [0x55, 0x55, 0x80, 0xb0, 0x01, 0x2f, 0x00, 0x00, 0xf5], [0x2f], exFrame] =
    ([(exHdr, [])], ⟨[], true⟩) := by decide +kernel

end Examples

end PyAirtouch.Lemmas.Frame
