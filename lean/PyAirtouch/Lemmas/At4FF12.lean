import PyAirtouch.Model.At4.FF12
import PyAirtouch.Lemmas.Part3Text
/-! Round trip and length lemmas for the AirTouch 4 group names codec. -/
namespace PyAirtouch.Lemmas.At4FF12
open PyAirtouch.Model PyAirtouch.Model.At4.FF12 PyAirtouch.Gen.At4.X1FFF12GroupNames
open PyAirtouch.Lemmas.Part3Text

theorem encEntry_length (p : Nat × Bytes) : (encEntry p).length = PER_GROUP_SIZE := by
  simp [encEntry, encodeCString_length, PER_GROUP_SIZE, GROUP_NAME_LENGTH]

theorem flatMap_length (ns : List (Nat × Bytes)) :
    (ns.flatMap encEntry).length = PER_GROUP_SIZE * ns.length := by
  induction ns with
  | nil => simp
  | cons p ps ih => simp [List.flatMap_cons, encEntry_length, ih, Nat.mul_add, Nat.add_comm]

theorem encode_length (m : Msg) : (encode m).length = size m := by
  cases m with
  | request r => rcases r with ⟨_ | n⟩ <;> rfl
  | message m => simp only [encode, size, flatMap_length]

/-- on well-formed messages the real encoder raises nothing and produces `encode m` -/
theorem encodeE_ok (m : Msg) (h : WF m) : encodeE m = .ok (encode m) := by
  cases m with
  | request r =>
    rcases r with ⟨_ | n⟩
    · rfl
    · have : n < 256 := h n rfl
      simp [encodeE, encode, this]
  | message m =>
    have : m.group_names.all (fun p => decide (p.1 < 256)) = true := by
      rw [List.all_eq_true]
      intro p hp
      simpa using (h.2.2 p hp).1
    simp [encodeE, this]

theorem decGroups_encode (ns : List (Nat × Bytes)) :
    ∀ (acc : List (Nat × Bytes)) (rest : Bytes), (dictKeys (acc ++ ns)).Nodup →
      (∀ p ∈ ns, WFName p.2) →
      decGroups ns.length (ns.flatMap encEntry ++ rest) acc = .ok (acc ++ ns, rest) := by
  induction ns with
  | nil => intro acc rest _ _; simp [decGroups]
  | cons p ps ih =>
    intro acc rest hnd hwf
    rcases p with ⟨g, name⟩
    obtain ⟨hlen, h0, hv⟩ := hwf (g, name) (by simp)
    have htake : (encodeCString name GROUP_NAME_LENGTH ++ (ps.flatMap encEntry ++ rest)).take GROUP_NAME_LENGTH
        = encodeCString name GROUP_NAME_LENGTH := by
      apply List.take_left'
      exact encodeCString_length _ _
    have hdrop : (encodeCString name GROUP_NAME_LENGTH ++ (ps.flatMap encEntry ++ rest)).drop GROUP_NAME_LENGTH
        = ps.flatMap encEntry ++ rest := by
      apply List.drop_left'
      exact encodeCString_length _ _
    have hfresh : g ∉ dictKeys acc := by
      intro hg
      simp only [dictKeys, List.map_append, List.map_cons] at hnd hg
      rw [List.nodup_append] at hnd
      exact hnd.2.2 g hg g (by simp) rfl
    simp only [List.length_cons, List.flatMap_cons, List.append_assoc, encEntry, List.cons_append,
      decGroups, htake, hdrop, decodeCString_encodeCString name _ hlen h0 hv,
      dictInsert_fresh acc g name hfresh]
    have := ih (acc ++ [(g, name)]) rest (by simpa using hnd) (fun q hq => hwf q (by simp [hq]))
    simpa using this

/-- `decode(encode(m), header with message_length = size(m))` gives `m` back, nothing left over -/
theorem decode_encode (m : Msg) (h : WF m) (rest : Bytes) :
    decode (encode m ++ rest) (size m) = .ok (m, rest) := by
  cases m with
  | request r =>
    rcases r with ⟨_ | n⟩
    · simp [decode, encode, size]
    · simp [decode, encode, size]
  | message m =>
    rcases m with ⟨ns⟩
    obtain ⟨hne, hnd, hwf⟩ := h
    have hlen : ns.length ≠ 0 := by simpa using hne
    have h0 : PER_GROUP_SIZE * ns.length ≠ 0 := by simp only [PER_GROUP_SIZE]; omega
    have h1 : PER_GROUP_SIZE * ns.length ≠ 1 := by simp only [PER_GROUP_SIZE]; omega
    have hmod : PER_GROUP_SIZE * ns.length % (1 + GROUP_NAME_LENGTH) = 0 := by
      simp only [PER_GROUP_SIZE, GROUP_NAME_LENGTH]; omega
    have hdiv : PER_GROUP_SIZE * ns.length / PER_GROUP_SIZE = ns.length := by simp [PER_GROUP_SIZE]
    simp only [decode, encode, size, h0, h1, ↓reduceIte, hmod, ne_eq, not_true_eq_false, hdiv]
    rw [decGroups_encode ns [] rest (by simpa using hnd) (fun p hp => (hwf p hp).2)]
    simp

theorem wfNameBool_iff (s : Bytes) : wfNameBool s = true ↔ WFName s := by
  simp [wfNameBool, WFName, and_assoc]

theorem wfBool_iff (m : Msg) : wfBool m = true ↔ WF m := by
  cases m with
  | request r => rcases r with ⟨_ | n⟩ <;> simp [wfBool, WF]
  | message m =>
    simp only [wfBool, WF, Bool.and_eq_true, nodupBool_iff, List.all_eq_true, decide_eq_true_eq,
      wfNameBool_iff, Bool.not_eq_true', List.isEmpty_eq_false_iff, ne_eq, and_assoc]

/-- the case excluded by `WF`: an empty mapping is sent with no content, which is the "ALL" request -/
theorem empty_mapping_not_preserved (rest : Bytes) :
    decode (encode (.message ⟨[]⟩) ++ rest) (size (.message ⟨[]⟩)) = .ok (.request ⟨none⟩, rest) := by
  simp [decode, encode, size]

end PyAirtouch.Lemmas.At4FF12
