import PyAirtouch.Model.At4.Registry
import PyAirtouch.Spec.At4Read
/-!
# C05, AirTouch 4: the decoders' reading equals the vendor document's reading

For each kind: `Agree<Kind>` (field by field, the correspondence of `harness/specmap.py` with its named
relaxations as explicit disjuncts), `decode_agrees_<kind>` (every fully consumed payload the model decoder
accepts as the *response* form is read by the Spec reader as records that agree one by one),
`request_form_<kind>` (a payload the decoder reads as the *request* form sharing the id is `none` or zero
records for the Spec's response reader) and `undefined_rejected_<kind>` (a payload whose Spec reading holds an
undefined enum code is rejected by the decoder).
-/
namespace PyAirtouch.Lemmas.SpecAgree4
open PyAirtouch.Model
open PyAirtouch.Model.At4
open PyAirtouch.Gen.At4

/-- record by record: same number of records, same order, every pair related -/
def AgreeList {α β : Type} (R : α → β → Prop) : List α → List β → Prop
  | [], [] => True
  | a :: as, b :: bs => R a b ∧ AgreeList R as bs
  | _, _ => False

theorem AgreeList.length_eq {α β : Type} {R : α → β → Prop} :
    ∀ {as : List α} {bs : List β}, AgreeList R as bs → as.length = bs.length
  | [], [], _ => rfl
  | _ :: as, _ :: bs, h => by simp [AgreeList.length_eq (as := as) (bs := bs) h.2]
  | [], _ :: _, h => h.elim
  | _ :: _, [], h => h.elim

instance (bs : Bytes) : Decidable (AllBytes bs) := by unfold AllBytes; infer_instance

theorem allBytes_of (bs : Bytes) (h : AllBytes bs) : Spec.At4.allBytes bs = true := by
  simp only [Spec.At4.allBytes, List.all_eq_true, decide_eq_true_eq]
  exact h

theorem AllBytes.tail {b : Nat} {bs : Bytes} (h : AllBytes (b :: bs)) : AllBytes bs :=
  fun x hx => h x (List.mem_cons_of_mem _ hx)

theorem AllBytes.head {b : Nat} {bs : Bytes} (h : AllBytes (b :: bs)) : b < 256 :=
  h b (List.mem_cons_self ..)

/-! ## Bit fields: the vendor numbering (`Spec.At4.bits`, Bit8 = msb) against the decoders' shifts and masks -/

theorem bit_eq (b n : Nat) (hn : 0 < n) : Spec.At4.bit b n = bitToBool b (n - 1) := by
  unfold Spec.At4.bit Spec.At4.bits bitToBool
  have : b % 2 ^ n / 2 ^ (n - 1) = b / 2 ^ (n - 1) % 2 := by
    obtain ⟨k, rfl⟩ : ∃ k, n = k + 1 := ⟨n - 1, by omega⟩
    simp [Nat.pow_succ, Nat.mod_mul_right_div_self]
  rw [this]
  by_cases h : b / 2 ^ (n - 1) % 2 = 1 <;> simp [h]

theorem bits_8_7 (b : Nat) (h : b < 256) : Spec.At4.bits b 8 7 = b / 64 % 4 := by
  unfold Spec.At4.bits; omega
theorem bits_6_1 (b : Nat) : Spec.At4.bits b 6 1 = b % 64 := by
  unfold Spec.At4.bits; omega
theorem bits_7_1 (b : Nat) : Spec.At4.bits b 7 1 = b % 128 := by
  unfold Spec.At4.bits; omega
theorem bits_8_5 (b : Nat) (h : b < 256) : Spec.At4.bits b 8 5 = b / 16 % 16 := by
  unfold Spec.At4.bits; omega
theorem bits_4_1 (b : Nat) : Spec.At4.bits b 4 1 = b % 16 := by
  unfold Spec.At4.bits; omega
theorem bits_8_6 (b : Nat) (h : b < 256) : Spec.At4.bits b 8 6 = b / 32 := by
  unfold Spec.At4.bits; omega

/-- Bit5 of the second byte of a big-endian word is bit 4 of the word -/
theorem bitToBool_be16_4 (hi lo : Nat) : bitToBool (be16 hi lo) 4 = bitToBool lo 4 := by
  unfold bitToBool be16
  have : (hi * 256 + lo) / 2 ^ 4 % 2 = lo / 2 ^ 4 % 2 := by omega
  rw [this]

/-- fixed-size records on the Spec side, one step -/
theorem readRecords_step {α : Type} (size : Nat) (rd : List Nat → Option α) (fuel : Nat) (bs : List Nat)
    (hne : bs ≠ []) (hlen : size ≤ bs.length) :
    Spec.At4.readRecords size rd (fuel + 1) bs =
      match rd (bs.take size), Spec.At4.readRecords size rd fuel (bs.drop size) with
      | some r, some rs => some (r :: rs)
      | _, _ => none := by
  cases bs with
  | nil => exact absurd rfl hne
  | cons b bs =>
    simp only [Spec.At4.readRecords]
    rw [if_neg (by omega)]
    rfl

/-! ## 0x2B group status -/

/-- `specmap.AT4_GROUP_POWER` -/
def specGroupPower : X2BGroupStatus.GroupPowerState → Spec.At4.GroupPower
  | .OFF => .off
  | .ON => .on
  | .TURBO => .turbo

/-- `specmap.AT4_GROUP_METHOD` -/
def specGroupMethod : X2BGroupStatus.GroupControlMethod → Spec.At4.GroupControlMethod
  | .DAMPER => .percentage
  | .TEMPERATURE => .temperature

/-- `specmap.BATTERY_LOW` -/
def specBatteryLow : X2BGroupStatus.SensorBatteryStatus → Bool
  | .NORMAL => false
  | .LOW => true

/-- `specmap.at4_2B`: all ten fields; temperatures and set-points in tenths of a degree. -/
def AgreeGroupStatus (m : X2B.GroupStatusData) (s : Spec.At4.GroupStatus) : Prop :=
  s.group = m.group_number ∧
  s.power = specGroupPower m.power_state ∧
  s.controlMethod = specGroupMethod m.control_method ∧
  s.openPercentage = m.damper_percentage ∧
  s.batteryLow = specBatteryLow m.battery_status ∧
  s.turboSupport = m.supports_turbo ∧
  ((∃ sp, m.set_point = some sp ∧ s.targetSetpoint = (sp : Int) * 10) ∨
    -- relaxation AT4_2B_SETPOINT_ABSENT_WITHOUT_SENSOR
    (m.set_point = none ∧ s.hasSensor = false)) ∧
  s.hasSensor = m.has_sensor ∧
  (s.temperature = m.temperature ∨
    -- relaxation AT4_2B_TEMPERATURE_ABSENT_WITHOUT_SENSOR
    (m.temperature = none ∧ s.hasSensor = false)) ∧
  s.spill = m.spill_active

def tabGroupPowerB (n : Nat) : Bool :=
  match X2BGroupStatus.GroupPowerState.ofNat? n with
  | some ps => Spec.At4.readGroupPower n = specGroupPower ps
  | none => Spec.At4.readGroupPower n = .other n

theorem tabGroupPower : ∀ n, n < 4 → tabGroupPowerB n = true := by decide

theorem groupPower_some (n : Nat) (h : n < 4) (ps) (hm : X2BGroupStatus.GroupPowerState.ofNat? n = some ps) :
    Spec.At4.readGroupPower n = specGroupPower ps := by
  simpa [tabGroupPowerB, hm] using tabGroupPower n h

theorem groupPower_none (n : Nat) (h : n < 4) (hm : X2BGroupStatus.GroupPowerState.ofNat? n = none) :
    Spec.At4.readGroupPower n = .other n := by
  simpa [tabGroupPowerB, hm] using tabGroupPower n h

theorem groupMethod_tab (n : Nat) (h : n < 2) :
    X2BGroupStatus.GroupControlMethod.ofNat? n =
      some (if n = 1 then X2BGroupStatus.GroupControlMethod.TEMPERATURE else .DAMPER) := by
  have : n = 0 ∨ n = 1 := by omega
  rcases this with rfl | rfl <;> rfl

theorem battery_tab (n : Nat) (h : n < 2) :
    X2BGroupStatus.SensorBatteryStatus.ofNat? n =
      some (if n = 1 then X2BGroupStatus.SensorBatteryStatus.LOW else .NORMAL) := by
  have : n = 0 ∨ n = 1 := by omega
  rcases this with rfl | rfl <;> rfl

/-- the Spec's reading of one 6-byte record, with the bit fields written the decoder's way -/
theorem readGroupStatusRecord_eq (b1 b2 b3 b4 b5 b6 : Nat) (h1 : b1 < 256) (h6 : b6 < 256) :
    Spec.At4.readGroupStatusRecord [b1, b2, b3, b4, b5, b6] = some
      { group := b1 % 64
        power := Spec.At4.readGroupPower (b1 / 64 % 4)
        controlMethod := if bitToBool b2 7 then .temperature else .percentage
        openPercentage := b2 % 128
        batteryLow := bitToBool b3 7
        turboSupport := bitToBool b3 6
        targetSetpoint := ((b3 % 64 : Nat) : Int) * 10
        hasSensor := bitToBool b4 7
        temperature := if b5 = 255 then none else some (((b5 * 8 + b6 / 32 : Nat) : Int) - 500)
        spill := bitToBool b6 4 } := by
  simp only [Spec.At4.readGroupStatusRecord, bit_eq _ _ (by decide : 0 < 8), bit_eq _ _ (by decide : 0 < 7),
    bit_eq _ _ (by decide : 0 < 5), bits_8_7 b1 h1, bits_6_1, bits_7_1, Spec.At4.readTemperature,
    bits_8_6 b6 h6, Spec.At4.degToTenths, Nat.add_one_sub_one]
  rfl

theorem decRec_agrees_2B (b1 b2 b3 b4 b5 b6 : Nat) (rest : Bytes)
    (h1 : b1 < 256) (h6 : b6 < 256)
    (g : X2B.GroupStatusData) (rest' : Bytes)
    (h : X2B.decRec (b1 :: b2 :: b3 :: b4 :: b5 :: b6 :: rest) = .ok (g, rest')) :
    rest' = rest ∧ ∃ s, Spec.At4.readGroupStatusRecord [b1, b2, b3, b4, b5, b6] = some s ∧
      AgreeGroupStatus g s := by
  simp only [X2B.decRec] at h
  split at h
  · rename_i ps cm bat hps hcm hbat
    injection h with h
    injection h with hg hr
    subst hg
    refine ⟨hr.symm, _, readGroupStatusRecord_eq b1 b2 b3 b4 b5 b6 h1 h6, ?_⟩
    rw [groupMethod_tab _ (by omega)] at hcm
    rw [battery_tab _ (by omega)] at hbat
    injection hcm with hcm
    injection hbat with hbat
    subst hcm hbat
    refine ⟨rfl, groupPower_some _ (by omega) ps hps, ?_, rfl, ?_, rfl, ?_, rfl, ?_, ?_⟩
    · by_cases hc : b2 / 128 % 2 = 1 <;> simp [bitToBool, hc, specGroupMethod]
    · by_cases hc : b3 / 128 % 2 = 1 <;> simp [bitToBool, hc, specBatteryLow]
    · cases hs : bitToBool b4 7
      · right; simp
      · left; exact ⟨b3 % 64, by simp, rfl⟩
    · cases hs : bitToBool b4 7
      · right; simp [X2B.decTemp]
      · left
        simp only [X2B.decTemp, Bool.not_true, Bool.false_or, be16, X2BGroupStatus.TEMP_UNAVAILABLE]
        by_cases h255 : b5 = 255
        · subst h255
          have : (255 * 256 + b6) / 256 * 256 = 65280 := by omega
          simp [this]
        · have : ¬ (b5 * 256 + b6) / 256 * 256 = 65280 := by omega
          have e : (b5 * 256 + b6) / 32 * 32 / 32 = b5 * 8 + b6 / 32 := by omega
          simp only [h255, this, ↓reduceIte, e]
          simp
    · exact (bitToBool_be16_4 b5 b6).symm
  · cases h

/-- all records: `decRecs n` succeeding on the whole of `b` means `b` is `n` records, each read alike -/
theorem decRecs_agrees_2B : ∀ (n : Nat) (b : Bytes) (fuel : Nat) (gs : List X2B.GroupStatusData),
    AllBytes b → b.length ≤ fuel → X2B.decRecs n b = .ok (gs, []) →
    ∃ recs, Spec.At4.readRecords 6 Spec.At4.readGroupStatusRecord fuel b = some recs ∧
      AgreeList AgreeGroupStatus gs recs
  | 0, b, fuel, gs, _, _, h => by
    simp only [X2B.decRecs] at h
    injection h with h; injection h with h1 h2
    subst h1 h2
    exact ⟨[], by cases fuel <;> rfl, trivial⟩
  | n + 1, b, fuel, gs, hb, hf, h => by
    simp only [X2B.decRecs, bind, Except.bind] at h
    split at h
    · cases h
    · rename_i v hrec
      obtain ⟨g, rest⟩ := v
      simp only at h
      split at h
      · cases h
      · rename_i v2 hrecs
        obtain ⟨gs', rest'⟩ := v2
        simp only [pure, Except.pure] at h
        injection h with h; injection h with h1 h2
        subst h1 h2
        match b, hb, hf, hrec with
        | b1 :: b2 :: b3 :: b4 :: b5 :: b6 :: tl, hb, hf, hrec =>
          have hlt : ∀ x ∈ [b1, b2, b3, b4, b5, b6], x < 256 := fun x hx => hb x (by
            simp only [List.mem_cons, List.not_mem_nil, or_false] at hx ⊢
            rcases hx with h | h | h | h | h | h <;> simp [h])
          obtain ⟨hr, s, hs, hag⟩ := decRec_agrees_2B b1 b2 b3 b4 b5 b6 tl (hlt b1 (by simp))
            (hlt b6 (by simp)) g rest hrec
          subst hr
          have htl : AllBytes rest := fun x hx => hb x (by simp [hx])
          obtain ⟨f, rfl⟩ : ∃ f, fuel = f + 1 := ⟨fuel - 1, by simp only [List.length_cons] at hf; omega⟩
          obtain ⟨recs, hrecs', hag'⟩ := decRecs_agrees_2B n rest f gs' htl
            (by simp only [List.length_cons] at hf; omega) hrecs
          refine ⟨s :: recs, ?_, hag, hag'⟩
          rw [readRecords_step _ _ _ _ (by simp) (by simp)]
          simp only [List.take_succ_cons, List.take_zero, List.drop_succ_cons, List.drop_zero, hs, hrecs']
        | [], _, _, hrec => simp [X2B.decRec] at hrec
        | [_], _, _, hrec => simp [X2B.decRec] at hrec
        | [_, _], _, _, hrec => simp [X2B.decRec] at hrec
        | [_, _, _], _, _, hrec => simp [X2B.decRec] at hrec
        | [_, _, _, _], _, _, hrec => simp [X2B.decRec] at hrec
        | [_, _, _, _, _], _, _, hrec => simp [X2B.decRec] at hrec

/-- **0x2B.**  Every payload `b` the decoder accepts as a group status message, fully consumed, whatever
the announced length: the vendor reading of `b` exists, has as many records, and agrees record by record. -/
theorem decode_agrees_2B (b : Bytes) (msgLen : Nat) (hb : AllBytes b) (gs : List X2B.GroupStatusData)
    (h : X2B.decode b msgLen = .ok (.status gs, [])) :
    ∃ recs, Spec.At4.readGroupStatus b = some recs ∧ AgreeList AgreeGroupStatus gs recs := by
  simp only [X2B.decode] at h
  split at h
  · cases h
  · split at h
    · cases h
    · simp only [bind, Except.bind] at h
      split at h
      · cases h
      · rename_i v hrecs
        obtain ⟨gs', rest⟩ := v
        simp only [pure, Except.pure] at h
        injection h with h; injection h with h1 h2
        injection h1 with h1
        subst h1 h2
        obtain ⟨recs, hr, hag⟩ := decRecs_agrees_2B _ b b.length gs' hb (Nat.le_refl _) hrecs
        exact ⟨recs, by simp only [Spec.At4.readGroupStatus, allBytes_of b hb, Bool.not_true,
          Bool.false_eq_true, ↓reduceIte, hr], hag⟩

/-- the request form (empty payload) is zero records for the vendor's response reader -/
theorem request_form_2B (b : Bytes) (msgLen : Nat)
    (h : X2B.decode b msgLen = .ok (.request, [])) : Spec.At4.readGroupStatus b = some [] := by
  simp only [X2B.decode] at h
  split at h
  · injection h with h; injection h with _ h2
    subst h2; rfl
  · split at h
    · cases h
    · simp only [bind, Except.bind] at h
      split at h
      · cases h
      · simp only [pure, Except.pure] at h
        injection h with h; injection h with h1 _
        cases h1

theorem exists_six (b : List Nat) (h : 6 ≤ b.length) :
    ∃ b1 b2 b3 b4 b5 b6 tl, b = b1 :: b2 :: b3 :: b4 :: b5 :: b6 :: tl := by
  match b, h with
  | b1 :: b2 :: b3 :: b4 :: b5 :: b6 :: tl, _ => exact ⟨b1, b2, b3, b4, b5, b6, tl, rfl⟩
  | [], h | [_], h | [_, _], h | [_, _, _], h | [_, _, _, _], h | [_, _, _, _, _], h => simp at h

/-- the Spec's fixed-size record reader only reads whole records -/
theorem readRecords_length {α : Type} (size : Nat) (rd : List Nat → Option α) :
    ∀ (fuel : Nat) (bs : List Nat) (recs : List α),
      Spec.At4.readRecords size rd fuel bs = some recs → bs.length = size * recs.length
  | _, [], recs, h => by
    have : recs = [] := by cases ‹Nat› <;> simp [Spec.At4.readRecords] at h <;> exact h
    subst this; simp
  | 0, _ :: _, _, h => by simp [Spec.At4.readRecords] at h
  | fuel + 1, b :: bs, recs, h => by
    simp only [Spec.At4.readRecords] at h
    split at h
    · cases h
    · rename_i hlen
      split at h
      · rename_i r rs hr hrs
        injection h with h
        subst h
        have ih := readRecords_length size rd fuel _ rs hrs
        simp only [List.length_drop, List.length_cons] at ih hlen ⊢
        rw [Nat.mul_add]
        omega
      · cases h

/-- a record the vendor document reads with the undefined power code `10` makes the decoder raise -/
theorem decRecs_undefined_2B : ∀ (fuel : Nat) (b : Bytes) (recs : List Spec.At4.GroupStatus),
    AllBytes b → Spec.At4.readRecords 6 Spec.At4.readGroupStatusRecord fuel b = some recs →
    (∃ r ∈ recs, ∃ n, r.power = .other n) → ∃ e, X2B.decRecs recs.length b = .error e
  | _, [], recs, _, h, hu => by
    have : recs = [] := by cases ‹Nat› <;> simp [Spec.At4.readRecords] at h <;> exact h
    subst this
    obtain ⟨r, hr, _⟩ := hu
    cases hr
  | 0, _ :: _, _, _, h, _ => by simp [Spec.At4.readRecords] at h
  | fuel + 1, c :: cs, recs, hb, h, hu => by
    simp only [Spec.At4.readRecords] at h
    split at h
    · cases h
    · rename_i hlen
      obtain ⟨b1, b2, b3, b4, b5, b6, tl, hbb⟩ := exists_six (c :: cs) (by omega)
      rw [hbb] at h hb
      simp only [List.take_succ_cons, List.take_zero, List.drop_succ_cons, List.drop_zero] at h
      have h1 : b1 < 256 := hb b1 (by simp)
      have h6 : b6 < 256 := hb b6 (by simp)
      rw [readGroupStatusRecord_eq b1 b2 b3 b4 b5 b6 h1 h6] at h
      split at h
      · rename_i r rs hr hrs
        injection h with h
        subst h
        injection hr with hr
        rw [hbb]
        simp only [List.length_cons, X2B.decRecs, bind, Except.bind]
        -- the first record on the decoder's side
        cases hdec : X2B.decRec (b1 :: b2 :: b3 :: b4 :: b5 :: b6 :: tl) with
        | error e => exact ⟨e, rfl⟩
        | ok v =>
          obtain ⟨g, rest⟩ := v
          obtain ⟨hrest, s, hs, hag⟩ := decRec_agrees_2B b1 b2 b3 b4 b5 b6 tl h1 h6 g rest hdec
          subst hrest
          rw [readGroupStatusRecord_eq b1 b2 b3 b4 b5 b6 h1 h6] at hs
          injection hs with hs
          have hsr : s = r := hs.symm.trans hr
          subst hsr
          obtain ⟨r', hr', n, hn⟩ := hu
          rcases List.mem_cons.mp hr' with rfl | hmem
          · -- the decoded record agrees with a defined power state: contradiction
            have := hag.2.1
            rw [hn] at this
            cases hp : g.power_state <;> rw [hp] at this <;> cases this
          · have htl : AllBytes rest := fun x hx => hb x (by simp [hx])
            obtain ⟨e, he⟩ := decRecs_undefined_2B fuel rest rs htl hrs ⟨r', hmem, n, hn⟩
            exact ⟨e, by simp only [he]⟩
      · cases h

theorem allBytes_of_spec (bs : List Nat) (h : Spec.At4.allBytes bs = true) : AllBytes bs := by
  intro x hx
  simp only [Spec.At4.allBytes, List.all_eq_true, decide_eq_true_eq] at h
  exact h x hx

/-- **0x2B, undefined codes.**  If the vendor reading of a payload holds the undefined group power code
(`other n`, i.e. `10`) in some record, the decoder (called as the receive path calls it, announced length =
payload length) raises; it never produces a defined value. -/
theorem undefined_rejected_2B (b : Bytes) (recs : List Spec.At4.GroupStatus)
    (hr : Spec.At4.readGroupStatus b = some recs) (hu : ∃ r ∈ recs, ∃ n, r.power = .other n) :
    ∃ e, X2B.decode b b.length = .error e := by
  simp only [Spec.At4.readGroupStatus] at hr
  split at hr
  · cases hr
  · rename_i hall
    have hb : AllBytes b := allBytes_of_spec b (by simpa using hall)
    have hlen := readRecords_length _ _ _ _ _ hr
    obtain ⟨e, he⟩ := decRecs_undefined_2B _ b recs hb hr hu
    have hne : recs.length ≠ 0 := by
      obtain ⟨r, hr, _⟩ := hu
      cases recs with
      | nil => cases hr
      | cons _ _ => simp
    refine ⟨e, ?_⟩
    have h0 : ¬ b.length = 0 := by omega
    have hm : ¬ b.length % X2B.recSize ≠ 0 := by
      simp only [X2B.recSize, X2BGroupStatus.STRUCT_size]; omega
    have hd : b.length / X2B.recSize = recs.length := by
      simp only [X2B.recSize, X2BGroupStatus.STRUCT_size]; omega
    simp only [X2B.decode, h0, hm, ↓reduceIte, hd, he, bind, Except.bind]

/-! ## 0x2D AC status -/

/-- `specmap.AT4_AC_POWER` -/
def specAcPower : X2DAcStatus.AcPowerState → Spec.At4.AcPower
  | .OFF => .off
  | .ON => .on

/-- `specmap.AC_MODE` -/
def specAcMode : X2DAcStatus.AcMode → Spec.At4.AcMode
  | .AUTO => .auto
  | .HEAT => .heat
  | .DRY => .dry
  | .FAN => .fan
  | .COOL => .cool
  | .AUTO_HEAT => .autoHeat
  | .AUTO_COOL => .autoCool

/-- `specmap.AT4_AC_FAN` -/
def specAcFan : X2DAcStatus.AcFanSpeed → Spec.At4.AcFanSpeed
  | .AUTO => .auto
  | .QUIET => .quiet
  | .LOW => .low
  | .MEDIUM => .medium
  | .HIGH => .high
  | .POWERFUL => .powerful
  | .TURBO => .turbo

/-- `specmap.at4_2D`: all nine fields; temperature and set-point in tenths of a degree. -/
def AgreeAcStatus (m : X2D.AcStatusData) (s : Spec.At4.AcStatus) : Prop :=
  s.ac = m.ac_number ∧
  s.power = specAcPower m.power_state ∧
  s.mode = specAcMode m.mode ∧
  s.fanSpeed = specAcFan m.fan_speed ∧
  s.spill = m.spill_active ∧
  s.timer = m.timer_set ∧
  s.targetSetpoint = (m.set_point : Int) * 10 ∧
  (s.temperature = some m.temperature ∨
    -- relaxation AT4_2D_TEMPERATURE_HAS_NO_ABSENT_VALUE: the vendor reads "not available" (Byte5 = 0xff), the
    -- plain-`float` field holds (VALUE-500)/10 = 154.0 .. 154.7 (exact value: `temperature_exact_2D`)
    (s.temperature = none ∧ 1540 ≤ m.temperature ∧ m.temperature ≤ 1547)) ∧
  s.errorCode = m.error_code

def tabAcPowerB (n : Nat) : Bool :=
  match X2DAcStatus.AcPowerState.ofNat? n with
  | some ps => Spec.At4.readAcPower n = specAcPower ps
  | none => Spec.At4.readAcPower n = .notAvailable n

def tabAcModeB (n : Nat) : Bool :=
  match X2DAcStatus.AcMode.ofNat? n with
  | some md => Spec.At4.readAcMode n = specAcMode md
  | none => Spec.At4.readAcMode n = .notAvailable n

def tabAcFanB (n : Nat) : Bool :=
  match X2DAcStatus.AcFanSpeed.ofNat? n with
  | some fs => Spec.At4.readAcFanSpeed n = specAcFan fs
  | none => Spec.At4.readAcFanSpeed n = .notAvailable n

theorem tabAcPower : ∀ n, n < 4 → tabAcPowerB n = true := by decide
theorem tabAcMode : ∀ n, n < 16 → tabAcModeB n = true := by decide
theorem tabAcFan : ∀ n, n < 16 → tabAcFanB n = true := by decide

theorem acPower_some (n : Nat) (h : n < 4) (ps) (hm : X2DAcStatus.AcPowerState.ofNat? n = some ps) :
    Spec.At4.readAcPower n = specAcPower ps := by
  simpa [tabAcPowerB, hm] using tabAcPower n h
theorem acMode_some (n : Nat) (h : n < 16) (md) (hm : X2DAcStatus.AcMode.ofNat? n = some md) :
    Spec.At4.readAcMode n = specAcMode md := by
  simpa [tabAcModeB, hm] using tabAcMode n h
theorem acFan_some (n : Nat) (h : n < 16) (fs) (hm : X2DAcStatus.AcFanSpeed.ofNat? n = some fs) :
    Spec.At4.readAcFanSpeed n = specAcFan fs := by
  simpa [tabAcFanB, hm] using tabAcFan n h

/-- the Spec's reading of one 8-byte record, with the bit fields written the decoder's way -/
theorem readAcStatusRecord_eq (b1 b2 b3 b4 b5 b6 b7 b8 : Nat) (h1 : b1 < 256) (h2 : b2 < 256) (h6 : b6 < 256) :
    Spec.At4.readAcStatusRecord [b1, b2, b3, b4, b5, b6, b7, b8] = some
      { ac := b1 % 64
        power := Spec.At4.readAcPower (b1 / 64 % 4)
        mode := Spec.At4.readAcMode (b2 / 16 % 16)
        fanSpeed := Spec.At4.readAcFanSpeed (b2 % 16)
        spill := bitToBool b3 7
        timer := bitToBool b3 6
        targetSetpoint := ((b3 % 64 : Nat) : Int) * 10
        temperature := if b5 = 255 then none else some (((b5 * 8 + b6 / 32 : Nat) : Int) - 500)
        errorCode := b7 * 256 + b8 } := by
  simp only [Spec.At4.readAcStatusRecord, bit_eq _ _ (by decide : 0 < 8), bit_eq _ _ (by decide : 0 < 7),
    bits_8_7 b1 h1, bits_6_1, bits_8_5 b2 h2, bits_4_1, Spec.At4.readTemperature,
    bits_8_6 b6 h6, Spec.At4.degToTenths, Nat.add_one_sub_one]
  rfl

/-- the decoder's temperature is always the 11-bit VALUE minus 500 (tenths), also when Byte5 = 0xff -/
theorem temperature_exact_2D (b1 b2 b3 b4 b5 b6 b7 b8 : Nat) (rest : Bytes) (h5 : b5 < 256) (h6 : b6 < 256)
    (a : X2D.AcStatusData) (rest' : Bytes)
    (h : X2D.decRec (b1 :: b2 :: b3 :: b4 :: b5 :: b6 :: b7 :: b8 :: rest) = .ok (a, rest')) :
    a.temperature = ((b5 * 8 + Spec.At4.bits b6 8 6 : Nat) : Int) - 500 := by
  simp only [X2D.decRec] at h
  split at h
  · cases h
  · split at h
    · cases h
    · split at h
      · cases h
      · injection h with h; injection h with ha _
        subst ha
        simp only [X2D.decodeTemperature, be16, bits_8_6 b6 h6]
        have : (b5 * 256 + b6) / 32 % 2048 = b5 * 8 + b6 / 32 := by omega
        rw [this]

theorem decRec_agrees_2D (b1 b2 b3 b4 b5 b6 b7 b8 : Nat) (rest : Bytes)
    (h1 : b1 < 256) (h2 : b2 < 256) (h5 : b5 < 256) (h6 : b6 < 256)
    (a : X2D.AcStatusData) (rest' : Bytes)
    (h : X2D.decRec (b1 :: b2 :: b3 :: b4 :: b5 :: b6 :: b7 :: b8 :: rest) = .ok (a, rest')) :
    rest' = rest ∧ ∃ s, Spec.At4.readAcStatusRecord [b1, b2, b3, b4, b5, b6, b7, b8] = some s ∧
      AgreeAcStatus a s := by
  simp only [X2D.decRec] at h
  split at h
  · cases h
  · rename_i ps hps
    split at h
    · cases h
    · rename_i md hmd
      split at h
      · cases h
      · rename_i fs hfs
        injection h with h; injection h with ha hr
        subst ha
        refine ⟨hr.symm, _, readAcStatusRecord_eq b1 b2 b3 b4 b5 b6 b7 b8 h1 h2 h6, ?_⟩
        refine ⟨rfl, acPower_some _ (by omega) ps hps, acMode_some _ (by omega) md hmd,
          acFan_some _ (by omega) fs hfs, rfl, rfl, rfl, ?_, rfl⟩
        simp only [X2D.decodeTemperature, be16]
        have e : (b5 * 256 + b6) / 32 % 2048 = b5 * 8 + b6 / 32 := by omega
        rw [e]
        by_cases h255 : b5 = 255
        · right
          subst h255
          refine ⟨by simp, ?_, ?_⟩ <;> omega
        · left
          simp [h255]

theorem exists_eight (b : List Nat) (h : 8 ≤ b.length) :
    ∃ b1 b2 b3 b4 b5 b6 b7 b8 tl, b = b1 :: b2 :: b3 :: b4 :: b5 :: b6 :: b7 :: b8 :: tl := by
  match b, h with
  | b1 :: b2 :: b3 :: b4 :: b5 :: b6 :: b7 :: b8 :: tl, _ => exact ⟨b1, b2, b3, b4, b5, b6, b7, b8, tl, rfl⟩
  | [], h | [_], h | [_, _], h | [_, _, _], h | [_, _, _, _], h | [_, _, _, _, _], h
  | [_, _, _, _, _, _], h | [_, _, _, _, _, _, _], h => simp at h

theorem decRec_2D_length (b : Bytes) (v) (h : X2D.decRec b = .ok v) : 8 ≤ b.length := by
  match b, h with
  | _ :: _ :: _ :: _ :: _ :: _ :: _ :: _ :: _, _ => simp
  | [], h | [_], h | [_, _], h | [_, _, _], h | [_, _, _, _], h | [_, _, _, _, _], h
  | [_, _, _, _, _, _], h | [_, _, _, _, _, _, _], h => simp [X2D.decRec] at h

theorem decRecs_agrees_2D : ∀ (n : Nat) (b : Bytes) (fuel : Nat) (as : List X2D.AcStatusData),
    AllBytes b → b.length ≤ fuel → X2D.decRecs n b = .ok (as, []) →
    ∃ recs, Spec.At4.readRecords 8 Spec.At4.readAcStatusRecord fuel b = some recs ∧
      AgreeList AgreeAcStatus as recs
  | 0, b, fuel, as, _, _, h => by
    simp only [X2D.decRecs] at h
    injection h with h; injection h with h1 h2
    subst h1 h2
    exact ⟨[], by cases fuel <;> rfl, trivial⟩
  | n + 1, b, fuel, as, hb, hf, h => by
    simp only [X2D.decRecs, bind, Except.bind] at h
    split at h
    · cases h
    · rename_i v hrec
      obtain ⟨a, rest⟩ := v
      simp only at h
      split at h
      · cases h
      · rename_i v2 hrecs
        obtain ⟨as', rest'⟩ := v2
        simp only [pure, Except.pure] at h
        injection h with h; injection h with h1 h2
        subst h1 h2
        obtain ⟨b1, b2, b3, b4, b5, b6, b7, b8, tl, hbb⟩ := exists_eight b (decRec_2D_length b _ hrec)
        subst hbb
        obtain ⟨hr, s, hs, hag⟩ := decRec_agrees_2D b1 b2 b3 b4 b5 b6 b7 b8 tl (hb b1 (by simp))
          (hb b2 (by simp)) (hb b5 (by simp)) (hb b6 (by simp)) a rest hrec
        subst hr
        have htl : AllBytes rest := fun x hx => hb x (by simp [hx])
        obtain ⟨f, rfl⟩ : ∃ f, fuel = f + 1 := ⟨fuel - 1, by simp only [List.length_cons] at hf; omega⟩
        obtain ⟨recs, hrecs', hag'⟩ := decRecs_agrees_2D n rest f as' htl
          (by simp only [List.length_cons] at hf; omega) hrecs
        refine ⟨s :: recs, ?_, hag, hag'⟩
        rw [readRecords_step _ _ _ _ (by simp) (by simp)]
        simp only [List.take_succ_cons, List.take_zero, List.drop_succ_cons, List.drop_zero, hs, hrecs']

/-- **0x2D.**  Every payload `b` the decoder accepts as an AC status message, fully consumed, whatever the
announced length: the vendor reading of `b` exists, has as many records, and agrees record by record. -/
theorem decode_agrees_2D (b : Bytes) (msgLen : Nat) (hb : AllBytes b) (as : List X2D.AcStatusData)
    (h : X2D.decode b msgLen = .ok (.status as, [])) :
    ∃ recs, Spec.At4.readAcStatus b = some recs ∧ AgreeList AgreeAcStatus as recs := by
  simp only [X2D.decode] at h
  split at h
  · cases h
  · split at h
    · cases h
    · simp only [bind, Except.bind] at h
      split at h
      · cases h
      · rename_i v hrecs
        obtain ⟨as', rest⟩ := v
        simp only [pure, Except.pure] at h
        injection h with h; injection h with h1 h2
        injection h1 with h1
        subst h1 h2
        obtain ⟨recs, hr, hag⟩ := decRecs_agrees_2D _ b b.length as' hb (Nat.le_refl _) hrecs
        exact ⟨recs, by simp only [Spec.At4.readAcStatus, allBytes_of b hb, Bool.not_true,
          Bool.false_eq_true, ↓reduceIte, hr], hag⟩

/-- the request form (empty payload) is zero records for the vendor's response reader -/
theorem request_form_2D (b : Bytes) (msgLen : Nat)
    (h : X2D.decode b msgLen = .ok (.request, [])) : Spec.At4.readAcStatus b = some [] := by
  simp only [X2D.decode] at h
  split at h
  · injection h with h; injection h with _ h2
    subst h2; rfl
  · split at h
    · cases h
    · simp only [bind, Except.bind] at h
      split at h
      · cases h
      · simp only [pure, Except.pure] at h
        injection h with h; injection h with h1 _
        cases h1

/-- the vendor reading of a record holds an undefined code in one of the three enum fields -/
def UndefinedAcStatus (r : Spec.At4.AcStatus) : Prop :=
  (∃ n, r.power = .notAvailable n) ∨ (∃ n, r.mode = .notAvailable n) ∨ (∃ n, r.fanSpeed = .notAvailable n)

theorem AgreeAcStatus.defined {a : X2D.AcStatusData} {s : Spec.At4.AcStatus} (h : AgreeAcStatus a s) :
    ¬ UndefinedAcStatus s := by
  obtain ⟨_, hp, hm, hf, _⟩ := h
  rintro (⟨n, hn⟩ | ⟨n, hn⟩ | ⟨n, hn⟩)
  · rw [hn] at hp; cases hq : a.power_state <;> rw [hq] at hp <;> cases hp
  · rw [hn] at hm; cases hq : a.mode <;> rw [hq] at hm <;> cases hm
  · rw [hn] at hf; cases hq : a.fan_speed <;> rw [hq] at hf <;> cases hf

theorem decRecs_undefined_2D : ∀ (fuel : Nat) (b : Bytes) (recs : List Spec.At4.AcStatus),
    AllBytes b → Spec.At4.readRecords 8 Spec.At4.readAcStatusRecord fuel b = some recs →
    (∃ r ∈ recs, UndefinedAcStatus r) → ∃ e, X2D.decRecs recs.length b = .error e
  | _, [], recs, _, h, hu => by
    have : recs = [] := by cases ‹Nat› <;> simp [Spec.At4.readRecords] at h <;> exact h
    subst this
    obtain ⟨r, hr, _⟩ := hu
    cases hr
  | 0, _ :: _, _, _, h, _ => by simp [Spec.At4.readRecords] at h
  | fuel + 1, c :: cs, recs, hb, h, hu => by
    simp only [Spec.At4.readRecords] at h
    split at h
    · cases h
    · rename_i hlen
      obtain ⟨b1, b2, b3, b4, b5, b6, b7, b8, tl, hbb⟩ := exists_eight (c :: cs) (by omega)
      rw [hbb] at h hb
      simp only [List.take_succ_cons, List.take_zero, List.drop_succ_cons, List.drop_zero] at h
      have h1 : b1 < 256 := hb b1 (by simp)
      have h2 : b2 < 256 := hb b2 (by simp)
      have h5 : b5 < 256 := hb b5 (by simp)
      have h6 : b6 < 256 := hb b6 (by simp)
      split at h
      · rename_i r rs hr hrs
        injection h with h
        subst h
        rw [hbb]
        simp only [List.length_cons, X2D.decRecs, bind, Except.bind]
        cases hdec : X2D.decRec (b1 :: b2 :: b3 :: b4 :: b5 :: b6 :: b7 :: b8 :: tl) with
        | error e => exact ⟨e, rfl⟩
        | ok v =>
          obtain ⟨a, rest⟩ := v
          obtain ⟨hrest, s, hs, hag⟩ := decRec_agrees_2D b1 b2 b3 b4 b5 b6 b7 b8 tl h1 h2 h5 h6 a rest hdec
          subst hrest
          have hsr : s = r := Option.some.inj (hs.symm.trans hr)
          subst hsr
          obtain ⟨r', hr', hund⟩ := hu
          rcases List.mem_cons.mp hr' with rfl | hmem
          · exact absurd hund hag.defined
          · have htl : AllBytes rest := fun x hx => hb x (by simp [hx])
            obtain ⟨e, he⟩ := decRecs_undefined_2D fuel rest rs htl hrs ⟨r', hmem, hund⟩
            exact ⟨e, by simp only [he]⟩
      · cases h

/-- **0x2D, undefined codes.**  If the vendor reading of a payload holds a "not available" power, mode or fan
speed code in some record, the decoder (announced length = payload length) raises. -/
theorem undefined_rejected_2D (b : Bytes) (recs : List Spec.At4.AcStatus)
    (hr : Spec.At4.readAcStatus b = some recs) (hu : ∃ r ∈ recs, UndefinedAcStatus r) :
    ∃ e, X2D.decode b b.length = .error e := by
  simp only [Spec.At4.readAcStatus] at hr
  split at hr
  · cases hr
  · rename_i hall
    have hb : AllBytes b := allBytes_of_spec b (by simpa using hall)
    have hlen := readRecords_length _ _ _ _ _ hr
    obtain ⟨e, he⟩ := decRecs_undefined_2D _ b recs hb hr hu
    have hne : recs.length ≠ 0 := by
      obtain ⟨r, hr, _⟩ := hu
      cases recs with
      | nil => cases hr
      | cons _ _ => simp
    refine ⟨e, ?_⟩
    have h0 : ¬ b.length = 0 := by omega
    have hm : ¬ b.length % X2D.recSize ≠ 0 := by
      simp only [X2D.recSize, X2DAcStatus.STRUCT_size]; omega
    have hd : b.length / X2D.recSize = recs.length := by
      simp only [X2D.recSize, X2DAcStatus.STRUCT_size]; omega
    simp only [X2D.decode, h0, hm, ↓reduceIte, hd, he, bind, Except.bind]

/-! ## 0x1F / 0xFF12 group names -/

theorem untilNul_eq (bs : List Nat) : Spec.At4.untilNul bs = cStringPrefix bs := by
  induction bs with
  | nil => rfl
  | cons b bs ih =>
    simp only [Spec.At4.untilNul, cStringPrefix, List.takeWhile_cons]
    by_cases h : b = 0
    · simp [h]
    · simp only [h, ↓reduceIte, ne_eq, not_false_eq_true, decide_true]
      rw [ih]; rfl

/-- `specmap.at4_FF12`: one entry of the mapping against one Spec record (name = its UTF-8 bytes) -/
def AgreeGroupName (p : Nat × Bytes) (s : Spec.At4.GroupName) : Prop :=
  s.group = p.1 ∧ s.name = p.2

/-- `specmap._collapse_duplicates`, one step: a number seen before keeps its position and takes the new record -/
def collapseInsert (acc : List Spec.At4.GroupName) (r : Spec.At4.GroupName) : List Spec.At4.GroupName :=
  if acc.any (·.group = r.group) then acc.map (fun q => if q.group = r.group then r else q) else acc ++ [r]

/-- `specmap._collapse_duplicates`: the Spec's list reduced the way a mapping is filled
(position of the first occurrence, name of the last) -/
def collapse (recs : List Spec.At4.GroupName) : List Spec.At4.GroupName := recs.foldl collapseInsert []

/-- `specmap.compare` for the name kinds: record by record; or, relaxation
NAMES_DUPLICATE_NUMBER_LAST_WINS, only when the Spec's records really repeat a number, against the collapsed list -/
def AgreeGroupNames (d : List (Nat × Bytes)) (recs : List Spec.At4.GroupName) : Prop :=
  AgreeList AgreeGroupName d recs ∨
    -- relaxation NAMES_DUPLICATE_NUMBER_LAST_WINS
    (¬ (recs.map (·.group)).Nodup ∧ AgreeList AgreeGroupName d (collapse recs))

theorem collapse_nodup_aux : ∀ (recs acc : List Spec.At4.GroupName),
    ((acc ++ recs).map (·.group)).Nodup → recs.foldl collapseInsert acc = acc ++ recs
  | [], acc, _ => by simp
  | r :: rs, acc, h => by
    have hany : acc.any (·.group = r.group) = false := by
      rw [List.any_eq_false]
      intro q hq hqr
      simp only [decide_eq_true_eq] at hqr
      simp only [List.map_append, List.map_cons, List.nodup_append, List.mem_map, List.mem_cons] at h
      exact h.2.2 _ ⟨q, hq, rfl⟩ _ (Or.inl rfl) hqr
    simp only [List.foldl_cons, collapseInsert, hany, Bool.false_eq_true, ↓reduceIte]
    rw [collapse_nodup_aux rs (acc ++ [r]) (by simpa using h)]
    simp

/-- without a repeated number the collapsed list is the list itself -/
theorem collapse_nodup (recs : List Spec.At4.GroupName) (h : (recs.map (·.group)).Nodup) :
    collapse recs = recs := by
  simpa [collapse] using collapse_nodup_aux recs [] (by simpa using h)

theorem agree_any (g : Nat) (rg : Nat) (hg : rg = g) : ∀ (acc : List (Nat × Bytes)) (accS : List Spec.At4.GroupName),
    AgreeList AgreeGroupName acc accS → acc.any (·.1 = g) = accS.any (·.group = rg)
  | [], [], _ => rfl
  | p :: acc, q :: accS, h => by
    simp only [List.any_cons, agree_any g rg hg acc accS h.2, h.1.1, hg]
  | [], _ :: _, h => h.elim
  | _ :: _, [], h => h.elim

theorem agree_map (g : Nat) (name : Bytes) (r : Spec.At4.GroupName) (hr : AgreeGroupName (g, name) r) :
    ∀ (acc : List (Nat × Bytes)) (accS : List Spec.At4.GroupName), AgreeList AgreeGroupName acc accS →
    AgreeList AgreeGroupName (acc.map (fun p => if p.1 = g then (g, name) else p))
      (accS.map (fun q => if q.group = r.group then r else q))
  | [], [], _ => trivial
  | p :: acc, q :: accS, h => by
    simp only [List.map_cons, AgreeList]
    refine ⟨?_, agree_map g name r hr acc accS h.2⟩
    have hq : q.group = p.1 := h.1.1
    have hrg : r.group = g := hr.1
    by_cases hc : p.1 = g
    · simp only [hc, ↓reduceIte, hq, hrg]; exact hr
    · simp only [hc, ↓reduceIte, hq, hrg]; exact h.1
  | [], _ :: _, h => h.elim
  | _ :: _, [], h => h.elim

theorem agree_append {α β : Type} {R : α → β → Prop} : ∀ (as : List α) (bs : List β) (a : α) (b : β),
    AgreeList R as bs → R a b → AgreeList R (as ++ [a]) (bs ++ [b])
  | [], [], _, _, _, h => ⟨h, trivial⟩
  | _ :: as, _ :: bs, a, b, h, hab => ⟨h.1, agree_append as bs a b h.2 hab⟩
  | [], _ :: _, _, _, h, _ => h.elim
  | _ :: _, [], _, _, h, _ => h.elim

theorem agree_insert (acc : List (Nat × Bytes)) (accS : List Spec.At4.GroupName) (g : Nat) (name : Bytes)
    (r : Spec.At4.GroupName) (h : AgreeList AgreeGroupName acc accS) (hr : AgreeGroupName (g, name) r) :
    AgreeList AgreeGroupName (dictInsert acc g name) (collapseInsert accS r) := by
  unfold dictInsert collapseInsert
  rw [agree_any g r.group hr.1 acc accS h]
  split
  · exact agree_map g name r hr acc accS h
  · exact agree_append acc accS _ _ h hr

theorem decGroups_agrees : ∀ (n : Nat) (buf : Bytes) (fuel : Nat) (acc : List (Nat × Bytes))
    (accS : List Spec.At4.GroupName) (d : List (Nat × Bytes)) (rest : Bytes),
    buf.length = 9 * n → buf.length ≤ fuel → FF12.decGroups n buf acc = .ok (d, rest) →
    AgreeList AgreeGroupName acc accS →
    ∃ recs, Spec.At4.readRecords 9 Spec.At4.readGroupNameRecord fuel buf = some recs ∧ rest = [] ∧
      AgreeList AgreeGroupName d (recs.foldl collapseInsert accS)
  | 0, buf, fuel, acc, accS, d, rest, hl, _, h, hacc => by
    have hb : buf = [] := List.eq_nil_of_length_eq_zero (by omega)
    subst hb
    simp only [FF12.decGroups] at h
    injection h with h; injection h with h1 h2
    subst h1 h2
    exact ⟨[], by cases fuel <;> rfl, rfl, hacc⟩
  | n + 1, buf, fuel, acc, accS, d, rest, hl, hf, h, hacc => by
    match buf, hl, hf, h with
    | [], hl, _, _ => simp at hl
    | g :: tl, hl, hf, h =>
      simp only [FF12.decGroups, X1FFF12GroupNames.GROUP_NAME_LENGTH] at h
      split at h
      · cases h
      · rename_i name hname
        simp only [List.length_cons] at hl hf
        obtain ⟨f, rfl⟩ : ∃ f, fuel = f + 1 := ⟨fuel - 1, by omega⟩
        have htake : (tl.take 8).length = 8 := by simp only [List.length_take]; omega
        have hrec : Spec.At4.readGroupNameRecord (g :: tl.take 8) =
            some { group := g, name := Spec.At4.untilNul (tl.take 8) } := by
          simp [Spec.At4.readGroupNameRecord, htake]
        have hnm : name = cStringPrefix (tl.take 8) := by
          simp only [decodeCString] at hname
          split at hname
          · injection hname with hname; exact hname.symm
          · cases hname
        obtain ⟨recs, hrecs, hrest, hag⟩ := decGroups_agrees n (tl.drop 8) f
          (dictInsert acc g name) (collapseInsert accS ⟨g, Spec.At4.untilNul (tl.take 8)⟩) d rest
          (by simp only [List.length_drop]; omega) (by simp only [List.length_drop]; omega) h
          (agree_insert acc accS g name _ hacc ⟨rfl, by rw [hnm, untilNul_eq]⟩)
        refine ⟨_ :: recs, ?_, hrest, by simpa only [List.foldl_cons] using hag⟩
        rw [readRecords_step _ _ _ _ (by simp) (by simp only [List.length_cons]; omega)]
        simp only [List.take_succ_cons, List.drop_succ_cons, hrec, hrecs]

/-- **0xFF12.**  Every payload `b` the decoder accepts as a group names message, fully consumed, when called as
the receive path calls it (announced sub-message length = payload length; without it see
`decode_agrees_FF12_short_refuted`): the vendor reading of `FF 12 b` exists and agrees entry by entry, after the
mapping semantics when a group number is repeated. -/
theorem decode_agrees_FF12 (b : Bytes) (msgLen : Nat) (hb : AllBytes b) (hlen : msgLen = b.length)
    (m : FF12.GroupNamesMessage) (h : FF12.decode b msgLen = .ok (.message m, [])) :
    ∃ recs, Spec.At4.readGroupNames ([0xFF, 0x12] ++ b) = some recs ∧ AgreeGroupNames m.group_names recs := by
  subst hlen
  simp only [FF12.decode] at h
  split at h
  · cases h
  · split at h
    · split at h <;> cases h
    · split at h
      · cases h
      · rename_i h0 h1 hmod
        split at h
        · cases h
        · rename_i d rest hdec
          injection h with h; injection h with hm hr
          injection hm with hm
          subst hm hr
          simp only [X1FFF12GroupNames.GROUP_NAME_LENGTH, X1FFF12GroupNames.PER_GROUP_SIZE] at hmod hdec
          obtain ⟨recs, hrecs, _, hag⟩ := decGroups_agrees (b.length / 9) b b.length [] [] d _
            (by omega) (Nat.le_refl _) hdec trivial
          have hall : Spec.At4.allBytes (0xFF :: 0x12 :: b) = true :=
            allBytes_of _ (fun x hx => by
              rcases List.mem_cons.mp hx with rfl | hx
              · decide
              · rcases List.mem_cons.mp hx with rfl | hx
                · decide
                · exact hb x hx)
          refine ⟨recs, ?_, ?_⟩
          · simp only [Spec.At4.readGroupNames, List.cons_append, List.nil_append, hall, Bool.not_true,
              Bool.false_eq_true, ↓reduceIte, Spec.At4.extPrefix, Spec.At4.extGroupName, and_self, hrecs]
          · by_cases hnd : (recs.map (·.group)).Nodup
            · left; rw [← collapse_nodup recs hnd]; exact hag
            · right; exact ⟨hnd, hag⟩

/-- why `msgLen = b.length` is needed: a header announcing 9 bytes over a 1-byte payload is decoded (the
name slice is simply short); the vendor reader refuses the incomplete record.  The receive path never does this. -/
theorem decode_agrees_FF12_short_refuted :
    FF12.decode [5] 9 = .ok (.message ⟨[(5, [])]⟩, []) ∧ Spec.At4.readGroupNames [0xFF, 0x12, 5] = none := by
  constructor <;> rfl

/-- the request forms (`FF 12`, `FF 12 n`) are not a response for the vendor reader (zero records / `none`) -/
theorem request_form_FF12 (b : Bytes) (msgLen : Nat) (hb : AllBytes b) (r : FF12.GroupNamesRequest)
    (h : FF12.decode b msgLen = .ok (.request r, [])) :
    Spec.At4.readGroupNames ([0xFF, 0x12] ++ b) = some [] ∨ Spec.At4.readGroupNames ([0xFF, 0x12] ++ b) = none := by
  simp only [FF12.decode] at h
  split at h
  · injection h with h; injection h with _ h2
    subst h2
    left; decide
  · split at h
    · split at h
      · cases h
      · rename_i g tl
        injection h with h; injection h with _ h2
        subst h2
        right
        have hg : g < 256 := hb g (by simp)
        simp [Spec.At4.readGroupNames, Spec.At4.readRecords, Spec.At4.allBytes, hg, Spec.At4.extPrefix,
          Spec.At4.extGroupName]
    · split at h
      · cases h
      · split at h
        · cases h
        · injection h with h; injection h with h1 _
          cases h1

/-! ## 0x1F / 0xFF10 AC error information -/

/-- `specmap.ff10`: `None` = no error = the empty string; a text = its UTF-8 bytes -/
def AgreeAcError (m : FF10.AcErrorInformationMessage) (s : Spec.At4.AcError) : Prop :=
  s.ac = m.ac_number ∧ s.errorInfo = m.error_info.getD []

theorem allBytes_ext (x y : Nat) (hx : x < 256) (hy : y < 256) (b : Bytes) (hb : AllBytes b) :
    Spec.At4.allBytes (x :: y :: b) = true :=
  allBytes_of _ (fun z hz => by
    rcases List.mem_cons.mp hz with rfl | hz
    · exact hx
    · rcases List.mem_cons.mp hz with rfl | hz
      · exact hy
      · exact hb z hz)

/-- **0xFF10.**  ADDED HYPOTHESIS `hlenbyte`: the length byte (vendor Byte4) does not exceed the bytes that
follow it.  Without it the statement is false (`decode_agrees_FF10_refuted`): the decoder slices
`buffer[2 : 2 + n]` and accepts a short slice, the vendor reader requires exactly `n` bytes.  With it, every
payload the decoder accepts as an error information message, fully consumed, whatever the announced length, is
read by the vendor reader as the same AC number and the same text. -/
theorem decode_agrees_FF10 (b : Bytes) (msgLen : Nat) (hb : AllBytes b)
    (hlenbyte : ∀ ac n body, b = ac :: n :: body → n ≤ body.length)
    (m : FF10.AcErrorInformationMessage) (h : FF10.decode b msgLen = .ok (.message m, [])) :
    ∃ s, Spec.At4.readAcError ([0xFF, 0x10] ++ b) = some s ∧ AgreeAcError m s := by
  simp only [FF10.decode] at h
  split at h
  · cases h
  · rename_i ac tl
    split at h
    · injection h with h; injection h with h1 _; cases h1
    · split at h
      · cases h
      · rename_i n body
        have hle := hlenbyte ac n body rfl
        have hall := allBytes_ext 0xFF 0x10 (by decide) (by decide) _ hb
        split at h
        · rename_i hn
          split at h
          · injection h with h; injection h with hm hr
            injection hm with hm
            subst hm
            have hlen : body.length = n := by
              have := congrArg List.length hr
              simp only [List.length_drop, List.length_nil] at this
              omega
            refine ⟨⟨ac, body⟩, ?_, rfl, ?_⟩
            · simp only [Spec.At4.readAcError, List.cons_append, List.nil_append, hall, Bool.not_true,
                Bool.false_eq_true, ↓reduceIte, Spec.At4.extPrefix, Spec.At4.extAcError, hlen, and_self]
            · simp only [Option.getD_some]
              rw [← hlen, List.take_length]
          · cases h
        · rename_i hn
          injection h with h; injection h with hm hr
          injection hm with hm
          subst hm hr
          have hn0 : n = 0 := by omega
          subst hn0
          refine ⟨⟨ac, []⟩, ?_, rfl, rfl⟩
          simp only [Spec.At4.readAcError, List.cons_append, List.nil_append, hall, Bool.not_true,
            Bool.false_eq_true, ↓reduceIte, Spec.At4.extPrefix, Spec.At4.extAcError, List.length_nil, and_self]

/-- the guide's unconditional statement is FALSE for 0xFF10: payload `01 01` (AC 1, length byte 1, no text
byte), announced length 2 = payload length.  Decoder: `AcErrorInformationMessage(ac_number=1, error_info="")`,
nothing left over; vendor reader of `FF 10 01 01`: not a message. -/
theorem decode_agrees_FF10_refuted :
    FF10.decode [1, 1] 2 = .ok (.message ⟨1, some []⟩, []) ∧ Spec.At4.readAcError [0xFF, 0x10, 1, 1] = none := by
  constructor <;> rfl

/-- the request form (`FF 10 n`) is not a response for the vendor reader -/
theorem request_form_FF10 (b : Bytes) (msgLen : Nat) (r : FF10.AcErrorInformationRequest)
    (h : FF10.decode b msgLen = .ok (.request r, [])) : Spec.At4.readAcError ([0xFF, 0x10] ++ b) = none := by
  simp only [FF10.decode] at h
  split at h
  · cases h
  · rename_i ac tl
    split at h
    · injection h with h; injection h with _ h2
      subst h2
      simp [Spec.At4.readAcError]
    · split at h
      · cases h
      · split at h
        · split at h
          · injection h with h; injection h with h1 _; cases h1
          · cases h
        · injection h with h; injection h with h1 _; cases h1

/-! ## 0x1F / 0xFF30 console version -/

theorem model_splitOn_ne_nil (sep : Nat) : ∀ bs : Bytes, Model.splitOn sep bs ≠ []
  | [] => by simp [Model.splitOn]
  | b :: bs => by
    simp only [Model.splitOn]
    split
    · simp
    · split <;> simp

/-- the two independently written `split` functions agree -/
theorem splitOn_eq (sep : Nat) : ∀ bs : Bytes, Spec.At4.splitOn sep bs = Model.splitOn sep bs
  | [] => rfl
  | b :: bs => by
    simp only [Spec.At4.splitOn, Model.splitOn, splitOn_eq sep bs]
    cases hs : Model.splitOn sep bs with
    | nil => exact absurd hs (model_splitOn_ne_nil sep bs)
    | cons p ps => by_cases hc : b = sep <;> simp [hc]

/-- `specmap.ff30`: `update_available` and the versions (texts = their UTF-8 bytes); `update_sign` is omitted -/
def AgreeConsoleVersion (m : FF30.ConsoleVersionMessage) (s : Spec.At4.ConsoleVersion) : Prop :=
  s.updateAvailable = m.update_available ∧ s.versions = m.versions

/-- **0xFF30.**  ADDED HYPOTHESIS `hlenbyte` as for 0xFF10 (the length byte does not exceed the bytes that
follow it; without it: `decode_agrees_FF30_refuted`).  With it, every payload the decoder accepts as a console
version message, fully consumed, whatever the (non-zero) announced length, is read by the vendor reader with the
same update flag and the same list of versions. -/
theorem decode_agrees_FF30 (b : Bytes) (msgLen : Nat) (hb : AllBytes b)
    (hlenbyte : ∀ u n body, b = u :: n :: body → n ≤ body.length)
    (m : FF30.ConsoleVersionMessage) (h : FF30.decode b msgLen = .ok (.message m, [])) :
    ∃ s, Spec.At4.readConsoleVersion ([0xFF, 0x30] ++ b) = some s ∧ AgreeConsoleVersion m s := by
  simp only [FF30.decode] at h
  split at h
  · injection h with h; injection h with h1 _; cases h1
  · split at h
    · cases h
    · cases h
    · rename_i u n body
      have hle := hlenbyte u n body rfl
      have hall := allBytes_ext 0xFF 0x30 (by decide) (by decide) _ hb
      split at h
      · injection h with h; injection h with hm hr
        injection hm with hm
        subst hm
        have hlen : body.length = n := by
          have := congrArg List.length hr
          simp only [List.length_drop, List.length_nil] at this
          omega
        refine ⟨⟨u, Spec.At4.splitOn 0x7c body⟩, ?_, ?_, ?_⟩
        · simp only [Spec.At4.readConsoleVersion, List.cons_append, List.nil_append, hall, Bool.not_true,
            Bool.false_eq_true, ↓reduceIte, Spec.At4.extPrefix, Spec.At4.extConsoleVersion, hlen, and_self]
        · simp only [Spec.At4.ConsoleVersion.updateAvailable]
          by_cases hu : u = 0 <;> simp [hu]
        · simp only [splitOn_eq, FF30.sepByte]
          rw [← hlen, List.take_length]
      · cases h

/-- the guide's unconditional statement is FALSE for 0xFF30: payload `00 05` (no update, length byte 5, no
text), announced length 2 = payload length.  Decoder: `ConsoleVersionMessage(False, [""])`, nothing left over;
vendor reader of `FF 30 00 05`: not a message. -/
theorem decode_agrees_FF30_refuted :
    FF30.decode [0, 5] 2 = .ok (.message ⟨false, [[]]⟩, []) ∧
      Spec.At4.readConsoleVersion [0xFF, 0x30, 0, 5] = none := by
  constructor <;> rfl

/-- the request form (`FF 30`) is not a response for the vendor reader -/
theorem request_form_FF30 (b : Bytes) (msgLen : Nat)
    (h : FF30.decode b msgLen = .ok (.request, [])) : Spec.At4.readConsoleVersion ([0xFF, 0x30] ++ b) = none := by
  simp only [FF30.decode] at h
  split at h
  · injection h with h; injection h with _ h2
    subst h2
    rfl
  · split at h
    · cases h
    · cases h
    · split at h
      · injection h with h; injection h with h1 _; cases h1
      · cases h

/-! ## 0x1F / 0xFF11 AC ability -/

open PyAirtouch.Gen.At4.X2CAcCtrl (AcModeControl AcFanSpeedControl)

theorem groupDisplay_eq (d1 d2 : Nat) (h1 : d1 < 256) :
    (List.range 16).map (fun n => decide (n ∈ FF11.decGroupDisplay (d1 + 256 * d2))) =
      Spec.At4.bitsLowFirst d1 ++ Spec.At4.bitsLowFirst d2 := by
  have hr : List.range 16 = [0,1,2,3,4,5,6,7,8,9,10,11,12,13,14,15] := by decide
  simp only [FF11.decGroupDisplay, X1FFF11AcAbility.MAX_GROUP_NUMBER, List.mem_filter,
    Spec.At4.bitsLowFirst, hr, List.map_cons, List.map_nil, List.cons_append, List.nil_append,
    bit_eq _ _ (by decide : 0 < 1), bit_eq _ _ (by decide : 0 < 2), bit_eq _ _ (by decide : 0 < 3),
    bit_eq _ _ (by decide : 0 < 4), bit_eq _ _ (by decide : 0 < 5), bit_eq _ _ (by decide : 0 < 6),
    bit_eq _ _ (by decide : 0 < 7), bit_eq _ _ (by decide : 0 < 8)]
  simp only [bitToBool]
  simp
  omega

theorem decGroupDisplay_le (enc g : Nat) (h : g ∈ FF11.decGroupDisplay enc) : g ≤ 15 := by
  simp only [FF11.decGroupDisplay, X1FFF11AcAbility.MAX_GROUP_NUMBER, List.mem_filter, List.mem_range] at h
  omega

/-- `specmap.at4_FF11`: every field but `following_length` and `extra` (omitted: not part of `AcAbility`).
Support mappings are read by key, as `specmap._support` does; `groups` (package group n = the document's
"Group n+1") against the 16 display flags. -/
def AgreeAcAbility (m : FF11.AcAbility) (s : Spec.At4.AcAbility) : Prop :=
  s.ac = m.ac_number ∧ s.name = m.ac_name ∧ s.startGroup = m.start_group ∧ s.groupCount = m.group_count ∧
  (m.ac_mode_support.lookup .COOL = some s.modeCool ∧ m.ac_mode_support.lookup .FAN = some s.modeFan ∧
    m.ac_mode_support.lookup .DRY = some s.modeDry ∧ m.ac_mode_support.lookup .HEAT = some s.modeHeat ∧
    m.ac_mode_support.lookup .AUTO = some s.modeAuto) ∧
  (m.fan_speed_support.lookup .TURBO = some s.fanTurbo ∧ m.fan_speed_support.lookup .POWERFUL = some s.fanPowerful ∧
    m.fan_speed_support.lookup .HIGH = some s.fanHigh ∧ m.fan_speed_support.lookup .MEDIUM = some s.fanMedium ∧
    m.fan_speed_support.lookup .LOW = some s.fanLow ∧ m.fan_speed_support.lookup .QUIET = some s.fanQuiet ∧
    m.fan_speed_support.lookup .AUTO = some s.fanAuto) ∧
  s.minSetpoint = (m.min_set_point : Int) * 10 ∧ s.maxSetpoint = (m.max_set_point : Int) * 10 ∧
  (match m.groups with
    | none => s.groupDisplay = none
    | some gs => (∀ g ∈ gs, g ≤ 15) ∧
        s.groupDisplay = some ((List.range 16).map fun n => decide (n ∈ gs)))

theorem decGroups_lt (fl : Nat) (after : Bytes) (h : fl < 24) : FF11.decGroups fl after = .ok none := by
  unfold FF11.decGroups
  have hw : FF11.followingWithGroups = 24 := rfl
  rw [if_neg (show ¬ FF11.followingWithGroups ≤ fl by omega)]

theorem decGroups_ge (fl lo hi : Nat) (tl : Bytes) (h : 24 ≤ fl) :
    FF11.decGroups fl (lo :: hi :: tl) = .ok (some (FF11.decGroupDisplay (lo + 256 * hi))) := by
  have hw : FF11.followingWithGroups = 24 := rfl
  unfold FF11.decGroups
  rw [if_pos (show FF11.followingWithGroups ≤ fl by omega)]

theorem decGroups_ge_shape (fl : Nat) (after : Bytes) (g : Option (List Nat)) (h : 24 ≤ fl)
    (hg : FF11.decGroups fl after = .ok g) : ∃ lo hi tl, after = lo :: hi :: tl := by
  have hw : FF11.followingWithGroups = 24 := rfl
  unfold FF11.decGroups at hg
  rw [if_pos (show FF11.followingWithGroups ≤ fl by omega)] at hg
  split at hg
  · exact ⟨_, _, _, rfl⟩
  · cases hg

/-- One iteration of the repaired loop against the vendor reader, for EVERY following length: a successful
iteration returns the following-length byte it read (the loop advances by `2 + len`), that byte is at least 22 and
the record lies inside the rest of the announced length; and when the record's bytes are there (`len ≤ r.length`)
the vendor reader reads the same record from them.  (22: no display bytes; 23: one undescribed byte, no display
bytes; 24 and more: display bytes at Byte27/28, the rest undescribed.) -/
theorem decRec_agrees_FF11 (ac len : Nat) (r : Bytes) (avail : Nat) (hb : AllBytes r)
    (a : FF11.AcAbility) (fl : Nat) (h : FF11.decRec (ac :: len :: r) avail = .ok (a, fl)) :
    fl = len ∧ 22 ≤ len ∧ 2 + len ≤ avail ∧ (len ≤ r.length →
      ∃ s, Spec.At4.readAcAbilityBody ac len (r.take len) = some s ∧ AgreeAcAbility a s) := by
  simp only [FF11.decRec, FF11.nameLen] at h
  split at h
  · rename_i sg gc b23 b24 mn mx after hdrop
    have hrl : r.length = 22 + after.length := by
      have := congrArg List.length hdrop
      simp only [List.length_drop, List.length_cons] at this
      omega
    split at h
    · cases h
    · rename_i hchk
      simp only [X1FFF11AcAbility.FOLLOWING_LENGTH_BASE] at hchk
      split at h
      · cases h
      · rename_i groups hgroups
        split at h
        · cases h
        · rename_i name hname
          injection h with h; injection h with h1 h2
          subst h1 h2
          have hnm : name = cStringPrefix (r.take 16) := by
            simp only [decodeCString] at hname
            split at hname
            · injection hname with hname; exact hname.symm
            · cases hname
          refine ⟨rfl, by omega, by omega, fun hle => ?_⟩
          obtain ⟨k, rfl⟩ : ∃ k, len = 22 + k := ⟨len - 22, by omega⟩
          have hbl : (r.take (22 + k)).length = 22 + k := by simp only [List.length_take]; omega
          have hbt : (r.take (22 + k)).take 16 = r.take 16 := by
            rw [List.take_take]; congr 1; omega
          have hc : ¬ ((r.take (22 + k)).length ≠ 22 + k ∨ 22 + k < 22) := by omega
          match k, hgroups, hle, hbl, hbt, hc with
          | 0, hgroups, hle, hbl, hbt, hc =>
            -- following length 22: no display bytes
            rw [decGroups_lt _ _ (by omega)] at hgroups
            injection hgroups with hgroups
            subst hgroups
            have hbd : (r.take (22 + 0)).drop 16 = [sg, gc, b23, b24, mn, mx] := by
              rw [List.drop_take, hdrop]; rfl
            unfold Spec.At4.readAcAbilityBody
            rw [if_neg hc]
            simp only [hbd, hbt]
            refine ⟨_, rfl, ?_⟩
            simp only [AgreeAcAbility, bit_eq _ _ (by decide : 0 < 1), bit_eq _ _ (by decide : 0 < 2),
              bit_eq _ _ (by decide : 0 < 3), bit_eq _ _ (by decide : 0 < 4), bit_eq _ _ (by decide : 0 < 5),
              bit_eq _ _ (by decide : 0 < 6), bit_eq _ _ (by decide : 0 < 7), Spec.At4.degToTenths]
            refine ⟨trivial, by rw [hnm, untilNul_eq], trivial, trivial, ⟨rfl, rfl, rfl, rfl, rfl⟩,
              ⟨rfl, rfl, rfl, rfl, rfl, rfl, rfl⟩, rfl, rfl, trivial⟩
          | 1, hgroups, hle, hbl, hbt, hc =>
            -- following length 23: one byte the document does not describe, no display bytes
            rw [decGroups_lt _ _ (by omega)] at hgroups
            injection hgroups with hgroups
            subst hgroups
            obtain ⟨x, tl, rfl⟩ : ∃ x tl, after = x :: tl := by
              cases after with
              | nil => simp only [List.length_nil] at hrl; omega
              | cons x tl => exact ⟨x, tl, rfl⟩
            have hbd : (r.take (22 + 1)).drop 16 = [sg, gc, b23, b24, mn, mx, x] := by
              rw [List.drop_take, hdrop]; rfl
            unfold Spec.At4.readAcAbilityBody
            rw [if_neg hc]
            simp only [hbd, hbt]
            refine ⟨_, rfl, ?_⟩
            simp only [AgreeAcAbility, bit_eq _ _ (by decide : 0 < 1), bit_eq _ _ (by decide : 0 < 2),
              bit_eq _ _ (by decide : 0 < 3), bit_eq _ _ (by decide : 0 < 4), bit_eq _ _ (by decide : 0 < 5),
              bit_eq _ _ (by decide : 0 < 6), bit_eq _ _ (by decide : 0 < 7), Spec.At4.degToTenths]
            refine ⟨trivial, by rw [hnm, untilNul_eq], trivial, trivial, ⟨rfl, rfl, rfl, rfl, rfl⟩,
              ⟨rfl, rfl, rfl, rfl, rfl, rfl, rfl⟩, rfl, rfl, trivial⟩
          | k + 2, hgroups, hle, hbl, hbt, hc =>
            -- following length 24 or more: two display bytes, then bytes the document does not describe
            obtain ⟨lo, hi, tl, rfl⟩ := decGroups_ge_shape _ _ _ (by omega) hgroups
            rw [decGroups_ge _ _ _ _ (by omega)] at hgroups
            injection hgroups with hgroups
            subst hgroups
            have hbd : (r.take (22 + (k + 2))).drop 16 = sg :: gc :: b23 :: b24 :: mn :: mx :: lo :: hi :: tl.take k := by
              rw [List.drop_take, hdrop, show 22 + (k + 2) - 16 = k + 8 by omega]
              simp only [List.take_succ_cons]
            have hlo : lo < 256 := by
              have : lo ∈ r.drop 16 := by rw [hdrop]; simp
              exact hb lo (List.mem_of_mem_drop this)
            unfold Spec.At4.readAcAbilityBody
            rw [if_neg hc]
            simp only [hbd, hbt]
            refine ⟨_, rfl, ?_⟩
            simp only [AgreeAcAbility, bit_eq _ _ (by decide : 0 < 1), bit_eq _ _ (by decide : 0 < 2),
              bit_eq _ _ (by decide : 0 < 3), bit_eq _ _ (by decide : 0 < 4), bit_eq _ _ (by decide : 0 < 5),
              bit_eq _ _ (by decide : 0 < 6), bit_eq _ _ (by decide : 0 < 7), Spec.At4.degToTenths]
            refine ⟨trivial, by rw [hnm, untilNul_eq], trivial, trivial, ⟨rfl, rfl, rfl, rfl, rfl⟩,
              ⟨rfl, rfl, rfl, rfl, rfl, rfl, rfl⟩, rfl, rfl, fun g hg => decGroupDisplay_le _ g hg, ?_⟩
            rw [groupDisplay_eq lo hi hlo]
  · cases h

/-- the following length the vendor reader reports is the byte it read, and the body it read has that length -/
theorem readAcAbilityBody_len (ac len : Nat) (body : List Nat) (s : Spec.At4.AcAbility)
    (h : Spec.At4.readAcAbilityBody ac len body = some s) : s.followingLength = len ∧ body.length = len := by
  simp only [Spec.At4.readAcAbilityBody] at h
  split at h
  · cases h
  · rename_i hc
    split at h
    · injection h with h; subst h; exact ⟨rfl, by omega⟩
    · cases h

theorem decLoop_agrees_FF11 (b : Bytes) (hb : AllBytes b) (msgLen offset : Nat) :
    ∀ (acs : List FF11.AcAbility), FF11.decLoop b msgLen offset = .ok (acs, msgLen) → b.drop msgLen = [] →
    ∀ (fuel : Nat) (recs : List Spec.At4.AcAbility),
      Spec.At4.readAcAbilityRecords fuel (b.drop offset) = some recs → AgreeList AgreeAcAbility acs recs := by
  fun_induction FF11.decLoop b msgLen offset with
  | case1 offset hlt e hrec => intro acs h; cases h
  | case2 offset hlt ac fl hrec e hloop ih => intro acs h; cases h
  | case3 offset hlt a fl hrec acs' off' hloop ih =>
    intro acs h hend fuel recs hspec
    injection h with h; injection h with h1 h2
    subst h1 h2
    -- the record starts with the AC number and the following length
    match hd : b.drop offset, hrec with
    | [], hrec | [_], hrec => simp [FF11.decRec] at hrec
    | ac :: len :: r, hrec =>
      rw [hd] at hspec
      match fuel, hspec with
      | 0, hspec => simp [Spec.At4.readAcAbilityRecords] at hspec
      | fuel + 1, hspec =>
        simp only [Spec.At4.readAcAbilityRecords] at hspec
        split at hspec
        · rename_i s rs hs hrs
          injection hspec with hspec
          subst hspec
          have hle : len ≤ r.length := by
            have := (readAcAbilityBody_len ac len _ s hs).2
            simp only [List.length_take] at this
            omega
          have hr : AllBytes r := fun x hx => hb x (List.mem_of_mem_drop (by rw [hd]; simp [hx]))
          obtain ⟨hfl, _, _, hex⟩ := decRec_agrees_FF11 ac len r _ hr a fl hrec
          obtain ⟨s', hs', hag⟩ := hex hle
          subst hfl
          have hss : s' = s := Option.some.inj (hs'.symm.trans hs)
          subst hss
          refine ⟨hag, ih acs' hloop hend fuel rs ?_⟩
          have : b.drop (offset + (2 + fl)) = r.drop fl := by
            rw [← List.drop_drop, hd]
            simp [← List.drop_drop]
          rw [this]; exact hrs
        · cases hspec
  | case4 offset hnlt =>
    intro acs h hend fuel recs hspec
    injection h with h; injection h with h1 h2
    subst h1 h2
    rw [hend] at hspec
    have : recs = [] := by cases fuel <;> simp [Spec.At4.readAcAbilityRecords] at hspec <;> exact hspec
    subst this
    trivial

theorem decode_FF11_inv (b : Bytes) (msgLen : Nat) (acs : List FF11.AcAbility)
    (h : FF11.decode b msgLen = .ok (.ability acs, [])) :
    FF11.decLoop b msgLen 0 = .ok (acs, msgLen) ∧ b.drop msgLen = [] := by
  simp only [FF11.decode] at h
  split at h
  · injection h with h; injection h with h1 _; cases h1
  · split at h
    · split at h
      · cases h
      · injection h with h; injection h with h1 _; cases h1
    · split at h
      · cases h
      · rename_i acs' off hloop
        split at h
        · cases h
        · rename_i hoff
          have hoff : off = msgLen := by simpa using hoff
          subst hoff
          injection h with h; injection h with h1 h2
          injection h1 with h1
          subst h1
          exact ⟨hloop, h2⟩

theorem readAcAbility_ext (b : Bytes) (hb : AllBytes b) :
    Spec.At4.readAcAbility ([0xFF, 0x11] ++ b) = Spec.At4.readAcAbilityRecords b.length b := by
  have hall := allBytes_ext 0xFF 0x11 (by decide) (by decide) _ hb
  simp only [Spec.At4.readAcAbility, List.cons_append, List.nil_append, hall, Bool.not_true,
    Bool.false_eq_true, ↓reduceIte, Spec.At4.extPrefix, Spec.At4.extAcAbility, and_self]

/-- **0xFF11.**  For EVERY following length (the decoder advances by the "following length" byte, as the vendor
reader does; formerly a recorded defect kept out by a hypothesis on the lengths): every payload the decoder accepts
as an AC ability message, fully consumed, whatever the announced length, has as many ACs as the vendor reading and
agrees with it AC by AC.  (That the vendor reading exists is proved in `decode_agrees_FF11_strong`.) -/
theorem decode_agrees_FF11 (b : Bytes) (msgLen : Nat) (hb : AllBytes b) (acs : List FF11.AcAbility)
    (h : FF11.decode b msgLen = .ok (.ability acs, []))
    (recs : List Spec.At4.AcAbility) (hspec : Spec.At4.readAcAbility ([0xFF, 0x11] ++ b) = some recs) :
    AgreeList AgreeAcAbility acs recs := by
  obtain ⟨hloop, hend⟩ := decode_FF11_inv b msgLen acs h
  rw [readAcAbility_ext b hb] at hspec
  exact decLoop_agrees_FF11 b hb msgLen 0 acs hloop hend b.length recs (by simpa using hspec)

theorem decLoop_reads_FF11 (b : Bytes) (hb : AllBytes b) (msgLen offset : Nat) :
    ∀ (acs : List FF11.AcAbility), FF11.decLoop b msgLen offset = .ok (acs, msgLen) → b.drop msgLen = [] →
    msgLen ≤ b.length →
    ∀ (fuel : Nat), (b.drop offset).length ≤ fuel →
      ∃ recs, Spec.At4.readAcAbilityRecords fuel (b.drop offset) = some recs := by
  fun_induction FF11.decLoop b msgLen offset with
  | case1 offset hlt e hrec => intro acs h; cases h
  | case2 offset hlt ac fl hrec e hloop ih => intro acs h; cases h
  | case3 offset hlt a fl hrec acs' off' hloop ih =>
    intro acs h hend hlen fuel hfuel
    injection h with h; injection h with h1 h2
    subst h1 h2
    match hd : b.drop offset, hrec with
    | [], hrec | [_], hrec => simp [FF11.decRec] at hrec
    | ac :: len :: r, hrec =>
      have hdl : b.length - offset = r.length + 2 := by
        have := congrArg List.length hd
        simpa only [List.length_drop, List.length_cons] using this
      rw [hd] at hfuel
      simp only [List.length_cons] at hfuel
      obtain ⟨f, rfl⟩ : ∃ f, fuel = f + 1 := ⟨fuel - 1, by omega⟩
      have hr : AllBytes r := fun x hx => hb x (List.mem_of_mem_drop (by rw [hd]; simp [hx]))
      obtain ⟨hfl, _, hfit, hex⟩ := decRec_agrees_FF11 ac len r _ hr a fl hrec
      subst hfl
      obtain ⟨s, hs, _⟩ := hex (by omega)
      have hnext : b.drop (offset + (2 + fl)) = r.drop fl := by
        rw [← List.drop_drop, hd]
        simp [← List.drop_drop]
      obtain ⟨rs, hrs⟩ := ih acs' hloop hend hlen f
        (by rw [hnext]; simp only [List.length_drop]; omega)
      rw [hnext] at hrs
      exact ⟨s :: rs, by simp only [Spec.At4.readAcAbilityRecords, hs, hrs]⟩
  | case4 offset hnlt =>
    intro acs h hend _ fuel _
    injection h with h; injection h with h1 h2
    subst h1 h2
    rw [hend]
    exact ⟨[], by cases fuel <;> rfl⟩

/-- **0xFF11, with the vendor reading proved to exist.**  The only hypothesis is what the receive path
guarantees: the bytes announced are there (`msgLen ≤ b.length`; the frame layer hands the decoder exactly
`message_length` bytes).  Then every payload the decoder accepts as an AC ability message, fully consumed, IS an
ability message for the vendor reader, with as many ACs, agreeing AC by AC - whatever the following lengths.
Without the hypothesis: `decode_agrees_FF11_needs_length`. -/
theorem decode_agrees_FF11_strong (b : Bytes) (msgLen : Nat) (hb : AllBytes b) (acs : List FF11.AcAbility)
    (h : FF11.decode b msgLen = .ok (.ability acs, []))
    (hlen : msgLen ≤ b.length) :
    ∃ recs, Spec.At4.readAcAbility ([0xFF, 0x11] ++ b) = some recs ∧ AgreeList AgreeAcAbility acs recs := by
  obtain ⟨hloop, hend⟩ := decode_FF11_inv b msgLen acs h
  obtain ⟨recs, hrecs⟩ := decLoop_reads_FF11 b hb msgLen 0 acs hloop hend hlen b.length (by simp)
  have hrecs' : Spec.At4.readAcAbilityRecords b.length b = some recs := by simpa using hrecs
  refine ⟨recs, by rw [readAcAbility_ext b hb, hrecs'], ?_⟩
  exact decLoop_agrees_FF11 b hb msgLen 0 acs hloop hend b.length recs hrecs

/-- if the vendor reader reads what the loop walked, the bytes the loop walked (and skipped) are all there -/
theorem decLoop_spec_length_FF11 (b : Bytes) (hb : AllBytes b) (msgLen offset : Nat) :
    ∀ (acs : List FF11.AcAbility), FF11.decLoop b msgLen offset = .ok (acs, msgLen) →
    ∀ (fuel : Nat) (recs : List Spec.At4.AcAbility),
      Spec.At4.readAcAbilityRecords fuel (b.drop offset) = some recs → offset < msgLen → msgLen ≤ b.length := by
  fun_induction FF11.decLoop b msgLen offset with
  | case1 offset hlt e hrec => intro acs h; cases h
  | case2 offset hlt ac fl hrec e hloop ih => intro acs h; cases h
  | case3 offset hlt a fl hrec acs' off' hloop ih =>
    intro acs h fuel recs hspec _
    injection h with h; injection h with h1 h2
    subst h1 h2
    match hd : b.drop offset, hrec with
    | [], hrec | [_], hrec => simp [FF11.decRec] at hrec
    | ac :: len :: r, hrec =>
      have hdl : b.length - offset = r.length + 2 := by
        have := congrArg List.length hd
        simpa only [List.length_drop, List.length_cons] using this
      rw [hd] at hspec
      match fuel, hspec with
      | 0, hspec => simp [Spec.At4.readAcAbilityRecords] at hspec
      | fuel + 1, hspec =>
        simp only [Spec.At4.readAcAbilityRecords] at hspec
        split at hspec
        · rename_i s rs hs hrs
          have hle : len ≤ r.length := by
            have := (readAcAbilityBody_len ac len _ s hs).2
            simp only [List.length_take] at this
            omega
          have hr : AllBytes r := fun x hx => hb x (List.mem_of_mem_drop (by rw [hd]; simp [hx]))
          obtain ⟨hfl, _, hfit, _⟩ := decRec_agrees_FF11 ac len r _ hr a fl hrec
          subst hfl
          by_cases hc : offset + (2 + fl) < off'
          · have hnext : b.drop (offset + (2 + fl)) = r.drop fl := by
              rw [← List.drop_drop, hd]
              simp [← List.drop_drop]
            exact ih acs' hloop fuel rs (by rw [hnext]; exact hrs) hc
          · omega
        · cases hspec
  | case4 offset hnlt => intro acs h fuel recs hspec hlt; exact absurd hlt hnlt

/-- **The exact condition** under which the vendor reader reads a payload the decoder accepts as an ability
message (nothing left over): the announced bytes are there.  (On the receive path they always are.) -/
theorem decode_FF11_vendor_reads_iff (b : Bytes) (msgLen : Nat) (hb : AllBytes b) (acs : List FF11.AcAbility)
    (h : FF11.decode b msgLen = .ok (.ability acs, [])) :
    (∃ recs, Spec.At4.readAcAbility ([0xFF, 0x11] ++ b) = some recs) ↔ msgLen ≤ b.length := by
  constructor
  · rintro ⟨recs, hspec⟩
    obtain ⟨hloop, hend⟩ := decode_FF11_inv b msgLen acs h
    rw [readAcAbility_ext b hb] at hspec
    have hpos : 0 < msgLen := by
      simp only [FF11.decode] at h
      split at h
      · injection h with h; injection h with h1 _; cases h1
      · omega
    exact decLoop_spec_length_FF11 b hb msgLen 0 acs hloop b.length recs (by simpa using hspec) hpos
  · intro hlen
    obtain ⟨recs, hrecs, _⟩ := decode_agrees_FF11_strong b msgLen hb acs h hlen
    exact ⟨recs, hrecs⟩

/-- one AC (number 0) with following length 46: the 22 described bytes ("UNIT", groups 0-3, 17-31 °C), display
bytes `05 80` (groups 1, 3, 16), and 22 bytes a future console might append -/
def ff11LongRecord : Bytes :=
  [0, 46, 0x55, 0x4e, 0x49, 0x54, 0, 0, 0, 0, 0, 0, 0, 0, 0, 0, 0, 0, 0x00, 0x04, 0x17, 0x1d, 0x11, 0x1f, 0x05, 0x80] ++
    List.replicate 22 0xEE

def isOneAbilityWithGroups (gs : List Nat) : Except DecErr (FF11.Msg × Bytes) → Bool
  | .ok (.ability [a], []) => a.groups == some gs
  | _ => false

/-- the repaired defect, concretely: for the 48-byte payload `00 2e …` the vendor reader sees ONE AC whose following
length is 46, and so does the decoder (it used to return TWO, the second made of the undocumented tail). -/
theorem decode_FF11_long_record :
    isOneAbilityWithGroups [0, 2, 15] (FF11.decode ff11LongRecord 48) = true ∧
    (Spec.At4.readAcAbility ([0xFF, 0x11] ++ ff11LongRecord)).map (·.map (·.followingLength)) = some [46] := by
  constructor <;> decide +kernel

/-- The length hypothesis of `decode_agrees_FF11_strong` cannot be dropped: the decoder never looks at the bytes it
skips, so with an announced length of 48 it accepts the first 26 bytes of `ff11LongRecord` (nothing left over);
the vendor reader refuses a record whose 46 following bytes are not there.  Not reachable through the receive
path, which reads exactly `message_length` bytes. -/
theorem decode_agrees_FF11_needs_length :
    isOneAbilityWithGroups [0, 2, 15] (FF11.decode (ff11LongRecord.take 26) 48) = true ∧
    Spec.At4.readAcAbility ([0xFF, 0x11] ++ ff11LongRecord.take 26) = none := by
  constructor <;> decide +kernel

/-- the request forms (`FF 11`, `FF 11 n`) are not a response for the vendor reader (zero records / `none`) -/
theorem request_form_FF11 (b : Bytes) (msgLen : Nat) (hb : AllBytes b) (r : Option Nat)
    (h : FF11.decode b msgLen = .ok (.request r, [])) :
    Spec.At4.readAcAbility ([0xFF, 0x11] ++ b) = some [] ∨ Spec.At4.readAcAbility ([0xFF, 0x11] ++ b) = none := by
  simp only [FF11.decode] at h
  split at h
  · injection h with h; injection h with _ h2
    subst h2
    left; decide
  · split at h
    · split at h
      · cases h
      · rename_i g tl
        injection h with h; injection h with _ h2
        subst h2
        right
        rw [readAcAbility_ext _ hb]
        rfl
    · split at h
      · cases h
      · split at h
        · cases h
        · injection h with h; injection h with h1 _; cases h1

end PyAirtouch.Lemmas.SpecAgree4
