import PyAirtouch.Model.At4.X2B
/-! Round trip and length lemmas for the AirTouch 4 group status codec (exemplar for the other modules). -/
namespace PyAirtouch.Lemmas.At4X2B
open PyAirtouch.Model PyAirtouch.Model.At4.X2B PyAirtouch.Gen.At4.X2BGroupStatus

theorem encRec_length (g : GroupStatusData) : (encRec g).length = recSize := by
  simp [encRec, be16Bytes, recSize, STRUCT_size]

theorem encode_length (m : Msg) : (encode m).length = size m := by
  cases m with
  | request => rfl
  | status gs =>
    simp only [encode, size]
    induction gs with
    | nil => simp
    | cons g gs ih => simp [List.flatMap_cons, encRec_length, ih, Nat.mul_add, Nat.add_comm]

theorem decRec_encRec (g : GroupStatusData) (h : WFRec g) (rest : Bytes) :
    decRec (encRec g ++ rest) = .ok (g, rest) := by
  obtain ⟨hg, hd, hs, hns, ht⟩ := h
  rcases g with ⟨gn, ps, cm, spill, turbo, sensor, bat, temp, damper, sp⟩
  simp only at hg hd hs hns ht
  have hps : ps.toNat < 4 := by cases ps <;> decide
  have hcm : cm.toNat < 2 := by cases cm <;> decide
  have hbat : bat.toNat < 2 := by cases bat <;> decide
  have hps' : GroupPowerState.ofNat? ps.toNat = some ps := by cases ps <;> rfl
  have hcm' : GroupControlMethod.ofNat? cm.toNat = some cm := by cases cm <;> rfl
  have hbat' : SensorBatteryStatus.ofNat? bat.toNat = some bat := by cases bat <;> rfl
  -- the set-point byte and the temperature word, by cases on the sensor flag
  cases sensor with
  | false =>
    obtain ⟨hsp, htemp⟩ := hns rfl
    subst hsp htemp
    simp only [encRec, encSetPoint, encTemp, be16Bytes, boolToBit, INVALID_SETPOINT, TEMP_UNAVAILABLE,
      List.cons_append, List.nil_append, decRec, be16, bitToBool, decTemp]
    have e1 : (ps.toNat * 64 + gn % 64) / 64 % 4 = ps.toNat := by omega
    have e2 : (cm.toNat * 128 + damper % 128) / 128 % 2 = cm.toNat := by omega
    have e3 : (bat.toNat * 128 + (if turbo = true then 2 ^ 6 else 0) + 0) / 128 % 2 = bat.toNat := by
      cases turbo <;> simp <;> omega
    rw [e1, e2, e3, hps', hcm', hbat']
    cases turbo <;> cases spill <;> simp <;> omega
  | true =>
    obtain ⟨spv, hsp, hspv⟩ := hs rfl
    subst hsp
    cases temp with
    | none =>
      simp only [encRec, encSetPoint, encTemp, be16Bytes, boolToBit, TEMP_UNAVAILABLE,
        List.cons_append, List.nil_append, decRec, be16, bitToBool, decTemp]
      have e1 : (ps.toNat * 64 + gn % 64) / 64 % 4 = ps.toNat := by omega
      have e2 : (cm.toNat * 128 + damper % 128) / 128 % 2 = cm.toNat := by omega
      have e3 : (bat.toNat * 128 + (if turbo = true then 2 ^ 6 else 0) + spv % 64) / 128 % 2 = bat.toNat := by
        cases turbo <;> simp <;> omega
      rw [e1, e2, e3, hps', hcm', hbat']
      cases turbo <;> cases spill <;> simp <;> omega
    | some t =>
      obtain ⟨ht1, ht2⟩ := ht t rfl
      obtain ⟨r, hr⟩ : ∃ r : Nat, t + 500 = (r : Int) := ⟨(t + 500).toNat, by omega⟩
      have hr1 : r < 2040 := by omega
      have htn : (t + 500).toNat = r := by omega
      simp only [encRec, encSetPoint, encTemp, encodeTemperature, htn, be16Bytes, boolToBit,
        List.cons_append, List.nil_append, decRec, be16, bitToBool, decTemp, TEMP_UNAVAILABLE]
      have e1 : (ps.toNat * 64 + gn % 64) / 64 % 4 = ps.toNat := by omega
      have e2 : (cm.toNat * 128 + damper % 128) / 128 % 2 = cm.toNat := by omega
      have e3 : (bat.toNat * 128 + (if turbo = true then 2 ^ 6 else 0) + spv % 64) / 128 % 2 = bat.toNat := by
        cases turbo <;> simp <;> omega
      rw [e1, e2, e3, hps', hcm', hbat']
      have ht' : t = (r : Int) - 500 := by omega
      subst ht'
      cases turbo <;> cases spill <;> simp <;> omega

theorem decRecs_encode (gs : List GroupStatusData) (h : ∀ g ∈ gs, WFRec g) (rest : Bytes) :
    decRecs gs.length (gs.flatMap encRec ++ rest) = .ok (gs, rest) := by
  induction gs with
  | nil => rfl
  | cons g gs ih =>
    simp only [List.length_cons, List.flatMap_cons, List.append_assoc, decRecs]
    rw [decRec_encRec g (h g (by simp))]
    simp only [bind, Except.bind]
    rw [ih (fun x hx => h x (by simp [hx]))]
    rfl

/-- `decode(encode(m), header with message_length = size(m))` gives `m` back, nothing left over -/
theorem decode_encode (m : Msg) (h : WF m) (rest : Bytes) :
    decode (encode m ++ rest) (size m) = .ok (m, rest) := by
  cases m with
  | request => simp [decode, encode, size]
  | status gs =>
    obtain ⟨hne, hwf⟩ := h
    have hlen : gs.length ≠ 0 := by simpa using hne
    have hsz : recSize * gs.length ≠ 0 := by simp only [recSize, STRUCT_size]; omega
    simp only [decode, encode, size, hsz, ↓reduceIte, Nat.mul_mod_right, ne_eq, not_true_eq_false]
    have hdiv : recSize * gs.length / recSize = gs.length := by simp [recSize, STRUCT_size]
    rw [hdiv, decRecs_encode gs hwf]
    rfl

theorem wfRecBool_iff (g : GroupStatusData) : wfRecBool g = true ↔ WFRec g := by
  rcases g with ⟨gn, ps, cm, spill, turbo, sensor, bat, temp, damper, sp⟩
  cases sensor <;> cases sp <;> cases temp <;> simp [wfRecBool, WFRec, and_assoc]

theorem wfBool_iff (m : Msg) : wfBool m = true ↔ WF m := by
  cases m with
  | request => simp [wfBool, WF]
  | status gs =>
    simp only [wfBool, WF, Bool.and_eq_true, Bool.not_eq_true', List.all_eq_true, wfRecBool_iff]
    cases gs <;> simp

end PyAirtouch.Lemmas.At4X2B
