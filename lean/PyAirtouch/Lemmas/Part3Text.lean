import PyAirtouch.Model.Part3Text
/-! Lemmas about UTF-8 validity, C strings, `split`/`join` and dict insertion used by the part 3 codecs. -/
namespace PyAirtouch.Lemmas.Part3Text
open PyAirtouch.Model

theorem toByteArray_append (a b : Bytes) : toByteArray (a ++ b) = toByteArray a ++ toByteArray b := by
  apply ByteArray.ext
  simp [toByteArray]

theorem utf8Valid_iff (a : Bytes) : utf8Valid a = true ↔ (toByteArray a).IsValidUTF8 := by
  unfold utf8Valid String.fromUTF8?
  split <;> simp_all

theorem utf8Valid_append {a b : Bytes} (ha : utf8Valid a = true) (hb : utf8Valid b = true) :
    utf8Valid (a ++ b) = true := by
  rw [utf8Valid_iff] at *
  rw [toByteArray_append]
  exact ha.append hb

theorem utf8Valid_nil : utf8Valid [] = true := by decide

/-- joining valid texts with a valid separator gives a valid text -/
theorem utf8Valid_joinSep (sep : Nat) (hsep : utf8Valid [sep] = true) (vs : List Bytes)
    (h : ∀ v ∈ vs, utf8Valid v = true) : utf8Valid (joinSep sep vs) = true := by
  induction vs with
  | nil => exact utf8Valid_nil
  | cons v vs ih =>
    cases vs with
    | nil => simpa [joinSep] using h v (by simp)
    | cons w ws =>
      simp only [joinSep]
      have hv := h v (by simp)
      have hr := ih (fun x hx => h x (by simp [hx]))
      have : v ++ sep :: joinSep sep (w :: ws) = v ++ ([sep] ++ joinSep sep (w :: ws)) := by simp
      rw [this]
      exact utf8Valid_append hv (utf8Valid_append hsep hr)

theorem splitOn_nosep (sep : Nat) (v : Bytes) (h : sep ∉ v) : splitOn sep v = [v] := by
  induction v with
  | nil => rfl
  | cons b bs ih =>
    have hb : b ≠ sep := fun e => h (by simp [e])
    have hbs : sep ∉ bs := fun e => h (by simp [e])
    simp only [splitOn, hb, ↓reduceIte, ih hbs]

theorem splitOn_append_sep (sep : Nat) (v r : Bytes) (h : sep ∉ v) :
    splitOn sep (v ++ sep :: r) = v :: splitOn sep r := by
  induction v with
  | nil => simp [splitOn]
  | cons b bs ih =>
    have hb : b ≠ sep := fun e => h (by simp [e])
    have hbs : sep ∉ bs := fun e => h (by simp [e])
    simp only [List.cons_append, splitOn, hb, ↓reduceIte, ih hbs]

/-- `sep.join(vs).split(sep) == vs` when `vs` is non-empty and no part contains the separator -/
theorem splitOn_joinSep (sep : Nat) (vs : List Bytes) (hne : vs ≠ []) (h : ∀ v ∈ vs, sep ∉ v) :
    splitOn sep (joinSep sep vs) = vs := by
  induction vs with
  | nil => exact absurd rfl hne
  | cons v vs ih =>
    cases vs with
    | nil => simpa [joinSep] using splitOn_nosep sep v (h v (by simp))
    | cons w ws =>
      simp only [joinSep]
      rw [splitOn_append_sep sep v _ (h v (by simp)), ih (by simp) (fun x hx => h x (by simp [hx]))]

/-! ### C strings -/

theorem cStringPrefix_pad (s : Bytes) (k : Nat) (h : 0 ∉ s) :
    cStringPrefix (s ++ List.replicate k 0) = s := by
  unfold cStringPrefix
  induction s with
  | nil => cases k <;> simp [List.replicate]
  | cons b bs ih =>
    have hb : decide (b ≠ 0) = true := by
      have : b ≠ 0 := fun e => h (by simp [e])
      simpa using this
    have hbs : 0 ∉ bs := fun e => h (by simp [e])
    rw [List.cons_append, List.takeWhile_cons, hb]
    simp only [↓reduceIte]
    rw [ih hbs]

theorem encodeCString_fit (s : Bytes) (n : Nat) (h : s.length ≤ n) :
    encodeCString s n = s ++ List.replicate (n - s.length) 0 := by
  unfold encodeCString
  apply List.take_of_length_le
  simp; omega

theorem encodeCString_length (s : Bytes) (n : Nat) : (encodeCString s n).length = n := by
  unfold encodeCString
  simp; omega

/-- a fixed-length C string field reads back as the text when the text fits, has no NUL and is valid UTF-8 -/
theorem decodeCString_encodeCString (s : Bytes) (n : Nat) (hlen : s.length ≤ n) (h0 : 0 ∉ s)
    (hv : utf8Valid s = true) : decodeCString (encodeCString s n) = .ok s := by
  unfold decodeCString
  simp only [encodeCString_fit s n hlen, cStringPrefix_pad s _ h0, hv, ↓reduceIte]

/-! ### dict insertion -/

theorem dictInsert_fresh {β} (d : List (Nat × β)) (k : Nat) (v : β) (h : k ∉ dictKeys d) :
    dictInsert d k v = d ++ [(k, v)] := by
  unfold dictInsert
  have : d.any (fun p => decide (p.1 = k)) = false := by
    rw [List.any_eq_false]
    intro p hp hk
    apply h
    simp only [dictKeys, List.mem_map]
    exact ⟨p, hp, by simpa using hk⟩
  simp [this]

theorem nodupBool_iff (l : List Nat) : nodupBool l = true ↔ l.Nodup := by
  induction l with
  | nil => simp [nodupBool]
  | cons k ks ih => simp [nodupBool, ih]

end PyAirtouch.Lemmas.Part3Text
