import PyAirtouch.Model.At4.FF10
/-! Round trip and length lemmas for the AirTouch 4 AC error information codec. -/
namespace PyAirtouch.Lemmas.At4FF10
open PyAirtouch.Model PyAirtouch.Model.At4.FF10

theorem encode_length (m : Msg) : (encode m).length = size m := by
  cases m with
  | request r => rfl
  | message m => simp [encode, size]; omega

/-- on well-formed messages the real encoder raises nothing and produces `encode m` -/
theorem encodeE_ok (m : Msg) (h : WF m) : encodeE m = .ok (encode m) := by
  cases m with
  | request r => rfl
  | message m =>
    obtain ⟨_, hs⟩ := h
    rcases m with ⟨ac, e⟩
    cases e with
    | none => simp [encodeE, errText]
    | some s =>
      have hl : s.length < 256 := by have := (hs s rfl).2.1; omega
      simp [encodeE, errText, hl]

/-- `decode(encode(m), header with message_length = size(m))` gives `m` back, nothing left over -/
theorem decode_encode (m : Msg) (h : WF m) (rest : Bytes) :
    decode (encode m ++ rest) (size m) = .ok (m, rest) := by
  cases m with
  | request r =>
    rcases r with ⟨ac⟩
    have hac : ac < 256 := h
    simp [decode, encode, size, Nat.mod_eq_of_lt hac]
  | message m =>
    rcases m with ⟨ac, e⟩
    obtain ⟨hac, hs⟩ := h
    simp only at hac hs
    cases e with
    | none => simp [decode, encode, size, errText, Nat.mod_eq_of_lt hac]
    | some s =>
      obtain ⟨hne, _, hv⟩ := hs s rfl
      have hpos : s.length > 0 := List.length_pos_iff.mpr hne
      have hsz : 2 + s.length ≠ 1 := by omega
      simp only [decode, encode, size, errText, Option.getD_some, List.cons_append, List.nil_append,
        hsz, ↓reduceIte, hpos, List.take_left', List.drop_left', hv, Nat.mod_eq_of_lt hac]

theorem wfBool_iff (m : Msg) : wfBool m = true ↔ WF m := by
  cases m with
  | request r => simp [wfBool, WF]
  | message m =>
    rcases m with ⟨ac, e⟩
    cases e with
    | none => simp [wfBool, WF]
    | some s => simp [wfBool, WF, and_assoc]

/-- the case excluded by `WF`: the empty text is encoded like `None` and decodes as `None` -/
theorem empty_text_not_preserved (ac : Nat) (rest : Bytes) :
    decode (encode (.message ⟨ac % 256, some []⟩) ++ rest) (size (.message ⟨ac % 256, some []⟩))
      = .ok (.message ⟨ac % 256, none⟩, rest) := by
  simp [decode, encode, size, errText]

end PyAirtouch.Lemmas.At4FF10
