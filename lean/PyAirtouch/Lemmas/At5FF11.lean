import PyAirtouch.Model.At5.FF11
import PyAirtouch.Lemmas.At4FF11
/-!
Round trip and length lemmas for the AirTouch 5 AC Ability codec (`at5/comms/x1FFF11_ac_ability.py`).
The C-string lemmas come from `Lemmas/At4FF11.lean`.
-/
namespace PyAirtouch.Lemmas.At5FF11
open PyAirtouch.Model PyAirtouch.Model.At5.FF11 PyAirtouch.Gen.At5.X1FFF11AcAbility
open PyAirtouch.Gen.At5.XC022AcCtrl (AcModeControl AcFanSpeedControl)
open PyAirtouch.Lemmas.At4FF11 (encodeCString_length decodeCString_encodeCString allBytes_encodeCString
  decodeCString_ok)

theorem encRec_length (ac : AcAbility) : (encRec ac).length = recSize := by
  simp only [encRec, recSize, List.length_append, List.length_cons, List.length_nil,
    encodeCString_length, nameLen, STRUCT_size]

/-- `len(encode(m)) == size(m)` -/
theorem encode_length (m : Msg) : (encode m).length = size m := by
  cases m with
  | request n => cases n <;> rfl
  | ability acs =>
    simp only [encode, size]
    induction acs with
    | nil => rfl
    | cons ac acs ih =>
      simp only [List.flatMap_cons, List.length_append, encRec_length, ih, List.length_cons, Nat.mul_add,
        Nat.mul_one, Nat.add_comm]

/-! #### the support dicts -/

theorem mode_shape (d : List (AcModeControl × Bool)) (h : d.map (·.1) = modeKeys) :
    ∃ v0 v1 v2 v3 v4 v5, d = [(.AUTO, v0), (.HEAT, v1), (.DRY, v2), (.FAN, v3), (.COOL, v4), (.UNCHANGED, v5)] := by
  unfold modeKeys at h
  rcases d with _ | ⟨⟨k0, v0⟩, _ | ⟨⟨k1, v1⟩, _ | ⟨⟨k2, v2⟩, _ | ⟨⟨k3, v3⟩, _ | ⟨⟨k4, v4⟩, _ | ⟨⟨k5, v5⟩, _ | ⟨x, d⟩⟩⟩⟩⟩⟩⟩ <;>
    simp only [List.map_cons, List.map_nil, List.cons.injEq, reduceCtorEq, and_false, and_true] at h
  obtain ⟨rfl, rfl, rfl, rfl, rfl, rfl⟩ := h
  exact ⟨v0, v1, v2, v3, v4, v5, rfl⟩

theorem fan_shape (d : List (AcFanSpeedControl × Bool)) (h : d.map (·.1) = fanKeys) :
    ∃ v0 v1 v2 v3 v4 v5 v6 v7 v8, d = [(.AUTO, v0), (.QUIET, v1), (.LOW, v2), (.MEDIUM, v3), (.HIGH, v4),
      (.POWERFUL, v5), (.TURBO, v6), (.INTELLIGENT_AUTO, v7), (.UNCHANGED, v8)] := by
  unfold fanKeys at h
  rcases d with _ | ⟨⟨k0, v0⟩, _ | ⟨⟨k1, v1⟩, _ | ⟨⟨k2, v2⟩, _ | ⟨⟨k3, v3⟩, _ | ⟨⟨k4, v4⟩, _ | ⟨⟨k5, v5⟩,
      _ | ⟨⟨k6, v6⟩, _ | ⟨⟨k7, v7⟩, _ | ⟨⟨k8, v8⟩, _ | ⟨x, d⟩⟩⟩⟩⟩⟩⟩⟩⟩⟩ <;>
    simp only [List.map_cons, List.map_nil, List.cons.injEq, reduceCtorEq, and_false, and_true] at h
  obtain ⟨rfl, rfl, rfl, rfl, rfl, rfl, rfl, rfl, rfl⟩ := h
  exact ⟨v0, v1, v2, v3, v4, v5, v6, v7, v8, rfl⟩

theorem decModeSupport_enc (d : List (AcModeControl × Bool)) (hk : d.map (·.1) = modeKeys)
    (hu : d.lookup .UNCHANGED = some true) : decModeSupport (encModeSupport d) = d := by
  obtain ⟨v0, v1, v2, v3, v4, v5, rfl⟩ := mode_shape d hk
  have h5 : v5 = true := Option.some.inj (show some v5 = some true from hu)
  subst h5
  cases v0 <;> cases v1 <;> cases v2 <;> cases v3 <;> cases v4 <;> rfl

theorem decFanSpeedSupport_enc (d : List (AcFanSpeedControl × Bool)) (hk : d.map (·.1) = fanKeys)
    (hu : d.lookup .UNCHANGED = some true) : decFanSpeedSupport (encFanSpeedSupport d) = d := by
  obtain ⟨v0, v1, v2, v3, v4, v5, v6, v7, v8, rfl⟩ := fan_shape d hk
  have h8 : v8 = true := Option.some.inj (show some v8 = some true from hu)
  subst h8
  cases v0 <;> cases v1 <;> cases v2 <;> cases v3 <;> cases v4 <;> cases v5 <;> cases v6 <;> cases v7 <;> rfl

theorem encModeSupport_lt (d : List (AcModeControl × Bool)) : encModeSupport d < 256 := by
  simp only [encModeSupport, boolToBit]
  repeat' split
  all_goals omega

theorem encFanSpeedSupport_lt (d : List (AcFanSpeedControl × Bool)) : encFanSpeedSupport d < 256 := by
  simp only [encFanSpeedSupport, boolToBit]
  repeat' split
  all_goals omega

/-! #### records -/

/-- decoding the bytes of one encoded record (whatever follows, whenever the remaining announced length leaves
    room for it) gives the record back, and its following length 24 -/
theorem decRec_encRec (ac : AcAbility) (h : WFRec ac) (rest : Bytes) (remaining : Nat) (hav : recSize ≤ remaining) :
    decRec (encRec ac ++ rest) remaining = .ok (ac, followingLength) := by
  obtain ⟨_, _, _, _, _, _, _, ⟨hnl, hn0, hnu, _⟩, ⟨hmk, hmu⟩, ⟨hfk, hfu⟩⟩ := h
  have hlen := encodeCString_length ac.ac_name nameLen
  have hchk : ¬ (2 + followingLength < STRUCT_size ∨ remaining < 2 + followingLength) := by
    simp only [recSize, STRUCT_size] at hav
    simp only [followingLength, STRUCT_size]
    omega
  simp only [encRec, List.cons_append, List.nil_append, List.append_assoc, decRec,
    List.drop_left' hlen, List.take_left' hlen, hchk, ↓reduceIte,
    decodeCString_encodeCString ac.ac_name nameLen hnl hn0 hnu,
    decModeSupport_enc _ hmk hmu, decFanSpeedSupport_enc _ hfk hfu]

theorem decLoop_encode (acs : List AcAbility) (h : ∀ ac ∈ acs, WFRec ac) (rest : Bytes) :
    decLoop (acs.flatMap encRec ++ rest) (recSize * acs.length) = .ok (acs, rest) := by
  induction acs with
  | nil => rw [decLoop]; simp
  | cons ac acs ih =>
    have hpos : 0 < recSize * (ac :: acs).length := by simp [recSize, STRUCT_size]
    have hav : recSize ≤ recSize * (ac :: acs).length := by
      simp only [List.length_cons, Nat.mul_succ]; omega
    have hnext : recSize * (ac :: acs).length - (2 + followingLength) = recSize * acs.length := by
      simp only [List.length_cons, Nat.mul_succ, recSize, STRUCT_size, followingLength]; omega
    have hdrop : (encRec ac ++ (acs.flatMap encRec ++ rest)).drop (2 + followingLength)
        = acs.flatMap encRec ++ rest :=
      List.drop_left' (by rw [encRec_length]; rfl)
    rw [decLoop]
    simp only [hpos, ↓reduceDIte, List.flatMap_cons, List.append_assoc]
    rw [decRec_encRec ac (h ac (by simp)) _ _ hav]
    simp only [hnext, hdrop]
    rw [ih (fun x hx => h x (by simp [hx]))]

/-- `decode(encode(m) + rest, header with message_length = size(m))` gives `m` back and leaves `rest` -/
theorem decode_encode (m : Msg) (h : WF m) (rest : Bytes) :
    decode (encode m ++ rest) (size m) = .ok (m, rest) := by
  cases m with
  | request n =>
    cases n with
    | none => rfl
    | some n => rfl
  | ability acs =>
    obtain ⟨hne, hwf⟩ := h
    have hlen : acs.length ≠ 0 := by simpa using hne
    have h0 : recSize * acs.length ≠ 0 := by simp only [recSize, STRUCT_size]; omega
    have h1 : recSize * acs.length ≠ 1 := by simp only [recSize, STRUCT_size]; omega
    simp only [decode, encode, size, h0, h1, ↓reduceIte, decLoop_encode acs hwf]

/-! #### the checked encoder does not raise on well-formed messages, and produces bytes -/

theorem encRecErr_none (ac : AcAbility) (h : WFRec ac) : encRecErr ac = none := by
  obtain ⟨h1, h2, h3, h4, h5, h6, h7, _, ⟨hmk, _⟩, ⟨hfk, _⟩⟩ := h
  obtain ⟨v0, v1, v2, v3, v4, v5, hm⟩ := mode_shape _ hmk
  obtain ⟨w0, w1, w2, w3, w4, w5, w6, w7, w8, hf⟩ := fan_shape _ hfk
  have hmode : ([AcModeControl.AUTO, .HEAT, .DRY, .FAN, .COOL].any
      fun k => (ac.ac_mode_support.lookup k).isNone) = false := by rw [hm]; rfl
  have hfan : ([AcFanSpeedControl.AUTO, .QUIET, .LOW, .MEDIUM, .HIGH, .POWERFUL, .TURBO, .INTELLIGENT_AUTO].any
      fun k => (ac.fan_speed_support.lookup k).isNone) = false := by rw [hf]; rfl
  have hrange : ¬ (256 ≤ ac.ac_number ∨ 256 ≤ ac.start_zone ∨ 256 ≤ ac.zone_count ∨
      256 ≤ ac.min_cool_set_point ∨ 256 ≤ ac.max_cool_set_point ∨
      256 ≤ ac.min_heat_set_point ∨ 256 ≤ ac.max_heat_set_point) := by omega
  simp only [encRecErr, hmode, hfan, hrange, Bool.false_eq_true, ↓reduceIte]

/-- on a well-formed message `AcAbilityEncoder.encode` raises nothing and returns `encode m` -/
theorem encodeE_ok (m : Msg) (h : WF m) : encodeE m = .ok (encode m) := by
  cases m with
  | request n =>
    cases n with
    | none => rfl
    | some n =>
      have : ¬ 256 ≤ n := by simp only [WF] at h; omega
      simp only [encodeE, this, ↓reduceIte, encode]
  | ability acs =>
    have hnone : acs.findSome? encRecErr = none := by
      rw [List.findSome?_eq_none_iff]
      exact fun ac hac => encRecErr_none ac (h.2 ac hac)
    simp only [encodeE, hnone, encode]

theorem encRec_allBytes (ac : AcAbility) (h : WFRec ac) : AllBytes (encRec ac) := by
  obtain ⟨h1, h2, h3, h4, h5, h6, h7, ⟨_, _, _, hnb⟩, _, _⟩ := h
  have hmode := encModeSupport_lt ac.ac_mode_support
  have hfan := encFanSpeedSupport_lt ac.fan_speed_support
  have hfl : followingLength < 256 := by decide
  intro b hb
  simp only [encRec, List.mem_append, List.mem_cons, List.not_mem_nil, or_false] at hb
  rcases hb with (rfl | rfl) | hb | (rfl | rfl | rfl | rfl | rfl | rfl | rfl | rfl)
  all_goals try assumption
  exact allBytes_encodeCString _ _ hnb b hb

/-- the encoder output is a byte string -/
theorem encode_allBytes (m : Msg) (h : WF m) : AllBytes (encode m) := by
  cases m with
  | request n =>
    cases n with
    | none => intro b hb; simp [encode] at hb
    | some n => intro b hb; simp only [encode, List.mem_singleton] at hb; subst hb; exact h
  | ability acs =>
    intro b hb
    simp only [encode, List.mem_flatMap] at hb
    obtain ⟨ac, hac, hb⟩ := hb
    exact encRec_allBytes ac (h.2 ac hac) b hb

/-! #### facts about every run of the decoder (any buffer, any announced length) -/

/-- every record the decoder produces from a byte string is well-formed; its wire length `2 + L` is at least
    the 26 known bytes and lies inside the remaining announced length -/
theorem decRec_WF (bs : Bytes) (hb : AllBytes bs) (remaining : Nat) (ac : AcAbility) (fl : Nat)
    (h : decRec bs remaining = .ok (ac, fl)) : WFRec ac ∧ recSize ≤ 2 + fl ∧ 2 + fl ≤ remaining := by
  unfold decRec at h
  split at h
  · rename_i acNumber following r
    split at h
    · rename_i sz zc b23 b24 mnc mxc mnh mxh rest' hdrop
      split at h
      · cases h
      · rename_i hchk
        split at h
        · cases h
        · rename_i name hname
          injection h with h; injection h with h1 h2
          subst h1 h2
          have hr : ∀ x ∈ r, x < 256 := fun x hx => hb x (by simp [hx])
          have hd : ∀ x ∈ r.drop nameLen, x < 256 := fun x hx => hr x (List.mem_of_mem_drop hx)
          rw [hdrop] at hd
          have hraw : AllBytes (r.take nameLen) := fun x hx => hr x (List.mem_of_mem_take hx)
          obtain ⟨hl, h0, hu, hab⟩ := decodeCString_ok _ _ hname hraw
          have hl' : name.length ≤ nameLen := by
            have : (r.take nameLen).length ≤ nameLen := by simp only [List.length_take]; omega
            omega
          refine ⟨⟨hb _ (by simp), hd _ (by simp), hd _ (by simp), hd _ (by simp), hd _ (by simp),
            hd _ (by simp), hd _ (by simp), ⟨hl', h0, hu, hab⟩, ⟨rfl, rfl⟩, ⟨rfl, rfl⟩⟩, ?_, ?_⟩
          · simp only [recSize]; omega
          · omega
    · cases h
  · cases h

/-- the loop returns well-formed records and the buffer without the announced bytes; the records the encoder
    would write for the result are not longer than the announced length; it runs at least once when the
    announced length is positive -/
theorem decLoop_spec (bs : Bytes) (remaining : Nat) : AllBytes bs → ∀ acs rest, decLoop bs remaining = .ok (acs, rest) →
    (∀ ac ∈ acs, WFRec ac) ∧ rest = bs.drop remaining ∧ recSize * acs.length ≤ remaining ∧
    (0 < remaining → acs ≠ []) := by
  fun_induction decLoop bs remaining with
  | case1 bs remaining hpos e hrec => intro _ acs rest h; cases h
  | case2 bs remaining hpos ac fl hrec e hloop ih => intro _ acs rest h; cases h
  | case3 bs remaining hpos ac fl hrec acs' rest' hloop ih =>
    intro hb acs rest h
    injection h with h; injection h with h1 h2
    subst h1 h2
    obtain ⟨hwf, hge, hle⟩ := decRec_WF bs hb remaining ac fl hrec
    obtain ⟨hwfs, hr, hsz, _⟩ := ih (fun b hbm => hb b (List.mem_of_mem_drop hbm)) acs' rest' hloop
    refine ⟨fun x hx => ?_, ?_, ?_, fun _ => by simp⟩
    · rcases List.mem_cons.mp hx with rfl | hx
      · exact hwf
      · exact hwfs x hx
    · rw [hr, List.drop_drop]
      congr 1
      omega
    · simp only [List.length_cons, Nat.mul_succ]; omega
  | case4 bs remaining hnpos =>
    intro _ acs rest h
    injection h with h; injection h with h1 h2
    subst h1 h2
    have : remaining = 0 := by omega
    subst this
    exact ⟨fun x hx => (by cases hx), by simp, by simp, fun hc => absurd hc hnpos⟩

/-- every message the decoder produces from a byte string is well-formed; a successful decode consumes exactly
    the announced number of bytes; the encoder's `size` of the decoded message is at most that number (smaller
    exactly when a record carried bytes after the known ones, which the decoder skips: `00 32 <50 bytes>` with
    announced length 52 decodes to one AC whose encoding has 26 bytes) -/
theorem decode_WF (buffer : Bytes) (hb : AllBytes buffer) (msgLen : Nat) (m : Msg) (rest : Bytes)
    (h : decode buffer msgLen = .ok (m, rest)) : WF m ∧ size m ≤ msgLen ∧ rest = buffer.drop msgLen := by
  unfold decode at h
  split at h
  · rename_i h0
    injection h with h; injection h with h1 h2; subst h1 h2 h0
    exact ⟨trivial, Nat.le_refl _, rfl⟩
  · split at h
    · rename_i h1
      split at h
      · cases h
      · rename_i b rest'
        injection h with h; injection h with h1' h2; subst h1' h2 h1
        exact ⟨hb b (by simp), Nat.le_refl _, rfl⟩
    · rename_i h0 h1
      split at h
      · cases h
      · rename_i acs rest' hloop
        injection h with h; injection h with h1' h2; subst h1' h2
        obtain ⟨hwf, hr, hsz, hne⟩ := decLoop_spec buffer msgLen hb acs rest' hloop
        exact ⟨⟨hne (by omega), hwf⟩, by simpa only [size] using hsz, hr⟩

/-- re-encoding any decoded message and decoding it again gives the same message (the re-encoding is not
    longer than the payload it was decoded from) -/
theorem decode_reencode (buffer : Bytes) (hb : AllBytes buffer) (msgLen : Nat) (m : Msg) (rest : Bytes)
    (h : decode buffer msgLen = .ok (m, rest)) (rest' : Bytes) :
    encodeE m = .ok (encode m) ∧ (encode m).length ≤ msgLen ∧
    decode (encode m ++ rest') (size m) = .ok (m, rest') := by
  obtain ⟨hwf, hsz, _⟩ := decode_WF buffer hb msgLen m rest h
  exact ⟨encodeE_ok m hwf, by rw [encode_length]; exact hsz, decode_encode m hwf rest'⟩

end PyAirtouch.Lemmas.At5FF11
