import PyAirtouch.Model.At5.FF11
import PyAirtouch.Lemmas.At4FF11
/-!
Round trip and length lemmas for the AirTouch 5 AC Ability codec (`at5/comms/x1FFF11_ac_ability.py`).
The C-string lemmas come from `Lemmas/At4FF11.lean`.
-/
namespace PyAirtouch.Lemmas.At5FF11
open PyAirtouch.Model PyAirtouch.Model.At5.FF11 PyAirtouch.Gen.At5.X1FFF11AcAbility
open PyAirtouch.Gen.At5.XC022AcCtrl (AcModeControl AcFanSpeedControl)
open PyAirtouch.Lemmas.At4FF11 (encodeCString_length decodeCString_encodeCString allBytes_encodeCString
  decodeCString_ok)

theorem encRec_length (ac : AcAbility) : (encRec ac).length = recSize := by
  simp only [encRec, recSize, List.length_append, List.length_cons, List.length_nil,
    encodeCString_length, nameLen, STRUCT_size]

/-- `len(encode(m)) == size(m)` -/
theorem encode_length (m : Msg) : (encode m).length = size m := by
  cases m with
  | request n => cases n <;> rfl
  | ability acs =>
    simp only [encode, size]
    induction acs with
    | nil => rfl
    | cons ac acs ih =>
      simp only [List.flatMap_cons, List.length_append, encRec_length, ih, List.length_cons, Nat.mul_add,
        Nat.mul_one, Nat.add_comm]

/-! #### the support dicts -/

theorem mode_shape (d : List (AcModeControl × Bool)) (h : d.map (·.1) = modeKeys) :
    ∃ v0 v1 v2 v3 v4 v5, d = [(.AUTO, v0), (.HEAT, v1), (.DRY, v2), (.FAN, v3), (.COOL, v4), (.UNCHANGED, v5)] := by
  unfold modeKeys at h
  rcases d with _ | ⟨⟨k0, v0⟩, _ | ⟨⟨k1, v1⟩, _ | ⟨⟨k2, v2⟩, _ | ⟨⟨k3, v3⟩, _ | ⟨⟨k4, v4⟩, _ | ⟨⟨k5, v5⟩, _ | ⟨x, d⟩⟩⟩⟩⟩⟩⟩ <;>
    simp only [List.map_cons, List.map_nil, List.cons.injEq, reduceCtorEq, and_false, and_true] at h
  obtain ⟨rfl, rfl, rfl, rfl, rfl, rfl⟩ := h
  exact ⟨v0, v1, v2, v3, v4, v5, rfl⟩

theorem fan_shape (d : List (AcFanSpeedControl × Bool)) (h : d.map (·.1) = fanKeys) :
    ∃ v0 v1 v2 v3 v4 v5 v6 v7 v8, d = [(.AUTO, v0), (.QUIET, v1), (.LOW, v2), (.MEDIUM, v3), (.HIGH, v4),
      (.POWERFUL, v5), (.TURBO, v6), (.INTELLIGENT_AUTO, v7), (.UNCHANGED, v8)] := by
  unfold fanKeys at h
  rcases d with _ | ⟨⟨k0, v0⟩, _ | ⟨⟨k1, v1⟩, _ | ⟨⟨k2, v2⟩, _ | ⟨⟨k3, v3⟩, _ | ⟨⟨k4, v4⟩, _ | ⟨⟨k5, v5⟩,
      _ | ⟨⟨k6, v6⟩, _ | ⟨⟨k7, v7⟩, _ | ⟨⟨k8, v8⟩, _ | ⟨x, d⟩⟩⟩⟩⟩⟩⟩⟩⟩⟩ <;>
    simp only [List.map_cons, List.map_nil, List.cons.injEq, reduceCtorEq, and_false, and_true] at h
  obtain ⟨rfl, rfl, rfl, rfl, rfl, rfl, rfl, rfl, rfl⟩ := h
  exact ⟨v0, v1, v2, v3, v4, v5, v6, v7, v8, rfl⟩

theorem decModeSupport_enc (d : List (AcModeControl × Bool)) (hk : d.map (·.1) = modeKeys)
    (hu : d.lookup .UNCHANGED = some true) : decModeSupport (encModeSupport d) = d := by
  obtain ⟨v0, v1, v2, v3, v4, v5, rfl⟩ := mode_shape d hk
  have h5 : v5 = true := Option.some.inj (show some v5 = some true from hu)
  subst h5
  cases v0 <;> cases v1 <;> cases v2 <;> cases v3 <;> cases v4 <;> rfl

theorem decFanSpeedSupport_enc (d : List (AcFanSpeedControl × Bool)) (hk : d.map (·.1) = fanKeys)
    (hu : d.lookup .UNCHANGED = some true) : decFanSpeedSupport (encFanSpeedSupport d) = d := by
  obtain ⟨v0, v1, v2, v3, v4, v5, v6, v7, v8, rfl⟩ := fan_shape d hk
  have h8 : v8 = true := Option.some.inj (show some v8 = some true from hu)
  subst h8
  cases v0 <;> cases v1 <;> cases v2 <;> cases v3 <;> cases v4 <;> cases v5 <;> cases v6 <;> cases v7 <;> rfl

theorem encModeSupport_lt (d : List (AcModeControl × Bool)) : encModeSupport d < 256 := by
  simp only [encModeSupport, boolToBit]
  repeat' split
  all_goals omega

theorem encFanSpeedSupport_lt (d : List (AcFanSpeedControl × Bool)) : encFanSpeedSupport d < 256 := by
  simp only [encFanSpeedSupport, boolToBit]
  repeat' split
  all_goals omega

/-! #### records -/

/-- decoding the bytes of one encoded record gives the record back and leaves what follows -/
theorem decRec_encRec (ac : AcAbility) (h : WFRec ac) (rest : Bytes) :
    decRec (encRec ac ++ rest) = .ok (ac, rest) := by
  obtain ⟨_, _, _, _, _, _, _, ⟨hnl, hn0, hnu, _⟩, ⟨hmk, hmu⟩, ⟨hfk, hfu⟩⟩ := h
  have hlen := encodeCString_length ac.ac_name nameLen
  simp only [encRec, List.cons_append, List.nil_append, List.append_assoc, decRec,
    List.drop_left' hlen, List.take_left' hlen,
    decodeCString_encodeCString ac.ac_name nameLen hnl hn0 hnu,
    decModeSupport_enc _ hmk hmu, decFanSpeedSupport_enc _ hfk hfu]

theorem decRecs_encode (acs : List AcAbility) (h : ∀ ac ∈ acs, WFRec ac) (rest : Bytes) :
    decRecs acs.length (acs.flatMap encRec ++ rest) = .ok (acs, rest) := by
  induction acs with
  | nil => rfl
  | cons ac acs ih =>
    simp only [List.length_cons, List.flatMap_cons, List.append_assoc, decRecs]
    rw [decRec_encRec ac (h ac (by simp))]
    simp only
    rw [ih (fun x hx => h x (by simp [hx]))]

/-- `decode(encode(m) + rest, header with message_length = size(m))` gives `m` back and leaves `rest` -/
theorem decode_encode (m : Msg) (h : WF m) (rest : Bytes) :
    decode (encode m ++ rest) (size m) = .ok (m, rest) := by
  cases m with
  | request n =>
    cases n with
    | none => rfl
    | some n => rfl
  | ability acs =>
    obtain ⟨hne, hwf⟩ := h
    have hlen : acs.length ≠ 0 := by simpa using hne
    have h0 : recSize * acs.length ≠ 0 := by simp only [recSize, STRUCT_size]; omega
    have h1 : recSize * acs.length ≠ 1 := by simp only [recSize, STRUCT_size]; omega
    have hdiv : recSize * acs.length / recSize = acs.length := by simp [recSize, STRUCT_size]
    simp only [decode, encode, size, h0, h1, ↓reduceIte, Nat.mul_mod_right, ne_eq, not_true_eq_false,
      hdiv, decRecs_encode acs hwf]

/-! #### the checked encoder does not raise on well-formed messages, and produces bytes -/

theorem encRecErr_none (ac : AcAbility) (h : WFRec ac) : encRecErr ac = none := by
  obtain ⟨h1, h2, h3, h4, h5, h6, h7, _, ⟨hmk, _⟩, ⟨hfk, _⟩⟩ := h
  obtain ⟨v0, v1, v2, v3, v4, v5, hm⟩ := mode_shape _ hmk
  obtain ⟨w0, w1, w2, w3, w4, w5, w6, w7, w8, hf⟩ := fan_shape _ hfk
  have hmode : ([AcModeControl.AUTO, .HEAT, .DRY, .FAN, .COOL].any
      fun k => (ac.ac_mode_support.lookup k).isNone) = false := by rw [hm]; rfl
  have hfan : ([AcFanSpeedControl.AUTO, .QUIET, .LOW, .MEDIUM, .HIGH, .POWERFUL, .TURBO, .INTELLIGENT_AUTO].any
      fun k => (ac.fan_speed_support.lookup k).isNone) = false := by rw [hf]; rfl
  have hrange : ¬ (256 ≤ ac.ac_number ∨ 256 ≤ ac.start_zone ∨ 256 ≤ ac.zone_count ∨
      256 ≤ ac.min_cool_set_point ∨ 256 ≤ ac.max_cool_set_point ∨
      256 ≤ ac.min_heat_set_point ∨ 256 ≤ ac.max_heat_set_point) := by omega
  simp only [encRecErr, hmode, hfan, hrange, Bool.false_eq_true, ↓reduceIte]

/-- on a well-formed message `AcAbilityEncoder.encode` raises nothing and returns `encode m` -/
theorem encodeE_ok (m : Msg) (h : WF m) : encodeE m = .ok (encode m) := by
  cases m with
  | request n =>
    cases n with
    | none => rfl
    | some n =>
      have : ¬ 256 ≤ n := by simp only [WF] at h; omega
      simp only [encodeE, this, ↓reduceIte, encode]
  | ability acs =>
    have hnone : acs.findSome? encRecErr = none := by
      rw [List.findSome?_eq_none_iff]
      exact fun ac hac => encRecErr_none ac (h.2 ac hac)
    simp only [encodeE, hnone, encode]

theorem encRec_allBytes (ac : AcAbility) (h : WFRec ac) : AllBytes (encRec ac) := by
  obtain ⟨h1, h2, h3, h4, h5, h6, h7, ⟨_, _, _, hnb⟩, _, _⟩ := h
  have hmode := encModeSupport_lt ac.ac_mode_support
  have hfan := encFanSpeedSupport_lt ac.fan_speed_support
  have hfl : followingLength < 256 := by decide
  intro b hb
  simp only [encRec, List.mem_append, List.mem_cons, List.not_mem_nil, or_false] at hb
  rcases hb with (rfl | rfl) | hb | (rfl | rfl | rfl | rfl | rfl | rfl | rfl | rfl)
  all_goals try assumption
  exact allBytes_encodeCString _ _ hnb b hb

/-- the encoder output is a byte string -/
theorem encode_allBytes (m : Msg) (h : WF m) : AllBytes (encode m) := by
  cases m with
  | request n =>
    cases n with
    | none => intro b hb; simp [encode] at hb
    | some n => intro b hb; simp only [encode, List.mem_singleton] at hb; subst hb; exact h
  | ability acs =>
    intro b hb
    simp only [encode, List.mem_flatMap] at hb
    obtain ⟨ac, hac, hb⟩ := hb
    exact encRec_allBytes ac (h.2 ac hac) b hb

/-! #### facts about every run of the decoder (any buffer, any announced length) -/

/-- every record the decoder produces from a byte string is well-formed -/
theorem decRec_WF (bs : Bytes) (hb : AllBytes bs) (ac : AcAbility) (rest : Bytes)
    (h : decRec bs = .ok (ac, rest)) : WFRec ac ∧ bs.length = recSize + rest.length ∧ rest = bs.drop recSize := by
  unfold decRec at h
  split at h
  · rename_i acNumber following r
    split at h
    · rename_i sz zc b23 b24 mnc mxc mnh mxh rest' hdrop
      split at h
      · cases h
      · rename_i name hname
        injection h with h; injection h with h1 h2
        subst h1 h2
        have hr : ∀ x ∈ r, x < 256 := fun x hx => hb x (by simp [hx])
        have hd : ∀ x ∈ r.drop nameLen, x < 256 := fun x hx => hr x (List.mem_of_mem_drop hx)
        rw [hdrop] at hd
        have hraw : AllBytes (r.take nameLen) := fun x hx => hr x (List.mem_of_mem_take hx)
        obtain ⟨hl, h0, hu, hab⟩ := decodeCString_ok _ _ hname hraw
        have hl' : name.length ≤ nameLen := by
          have : (r.take nameLen).length ≤ nameLen := by simp only [List.length_take]; omega
          omega
        have hlen : (r.drop nameLen).length = 8 + rest'.length := by rw [hdrop]; simp only [List.length_cons]; omega
        simp only [List.length_drop, nameLen] at hlen
        have hrest : rest' = (r.drop nameLen).drop 8 := by rw [hdrop]; rfl
        refine ⟨⟨hb _ (by simp), hd _ (by simp), hd _ (by simp), hd _ (by simp), hd _ (by simp),
          hd _ (by simp), hd _ (by simp), ⟨hl', h0, hu, hab⟩, ⟨rfl, rfl⟩, ⟨rfl, rfl⟩⟩, ?_, ?_⟩
        · simp only [List.length_cons, recSize, STRUCT_size]; omega
        · rw [hrest]; simp [recSize, STRUCT_size, nameLen, List.drop_drop]
    · cases h
  · cases h

theorem decRecs_spec (n : Nat) : ∀ (bs : Bytes), AllBytes bs → ∀ acs rest, decRecs n bs = .ok (acs, rest) →
    acs.length = n ∧ (∀ ac ∈ acs, WFRec ac) ∧ rest = bs.drop (recSize * n) := by
  induction n with
  | zero =>
    intro bs _ acs rest h
    simp only [decRecs] at h
    injection h with h; injection h with h1 h2
    subst h1 h2
    refine ⟨rfl, ?_, ?_⟩
    · intro ac hx; cases hx
    · rw [Nat.mul_zero, List.drop_zero]
  | succ n ih =>
    intro bs hb acs rest h
    simp only [decRecs] at h
    split at h
    · cases h
    · rename_i ac rest1 hrec
      split at h
      · cases h
      · rename_i acs' rest2 hrecs
        injection h with h; injection h with h1 h2
        subst h1 h2
        obtain ⟨hwf, _, hr1⟩ := decRec_WF bs hb ac rest1 hrec
        have hb1 : AllBytes rest1 := by
          rw [hr1]; exact fun b hbm => hb b (List.mem_of_mem_drop hbm)
        obtain ⟨hl, hwfs, hr2⟩ := ih rest1 hb1 acs' rest2 hrecs
        refine ⟨by simp [hl], fun x hx => ?_, ?_⟩
        · rcases List.mem_cons.mp hx with rfl | hx
          · exact hwf
          · exact hwfs x hx
        · rw [hr2, hr1, List.drop_drop]
          congr 1
          rw [Nat.mul_succ]; omega

/-- every message the decoder produces from a byte string is well-formed -/
theorem decode_WF (buffer : Bytes) (hb : AllBytes buffer) (msgLen : Nat) (m : Msg) (rest : Bytes)
    (h : decode buffer msgLen = .ok (m, rest)) : WF m ∧ size m = msgLen ∧ rest = buffer.drop msgLen := by
  unfold decode at h
  split at h
  · rename_i h0
    injection h with h; injection h with h1 h2; subst h1 h2 h0
    exact ⟨trivial, rfl, rfl⟩
  · split at h
    · rename_i h1
      split at h
      · cases h
      · rename_i b rest'
        injection h with h; injection h with h1' h2; subst h1' h2 h1
        exact ⟨hb b (by simp), rfl, rfl⟩
    · rename_i h0 h1
      split at h
      · cases h
      · rename_i hmod
        split at h
        · cases h
        · rename_i acs rest' hrecs
          injection h with h; injection h with h1' h2; subst h1' h2
          obtain ⟨hl, hwf, hr⟩ := decRecs_spec _ buffer hb acs rest' hrecs
          have hmod' : msgLen % recSize = 0 := by
            simp only [ne_eq, Decidable.not_not] at hmod; exact hmod
          have hmul : recSize * (msgLen / recSize) = msgLen := by
            have := Nat.div_add_mod msgLen recSize
            omega
          refine ⟨⟨?_, hwf⟩, by simp only [size, hl, hmul], by rw [hr, hmul]⟩
          intro hnil
          subst hnil
          simp only [List.length_nil] at hl
          rw [← hl] at hmul
          omega

/-- re-encoding any decoded message and decoding it again gives the same message -/
theorem decode_reencode (buffer : Bytes) (hb : AllBytes buffer) (msgLen : Nat) (m : Msg) (rest : Bytes)
    (h : decode buffer msgLen = .ok (m, rest)) (rest' : Bytes) :
    encodeE m = .ok (encode m) ∧ (encode m).length = msgLen ∧
    decode (encode m ++ rest') (size m) = .ok (m, rest') := by
  obtain ⟨hwf, hsz, _⟩ := decode_WF buffer hb msgLen m rest h
  exact ⟨encodeE_ok m hwf, by rw [encode_length, hsz], decode_encode m hwf rest'⟩

end PyAirtouch.Lemmas.At5FF11
