import PyAirtouch.Model.At4.X37
import PyAirtouch.Lemmas.TimerCommon
/-! Round trip and length lemmas for the AirTouch 4 AC timer status codec (0x37, positional). -/
namespace PyAirtouch.Lemmas.At4X37
open PyAirtouch.Model PyAirtouch.Model.TimerCommon PyAirtouch.Model.At4.X37
open PyAirtouch.Gen.At4.X37AcTimerStatus PyAirtouch.Lemmas.TimerCommon

/-! ### length -/

theorem putState_length (buf : Bytes) (off : Nat) (t : AcTimerState) :
    (putState buf off t).length = buf.length := by
  simp [putState]

theorem packTimerState_length (buf : Bytes) (off : Nat) (t : AcTimerState) (b : Bytes)
    (h : packTimerState buf off t = .ok b) : b.length = buf.length := by
  simp only [packTimerState] at h
  split at h
  · cases h; exact putState_length ..
  · cases h

theorem encStep_length (buf : Bytes) (d : AcTimerStatusData) (b : Bytes)
    (h : encStep buf d = .ok b) : b.length = buf.length := by
  simp only [encStep, bind, Except.bind] at h
  split at h
  · cases h
  · rename_i b1 h1
    rw [packTimerState_length _ _ _ _ h, packTimerState_length _ _ _ _ h1]

theorem encLoop_length (l : List AcTimerStatusData) (buf b : Bytes)
    (h : encLoop l buf = .ok b) : b.length = buf.length := by
  induction l generalizing buf with
  | nil => simp only [encLoop] at h; cases h; rfl
  | cons d ds ih =>
    simp only [encLoop, bind, Except.bind] at h
    split at h
    · cases h
    · rename_i b1 h1
      rw [ih b1 h, encStep_length _ _ _ h1]

/-- whenever the encoder returns bytes, there are `size m` of them -/
theorem encode_length (m : Msg) (bs : Bytes) (h : encode m = .ok bs) : bs.length = size m := by
  cases m with
  | request => simp only [encode] at h; cases h; rfl
  | status l =>
    simp only [encode] at h
    rw [encLoop_length l _ bs h, List.length_replicate, size]

theorem encodeBytes_length (m : Msg) : (encodeBytes m).length = size m := by
  cases m with
  | request => rfl
  | status l =>
    simp only [encodeBytes, size]
    generalize hb : List.replicate (4 * recSize) 0 = buf
    have hl : buf.length = 4 * recSize := by rw [← hb, List.length_replicate]
    clear hb
    induction l generalizing buf with
    | nil => simpa using hl
    | cons d ds ih =>
      simp only [List.foldl_cons]
      exact ih _ (by rw [putState_length, putState_length, hl])

/-! ### shape of well-formed lists -/

theorem wfList_shape (l : List AcTimerStatusData) (h : WFList l) :
    ∃ on0 off0 on1 off1 on2 off2 on3 off3,
      l = [⟨0, on0, off0⟩, ⟨1, on1, off1⟩, ⟨2, on2, off2⟩, ⟨3, on3, off3⟩] ∧
      WFState on0 ∧ WFState off0 ∧ WFState on1 ∧ WFState off1 ∧
      WFState on2 ∧ WFState off2 ∧ WFState on3 ∧ WFState off3 := by
  obtain ⟨hmap, hwf⟩ := h
  match l, hmap, hwf with
  | [⟨a0, on0, off0⟩, ⟨a1, on1, off1⟩, ⟨a2, on2, off2⟩, ⟨a3, on3, off3⟩], hmap, hwf =>
    simp only [List.map_cons, List.map_nil, List.cons.injEq, and_true] at hmap
    obtain ⟨h0, h1, h2, h3⟩ := hmap
    subst h0 h1 h2 h3
    have w0 := hwf ⟨0, on0, off0⟩ (by simp)
    have w1 := hwf ⟨1, on1, off1⟩ (by simp)
    have w2 := hwf ⟨2, on2, off2⟩ (by simp)
    have w3 := hwf ⟨3, on3, off3⟩ (by simp)
    exact ⟨on0, off0, on1, off1, on2, off2, on3, off3, rfl, w0.1, w0.2, w1.1, w1.2, w2.1, w2.2, w3.1, w3.2⟩

/-- the 32 bytes written for the four ACs in order -/
theorem encodeBytes_wf (on0 off0 on1 off1 on2 off2 on3 off3 : AcTimerState) :
    encodeBytes (.status [⟨0, on0, off0⟩, ⟨1, on1, off1⟩, ⟨2, on2, off2⟩, ⟨3, on3, off3⟩]) =
      encTimerState on0 ++ encTimerState off0 ++ [0, 0, 0, 0] ++
      encTimerState on1 ++ encTimerState off1 ++ [0, 0, 0, 0] ++
      encTimerState on2 ++ encTimerState off2 ++ [0, 0, 0, 0] ++
      encTimerState on3 ++ encTimerState off3 ++ [0, 0, 0, 0] := by
  simp [encodeBytes, putState, encTimerState, recSize, TIMER_STATUS_REPEAT_SIZE, TIMER_STATE_STRUCT_size,
    List.replicate]

/-- on well-formed messages the encoder does not raise -/
theorem encode_ok (m : Msg) (h : WF m) : encode m = .ok (encodeBytes m) := by
  cases m with
  | request => rfl
  | status l =>
    obtain ⟨on0, off0, on1, off1, on2, off2, on3, off3, hl, -⟩ := wfList_shape l h
    subst hl
    simp [encode, encodeBytes, encLoop, encStep, packTimerState, putState, recSize,
      TIMER_STATUS_REPEAT_SIZE, TIMER_STATE_STRUCT_size, List.replicate, bind, Except.bind]

/-- `decode(encode(m), header with message_length = size(m))` gives `m` back, nothing left over -/
theorem decode_encode (m : Msg) (h : WF m) (rest : Bytes) :
    decode (encodeBytes m ++ rest) (size m) = .ok (m, rest) := by
  cases m with
  | request => simp [decode, encodeBytes, size]
  | status l =>
    obtain ⟨on0, off0, on1, off1, on2, off2, on3, off3, hl, w0, w0', w1, w1', w2, w2', w3, w3'⟩ :=
      wfList_shape l h
    subst hl
    rw [encodeBytes_wf]
    simp only [decode, size, recSize, TIMER_STATUS_REPEAT_SIZE, TIMER_STATE_STRUCT_size, decRecs,
      decodeTimerState, encTimerState, List.cons_append, List.nil_append, List.drop_succ_cons,
      List.drop_zero, Nat.reduceMul, Nat.reduceAdd, Nat.reduceMod, Nat.reduceDiv, Nat.reduceEqDiff,
      ↓reduceIte, ne_eq, not_true_eq_false,
      decTimerState_enc on0 w0, decTimerState_enc off0 w0', decTimerState_enc on1 w1,
      decTimerState_enc off1 w1', decTimerState_enc on2 w2, decTimerState_enc off2 w2',
      decTimerState_enc on3 w3, decTimerState_enc off3 w3', bind, Except.bind, pure, Except.pure]

/-! ### run-time well-formedness test -/

theorem wfListBool_iff (l : List AcTimerStatusData) : wfListBool l = true ↔ WFList l := by
  simp only [wfListBool, WFList, Bool.and_eq_true, beq_iff_eq, List.all_eq_true, wfStateBool_iff]

theorem wfBool_iff (m : Msg) : wfBool m = true ↔ WF m := by
  cases m with
  | request => simp only [wfBool, WF]
  | status l => exact wfListBool_iff l

/-! ### why `WF` insists on exactly the ACs 0..3 (these messages are produced by the decoder) -/

/-- a one-AC message (decoded from an 8-byte payload) is re-encoded as four slots and decodes to four ACs -/
theorem roundtrip_fails_one_ac :
    decode (encodeBytes (.status [⟨0, ⟨false, 1, 2⟩, ⟨false, 3, 4⟩⟩])) 32 =
      .ok (.status [⟨0, ⟨false, 1, 2⟩, ⟨false, 3, 4⟩⟩, ⟨1, ⟨false, 0, 0⟩, ⟨false, 0, 0⟩⟩,
        ⟨2, ⟨false, 0, 0⟩, ⟨false, 0, 0⟩⟩, ⟨3, ⟨false, 0, 0⟩, ⟨false, 0, 0⟩⟩], []) := by
  rfl

/-- a five-AC message (decoded from a 40-byte payload) cannot be encoded: `struct.error` -/
theorem encode_fails_five_acs (l : List AcTimerStatusData) (on off : AcTimerState) :
    encode (.status (⟨4, on, off⟩ :: l)) = .error .structError := by
  simp [encode, encLoop, encStep, packTimerState, recSize, TIMER_STATUS_REPEAT_SIZE,
    TIMER_STATE_STRUCT_size, bind, Except.bind]

end PyAirtouch.Lemmas.At4X37
